(* Spec/Wf.v — the representation invariant of model values: what the Rust
   types guarantee by construction (i64/u64 ranges, u8 bytes, valid binary64,
   unique sorted map keys, chrono ranges).  Boolean, so it is also evaluated
   on every value the implementation returns. *)
From Coq Require Import ZArith List Bool.
From Rscel Require Import Base.Prims Base.F64 Model.Value Model.Ops.
Import ListNotations.
Open Scope Z_scope.

Definition byte_ok (b : Z) : bool := (0 <=? b) && (b <? 256).
Definition bytes_ok (s : bytes) : bool := forallb byte_ok s.

Fixpoint keys_sorted (ks : list bytes) : bool :=
  match ks with
  | k1 :: ((k2 :: _) as tl) =>
      match bytes_cmp k1 k2 with Lt => keys_sorted tl | _ => false end
  | _ => true
  end.

Definition err_ok (e : cel_error) : bool :=
  match e with
  | EBinding s => bytes_ok s
  | EAttribute s => bytes_ok s
  | ESyntax l c => (0 <=? l) && (0 <=? c)
  | _ => true
  end.

Fixpoint wf (v : value) : bool :=
  match v with
  | VInt z => in_i64 z
  | VUInt z => in_u64 z
  | VFloat f => f64_valid f
  | VBool _ => true
  | VString s => bytes_ok s
  | VBytes s => bytes_ok s
  | VList l => (fix go (l : list value) := match l with [] => true | x :: l' => wf x && go l' end) l
  | VMap m =>
      keys_sorted (map fst m) &&
      (fix go (m : list (bytes * value)) :=
         match m with [] => true | (k, x) :: m' => bytes_ok k && wf x && go m' end) m
  | VNull => true
  | VIdent s => bytes_ok s
  | VType s => bytes_ok s
  | VTime ns => in_time ns
  | VDur ns => in_dur ns
  | VCode c => (fix go (c : list instr) := match c with [] => true | i :: c' => wf_instr i && go c' end) c
  | VErr e => err_ok e
  end
with wf_instr (i : instr) : bool :=
  match i with
  | IPush v => wf v
  | IJmp d => in_i32 d
  | IJmpCond _ d => in_i32 d
  | IMkList n | IMkDict n | ICall n | IFmt n => in_u32 n
  | _ => true
  end.
