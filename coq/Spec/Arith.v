(* Spec/Arith.v — the statement of C03 in readable form: the mathematical
   operations and the widening table.  Independent of the model's structure. *)
From Coq Require Import ZArith List Bool.
From Rscel Require Import Base.Prims Base.F64 Model.Value.
Open Scope Z_scope.

Inductive aop := AAdd | ASub | AMul | ADiv | ARem.

(** The exact mathematical result on integers; [None] = undefined (zero divisor).
    Division truncates toward zero, remainder has the sign of the dividend. *)
Definition math (o : aop) (x y : Z) : option Z :=
  match o with
  | AAdd => Some (x + y)
  | ASub => Some (x - y)
  | AMul => Some (x * y)
  | ADiv => if y =? 0 then None else Some (Z.quot x y)
  | ARem => if y =? 0 then None else Some (Z.rem x y)
  end.

(** IEEE-754 binary64 operation (remainder is not defined on doubles). *)
Definition fmath (o : aop) (x y : f64) : option f64 :=
  match o with
  | AAdd => Some (f64_add x y)
  | ASub => Some (f64_sub x y)
  | AMul => Some (f64_mul x y)
  | ADiv => Some (f64_div x y)
  | ARem => None
  end.

(** Numeric tags and the widening table of the statement. *)
Inductive num := NInt (z : Z) | NUInt (z : Z) | NDouble (f : f64) | NBool (b : bool).

Definition num_of (v : value) : option num :=
  match v with
  | VInt z => Some (NInt z) | VUInt z => Some (NUInt z)
  | VFloat f => Some (NDouble f) | VBool b => Some (NBool b)
  | _ => None
  end.

(** Result of widening a pair: the common representation, or [WNone] when the
    pair has no common representation that preserves the numbers. *)
Inductive widened :=
| WInt (x y : Z) | WUInt (x y : Z) | WDouble (x y : f64) | WBool (x y : bool) | WNone.

Definition to_double (n : num) : f64 :=
  match n with
  | NInt z => f64_of_Z z | NUInt z => f64_of_Z z | NDouble f => f
  | NBool b => if b then f64_one else f64_zero
  end.

Definition widen (a b : num) : widened :=
  match a, b with
  | NDouble x, _ => WDouble x (to_double b)
  | _, NDouble y => WDouble (to_double a) y
  | NInt x, NInt y => WInt x y
  | NUInt x, NUInt y => WUInt x y
  | NInt x, NUInt y => if y <=? i64_max then WInt x y else WNone   (* int with uint gives int *)
  | NUInt x, NInt y => if x <=? i64_max then WInt x y else WNone
  | NInt x, NBool b => WInt x (b2z b)
  | NBool b, NInt y => WInt (b2z b) y
  | NUInt x, NBool b => WUInt x (b2z b)
  | NBool b, NUInt y => WUInt (b2z b) y
  | NBool x, NBool y => WBool x y
  end.

(** What a numeric operator must return on a widened pair: exact or error. *)
Definition arith_spec (o : aop) (w : widened) : option value :=   (* None = must be an error *)
  match w with
  | WInt x y => match math o x y with
                | Some r => if in_i64 r then Some (VInt r) else None
                | None => None end
  | WUInt x y => match math o x y with
                 | Some r => if in_u64 r then Some (VUInt r) else None
                 | None => None end
  | WDouble x y => match fmath o x y with Some r => Some (VFloat r) | None => None end
  | WBool _ _ => None
  | WNone => None
  end.
