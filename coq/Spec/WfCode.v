(* Spec/WfCode.v — C10: a boolean checker of bytecode well-formedness.
   Abstract interpretation of the stack height over the control-flow graph
   of a block: heights are tracked for the current pc and every pc after it;
   jumps must be forward and land inside the block or exactly at its end;
   paths that meet must agree; the block ends with exactly one value.
   Nested blocks ([Push(ByteCode)] operands) are checked hereditarily. *)
From Coq Require Import ZArith List Bool.
From Rscel Require Import Base.Prims Model.Value.
Import ListNotations.
Open Scope Z_scope.

(** values popped / pushed by an instruction that does not fail *)
Definition pops (i : instr) : nat :=
  match i with
  | IPush _ | IJmp _ => 0
  | IPop | ITest | IDup | INot | INeg | IJmpCond _ _ => 1
  | IOr | IAnd | IAdd | ISub | IMul | IDiv | IMod | ILt | ILe | IEq | INe | IGe | IGt | IIn
  | IIndex | IAccess => 2
  | IMkList n | IFmt n => Z.to_nat n
  | IMkDict n => 2 * Z.to_nat n
  | ICall n => S (Z.to_nat n)
  end%nat.

Definition pushes (i : instr) : nat :=
  match i with
  | IPop | IJmp _ | IJmpCond _ _ => 0
  | IDup => 2
  | _ => 1
  end%nat.

(** heights for pc+1.. (relative): set position j to k, failing on
    disagreement or when j is outside the block. *)
Fixpoint merge (hs : list (option nat)) (j : nat) (k : nat) : option (list (option nat)) :=
  match hs, j with
  | [], _ => None
  | None :: r, O => Some (Some k :: r)
  | Some k0 :: r, O => if Nat.eqb k0 k then Some hs else None
  | h :: r, S j' => option_map (cons h) (merge r j' k)
  end.

(** Inference pass (untrusted): returns the height decided for every pc,
    [None] for an instruction no path reaches. *)
Fixpoint infer (c : code) (hs : list (option nat)) : option (list (option nat)) :=
  match c, hs with
  | [], [h] => Some [h]
  | i :: c', h0 :: rest =>
      match h0 with
      | None => option_map (cons None) (infer c' rest)
      | Some k =>
          let k' := (k - pops i + pushes i)%nat in
          let next :=
            match i with
            | IJmp d => merge rest (Z.to_nat d) k'
            | IJmpCond _ d => match merge rest O k' with
                              | Some r1 => merge r1 (Z.to_nat d) k'
                              | None => None end
            | _ => merge rest O k'
            end in
          match next with
          | Some r => option_map (cons (Some k)) (infer c' r)
          | None => None
          end
      end
  | _, _ => None
  end.

Definition init_heights (c : code) : list (option nat) := Some O :: repeat None (length c).

(** Validation (the trusted part): local consistency of a height assignment
    [H] (one entry per pc, plus one for the end of the block). *)
Definition height_is (H : list (option nat)) (pc : nat) (k : nat) : bool :=
  match nth_error H pc with Some (Some k0) => Nat.eqb k0 k | _ => false end.

Definition valid_at (wf_nested : code -> bool) (len : nat) (H : list (option nat)) (pc : nat) (i : instr) : bool :=
  (match i with IPush (VCode b) => wf_nested b | _ => true end) &&
  (match i with
   | IJmp d | IJmpCond _ d => (0 <=? d) && (Z.of_nat (S pc) + d <=? Z.of_nat len)
   | _ => true
   end) &&
  match nth_error H pc with
  | Some (Some k) =>
      Nat.leb (pops i) k &&
      let k' := (k - pops i + pushes i)%nat in
      match i with
      | IJmp d => height_is H (S pc + Z.to_nat d) k'
      | IJmpCond _ d => height_is H (S pc) k' && height_is H (S pc + Z.to_nat d) k'
      | _ => height_is H (S pc) k'
      end
  | Some None => true
  | None => false
  end.

Fixpoint valid_from (wf_nested : code -> bool) (len : nat) (H : list (option nat)) (pc : nat) (c : code) : bool :=
  match c with
  | [] => true
  | i :: c' => valid_at wf_nested len H pc i && valid_from wf_nested len H (S pc) c'
  end.

Definition validate (wf_nested : code -> bool) (c : code) (H : list (option nat)) : bool :=
  Nat.eqb (length H) (S (length c)) &&
  height_is H O O && height_is H (length c) 1 &&
  valid_from wf_nested (length c) H O c.

(** Hereditary well-formedness; [fuel] bounds the nesting of code blocks. *)
Fixpoint wf_code (fuel : nat) (c : code) : bool :=
  match fuel with
  | O => false
  | S f => match infer c (init_heights c) with
           | Some H => validate (wf_code f) c H
           | None => false
           end
  end.

(** nesting depth of code blocks, for choosing the fuel *)
Fixpoint instr_depth (i : instr) : nat :=
  match i with IPush v => value_depth v | _ => O end
with value_depth (v : value) : nat :=
  match v with
  | VCode c => S ((fix go (c : list instr) : nat :=
                     match c with [] => O | i :: r => Nat.max (instr_depth i) (go r) end) c)
  | _ => O
  end.
Definition code_depth (c : code) : nat := S (value_depth (VCode c)).
