(* Spec/FreeIdents.v — C17: the identifiers an expression mentions in a
   position where they are read (operands, callees and receivers, call
   arguments incl. macro ranges and bodies, index expressions, map keys and
   values, match scrutinee / comparison patterns / arms, both branches of a
   conditional, f-string segments).  A plain recursion over the syntax tree,
   independent of code generation; member names after '.' and type patterns
   are not identifiers.  [fuel] bounds the nesting depth (as in the parser). *)
From Coq Require Import ZArith List Bool.
From Rscel Require Import Base.Prims Base.Text Model.Value Model.Lexer Model.Ast Model.Parser.
Import ListNotations.
Open Scope Z_scope.

Section Levels.
  Variable rec : expr -> list bytes.          (* nested expressions *)
  Variable rec_src : chars -> list bytes.     (* f-string segment text *)

  Definition fi_lit (l : lit) : list bytes :=
    match l with
    | LFStr segs => flat_map (fun s => match s with FExpr t => rec_src t | FLit _ => [] end) segs
    | _ => []
    end.

  Definition fi_primary (p : primary) : list bytes :=
    match p with
    | PrIdent _ n => [utf8_encode n]
    | PrParens _ e => rec e
    | PrList _ es => flat_map rec es
    | PrObj _ inits => flat_map (fun i => match i with ObjInit _ k v => rec v ++ rec k end) inits
    | PrLit _ l => fi_lit l
    end.

  (** one postfix operator applied to what was collected so far *)
  Definition fi_mprime (cur : list bytes) (m : mprime) : list bytes :=
    match m with
    | MPAccess _ _ _ => cur
    | MPCall _ rargs => flat_map rec rargs ++ cur
    | MPIndex _ e => cur ++ rec e
    end.

  Definition fi_member (m : member) : list bytes :=
    match m with Member _ p ms => fold_left fi_mprime ms (fi_primary p) end.

  Definition fi_unary (u : unary) : list bytes :=
    match u with UnMember _ m | UnNot _ _ m | UnNeg _ _ m => fi_member m end.

  Fixpoint fi_mult (e : mult) : list bytes :=
    match e with MulUn _ u => fi_unary u | MulBin _ l _ r => fi_mult l ++ fi_unary r end.
  Fixpoint fi_addn (e : addn) : list bytes :=
    match e with AddUn _ u => fi_mult u | AddBin _ l _ r => fi_addn l ++ fi_mult r end.
  Fixpoint fi_rel (e : rel) : list bytes :=
    match e with RelUn _ u => fi_addn u | RelBin _ l _ r => fi_rel l ++ fi_addn r end.
  Fixpoint fi_cand (e : cand) : list bytes :=
    match e with AndUn _ u => fi_rel u | AndBin _ l r => fi_cand l ++ fi_rel r end.
  Fixpoint fi_cor (e : cor) : list bytes :=
    match e with OrUn _ u => fi_cand u | OrBin _ l r => fi_cor l ++ fi_cand r end.

  Definition fi_pattern (p : mpat) : list bytes :=
    match p with MPatCmp _ _ _ o => fi_cor o | _ => [] end.

  Fixpoint fi_cases (cs : list mcase) : list bytes :=
    match cs with
    | [] => []
    | MCase _ p arm :: r => fi_pattern p ++ (rec arm ++ fi_cases r)
    end.

  Definition fi_expr_body (e : expr) : list bytes :=
    match e with
    | EUnary _ c => fi_cor c
    | ETernary _ c t f => fi_cor c ++ (fi_cor t ++ rec f)
    | EMatch _ c cases => rec c ++ fi_cases cases
    end.
End Levels.

Fixpoint free_idents (fuel : nat) (e : expr) : list bytes :=
  match fuel with
  | O => []
  | S f =>
      fi_expr_body (free_idents f)
        (fun s => match p_expr f (tz_init s) with POk e' _ => free_idents f e' | _ => [] end) e
  end.
