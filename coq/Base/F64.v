(* Base/F64.v — binary64 as Coq's [spec_float] (no NaN payloads), operations
   from Coq's [Floats.SpecFloat] at prec = 53, emax = 1024.  Proofs/F64Facts.v
   ties each operation to Flocq's [BinarySingleNaN] operation with its
   correctness theorem. *)
From Coq Require Import ZArith Bool List.
From Coq Require Import Floats.SpecFloat.
Import ListNotations.
Open Scope Z_scope.

Definition f64 := spec_float.
Definition prec64 : Z := 53.
Definition emax64 : Z := 1024.

Definition f64_valid (x : f64) : bool := valid_binary prec64 emax64 x.

Definition f64_add := SFadd prec64 emax64.
Definition f64_sub := SFsub prec64 emax64.
Definition f64_mul := SFmul prec64 emax64.
Definition f64_div := SFdiv prec64 emax64.
Definition f64_sqrt := SFsqrt prec64 emax64.
Definition f64_neg := SFopp.
Definition f64_abs := SFabs.
Definition f64_cmp := SFcompare.  (* [None] iff a NaN is involved *)
Definition f64_eqb := SFeqb.
Definition f64_is_nan (x : f64) : bool := match x with S754_nan => true | _ => false end.
Definition f64_is_zero (x : f64) : bool := match x with S754_zero _ => true | _ => false end.

Definition f64_zero : f64 := S754_zero false.
Definition f64_one : f64 := S754_finite false 4503599627370496 (-52).

(** [z as f64] for an integer: round to nearest even; 0 is +0.0. *)
Definition f64_of_Z (z : Z) : f64 := binary_normalize prec64 emax64 z 0 false.

(** Truncation toward zero of a finite float, as an (unbounded) integer. *)
Definition f64_trunc (x : f64) : option Z :=
  match x with
  | S754_zero _ => Some 0
  | S754_finite s m e =>
      let mag := if 0 <=? e then Zpos m * 2 ^ e else Zpos m / 2 ^ (- e) in
      Some (if s then - mag else mag)
  | _ => None
  end.

(** [x as i64]: truncate, saturate, NaN -> 0. *)
Definition f64_to_i64 (x : f64) : Z :=
  match x with
  | S754_nan => 0
  | S754_infinity s => if s then -9223372036854775808 else 9223372036854775807
  | _ => match f64_trunc x with
         | Some z => Z.max (-9223372036854775808) (Z.min 9223372036854775807 z)
         | None => 0
         end
  end.

Definition f64_to_u64 (x : f64) : Z :=
  match x with
  | S754_nan => 0
  | S754_infinity s => if s then 0 else 18446744073709551615
  | _ => match f64_trunc x with
         | Some z => Z.max 0 (Z.min 18446744073709551615 z)
         | None => 0
         end
  end.

(** Bit-level encoding (IEEE interchange format); all NaNs decode to
    [S754_nan] and encode to the canonical quiet NaN 0x7ff8000000000000. *)
Definition f64_of_bits (b : Z) : f64 :=
  let s := 9223372036854775808 <=? b in
  let r := b mod 9223372036854775808 in
  let e := r / 4503599627370496 in
  let m := r mod 4503599627370496 in
  if e =? 0 then
    match m with
    | Zpos p => S754_finite s p (-1074)
    | _ => S754_zero s
    end
  else if e =? 2047 then
    (if m =? 0 then S754_infinity s else S754_nan)
  else
    match m + 4503599627370496 with
    | Zpos p => S754_finite s p (e - 1075)
    | _ => S754_nan
    end.

Definition f64_to_bits (x : f64) : Z :=
  let sb (s : bool) := if s then 9223372036854775808 else 0 in
  match x with
  | S754_zero s => sb s
  | S754_infinity s => sb s + 9218868437227405312
  | S754_nan => 9221120237041090560
  | S754_finite s m e =>
      if Zpos m <? 4503599627370496 then sb s + Zpos m
      else sb s + (e + 1075) * 4503599627370496 + (Zpos m - 4503599627370496)
  end.

(** Rounding to an integral float: floor / ceil / round-half-away. *)
Definition f64_floor_Z (x : f64) : option Z :=
  match x with
  | S754_zero _ => Some 0
  | S754_finite s m e =>
      if 0 <=? e then Some ((if s then -1 else 1) * (Zpos m * 2 ^ e))
      else let q := Zpos m / 2 ^ (- e) in
           let exact := Zpos m mod 2 ^ (- e) =? 0 in
           Some (if s then (if exact then - q else - q - 1) else q)
  | _ => None
  end.

Definition f64_ceil_Z (x : f64) : option Z :=
  match x with
  | S754_zero _ => Some 0
  | S754_finite s m e =>
      if 0 <=? e then Some ((if s then -1 else 1) * (Zpos m * 2 ^ e))
      else let q := Zpos m / 2 ^ (- e) in
           let exact := Zpos m mod 2 ^ (- e) =? 0 in
           Some (if s then - q else (if exact then q else q + 1))
  | _ => None
  end.

(** round half away from zero (Rust [f64::round]) *)
Definition f64_round_Z (x : f64) : option Z :=
  match x with
  | S754_zero _ => Some 0
  | S754_finite s m e =>
      if 0 <=? e then Some ((if s then -1 else 1) * (Zpos m * 2 ^ e))
      else let d := 2 ^ (- e) in
           let q := Zpos m / d in
           let r := Zpos m mod d in
           let mag := if d <=? 2 * r then q + 1 else q in
           Some (if s then - mag else mag)
  | _ => None
  end.

Definition sat_i64 (z : Z) : Z := Z.max (-9223372036854775808) (Z.min 9223372036854775807 z).

(** [x.floor() as i64] etc.: NaN -> 0, infinities saturate. *)
Definition f64_round_to_i64 (rnd : f64 -> option Z) (x : f64) : Z :=
  match x with
  | S754_nan => 0
  | S754_infinity s => if s then -9223372036854775808 else 9223372036854775807
  | _ => match rnd x with Some z => sat_i64 z | None => 0 end
  end.
