(* Base/Prims.v — Rust primitive semantics used by the rscel model.
   No proofs here (see Proofs/).  Integers are unbounded Z with explicit
   range predicates; every Rust operation that can overflow is modelled by
   the checked form the (repaired) source actually calls. *)
From Coq Require Import ZArith List Bool.
Import ListNotations.
Open Scope Z_scope.

Definition i64_min : Z := -9223372036854775808.
Definition i64_max : Z := 9223372036854775807.
Definition u64_max : Z := 18446744073709551615.
Definition i32_min : Z := -2147483648.
Definition i32_max : Z := 2147483647.
Definition u32_max : Z := 4294967295.

Definition in_i64 (z : Z) : bool := (i64_min <=? z) && (z <=? i64_max).
Definition in_u64 (z : Z) : bool := (0 <=? z) && (z <=? u64_max).
Definition in_i32 (z : Z) : bool := (i32_min <=? z) && (z <=? i32_max).
Definition in_u32 (z : Z) : bool := (0 <=? z) && (z <=? u32_max).

Definition checked_i64 (z : Z) : option Z := if in_i64 z then Some z else None.
Definition checked_u64 (z : Z) : option Z := if in_u64 z then Some z else None.

(** [x as i64] / [x as u64] / [x as u32] / [x as i32] between integer types: wrap. *)
Definition wrap_u64 (z : Z) : Z := z mod 18446744073709551616.
Definition wrap_i64 (z : Z) : Z :=
  let m := z mod 18446744073709551616 in
  if m <=? i64_max then m else m - 18446744073709551616.
Definition wrap_u32 (z : Z) : Z := z mod 4294967296.
Definition wrap_i32 (z : Z) : Z :=
  let m := z mod 4294967296 in
  if m <=? i32_max then m else m - 4294967296.

(** Byte strings: Rust [String] is modelled by its UTF-8 bytes, [CelBytes] by
    its bytes.  Each element is in [0,256). *)
Definition bytes := list Z.

Fixpoint bytes_eqb (a b : bytes) : bool :=
  match a, b with
  | [], [] => true
  | x :: a', y :: b' => (x =? y) && bytes_eqb a' b'
  | _, _ => false
  end.

(** Lexicographic comparison = [Ord for [u8]] = [Ord for str]. *)
Fixpoint bytes_cmp (a b : bytes) : comparison :=
  match a, b with
  | [], [] => Eq
  | [], _ :: _ => Lt
  | _ :: _, [] => Gt
  | x :: a', y :: b' =>
      match x ?= y with
      | Eq => bytes_cmp a' b'
      | c => c
      end
  end.

Fixpoint is_prefix (p s : bytes) : bool :=
  match p, s with
  | [], _ => true
  | x :: p', y :: s' => (x =? y) && is_prefix p' s'
  | _ :: _, [] => false
  end.

(** [str::contains]: substring test on bytes (UTF-8 is self-synchronising,
    so for valid UTF-8 operands this is the char-level test). *)
Fixpoint contains (needle hay : bytes) : bool :=
  is_prefix needle hay ||
  match hay with
  | [] => false
  | _ :: hay' => contains needle hay'
  end.

Definition zlen {A} (l : list A) : Z := Z.of_nat (length l).

(** Safe indexing with Z index: [None] outside [0, len). *)
Fixpoint znth {A} (l : list A) (i : Z) : option A :=
  match l with
  | [] => None
  | x :: l' => if i =? 0 then Some x else if i <? 0 then None else znth l' (i - 1)
  end.

Definition b2z (b : bool) : Z := if b then 1 else 0.
