(* Base/FloatText.v — decimal text -> binary64 ([str::parse::<f64>]): the
   correctly rounded value of mantissa * 10^exponent (Proofs/FloatLit.v), the
   number grammar shared by the tokenizer and by double(string). *)
From Coq Require Import ZArith List Bool.
From Coq Require Import Floats.SpecFloat.
From Rscel Require Import Base.Prims Base.F64 Base.Text.
Import ListNotations.
Open Scope Z_scope.

(** Decimal floats ([str::parse::<f64>] on the collected text): the value is
    the correctly rounded binary64 of mantissa * 10^exponent. *)
Definition dec_to_f64 (m : Z) (e : Z) : f64 :=
  match m with
  | Z0 => S754_zero false
  | Zneg _ => S754_nan
  | Zpos pm =>
      if 0 <=? e then
        (* exact integer, then one rounding *)
        binary_normalize prec64 emax64 (m * 10 ^ e) 0 false
      else
        match 10 ^ (- e) with
        | Zpos pd =>
            let '(mz, ez, lz) := SFdiv_core_binary prec64 emax64 (Zpos pm) 0 (Zpos pd) 0 in
            binary_round_aux prec64 emax64 false mz ez lz
        | _ => S754_nan
        end
  end.

(** Text of a number as collected by [parse_number_or_token]: digits with at
    most one '.', optional exponent.  [parse_float_text] mirrors Rust's grammar
    for the shapes the tokenizer can produce. *)
Fixpoint split_digits (s : list Z) (acc : Z) (n : Z) : Z * Z * list Z :=
  match s with
  | c :: r => if is_digit c then split_digits r (acc * 10 + (c - 48)) (n + 1) else (acc, n, s)
  | [] => (acc, n, s)
  end.

Definition parse_float_text (s : list Z) : option f64 :=
  let '(ip, ni, r1) := split_digits s 0 0 in
  let '(fp, nf, r2) := match r1 with
                       | 46 :: r => split_digits r ip 0      (* continue accumulating the mantissa *)
                       | _ => (ip, 0, r1)
                       end in
  if (ni + nf =? 0) then None else
  match r2 with
  | [] => Some (dec_to_f64 fp (- nf))
  | c :: r3 =>
      if (c =? 101) || (c =? 69) then
        let '(neg, r4) := match r3 with
                          | 43 :: r => (false, r)
                          | 45 :: r => (true, r)
                          | _ => (false, r3)
                          end in
        let '(ev, ne, r5) := split_digits r4 0 0 in
        if (ne =? 0) then None else
        match r5 with
        | [] => (* beyond ni+nf+2000 the result is already 0 or infinity: clamping is exact *)
                let ev' := Z.min ev (ni + nf + 2000) in
                Some (dec_to_f64 fp ((if neg then - ev' else ev') - nf))
        | _ => None
        end
      else None
  end.


(** [f64::from_str]: optional sign, then "inf" / "infinity" / "nan" in any
    case, or a number (digits with at most one '.', at least one digit,
    optional exponent).  No whitespace, nothing else. *)
Definition lower_byte (b : Z) : Z := if (65 <=? b) && (b <=? 90) then b + 32 else b.
Definition rust_parse_f64 (s : list Z) : option f64 :=
  let '(neg, r) := match s with
                   | 43 :: r => (false, r)
                   | 45 :: r => (true, r)
                   | _ => (false, s)
                   end in
  let low := map lower_byte r in
  let sign x := if neg then SFopp x else x in
  if bytes_eqb low [105; 110; 102] || bytes_eqb low [105; 110; 102; 105; 110; 105; 116; 121]
  then Some (sign (S754_infinity false))
  else if bytes_eqb low [110; 97; 110] then Some S754_nan
  else match parse_float_text r with
       | Some x => Some (sign x)
       | None => None
       end.
