(* Base/Text.v — UTF-8 and decimal text, as Rust's std does them
   (String::from_utf8, char::encode_utf8, {integer}::to_string / from_str). *)
From Coq Require Import ZArith List Bool.
From Rscel Require Import Base.Prims.
Import ListNotations.
Open Scope Z_scope.

(** Unicode scalar values: 0..0x10FFFF without the surrogates. *)
Definition is_scalar (c : Z) : bool :=
  ((0 <=? c) && (c <? 55296)) || ((57344 <=? c) && (c <=? 1114111)).

Definition utf8_encode_char (c : Z) : bytes :=
  if c <? 128 then [c]
  else if c <? 2048 then [192 + c / 64; 128 + c mod 64]
  else if c <? 65536 then [224 + c / 4096; 128 + (c / 64) mod 64; 128 + c mod 64]
  else [240 + c / 262144; 128 + (c / 4096) mod 64; 128 + (c / 64) mod 64; 128 + c mod 64].

Definition utf8_encode (cs : list Z) : bytes := flat_map utf8_encode_char cs.

Definition is_cont (b : Z) : bool := (128 <=? b) && (b <? 192).

(** Strict decoder (shortest form only, no surrogates, <= 0x10FFFF), i.e. the
    acceptance condition of [String::from_utf8].  [fuel] = number of bytes. *)
Fixpoint utf8_decode_fuel (fuel : nat) (bs : bytes) : option (list Z) :=
  match fuel with
  | O => match bs with [] => Some [] | _ => None end
  | S f =>
    match bs with
    | [] => Some []
    | b0 :: r0 =>
      if b0 <? 128 then option_map (cons b0) (utf8_decode_fuel f r0)
      else if b0 <? 194 then None
      else if b0 <? 224 then
        match r0 with
        | b1 :: r1 =>
            if is_cont b1 then
              option_map (cons ((b0 - 192) * 64 + (b1 - 128))) (utf8_decode_fuel f r1)
            else None
        | _ => None
        end
      else if b0 <? 240 then
        match r0 with
        | b1 :: b2 :: r2 =>
            let c := (b0 - 224) * 4096 + (b1 - 128) * 64 + (b2 - 128) in
            if is_cont b1 && is_cont b2 && (2048 <=? c) && is_scalar c then
              option_map (cons c) (utf8_decode_fuel f r2)
            else None
        | _ => None
        end
      else if b0 <? 245 then
        match r0 with
        | b1 :: b2 :: b3 :: r3 =>
            let c := (b0 - 240) * 262144 + (b1 - 128) * 4096 + (b2 - 128) * 64 + (b3 - 128) in
            if is_cont b1 && is_cont b2 && is_cont b3 && (65536 <=? c) && (c <=? 1114111) then
              option_map (cons c) (utf8_decode_fuel f r3)
            else None
        | _ => None
        end
      else None
    end
  end.

Definition utf8_decode (bs : bytes) : option (list Z) := utf8_decode_fuel (length bs) bs.
Definition utf8_valid (bs : bytes) : bool :=
  match utf8_decode bs with Some _ => true | None => false end.

(** Decimal digits. *)
Definition is_digit (b : Z) : bool := (48 <=? b) && (b <=? 57).

Fixpoint digits_value (acc : Z) (ds : bytes) : option Z :=
  match ds with
  | [] => Some acc
  | d :: r => if is_digit d then digits_value (acc * 10 + (d - 48)) r else None
  end.

(** [u64::from_str] / [i64::from_str]: optional sign ('+' always, '-' only
    for signed), at least one digit, only ASCII digits, value in range. *)
Definition parse_u64 (s : bytes) : option Z :=
  let ds := match s with 43 :: r => r | _ => s end in
  match ds with
  | [] => None
  | _ => match digits_value 0 ds with
         | Some v => if in_u64 v then Some v else None
         | None => None
         end
  end.

Definition parse_i64 (s : bytes) : option Z :=
  let '(neg, ds) := match s with
                    | 43 :: r => (false, r)
                    | 45 :: r => (true, r)
                    | _ => (false, s)
                    end in
  match ds with
  | [] => None
  | _ => match digits_value 0 ds with
         | Some v => let v' := if neg then - v else v in
                     if in_i64 v' then Some v' else None
         | None => None
         end
  end.

(** Decimal rendering of a natural number, most significant digit first.
    [fuel] bounds the number of digits. *)
Fixpoint dec_digits (fuel : nat) (n : Z) (acc : bytes) : bytes :=
  match fuel with
  | O => acc
  | S f => let acc' := (48 + n mod 10) :: acc in
           if n <? 10 then acc' else dec_digits f (n / 10) acc'
  end.

Definition dec_of_nonneg (n : Z) : bytes := dec_digits (S (Z.to_nat (Z.log2 n))) n [].
Definition dec_of_Z (z : Z) : bytes :=
  if z <? 0 then 45 :: dec_of_nonneg (- z) else dec_of_nonneg z.

(** ASCII case mapping (non-ASCII text is outside the model: see Funcs). *)
Definition is_ascii (s : bytes) : bool := forallb (fun b => b <? 128) s.
Definition ascii_lower (b : Z) : Z := if (65 <=? b) && (b <=? 90) then b + 32 else b.
Definition ascii_upper (b : Z) : Z := if (97 <=? b) && (b <=? 122) then b - 32 else b.
