(* Base/FloatPrint.v — f64 Display (Rust's `{}`): the shortest decimal digit
   string that reads back as the same double (the closer one of the two
   candidates of that length), written positionally without exponent.
   Every candidate text is read back with the model's own [rust_parse_f64]
   before it is accepted, so what the printer returns reads back by
   construction; that a candidate is always found by 17 digits is validated
   by the tie, not proved. *)
From Coq Require Import ZArith List Bool.
From Coq Require Import Floats.SpecFloat.
From Rscel Require Import Base.Prims Base.F64 Base.Text Base.FloatText.
Import ListNotations.
Open Scope Z_scope.

Definition sf_eqb (a b : f64) : bool :=
  match a, b with
  | S754_zero s1, S754_zero s2 => Bool.eqb s1 s2
  | S754_infinity s1, S754_infinity s2 => Bool.eqb s1 s2
  | S754_nan, S754_nan => true
  | S754_finite s1 m1 e1, S754_finite s2 m2 e2 => Bool.eqb s1 s2 && Pos.eqb m1 m2 && (e1 =? e2)
  | _, _ => false
  end.

(** x = num / den, both positive *)
Definition ratio_of (m : positive) (e : Z) : Z * Z :=
  if 0 <=? e then (Zpos m * 2 ^ e, 1) else (Zpos m, 2 ^ (- e)).

(** k with 10^(k-1) <= num/den < 10^k *)
Fixpoint adjust_k (fuel : nat) (num den k : Z) : Z :=
  match fuel with
  | O => k
  | S f =>
      let lo := if 0 <=? k - 1 then (10 ^ (k - 1) * den <=? num) else (den <=? num * 10 ^ (1 - k)) in
      let hi := if 0 <=? k then (num <? 10 ^ k * den) else (num * 10 ^ (- k) <? den) in
      if negb lo then adjust_k f num den (k - 1) else if negb hi then adjust_k f num den (k + 1) else k
  end.
Definition dec_exponent (num den : Z) : Z :=
  adjust_k 8 num den (((Z.log2 num - Z.log2 den) * 30103) / 100000 + 1).

(** digits of a positive integer without trailing zeros, and how many zeros were dropped *)
Fixpoint strip_zeros (fuel : nat) (d : Z) (z : Z) : Z * Z :=
  match fuel with
  | O => (d, z)
  | S f => if (d mod 10 =? 0) && negb (d =? 0) then strip_zeros f (d / 10) (z + 1) else (d, z)
  end.

Definition zeros (n : Z) : bytes := repeat 48 (Z.to_nat n).

(** positional text of digits * 10^exp10 (digits > 0 without trailing zeros) *)
Definition positional (digits : Z) (exp10 : Z) : bytes :=
  let ds := dec_of_nonneg digits in
  let n := Z.of_nat (length ds) in
  let k := n + exp10 in                    (* value = 0.ds * 10^k *)
  if k <=? 0 then 48 :: 46 :: zeros (- k) ++ ds
  else if n <=? k then ds ++ zeros (k - n)
  else firstn (Z.to_nat k) ds ++ 46 :: skipn (Z.to_nat k) ds.

Definition candidate_text (d : Z) (e10 : Z) : bytes :=
  let '(d', z) := strip_zeros 20 d 0 in positional d' (e10 + z).

(** n significant digits: the two neighbours of x, the one that reads back (the closer one first) *)
Definition try_digits (x : f64) (num den k n : Z) : option bytes :=
  let e10 := k - n in
  let '(snum, sden) := if 0 <=? n - k then (num * 10 ^ (n - k), den) else (num, den * 10 ^ (k - n)) in
  let d := snum / sden in
  let r := snum mod sden in
  let lower_first := 2 * r <? sden in       (* an exact tie goes to the upper neighbour, as Rust prints it *)
  let ok c := match rust_parse_f64 (candidate_text c e10) with Some y => sf_eqb y x | None => false end in
  let c1 := if lower_first then d else d + 1 in
  let c2 := if lower_first then d + 1 else d in
  if (0 <? c1) && ok c1 then Some (candidate_text c1 e10)
  else if (0 <? c2) && ok c2 then Some (candidate_text c2 e10)
  else None.

Fixpoint shortest (fuel : nat) (x : f64) (num den k n : Z) : option bytes :=
  match fuel with
  | O => None
  | S f => match try_digits x num den k n with
           | Some s => Some s
           | None => shortest f x num den k (n + 1)
           end
  end.

Definition print_f64 (x : f64) : option bytes :=
  match x with
  | S754_nan => Some [78; 97; 78]
  | S754_infinity false => Some [105; 110; 102]
  | S754_infinity true => Some [45; 105; 110; 102]
  | S754_zero false => Some [48]
  | S754_zero true => Some [45; 48]
  | S754_finite s m e =>
      let '(num, den) := ratio_of m e in
      match shortest 17 (S754_finite false m e) num den (dec_exponent num den) 1 with
      | Some t => Some (if s then 45 :: t else t)
      | None => None
      end
  end.
