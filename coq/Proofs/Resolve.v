(* Proofs/Resolve.v — C12: the order in which names resolve, the order in
   call position, fields before methods, and the depth bound on chains of
   program references (finite chains, too-deep chains, cycles). *)
From Coq Require Import ZArith List Bool Lia.
From Rscel Require Import Base.Prims Base.F64 Base.Text Model.Value Model.Ops Model.Dispatch Model.Funcs Model.Interp.
From Rscel Require Import Proofs.VM Proofs.Blocks.
Import ListNotations.
Open Scope Z_scope.

(* ---- identifiers ------------------------------------------------------------------ *)

Section Order.
  Variable rs : runner.
  Variable E : env.
  Variable d : nat.

  (** type, then variable, then stored program (same environment, i.e. the
      same bindings), else a Binding error value *)
  Theorem resolve_order name lg :
    resolve_ident rs E d name lg =
    match env_type E name, env_param E name, assoc name (e_progs E) with
    | Some t, _, _ => (ROk t, lg)
    | None, Some v, _ => (ROk v, lg)
    | None, None, Some c => rs E c true d lg
    | None, None, None =>
        match e_now E with          (* no clock = the compiler folding constants: the evaluation ends *)
        | None => (RErr (EBinding name), runtime_mark :: lg)   (* ... and is remembered *)
        | Some _ => (ROk (VErr (EBinding name)), lg)
        end
    end.
  Proof.
    unfold resolve_ident. destruct (env_type E name); [reflexivity|].
    destruct (env_param E name); [reflexivity|]. destruct (assoc name (e_progs E)); [reflexivity|].
    destruct (e_now E); reflexivity.
  Qed.

  Corollary type_wins name t lg : env_type E name = Some t -> resolve_ident rs E d name lg = (ROk t, lg).
  Proof. intros H. rewrite resolve_order, H. reflexivity. Qed.

  Corollary variable_wins_over_program name v lg :
    env_type E name = None -> env_param E name = Some v -> resolve_ident rs E d name lg = (ROk v, lg).
  Proof. intros H1 H2. rewrite resolve_order, H1, H2. reflexivity. Qed.

  Corollary program_under_same_bindings name c lg :
    env_type E name = None -> env_param E name = None -> assoc name (e_progs E) = Some c ->
    resolve_ident rs E d name lg = rs E c true d lg.
  Proof. intros H1 H2 H3. rewrite resolve_order, H1, H2, H3. reflexivity. Qed.

  Corollary unbound_fails name lg t :
    env_type E name = None -> env_param E name = None -> assoc name (e_progs E) = None -> e_now E = Some t ->
    resolve_ident rs E d name lg = (ROk (VErr (EBinding name)), lg).
  Proof. intros H1 H2 H3 H4. rewrite resolve_order, H1, H2, H3, H4. reflexivity. Qed.

  (* ---- call position -------------------------------------------------------------- *)

  (** a name in call position: bound or default function, then macro, then
      type constructor, else "not callable" *)
  Theorem call_order name n st lg :
    step rs E d (ICall n) (SVal (VIdent name) :: st) lg =
    match pop_n rs E d (Z.to_nat n) st lg with
    | (ROk (args, st2), lg1) =>
        if has_func E name then
          (do vals <- resolve_args rs E d args; do r <- call_func E name VNull vals; mret (None, push r st2)) lg1
        else if has_macro E name then
          (do r <- call_macro rs E d name VNull args; mret (None, push r st2)) lg1
        else match env_type E name with
             | Some (VType tn) =>
                 (do vals <- resolve_args rs E d args;
                  do _ <- note_clock E (asks_clock_ty tn vals);
                  do r <- mlift (construct_type (e_now E) tn vals); mret (None, push r st2)) lg1
             | _ => (if folding E then mfail_runtime ERuntime else mret (None, push (VErr ERuntime) st2)) lg1
             end
    | (o, lg1) => (mcast o, lg1)
    end.
  Proof.
    cbn [step]. unfold mbind at 1. cbn [pop_noresolve mret]. unfold mbind at 1.
    destruct (pop_n rs E d (Z.to_nat n) st lg) as [[[args st2]| | | |] lg1]; try reflexivity.
    destruct (has_func E name); [reflexivity|]. destruct (has_macro E name); [reflexivity|].
    destruct (env_type E name) as [t|]; [destruct t|]; reflexivity.
  Qed.

  (** not callable: neither function, macro nor type *)
  Corollary not_callable name st lg :
    has_func E name = false -> has_macro E name = false -> env_type E name = None -> folding E = false ->
    step rs E d (ICall 0) (SVal (VIdent name) :: st) lg = (ROk (None, push (VErr ERuntime) st), lg).
  Proof. intros H1 H2 H3 H4. rewrite call_order. cbn. rewrite H1, H2, H3, H4. reflexivity. Qed.

  (** ... and while the compiler folds constants it ends the evaluation (the name may be callable at run time) *)
  Corollary not_callable_stops_folding name st lg :
    has_func E name = false -> has_macro E name = false -> env_type E name = None -> folding E = true ->
    step rs E d (ICall 0) (SVal (VIdent name) :: st) lg = (RErr ERuntime, runtime_mark :: lg).
  Proof. intros H1 H2 H3 H4. rewrite call_order. cbn. rewrite H1, H2, H3, H4. reflexivity. Qed.

  (* ---- fields before methods ------------------------------------------------------ *)

  (** a map field wins over a function or macro of the same name *)
  Theorem field_over_method m f v st lg :
    map_get m f = Some v ->
    step rs E d IAccess (SVal (VIdent f) :: SVal (VMap m) :: st) lg = (ROk (None, push v st), lg).
  Proof.
    intros H. cbn [step]. unfold mbind at 1. cbn [pop_noresolve mret]. unfold mbind at 1.
    rewrite (resolves_plain rs E d (VMap m) lg I st). rewrite H. reflexivity.
  Qed.

  (** only when the field is absent does the name bind as a method *)
  Theorem method_when_no_field m f st lg :
    map_get m f = None -> has_func E f = true ->
    step rs E d IAccess (SVal (VIdent f) :: SVal (VMap m) :: st) lg = (ROk (None, SBound false f (VMap m) :: st), lg).
  Proof.
    intros H Hf. cbn [step]. unfold mbind at 1. cbn [pop_noresolve mret]. unfold mbind at 1.
    rewrite (resolves_plain rs E d (VMap m) lg I st). rewrite H, Hf. reflexivity.
  Qed.
End Order.

(* ---- depth ------------------------------------------------------------------------- *)

Lemma run_S fuel E c r d :
  run (S fuel) E c r d =
  if Nat.ltb 32 (S d) then mfail ERuntime
  else do st <- loop (run fuel) fuel E (S d) c O []; finish (run fuel) E (S d) r st.
Proof. reflexivity. Qed.

(** the guard: a run entered with 32 activations already open fails at once *)
Theorem run_depth_guard fuel E c r d lg : (32 <= d)%nat -> run (S fuel) E c r d lg = (RErr ERuntime, lg).
Proof.
  intros H. rewrite run_S. destruct (Nat.ltb 32 (S d)) eqn:L; [reflexivity|]. apply Nat.ltb_ge in L. lia.
Qed.

(** a program that is one identifier: run it = resolve the identifier one level deeper *)
Lemma run_ident fuel E name d lg : (d < 32)%nat ->
  run (S (S (S fuel))) E [IPush (VIdent name)] true d lg =
  match resolve_ident (run (S (S fuel))) E (S d) name lg with
  | (ROk (VErr e), lg') => (RErr e, lg')
  | (ROk v, lg') => (ROk v, lg')
  | (o, lg') => (mcast o, lg')
  end.
Proof.
  intros H. rewrite run_S. destruct (Nat.ltb 32 (S d)) eqn:L; [apply Nat.ltb_lt in L; lia|].
  set (rs := run (S (S fuel))).
  unfold mbind at 1. rewrite loop_S. cbn [nth_error step]. unfold mret at 1. unfold push.
  rewrite loop_S. cbn [nth_error].
  unfold finish, mbind. cbn [pop].
  unfold mbind.
  destruct (resolve_ident rs E (S d) name lg) as [[v|e| | |] lg']; try reflexivity.
  cbn [mret fst into_value]. destruct v; reflexivity.
Qed.

(** a program that is one plain value *)
Lemma run_value fuel E v d lg : (d < 32)%nat -> plainv v -> is_err v = false ->
  run (S (S (S fuel))) E [IPush v] true d lg = (ROk v, lg).
Proof.
  intros H Hp He. rewrite run_S. destruct (Nat.ltb 32 (S d)) eqn:L; [apply Nat.ltb_lt in L; lia|].
  set (rs := run (S (S fuel))).
  unfold mbind at 1. rewrite loop_S. cbn [nth_error step]. unfold mret at 1. unfold push.
  rewrite loop_S. cbn [nth_error].
  unfold finish, mbind. destruct v; try (destruct Hp); try discriminate He; reflexivity.
Qed.

Section Chains.
  Variable E : env.
  Variable nm : nat -> bytes.          (* the programs of the chain, in order *)
  Hypothesis Hty : forall i, env_type E (nm i) = None.
  Hypothesis Hpa : forall i, env_param E (nm i) = None.

  (** program i is a reference to program i+1 *)
  Definition links (i : nat) : Prop := assoc (nm i) (e_progs E) = Some [IPush (VIdent (nm (S i)))].

  (** A chain nm j -> nm (j+1) -> ... -> nm k ending in a value: started with
      d activations open it evaluates to that value exactly when the
      last program still fits under the limit of 32 activations. *)
  Theorem chain_ok v k : plainv v -> is_err v = false ->
    assoc (nm k) (e_progs E) = Some [IPush v] ->
    forall n j d fuel lg, (j + n = k)%nat -> (forall i, (j <= i < k)%nat -> links i) ->
      (d + n < 32)%nat -> (n + 3 <= fuel)%nat ->
      resolve_ident (run fuel) E d (nm j) lg = (ROk v, lg).
  Proof.
    intros Hp He Hk. induction n as [|n IH]; intros j d fuel lg Hj Hl Hd Hf.
    - assert (j = k) by lia. subst j. rewrite program_under_same_bindings with (c := [IPush v]); auto.
      destruct fuel as [|[|[|f]]]; try lia. apply run_value; [lia|assumption|assumption].
    - rewrite program_under_same_bindings with (c := [IPush (VIdent (nm (S j)))]); auto; [|apply Hl; lia].
      destruct fuel as [|[|[|f]]]; try lia. rewrite run_ident by lia.
      rewrite (IH (S j) (S d) (S (S f)) lg);
        [destruct v; try reflexivity; discriminate He|lia|intros i Hi; apply Hl; lia|lia|lia].
  Qed.

  (** A chain of references longer than the budget — in particular any cycle,
      which is an endless chain — ends in a runtime error, whatever the fuel
      beyond the few steps needed to get there. *)
  Theorem chain_too_deep : (forall i, links i) ->
    forall n j d fuel lg, (d + n = 32)%nat -> (n + 3 <= fuel)%nat ->
      resolve_ident (run fuel) E d (nm j) lg = (RErr ERuntime, lg).
  Proof.
    intros Hl. induction n as [|n IH]; intros j d fuel lg Hd Hf;
      (rewrite program_under_same_bindings with (c := [IPush (VIdent (nm (S j)))]); auto; [|apply Hl]);
      destruct fuel as [|[|[|f]]]; try lia.
    - apply run_depth_guard. lia.
    - rewrite run_ident by lia. rewrite (IH (S j) (S d) (S (S f)) lg) by lia. reflexivity.
  Qed.
End Chains.

(** exec of the head of a chain (depth counter starts at 0): up to 32
    programs evaluate, more — or a cycle — fail with a runtime error. *)
Theorem exec_chain_ok E nm v k fuel :
  (forall i, env_type E (nm i) = None) -> (forall i, env_param E (nm i) = None) ->
  plainv v -> is_err v = false -> assoc (nm k) (e_progs E) = Some [IPush v] ->
  (forall i, (i < k)%nat -> links E nm i) -> (k < 32)%nat -> (k + 3 <= fuel)%nat ->
  exec fuel E (nm 0%nat) = (ROk v, []).
Proof.
  intros Hty Hpa Hp He Hk Hl Hd Hf. unfold exec.
  pose proof (chain_ok E nm Hty Hpa v k Hp He Hk k 0%nat 0%nat fuel [] ltac:(lia)
                (fun i Hi => Hl i ltac:(lia)) ltac:(lia) ltac:(lia)) as H.
  destruct (assoc (nm 0%nat) (e_progs E)) as [c|] eqn:A.
  - rewrite (program_under_same_bindings (run fuel) E 0 (nm 0%nat) c []) in H; auto. rewrite H. reflexivity.
  - exfalso. destruct k as [|k]; [congruence|]. specialize (Hl 0%nat ltac:(lia)). unfold links in Hl. congruence.
Qed.

Theorem exec_chain_too_deep E nm fuel :
  (forall i, env_type E (nm i) = None) -> (forall i, env_param E (nm i) = None) ->
  (forall i, links E nm i) -> (35 <= fuel)%nat ->
  exec fuel E (nm 0%nat) = (RErr ERuntime, []).
Proof.
  intros Hty Hpa Hl Hf. unfold exec.
  pose proof (chain_too_deep E nm Hty Hpa Hl 32 0%nat 0%nat fuel [] ltac:(lia) ltac:(lia)) as H.
  rewrite (Hl 0%nat).
  rewrite (program_under_same_bindings (run fuel) E 0 (nm 0%nat) [IPush (VIdent (nm 1%nat))] []) in H; auto; [|apply Hl]. rewrite H. reflexivity.
Qed.

(** a program that names itself, and two programs that name each other *)
Corollary self_reference_fails E a fuel :
  env_type E a = None -> env_param E a = None -> assoc a (e_progs E) = Some [IPush (VIdent a)] ->
  (35 <= fuel)%nat -> exec fuel E a = (RErr ERuntime, []).
Proof.
  intros H1 H2 H3 Hf. apply (exec_chain_too_deep E (fun _ => a)); auto.
Qed.

Corollary mutual_reference_fails E a b fuel :
  env_type E a = None -> env_param E a = None -> env_type E b = None -> env_param E b = None ->
  assoc a (e_progs E) = Some [IPush (VIdent b)] -> assoc b (e_progs E) = Some [IPush (VIdent a)] ->
  (35 <= fuel)%nat -> exec fuel E a = (RErr ERuntime, []).
Proof.
  intros H1 H2 H3 H4 H5 H6 Hf.
  apply (exec_chain_too_deep E (fun i => if Nat.even i then a else b)); auto.
  - intros i. destruct (Nat.even i); assumption.
  - intros i. destruct (Nat.even i); assumption.
  - intros i. unfold links. rewrite Nat.even_succ, <- Nat.negb_even. destruct (Nat.even i); assumption.
Qed.
