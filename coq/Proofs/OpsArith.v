(* Proofs/OpsArith.v — C03: the model's numeric operators are exact or fail. *)
From Coq Require Import ZArith List Bool Lia.
From Coq Require Import Floats.SpecFloat.
From Rscel Require Import Base.Prims Base.F64 Model.Value Model.Ops Spec.Wf Spec.Arith.
From Rscel Require Import Proofs.F64Facts.
Import ListNotations.
Open Scope Z_scope.

Definition model_op (o : aop) : value -> value -> value :=
  match o with AAdd => add | ASub => sub | AMul => mul | ADiv => div | ARem => rem end.

Lemma in_i64_spec z : in_i64 z = true <-> i64_min <= z <= i64_max.
Proof. unfold in_i64. rewrite andb_true_iff, !Z.leb_le. tauto. Qed.
Lemma in_u64_spec z : in_u64 z = true <-> 0 <= z <= u64_max.
Proof. unfold in_u64. rewrite andb_true_iff, !Z.leb_le. tauto. Qed.

Lemma quot_u64 x y : 0 <= x <= u64_max -> 0 <= y -> y <> 0 -> 0 <= Z.quot x y <= u64_max.
Proof.
  unfold u64_max. intros Hx Hy Hn.
  assert (0 <= Z.quot x y) by (apply Z.quot_pos; lia).
  assert (Z.quot x y <= x) by (apply Z.quot_le_upper_bound; nia).
  lia.
Qed.

Lemma rem_i64 x y : i64_min <= x <= i64_max -> i64_min <= y <= i64_max -> y <> 0 ->
  i64_min <= Z.rem x y <= i64_max.
Proof.
  unfold i64_min, i64_max. intros Hx Hy Hn.
  pose proof (Z.rem_bound_abs x y Hn).
  destruct (Z_le_gt_dec 0 x).
  - pose proof (Z.rem_nonneg x y Hn l). lia.
  - assert (Z.rem x y <= 0) by (apply Z.rem_nonpos; lia). lia.
Qed.

Lemma rem_u64 x y : 0 <= x <= u64_max -> 0 <= y <= u64_max -> y <> 0 -> 0 <= Z.rem x y <= u64_max.
Proof.
  unfold u64_max. intros Hx Hy Hn.
  pose proof (Z.rem_bound_pos x y). lia.
Qed.

Ltac to_props := repeat match goal with
  | H : in_i64 _ = true |- _ => apply in_i64_spec in H
  | H : in_u64 _ = true |- _ => apply in_u64_spec in H
  | H : (_ <=? _) = true |- _ => apply Z.leb_le in H
  | H : (_ <=? _) = false |- _ => apply Z.leb_gt in H
  | H : (_ =? _) = false |- _ => apply Z.eqb_neq in H
  | H : (_ =? _) = true |- _ => apply Z.eqb_eq in H
  end.

(** The full characterisation on a numeric pair: the operator computes
    [arith_spec] of the widened pair, and is an error exactly when that is
    [None]. *)
Definition agrees (r : value) (s : option value) : Prop :=
  match s with Some v => r = v | None => is_err r = true end.

Theorem arith_exact_or_error :
  forall o a b na nb,
    wf a = true -> wf b = true ->
    num_of a = Some na -> num_of b = Some nb ->
    agrees (model_op o a b) (arith_spec o (widen na nb)).
Proof.
  intros o a b na nb Wa Wb Ha Hb.
  destruct a as [x|x|x|x| | | | | | | | | | | ]; simpl in Ha; try discriminate; injection Ha as <-;
  destruct b as [y|y|y|y| | | | | | | | | | | ]; simpl in Hb; try discriminate; injection Hb as <-;
  simpl in Wa, Wb;
  try match goal with x : bool |- _ => destruct x end; try match goal with x : bool |- _ => destruct x end; cbn [b2z].
  all: destruct o; unfold model_op, add, sub, mul, div, rem, error_prop_or; cbn [is_err type_prop widen to_double];
    unfold agrees, arith_spec, math, fmath, ck_int, ck_uint;
    repeat match goal with
    | |- context [if ?z <=? i64_max then _ else _] => destruct (z <=? i64_max) eqn:?
    | |- context [if ?z =? 0 then _ else _] => destruct (z =? 0) eqn:?
    | |- context [if in_i64 ?z then _ else _] => destruct (in_i64 z) eqn:?
    | |- context [if in_u64 ?z then _ else _] => destruct (in_u64 z) eqn:?
    end; try reflexivity.
  all: unfold b2z in *; try (exfalso; match goal with
    | H : in_u64 (Z.quot ?x ?y) = false |- _ =>
        assert (in_u64 (Z.quot x y) = true) by
          (apply in_u64_spec; to_props; apply quot_u64; unfold i64_max, u64_max, i64_min in *; lia); congruence
    | H : in_i64 (Z.rem ?x ?y) = false |- _ =>
        assert (in_i64 (Z.rem x y) = true) by
          (apply in_i64_spec; to_props; apply rem_i64; unfold i64_max, u64_max, i64_min in *; lia); congruence
    | H : in_u64 (Z.rem ?x ?y) = false |- _ =>
        assert (in_u64 (Z.rem x y) = true) by
          (apply in_u64_spec; to_props; apply rem_u64; unfold i64_max, u64_max, i64_min in *; lia); congruence
    end).
Qed.

(** Error operands propagate, the left one first. *)
Theorem arith_error_leftmost :
  forall o a b,
    (is_err a = true -> model_op o a b = a) /\
    (is_err a = false -> is_err b = true -> model_op o a b = b).
Proof.
  intros o a b; split; [intros Ha | intros Ha Hb];
  destruct o; unfold model_op, add, sub, mul, div, rem, error_prop_or; rewrite Ha; try rewrite Hb; reflexivity.
Qed.

(** The only non-numeric operand pairs an arithmetic operator accepts. *)
Definition concat_or_time (o : aop) (a b : value) : bool :=
  match o, a, b with
  | AAdd, VString _, VString _ | AAdd, VBytes _, VBytes _ | AAdd, VList _, VList _
  | AAdd, VTime _, VDur _ | AAdd, VDur _, VTime _ | AAdd, VDur _, VDur _
  | ASub, VTime _, VDur _ | ASub, VTime _, VTime _ | ASub, VDur _, VTime _ | ASub, VDur _, VDur _ => true
  | _, _, _ => false
  end.

Theorem arith_other_pairs_error :
  forall o a b,
    (num_of a = None \/ num_of b = None) ->
    concat_or_time o a b = false ->
    is_err (model_op o a b) = true.
Proof.
  intros o a b Hn Hc.
  destruct (is_err a) eqn:Ea.
  { rewrite (proj1 (arith_error_leftmost o a b) Ea). exact Ea. }
  destruct (is_err b) eqn:Eb.
  { rewrite (proj2 (arith_error_leftmost o a b) Ea Eb). exact Eb. }
  destruct o, a, b; simpl in Hc; try discriminate Hc; try discriminate Ea; try discriminate Eb;
    try (destruct Hn as [Hn|Hn]; discriminate Hn);
    unfold model_op, add, sub, mul, div, rem, error_prop_or; cbn [is_err type_prop]; reflexivity.
Qed.

(** Concatenation and time arithmetic: the accepted non-numeric pairs. *)
Theorem concat_spec :
  (forall x y, add (VString x) (VString y) = VString (x ++ y)) /\
  (forall x y, add (VBytes x) (VBytes y) = VBytes (x ++ y)) /\
  (forall x y, add (VList x) (VList y) = VList (x ++ y)).
Proof. repeat split. Qed.

(** Unary minus. *)
Theorem neg_exact_or_error :
  forall a, wf a = true ->
    match a with
    | VInt x => if in_i64 (- x) then neg a = VInt (- x) else is_err (neg a) = true
    | VFloat x => neg a = VFloat (f64_neg x)
    | VErr _ => neg a = a
    | _ => is_err (neg a) = true      (* in particular every uint *)
    end.
Proof.
  intros a _. destruct a; try reflexivity. simpl. unfold ck_int. destruct (in_i64 (- z)); reflexivity.
Qed.

(** Integer widening never changes the number. *)
Definition num_val (n : num) : option Z :=
  match n with NInt z => Some z | NUInt z => Some z | NBool b => Some (b2z b) | NDouble _ => None end.

Theorem widen_int_exact :
  forall a b,
    match widen a b with
    | WInt x y | WUInt x y => num_val a = Some x /\ num_val b = Some y
    | WBool x y => a = NBool x /\ b = NBool y
    | WDouble x y => x = to_double a /\ y = to_double b
    | WNone => True
    end.
Proof.
  intros a b. destruct a, b; simpl;
    repeat match goal with |- context [if ?c then _ else _] => destruct c end; simpl; auto.
Qed.

(** A pair that is not widened to a common type is exactly an int meeting a
    uint above i64::MAX. *)
Theorem widen_none_iff :
  forall a b, widen a b = WNone <->
    (exists x y, a = NInt x /\ b = NUInt y /\ i64_max < y) \/
    (exists x y, a = NUInt x /\ b = NInt y /\ i64_max < x).
Proof.
  intros a b. split.
  - destruct a, b; simpl; try discriminate;
      match goal with |- context [if ?z <=? i64_max then _ else _] => destruct (Z.leb_spec z i64_max) end;
      try discriminate; intros _; [left|right]; eauto.
  - intros [(x & y & -> & -> & H)|(x & y & -> & -> & H)]; simpl;
      match goal with |- context [if ?z <=? i64_max then _ else _] => destruct (Z.leb_spec z i64_max) end;
      try reflexivity; lia.
Qed.

(** Results are well-formed values: in particular every integer result lies in
    its type's range (no wrap-around). *)
Lemma wf_list l : wf (VList l) = forallb wf l.
Proof. induction l as [|x l IH]; [reflexivity|]. simpl in *. rewrite IH. reflexivity. Qed.

Lemma bytes_ok_app x y : bytes_ok (x ++ y) = bytes_ok x && bytes_ok y.
Proof. unfold bytes_ok. apply forallb_app. Qed.

Lemma arith_err_ok :
  forall o a b e, is_err a = false -> is_err b = false -> model_op o a b = VErr e -> err_ok e = true.
Proof.
  intros o a b e Ea Eb.
  destruct o, a, b; try discriminate Ea; try discriminate Eb;
    unfold model_op, add, sub, mul, div, rem, error_prop_or; cbn [is_err type_prop];
    unfold ck_int, ck_uint, checked_time, checked_dur;
    repeat match goal with |- context [if ?c then _ else _] => destruct c end;
    intros H; try discriminate H; injection H as <-; reflexivity.
Qed.

Theorem arith_preserves_wf :
  forall o a b, wf a = true -> wf b = true -> wf (model_op o a b) = true.
Proof.
  intros o a b Wa Wb.
  destruct (is_err a) eqn:Ea.
  { rewrite (proj1 (arith_error_leftmost o a b) Ea). exact Wa. }
  destruct (is_err b) eqn:Eb.
  { rewrite (proj2 (arith_error_leftmost o a b) Ea Eb). exact Wb. }
  destruct (num_of a) as [na|] eqn:Na; [destruct (num_of b) as [nb|] eqn:Nb|].
  - pose proof (arith_exact_or_error o a b na nb Wa Wb Na Nb) as H.
    unfold agrees in H. destruct (arith_spec o (widen na nb)) as [v|] eqn:Hs.
    + rewrite H. unfold arith_spec in Hs.
      destruct (widen na nb) eqn:Hw; try discriminate.
      * destruct (math o x y); try discriminate. destruct (in_i64 z) eqn:?; try discriminate.
        injection Hs as <-. assumption.
      * destruct (math o x y); try discriminate. destruct (in_u64 z) eqn:?; try discriminate.
        injection Hs as <-. assumption.
      * pose proof (widen_int_exact na nb) as Hx. rewrite Hw in Hx. destruct Hx as [-> ->].
        assert (Vx : f64_valid (to_double na) = true).
        { destruct a; simpl in Na; try discriminate; injection Na as <-; simpl;
            try apply f64_of_Z_valid; try assumption. destruct b0; reflexivity. }
        assert (Vy : f64_valid (to_double nb) = true).
        { destruct b; simpl in Nb; try discriminate; injection Nb as <-; simpl;
            try apply f64_of_Z_valid; try assumption. destruct b; reflexivity. }
        destruct o; simpl in Hs; try discriminate; injection Hs as <-; simpl;
          [apply f64_add_valid|apply f64_sub_valid|apply f64_mul_valid|apply f64_div_valid]; assumption.
    + destruct (model_op o a b) eqn:Hm; try discriminate H. simpl. exact (arith_err_ok o a b _ Ea Eb Hm).
  - destruct (concat_or_time o a b) eqn:Hc.
    + destruct o, a, b; simpl in Hc; try discriminate Hc; simpl in Nb; try discriminate Nb;
        simpl in Na; try discriminate Na.
    + pose proof (arith_other_pairs_error o a b (or_intror Nb) Hc) as H.
      destruct (model_op o a b) eqn:Hm; try discriminate H. simpl. exact (arith_err_ok o a b _ Ea Eb Hm).
  - destruct (concat_or_time o a b) eqn:Hc.
    + destruct o, a, b; simpl in Hc; try discriminate Hc; simpl in Na; try discriminate Na;
        unfold model_op, add, sub, error_prop_or; cbn [is_err type_prop];
        unfold checked_time, checked_dur;
        repeat match goal with |- context [if ?c then _ else _] => destruct c eqn:? end;
        try reflexivity; try assumption.
      * simpl in *. rewrite bytes_ok_app, Wa, Wb. reflexivity.
      * simpl in *. rewrite bytes_ok_app, Wa, Wb. reflexivity.
      * rewrite wf_list in *. rewrite forallb_app, Wa, Wb. reflexivity.
      * simpl in *. unfold in_time, in_dur, time_min_ns, time_max_ns, dur_min_ns, dur_max_ns in *.
        apply andb_true_iff in Wa, Wb. destruct Wa as [A1 A2], Wb as [B1 B2].
        apply Z.leb_le in A1, A2, B1, B2. apply andb_true_iff; split; apply Z.leb_le; lia.
    + pose proof (arith_other_pairs_error o a b (or_introl Na) Hc) as H.
      destruct (model_op o a b) eqn:Hm; try discriminate H. simpl. exact (arith_err_ok o a b _ Ea Eb Hm).
Qed.
