(* Proofs/LexFloat.v — C13: from source text to value for a double literal  I.F  (digits, a point, digits):
   the program evaluates to the correctly rounded binary64 value of the decimal number written. *)
From Coq Require Import ZArith List Bool Lia.
From Rscel Require Import Base.Prims Base.F64 Base.Text Model.Value Model.Lexer Model.Ast Model.Parser Model.Compile
     Model.Ops Model.Dispatch Model.Funcs Model.Interp.
From Rscel Require Import Proofs.Literals Proofs.StrLit Proofs.Conv Proofs.LexInt Proofs.LitProgram.
Import ListNotations.
Open Scope Z_scope.

Lemma digit_not_nl c : is_digit c = true -> (c =? 10) = false.
Proof. intros H. pose proof (digit_range c H). apply Z.eqb_neq. lia. Qed.

(** collect_number over  I . F  at the end of the input *)
Lemma collect_int_point_frac : forall ip fp fuel s st,
  sc_rest s = ip ++ 46%Z :: fp -> n_hex st = false -> n_float st = false -> n_exp st = false ->
  Forall (fun c => is_digit c = true) ip -> Forall (fun c => is_digit c = true) fp ->
  (length (ip ++ 46%Z :: fp) <= fuel)%nat ->
  collect_number fuel s st =
  (mkNum (rev fp ++ 46 :: rev ip ++ n_work st) true false (n_uns st) false, advance s (ip ++ 46 :: fp)).
Proof.
  induction ip as [|c r IH]; intros fp fuel s st Hs Hh Hfl Hex Hi Hf Hfu.
  - cbn [app] in Hs, Hfu. destruct fuel as [|f]; [cbn in Hfu; lia|]. cbn [collect_number]. unfold sc_peek. rewrite Hs.
    rewrite Hh. cbn [is_digit Z.leb Z.compare Pos.compare Pos.compare_cont andb orb Z.eqb Pos.eqb]. rewrite Hfl, Hex. cbn [andb orb].
    assert (E1 : snd (sc_next s) = mkScan fp (sc_line s) (sc_col s + 1)).
    { unfold sc_next. rewrite Hs. reflexivity. }
    set (st1 := mkNum (46 :: n_work st) true false (n_uns st) false).
    assert (Go : collect_number f (snd (sc_next s)) st1 =
                 (mkNum (rev fp ++ n_work st1) (n_float st1) (n_exp st1) (n_uns st1) (n_hex st1), advance (snd (sc_next s)) fp)).
    { apply (collect_digits false fp [] f (snd (sc_next s)) st1).
      - rewrite E1. cbn. rewrite app_nil_r. reflexivity.
      - reflexivity.
      - eapply Forall_impl; [|exact Hf]. cbn. intros c Hc. rewrite Hc. reflexivity.
      - exact I.
      - rewrite app_nil_r. cbn [length] in Hfu. lia. }
    assert (Er : sc_rest (snd (sc_next s)) = fp) by (rewrite E1; reflexivity). rewrite Er.
    destruct fp as [|p fp'].
    + rewrite Go. unfold st1. cbn [n_work n_float n_exp n_uns n_hex rev app advance]. reflexivity.
    +      assert (Hp : ((p =? 43) || (p =? 45)) = false).
      { pose proof (digit_range p (Forall_inv Hf)). apply orb_false_iff. split; apply Z.eqb_neq; lia. }
      rewrite Hp. rewrite Go. unfold st1. cbn [n_work n_float n_exp n_uns n_hex rev app advance]. reflexivity.
  - destruct fuel as [|f]; [cbn in Hfu; lia|]. cbn [collect_number]. unfold sc_peek. rewrite Hs. cbn [app].
    rewrite (Forall_inv Hi). cbn [orb].
    rewrite (IH fp f (snd (sc_next s)) _); cbn [n_work n_float n_exp n_uns n_hex]; auto.
    + cbn [rev advance app]. rewrite <- !app_assoc. cbn [app]. reflexivity.
    + unfold sc_next. rewrite Hs. cbn [app]. rewrite (digit_not_nl c (Forall_inv Hi)). reflexivity.
    + exact (Forall_inv_tail Hi).
    + cbn [app length] in Hfu. lia.
Qed.

(** the first token of  d I' . F  (first digit d, more digits I', a point, digits F) at the end of the input *)
Lemma collect_float d ip fp : Forall (fun c => is_digit c = true) (d :: ip) -> Forall (fun c => is_digit c = true) fp ->
  exists rng send,
    collect_token (mkScan (d :: ip ++ 46 :: fp) 0 0) =
      LOk (Some (mkTok (TFloatLit (dec_to_f64 (dec_value ((d :: ip) ++ fp) 0) (- Z.of_nat (length fp)))) rng)) send
    /\ sc_rest send = [].
Proof.
  intros Hi Hf. pose proof (digit_range d (Forall_inv Hi)) as R.
  set (s1 := mkScan (ip ++ 46 :: fp) 0 (0 + 1)).
  set (send := advance s1 (ip ++ 46 :: fp)).
  assert (Hend : sc_rest send = []).
  { unfold send. apply (advance_rest' (ip ++ 46 :: fp) s1 []). cbn. rewrite app_nil_r. reflexivity. }
  assert (Hl : lex_number [d] false s1 =
               LOk (TFloatLit (dec_to_f64 (dec_value ((d :: ip) ++ fp) 0) (- Z.of_nat (length fp)))) send).
  { unfold lex_number.
    rewrite (collect_int_point_frac ip fp (length (sc_rest s1)) s1 (mkNum (rev [d]) false false false false)
               eq_refl eq_refl eq_refl eq_refl (Forall_inv_tail Hi) Hf (Nat.le_refl _)).
    cbn [n_work n_float n_exp n_uns n_hex rev app].
    replace (rev (rev fp ++ 46 :: rev ip ++ [d])) with ((d :: ip) ++ 46 :: fp).
    2:{ rewrite rev_app_distr. cbn [rev]. rewrite !rev_app_distr, !rev_involutive. cbn [rev app]. rewrite <- !app_assoc. reflexivity. }
    rewrite (float_text_plain (d :: ip) fp Hi Hf) by (cbn [length]; lia). reflexivity. }
  exists (mkRange (mkLoc 0 0) (sc_loc send)), send. split; [|exact Hend].
  unfold collect_token. cbn [sc_rest length skip_ws]. unfold sc_next at 1. cbn [sc_rest].
  assert (N10 : (d =? 10) = false) by (apply Z.eqb_neq; lia). rewrite N10.
  repeat match goal with |- context [d =? ?k] =>
    replace (d =? k) with false by (symmetry; apply Z.eqb_neq; lia) end.
  cbn [orb]. cbv beta iota zeta.
  repeat match goal with |- context [d =? ?k] =>
    replace (d =? k) with false by (symmetry; apply Z.eqb_neq; lia) end.
  cbn [orb]. rewrite (Forall_inv Hi). cbn [sc_line sc_col]. fold s1. rewrite Hl. reflexivity.
Qed.

(** The program  I.F  evaluates, under every environment, to the double [dec_to_f64 digits (-|F|)], which
    Proofs/FloatLit.v shows is the correctly rounded (nearest, ties to even) binary64 value of the decimal
    number written, or infinity beyond the range. *)
Theorem float_source_evaluates d0 ip fp f g E d lg :
  Forall (fun c => is_digit c = true) (d0 :: ip) -> Forall (fun c => is_digit c = true) fp -> (d < 32)%nat ->
  exists p k, compile_source (S f) (d0 :: ip ++ 46 :: fp) = COk p k /\
              run (S (S (S g))) E (pr_code p) true d lg =
                (ROk (VFloat (dec_to_f64 (dec_value ((d0 :: ip) ++ fp) 0) (- Z.of_nat (length fp)))), lg).
Proof.
  intros Hi Hf Hd. destruct (collect_float d0 ip fp Hi Hf) as (rng & send & T1 & He).
  eexists. eexists. split.
  - exact (compile_single_literal f _ _ _ _ (LFloat _) (VFloat _) T1 He eq_refl eq_refl).
  - cbn [pr_code]. apply run_push; [exact I|exact Hd].
Qed.
