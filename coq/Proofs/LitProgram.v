(* Proofs/LitProgram.v — C13: a source consisting of one literal token compiles to a program that pushes that literal's value. *)
From Coq Require Import ZArith List Bool Lia.
From Rscel Require Import Base.Prims Base.F64 Base.Text Model.Value Model.Lexer Model.Ast Model.Parser Model.Compile.
From Rscel Require Import Proofs.Literals Proofs.StrLit Proofs.Conv Proofs.LexInt Proofs.LexStr.
Import ListNotations.
Open Scope Z_scope.

Definition lit_of_token (t : token) : option lit :=
  match t with
  | TIntLit v => if v <=? i64_max then Some (LInt v) else None
  | TUIntLit v => Some (LUInt v)
  | TFloatLit f => Some (LFloat f)
  | TStringLit s => Some (LStr s)
  | TByteStringLit b => Some (LBytes b)
  | TBoolLit b => Some (LBool b)
  | TNull => Some LNull
  | _ => None
  end.

Definition lit_val (l : lit) : option value :=
  match l with
  | LNull => Some VNull | LInt z => Some (VInt z) | LUInt z => Some (VUInt z) | LFloat f => Some (VFloat f)
  | LStr s => Some (VString (utf8_encode s)) | LBytes b => Some (VBytes b) | LBool b => Some (VBool b)
  | LFStr _ => None
  end.

Lemma collect_at_end s : sc_rest s = [] -> collect_token s = LOk None s.
Proof. intros H. unfold collect_token. rewrite H. cbn [length skip_ws]. unfold sc_next. rewrite H. reflexivity. Qed.

Section OneToken.
  Variable rec_expr : P expr.
  Variable rec_src : chars -> pres unit.
  Variable src : chars.
  Variable tk : token.
  Variable rng : range.
  Variable send : scanner.
  Variable l : lit.
  Hypothesis T1 : collect_token (mkScan src 0 0) = LOk (Some (mkTok tk rng)) send.
  Hypothesis He : sc_rest send = [].
  Hypothesis Hl : lit_of_token tk = Some l.

  Let tok := mkTok tk rng.
  Let T_init := tz_init src.
  Let T_peeked := mkTz send (Some tok) false.
  Let E0 := mkTz send None false.
  Let E1 := mkTz send None true.

  Lemma peek_init : peek T_init = POk (Some tok) T_peeked.
  Proof. unfold peek, tz_peek, T_init, tz_init. cbn [tz_cur]. unfold tz_collect. cbn [tz_eof tz_scan]. rewrite T1. reflexivity. Qed.

  Lemma peek_peeked : peek T_peeked = POk (Some tok) T_peeked.
  Proof. reflexivity. Qed.

  Lemma next_peeked : next T_peeked = POk (Some tok) E0.
  Proof. reflexivity. Qed.

  Lemma peek_E0 : peek E0 = POk None E1.
  Proof. unfold peek, tz_peek, E0. cbn [tz_cur]. unfold tz_collect. cbn [tz_eof tz_scan]. rewrite (collect_at_end send He). reflexivity. Qed.

  Lemma peek_E1 : peek E1 = POk None E1.
  Proof. reflexivity. Qed.

  Lemma lloop_E0 {A B O} n opof (rhs : P B) (mk : A -> O -> B -> A) acc :
    lloop (S n) opof rhs mk acc E0 = POk acc E1.
  Proof. cbn [lloop]. unfold pbind. rewrite peek_E0. reflexivity. Qed.

  Lemma lloop_E1 {A B O} n opof (rhs : P B) (mk : A -> O -> B -> A) acc :
    lloop (S n) opof rhs mk acc E1 = POk acc E1.
  Proof. cbn [lloop]. unfold pbind. rewrite peek_E1. reflexivity. Qed.

  Lemma primary_lit : p_primary rec_expr rec_src T_peeked = POk (PrLit rng l) E0.
  Proof.
    unfold p_primary, pbind. rewrite next_peeked. unfold tok.
    destruct tk; cbn in Hl; try discriminate Hl; try (injection Hl as <-; reflexivity).
    destruct (v <=? i64_max); [injection Hl as <-; reflexivity|discriminate Hl].
  Qed.

  Lemma member_lit : p_member rec_expr rec_src T_peeked = POk (Member rng (PrLit rng l) []) E1.
  Proof.
    unfold p_member, pbind at 1. rewrite primary_lit. unfold loop_fuel. cbn [p_member_primes]. unfold pbind.
    rewrite peek_E0. reflexivity.
  Qed.

  Lemma not_prefix : match tk with TNot | TMinus => False | _ => True end.
  Proof. destruct tk; cbn in Hl; try discriminate Hl; exact I. Qed.

  Section From.
    Variable T : tokenizer.
    Hypothesis HT : peek T = POk (Some tok) T_peeked.

    Lemma unary_lit : p_unary rec_expr rec_src T = POk (UnMember rng (Member rng (PrLit rng l) [])) E1.
    Proof.
      unfold p_unary, pbind at 1. rewrite HT. unfold tok_of, option_map, tok. cbn [t_tok].
      pose proof not_prefix as NP.
      assert (G : (let! m := p_member rec_expr rec_src in pret (UnMember (member_range m) m)) T_peeked =
                  POk (UnMember rng (Member rng (PrLit rng l) [])) E1).
      { unfold pbind. rewrite member_lit. reflexivity. }
      destruct tk; try contradiction; exact G.
    Qed.

    Lemma mult_lit : p_mult rec_expr rec_src T = POk (MulUn rng (UnMember rng (Member rng (PrLit rng l) []))) E1.
    Proof. unfold p_mult, pbind. rewrite unary_lit. unfold loop_fuel. rewrite lloop_E1. reflexivity. Qed.

    Lemma addn_lit : p_addn rec_expr rec_src T = POk (AddUn rng (MulUn rng (UnMember rng (Member rng (PrLit rng l) [])))) E1.
    Proof. unfold p_addn, pbind. rewrite mult_lit. unfold loop_fuel. rewrite lloop_E1. reflexivity. Qed.

    Lemma rel_lit : p_rel rec_expr rec_src T =
      POk (RelUn rng (AddUn rng (MulUn rng (UnMember rng (Member rng (PrLit rng l) []))))) E1.
    Proof. unfold p_rel, pbind. rewrite addn_lit. unfold loop_fuel. rewrite lloop_E1. reflexivity. Qed.

    Lemma cand_lit : p_cand rec_expr rec_src T =
      POk (AndUn rng (RelUn rng (AddUn rng (MulUn rng (UnMember rng (Member rng (PrLit rng l) [])))))) E1.
    Proof. unfold p_cand, pbind. rewrite rel_lit. unfold loop_fuel. rewrite lloop_E1. reflexivity. Qed.

    Lemma cor_lit : p_cor rec_expr rec_src T =
      POk (OrUn rng (AndUn rng (RelUn rng (AddUn rng (MulUn rng (UnMember rng (Member rng (PrLit rng l) []))))))) E1.
    Proof. unfold p_cor, pbind. rewrite cand_lit. unfold loop_fuel. rewrite lloop_E1. reflexivity. Qed.
  End From.

  Definition lit_tree : expr :=
    EUnary rng (OrUn rng (AndUn rng (RelUn rng (AddUn rng (MulUn rng (UnMember rng (Member rng (PrLit rng l) []))))))).

  Lemma not_match : match tk with TMatch => False | _ => True end.
  Proof. destruct tk; cbn in Hl; try discriminate Hl; exact I. Qed.

  Lemma expr_body_lit : p_expr_body rec_expr rec_src T_init = POk lit_tree E1.
  Proof.
    unfold p_expr_body, pbind at 1. rewrite peek_init. unfold tok.
    pose proof not_match as NM.
    assert (G : (let! l0 := p_cor rec_expr rec_src in
                 let! q := peek in
                 if is_tok q TQuestion then
                   let! _ := next in
                   let! tc := p_cor rec_expr rec_src in
                   let! col := next in
                   if negb (is_tok col TColon) then fail_here
                   else let! fc := rec_expr in pret (ETernary (surrounding (cor_range l0) (expr_range fc)) l0 tc fc)
                 else pret (EUnary (cor_range l0) l0)) T_peeked = POk lit_tree E1).
    { unfold pbind at 1. rewrite (cor_lit T_peeked peek_peeked). unfold pbind at 1. rewrite peek_E1. reflexivity. }
    destruct tk; try contradiction; exact G.
  Qed.

End OneToken.

(** the whole parser: one expression, then end of input *)
Theorem parse_single_literal f src tk rng send l :
  collect_token (mkScan src 0 0) = LOk (Some (mkTok tk rng)) send -> sc_rest send = [] -> lit_of_token tk = Some l ->
  parse_program (S f) src = POk (lit_tree rng l) (mkTz send None true).
Proof.
  intros T1 He Hl. unfold parse_program, p_expr. cbn [p_expr_at]. change (32 <=? 0) with false. cbv iota.
  unfold pbind at 1. rewrite (expr_body_lit _ _ src tk rng send l T1 He Hl).
  unfold pbind. rewrite (peek_E1 send). reflexivity.
Qed.

(** ... and the compiler turns that tree into the one-instruction program that pushes the literal's value *)
Theorem compile_single_literal f src tk rng send l v :
  collect_token (mkScan src 0 0) = LOk (Some (mkTok tk rng)) send -> sc_rest send = [] -> lit_of_token tk = Some l ->
  lit_val l = Some v ->
  compile_source (S f) src = COk (mkProgram [IPush v] [] (lit_tree rng l)) 2%nat.
Proof.
  intros T1 He Hl Hv. unfold compile_source. rewrite (parse_single_literal f src tk rng send l T1 He Hl).
  cbn [c_expr]. unfold lit_tree, c_expr_body, c_cor, c_cand, c_rel, c_addn, c_mult, c_unary, c_member, c_primary.
  unfold c_cor_chain, c_cand, c_cand_chain, cbind, new_label, cret.
  destruct l; cbn in Hv; try discriminate Hv; injection Hv as <-; reflexivity.
Qed.

(* ---- running the one-instruction program ----------------------------------------------------- *)
From Rscel Require Import Model.Ops Model.Dispatch Model.Funcs Model.Interp.

Definition plain_lit (v : value) : Prop :=
  match v with
  | VNull | VInt _ | VUInt _ | VFloat _ | VString _ | VBytes _ | VBool _ => True
  | _ => False
  end.

Lemma lit_val_plain l v : lit_val l = Some v -> plain_lit v.
Proof. destruct l; cbn; intros H; try discriminate H; injection H as <-; exact I. Qed.

Theorem run_push f E v d lg : plain_lit v -> (d < 32)%nat ->
  run (S (S (S f))) E [IPush v] true d lg = (ROk v, lg).
Proof.
  intros Hv Hd. cbn [run].
  destruct (Nat.ltb_spec 32 (S d)) as [H|_]; [lia|].
  unfold mbind at 1. cbn [loop nth_error step]. unfold mbind at 1, mret at 1. cbn [loop nth_error].
  unfold mret at 1. unfold finish, mbind, pop, mret.
  destruct v; try contradiction; reflexivity.
Qed.

(** From source text to value: a source that is one decimal integer literal,
    compiled and executed under any bindings, evaluates to that integer. *)
Theorem decimal_source_evaluates n f g E d lg : 0 <= n <= i64_max -> (d < 32)%nat ->
  exists p k, compile_source (S f) (dec_of_nonneg n) = COk p k /\
              run (S (S (S g))) E (pr_code p) true d lg = (ROk (VInt n), lg).
Proof.
  intros [Hn Hm] Hd.
  assert (Hr : in_u64 n = true).
  { unfold in_u64. apply andb_true_iff. unfold i64_max in Hm. split; [apply Z.leb_le; lia|apply Z.leb_le; unfold u64_max; lia]. }
  pose proof (collect_decimal n Hn Hr) as T1.
  assert (Hl : lit_of_token (TIntLit n) = Some (LInt n)).
  { cbn. destruct (Z.leb_spec n i64_max); [reflexivity|lia]. }
  eexists. eexists. split.
  - exact (compile_single_literal f _ _ _ _ (LInt n) (VInt n) T1 eq_refl Hl eq_refl).
  - cbn [pr_code]. apply run_push; [exact I|exact Hd].
Qed.

(** ... the decimal spelling followed by u or U evaluates to that unsigned integer *)
Theorem uint_source_evaluates n u f g E d lg : 0 <= n <= u64_max -> (u = 117 \/ u = 85) -> (d < 32)%nat ->
  exists p k, compile_source (S f) (dec_of_nonneg n ++ [u]) = COk p k /\
              run (S (S (S g))) E (pr_code p) true d lg = (ROk (VUInt n), lg).
Proof.
  intros [Hn Hm] Hu Hd.
  assert (Hr : in_u64 n = true) by (unfold in_u64; apply andb_true_iff; split; apply Z.leb_le; lia).
  pose proof (collect_decimal_u n u Hn Hr Hu) as T1.
  eexists. eexists. split.
  - exact (compile_single_literal f _ _ _ _ (LUInt n) (VUInt n) T1 eq_refl eq_refl eq_refl).
  - cbn [pr_code]. apply run_push; [exact I|exact Hd].
Qed.

(** ... and a quoted string, every character spelled in any supported way (plain, simple escapes,
    \x, \u, \U, octal), evaluates to the UTF-8 encoding of exactly the spelled characters *)
Theorem string_source_evaluates q items f g E d lg : (q = 39 \/ q = 34) ->
  Forall (fun it => spells q (fst it) (snd it)) items -> (d < 32)%nat ->
  exists p k, compile_source (S f) (q :: text_of items ++ [q]) = COk p k /\
              run (S (S (S g))) E (pr_code p) true d lg = (ROk (VString (utf8_encode (map fst items))), lg).
Proof.
  intros Hq Hsp Hd. destruct (collect_string q items Hq Hsp) as [T1 He].
  eexists. eexists. split.
  - exact (compile_single_literal f _ _ _ _ (LStr (map fst items)) _ T1 He eq_refl eq_refl).
  - cbn [pr_code]. apply run_push; [exact I|exact Hd].
Qed.

(** ... a bytes literal evaluates to exactly the bytes it spells, and a raw string to its text verbatim *)
Theorem bytes_source_evaluates q items f g E d lg : (q = 39 \/ q = 34) ->
  Forall (fun it => bspells q (fst it) (snd it)) items -> (d < 32)%nat ->
  exists p k, compile_source (S f) (98 :: q :: btext_of items ++ [q]) = COk p k /\
              run (S (S (S g))) E (pr_code p) true d lg = (ROk (VBytes (bytes_of_items items)), lg).
Proof.
  intros Hq Hsp Hd. destruct (collect_bytes q items Hq Hsp) as [T1 He].
  eexists. eexists. split.
  - exact (compile_single_literal f _ _ _ _ (LBytes (bytes_of_items items)) _ T1 He eq_refl eq_refl).
  - cbn [pr_code]. apply run_push; [exact I|exact Hd].
Qed.

Theorem raw_string_source_evaluates q cs f g E d lg : (q = 39 \/ q = 34) -> Forall (fun c => c <> q) cs -> (d < 32)%nat ->
  exists p k, compile_source (S f) (114 :: q :: cs ++ [q]) = COk p k /\
              run (S (S (S g))) E (pr_code p) true d lg = (ROk (VString (utf8_encode cs)), lg).
Proof.
  intros Hq Hc Hd. destruct (collect_raw_string q cs Hq Hc) as [T1 He].
  eexists. eexists. split.
  - exact (compile_single_literal f _ _ _ _ (LStr cs) _ T1 He eq_refl eq_refl).
  - cbn [pr_code]. apply run_push; [exact I|exact Hd].
Qed.
