(* Proofs/Seq.v — sequencing of closed blocks, and the FMT instruction (C14:
   an f-string is the concatenation of its segments' strings). *)
From Coq Require Import ZArith List Bool Lia Arith.
From Rscel Require Import Base.Prims Base.F64 Base.Text Model.Value Model.Ops Model.Dispatch Model.Funcs
     Model.Interp Spec.WfCode Proofs.VM Proofs.Blocks.
Import ListNotations.
Open Scope Z_scope.

Section Seq.
  Variable rs : runner.
  Variable E : env.
  Variable d : nat.

  Lemma closed_app c1 c2 : closed c1 -> closed c2 -> closed (c1 ++ c2).
  Proof.
    intros H1 H2 pc i Hn. destruct (lt_dec pc (length c1)) as [L|L].
    - rewrite nth_error_app1 in Hn by assumption. specialize (H1 pc i Hn). destruct i; try exact I;
        (destruct H1 as [A B]; split; [exact A|rewrite app_length; lia]).
    - rewrite nth_error_app2 in Hn by lia. specialize (H2 _ i Hn). destruct i; try exact I;
        (destruct H2 as [A B]; split; [exact A|rewrite app_length; lia]).
  Qed.

  Lemma closed_nil : closed [].
  Proof. intros pc i H. destruct pc; discriminate. Qed.

  (** [runs c lg st st' lg']: the block runs from its start to its end, turning stack and log *)
  Definition runs (c : code) (lg : log) (st st' : stack) (lg' : log) : Prop :=
    exists f, loop rs f E d c O st lg = (ROk st', lg').

  Lemma runs_nil lg st : runs [] lg st st lg.
  Proof. exists 1%nat. reflexivity. Qed.

  Lemma runs_app c1 c2 lg st st1 lg1 st2 lg2 :
    closed c1 -> closed c2 -> runs c1 lg st st1 lg1 -> runs c2 lg1 st1 st2 lg2 -> runs (c1 ++ c2) lg st st2 lg2.
  Proof.
    intros H1 H2 [f1 R1] [f2 R2].
    destruct (embed rs E d [] c1 c2 H1 f1 O st lg st1 lg1 ltac:(lia) R1) as (g1 & _ & G1).
    destruct (embed rs E d c1 c2 [] H2 f2 O st1 lg1 st2 lg2 ltac:(lia) R2) as (g2 & _ & G2).
    exists (g1 + (g2 + 1))%nat. cbn [app length Nat.add] in G1. rewrite G1.
    rewrite app_nil_r in G2. rewrite Nat.add_0_r in G2. rewrite G2.
    rewrite loop_S. replace (nth_error (c1 ++ c2) (length c1 + length c2)) with (@None instr); [reflexivity|].
    symmetry. apply nth_error_None. rewrite app_length. lia.
  Qed.

  (** a list of blocks, each pushing one value *)
  Inductive pushes_all : list code -> log -> list sval -> log -> Prop :=
  | pa_nil lg : pushes_all [] lg [] lg
  | pa_cons c cs lg sv lg1 svs lg2 :
      pushes rs E d c lg sv lg1 -> pushes_all cs lg1 svs lg2 -> pushes_all (c :: cs) lg (sv :: svs) lg2.

  Lemma pushes_all_runs cs lg svs lg' : pushes_all cs lg svs lg' ->
    closed (concat cs) /\ forall st, runs (concat cs) lg st (rev svs ++ st) lg'.
  Proof.
    induction 1 as [lg|c cs lg sv lg1 svs lg2 [Hc Hp] Hr [IHc IH]].
    - split; [exact closed_nil|]. intros st. apply runs_nil.
    - split; [cbn [concat]; apply closed_app; assumption|]. intros st. cbn [concat rev].
      rewrite <- app_assoc. cbn [app].
      eapply runs_app; [exact Hc|exact IHc| |apply IH]. destruct (Hp st) as [f Hf]. exists f. exact Hf.
  Qed.

  (** FMT n over n strings on the stack (last segment on top): their concatenation, in order *)
  Lemma pop_strings : forall ts st lg,
    pop_n rs E d (length ts) (map (fun t => SVal (VString t)) (rev ts) ++ st) lg =
    (ROk (map VString (rev ts), st), lg).
  Proof.
    intros ts. rewrite <- (rev_length ts). generalize (rev ts) as l. clear ts.
    induction l as [|t r IH]; intros st lg; [reflexivity|].
    cbn [length pop_n map app]. unfold mbind at 1. unfold pop_val, mbind at 1. cbn [pop mret]. cbn [fst snd into_value].
    unfold mbind. cbn [mret]. rewrite IH. reflexivity.
  Qed.

  Theorem fmt_step ts st lg :
    step rs E d (IFmt (Z.of_nat (length ts))) (map (fun t => SVal (VString t)) (rev ts) ++ st) lg =
    (ROk (None, SVal (VString (concat ts)) :: st), lg).
  Proof.
    cbn [step]. rewrite Nat2Z.id. unfold mbind at 1. rewrite pop_strings.
    rewrite map_rev, rev_involutive.
    assert (G : forall l acc,
      (fix cat (l0 : list value) (acc0 : bytes) {struct l0} : M (option Z * stack) :=
         match l0 with
         | [] => mret (None, push (VString acc0) st)
         | VString s :: l' => cat l' (acc0 ++ s)
         | _ => mfail ERuntime
         end) (map VString l) acc lg = (ROk (None, SVal (VString (acc ++ concat l)) :: st), lg)).
    { induction l as [|t r IH]; intros acc; cbn [map concat].
      - rewrite app_nil_r. reflexivity.
      - rewrite IH, app_assoc. reflexivity. }
    apply (G ts []).
  Qed.

  (** An f-string block: the segment blocks in order, then FMT.  If segment i
      leaves the string t_i, the whole leaves t_1 ++ ... ++ t_n. *)
  Theorem fstring_block cs lg ts lg' :
    pushes_all cs lg (map (fun t => SVal (VString t)) ts) lg' ->
    forall st, runs (concat cs ++ [IFmt (Z.of_nat (length ts))]) lg st (SVal (VString (concat ts)) :: st) lg'.
  Proof.
    intros H st. destruct (pushes_all_runs _ _ _ _ H) as [Hc Hr].
    eapply runs_app; [exact Hc| |apply Hr|].
    - intros pc i Hn. destruct pc as [|[|pc]]; cbn in Hn; inversion Hn; exact I.
    - exists 2%nat. rewrite loop_S. cbn [nth_error]. rewrite <- map_rev. rewrite fmt_step.
      rewrite loop_S. reflexivity.
  Qed.
End Seq.
