(* Proofs/MinMax.v — C04: min / max return the FIRST least / greatest argument.  Generic in the strict
   order: whenever "better" is the strict order induced by a rank on the arguments (every total preorder
   is), the scan returns the first argument of best rank; instantiated for int and uint arguments. *)
From Coq Require Import ZArith List Bool Lia.
From Rscel Require Import Base.Prims Base.F64 Base.Text Model.Value Model.Ops Model.Dispatch Model.Funcs.
Import ListNotations.
Open Scope Z_scope.

Section Pick.
  Variable better : value -> value -> bool.
  Variable rank : value -> Z.

  Theorem pick_first_best : forall rest cur,
    (forall a b, In a (cur :: rest) -> In b (cur :: rest) -> better a b = (rank a <? rank b)) ->
    let m := pick better cur rest in
    (forall v, In v (cur :: rest) -> rank m <= rank v) /\
    exists pre post, cur :: rest = pre ++ m :: post /\ forall v, In v pre -> rank m < rank v.
  Proof.
    induction rest as [|x r IH]; intros cur Hb; cbn [pick].
    - split; [intros v [<-|[]]; lia|]. exists [], []. split; [reflexivity|intros v []].
    - assert (Hx : better x cur = (rank x <? rank cur)) by (apply Hb; cbn; auto).
      rewrite Hx. destruct (Z.ltb_spec (rank x) (rank cur)) as [Hlt|Hge].
      + (* x replaces cur *)
        destruct (IH x) as [Hmin (pre & post & E & Hpre)].
        { intros a b Ha Hb'. apply Hb; cbn in *; tauto. }
        cbv zeta in *. set (m := pick better x r) in *. split.
        * intros v [<-|Hv]; [|apply Hmin; exact Hv]. specialize (Hmin x (or_introl eq_refl)). lia.
        * exists (cur :: pre), post. split; [cbn; rewrite E; reflexivity|].
          intros v [<-|Hv]; [|apply Hpre; exact Hv]. specialize (Hmin x (or_introl eq_refl)). lia.
      + (* cur stays *)
        destruct (IH cur) as [Hmin (pre & post & E & Hpre)].
        { intros a b Ha Hb'. apply Hb; cbn in *; tauto. }
        cbv zeta in *. set (m := pick better cur r) in *. split.
        * intros v [<-|[<-|Hv]].
          -- apply Hmin. left. reflexivity.
          -- specialize (Hmin cur (or_introl eq_refl)). lia.
          -- apply Hmin. right. exact Hv.
        * destruct pre as [|p0 pre'].
          -- (* m = cur: still the first *)
             cbn in E. injection E as Em Er. exists [], (x :: post). split; [cbn; rewrite <- Em, Er; reflexivity|intros v []].
          -- cbn in E. injection E as E0 Er. subst p0.
             exists (cur :: x :: pre'), post. split; [cbn; rewrite Er; reflexivity|].
             intros v [<-|[<-|Hv]].
             ++ apply Hpre. left. reflexivity.
             ++ assert (rank m < rank cur) by (apply Hpre; left; reflexivity). lia.
             ++ apply Hpre. right. exact Hv.
  Qed.
End Pick.

Definition irank (v : value) : Z := match v with VInt x => x | _ => 0 end.

Lemma lt_ints x y : is_true (lt (VInt x) (VInt y)) = (x <? y).
Proof. cbn. destruct (x ?= y) eqn:C; unfold Z.ltb; rewrite C; reflexivity. Qed.
Lemma gt_ints x y : is_true (gt (VInt x) (VInt y)) = (y <? x).
Proof. cbn. rewrite Z.compare_antisym. destruct (y ?= x) eqn:C; unfold Z.ltb; rewrite C; reflexivity. Qed.

(** integers: min is the first occurrence of the smallest, max the first occurrence of the largest *)
Theorem min_ints_first_least z zs :
  exists m pre post, min_impl (map VInt (z :: zs)) = ROk (VInt m) /\ z :: zs = pre ++ m :: post /\
    (forall v, In v (z :: zs) -> m <= v) /\ (forall v, In v pre -> m < v).
Proof.
  cbn [map min_impl]. unfold ok.
  destruct (pick_first_best (fun a b => is_true (lt a b)) irank (map VInt zs) (VInt z)) as [Hmin (pre & post & E & Hpre)].
  { intros a b Ha Hb. change (VInt z :: map VInt zs) with (map VInt (z :: zs)) in Ha, Hb.
    apply in_map_iff in Ha, Hb. destruct Ha as (x & <- & _), Hb as (y & <- & _). apply lt_ints. }
  cbv zeta in *. set (mv := pick (fun a b => is_true (lt a b)) (VInt z) (map VInt zs)) in *.
  assert (Hin : In mv (map VInt (z :: zs))).
  { change (map VInt (z :: zs)) with (VInt z :: map VInt zs). rewrite E. apply in_or_app. right. left. reflexivity. }
  apply in_map_iff in Hin. destruct Hin as (m & Em & _).
  change (VInt z :: map VInt zs) with (map VInt (z :: zs)) in E.
  (* split the integer list along the value list *)
  assert (Hsplit : exists ipre ipost, z :: zs = ipre ++ m :: ipost /\ pre = map VInt ipre).
  { rewrite <- Em in E. clear -E. revert pre E. generalize (z :: zs) as l. induction l as [|a l IH]; intros pre E.
    - destruct pre; discriminate E.
    - destruct pre as [|p pre'].
      + cbn in E. injection E as Ea El. exists [], l. split; [cbn; congruence|reflexivity].
      + cbn in E. injection E as Ea El. destruct (IH pre' El) as (ip & ipost & E1 & E2).
        exists (a :: ip), ipost. split; [cbn; rewrite E1; reflexivity|cbn; rewrite E2, Ea; reflexivity]. }
  destruct Hsplit as (ipre & ipost & Ez & Ep).
  exists m, ipre, ipost. split; [rewrite <- Em; reflexivity|]. split; [exact Ez|]. split.
  - intros v Hv. specialize (Hmin (VInt v)). rewrite <- Em in Hmin. cbn [irank] in Hmin. apply Hmin.
    change (VInt z :: map VInt zs) with (map VInt (z :: zs)). apply in_map. exact Hv.
  - intros v Hv. specialize (Hpre (VInt v)). rewrite <- Em in Hpre. cbn [irank] in Hpre. apply Hpre. rewrite Ep. apply in_map. exact Hv.
Qed.

Theorem max_ints_first_greatest z zs :
  exists m pre post, max_impl (map VInt (z :: zs)) = ROk (VInt m) /\ z :: zs = pre ++ m :: post /\
    (forall v, In v (z :: zs) -> v <= m) /\ (forall v, In v pre -> v < m).
Proof.
  cbn [map max_impl]. unfold ok.
  destruct (pick_first_best (fun a b => is_true (gt a b)) (fun v => - irank v) (map VInt zs) (VInt z)) as [Hmin (pre & post & E & Hpre)].
  { intros a b Ha Hb. change (VInt z :: map VInt zs) with (map VInt (z :: zs)) in Ha, Hb.
    apply in_map_iff in Ha, Hb. destruct Ha as (x & <- & _), Hb as (y & <- & _). rewrite gt_ints. cbn [irank].
    destruct (Z.ltb_spec y x), (Z.ltb_spec (- x) (- y)); try reflexivity; lia. }
  cbv zeta in *. set (mv := pick (fun a b => is_true (gt a b)) (VInt z) (map VInt zs)) in *.
  assert (Hin : In mv (map VInt (z :: zs))).
  { change (map VInt (z :: zs)) with (VInt z :: map VInt zs). rewrite E. apply in_or_app. right. left. reflexivity. }
  apply in_map_iff in Hin. destruct Hin as (m & Em & _).
  change (VInt z :: map VInt zs) with (map VInt (z :: zs)) in E.
  assert (Hsplit : exists ipre ipost, z :: zs = ipre ++ m :: ipost /\ pre = map VInt ipre).
  { rewrite <- Em in E. clear -E. revert pre E. generalize (z :: zs) as l. induction l as [|a l IH]; intros pre E.
    - destruct pre; discriminate E.
    - destruct pre as [|p pre'].
      + cbn in E. injection E as Ea El. exists [], l. split; [cbn; congruence|reflexivity].
      + cbn in E. injection E as Ea El. destruct (IH pre' El) as (ip & ipost & E1 & E2).
        exists (a :: ip), ipost. split; [cbn; rewrite E1; reflexivity|cbn; rewrite E2, Ea; reflexivity]. }
  destruct Hsplit as (ipre & ipost & Ez & Ep).
  exists m, ipre, ipost. split; [rewrite <- Em; reflexivity|]. split; [exact Ez|]. split.
  - intros v Hv. specialize (Hmin (VInt v)). rewrite <- Em in Hmin. cbn [irank] in Hmin.
    assert (- m <= - v) by (apply Hmin; change (VInt z :: map VInt zs) with (map VInt (z :: zs)); apply in_map; exact Hv). lia.
  - intros v Hv. specialize (Hpre (VInt v)). rewrite <- Em in Hpre. cbn [irank] in Hpre.
    assert (- m < - v) by (apply Hpre; rewrite Ep; apply in_map; exact Hv). lia.
Qed.
