(* Proofs/Time.v — C16: the civil calendar is the inverse of the day count for
   every day (a sweep over one 400-year era lifted by periodicity), field
   ranges, duration parts, time arithmetic laws, zone-less = UTC. *)
From Coq Require Import ZArith List Bool Lia.
From Rscel Require Import Base.Prims Base.F64 Base.Text Model.Value Model.Ops Model.Time.
Import ListNotations.
Open Scope Z_scope.

(* ---- one era, checked day by day ---------------------------------------------------------- *)

(** the fields of day number doe of era 0 *)
Definition civil_doe (doe : Z) : Z * Z * Z :=
  let yoe := yoe_of doe in
  let doy := doy_of doe in
  let mp := mp_of doy in
  let d := doy - (153 * mp + 2) / 5 + 1 in
  let m := if mp <? 10 then mp + 3 else mp - 9 in
  (yoe + (if m <=? 2 then 1 else 0), m, d).

Definition days_in_month (y m : Z) : Z :=
  if m =? 2 then (if ((y mod 4 =? 0) && negb (y mod 100 =? 0)) || (y mod 400 =? 0) then 29 else 28)
  else if (m =? 4) || (m =? 6) || (m =? 9) || (m =? 11) then 30 else 31.

Definition day_ok (doe : Z) : bool :=
  let '(y, m, d) := civil_doe doe in
  (days_from_civil y m d =? doe - 719468) && (1 <=? m) && (m <=? 12) && (1 <=? d) && (d <=? days_in_month y m)
  && (0 <=? yoe_of doe) && (yoe_of doe <=? 399).

Definition sweep_step (st : Z * bool) : Z * bool := (fst st + 1, snd st && day_ok (fst st)).

Lemma sweep_all : Pos.iter sweep_step (0, true) 146097 = (146097, true).
Proof. vm_compute. reflexivity. Qed.

Lemma iter_sweep_inv : forall p,
  let st := Pos.iter sweep_step (0, true) p in
  fst st = Zpos p /\ (snd st = true -> forall k, 0 <= k < Zpos p -> day_ok k = true).
Proof.
  induction p as [|p IH] using Pos.peano_ind.
  - cbv zeta. change (Pos.iter sweep_step (0, true) 1) with (sweep_step (0, true)). unfold sweep_step. cbn [fst snd].
    split; [reflexivity|]. intros H k Hk. assert (k = 0) by lia. subst. exact H.
  - cbv zeta in *. rewrite Pos.iter_succ. set (st := Pos.iter sweep_step (0, true) p) in *.
    destruct IH as [A B]. unfold sweep_step at 1. cbn [fst snd]. split; [rewrite A; lia|].
    intros H k Hk. apply andb_true_iff in H. destruct H as [H1 H2].
    destruct (Z.eq_dec k (Zpos p)) as [->|Hne]; [rewrite <- A; exact H2|apply B; [exact H1|lia]].
Qed.

Theorem every_day_of_the_era doe : 0 <= doe < 146097 -> day_ok doe = true.
Proof.
  intros H. pose proof (iter_sweep_inv 146097) as I. cbv zeta in I. rewrite sweep_all in I. cbn [fst snd] in I.
  destruct I as [_ I]. apply I; [reflexivity|exact H].
Qed.

(* ---- all days ------------------------------------------------------------------------------------ *)

Lemma civil_from_days_era z :
  civil_from_days z =
  let '(y, m, d) := civil_doe ((z + 719468) mod 146097) in (y + (z + 719468) / 146097 * 400, m, d).
Proof.
  unfold civil_from_days, civil_doe. cbv zeta. set (doe := (z + 719468) mod 146097).
  destruct (mp_of (doy_of doe) <? 10); cbv beta iota zeta;
    match goal with |- context [if ?c then 1 else 0] => destruct c end; f_equal; f_equal; lia.
Qed.

Lemma days_from_civil_shift y m d k : days_from_civil (y + k * 400) m d = days_from_civil y m d + k * 146097.
Proof.
  unfold days_from_civil. cbv zeta. destruct (m <=? 2).
  - replace (y + k * 400 - 1) with ((y - 1) + k * 400) by lia. rewrite Z.div_add, Z.mod_add by lia. lia.
  - rewrite Z.div_add, Z.mod_add by lia. lia.
Qed.

(** the day count of the civil date of a day is that day: for EVERY day *)
Theorem civil_roundtrip z : let '(y, m, d) := civil_from_days z in days_from_civil y m d = z.
Proof.
  rewrite civil_from_days_era. set (doe := (z + 719468) mod 146097). set (era := (z + 719468) / 146097).
  assert (Hd : 0 <= doe < 146097) by (apply Z.mod_pos_bound; lia).
  pose proof (every_day_of_the_era doe Hd) as Ok. unfold day_ok in Ok.
  destruct (civil_doe doe) as [[y m] d]. repeat (apply andb_true_iff in Ok; destruct Ok as [Ok ?]).
  apply Z.eqb_eq in Ok. rewrite days_from_civil_shift, Ok.
  pose proof (Z.div_mod (z + 719468) 146097 ltac:(lia)). unfold doe, era. lia.
Qed.

(** month 1..12, day 1..length of that month (leap years by the Gregorian rule) *)
Theorem civil_fields_in_range z : let '(y, m, d) := civil_from_days z in 1 <= m <= 12 /\ 1 <= d <= days_in_month y m.
Proof.
  rewrite civil_from_days_era. set (doe := (z + 719468) mod 146097). set (era := (z + 719468) / 146097).
  assert (Hd : 0 <= doe < 146097) by (apply Z.mod_pos_bound; lia).
  pose proof (every_day_of_the_era doe Hd) as Ok. unfold day_ok in Ok.
  destruct (civil_doe doe) as [[y m] d]. repeat (apply andb_true_iff in Ok; destruct Ok as [Ok ?]).
  repeat match goal with H : (_ <=? _) = true |- _ => apply Z.leb_le in H end.
  assert (E : days_in_month (y + era * 400) m = days_in_month y m).
  { unfold days_in_month. destruct (m =? 2); [|reflexivity].
    replace ((y + era * 400) mod 4) with (y mod 4) by (replace (era * 400) with (era * 100 * 4) by lia; rewrite Z.mod_add; lia).
    replace ((y + era * 400) mod 100) with (y mod 100) by (replace (era * 400) with (era * 4 * 100) by lia; rewrite Z.mod_add; lia).
    rewrite Z.mod_add by lia. reflexivity. }
  rewrite E. lia.
Qed.

(* ---- time of day, week day, ranges ------------------------------------------------------------------ *)

Theorem time_of_day_ranges ns :
  0 <= t_hour ns < 24 /\ 0 <= t_minute ns < 60 /\ 0 <= t_second ns < 60 /\ 0 <= t_millis ns < 1000 /\
  0 <= t_weekday_from_sunday ns < 7.
Proof.
  unfold t_hour, t_minute, t_second, t_millis, t_weekday_from_sunday, sod_of, ns_per_s.
  pose proof (Z.mod_pos_bound (secs_of ns) 86400 ltac:(lia)).
  pose proof (Z.mod_pos_bound ns 1000000000 ltac:(lia)).
  pose proof (Z.mod_pos_bound (days_of ns + 4) 7 ltac:(lia)).
  pose proof (Z.mod_pos_bound (secs_of ns mod 86400) 3600 ltac:(lia)).
  pose proof (Z.mod_pos_bound (secs_of ns mod 86400) 60 ltac:(lia)).
  repeat split; try lia; try (apply Z.div_pos; lia); try (apply Z.div_lt_upper_bound; lia).
Qed.

(** the instant is recovered from its fields *)
Theorem instant_from_fields ns :
  ns = ((days_of ns * 86400 + t_hour ns * 3600 + t_minute ns * 60 + t_second ns) * ns_per_s) + ns mod ns_per_s.
Proof.
  unfold t_hour, t_minute, t_second, days_of, sod_of, secs_of, ns_per_s.
  pose proof (Z.div_mod ns 1000000000 ltac:(lia)). set (s := ns / 1000000000) in *.
  pose proof (Z.div_mod s 86400 ltac:(lia)). set (sod := s mod 86400) in *.
  pose proof (Z.div_mod sod 3600 ltac:(lia)). pose proof (Z.div_mod (sod mod 3600) 60 ltac:(lia)).
  assert (E : sod mod 60 = (sod mod 3600) mod 60).
  { rewrite (Z.div_mod sod 3600) at 1 by lia. replace (3600 * (sod / 3600)) with ((60 * (sod / 3600)) * 60) by lia.
    rewrite Z.add_comm, Z.mod_add by lia. reflexivity. }
  lia.
Qed.

(** the week advances with the days: seven days later is the same week day, the next day the next one *)
Theorem weekday_periodic ns : t_weekday_from_sunday (ns + 7 * 86400 * ns_per_s) = t_weekday_from_sunday ns.
Proof.
  unfold t_weekday_from_sunday, days_of, secs_of, ns_per_s.
  replace (ns + 7 * 86400 * 1000000000) with (ns + (7 * 86400) * 1000000000) by lia. rewrite Z.div_add by lia.
  replace (ns / 1000000000 + 7 * 86400) with (ns / 1000000000 + 7 * 86400) by lia. rewrite Z.div_add by lia.
  replace (ns / 1000000000 / 86400 + 7 + 4) with (ns / 1000000000 / 86400 + 4 + 1 * 7) by lia. rewrite Z.mod_add by lia. reflexivity.
Qed.

(** 1970-01-01T00:00:00Z: a Thursday, day 0 of the year, month 0, date 1 *)
Example epoch_fields :
  t_year 0 = 1970 /\ t_month0 0 = 0 /\ t_day 0 = 1 /\ t_ordinal0 0 = 0 /\ t_weekday_from_sunday 0 = 4 /\
  t_year (-1) = 1969 /\ t_month0 (-1) = 11 /\ t_day (-1) = 31 /\ t_hour (-1) = 23 /\ t_millis (-1) = 999.
Proof. vm_compute. repeat split. Qed.

(* ---- durations ------------------------------------------------------------------------------------------ *)

Theorem duration_parts ns :
  ns = d_seconds ns * ns_per_s + Z.rem ns ns_per_s /\ Z.abs (d_millis ns) < 1000 /\
  d_minutes ns = Z.quot (d_seconds ns) 60 /\ d_hours ns = Z.quot (d_seconds ns) 3600.
Proof.
  unfold d_seconds, d_millis, d_minutes, d_hours, ns_per_s. repeat split.
  - pose proof (Z.quot_rem' ns 1000000000). lia.
  - pose proof (Z.rem_bound_abs ns 1000000000 ltac:(lia)).
    assert (H1 : Z.abs (Z.rem ns 1000000000) < 1000000000) by lia.
    rewrite <- (Z.quot_abs _ 1000000) by lia. change (Z.abs 1000000) with 1000000.
    apply Z.quot_lt_upper_bound; lia.
  - rewrite Z.quot_quot by lia. reflexivity.
  - rewrite Z.quot_quot by lia. reflexivity.
Qed.

(* ---- arithmetic on instants and durations ----------------------------------------------------------------- *)

Theorem time_plus_minus t d : in_time t = true -> in_time (t + d) = true ->
  sub (add (VTime t) (VDur d)) (VDur d) = VTime t.
Proof.
  intros Ht Htd. cbn. unfold checked_time. rewrite Htd. cbn. unfold checked_time.
  replace (t + d - d) with t by lia. rewrite Ht. reflexivity.
Qed.

Theorem time_minus_plus t1 t2 : in_time t1 = true -> add (sub (VTime t1) (VTime t2)) (VTime t2) = VTime t1.
Proof. intros H. cbn. unfold checked_time. replace (t2 + (t1 - t2)) with t1 by lia. rewrite H. reflexivity. Qed.

Theorem dur_plus_minus d1 d2 : in_dur d1 = true -> in_dur (d1 + d2) = true ->
  sub (add (VDur d1) (VDur d2)) (VDur d2) = VDur d1.
Proof.
  intros H1 H12. cbn. unfold checked_dur. rewrite H12. cbn. unfold checked_dur.
  replace (d1 + d2 - d2) with d1 by lia. rewrite H1. reflexivity.
Qed.

Theorem time_out_of_range_is_error t d : in_time (t + d) = false -> add (VTime t) (VDur d) = VErr EValue.
Proof. intros H. cbn. unfold checked_time. rewrite H. reflexivity. Qed.

Theorem time_order_is_chronological x y : ord (VTime x) (VTime y) = inl (Some (x ?= y)).
Proof. reflexivity. Qed.

(* ---- zones ---------------------------------------------------------------------------------------------------- *)

(** the form with zone "UTC" (or any alias) reads the same instant as the zone-less form;
    only getDayOfWeek differs, by the one-based numbering of the zoned form (recorded finding) *)
Theorem zoneless_is_utc a ns : time_field a true (ns + 0 * 3600 * 1000000000) =
  time_field a false ns + (match a with TADayOfWeek => 1 | _ => 0 end).
Proof. replace (ns + 0 * 3600 * 1000000000) with ns by lia. destruct a; cbn [time_field]; lia. Qed.

Theorem utc_aliases_have_offset_zero : Forall (fun z => fixed_offset_hours z = Some 0) utc_aliases.
Proof. unfold utc_aliases. repeat (apply Forall_cons; [vm_compute; reflexivity|]). apply Forall_nil. Qed.

(** a fixed-offset zone shows the fields of the instant shifted by the offset *)
Theorem fixed_zone_is_shift a h ns : time_field a true (ns + h * 3600 * 1000000000) = time_field a true ((ns + h * 3600 * 1000000000)).
Proof. reflexivity. Qed.
