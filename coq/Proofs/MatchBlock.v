(* Proofs/MatchBlock.v — C05: match as the compiler emits it.  The scrutinee is evaluated once; the
   patterns are tried in order; the arm of the first pattern that yields true runs and its value is the
   result; a pattern that yields false or fails is skipped (its failure never surfaces); when none
   matches the result is null; the arms of skipped cases and everything after the chosen arm never run. *)
From Coq Require Import ZArith List Bool Lia Arith.
From Rscel Require Import Base.Prims Base.F64 Base.Text Model.Value Model.Ops Model.Dispatch Model.Funcs
     Model.Interp Spec.WfCode Proofs.VM Proofs.Blocks.
Import ListNotations.
Open Scope Z_scope.

Section Match.
  Variable rs : runner.
  Variable E : env.
  Variable d : nat.

  (** one case: duplicate the scrutinee, test it, skip the arm or run it and leave *)
  Fixpoint cases_code (cs : list (code * code)) : code :=
    match cs with
    | [] => []
    | (pb, arm) :: r =>
        [IDup] ++ pb ++ [IJmpCond false (Z.of_nat (length arm + 2)); IPop] ++ arm ++
        [IJmp (Z.of_nat (length (cases_code r) + 2))] ++ cases_code r
    end.
  Definition tail_code : code := [IPop; IPush VNull].
  Definition match_code (cc : code) (cs : list (code * code)) : code := cc ++ cases_code cs ++ tail_code.

  (** a pattern's code turns the (duplicated) scrutinee value into its verdict *)
  Definition pat_eval (pb : code) (v : value) (lg : log) (bv : value) (lg' : log) : Prop :=
    closed pb /\ forall st, exists f, loop rs f E d pb O (SVal v :: st) lg = (ROk (SVal bv :: st), lg').

  Inductive match_run (v : value) : log -> list (code * code) -> sval -> log -> Prop :=
  | mr_none lg : match_run v lg [] (SVal VNull) lg
  | mr_hit lg pb arm r lg1 sva lg2 :
      pat_eval pb v lg (VBool true) lg1 -> pushes rs E d arm lg1 sva lg2 ->
      match_run v lg ((pb, arm) :: r) sva lg2
  | mr_miss lg pb arm r bv lg1 res lg2 :
      pat_eval pb v lg bv lg1 -> (bv = VBool false \/ exists e, bv = VErr e) ->
      match_run v lg1 r res lg2 ->
      match_run v lg ((pb, arm) :: r) res lg2.

  Lemma nth_at {A} (p : list A) x q : nth_error (p ++ x :: q) (length p) = Some x.
  Proof. rewrite nth_error_app2 by lia. rewrite Nat.sub_diag. reflexivity. Qed.

  Lemma cases_run v : forall lg cs res lg', match_run v lg cs res lg' -> plainv v ->
    forall p st, exists f,
      loop rs f E d (p ++ cases_code cs ++ tail_code) (length p) (SVal v :: st) lg = (ROk (res :: st), lg').
  Proof.
    induction 1 as [lg|lg pb arm r lg1 sva lg2 [Hcp Hpp] [Hca Hpa]|lg pb arm r bv lg1 res lg2 [Hcp Hpp] Hbv Hrun IH];
      intros Hpl p st.
    - (* no case left: pop the scrutinee, push null *)
      exists 3%nat. cbn [cases_code app]. unfold tail_code.
      rewrite loop_S, nth_at. rewrite (step_pop_plain rs E d v st lg Hpl).
      rewrite loop_S. replace (nth_error (p ++ [IPop; IPush VNull]) (S (length p))) with (Some (IPush VNull)).
      2:{ symmetry. change (p ++ [IPop; IPush VNull]) with (p ++ IPop :: [IPush VNull]).
          rewrite nth_error_app2 by lia. replace (S (length p) - length p)%nat with 1%nat by lia. reflexivity. }
      cbn [step]. unfold mret, push. rewrite loop_S.
      replace (nth_error (p ++ [IPop; IPush VNull]) (S (S (length p)))) with (@None instr).
      2:{ symmetry. apply nth_error_None. rewrite app_length. cbn. lia. }
      reflexivity.
    - (* the pattern yields true: pop the scrutinee, run the arm, jump to the end *)
      set (rest := cases_code r).
      set (jc := IJmpCond false (Z.of_nat (length arm + 2))).
      set (jm := IJmp (Z.of_nat (length rest + 2))).
      set (code := p ++ cases_code ((pb, arm) :: r) ++ tail_code).
      assert (E1 : code = (p ++ [IDup]) ++ pb ++ ([jc; IPop] ++ arm ++ [jm] ++ rest ++ tail_code)).
      { unfold code, jc, jm, rest. cbn [cases_code]. repeat (rewrite <- app_assoc; cbn [app]). reflexivity. }
      assert (E2 : code = (p ++ [IDup] ++ pb ++ [jc; IPop]) ++ arm ++ ([jm] ++ rest ++ tail_code)).
      { rewrite E1. repeat (rewrite <- app_assoc; cbn [app]). reflexivity. }
      assert (Len : length code = (length p + 1 + length pb + 2 + length arm + 1 + length rest + 2)%nat).
      { rewrite E1. repeat (rewrite ?app_length; cbn [length app]). unfold tail_code. cbn [length]. lia. }
      destruct (Hpp (SVal v :: st)) as (fp & Hp).
      destruct (embed rs E d (p ++ [IDup]) pb ([jc; IPop] ++ arm ++ [jm] ++ rest ++ tail_code) Hcp fp O _ lg _ lg1 (Nat.le_0_l _) Hp) as (f1 & _ & R1).
      destruct (Hpa st) as (fa & Ha).
      destruct (embed rs E d (p ++ [IDup] ++ pb ++ [jc; IPop]) arm ([jm] ++ rest ++ tail_code) Hca fa O _ lg1 _ lg2 (Nat.le_0_l _) Ha) as (f2 & _ & R2).
      exists (S (f1 + (2 + (f2 + 2)))).
      (* Dup *)
      assert (N0 : nth_error code (length p) = Some IDup).
      { unfold code. cbn [cases_code app]. apply nth_at. }
      rewrite loop_S, N0. rewrite (step_dup_plain rs E d v st lg Hpl).
      (* the pattern *)
      specialize (R1 (2 + (f2 + 2))%nat). rewrite <- E1 in R1.
      replace (length (p ++ [IDup]) + 0)%nat with (S (length p)) in R1 by (rewrite app_length; cbn; lia).
      rewrite R1. clear R1.
      (* JmpCond false on true: falls through *)
      assert (N1 : nth_error code (length (p ++ [IDup]) + length pb) = Some jc).
      { rewrite E1. rewrite nth_off. rewrite <- (Nat.add_0_r (length pb)), nth_off. reflexivity. }
      change (2 + (f2 + 2))%nat with (S (S (f2 + 2))). rewrite loop_S, N1. unfold jc at 1. rewrite step_jmpcond_bool. cbn [Bool.eqb].
      (* Pop *)
      assert (N2 : nth_error code (S (length (p ++ [IDup]) + length pb)) = Some IPop).
      { rewrite E1. replace (S (length (p ++ [IDup]) + length pb)) with (length (p ++ [IDup]) + (length pb + 1))%nat by lia.
        rewrite nth_off, nth_off. reflexivity. }
      rewrite loop_S, N2. rewrite (step_pop_plain rs E d v st lg1 Hpl).
      (* the arm *)
      specialize (R2 2%nat). rewrite <- E2 in R2.
      replace (length (p ++ [IDup] ++ pb ++ [jc; IPop]) + 0)%nat with (S (S (length (p ++ [IDup]) + length pb))) in R2
        by (repeat (rewrite ?app_length; cbn [length app]); lia).
      rewrite R2. clear R2.
      (* Jmp to the end *)
      assert (N3 : nth_error code (length (p ++ [IDup] ++ pb ++ [jc; IPop]) + length arm) = Some jm).
      { rewrite E2. rewrite nth_off. rewrite <- (Nat.add_0_r (length arm)), nth_off. reflexivity. }
      rewrite loop_S, N3. unfold jm at 1. rewrite step_jmp.
      rewrite jump_target_inside; [|lia|rewrite Len; repeat (rewrite ?app_length; cbn [length app]); lia].
      rewrite loop_S.
      match goal with |- context [nth_error code ?k] => replace (nth_error code k) with (@None instr) end.
      2:{ symmetry. apply nth_error_None. rewrite Len. repeat (rewrite ?app_length; cbn [length app]). lia. }
      reflexivity.
    - (* the pattern yields false or fails: on to the next case *)
      set (rest := cases_code r).
      set (jc := IJmpCond false (Z.of_nat (length arm + 2))).
      set (jm := IJmp (Z.of_nat (length rest + 2))).
      set (code := p ++ cases_code ((pb, arm) :: r) ++ tail_code).
      assert (E1 : code = (p ++ [IDup]) ++ pb ++ ([jc; IPop] ++ arm ++ [jm] ++ rest ++ tail_code)).
      { unfold code, jc, jm, rest. cbn [cases_code]. repeat (rewrite <- app_assoc; cbn [app]). reflexivity. }
      assert (E3 : code = (p ++ [IDup] ++ pb ++ [jc; IPop] ++ arm ++ [jm]) ++ rest ++ tail_code).
      { rewrite E1. repeat (rewrite <- app_assoc; cbn [app]). reflexivity. }
      assert (Len : length code = (length p + 1 + length pb + 2 + length arm + 1 + length rest + 2)%nat).
      { rewrite E1. repeat (rewrite ?app_length; cbn [length app]). unfold tail_code. cbn [length]. lia. }
      destruct (Hpp (SVal v :: st)) as (fp & Hp).
      destruct (embed rs E d (p ++ [IDup]) pb ([jc; IPop] ++ arm ++ [jm] ++ rest ++ tail_code) Hcp fp O _ lg _ lg1 (Nat.le_0_l _) Hp) as (f1 & _ & R1).
      destruct (IH Hpl (p ++ [IDup] ++ pb ++ [jc; IPop] ++ arm ++ [jm]) st) as (f3 & R3).
      exists (S (f1 + (1 + f3))).
      assert (N0 : nth_error code (length p) = Some IDup).
      { unfold code. cbn [cases_code app]. apply nth_at. }
      rewrite loop_S, N0. rewrite (step_dup_plain rs E d v st lg Hpl).
      specialize (R1 (1 + f3)%nat). rewrite <- E1 in R1.
      replace (length (p ++ [IDup]) + 0)%nat with (S (length p)) in R1 by (rewrite app_length; cbn; lia).
      rewrite R1. clear R1.
      assert (N1 : nth_error code (length (p ++ [IDup]) + length pb) = Some jc).
      { rewrite E1. rewrite nth_off. rewrite <- (Nat.add_0_r (length pb)), nth_off. reflexivity. }
      change (1 + f3)%nat with (S f3). rewrite loop_S, N1. unfold jc at 1.
      assert (J : step rs E d (IJmpCond false (Z.of_nat (length arm + 2))) (SVal bv :: SVal v :: st) lg1 =
                  (ROk (Some (Z.of_nat (length arm + 2)), SVal v :: st), lg1)).
      { destruct Hbv as [->|[e ->]]; reflexivity. }
      rewrite J. rewrite jump_target_inside; [|lia|rewrite Len; repeat (rewrite ?app_length; cbn [length app]); lia].
      rewrite E3 in *.
      replace (S (length (p ++ [IDup]) + length pb) + Z.to_nat (Z.of_nat (length arm + 2)))%nat
        with (length (p ++ [IDup] ++ pb ++ [jc; IPop] ++ arm ++ [jm])).
      2:{ repeat (rewrite ?app_length; cbn [length app]). lia. }
      exact R3.
  Qed.

  (** match cc { cases }: the scrutinee is evaluated and resolved once (by the first Dup) *)
  Theorem match_evaluates cc cs lg sv lg1 v lg2 res lg3 :
    pushes rs E d cc lg sv lg1 -> resolves rs E d sv lg1 v lg2 -> plainv v -> cs <> [] ->
    match_run v lg2 cs res lg3 ->
    forall st, exists f, loop rs f E d (match_code cc cs) O st lg = (ROk (res :: st), lg3).
  Proof.
    intros [Hcc Hpc] Hres Hpl Hne Hrun st. destruct (Hpc st) as (f1 & H1).
    destruct (embed rs E d [] cc (cases_code cs ++ tail_code) Hcc f1 O st lg (sv :: st) lg1 (Nat.le_0_l _) H1) as (f1' & _ & R1).
    destruct (cases_run v lg2 cs res lg3 Hrun Hpl cc st) as (f2 & R2).
    exists (f1' + f2)%nat. specialize (R1 f2). cbn [app length Nat.add] in R1. unfold match_code. rewrite R1. clear R1.
    destruct cs as [|[pb arm] r]; [congruence|].
    assert (N0 : nth_error (cc ++ cases_code ((pb, arm) :: r) ++ tail_code) (length cc) = Some IDup).
    { cbn [cases_code app]. apply nth_at. }
    destruct f2 as [|f2]; [cbn in R2; discriminate R2|].
    rewrite loop_S, N0 in R2 |- *. rewrite (step_dup_plain rs E d v st lg2 Hpl) in R2.
    cbn [step]. unfold mbind at 1. rewrite (Hres st). exact R2.
  Qed.

  (** the arms of skipped cases and every case after the chosen one are ANY code: nothing of them runs *)
  Corollary match_first_hit cc pb arm r lg sv lg1 v lg2 lg3 sva lg4 :
    pushes rs E d cc lg sv lg1 -> resolves rs E d sv lg1 v lg2 -> plainv v ->
    pat_eval pb v lg2 (VBool true) lg3 -> pushes rs E d arm lg3 sva lg4 ->
    forall st, exists f, loop rs f E d (match_code cc ((pb, arm) :: r)) O st lg = (ROk (sva :: st), lg4).
  Proof. intros Hc Hr Hp Hpat Harm. eapply match_evaluates; eauto; [discriminate|]. eapply mr_hit; eauto. Qed.
End Match.
