(* Proofs/Whitespace.v — C02: white space between tokens is skipped, whatever its amount: the tokenizer
   reaches the same character, with the same remaining input, after any run of blanks, tabs and newlines. *)
From Coq Require Import ZArith List Bool Lia.
From Rscel Require Import Base.Prims Base.F64 Base.Text Model.Value Model.Lexer Proofs.Literals Proofs.StrLit.
Import ListNotations.
Open Scope Z_scope.

Definition is_ws (c : Z) : bool := (c =? 32) || (c =? 9) || (c =? 10).

Lemma skip_ws_run : forall ws fuel s c rest,
  Forall (fun x => is_ws x = true) ws -> is_ws c = false ->
  sc_rest s = ws ++ c :: rest -> (length ws < fuel)%nat ->
  skip_ws fuel s = (sc_loc (advance s ws), Some c, advance s (ws ++ [c])).
Proof.
  induction ws as [|w r IH]; intros fuel s c rest Hw Hc Hs Hf.
  - destruct fuel as [|f]; [cbn in Hf; lia|]. cbn [skip_ws advance app] in *.
    destruct (sc_next_cons s c rest Hs) as [E _]. rewrite E. unfold is_ws in Hc. rewrite Hc. cbn [advance]. reflexivity.
  - destruct fuel as [|f]; [cbn in Hf; lia|]. cbn [skip_ws app] in *.
    destruct (sc_next_cons s w (r ++ c :: rest) Hs) as [E Er]. rewrite E.
    pose proof (Forall_inv Hw) as Hw1. unfold is_ws in Hw1. rewrite Hw1.
    rewrite (IH f (advance s [w]) c rest (Forall_inv_tail Hw) Hc Er) by (cbn [length] in Hf; lia).
    cbn [advance]. reflexivity.
Qed.

(** trailing white space: the end of input is reached *)
Lemma skip_ws_to_end : forall ws fuel s, Forall (fun x => is_ws x = true) ws -> sc_rest s = ws -> (length ws < fuel)%nat ->
  skip_ws fuel s = (sc_loc (advance s ws), None, advance s ws).
Proof.
  induction ws as [|w r IH]; intros fuel s Hw Hs Hf.
  - destruct fuel as [|f]; [cbn in Hf; lia|]. cbn [skip_ws advance]. unfold sc_next. rewrite Hs. reflexivity.
  - destruct fuel as [|f]; [cbn in Hf; lia|]. cbn [skip_ws].
    destruct (sc_next_cons s w r Hs) as [E Er]. rewrite E.
    pose proof (Forall_inv Hw) as Hw1. unfold is_ws in Hw1. rewrite Hw1.
    rewrite (IH f (advance s [w]) (Forall_inv_tail Hw) Er) by (cbn [length] in Hf; lia). cbn [advance]. reflexivity.
Qed.

(** hence the first token of a source does not depend on how much white space precedes it, as far as
    the character it starts with and the input that follows are concerned *)
Theorem leading_whitespace_irrelevant ws1 ws2 c rest :
  Forall (fun x => is_ws x = true) ws1 -> Forall (fun x => is_ws x = true) ws2 -> is_ws c = false ->
  let r1 := skip_ws (S (length (ws1 ++ c :: rest))) (mkScan (ws1 ++ c :: rest) 0 0) in
  let r2 := skip_ws (S (length (ws2 ++ c :: rest))) (mkScan (ws2 ++ c :: rest) 0 0) in
  snd (fst r1) = snd (fst r2) /\ sc_rest (snd r1) = sc_rest (snd r2) /\ sc_rest (snd r1) = rest.
Proof.
  intros H1 H2 Hc r1 r2. unfold r1, r2.
  rewrite (skip_ws_run ws1 _ (mkScan (ws1 ++ c :: rest) 0 0) c rest H1 Hc eq_refl) by (rewrite app_length; cbn; lia).
  rewrite (skip_ws_run ws2 _ (mkScan (ws2 ++ c :: rest) 0 0) c rest H2 Hc eq_refl) by (rewrite app_length; cbn; lia).
  cbn [fst snd]. split; [reflexivity|].
  assert (A : forall ws, sc_rest (advance (mkScan (ws ++ c :: rest) 0 0) (ws ++ [c])) = rest).
  { intros ws. apply (advance_rest' (ws ++ [c]) _ rest). cbn [sc_rest]. rewrite <- app_assoc. reflexivity. }
  rewrite !A. split; reflexivity.
Qed.
