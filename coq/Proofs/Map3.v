(* Proofs/Map3.v — C07: the three-argument map  l.map(x, pred, f): the predicate is evaluated on every
   element in order; f is evaluated exactly on those whose predicate is truthy, right after it; the result
   lists f's values in order; the first failing predicate or f ends the loop with that failure. *)
From Coq Require Import ZArith List Bool Lia.
From Rscel Require Import Base.Prims Base.F64 Base.Text Model.Value Model.Ops Model.Dispatch Model.Funcs Model.Interp.
Import ListNotations.
Open Scope Z_scope.

Section Map3.
  Variable rs : runner.
  Variable E : env.
  Variable dcur : nat.
  Variable x : bytes.
  Variable pred body : code.

  Definition Bp (v : value) : M (value + value) := run_body rs dcur (bind_param E x v) pred.
  Definition Bf (v : value) : M (value + value) := run_body rs dcur (bind_param E x v) body.

  (** [trace3 l lg ys lg']: per element the predicate, then (only when it is truthy) the transformation *)
  Inductive trace3 : list value -> log -> list value -> log -> Prop :=
  | t3_nil lg : trace3 [] lg [] lg
  | t3_keep v r lg b lg1 y lg2 ys lg3 :
      Bp v lg = (ROk (inr b), lg1) -> is_truthy b = true -> Bf v lg1 = (ROk (inr y), lg2) ->
      trace3 r lg2 ys lg3 -> trace3 (v :: r) lg (y :: ys) lg3
  | t3_drop v r lg b lg1 ys lg2 :
      Bp v lg = (ROk (inr b), lg1) -> is_truthy b = false ->
      trace3 r lg1 ys lg2 -> trace3 (v :: r) lg ys lg2.

  Theorem map3_filters_then_maps l : forall lg ys lg' acc,
    trace3 l lg ys lg' ->
    map_loop rs E dcur x (Some pred) body l acc lg = (ROk (VList (rev acc ++ ys)), lg').
  Proof.
    induction l as [|v r IH]; intros lg ys lg' acc Ht.
    - inversion Ht; subst. cbn [map_loop]. rewrite app_nil_r. reflexivity.
    - inversion Ht as [|? ? ? b lg1 y lg2 ys0 ? Hp Htr Hf Hrest|? ? ? b lg1 ys0 ? Hp Htr Hrest]; subst; cbn [map_loop].
      + unfold mbind at 1. fold (Bp v). rewrite Hp. rewrite Htr. unfold mbind at 1. fold (Bf v). rewrite Hf.
        rewrite (IH _ _ _ _ Hrest). cbn [rev]. rewrite <- app_assoc. reflexivity.
      + unfold mbind at 1. fold (Bp v). rewrite Hp. rewrite Htr. apply IH. exact Hrest.
  Qed.

  (** a failing predicate ends the loop with that failure; the transformation is not evaluated for it *)
  Theorem map3_stops_at_failing_predicate pre v post lg ys lg1 e lg2 acc :
    trace3 pre lg ys lg1 -> Bp v lg1 = (ROk (inl e), lg2) ->
    map_loop rs E dcur x (Some pred) body (pre ++ v :: post) acc lg = (ROk e, lg2).
  Proof.
    intros Ht. revert acc. induction Ht as [lg|u r lg b lg1' y lg2' ys lg3 Hp Htr Hf Ht IH|u r lg b lg1' ys lg2' Hp Htr Ht IH];
      intros acc Hb; cbn [app map_loop].
    - unfold mbind. fold (Bp v). rewrite Hb. reflexivity.
    - unfold mbind at 1. fold (Bp u). rewrite Hp, Htr. unfold mbind at 1. fold (Bf u). rewrite Hf. apply IH. exact Hb.
    - unfold mbind at 1. fold (Bp u). rewrite Hp, Htr. apply IH. exact Hb.
  Qed.

  (** ... and so does a failing transformation of a selected element *)
  Theorem map3_stops_at_failing_body pre v post lg ys lg1 b lg2 e lg3 acc :
    trace3 pre lg ys lg1 -> Bp v lg1 = (ROk (inr b), lg2) -> is_truthy b = true -> Bf v lg2 = (ROk (inl e), lg3) ->
    map_loop rs E dcur x (Some pred) body (pre ++ v :: post) acc lg = (ROk e, lg3).
  Proof.
    intros Ht. revert acc. induction Ht as [lg|u r lg b0 lg1' y lg2' ys lg3' Hp Htr Hf Ht IH|u r lg b0 lg1' ys lg2' Hp Htr Ht IH];
      intros acc Hb Hbt He; cbn [app map_loop].
    - unfold mbind at 1. fold (Bp v). rewrite Hb, Hbt. unfold mbind. fold (Bf v). rewrite He. reflexivity.
    - unfold mbind at 1. fold (Bp u). rewrite Hp, Htr. unfold mbind at 1. fold (Bf u). rewrite Hf. apply IH; assumption.
    - unfold mbind at 1. fold (Bp u). rewrite Hp, Htr. apply IH; assumption.
  Qed.
End Map3.
