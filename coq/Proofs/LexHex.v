(* Proofs/LexHex.v — C13: from source text to value for hexadecimal integer literals. *)
From Coq Require Import ZArith List Bool Lia.
From Rscel Require Import Base.Prims Base.F64 Base.Text Model.Value Model.Lexer Model.Ast Model.Parser Model.Compile
     Model.Ops Model.Dispatch Model.Funcs Model.Interp.
From Rscel Require Import Proofs.Literals Proofs.Conv Proofs.LitProgram.
Import ListNotations.
Open Scope Z_scope.

(** the first token of  0x / 0X followed by the hex spelling of n *)
Lemma collect_hex dch fuel n x : good_alphabet 16 dch -> (0 < fuel)%nat -> 0 <= n < 16 ^ Z.of_nat fuel ->
  (x = 120 \/ x = 88) -> in_u64 n = true ->
  exists rng send, collect_token (mkScan (48 :: x :: render 16 dch fuel n []) 0 0) = LOk (Some (mkTok (TIntLit n) rng)) send
                   /\ sc_rest send = [].
Proof.
  intros Hg Hf Hn Hx Hr.
  destruct (hex_literal_denotes dch fuel n x [] (mkScan (x :: render 16 dch fuel n []) 0 (0 + 1)) Hg Hf Hn Hx
              ltac:(cbn; rewrite app_nil_r; reflexivity) I) as (s' & Hs' & L).
  rewrite Hr in L.
  exists (mkRange (mkLoc 0 0) (sc_loc s')), s'. split; [|exact Hs'].
  unfold collect_token. cbn [sc_rest].
  change (skip_ws (S (length (48 :: x :: render 16 dch fuel n []))) (mkScan (48 :: x :: render 16 dch fuel n []) 0 0))
    with (mkLoc 0 0, Some 48, mkScan (x :: render 16 dch fuel n []) 0 (0 + 1)).
  cbv beta iota zeta. cbn [Z.eqb Pos.eqb orb is_digit Z.leb Z.compare Pos.compare Pos.compare_cont andb].
  rewrite L. reflexivity.
Qed.

(** ... compiled and executed under any bindings it evaluates to n *)
Theorem hex_source_evaluates dch fuel n x f g E d lg : good_alphabet 16 dch -> (0 < fuel)%nat -> 0 <= n < 16 ^ Z.of_nat fuel ->
  (x = 120 \/ x = 88) -> n <= i64_max -> (d < 32)%nat ->
  exists p k, compile_source (S f) (48 :: x :: render 16 dch fuel n []) = COk p k /\
              run (S (S (S g))) E (pr_code p) true d lg = (ROk (VInt n), lg).
Proof.
  intros Hg Hf Hn Hx Hm Hd.
  assert (Hr : in_u64 n = true).
  { unfold in_u64. apply andb_true_iff. unfold i64_max in Hm. split; apply Z.leb_le; unfold u64_max; lia. }
  destruct (collect_hex dch fuel n x Hg Hf Hn Hx Hr) as (rng & send & T1 & He).
  assert (Hl : lit_of_token (TIntLit n) = Some (LInt n)).
  { cbn. destruct (Z.leb_spec n i64_max); [reflexivity|lia]. }
  eexists. eexists. split.
  - exact (compile_single_literal f _ _ _ _ (LInt n) (VInt n) T1 He Hl eq_refl).
  - cbn [pr_code]. apply run_push; [exact I|exact Hd].
Qed.
