(* Proofs/Literals.v — C13: numeric literals denote the value they spell;
   out-of-range ones are rejected.  (Strings and bytes: Proofs/StrLit.v.) *)
From Coq Require Import ZArith List Bool Lia.
From Rscel Require Import Base.Prims Base.F64 Base.Text Model.Value Model.Lexer.
Import ListNotations.
Open Scope Z_scope.

(* ---- digit strings ------------------------------------------------------------------ *)

(** value of a digit string in a base, reading left to right from [a] *)
Definition dstep (base : Z) (acc : option Z) (c : Z) : option Z :=
  match acc with
  | Some a => if (if base =? 16 then is_hex c else is_digit c) then Some (a * base + hex_val c) else None
  | None => None
  end.

Lemma digits_value_base_fold base ds : ds <> [] -> digits_value_base base ds = fold_left (dstep base) ds (Some 0).
Proof. destruct ds; [congruence|reflexivity]. Qed.

(** rendering in base 10 or 16 with a digit alphabet [dch] *)
Fixpoint render (base : Z) (dch : Z -> Z) (fuel : nat) (n : Z) (acc : chars) : chars :=
  match fuel with
  | O => acc
  | S f => let acc' := dch (n mod base) :: acc in
           if n <? base then acc' else render base dch f (n / base) acc'
  end.

Definition good_alphabet (base : Z) (dch : Z -> Z) : Prop :=
  forall d, 0 <= d < base -> hex_val (dch d) = d /\ (if base =? 16 then is_hex (dch d) else is_digit (dch d)) = true.

Lemma render_value base dch : 1 < base -> good_alphabet base dch ->
  forall fuel n acc, (0 < fuel)%nat -> 0 <= n < base ^ Z.of_nat fuel ->
  exists ds, render base dch fuel n acc = ds ++ acc /\ ds <> [] /\
             forall a, fold_left (dstep base) ds (Some a) = Some (a * base ^ Z.of_nat (length ds) + n).
Proof.
  intros Hb Hg. induction fuel as [|f IH]; intros n acc Hf Hn.
  - lia.
  - cbn [render]. destruct (n <? base) eqn:L.
    + apply Z.ltb_lt in L. exists [dch (n mod base)]. split; [reflexivity|]. split; [discriminate|].
      intros a. cbn [fold_left dstep length]. rewrite Z.mod_small by lia.
      destruct (Hg n ltac:(lia)) as [Hv Hd]. rewrite Hd, Hv. f_equal. change (Z.of_nat 1) with 1. lia.
    + apply Z.ltb_ge in L.
      assert (Hq : 0 <= n / base < base ^ Z.of_nat f).
      { split; [apply Z.div_pos; lia|]. apply Z.div_lt_upper_bound; [lia|].
        replace (Z.of_nat (S f)) with (Z.of_nat f + 1) in Hn by lia. rewrite Z.pow_add_r in Hn by lia. lia. }
      assert (Hf' : (0 < f)%nat).
      { destruct f; [|lia]. change (Z.of_nat 0) with 0 in Hq. rewrite Z.pow_0_r in Hq.
        assert (n / base = 0) by lia. apply Z.div_small_iff in H; lia. }
      destruct (IH (n / base) (dch (n mod base) :: acc) Hf' Hq) as (ds & E & Hne & Hv).
      exists (ds ++ [dch (n mod base)]). split; [rewrite E, <- app_assoc; reflexivity|].
      split; [destruct ds; discriminate|]. intros a. rewrite fold_left_app, Hv. cbn [fold_left dstep].
      assert (Hm : 0 <= n mod base < base) by (apply Z.mod_pos_bound; lia).
      destruct (Hg (n mod base) Hm) as [Hv' Hd]. rewrite Hd, Hv'. f_equal.
      rewrite app_length. cbn [length]. replace (Z.of_nat (length ds + 1)) with (Z.of_nat (length ds) + 1) by lia.
      rewrite Z.pow_add_r by lia. pose proof (Z.div_mod n base ltac:(lia)). lia.
Qed.

Theorem render_denotes base dch fuel n : 1 < base -> good_alphabet base dch -> (0 < fuel)%nat -> 0 <= n < base ^ Z.of_nat fuel ->
  digits_value_base base (render base dch fuel n []) = Some n.
Proof.
  intros Hb Hg Hf Hn. destruct (render_value base dch Hb Hg fuel n [] Hf Hn) as (ds & E & Hne & Hv).
  rewrite E, app_nil_r. rewrite digits_value_base_fold by assumption. rewrite Hv. f_equal; lia.
Qed.

Definition dec_ch (d : Z) : Z := 48 + d.
Definition hex_lower (d : Z) : Z := if d <? 10 then 48 + d else 87 + d.
Definition hex_upper (d : Z) : Z := if d <? 10 then 48 + d else 55 + d.

Lemma dec_ch_good : good_alphabet 10 dec_ch.
Proof.
  intros d Hd. unfold dec_ch, hex_val, is_digit. cbn [Z.eqb].
  assert (E : ((48 <=? 48 + d) && (48 + d <=? 57)) = true) by (apply andb_true_iff; split; apply Z.leb_le; lia).
  rewrite E. split; [lia|reflexivity].
Qed.

Lemma hex_lower_good : good_alphabet 16 hex_lower.
Proof.
  intros d Hd. unfold hex_lower, hex_val, is_hex, is_digit. cbn [Z.eqb]. destruct (d <? 10) eqn:L.
  - apply Z.ltb_lt in L.
    assert (E : ((48 <=? 48 + d) && (48 + d <=? 57)) = true) by (apply andb_true_iff; split; apply Z.leb_le; lia).
    rewrite E. split; [lia|reflexivity].
  - apply Z.ltb_ge in L.
    assert (E : ((48 <=? 87 + d) && (87 + d <=? 57)) = false) by (apply andb_false_iff; right; apply Z.leb_gt; lia).
    assert (E2 : ((97 <=? 87 + d) && (87 + d <=? 102)) = true) by (apply andb_true_iff; split; apply Z.leb_le; lia).
    rewrite E, E2. assert (E3 : (87 + d <=? 70) = false) by (apply Z.leb_gt; lia). rewrite E3.
    split; [lia|]. rewrite orb_true_r. reflexivity.
Qed.

Lemma hex_upper_good : good_alphabet 16 hex_upper.
Proof.
  intros d Hd. unfold hex_upper, hex_val, is_hex, is_digit. cbn [Z.eqb]. destruct (d <? 10) eqn:L.
  - apply Z.ltb_lt in L.
    assert (E : ((48 <=? 48 + d) && (48 + d <=? 57)) = true) by (apply andb_true_iff; split; apply Z.leb_le; lia).
    rewrite E. split; [lia|reflexivity].
  - apply Z.ltb_ge in L.
    assert (E : ((48 <=? 55 + d) && (55 + d <=? 57)) = false) by (apply andb_false_iff; right; apply Z.leb_gt; lia).
    assert (E2 : ((65 <=? 55 + d) && (55 + d <=? 70)) = true) by (apply andb_true_iff; split; apply Z.leb_le; lia).
    rewrite E, E2. assert (E3 : (55 + d <=? 70) = true) by (apply Z.leb_le; lia). rewrite E3.
    split; [lia|reflexivity].
Qed.

(** the model's own decimal printer is [render 10 dec_ch] *)
Lemma dec_digits_render fuel : forall n acc, dec_digits fuel n acc = render 10 dec_ch fuel n acc.
Proof. induction fuel as [|f IH]; intros n acc; [reflexivity|]. cbn [dec_digits render]. rewrite IH. reflexivity. Qed.

Lemma pow_log2_bound n : 0 <= n -> n < 10 ^ Z.of_nat (S (Z.to_nat (Z.log2 n))).
Proof.
  intros Hn. destruct (Z.eq_dec n 0) as [->|Hz]; [cbn; lia|].
  assert (Hp : 0 < n) by lia. pose proof (Z.log2_spec n Hp) as [_ Hu]. pose proof (Z.log2_nonneg n) as Hl.
  replace (Z.of_nat (S (Z.to_nat (Z.log2 n)))) with (Z.succ (Z.log2 n)) by lia.
  eapply Z.lt_le_trans; [exact Hu|]. apply Z.pow_le_mono_l. lia.
Qed.

(** every non-negative integer, printed in decimal, reads back as itself *)
Theorem decimal_denotes n : 0 <= n -> digits_value_base 10 (dec_of_nonneg n) = Some n.
Proof.
  intros Hn. unfold dec_of_nonneg. rewrite dec_digits_render.
  apply render_denotes; [lia|exact dec_ch_good|lia|]. split; [assumption|apply pow_log2_bound; assumption].
Qed.

Theorem hex_denotes dch n fuel : good_alphabet 16 dch -> (0 < fuel)%nat -> 0 <= n < 16 ^ Z.of_nat fuel ->
  digits_value_base 16 (render 16 dch fuel n []) = Some n.
Proof. intros Hg Hf Hn. apply render_denotes; [lia|assumption|assumption|assumption]. Qed.

(* ---- the scanner over a run of digits ------------------------------------------------ *)

(** a character that ends a number *)
Definition ends_number (hex : bool) (c : Z) : bool :=
  negb (is_digit c || (hex && is_hex c) || (c =? 101) || (c =? 69) || (c =? 46) || (c =? 117) || (c =? 85)
        || (c =? 120) || (c =? 88)).

Definition tail_ends (hex : bool) (tail : chars) : Prop :=
  match tail with [] => True | c :: _ => ends_number hex c = true end.

Definition no_newline (ds : chars) : Prop := Forall (fun c => c <> 10) ds.

(** advancing over characters that are not newlines moves the column only *)
Fixpoint advance (s : scanner) (ds : chars) : scanner :=
  match ds with [] => s | _ :: r => advance (snd (sc_next s)) r end.

Lemma advance_rest ds : forall tail l c, sc_rest (advance (mkScan (ds ++ tail) l c) ds) = tail.
Proof.
  induction ds as [|d r IH]; intros tail l c; [reflexivity|]. cbn [advance app]. unfold sc_next. cbn [sc_rest].
  destruct (d =? 10); cbn [snd]; apply IH.
Qed.

Lemma scanner_eta s : s = mkScan (sc_rest s) (sc_line s) (sc_col s).
Proof. destruct s; reflexivity. Qed.

(** collect_number over a run of digits (decimal, or hex once the 0x prefix was seen) *)
Lemma collect_digits hex : forall ds tail fuel s st,
  sc_rest s = ds ++ tail -> n_hex st = hex ->
  Forall (fun c => (is_digit c || (hex && is_hex c)) = true) ds ->
  tail_ends hex tail -> (length (ds ++ tail) <= fuel)%nat ->
  collect_number fuel s st =
  (mkNum (rev ds ++ n_work st) (n_float st) (n_exp st) (n_uns st) (n_hex st), advance s ds).
Proof.
  induction ds as [|d r IH]; intros tail fuel s st Hs Hh Hd Ht Hf.
  - cbn [app] in Hs, Hf. destruct fuel as [|f].
    { destruct tail; [|cbn in Hf; lia]. cbn. destruct st; reflexivity. }
    cbn [collect_number rev app advance].
    unfold sc_peek. rewrite Hs. destruct tail as [|c t]; [destruct st; reflexivity|].
    cbn in Ht. unfold ends_number in Ht. rewrite Hh. apply negb_true_iff in Ht.
    repeat (apply orb_false_iff in Ht; destruct Ht as [Ht ?]).
    repeat match goal with H : ?x = false |- _ => rewrite H; clear H end.
    cbn. destruct st; cbn in *; subst; reflexivity.
  - destruct fuel as [|f]; [cbn in Hf; lia|]. cbn [collect_number]. unfold sc_peek. rewrite Hs. cbn [app].
    pose proof (Forall_inv Hd) as Hd1. pose proof (Forall_inv_tail Hd) as Hd2. cbn beta in Hd1. rewrite Hh, Hd1.
    rewrite (IH tail f (snd (sc_next s)) _); cbn [n_work n_float n_exp n_uns n_hex].
    + cbn [rev advance]. rewrite <- app_assoc. reflexivity.
    + unfold sc_next. rewrite Hs. cbn [app]. destruct (d =? 10); reflexivity.
    + reflexivity.
    + exact Hd2.
    + exact Ht.
    + cbn [app length] in Hf. lia.
Qed.

(** Decimal integer literal: first digit already consumed by collect_token. *)
Theorem lex_decimal_int first ds tail s :
  sc_rest s = ds ++ tail -> Forall (fun c => is_digit c = true) (first :: ds) -> tail_ends false tail ->
  lex_number [first] false s =
  match digits_value_base 10 (first :: ds) with
  | Some v => if in_u64 v then LOk (TIntLit v) (advance s ds) else LErr (sc_loc (advance s ds))
  | None => LErr (sc_loc (advance s ds))
  end.
Proof.
  intros Hs Hd Ht. inversion Hd as [|? ? Hd1 Hd2]; subst. unfold lex_number.
  rewrite (collect_digits false ds tail (length (sc_rest s)) s (mkNum (rev [first]) false false false false)); auto.
  - cbn [n_work n_float n_exp n_uns n_hex rev app]. rewrite rev_app_distr, rev_involutive. cbn [rev app]. reflexivity.
  - eapply Forall_impl; [|exact Hd2]. cbn. intros c Hc. rewrite Hc. reflexivity.
  - rewrite Hs. lia.
Qed.

(* ---- rendered digit strings are digit strings ------------------------------------------ *)

Lemma render_forall (P : Z -> Prop) base dch : 1 < base -> (forall d, 0 <= d < base -> P (dch d)) ->
  forall fuel n acc, 0 <= n -> Forall P acc -> Forall P (render base dch fuel n acc).
Proof.
  intros Hb Hp. induction fuel as [|f IH]; intros n acc Hn Ha; [exact Ha|]. cbn [render].
  assert (Hm : 0 <= n mod base < base) by (apply Z.mod_pos_bound; lia).
  destruct (n <? base); [constructor; auto|]. apply IH; [apply Z.div_pos; lia|constructor; auto].
Qed.

Lemma render_nonempty base dch fuel n acc : (0 < fuel)%nat -> render base dch fuel n acc <> [].
Proof.
  revert n acc. induction fuel as [|f IH]; intros n acc Hf; [lia|]. cbn [render].
  destruct (n <? base); [discriminate|]. destruct f as [|f']; [cbn; discriminate|]. apply IH. lia.
Qed.

Lemma dec_of_nonneg_digits n : 0 <= n -> Forall (fun c => is_digit c = true) (dec_of_nonneg n) /\ dec_of_nonneg n <> [].
Proof.
  intros Hn. unfold dec_of_nonneg. rewrite dec_digits_render. split.
  - apply render_forall; [lia| |assumption|constructor]. intros d Hd. destruct (dec_ch_good d Hd) as [_ H]. exact H.
  - apply render_nonempty. lia.
Qed.

(** A decimal integer literal spelled by the printer: the token carries exactly
    that number when it fits 64 bits, and is a syntax error otherwise. *)
Theorem int_literal_denotes n first ds tail s : 0 <= n ->
  dec_of_nonneg n = first :: ds -> sc_rest s = ds ++ tail -> tail_ends false tail ->
  lex_number [first] false s =
  if in_u64 n then LOk (TIntLit n) (advance s ds) else LErr (sc_loc (advance s ds)).
Proof.
  intros Hn E Hs Ht. destruct (dec_of_nonneg_digits n Hn) as [Hd _]. rewrite E in Hd.
  rewrite (lex_decimal_int first ds tail s Hs Hd Ht). rewrite <- E, decimal_denotes by assumption. reflexivity.
Qed.

(* ---- unsigned: digits followed by u / U --------------------------------------------------- *)

Lemma collect_digits_u hex : forall ds u tail fuel s st,
  sc_rest s = ds ++ u :: tail -> n_hex st = hex -> n_float st = false ->
  Forall (fun c => (is_digit c || (hex && is_hex c)) = true) ds ->
  (u = 117 \/ u = 85) -> (length (ds ++ u :: tail) <= fuel)%nat ->
  collect_number fuel s st =
  (mkNum (rev ds ++ n_work st) false (n_exp st) true (n_hex st), advance s (ds ++ [u])).
Proof.
  induction ds as [|d r IH]; intros u tail fuel s st Hs Hh Hfl Hd Hu Hf.
  - cbn [app] in Hs, Hf. destruct fuel as [|f]; [cbn in Hf; lia|].
    cbn [collect_number rev app advance]. unfold sc_peek. rewrite Hs.
    assert (Hnd : (is_digit u || (n_hex st && is_hex u)) = false).
    { destruct Hu; subst u; destruct (n_hex st); reflexivity. }
    rewrite Hnd.
    assert (H1 : ((u =? 101) || (u =? 69) || (u =? 46)) = false) by (destruct Hu; subst u; reflexivity).
    assert (H2 : ((u =? 117) || (u =? 85)) = true) by (destruct Hu; subst u; reflexivity).
    rewrite H1, H2, Hfl. reflexivity.
  - destruct fuel as [|f]; [cbn in Hf; lia|]. cbn [collect_number]. unfold sc_peek. rewrite Hs. cbn [app].
    pose proof (Forall_inv Hd) as Hd1. pose proof (Forall_inv_tail Hd) as Hd2. cbn beta in Hd1. rewrite Hh, Hd1.
    rewrite (IH u tail f (snd (sc_next s)) _); cbn [n_work n_float n_exp n_uns n_hex]; auto.
    + cbn [rev advance app]. rewrite <- app_assoc. reflexivity.
    + unfold sc_next. rewrite Hs. cbn [app]. destruct (d =? 10); reflexivity.
    + cbn [app length] in Hf. lia.
Qed.

Theorem uint_literal_denotes n first ds u tail s : 0 <= n ->
  dec_of_nonneg n = first :: ds -> sc_rest s = ds ++ u :: tail -> (u = 117 \/ u = 85) ->
  lex_number [first] false s =
  if in_u64 n then LOk (TUIntLit n) (advance s (ds ++ [u])) else LErr (sc_loc (advance s (ds ++ [u]))).
Proof.
  intros Hn E Hs Hu. destruct (dec_of_nonneg_digits n Hn) as [Hd _]. rewrite E in Hd.
  unfold lex_number.
  rewrite (collect_digits_u false ds u tail (length (sc_rest s)) s (mkNum (rev [first]) false false false false)); auto.
  - cbn [n_work n_float n_exp n_uns n_hex rev app]. rewrite rev_app_distr, rev_involutive. cbn [rev app].
    rewrite <- E, decimal_denotes by assumption. reflexivity.
  - eapply Forall_impl; [|exact (Forall_inv_tail Hd)]. cbn. intros c Hc. rewrite Hc. reflexivity.
  - rewrite Hs. lia.
Qed.

(* ---- hexadecimal: 0x / 0X then hex digits ----------------------------------------------------- *)

Lemma trim_0x_unfold f s :
  trim_0x (S f) s = match s with
                    | a :: b :: r => if (a =? 48) && (b =? 120) then trim_0x f r else s
                    | _ => s
                    end.
Proof.
  cbn [trim_0x]. destruct s as [|a [|b r]]; [reflexivity| |].
  - destruct a as [|p|p]; try reflexivity. do 7 (try (destruct p as [p|p|]; try reflexivity)).
  - destruct (Z.eqb_spec a 48) as [->|Ha]; cbn [andb].
    + destruct (Z.eqb_spec b 120) as [->|Hb]; [reflexivity|].
      destruct b as [|p|p]; try reflexivity. do 8 (try (destruct p as [p|p|]; try reflexivity)). congruence.
    + destruct a as [|p|p]; try reflexivity. do 7 (try (destruct p as [p|p|]; try reflexivity)). congruence.
Qed.

Lemma trim_0x_hex fuel ds : Forall (fun c => is_hex c = true) ds -> trim_0x fuel ds = ds.
Proof.
  intros H. destruct fuel as [|f]; [reflexivity|]. rewrite trim_0x_unfold.
  destruct ds as [|a [|b r]]; try reflexivity.
  destruct (Z.eqb_spec b 120) as [->|Hb]; [|rewrite andb_false_r; reflexivity].
  exfalso. pose proof (Forall_inv (Forall_inv_tail H)) as Hx. cbn in Hx. discriminate.
Qed.

Theorem hex_literal_denotes dch fuel n x tail s : good_alphabet 16 dch -> (0 < fuel)%nat -> 0 <= n < 16 ^ Z.of_nat fuel ->
  (x = 120 \/ x = 88) ->
  sc_rest s = x :: render 16 dch fuel n [] ++ tail -> tail_ends true tail ->
  exists s', sc_rest s' = tail /\
  lex_number [48] false s = if in_u64 n then LOk (TIntLit n) s' else LErr (sc_loc s').
Proof.
  intros Hg Hf Hn Hx Hs Ht. set (ds := render 16 dch fuel n []) in *.
  assert (Hd : Forall (fun c => is_hex c = true) ds).
  { apply render_forall; [lia| |lia|constructor]. intros d Hd. destruct (Hg d Hd) as [_ H]. exact H. }
  exists (advance (snd (sc_next s)) ds). split.
  { unfold sc_next. rewrite Hs. assert (E : (x =? 10) = false) by (destruct Hx; subst x; reflexivity). rewrite E. cbn [snd].
    apply advance_rest. }
  unfold lex_number.
  destruct (length (sc_rest s)) as [|f0] eqn:EL; [rewrite Hs in EL; discriminate|].
  cbn [collect_number]. unfold sc_peek. rewrite Hs.
  assert (Hnd : (is_digit x || (n_hex (mkNum (rev [48]) false false false false) && is_hex x)) = false)
    by (destruct Hx; subst x; reflexivity).
  rewrite Hnd.
  assert (H1 : ((x =? 101) || (x =? 69) || (x =? 46)) = false) by (destruct Hx; subst x; reflexivity).
  assert (H2 : ((x =? 117) || (x =? 85)) = false) by (destruct Hx; subst x; reflexivity).
  assert (H3 : ((x =? 120) || (x =? 88)) = true) by (destruct Hx; subst x; reflexivity).
  rewrite H1, H2, H3. cbn [n_work n_float n_exp n_uns n_hex rev app chars_eqb bytes_eqb]. cbn [andb negb].
  change (chars_eqb [48] [48]) with true. cbn [andb].
  rewrite (collect_digits true ds tail f0 (snd (sc_next s)) (mkNum [120; 48] false false false true)); auto.
  - replace ((48 =? 48) && true && true) with true by reflexivity. cbv iota beta zeta.
    cbn [n_work n_float n_exp n_uns n_hex]. rewrite rev_app_distr, rev_involutive. cbn [rev app].
    change (48 :: 120 :: ds) with ([48; 120] ++ ds).
    assert (Et : trim_0x (length ([48; 120] ++ ds)) ([48; 120] ++ ds) = ds).
    { cbn [app length]. change (trim_0x (S (S (length ds))) (48 :: 120 :: ds)) with (trim_0x (S (length ds)) ds).
      apply trim_0x_hex. exact Hd. }
    rewrite Et. unfold ds. rewrite hex_denotes by assumption. reflexivity.
  - unfold sc_next. rewrite Hs. destruct (x =? 10); reflexivity.
  - eapply Forall_impl; [|exact Hd]. cbn. intros c Hc. rewrite Hc. apply orb_true_r.
  - rewrite Hs in EL. cbn [length] in EL. lia.
Qed.

(* ---- the text of a floating-point literal -------------------------------------------------- *)

Definition dec_value (ds : chars) (acc : Z) : Z := fold_left (fun a c => a * 10 + (c - 48)) ds acc.

Definition not_digit_head (r : chars) : Prop := match r with [] => True | c :: _ => is_digit c = false end.

Lemma split_digits_run : forall ds rest acc n,
  Forall (fun c => is_digit c = true) ds -> not_digit_head rest ->
  split_digits (ds ++ rest) acc n = (dec_value ds acc, n + Z.of_nat (length ds), rest).
Proof.
  induction ds as [|d r IH]; intros rest acc n Hd Hr.
  - cbn [app dec_value fold_left length]. destruct rest as [|c t]; cbn [split_digits].
    + f_equal. f_equal. lia.
    + cbn in Hr. rewrite Hr. f_equal. f_equal. lia.
  - cbn [app split_digits]. rewrite (Forall_inv Hd). rewrite (IH rest _ _ (Forall_inv_tail Hd) Hr).
    cbn [dec_value fold_left length]. f_equal. f_equal. lia.
Qed.

(** "I.F": the literal denotes [dec_to_f64] of the digits read as one integer, scaled by 10^-|F| *)
Theorem float_text_plain ip fp :
  Forall (fun c => is_digit c = true) ip -> Forall (fun c => is_digit c = true) fp -> (0 < length ip + length fp)%nat ->
  parse_float_text (ip ++ 46 :: fp) = Some (dec_to_f64 (dec_value (ip ++ fp) 0) (- Z.of_nat (length fp))).
Proof.
  intros Hi Hf Hl. unfold parse_float_text.
  rewrite (split_digits_run ip (46 :: fp) 0 0 Hi eq_refl).
  replace fp with (fp ++ []) at 1 by apply app_nil_r.
  rewrite (split_digits_run fp [] _ 0 Hf I).
  destruct (0 + Z.of_nat (length ip) + (0 + Z.of_nat (length fp)) =? 0) eqn:E; [apply Z.eqb_eq in E; lia|].
  unfold dec_value. rewrite fold_left_app. repeat f_equal; lia.
Qed.

(** "I.FeSX" / "IeSX": exponent X with optional sign S; the model caps huge exponents at a
    point where the value is already 0 or infinity (the theorem covers exponents below the cap) *)
Theorem float_text_exp ip fp ex sgn e :
  Forall (fun c => is_digit c = true) ip -> Forall (fun c => is_digit c = true) fp ->
  Forall (fun c => is_digit c = true) ex -> (0 < length ip + length fp)%nat -> (0 < length ex)%nat ->
  (e = 101 \/ e = 69) -> (sgn = [] \/ sgn = [43] \/ sgn = [45]) ->
  dec_value ex 0 <= Z.of_nat (length ip) + Z.of_nat (length fp) + 2000 ->
  parse_float_text (ip ++ 46 :: fp ++ e :: sgn ++ ex) =
  Some (dec_to_f64 (dec_value (ip ++ fp) 0)
          ((match sgn with [45] => - dec_value ex 0 | _ => dec_value ex 0 end) - Z.of_nat (length fp))).
Proof.
  intros Hi Hf Hx Hl Hlx He Hs Hcap. unfold parse_float_text.
  rewrite (split_digits_run ip (46 :: fp ++ e :: sgn ++ ex) 0 0 Hi eq_refl).
  assert (Hnd : not_digit_head (e :: sgn ++ ex)) by (destruct He; subst e; reflexivity).
  rewrite (split_digits_run fp (e :: sgn ++ ex) _ 0 Hf Hnd).
  destruct (0 + Z.of_nat (length ip) + (0 + Z.of_nat (length fp)) =? 0) eqn:E; [apply Z.eqb_eq in E; lia|].
  assert (Ee : ((e =? 101) || (e =? 69)) = true) by (destruct He; subst e; reflexivity). rewrite Ee.
  assert (Hex : ex <> []) by (destruct ex; [cbn in Hlx; lia|discriminate]).
  assert (Hd0 : exists d r, ex = d :: r /\ is_digit d = true).
  { destruct ex as [|d r]; [congruence|]. exists d, r. split; [reflexivity|exact (Forall_inv Hx)]. }
  destruct Hd0 as (d0 & r0 & Eex & Hd0).
  assert (Hsplit : forall (neg : bool) rest', rest' = ex ->
     (let '(ev, ne, r5) := split_digits rest' 0 0 in
      if ne =? 0 then None else
      match r5 with
      | [] => let ev' := Z.min ev (0 + Z.of_nat (length ip) + (0 + Z.of_nat (length fp)) + 2000) in
              Some (dec_to_f64 (dec_value fp (dec_value ip 0)) ((if neg then - ev' else ev') - (0 + Z.of_nat (length fp))))
      | _ => None
      end) = Some (dec_to_f64 (dec_value (ip ++ fp) 0)
                    ((if neg : bool then - dec_value ex 0 else dec_value ex 0) - Z.of_nat (length fp)))).
  { intros neg rest' ->. replace ex with (ex ++ []) at 1 by apply app_nil_r.
    rewrite (split_digits_run ex [] 0 0 Hx I).
    destruct (0 + Z.of_nat (length ex) =? 0) eqn:E2; [apply Z.eqb_eq in E2; lia|].
    rewrite Z.min_l by (unfold dec_value in *; lia). unfold dec_value. rewrite fold_left_app. destruct neg; repeat f_equal; lia. }
  destruct Hs as [->|[->| ->]]; cbn [app].
  - rewrite Eex. cbn [app].
    assert (N1 : d0 <> 43 /\ d0 <> 45).
    { unfold is_digit in Hd0. apply andb_true_iff in Hd0. destruct Hd0 as [A B]. apply Z.leb_le in A. lia. }
    destruct N1 as [N1 N2].
    assert (M : (match d0 :: r0 with 43 :: r => (false, r) | 45 :: r => (true, r) | _ => (false, d0 :: r0) end) = (false, d0 :: r0)).
    { destruct d0 as [|p|p]; try reflexivity. do 7 (try (destruct p as [p|p|]; try reflexivity)); congruence. }
    rewrite M. rewrite <- Eex. apply (Hsplit false ex eq_refl).
  - apply (Hsplit false ex eq_refl).
  - apply (Hsplit true ex eq_refl).
Qed.
