(* Proofs/BlocksAnd.v — C05: a && b when a does not decide: b is evaluated and the
   result is [and_] of the left value and the right value; a hard failure of b fails the whole. *)
From Coq Require Import ZArith List Bool Lia Arith.
From Rscel Require Import Base.Prims Base.F64 Base.Text Model.Value Model.Ops Model.Dispatch Model.Funcs
     Model.Interp Spec.WfCode Proofs.VM Proofs.Blocks.
Import ListNotations.
Open Scope Z_scope.

Section And.
  Variable rs : runner.
  Variable E : env.
  Variable d : nat.

  Theorem and_evaluates_rhs ca cb lg sva lg1 va lg2 svb lg3 vb lg4 :
    pushes rs E d ca lg sva lg1 -> resolves rs E d sva lg1 va lg2 ->
    is_err va = false -> is_truthy va = true ->
    pushes rs E d cb lg2 svb lg3 -> resolves rs E d svb lg3 vb lg4 ->
    forall st, exists f, loop rs f E d (and_code ca cb) O st lg = (ROk (SVal (and_ (VBool true) vb) :: st), lg4).
  Proof.
    intros [Hca Hpa] Hra Hne Htr [Hcb Hpb] Hrb st.
    destruct (Hpa st) as (fa & Ha).
    set (pre := [ITest; IDup; IJmpCond false (Z.of_nat (length cb) + 1)]).
    set (q := pre ++ cb ++ [IAnd]).
    destruct (embed rs E d [] ca q Hca fa O st lg (sva :: st) lg1 (Nat.le_0_l _) Ha) as (f1 & _ & Hrun1).
    assert (Et : tested va = VBool true) by (unfold tested; rewrite Hne, Htr; reflexivity).
    destruct (Hpb (SVal (VBool true) :: st)) as (fb & Hb).
    destruct (embed rs E d (ca ++ pre) cb [IAnd] Hcb fb O (SVal (VBool true) :: st) lg2 (svb :: SVal (VBool true) :: st) lg3 (Nat.le_0_l _) Hb)
      as (f2 & _ & Hrun2).
    exists (f1 + (3 + (f2 + 2)))%nat. unfold and_code. fold pre. fold q.
    specialize (Hrun1 (3 + (f2 + 2))%nat).
    change ([] ++ ca ++ q) with (ca ++ q) in Hrun1. change (length (@nil instr) + 0)%nat with O in Hrun1.
    change (length (@nil instr) + length ca)%nat with (length ca) in Hrun1.
    rewrite Hrun1. clear Hrun1.
    assert (Ecode : ca ++ q = (ca ++ pre) ++ cb ++ [IAnd]) by (unfold q; rewrite <- app_assoc; reflexivity).
    set (code := ca ++ q) in *.
    assert (N0 : nth_error code (length ca) = Some ITest).
    { unfold code. rewrite <- (Nat.add_0_r (length ca)), nth_off. reflexivity. }
    assert (N1 : nth_error code (S (length ca)) = Some IDup).
    { unfold code. replace (S (length ca)) with (length ca + 1)%nat by lia. rewrite nth_off. reflexivity. }
    assert (N2 : nth_error code (S (S (length ca))) = Some (IJmpCond false (Z.of_nat (length cb) + 1))).
    { unfold code. replace (S (S (length ca))) with (length ca + 2)%nat by lia. rewrite nth_off. reflexivity. }
    assert (Hnj : match tested va with VBool b => Bool.eqb b false = false | VErr _ => false = true | _ => False end)
      by (rewrite Et; reflexivity).
    replace (3 + (f2 + 2))%nat with (S (S (S (f2 + 2)))) by lia.
    rewrite (test_dup_nojump rs E d code (length ca) false _ sva lg1 va lg2 N0 N1 N2 Hra Hnj). rewrite Et.
    specialize (Hrun2 2%nat). rewrite <- Ecode in Hrun2. fold code in Hrun2.
    replace (length (ca ++ pre) + 0)%nat with (S (S (S (length ca)))) in Hrun2 by (rewrite app_length; cbn; lia).
    rewrite Hrun2. clear Hrun2.
    assert (N3 : nth_error code (length (ca ++ pre) + length cb) = Some IAnd).
    { rewrite Ecode. rewrite nth_off. rewrite <- (Nat.add_0_r (length cb)), nth_off. reflexivity. }
    rewrite loop_S, N3. cbn [step]. unfold bin. unfold mbind at 1. rewrite (Hrb (SVal (VBool true) :: st)).
    unfold mbind at 1. rewrite (resolves_plain rs E d (VBool true) lg4 I st). unfold mret, push.
    rewrite loop_S.
    replace (nth_error code (S (length (ca ++ pre) + length cb))) with (@None instr).
    2:{ symmetry. apply nth_error_None. rewrite Ecode, !app_length. cbn. lia. }
    reflexivity.
  Qed.

  Theorem and_rhs_fails ca cb lg sva lg1 va lg2 e lg3 :
    pushes rs E d ca lg sva lg1 -> resolves rs E d sva lg1 va lg2 ->
    is_err va = false -> is_truthy va = true ->
    fails rs E d cb lg2 e lg3 ->
    forall st, exists f, loop rs f E d (and_code ca cb) O st lg = (RErr e, lg3).
  Proof.
    intros [Hca Hpa] Hra Hne Htr [Hcb Hpb] st.
    destruct (Hpa st) as (fa & Ha).
    set (pre := [ITest; IDup; IJmpCond false (Z.of_nat (length cb) + 1)]).
    set (q := pre ++ cb ++ [IAnd]).
    destruct (embed rs E d [] ca q Hca fa O st lg (sva :: st) lg1 (Nat.le_0_l _) Ha) as (f1 & _ & Hrun1).
    assert (Et : tested va = VBool true) by (unfold tested; rewrite Hne, Htr; reflexivity).
    destruct (Hpb (SVal (VBool true) :: st)) as (fb & Hb).
    destruct (embed_err rs E d (ca ++ pre) cb [IAnd] Hcb fb O (SVal (VBool true) :: st) lg2 e lg3 (Nat.le_0_l _) Hb)
      as (f2 & _ & Hrun2).
    exists (f1 + (3 + (f2 + 0)))%nat. unfold and_code. fold pre. fold q.
    specialize (Hrun1 (3 + (f2 + 0))%nat).
    change ([] ++ ca ++ q) with (ca ++ q) in Hrun1. change (length (@nil instr) + 0)%nat with O in Hrun1.
    change (length (@nil instr) + length ca)%nat with (length ca) in Hrun1.
    rewrite Hrun1. clear Hrun1.
    assert (Ecode : ca ++ q = (ca ++ pre) ++ cb ++ [IAnd]) by (unfold q; rewrite <- app_assoc; reflexivity).
    set (code := ca ++ q) in *.
    assert (N0 : nth_error code (length ca) = Some ITest).
    { unfold code. rewrite <- (Nat.add_0_r (length ca)), nth_off. reflexivity. }
    assert (N1 : nth_error code (S (length ca)) = Some IDup).
    { unfold code. replace (S (length ca)) with (length ca + 1)%nat by lia. rewrite nth_off. reflexivity. }
    assert (N2 : nth_error code (S (S (length ca))) = Some (IJmpCond false (Z.of_nat (length cb) + 1))).
    { unfold code. replace (S (S (length ca))) with (length ca + 2)%nat by lia. rewrite nth_off. reflexivity. }
    assert (Hnj : match tested va with VBool b => Bool.eqb b false = false | VErr _ => false = true | _ => False end)
      by (rewrite Et; reflexivity).
    replace (3 + (f2 + 0))%nat with (S (S (S (f2 + 0)))) by lia.
    rewrite (test_dup_nojump rs E d code (length ca) false _ sva lg1 va lg2 N0 N1 N2 Hra Hnj). rewrite Et.
    specialize (Hrun2 0%nat). rewrite <- Ecode in Hrun2. fold code in Hrun2.
    replace (length (ca ++ pre) + 0)%nat with (S (S (S (length ca)))) in Hrun2 by (rewrite app_length; cbn; lia).
    exact Hrun2.
  Qed.
End And.
