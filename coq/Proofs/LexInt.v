(* Proofs/LexInt.v — C13: from source text to token list: a decimal integer alone in the source. *)
From Coq Require Import ZArith List Bool Lia.
From Rscel Require Import Base.Prims Base.F64 Base.Text Model.Value Model.Lexer.
From Rscel Require Import Proofs.Literals Proofs.Conv Proofs.StrLit.
Import ListNotations.
Open Scope Z_scope.

Lemma digit_range c : is_digit c = true -> 48 <= c <= 57.
Proof. unfold is_digit. intros H. apply andb_true_iff in H. destruct H as [A B]. apply Z.leb_le in A, B. lia. Qed.

Lemma advance_digits_loc : forall ds s, Forall (fun c => is_digit c = true) ds -> sc_rest s = ds ->
  advance s ds = mkScan [] (sc_line s) (sc_col s + Z.of_nat (length ds)).
Proof.
  induction ds as [|d r IH]; intros s Hd Hs.
  - cbn. destruct s; cbn in *; subst. f_equal. lia.
  - cbn [advance]. pose proof (digit_range d (Forall_inv Hd)) as R.
    assert (E : snd (sc_next s) = mkScan r (sc_line s) (sc_col s + 1)).
    { unfold sc_next. rewrite Hs. assert (N : (d =? 10) = false) by (apply Z.eqb_neq; lia). rewrite N. reflexivity. }
    rewrite E. rewrite (IH (mkScan r (sc_line s) (sc_col s + 1)) (Forall_inv_tail Hd) eq_refl). cbn [sc_line sc_col length]. f_equal. lia.
Qed.

(** the first token of the decimal spelling of n, and the scanner state after it (end of input) *)
Lemma collect_decimal n : 0 <= n -> in_u64 n = true ->
  collect_token (mkScan (dec_of_nonneg n) 0 0) =
  LOk (Some (mkTok (TIntLit n) (mkRange (mkLoc 0 0) (mkLoc 0 (Z.of_nat (length (dec_of_nonneg n)))))))
      (mkScan [] 0 (Z.of_nat (length (dec_of_nonneg n)))).
Proof.
  intros Hn Hr. destruct (dec_of_nonneg_digits n Hn) as [Hd Hne].
  destruct (dec_of_nonneg n) as [|d ds] eqn:E; [congruence|].
  pose proof (digit_range d (Forall_inv Hd)) as R.
  unfold collect_token. cbn [sc_rest length skip_ws]. unfold sc_next at 1. cbn [sc_rest].
  assert (N10 : (d =? 10) = false) by (apply Z.eqb_neq; lia). rewrite N10.
  repeat match goal with |- context [d =? ?k] =>
    replace (d =? k) with false by (symmetry; apply Z.eqb_neq; lia) end.
  cbn [orb]. cbv beta iota zeta.
  repeat match goal with |- context [d =? ?k] =>
    replace (d =? k) with false by (symmetry; apply Z.eqb_neq; lia) end.
  cbn [orb]. rewrite (Forall_inv Hd).
  pose proof (int_literal_denotes n d ds [] (mkScan ds 0 (0 + 1)) Hn E ltac:(cbn; rewrite app_nil_r; reflexivity) I) as L.
  cbn [sc_line sc_col]. rewrite L, Hr. rewrite (advance_digits_loc ds (mkScan ds 0 (0 + 1)) (Forall_inv_tail Hd) eq_refl). cbn [sc_line sc_col sc_loc length].
  replace (0 + 1 + Z.of_nat (length ds)) with (Z.of_nat (S (length ds))) by lia. reflexivity.
Qed.

(** The whole tokenizer on the decimal spelling of n: one integer token spanning the text. *)
Theorem lex_decimal_source n : 0 <= n -> in_u64 n = true ->
  exists s', lex (dec_of_nonneg n) =
    LOk [mkTok (TIntLit n) (mkRange (mkLoc 0 0) (mkLoc 0 (Z.of_nat (length (dec_of_nonneg n)))))] s'.
Proof.
  intros Hn Hr. pose proof (collect_decimal n Hn Hr) as T1.
  destruct (dec_of_nonneg_digits n Hn) as [_ Hne].
  unfold lex. destruct (dec_of_nonneg n) as [|d ds] eqn:E; [congruence|].
  cbn [length lex_all]. rewrite T1.
  destruct ds as [|d2 ds2].
  - cbn [length lex_all]. cbn. eexists. reflexivity.
  - cbn [length lex_all]. unfold collect_token at 1. cbn [sc_rest length skip_ws sc_next]. cbn. eexists. reflexivity.
Qed.

(* ---- unsigned: digits followed by u / U ------------------------------------------------------ *)

Lemma advance_digits_tail : forall ds s tail, Forall (fun c => is_digit c = true) ds -> sc_rest s = ds ++ tail ->
  advance s ds = mkScan tail (sc_line s) (sc_col s + Z.of_nat (length ds)).
Proof.
  induction ds as [|d r IH]; intros s tail Hd Hs.
  - cbn in *. destruct s; cbn in *; subst. f_equal. lia.
  - cbn [advance]. pose proof (digit_range d (Forall_inv Hd)) as R.
    assert (E : snd (sc_next s) = mkScan (r ++ tail) (sc_line s) (sc_col s + 1)).
    { unfold sc_next. rewrite Hs. cbn [app]. assert (N : (d =? 10) = false) by (apply Z.eqb_neq; lia). rewrite N. reflexivity. }
    rewrite E. rewrite (IH (mkScan (r ++ tail) (sc_line s) (sc_col s + 1)) tail (Forall_inv_tail Hd) eq_refl).
    cbn [sc_line sc_col length]. f_equal. lia.
Qed.

Lemma collect_decimal_u n u : 0 <= n -> in_u64 n = true -> (u = 117 \/ u = 85) ->
  collect_token (mkScan (dec_of_nonneg n ++ [u]) 0 0) =
  LOk (Some (mkTok (TUIntLit n) (mkRange (mkLoc 0 0) (mkLoc 0 (Z.of_nat (length (dec_of_nonneg n ++ [u])))))))
      (mkScan [] 0 (Z.of_nat (length (dec_of_nonneg n ++ [u])))).
Proof.
  intros Hn Hr Hu. destruct (dec_of_nonneg_digits n Hn) as [Hd Hne].
  destruct (dec_of_nonneg n) as [|d ds] eqn:E; [congruence|].
  pose proof (digit_range d (Forall_inv Hd)) as R.
  unfold collect_token. cbn [app sc_rest length skip_ws]. unfold sc_next at 1. cbn [sc_rest].
  assert (N10 : (d =? 10) = false) by (apply Z.eqb_neq; lia). rewrite N10.
  repeat match goal with |- context [d =? ?k] =>
    replace (d =? k) with false by (symmetry; apply Z.eqb_neq; lia) end.
  cbn [orb]. cbv beta iota zeta.
  repeat match goal with |- context [d =? ?k] =>
    replace (d =? k) with false by (symmetry; apply Z.eqb_neq; lia) end.
  cbn [orb]. rewrite (Forall_inv Hd).
  pose proof (uint_literal_denotes n d ds u [] (mkScan (ds ++ [u]) 0 (0 + 1)) Hn E eq_refl Hu) as L.
  cbn [sc_line sc_col]. rewrite L, Hr.
  rewrite advance_app. rewrite (advance_digits_tail ds (mkScan (ds ++ [u]) 0 (0 + 1)) [u] (Forall_inv_tail Hd) eq_refl).
  cbn [advance sc_line sc_col]. unfold sc_next. cbn [sc_rest sc_line sc_col].
  assert (Nu : (u =? 10) = false) by (destruct Hu; subst; reflexivity). rewrite Nu. cbn [snd sc_loc sc_line sc_col].
  rewrite app_length. cbn [length].
  replace (0 + 1 + Z.of_nat (length ds) + 1) with (Z.of_nat (S (length ds + 1))) by lia. reflexivity.
Qed.
