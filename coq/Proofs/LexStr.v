(* Proofs/LexStr.v — C13: from source text to token: a quoted string literal alone in the source. *)
From Coq Require Import ZArith List Bool Lia.
From Rscel Require Import Base.Prims Base.F64 Base.Text Model.Value Model.Lexer.
From Rscel Require Import Proofs.Literals Proofs.StrLit.
Import ListNotations.
Open Scope Z_scope.

Lemma spells_nonempty q c sp : spells q c sp -> (1 <= length sp)%nat.
Proof. intros H. destruct H; cbn [length]; lia. Qed.

Lemma items_le_text q items : Forall (fun it => spells q (fst it) (snd it)) items ->
  (length items <= length (text_of items))%nat.
Proof.
  induction 1 as [|[c sp] r H _ IH]; [cbn; lia|]. unfold text_of in *. cbn [flat_map snd length]. rewrite app_length.
  pose proof (spells_nonempty q c sp H). lia.
Qed.

(** the first token of  q items q  (q a single or double quote), and the scanner state after it *)
Theorem collect_string q items : (q = 39 \/ q = 34) ->
  Forall (fun it => spells q (fst it) (snd it)) items ->
  let body := text_of items ++ [q] in
  let send := advance (mkScan body 0 1) body in
  collect_token (mkScan (q :: body) 0 0) =
    LOk (Some (mkTok (TStringLit (map fst items)) (mkRange (mkLoc 0 0) (sc_loc send)))) send
  /\ sc_rest send = [].
Proof.
  intros Hq Hsp body send.
  assert (Hq92 : q <> 92) by (destruct Hq; subst; discriminate).
  assert (Hend : sc_rest send = []).
  { unfold send. apply (advance_rest' body (mkScan body 0 1) []). cbn. rewrite app_nil_r. reflexivity. }
  split; [|exact Hend].
  pose proof (lex_string_denotes q Hq92 items (S (length (q :: body))) (mkScan body 0 1) [] []
                Hsp ltac:(reflexivity)) as L.
  assert (Hf : (length items < S (length (q :: body)))%nat).
  { pose proof (items_le_text q items Hsp). unfold body. cbn [length]. rewrite app_length. cbn [length]. lia. }
  specialize (L Hf). cbn [rev app] in L.
  unfold collect_token. cbn [sc_rest].
  destruct Hq; subst q.
  - change (skip_ws (S (length (39 :: body))) (mkScan (39 :: body) 0 0)) with (mkLoc 0 0, Some 39, mkScan body 0 (0 + 1)).
    cbv beta iota zeta. cbn [Z.eqb Pos.eqb orb is_digit Z.leb Z.compare Pos.compare Pos.compare_cont andb].
    change (0 + 1) with 1. rewrite L. reflexivity.
  - change (skip_ws (S (length (34 :: body))) (mkScan (34 :: body) 0 0)) with (mkLoc 0 0, Some 34, mkScan body 0 (0 + 1)).
    cbv beta iota zeta. cbn [Z.eqb Pos.eqb orb is_digit Z.leb Z.compare Pos.compare Pos.compare_cont andb].
    change (0 + 1) with 1. rewrite L. reflexivity.
Qed.

(* ---- bytes literals  b q items q ------------------------------------------------------------- *)

Lemma bspells_nonempty q bs sp : bspells q bs sp -> (1 <= length sp)%nat.
Proof. intros H. destruct H; cbn [length]; lia. Qed.

Lemma bitems_le_text q items : Forall (fun it => bspells q (fst it) (snd it)) items ->
  (length items <= length (btext_of items))%nat.
Proof.
  induction 1 as [|[c sp] r H _ IH]; [cbn; lia|]. unfold btext_of in *. cbn [flat_map snd length]. rewrite app_length.
  pose proof (bspells_nonempty q c sp H). lia.
Qed.

Theorem collect_bytes q items : (q = 39 \/ q = 34) ->
  Forall (fun it => bspells q (fst it) (snd it)) items ->
  let body := btext_of items ++ [q] in
  let send := advance (mkScan body 0 2) body in
  collect_token (mkScan (98 :: q :: body) 0 0) =
    LOk (Some (mkTok (TByteStringLit (bytes_of_items items)) (mkRange (mkLoc 0 0) (sc_loc send)))) send
  /\ sc_rest send = [].
Proof.
  intros Hq Hsp body send.
  assert (Hq92 : q <> 92) by (destruct Hq; subst; discriminate).
  assert (Hend : sc_rest send = []).
  { unfold send. apply (advance_rest' body (mkScan body 0 2) []). cbn. rewrite app_nil_r. reflexivity. }
  split; [|exact Hend].
  pose proof (lex_bytes_denotes q Hq92 items (S (length (98 :: q :: body))) (mkScan body 0 2) [] []
                Hsp ltac:(reflexivity)) as L.
  assert (Hf : (length items < S (length (98%Z :: q :: body)))%nat).
  { pose proof (bitems_le_text q items Hsp). unfold body. cbn [length]. rewrite app_length. cbn [length]. lia. }
  specialize (L Hf). cbn [rev app] in L.
  unfold collect_token. cbn [sc_rest].
  change (skip_ws (S (length (98 :: q :: body))) (mkScan (98 :: q :: body) 0 0))
    with (mkLoc 0 0, Some 98, mkScan (q :: body) 0 (0 + 1)).
  cbv beta iota zeta. cbn [Z.eqb Pos.eqb sc_peek sc_rest].
  destruct Hq; subst q; cbn [Z.eqb Pos.eqb orb]; unfold sc_next; cbn [sc_rest sc_line sc_col snd Z.eqb Pos.eqb];
    change (0 + 1 + 1) with 2; rewrite L; reflexivity.
Qed.

(* ---- raw strings  r q cs q ------------------------------------------------------------------- *)

Theorem collect_raw_string q cs : (q = 39 \/ q = 34) -> Forall (fun c => c <> q) cs ->
  let body := cs ++ [q] in
  let send := advance (mkScan body 0 2) body in
  collect_token (mkScan (114 :: q :: body) 0 0) =
    LOk (Some (mkTok (TStringLit cs) (mkRange (mkLoc 0 0) (sc_loc send)))) send
  /\ sc_rest send = [].
Proof.
  intros Hq Hc body send.
  assert (Hend : sc_rest send = []).
  { unfold send. apply (advance_rest' body (mkScan body 0 2) []). cbn. rewrite app_nil_r. reflexivity. }
  split; [|exact Hend].
  pose proof (lex_raw_string_denotes q cs (S (length (114 :: q :: body))) (mkScan body 0 2) [] [] Hc ltac:(reflexivity)) as L.
  assert (Hf : (length cs < S (length (114%Z :: q :: body)))%nat).
  { unfold body. cbn [length]. rewrite app_length. cbn [length]. lia. }
  specialize (L Hf). cbn [rev app] in L.
  unfold collect_token. cbn [sc_rest].
  change (skip_ws (S (length (114 :: q :: body))) (mkScan (114 :: q :: body) 0 0))
    with (mkLoc 0 0, Some 114, mkScan (q :: body) 0 (0 + 1)).
  cbv beta iota zeta. cbn [Z.eqb Pos.eqb sc_peek sc_rest].
  destruct Hq; subst q; cbn [Z.eqb Pos.eqb orb]; unfold sc_next; cbn [sc_rest sc_line sc_col snd Z.eqb Pos.eqb];
    change (0 + 1 + 1) with 2; rewrite L; reflexivity.
Qed.
