(* Proofs/LexFloatExp.v — C13: from source text to value for a double literal with an exponent,
   I.F e [+|-] X : the program evaluates to dec_to_f64 of the digits scaled by the exponent. *)
From Coq Require Import ZArith List Bool Lia.
From Rscel Require Import Base.Prims Base.F64 Base.Text Model.Value Model.Lexer Model.Ast Model.Parser Model.Compile
     Model.Ops Model.Dispatch Model.Funcs Model.Interp.
From Rscel Require Import Proofs.Literals Proofs.StrLit Proofs.Conv Proofs.LexInt Proofs.LitProgram Proofs.LexFloat.
Import ListNotations.
Open Scope Z_scope.

(** a run of digits: one unit of fuel per digit *)
Lemma collect_digit_run : forall ds rest f s st,
  sc_rest s = ds ++ rest -> n_hex st = false -> Forall (fun c => is_digit c = true) ds ->
  collect_number (length ds + f) s st =
  collect_number f (advance s ds) (mkNum (rev ds ++ n_work st) (n_float st) (n_exp st) (n_uns st) (n_hex st)).
Proof.
  induction ds as [|c r IH]; intros rest f s st Hs Hh Hd.
  - cbn. destruct st; reflexivity.
  - cbn [length Nat.add collect_number]. unfold sc_peek. rewrite Hs. cbn [app]. rewrite (Forall_inv Hd). cbn [orb].
    rewrite (IH rest f (snd (sc_next s)) _); cbn [n_work n_float n_exp n_uns n_hex]; auto.
    + cbn [rev advance]. rewrite <- app_assoc. reflexivity.
    + unfold sc_next. rewrite Hs. cbn [app]. rewrite (digit_not_nl c (Forall_inv Hd)). reflexivity.
    + exact (Forall_inv_tail Hd).
Qed.

Definition not_sign_head (r : chars) : Prop := match r with [] => True | p :: _ => ((p =? 43) || (p =? 45)) = false end.

Lemma step_point f s st rest :
  sc_rest s = 46 :: rest -> not_sign_head rest -> n_hex st = false -> n_float st = false -> n_exp st = false ->
  collect_number (S f) s st =
  collect_number f (advance s [46]) (mkNum (46 :: n_work st) true false (n_uns st) false).
Proof.
  intros Hs Hn Hh Hfl Hex. cbn [collect_number]. unfold sc_peek. rewrite Hs.
  rewrite Hh. cbn [is_digit Z.leb Z.compare Pos.compare Pos.compare_cont andb orb Z.eqb Pos.eqb]. rewrite Hfl, Hex. cbn [andb orb].
  assert (Er : sc_rest (snd (sc_next s)) = rest) by (unfold sc_next; rewrite Hs; reflexivity). rewrite Er.
  cbn [advance]. destruct rest as [|p r]; [reflexivity|]. cbn in Hn. rewrite Hn. reflexivity.
Qed.

Lemma step_exp_nosign f s st e rest :
  sc_rest s = e :: rest -> (e = 101 \/ e = 69) -> not_sign_head rest -> n_hex st = false -> n_exp st = false ->
  collect_number (S f) s st =
  collect_number f (advance s [e]) (mkNum (e :: n_work st) true true (n_uns st) false).
Proof.
  intros Hs He Hn Hh Hex. cbn [collect_number]. unfold sc_peek. rewrite Hs. rewrite Hh.
  assert (D : is_digit e = false) by (destruct He; subst e; reflexivity). rewrite D. cbn [andb orb].
  assert (C1 : ((e =? 101) || (e =? 69) || (e =? 46)) = true) by (destruct He; subst e; reflexivity). rewrite C1.
  assert (C2 : (e =? 46) = false) by (destruct He; subst e; reflexivity). rewrite C2, Hex. cbn [andb orb].
  assert (C3 : ((e =? 101) || (e =? 69)) = true) by (destruct He; subst e; reflexivity). rewrite C3.
  assert (Er : sc_rest (snd (sc_next s)) = rest).
  { unfold sc_next. rewrite Hs. destruct (e =? 10); reflexivity. }
  rewrite Er. cbn [advance]. destruct rest as [|p r]; [reflexivity|]. cbn in Hn. rewrite Hn. reflexivity.
Qed.

Lemma step_exp_sign f s st e p rest :
  sc_rest s = e :: p :: rest -> (e = 101 \/ e = 69) -> (p = 43 \/ p = 45) -> n_hex st = false -> n_exp st = false ->
  collect_number (S f) s st =
  collect_number f (advance s [e; p]) (mkNum (p :: e :: n_work st) true true (n_uns st) false).
Proof.
  intros Hs He Hp Hh Hex. cbn [collect_number]. unfold sc_peek. rewrite Hs. rewrite Hh.
  assert (D : is_digit e = false) by (destruct He; subst e; reflexivity). rewrite D. cbn [andb orb].
  assert (C1 : ((e =? 101) || (e =? 69) || (e =? 46)) = true) by (destruct He; subst e; reflexivity). rewrite C1.
  assert (C2 : (e =? 46) = false) by (destruct He; subst e; reflexivity). rewrite C2, Hex. cbn [andb orb].
  assert (C3 : ((e =? 101) || (e =? 69)) = true) by (destruct He; subst e; reflexivity). rewrite C3.
  assert (Er : sc_rest (snd (sc_next s)) = p :: rest).
  { unfold sc_next. rewrite Hs. destruct (e =? 10); reflexivity. }
  rewrite Er. assert (C4 : ((p =? 43) || (p =? 45)) = true) by (destruct Hp; subst p; reflexivity). rewrite C4.
  cbn [advance n_work n_exp n_uns n_hex]. reflexivity.
Qed.

Lemma collect_at_end_of_input f s st : sc_rest s = [] -> collect_number f s st = (st, s).
Proof. intros H. destruct f; [reflexivity|]. cbn [collect_number]. unfold sc_peek. rewrite H. reflexivity. Qed.

Lemma digits_not_sign_head ds rest : Forall (fun c => is_digit c = true) ds ->
  not_sign_head rest -> not_sign_head (ds ++ rest).
Proof.
  intros Hd Hr. destruct ds as [|c r]; [exact Hr|]. cbn. pose proof (digit_range c (Forall_inv Hd)).
  apply orb_false_iff. split; apply Z.eqb_neq; lia.
Qed.

(** lex_number over  I . F e S X  at the end of the input *)
Lemma lex_number_exp d ip fp e sg ex s1 :
  Forall (fun c => is_digit c = true) (d :: ip) -> Forall (fun c => is_digit c = true) fp ->
  Forall (fun c => is_digit c = true) ex -> ex <> [] ->
  (e = 101 \/ e = 69) -> (sg = [] \/ sg = [43] \/ sg = [45]) ->
  sc_rest s1 = ip ++ 46 :: fp ++ e :: sg ++ ex ->
  exists st, collect_number (length (sc_rest s1)) s1 (mkNum (rev [d]) false false false false) =
             (st, advance s1 (ip ++ 46 :: fp ++ e :: sg ++ ex)) /\
             rev (n_work st) = (d :: ip) ++ 46 :: fp ++ e :: sg ++ ex /\ n_float st = true /\ n_uns st = false /\ n_hex st = false.
Proof.
  intros Hi Hf Hx Hxn He Hsg Hs.
  assert (Hexh : not_sign_head ex).
  { destruct ex as [|c r]; [congruence|]. cbn. pose proof (digit_range c (Forall_inv Hx)). apply orb_false_iff. split; apply Z.eqb_neq; lia. }
  assert (Heh : not_sign_head (e :: sg ++ ex)) by (destruct He; subst e; reflexivity).
  rewrite Hs.
  replace (length (ip ++ 46 :: fp ++ e :: sg ++ ex)) with (length ip + S (length fp + S (length sg + length ex)))%nat
    by (repeat (rewrite ?app_length; cbn [length]); lia).
  erewrite (collect_digit_run ip (46 :: fp ++ e :: sg ++ ex)); [|exact Hs|reflexivity|exact (Forall_inv_tail Hi)].
  cbn [n_work n_float n_exp n_uns n_hex rev app].
  set (s2 := advance s1 ip).
  assert (Hs2 : sc_rest s2 = 46 :: fp ++ e :: sg ++ ex) by (apply advance_rest'; exact Hs).
  erewrite (step_point _ s2 _ (fp ++ e :: sg ++ ex)); [|exact Hs2|exact (digits_not_sign_head fp _ Hf Heh)|reflexivity|reflexivity|reflexivity].
  cbn [n_work n_uns].
  set (s3 := advance s2 [46]).
  assert (Hs3 : sc_rest s3 = fp ++ e :: sg ++ ex) by (apply (advance_rest' [46] s2); exact Hs2).
  erewrite (collect_digit_run fp (e :: sg ++ ex)); [|exact Hs3|reflexivity|exact Hf].
  cbn [n_work n_float n_exp n_uns n_hex].
  set (s4 := advance s3 fp).
  assert (Hs4 : sc_rest s4 = e :: sg ++ ex) by (apply advance_rest'; exact Hs3).
  destruct Hsg as [->|Hsg].
  - (* no sign *)
    cbn [app length Nat.add] in *.
    erewrite (step_exp_nosign _ s4 _ e ex); [|exact Hs4|exact He|exact Hexh|reflexivity|reflexivity]. cbn [n_work n_uns].
    set (s5 := advance s4 [e]).
    assert (Hs5 : sc_rest s5 = ex ++ []) by (rewrite app_nil_r; apply (advance_rest' [e] s4); exact Hs4).
    replace (length ex) with (length ex + 0)%nat by lia.
    erewrite (collect_digit_run ex [] 0%nat s5); [|exact Hs5|reflexivity|exact Hx]. cbn [n_work n_float n_exp n_uns n_hex].
    rewrite collect_at_end_of_input by (apply (advance_rest' ex s5 []); exact Hs5).
    eexists. split; [f_equal|].
    + unfold s5, s4, s3, s2. rewrite <- !advance_app. cbn [app]. repeat (rewrite <- app_assoc; cbn [app]). reflexivity.
    + cbn [n_work n_float n_uns n_hex]. repeat split.
      repeat (rewrite ?rev_app_distr, ?rev_involutive; cbn [rev app]). repeat (rewrite <- app_assoc; cbn [app]). reflexivity.
  - (* a sign *)
    assert (exists p, sg = [p] /\ (p = 43 \/ p = 45)) as (p & -> & Hp) by (destruct Hsg as [->| ->]; eauto).
    cbn [app length Nat.add] in *.
    erewrite (step_exp_sign _ s4 _ e p ex); [|exact Hs4|exact He|exact Hp|reflexivity|reflexivity]. cbn [n_work n_uns].
    set (s5 := advance s4 [e; p]).
    assert (Hs5 : sc_rest s5 = ex ++ []) by (rewrite app_nil_r; apply (advance_rest' [e; p] s4); exact Hs4).
    replace (S (length ex)) with (length ex + 1)%nat by lia.
    erewrite (collect_digit_run ex [] 1%nat s5); [|exact Hs5|reflexivity|exact Hx]. cbn [n_work n_float n_exp n_uns n_hex].
    rewrite collect_at_end_of_input by (apply (advance_rest' ex s5 []); exact Hs5).
    eexists. split; [f_equal|].
    + unfold s5, s4, s3, s2. rewrite <- !advance_app. cbn [app]. repeat (rewrite <- app_assoc; cbn [app]). reflexivity.
    + cbn [n_work n_float n_uns n_hex]. repeat split.
      repeat (rewrite ?rev_app_distr, ?rev_involutive; cbn [rev app]). repeat (rewrite <- app_assoc; cbn [app]). reflexivity.
Qed.

Theorem float_exp_source_evaluates d0 ip fp e sg ex f g E d lg :
  Forall (fun c => is_digit c = true) (d0 :: ip) -> Forall (fun c => is_digit c = true) fp ->
  Forall (fun c => is_digit c = true) ex -> ex <> [] ->
  (e = 101 \/ e = 69) -> (sg = [] \/ sg = [43] \/ sg = [45]) ->
  dec_value ex 0 <= Z.of_nat (length (d0 :: ip)) + Z.of_nat (length fp) + 2000 -> (d < 32)%nat ->
  exists p k, compile_source (S f) (d0 :: ip ++ 46 :: fp ++ e :: sg ++ ex) = COk p k /\
              run (S (S (S g))) E (pr_code p) true d lg =
                (ROk (VFloat (dec_to_f64 (dec_value ((d0 :: ip) ++ fp) 0)
                               ((match sg with [45] => - dec_value ex 0 | _ => dec_value ex 0 end) - Z.of_nat (length fp)))), lg).
Proof.
  intros Hi Hf Hx Hxn He Hsg Hcap Hd. pose proof (digit_range d0 (Forall_inv Hi)) as R.
  set (R0 := ip ++ 46 :: fp ++ e :: sg ++ ex).
  set (s1 := mkScan R0 0 (0 + 1)).
  destruct (lex_number_exp d0 ip fp e sg ex s1 Hi Hf Hx Hxn He Hsg eq_refl) as (st & Hc & Hw & Hfl & Hu & Hh).
  set (send := advance s1 R0) in *.
  assert (Hend : sc_rest send = []).
  { unfold send. apply (advance_rest' R0 s1 []). cbn. rewrite app_nil_r. reflexivity. }
  set (fv := dec_to_f64 (dec_value ((d0 :: ip) ++ fp) 0)
               ((match sg with [45] => - dec_value ex 0 | _ => dec_value ex 0 end) - Z.of_nat (length fp))).
  assert (Hl : lex_number [d0] false s1 = LOk (TFloatLit fv) send).
  { unfold lex_number. rewrite Hc. cbv zeta. rewrite Hu, Hfl, Hw.
    rewrite (float_text_exp (d0 :: ip) fp ex sg e Hi Hf Hx) ; try assumption; [reflexivity|cbn [length]; lia|].
    destruct ex; [congruence|cbn [length]; lia]. }
  assert (T1 : collect_token (mkScan (d0 :: R0) 0 0) = LOk (Some (mkTok (TFloatLit fv) (mkRange (mkLoc 0 0) (sc_loc send)))) send).
  { unfold collect_token. cbn [sc_rest length skip_ws]. unfold sc_next at 1. cbn [sc_rest].
    assert (N10 : (d0 =? 10) = false) by (apply Z.eqb_neq; lia). rewrite N10.
    repeat match goal with |- context [d0 =? ?k] =>
      replace (d0 =? k) with false by (symmetry; apply Z.eqb_neq; lia) end.
    cbn [orb]. cbv beta iota zeta.
    repeat match goal with |- context [d0 =? ?k] =>
      replace (d0 =? k) with false by (symmetry; apply Z.eqb_neq; lia) end.
    cbn [orb]. rewrite (Forall_inv Hi). cbn [sc_line sc_col]. fold s1. rewrite Hl. reflexivity. }
  eexists. eexists. split.
  - exact (compile_single_literal f _ _ _ _ (LFloat fv) (VFloat fv) T1 Hend eq_refl eq_refl).
  - cbn [pr_code]. apply run_push; [exact I|exact Hd].
Qed.
