(* Proofs/OpsOrder.v — C04: equality and ordering laws of the value operators. *)
From Coq Require Import ZArith List Bool Lia Sorting.Permutation Sorting.Sorted.
From Coq Require Import Floats.SpecFloat.
From Flocq Require Import IEEE754.BinarySingleNaN.
From Rscel Require Import Base.Prims Base.F64 Model.Value Model.Ops Model.Dispatch Model.Funcs Spec.Wf.
From Rscel Require Import Proofs.F64Facts Proofs.OpsArith.
Import ListNotations.
Open Scope Z_scope.

Ltac inv H := inversion H; subst; clear H.

(** [!=] is the complement of [==] (and carries the same error). *)
Theorem neq_is_not_eq : forall a b,
  neq a b = match eq_ a b with VBool r => VBool (negb r) | o => o end.
Proof.
  intros a b. unfold neq, error_prop_or.
  destruct (is_err a) eqn:Ea.
  - destruct a; try discriminate Ea. reflexivity.
  - destruct (is_err b) eqn:Eb.
    + destruct b; try discriminate Eb. destruct a; try discriminate Ea; reflexivity.
    + reflexivity.
Qed.

(** bytes: equality test and lexicographic order *)
Lemma bytes_eqb_refl s : bytes_eqb s s = true.
Proof. induction s as [|x s IH]; cbn; [reflexivity|]. rewrite Z.eqb_refl. exact IH. Qed.

Lemma bytes_eqb_eq a : forall b, bytes_eqb a b = true <-> a = b.
Proof.
  induction a as [|x a IH]; destruct b as [|y b]; cbn; split; intros H; try discriminate; try reflexivity.
  - apply andb_true_iff in H. destruct H as [H1 H2]. apply Z.eqb_eq in H1. apply IH in H2. congruence.
  - inv H. rewrite Z.eqb_refl. apply IH. reflexivity.
Qed.

Lemma bytes_cmp_eq a : forall b, bytes_cmp a b = Eq <-> a = b.
Proof.
  induction a as [|x a IH]; destruct b as [|y b]; cbn; split; intros H; try discriminate; try reflexivity.
  - destruct (x ?= y) eqn:C; try discriminate. apply Z.compare_eq in C. apply IH in H. congruence.
  - inv H. rewrite Z.compare_refl. apply IH. reflexivity.
Qed.

Lemma bytes_cmp_antisym a : forall b, bytes_cmp b a = CompOpp (bytes_cmp a b).
Proof.
  induction a as [|x a IH]; destruct b as [|y b]; cbn; try reflexivity.
  rewrite (Z.compare_antisym x y). destruct (x ?= y); cbn; auto.
Qed.

Lemma bytes_cmp_lt_trans a : forall b c, bytes_cmp a b = Lt -> bytes_cmp b c = Lt -> bytes_cmp a c = Lt.
Proof.
  induction a as [|x a IH]; destruct b as [|y b]; destruct c as [|z c]; cbn; intros H1 H2; try discriminate; try reflexivity.
  destruct (x ?= y) eqn:C1; try discriminate; destruct (y ?= z) eqn:C2; try discriminate.
  - apply Z.compare_eq in C1, C2. subst. rewrite Z.compare_refl. eapply IH; eauto.
  - apply Z.compare_eq in C1. subst. rewrite C2. reflexivity.
  - apply Z.compare_eq in C2. subst. rewrite C1. reflexivity.
  - rewrite Z.compare_lt_iff in *. assert (x < z) by lia. rewrite (proj2 (Z.compare_lt_iff x z)); auto.
Qed.

Lemma bytes_eqb_cmp a b : bytes_eqb a b = match bytes_cmp a b with Eq => true | _ => false end.
Proof.
  destruct (bytes_cmp a b) eqn:C.
  - apply bytes_cmp_eq in C. subst. apply bytes_eqb_refl.
  - destruct (bytes_eqb a b) eqn:Hb; [|reflexivity]. apply bytes_eqb_eq in Hb. subst.
    assert (bytes_cmp b b = Eq) by (apply bytes_cmp_eq; reflexivity). congruence.
  - destruct (bytes_eqb a b) eqn:Hb; [|reflexivity]. apply bytes_eqb_eq in Hb. subst.
    assert (bytes_cmp b b = Eq) by (apply bytes_cmp_eq; reflexivity). congruence.
Qed.

(** An int and a uint are equal exactly when they denote the same number. *)
Theorem int_uint_eq_iff_same_number : forall x y,
  in_i64 x = true -> in_u64 y = true ->
  eq_ (VInt x) (VUInt y) = VBool (x =? y) /\ eq_ (VUInt y) (VInt x) = VBool (y =? x).
Proof.
  intros x y Hx Hy. apply in_i64_spec in Hx. unfold i64_max in *.
  cbn. destruct (Z.leb_spec y i64_max); cbn; [split; reflexivity|].
  unfold i64_max in *.
  assert (x =? y = false) by (apply Z.eqb_neq; lia).
  assert (y =? x = false) by (apply Z.eqb_neq; lia).
  split; congruence.
Qed.

(** An integer meets a double as its nearest double. *)
Theorem int_double_eq_nearest : forall x f,
  eq_ (VInt x) (VFloat f) = VBool (f64_eqb (f64_of_Z x) f) /\
  eq_ (VFloat f) (VInt x) = VBool (f64_eqb f (f64_of_Z x)) /\
  eq_ (VUInt x) (VFloat f) = VBool (f64_eqb (f64_of_Z x) f).
Proof. intros. repeat split. Qed.

(** The comparison classes. *)
Inductive cclass := KNum | KString | KBytes | KTime | KDur.
Definition class_of (v : value) : option cclass :=
  match v with
  | VInt _ | VUInt _ | VFloat _ | VBool _ => Some KNum
  | VString _ => Some KString | VBytes _ => Some KBytes
  | VTime _ => Some KTime | VDur _ => Some KDur
  | _ => None
  end.
Definition cclass_eqb (a b : cclass) : bool :=
  match a, b with
  | KNum, KNum | KString, KString | KBytes, KBytes | KTime, KTime | KDur, KDur => true
  | _, _ => false
  end.

(** Comparing values of unrelated types is an error; values of one class are always comparable
    (up to NaN, where the comparison is [None]). *)
Theorem ord_classes : forall a b,
  match class_of a, class_of b with
  | Some ka, Some kb => if cclass_eqb ka kb then exists c, ord a b = inl c else ord a b = inr EInvalidOp
  | _, _ => ord a b = inr EInvalidOp
  end.
Proof.
  intros a b. destruct a, b; cbn; try reflexivity; try (eexists; reflexivity);
    repeat match goal with |- context [if ?c then _ else _] => destruct c end; cbn;
    try reflexivity; try (eexists; reflexivity).
  all: unfold ord; cbn [type_prop];
    match goal with |- context [if ?c then _ else _] => destruct c end; eexists; reflexivity.
Qed.

(** Trichotomy: on a comparable pair exactly one of a<b, a==b, a>b holds and
    <= / >= are the unions. *)
Definition is_c (c : comparison) (x : comparison) : bool :=
  match c, x with Lt, Lt | Eq, Eq | Gt, Gt => true | _, _ => false end.

Lemma f64_eqb_cmp x y : f64_eqb x y = match f64_cmp x y with Some Eq => true | _ => false end.
Proof. reflexivity. Qed.

Lemma Zeqb_cmp x y : (x =? y) = match x ?= y with Eq => true | _ => false end.
Proof. destruct (Z.compare_spec x y); [subst; apply Z.eqb_refl|apply Z.eqb_neq; lia|apply Z.eqb_neq; lia]. Qed.

Lemma bool_eqb_cmp x y : Bool.eqb x y = match b2z x ?= b2z y with Eq => true | _ => false end.
Proof. destruct x, y; reflexivity. Qed.

#[local] Arguments f64_cmp : simpl never.
#[local] Arguments f64_eqb : simpl never.
#[local] Arguments f64_of_Z : simpl never.
#[local] Arguments bytes_cmp : simpl never.
#[local] Arguments bytes_eqb : simpl never.
#[local] Arguments Z.compare : simpl never.
#[local] Arguments Z.eqb : simpl never.
#[local] Arguments Z.leb : simpl never.

Theorem ord_trichotomy : forall a b c,
  wf a = true -> wf b = true ->
  ord a b = inl (Some c) ->
  lt a b = VBool (is_c c Lt) /\ eq_ a b = VBool (is_c c Eq) /\ gt a b = VBool (is_c c Gt) /\
  le a b = VBool (is_c c Lt || is_c c Eq) /\ ge a b = VBool (is_c c Gt || is_c c Eq).
Proof.
  intros a b c Wa Wb H.
  assert (Ea : is_err a = false) by (destruct a; try reflexivity; discriminate H).
  assert (Eb : is_err b = false) by (destruct a, b; try reflexivity; cbn in H;
     repeat match type of H with context [if ?c then _ else _] => destruct c end; discriminate H).
  unfold lt, gt, le, ge, cmp_with, error_prop_or. rewrite Ea, Eb, H.
  assert (Heq : eq_ a b = VBool (is_c c Eq)).
  { destruct a, b; try discriminate Ea; try discriminate Eb;
      unfold ord in H; cbn [type_prop] in H; cbn [eq_ is_err type_prop];
      try discriminate H;
      try match type of H with context [if ?c then _ else _] => destruct c eqn:Hle end;
      cbn in H; try discriminate H; inv H; cbn;
      rewrite ?Zeqb_cmp, ?f64_eqb_cmp, ?bool_eqb_cmp, ?bytes_eqb_cmp;
      try match goal with |- context [match ?x with _ => _ end] => destruct x eqn:? end;
      try match goal with |- context [match ?x with _ => _ end] => destruct x eqn:? end;
      try reflexivity;
      try match goal with Hs : Some _ = Some _ |- _ => inv Hs end;
      try match goal with Hs : None = Some _ |- _ => discriminate Hs end;
      try reflexivity.
  }
  rewrite Heq. destruct c; cbn; repeat split.
Qed.

(** int and uint jointly: the order is the order of the numbers. *)
Definition iu_val (v : value) : option Z :=
  match v with VInt x => Some x | VUInt y => Some y | _ => None end.

Theorem ord_int_uint_is_numeric_order : forall a b x y,
  wf a = true -> wf b = true -> iu_val a = Some x -> iu_val b = Some y ->
  ord a b = inl (Some (x ?= y)).
Proof.
  intros a b x y Wa Wb Ha Hb.
  destruct a; try discriminate Ha; destruct b; try discriminate Hb; inv Ha; inv Hb;
    cbn [wf] in *; unfold ord; cbn [type_prop].
  - reflexivity.
  - destruct (Z.leb_spec y i64_max); [reflexivity|].
    apply in_i64_spec in Wa. unfold i64_max in *. f_equal. f_equal. symmetry. apply Z.compare_lt_iff. lia.
  - destruct (Z.leb_spec x i64_max); [reflexivity|].
    apply in_i64_spec in Wb. unfold i64_max in *. f_equal. f_equal. symmetry. apply Z.compare_gt_iff. lia.
  - reflexivity.
Qed.

(** strings and bytes: the lexicographic order on bytes, which is a strict total order *)
Theorem ord_string_bytes : forall x y,
  ord (VString x) (VString y) = inl (Some (bytes_cmp x y)) /\
  ord (VBytes x) (VBytes y) = inl (Some (bytes_cmp x y)).
Proof. intros; split; reflexivity. Qed.

Theorem bytes_cmp_total_order :
  (forall a, bytes_cmp a a = Eq) /\
  (forall a b, bytes_cmp a b = Eq -> a = b) /\
  (forall a b, bytes_cmp b a = CompOpp (bytes_cmp a b)) /\
  (forall a b c, bytes_cmp a b = Lt -> bytes_cmp b c = Lt -> bytes_cmp a c = Lt).
Proof.
  repeat split.
  - intros a. apply bytes_cmp_eq. reflexivity.
  - intros a b. apply bytes_cmp_eq.
  - intros a b. apply bytes_cmp_antisym.
  - apply bytes_cmp_lt_trans.
Qed.

(** bool, timestamp, duration: integer order of (0/1, nanoseconds) *)
Theorem ord_bool_time_dur : forall (p q : bool) (x y : Z),
  ord (VBool p) (VBool q) = inl (Some (b2z p ?= b2z q)) /\
  ord (VTime x) (VTime y) = inl (Some (x ?= y)) /\
  ord (VDur x) (VDur y) = inl (Some (x ?= y)).
Proof. intros; repeat split. Qed.

(** doubles: Flocq's comparison, i.e. the order of the real numbers on finite
    operands (and [None] exactly when a NaN is involved). *)
Theorem ord_double_is_real_order : forall f1 f2 : binary_float 53 1024,
  ord (VFloat (B2SF f1)) (VFloat (B2SF f2)) = inl (Bcompare f1 f2) /\
  (is_finite f1 = true -> is_finite f2 = true ->
   Bcompare f1 f2 = Some (Raux.Rcompare (B2R f1) (B2R f2))).
Proof.
  intros f1 f2. split; [reflexivity|]. intros H1 H2. apply Bcompare_correct; assumption.
Qed.

(** the infinities are the ends of the order of doubles: every double that is not a NaN lies between them *)
Theorem ord_double_infinities : forall x : f64, f64_is_nan x = false ->
  (x <> S754_infinity false -> ord (VFloat x) (VFloat (S754_infinity false)) = inl (Some Lt) /\
                               ord (VFloat (S754_infinity false)) (VFloat x) = inl (Some Gt)) /\
  (x <> S754_infinity true -> ord (VFloat (S754_infinity true)) (VFloat x) = inl (Some Lt) /\
                              ord (VFloat x) (VFloat (S754_infinity true)) = inl (Some Gt)) /\
  ord (VFloat (S754_infinity false)) (VFloat (S754_infinity false)) = inl (Some Eq) /\
  ord (VFloat (S754_infinity true)) (VFloat (S754_infinity true)) = inl (Some Eq).
Proof.
  intros x Hn. split; [|split; [|split; reflexivity]].
  - intros Hx. destruct x as [s|s| |s m e]; try discriminate Hn; try (destruct s; split; reflexivity).
    destruct s; [split; reflexivity|exfalso; apply Hx; reflexivity].
  - intros Hx. destruct x as [s|s| |s m e]; try discriminate Hn; try (destruct s; split; reflexivity).
    destruct s; [exfalso; apply Hx; reflexivity|split; reflexivity].
Qed.

Corollary lt_infinities : forall x : f64, f64_is_nan x = false -> x <> S754_infinity false -> x <> S754_infinity true ->
  lt (VFloat (S754_infinity true)) (VFloat x) = VBool true /\ lt (VFloat x) (VFloat (S754_infinity false)) = VBool true /\
  gt (VFloat x) (VFloat (S754_infinity false)) = VBool false /\ lt (VFloat x) (VFloat (S754_infinity true)) = VBool false.
Proof.
  intros x Hn H1 H2. destruct (ord_double_infinities x Hn) as ((A & B) & (C & D) & _); auto.
  unfold lt, gt, cmp_with, error_prop_or. cbn [is_err]. rewrite A, C, D. repeat split; reflexivity.
Qed.

(* ---- sort / min / max --------------------------------------------------- *)

Lemma insert_stable_perm x : forall l, Permutation (x :: l) (insert_stable x l).
Proof.
  unfold insert_stable. induction l as [|y l IH]; [apply Permutation_refl|].
  destruct (ord_some x y) as [[]|]; try apply Permutation_refl;
    (eapply Permutation_trans; [apply perm_swap|apply perm_skip; exact IH]).
Qed.

Lemma sort_stable_perm_acc : forall l acc, Permutation (acc ++ l) (fold_left (fun a x => insert_stable x a) l acc).
Proof.
  induction l as [|x l IH]; intros acc; cbn.
  - rewrite app_nil_r. apply Permutation_refl.
  - eapply Permutation_trans; [|apply IH].
    eapply Permutation_trans; [apply Permutation_sym, Permutation_middle|].
    change (x :: acc ++ l) with ((x :: acc) ++ l).
    apply Permutation_app_tail. apply insert_stable_perm.
Qed.

Theorem sort_is_permutation : forall l l',
  sort_impl l = ROk (VList l') -> Permutation l l'.
Proof.
  intros l l' H. unfold sort_impl in H. destruct l as [|first l0]; [inv H; apply Permutation_refl|].
  destruct (forallb _ _); [|discriminate]. inv H.
  exact (sort_stable_perm_acc (first :: l0) []).
Qed.

(** [x] is not greater than [y] *)
Definition le_v (x y : value) : Prop := match ord_some x y with Some Gt | None => False | _ => True end.

(** Sortedness needs the comparator to be a total preorder on the elements:
    that is the meaning of "mutually comparable". *)
Definition total_preorder_on (l : list value) : Prop :=
  (forall x y, In x l -> In y l -> exists c, ord_some x y = Some c /\ ord_some y x = Some (CompOpp c)) /\
  (forall x y z, In x l -> In y l -> In z l -> le_v x y -> le_v y z -> le_v x z).

Lemma insert_stable_in x l y : In y (insert_stable x l) <-> y = x \/ In y l.
Proof.
  split; intros H.
  - apply (Permutation_in _ (Permutation_sym (insert_stable_perm x l))) in H. destruct H; auto.
  - apply (Permutation_in _ (insert_stable_perm x l)). destruct H; [left; auto|right; auto].
Qed.

Lemma insert_stable_sorted (dom : list value) x : forall l,
  total_preorder_on dom -> In x dom -> (forall y, In y l -> In y dom) ->
  Sorted le_v l -> Sorted le_v (insert_stable x l).
Proof.
  intros l [Htot Htr] Hx. unfold insert_stable.
  induction l as [|y l IH]; intros Hl Hs.
  - constructor; constructor.
  - assert (Hy : In y dom) by (apply Hl; left; reflexivity).
    destruct (Htot x y Hx Hy) as (c & Hc & Hc').
    inversion Hs as [|? ? Hs' Hhd]; subst.
    rewrite Hc. destruct c.
    + (* equal: after y *)
      constructor.
      * apply IH; auto. intros z Hz. apply Hl. right. assumption.
      * fold (insert_stable x l). destruct l as [|z l]; cbn.
        -- constructor. unfold le_v. rewrite Hc'. exact I.
        -- inversion Hhd; subst. destruct (ord_some x z) as [[]|]; constructor; auto.
           all: unfold le_v; rewrite Hc'; exact I.
    + (* x < y: before y *)
      constructor; [assumption|]. constructor. unfold le_v. rewrite Hc. exact I.
    + constructor.
      * apply IH; auto. intros z Hz. apply Hl. right. assumption.
      * fold (insert_stable x l). destruct l as [|z l]; cbn.
        -- constructor. unfold le_v. rewrite Hc'. exact I.
        -- inversion Hhd; subst. destruct (ord_some x z) as [[]|]; constructor; auto.
           all: unfold le_v; rewrite Hc'; exact I.
Qed.

Theorem sort_is_sorted : forall l l',
  total_preorder_on l -> sort_impl l = ROk (VList l') -> Sorted le_v l'.
Proof.
  intros l l' Hto H. unfold sort_impl in H. destruct l as [|first l0]; [inv H; constructor|].
  destruct (forallb _ _); [|discriminate]. inv H.
  unfold sort_stable.
  assert (G : forall rest acc, (forall y, In y rest -> In y (first :: l0)) ->
              (forall y, In y acc -> In y (first :: l0)) -> Sorted le_v acc ->
              Sorted le_v (fold_left (fun a x => insert_stable x a) rest acc)).
  { induction rest as [|x rest IH]; intros acc Hr Ha Hs; cbn; [assumption|].
    apply IH.
    - intros y Hy. apply Hr. right. assumption.
    - intros y Hy. apply insert_stable_in in Hy. destruct Hy as [->|Hy]; [apply Hr; left; reflexivity|auto].
    - eapply insert_stable_sorted; eauto. apply Hr. left. reflexivity. }
  apply G; auto. intros y [].
Qed.

(** Lists of ints and uints (jointly) are totally preordered, so sort sorts them. *)
Lemma iu_total_preorder l :
  (forall v, In v l -> wf v = true /\ exists z, iu_val v = Some z) -> total_preorder_on l.
Proof.
  intros Hl. split.
  - intros x y Hx Hy. destruct (Hl x Hx) as (Wx & zx & Zx), (Hl y Hy) as (Wy & zy & Zy).
    exists (zx ?= zy). unfold ord_some.
    rewrite (ord_int_uint_is_numeric_order x y zx zy Wx Wy Zx Zy).
    rewrite (ord_int_uint_is_numeric_order y x zy zx Wy Wx Zy Zx).
    split; [reflexivity|]. rewrite (Z.compare_antisym zx zy). reflexivity.
  - intros x y z Hx Hy Hz.
    destruct (Hl x Hx) as (Wx & zx & Zx), (Hl y Hy) as (Wy & zy & Zy), (Hl z Hz) as (Wz & zz & Zz).
    unfold le_v, ord_some.
    rewrite (ord_int_uint_is_numeric_order x y zx zy Wx Wy Zx Zy).
    rewrite (ord_int_uint_is_numeric_order y z zy zz Wy Wz Zy Zz).
    rewrite (ord_int_uint_is_numeric_order x z zx zz Wx Wz Zx Zz).
    destruct (zx ?= zy) eqn:C1; destruct (zy ?= zz) eqn:C2; destruct (zx ?= zz) eqn:C3; try tauto; intros _ _;
      rewrite ?Z.compare_eq_iff, ?Z.compare_lt_iff, ?Z.compare_gt_iff in *; lia.
Qed.

(** min / max: the result is an argument and no argument is smaller / greater. *)
Lemma pick_in better : forall rest cur, In (pick better cur rest) (cur :: rest).
Proof.
  induction rest as [|v r IH]; intros cur; cbn; [left; reflexivity|].
  destruct (IH (if better v cur then v else cur)) as [H|H].
  - destruct (better v cur); [right; left; auto|left; auto].
  - right. right. assumption.
Qed.

Theorem min_max_is_argument : forall args m,
  (min_impl args = ROk m \/ max_impl args = ROk m) -> args <> [] -> In m args.
Proof.
  intros args m [H|H] Hne; destruct args as [|v r]; try congruence; cbn in H; inv H; apply pick_in.
Qed.

(* ---- reflexivity and symmetry of == -------------------------------------- *)

(** size of a value (for induction through the nested lists) *)
Fixpoint vsize (v : value) : nat :=
  match v with
  | VList l => S ((fix go (l : list value) : nat := match l with [] => O | x :: r => (vsize x + go r)%nat end) l)
  | VMap m => S ((fix go (m : list (bytes * value)) : nat := match m with [] => O | (_, x) :: r => (vsize x + go r)%nat end) m)
  | _ => 1%nat
  end.

Lemma vsize_pos v : (0 < vsize v)%nat.
Proof. destruct v; cbn; lia. Qed.

Lemma vsize_list_cons x l : vsize (VList (x :: l)) = (vsize x + vsize (VList l))%nat.
Proof. cbn. lia. Qed.

(** scalar data and (nested) lists of them, without NaN *)
Fixpoint plain (v : value) : bool :=
  match v with
  | VInt _ | VUInt _ | VBool _ | VString _ | VBytes _ | VNull | VType _ | VTime _ | VDur _ => true
  | VFloat f => negb (f64_is_nan f)
  | VList l => (fix go (l : list value) := match l with [] => true | x :: r => plain x && go r end) l
  | _ => false
  end.

Lemma f64_eqb_refl f : f64_valid f = true -> f64_is_nan f = false -> f64_eqb f f = true.
Proof.
  intros Hv Hn. destruct (valid_is_B2SF f Hv) as [b <-].
  unfold f64_eqb. change (SFeqb (B2SF b) (B2SF b)) with (Beqb b b).
  rewrite Beqb_refl. destruct b; try reflexivity. discriminate Hn.
Qed.

Lemma f64_eqb_sym x y : f64_valid x = true -> f64_valid y = true -> f64_eqb x y = f64_eqb y x.
Proof.
  intros Hx Hy. destruct (valid_is_B2SF x Hx) as [bx <-], (valid_is_B2SF y Hy) as [by_ <-].
  unfold f64_eqb, SFeqb. change (SFcompare (B2SF bx) (B2SF by_)) with (Bcompare bx by_).
  change (SFcompare (B2SF by_) (B2SF bx)) with (Bcompare by_ bx).
  rewrite (Bcompare_swap _ _ by_ bx). destruct (Bcompare by_ bx) as [[]|]; reflexivity.
Qed.

Lemma type_prop_same_plain a : plain a = true -> type_prop a a = (a, a) \/ exists b, a = VBool b.
Proof. destruct a; intros; try (left; reflexivity); right; eauto. Qed.

Theorem eq_refl_plain : forall n v, (vsize v < n)%nat -> wf v = true -> plain v = true -> eq_ v v = VBool true.
Proof.
  induction n as [|n IH]; intros v Hn Hw Hp; [lia|].
  destruct v; try discriminate Hp; cbn [eq_ is_err type_prop].
  - rewrite Z.eqb_refl. reflexivity.
  - rewrite Z.eqb_refl. reflexivity.
  - rewrite f64_eqb_refl; [reflexivity|exact Hw|]. cbn in Hp. destruct (f64_is_nan f); [discriminate|reflexivity].
  - destruct b; reflexivity.
  - rewrite bytes_eqb_refl. reflexivity.
  - rewrite bytes_eqb_refl. reflexivity.
  - (* list *)
    rewrite Z.eqb_refl. cbn [negb].
    match goal with |- ?f l l = VBool true =>
      assert (G : forall l', (vsize (VList l') <= vsize (VList l))%nat -> wf (VList l') = true ->
                  plain (VList l') = true -> f l' l' = VBool true) end.
    { induction l' as [|x l' IHl]; intros Hs Hw' Hp'; [reflexivity|].
      rewrite vsize_list_cons in Hs.
      cbn in Hw'. apply andb_true_iff in Hw'. destruct Hw' as [Wx Wl].
      cbn in Hp'. apply andb_true_iff in Hp'. destruct Hp' as [Px Pl].
      pose proof (vsize_pos (VList l')) as Hpos.
      cbn. rewrite (IH x); [|lia|exact Wx|exact Px]. cbn [is_true].
      apply IHl; [lia|exact Wl|exact Pl]. }
    apply G; [lia|exact Hw|exact Hp].
  - reflexivity.
  - rewrite bytes_eqb_refl. reflexivity.
  - rewrite Z.eqb_refl. reflexivity.
  - rewrite Z.eqb_refl. reflexivity.
Qed.

(** On scalar operands (any two types) [==] is symmetric. *)
Definition scalar (v : value) : bool :=
  match v with
  | VInt _ | VUInt _ | VFloat _ | VBool _ | VString _ | VBytes _ | VNull | VType _ | VTime _ | VDur _ => true
  | _ => false
  end.

Theorem eq_sym_scalar : forall a b,
  wf a = true -> wf b = true -> scalar a = true -> scalar b = true -> eq_ a b = eq_ b a.
Proof.
  intros a b Wa Wb Sa Sb.
  destruct a; try discriminate Sa; destruct b; try discriminate Sb; cbn [eq_ is_err type_prop];
    try reflexivity;
    repeat match goal with |- context [if ?c then _ else _] => destruct c eqn:? end;
    cbn; try reflexivity;
    try (rewrite Z.eqb_sym; reflexivity);
    try (f_equal; apply f64_eqb_sym; cbn in *; try assumption; try apply f64_of_Z_valid;
         match goal with |- f64_valid (if ?b then _ else _) = true => destruct b; reflexivity end);
    try (f_equal; rewrite bytes_eqb_cmp, (bytes_eqb_cmp s0 s), (bytes_cmp_antisym s0 s);
         destruct (bytes_cmp s0 s); reflexivity);
    try (destruct b, b0; reflexivity).
Qed.
