(* Proofs/Fold.v — C09: each constant-folding site of the compiler computes
   what the VM computes from the unfolded code. *)
From Coq Require Import ZArith List Bool Lia.
From Rscel Require Import Base.Prims Base.F64 Base.Text Model.Value Model.Ops Model.Dispatch Model.Funcs Model.Interp
     Model.Lexer Model.Ast Model.Parser Model.Compile.
From Rscel Require Import Proofs.VM Proofs.Blocks Proofs.OpsColl.
Import ListNotations.
Import Coq.Strings.String.StringSyntax.
Open Scope Z_scope.

(** The function the VM applies for a binary operator instruction. *)
Definition instr_fun (i : instr) : option (value -> value -> value) :=
  match i with
  | IAdd => Some add | ISub => Some sub | IMul => Some mul | IDiv => Some div | IMod => Some rem
  | ILt => Some lt | ILe => Some le | IEq => Some eq_ | INe => Some neq | IGe => Some ge | IGt => Some gt
  | IIn => Some in_ | IIndex => Some index
  | _ => None
  end.

(** VM: [Push x; Push y; op] leaves [f x y] for constants x, y. *)
Theorem vm_binop_on_constants : forall rs E d i f x y st lg,
  instr_fun i = Some f -> plainv x -> plainv y ->
  loop rs 4 E d [IPush x; IPush y; i] O st lg = (ROk (SVal (f x y) :: st), lg).
Proof.
  intros rs E d i f x y st lg Hi Hx Hy.
  rewrite loop_S. cbn [nth_error step]. unfold mret, push.
  rewrite loop_S. cbn [nth_error step]. unfold mret, push.
  rewrite loop_S. cbn [nth_error].
  assert (Hs : step rs E d i (SVal y :: SVal x :: st) lg = (ROk (None, SVal (f x y) :: st), lg)).
  { destruct i; try discriminate Hi; inversion Hi; subst; cbn [step]; unfold bin, mbind;
      rewrite (resolves_plain rs E d y lg Hy (SVal x :: st));
      rewrite (resolves_plain rs E d x lg Hx st); reflexivity. }
  rewrite Hs. rewrite loop_S. reflexivity.
Qed.

(** Compiler: when both operands are constants, [compile2 i f] folds to [f x y] -
    the same function, for every site that uses it. *)
Theorem compile2_folds_with_vm_function : forall i f x y pa pb,
  cp_node (compile2 i f (mkCP (NConst x) pa) (mkCP (NConst y) pb)) = NConst (f x y).
Proof. reflexivity. Qed.

Theorem compile2_unfolded_code : forall i f a b,
  (is_const (cp_node a) && is_const (cp_node b)) = false ->
  cp_node (compile2 i f a b) = NBytecode (into_bytecode (cp_node a) ++ into_bytecode (cp_node b) ++ [PBc i]).
Proof. intros i f [[?|?] ?] [[?|?] ?] H; try reflexivity. discriminate H. Qed.

(** every binary site of the compiler pairs an instruction with the VM's function for it *)
Theorem compile_sites_use_vm_functions :
  (forall op, exists i f, instr_fun i = Some f /\
     forall cl cr, (match op with MOMul => compile2 IMul mul cl cr | MODiv => compile2 IDiv div cl cr
                                  | MOMod => compile2 IMod rem cl cr end) = compile2 i f cl cr) /\
  (forall op, exists i f, instr_fun i = Some f /\
     forall cl cr, (match op with AOAdd => compile2 IAdd add cl cr | AOSub => compile2 ISub sub cl cr end)
                   = compile2 i f cl cr) /\
  (forall op, exists i f, instr_fun i = Some f /\
     forall cl cr, (match op with
                    | RLt => compile2 ILt lt cl cr | RLe => compile2 ILe le cl cr
                    | REq => compile2 IEq eq_ cl cr | RNe => compile2 INe neq cl cr
                    | RGe => compile2 IGe ge cl cr | RGt => compile2 IGt gt cl cr
                    | RIn => compile2 IIn in_ cl cr end) = compile2 i f cl cr).
Proof.
  repeat split; intros op; destruct op; do 2 eexists; (split; [|intros; reflexivity]); reflexivity.
Qed.

(** The clock does not exist at compile time: clock reads fail, so they are
    never constants (a failing call is kept as bytecode) and compilation is a
    function of the source alone. *)
Theorem compile_time_clock_reads_fail : forall this,
  e_now compile_env = None /\
  call_default None #"now" this [] = Some (ROk (VErr ERuntime)) /\
  construct_type None #"timestamp" [] = ROk (VErr ERuntime).
Proof. intros. repeat split. Qed.

Theorem check_for_const_keeps_failing_calls : forall fuel node n bc,
  resolve (into_bytecode (cp_node node)) = Some bc ->
  (exists e lg, run fuel compile_env bc true O [] = (RErr e, lg)) ->
  check_for_const fuel node n = COk (mkCP (NBytecode (of_code bc)) (cp_params node)) n.
Proof.
  intros fuel node n bc Hr (e & lg & Hrun). unfold check_for_const, cbind, resolve_or_panic.
  rewrite Hr, Hrun. reflexivity.
Qed.

Theorem check_for_const_rejects_nested_errors : forall fuel node n bc v lg,
  resolve (into_bytecode (cp_node node)) = Some bc ->
  run fuel compile_env bc true O [] = (ROk v, lg) -> contains_err v = true ->
  check_for_const fuel node n = COk (mkCP (NBytecode (of_code bc)) (cp_params node)) n.
Proof.
  intros fuel node n bc v lg Hr Hrun Hc. unfold check_for_const, cbind, resolve_or_panic.
  rewrite Hr, Hrun. rewrite Hc, orb_true_r. reflexivity.
Qed.

(** An evaluation that asked for the clock is never frozen, whatever value it ended with: the refusal
    is an ordinary error value that a match arm or a counting macro can absorb, so the value alone
    does not tell (utils/clock.rs remembers the request; here it is a mark in the log). *)
Theorem check_for_const_rejects_clock_requests : forall fuel node n bc v lg,
  resolve (into_bytecode (cp_node node)) = Some bc ->
  run fuel compile_env bc true O [] = (ROk v, lg) -> runtime_requested lg = true ->
  check_for_const fuel node n = COk (mkCP (NBytecode (of_code bc)) (cp_params node)) n.
Proof.
  intros fuel node n bc v lg Hr Hrun Hc. unfold check_for_const, cbind, resolve_or_panic.
  rewrite Hr, Hrun. rewrite Hc. reflexivity.
Qed.

(** the request is recorded exactly where the clock is refused: now() and the zero-parameter
    timestamp() (which the dispatcher's null padding also selects for timestamp(null)), while
    folding; every other call of these names does not depend on the clock at all *)
Theorem clock_request_is_recorded : forall E this lg, folding E = true -> assoc #"now" (e_ufuncs E) = None ->
  call_func E #"now" this [] lg = (ROk (VErr ERuntime), runtime_mark :: lg).
Proof.
  intros E this lg Hf Hu. unfold call_func. rewrite Hu. unfold mbind, note_clock. rewrite Hf. cbn [andb asks_clock_fn].
  unfold folding in Hf. destruct (e_now E); [discriminate|]. reflexivity.
Qed.

Theorem runtime_mark_stays : forall e lg, runtime_requested lg = true -> runtime_requested (e :: lg) = true.
Proof. intros e lg H. unfold runtime_requested in *. cbn [existsb]. rewrite H. apply orb_true_r. Qed.

Theorem unasked_calls_ignore_the_clock : forall now now' name this args tn,
  (asks_clock_fn name args = false -> call_default now name this args = call_default now' name this args) /\
  (asks_clock_ty tn args = false -> construct_type now tn args = construct_type now' tn args).
Proof.
  intros now now' name this args tn. split.
  - intros H. unfold call_default. destruct (negb (is_default_func name)); [reflexivity|].
    change (default_arms now' name) with (default_arms now name). destruct (default_arms now name); [reflexivity|].
    repeat match goal with |- (if ?c then _ else _) = (if ?c then _ else _) => destruct c eqn:?; [try reflexivity|] end;
      try reflexivity.
    unfold asks_clock_fn in H.
    match goal with Hb : bytes_eqb name #"now" = true |- _ => rewrite Hb in H end.
    destruct args; [discriminate H|reflexivity].
  - intros H. unfold construct_type.
    repeat match goal with |- (if ?c then _ else _) = (if ?c then _ else _) => destruct c eqn:?; [try reflexivity|] end;
      try reflexivity.
    unfold asks_clock_ty in H.
    match goal with Hb : bytes_eqb tn #"timestamp" = true |- _ => rewrite Hb in H end. cbn [andb] in H.
    destruct args as [|a [|b r]]; try discriminate H.
    + destruct a; try discriminate H; reflexivity.
    + reflexivity.
Qed.

(** [contains_err] finds an error at any depth of lists and maps. *)
Example contains_err_is_deep :
  contains_err (VList [VList [VErr (EBinding [120]); VInt 2]; VList [VInt 3]]) = true /\
  contains_err (VMap [([97], VList [VMap [([98], VErr EDivZero)]])]) = true /\
  contains_err (VList [VList [VInt 1]]) = false.
Proof. vm_compute. repeat split. Qed.
