(* Proofs/Absent.v — C08: has() and coalesce() distinguish absent data
   (unbound variable, absent field) from every other failure; field paths
   evaluate to the leaf or to an absent-data error by the binding configuration. *)
From Coq Require Import ZArith List Bool Lia.
From Rscel Require Import Base.Prims Base.F64 Base.Text Model.Value Model.Ops Model.Dispatch Model.Funcs Model.Interp.
From Rscel Require Import Proofs.VM Proofs.Blocks.
Import ListNotations.
Import Coq.Strings.String.StringSyntax.
Open Scope Z_scope.

Ltac inv H := inversion H; subst; clear H.

Definition absent (e : cel_error) : bool :=
  match e with EBinding _ | EAttribute _ => true | _ => false end.

Section HasCoalesce.
  Variable rs : runner.
  Variable E : env.
  Variable d : nat.

  (** has(e): true when e evaluates, false exactly when it fails as absent
      data, and every other failure is propagated. *)
  Theorem has_spec this c lg :
    call_macro_impl rs E d #"has" this [c] lg =
    match rs E c true d lg with
    | (ROk _, lg') => (ROk (VBool true), lg')
    | (RErr e, lg') => if absent e then (ROk (VBool false), lg') else (ROk (VErr e), lg')
    | (o, lg') => (mcast o, lg')
    end.
  Proof.
    change (call_macro_impl rs E d #"has" this [c] lg) with
      (match rs E c true d lg with
       | (ROk _, lg') => (ROk (VBool true), lg')
       | (RErr (EBinding _), lg') | (RErr (EAttribute _), lg') => (ROk (VBool false), lg')
       | (RErr e, lg') => (ROk (VErr e), lg')
       | (x, lg') => (mcast x, lg')
       end).
    destruct (rs E c true d lg) as [[v|e| | |] lg']; try reflexivity. destruct e; reflexivity.
  Qed.

  Theorem has_arity this args :
    length args <> 1%nat -> forall lg, call_macro_impl rs E d #"has" this args lg = (ROk (VErr EArgument), lg).
  Proof. intros H lg. destruct args as [|a [|b r]]; try reflexivity. cbn in H. congruence. Qed.

  (** an argument coalesce skips: null, or absent data *)
  Definition skipped (c : code) (lg lg' : log) : Prop :=
    rs E c true d lg = (ROk VNull, lg') \/ exists e, absent e = true /\ rs E c true d lg = (RErr e, lg').

  Inductive all_skipped : list code -> log -> log -> Prop :=
  | sk_nil lg : all_skipped [] lg lg
  | sk_cons c r lg lg1 lg2 : skipped c lg lg1 -> all_skipped r lg1 lg2 -> all_skipped (c :: r) lg lg2.

  Lemma coalesce_skip c r lg lg1 : skipped c lg lg1 -> coalesce_loop rs E d (c :: r) lg = coalesce_loop rs E d r lg1.
  Proof.
    intros [H|(e & Ha & H)]; cbn [coalesce_loop]; rewrite H; [reflexivity|]. destruct e; try discriminate Ha; reflexivity.
  Qed.

  (** coalesce returns the first argument that is neither null nor absent,
      evaluating left to right and nothing after the chosen one. *)
  Theorem coalesce_first_present pre c post lg lg1 v lg2 :
    all_skipped pre lg lg1 -> rs E c true d lg1 = (ROk v, lg2) -> v <> VNull ->
    coalesce_loop rs E d (pre ++ c :: post) lg = (ROk v, lg2).
  Proof.
    induction 1 as [lg|c0 r lg lg1' lg2' Hs Ha IH]; intros Hc Hn; cbn [app].
    - cbn [coalesce_loop]. rewrite Hc. destruct v; try reflexivity. congruence.
    - rewrite (coalesce_skip c0 _ lg lg1' Hs). apply IH; assumption.
  Qed.

  (** every other failure is propagated (and stops the evaluation) *)
  Theorem coalesce_other_failure pre c post lg lg1 e lg2 :
    all_skipped pre lg lg1 -> rs E c true d lg1 = (RErr e, lg2) -> absent e = false ->
    coalesce_loop rs E d (pre ++ c :: post) lg = (ROk (VErr e), lg2).
  Proof.
    induction 1 as [lg|c0 r lg lg1' lg2' Hs Ha IH]; intros Hc Hn; cbn [app].
    - cbn [coalesce_loop]. rewrite Hc. destruct e; try discriminate Hn; reflexivity.
    - rewrite (coalesce_skip c0 _ lg lg1' Hs). apply IH; assumption.
  Qed.

  (** null when nothing qualifies (any arity, including zero) *)
  Theorem coalesce_nothing_qualifies args lg lg' :
    all_skipped args lg lg' -> coalesce_loop rs E d args lg = (ROk VNull, lg').
  Proof.
    induction 1 as [lg|c0 r lg lg1' lg2' Hs Ha IH]; [reflexivity|].
    rewrite (coalesce_skip c0 _ lg lg1' Hs). exact IH.
  Qed.
End HasCoalesce.

(* ---- field paths ----------------------------------------------------------------- *)

(** one field access on a value (the name is not a function or macro) *)
Definition field (obj : value) (f : bytes) : value :=
  match obj with
  | VMap m => match map_get m f with Some v => v | None => VErr (EAttribute f) end
  | VErr e => VErr e                       (* a failed object stays the failure it is *)
  | _ => VErr (EAttribute f)
  end.

Definition path_code (fs : list bytes) : code :=
  flat_map (fun f => [IPush (VIdent f); IAccess]) fs.

(** the values met along a path *)
Fixpoint path_vals (v : value) (fs : list bytes) : list value :=
  match fs with [] => [v] | f :: r => v :: path_vals (field v f) r end.

Section Paths.
  Variable rs : runner.
  Variable E : env.
  Variable d : nat.
  Hypothesis Hbound : e_bound E = true.
  Hypothesis Hrun : folding E = false.      (* an execution, not the compiler's constant folding *)

  Lemma access_step obj f st lg :
    plainv obj -> has_func E f = false -> has_macro E f = false ->
    step rs E d IAccess (SVal (VIdent f) :: SVal obj :: st) lg = (ROk (None, SVal (field obj f) :: st), lg).
  Proof.
    intros Hp Hf Hm. cbn [step]. unfold mbind at 1. cbn [pop_noresolve mret].
    unfold mbind at 1. rewrite (resolves_plain rs E d obj lg Hp st).
    destruct obj; cbn [field]; rewrite ?Hbound, ?Hf, ?Hm, ?Hrun; cbn [negb]; try reflexivity;
      try (destruct (map_get m f); rewrite ?Hrun; reflexivity); try (destruct Hp).
  Qed.

  (** A path of field accesses from a value computes the fold of [field]:
      the leaf, or the absent-field error of the first missing step (which
      every later step turns into an absent-field error again). *)
  Theorem path_run : forall fs v st lg,
    Forall plainv (path_vals v fs) ->
    (forall f, In f fs -> has_func E f = false /\ has_macro E f = false) ->
    forall p q, exists fuel, forall extra,
      loop rs (fuel + extra) E d (p ++ path_code fs ++ q) (length p) (SVal v :: st) lg =
      loop rs extra E d (p ++ path_code fs ++ q) (length p + length (path_code fs)) (SVal (fold_left field fs v) :: st) lg.
  Proof.
    induction fs as [|f r IH]; intros v st lg Hpl Hnf p q.
    - exists O. intros extra. cbn. rewrite Nat.add_0_r. reflexivity.
    - cbn [path_vals] in Hpl. inv Hpl.
      destruct (Hnf f (or_introl eq_refl)) as [Hf Hm].
      destruct (IH (field v f) st lg H2 (fun g Hg => Hnf g (or_intror Hg))
                   (p ++ [IPush (VIdent f); IAccess]) q) as (fuel & Hloop).
      exists (S (S fuel)). intros extra.
      cbn [path_code flat_map app] in *.
      change (flat_map (fun f0 : bytes => [IPush (VIdent f0); IAccess]) r) with (path_code r) in *.
      set (code := p ++ IPush (VIdent f) :: IAccess :: path_code r ++ q).
      assert (Ecode : code = (p ++ [IPush (VIdent f); IAccess]) ++ path_code r ++ q).
      { unfold code. rewrite <- !app_assoc. reflexivity. }
      assert (N0 : nth_error code (length p) = Some (IPush (VIdent f))).
      { unfold code. rewrite <- (Nat.add_0_r (length p)), nth_off. reflexivity. }
      assert (N1 : nth_error code (S (length p)) = Some IAccess).
      { unfold code. replace (S (length p)) with (length p + 1)%nat by lia. rewrite nth_off. reflexivity. }
      replace (S (S fuel) + extra)%nat with (S (S (fuel + extra))) by lia.
      rewrite loop_S, N0. cbn [step]. unfold mret, push.
      rewrite loop_S, N1.
      rewrite (access_step v f st lg H1 Hf Hm).
      rewrite Ecode. specialize (Hloop extra).
      replace (length (p ++ [IPush (VIdent f); IAccess])) with (S (S (length p))) in Hloop
        by (rewrite app_length; cbn; lia).
      rewrite Hloop. cbn [length fold_left]. f_equal. lia.
  Qed.
End Paths.

(** Classification of the leaf by the configuration: the fold of [field] over
    a path is the stored leaf when every step exists; a missing step or a
    non-map yields an absent-field error, and an error (such as an unbound
    root, or a division by zero) is carried to the end unchanged. *)
Theorem field_on_error_is_that_error : forall e f, field (VErr e) f = VErr e.
Proof. reflexivity. Qed.

Theorem path_from_error : forall fs e, fold_left field fs (VErr e) = VErr e.
Proof. induction fs as [|f r IH]; intros e; [reflexivity|]. cbn [fold_left field]. apply IH. Qed.

Theorem path_absent_propagates : forall fs v,
  (forall m, v <> VMap m) -> is_err v = false -> fs <> [] ->
  exists f, fold_left field fs v = VErr (EAttribute f).
Proof.
  intros fs v Hv He Hne. destruct fs as [|f r]; [congruence|]. cbn [fold_left].
  assert (Hf : field v f = VErr (EAttribute f)).
  { destruct v; try reflexivity; try discriminate He. exfalso. eapply Hv. reflexivity. }
  rewrite Hf, path_from_error. exists f. reflexivity.
Qed.
