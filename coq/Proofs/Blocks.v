(* Proofs/Blocks.v — composition of code blocks in the VM model: fuel
   monotonicity, embedding of a closed block at any offset of a larger block,
   and the block lemmas for the lazy operators (C05). *)
From Coq Require Import ZArith List Bool Lia Arith.
From Rscel Require Import Base.Prims Base.F64 Base.Text Model.Value Model.Ops Model.Dispatch Model.Funcs
     Model.Interp Spec.WfCode Proofs.VM.
Import ListNotations.
Open Scope Z_scope.

Section Blocks.
  Variable rs : runner.
  Variable E : env.
  Variable d : nat.

  Notation loop' := (loop rs).

  Lemma loop_S fuel c pc st lg :
    loop' (S fuel) E d c pc st lg =
    match nth_error c pc with
    | None => (ROk st, lg)
    | Some i =>
        match step rs E d i st lg with
        | (ROk (None, st'), lg') => loop' fuel E d c (S pc) st' lg'
        | (ROk (Some dd, st'), lg') =>
            match jump_target (S pc) dd (length c) with
            | Some pc' => loop' fuel E d c pc' st' lg'
            | None => (RErr ERuntime, lg')
            end
        | (RErr e, lg') => (RErr e, lg')
        | (RPanic, lg') => (RPanic, lg')
        | (RFuel, lg') => (RFuel, lg')
        | (RUnmod, lg') => (RUnmod, lg')
        end
    end.
  Proof.
    cbn [loop]. destruct (nth_error c pc) as [i|]; [|reflexivity].
    unfold mbind. destruct (step rs E d i st lg) as [[[j st']| | | |] lg']; try reflexivity.
    destruct j as [dd|]; [|reflexivity].
    destruct (jump_target (S pc) dd (length c)); reflexivity.
  Qed.

  (** More fuel does not change a result that is not "out of fuel". *)
  Lemma loop_mono : forall fuel c pc st lg r lg',
    loop' fuel E d c pc st lg = (r, lg') -> r <> RFuel ->
    forall extra, loop' (fuel + extra) E d c pc st lg = (r, lg').
  Proof.
    induction fuel as [|f IH]; intros c pc st lg r lg' H Hr extra.
    - cbn in H. inv H. congruence.
    - replace (S f + extra)%nat with (S (f + extra)) by lia. rewrite loop_S in *.
      destruct (nth_error c pc) as [i|]; [|exact H].
      destruct (step rs E d i st lg) as [[[j st1]| | | |] lg1]; try exact H.
      destruct j as [dd|].
      + destruct (jump_target (S pc) dd (length c)); [|exact H]. apply IH; assumption.
      + apply IH; assumption.
  Qed.

  (** A block is closed when all its jumps are forward and land inside it or at its end. *)
  Definition closed (c : code) : Prop :=
    forall pc i, nth_error c pc = Some i ->
      match i with
      | IJmp dd | IJmpCond _ dd => 0 <= dd /\ (S pc + Z.to_nat dd <= length c)%nat
      | _ => True
      end.

  Lemma jump_target_inside pc dd len :
    0 <= dd -> (S pc + Z.to_nat dd <= len)%nat -> jump_target (S pc) dd len = Some (S pc + Z.to_nat dd)%nat.
  Proof.
    intros H0 H1. unfold jump_target.
    replace ((Z.of_nat (S pc) + dd <? 0) || (Z.of_nat len <? Z.of_nat (S pc) + dd)) with false.
    2:{ symmetry. apply orb_false_iff. split; apply Z.ltb_ge; lia. }
    f_equal. lia.
  Qed.

  Lemma nth_error_embed {A} (p c q : list A) pc x :
    nth_error c pc = Some x -> nth_error (p ++ c ++ q) (length p + pc) = Some x.
  Proof.
    intros H. rewrite nth_error_app2 by lia. replace (length p + pc - length p)%nat with pc by lia.
    rewrite nth_error_app1; [exact H|]. apply nth_error_Some. congruence.
  Qed.

  (** Embedding: a closed block that runs to its end inside [c] alone runs the
      same way at any offset of a larger block, then control is at its end. *)
  Lemma embed p c q : closed c ->
    forall fuel pc st lg st' lg',
      (pc <= length c)%nat ->
      loop' fuel E d c pc st lg = (ROk st', lg') ->
      exists f1, (f1 <= fuel)%nat /\
        forall extra, loop' (f1 + extra) E d (p ++ c ++ q) (length p + pc) st lg =
                      loop' extra E d (p ++ c ++ q) (length p + length c) st' lg'.
  Proof.
    intros Hc. induction fuel as [|f IH]; intros pc st lg st' lg' Hpc H.
    - cbn in H. inv H.
    - rewrite loop_S in H. destruct (nth_error c pc) as [i|] eqn:Hn.
      + pose proof (Hc pc i Hn) as Hcl.
        destruct (step rs E d i st lg) as [[[j st1]| | | |] lg1] eqn:Hs; try discriminate H.
        assert (Hlt : (pc < length c)%nat) by (apply nth_error_Some; congruence).
        destruct j as [dd|].
        * (* a jump: it is Jmp dd or JmpCond _ dd *)
          pose proof (step_height rs E d i st lg (Some dd) st1 lg1 Hs) as (_ & _ & Hj).
          assert (Hrange : 0 <= dd /\ (S pc + Z.to_nat dd <= length c)%nat).
          { destruct i; cbn in Hj; try contradiction; subst; exact Hcl. }
          destruct Hrange as [H0 H1].
          rewrite (jump_target_inside pc dd (length c) H0 H1) in H.
          destruct (IH (S pc + Z.to_nat dd)%nat st1 lg1 st' lg' H1 H) as (f1 & Hf1 & Hrun).
          exists (S f1). split; [lia|]. intros extra.
          replace (S f1 + extra)%nat with (S (f1 + extra)) by lia. rewrite loop_S.
          rewrite (nth_error_embed p c q pc i Hn), Hs.
          rewrite (jump_target_inside (length p + pc) dd (length (p ++ c ++ q)) H0).
          2:{ rewrite !app_length. lia. }
          replace (S (length p + pc) + Z.to_nat dd)%nat with (length p + (S pc + Z.to_nat dd))%nat by lia.
          apply Hrun.
        * destruct (IH (S pc) st1 lg1 st' lg' Hlt H) as (f1 & Hf1 & Hrun).
          exists (S f1). split; [lia|]. intros extra.
          replace (S f1 + extra)%nat with (S (f1 + extra)) by lia. rewrite loop_S.
          rewrite (nth_error_embed p c q pc i Hn), Hs.
          replace (S (length p + pc)) with (length p + S pc)%nat by lia. apply Hrun.
      + inv H. apply nth_error_None in Hn. assert (pc = length c) by lia. subst pc.
        exists O. split; [lia|]. intros extra. reflexivity.
  Qed.

  (** ... and a closed block that fails (hard error) fails the larger block the same way. *)
  Lemma embed_err p c q : closed c ->
    forall fuel pc st lg e lg',
      (pc <= length c)%nat ->
      loop' fuel E d c pc st lg = (RErr e, lg') ->
      exists f1, (f1 <= fuel)%nat /\
        forall extra, loop' (f1 + extra) E d (p ++ c ++ q) (length p + pc) st lg = (RErr e, lg').
  Proof.
    intros Hc. induction fuel as [|f IH]; intros pc st lg e lg' Hpc H.
    - cbn in H. inv H.
    - rewrite loop_S in H. destruct (nth_error c pc) as [i|] eqn:Hn; [|discriminate H].
      pose proof (Hc pc i Hn) as Hcl.
      assert (Hlt : (pc < length c)%nat) by (apply nth_error_Some; congruence).
      destruct (step rs E d i st lg) as [[[j st1]| | | |] lg1] eqn:Hs; try discriminate H.
      + destruct j as [dd|].
        * pose proof (step_height rs E d i st lg (Some dd) st1 lg1 Hs) as (_ & _ & Hj).
          assert (Hrange : 0 <= dd /\ (S pc + Z.to_nat dd <= length c)%nat).
          { destruct i; cbn in Hj; try contradiction; subst; exact Hcl. }
          destruct Hrange as [H0 H1].
          rewrite (jump_target_inside pc dd (length c) H0 H1) in H.
          destruct (IH (S pc + Z.to_nat dd)%nat st1 lg1 e lg' H1 H) as (f1 & Hf1 & Hrun).
          exists (S f1). split; [lia|]. intros extra.
          replace (S f1 + extra)%nat with (S (f1 + extra)) by lia. rewrite loop_S.
          rewrite (nth_error_embed p c q pc i Hn), Hs.
          rewrite (jump_target_inside (length p + pc) dd (length (p ++ c ++ q)) H0).
          2:{ rewrite !app_length. lia. }
          replace (S (length p + pc) + Z.to_nat dd)%nat with (length p + (S pc + Z.to_nat dd))%nat by lia.
          apply Hrun.
        * destruct (IH (S pc) st1 lg1 e lg' Hlt H) as (f1 & Hf1 & Hrun).
          exists (S f1). split; [lia|]. intros extra.
          replace (S f1 + extra)%nat with (S (f1 + extra)) by lia. rewrite loop_S.
          rewrite (nth_error_embed p c q pc i Hn), Hs.
          replace (S (length p + pc)) with (length p + S pc)%nat by lia. apply Hrun.
      + inv H. exists 1%nat. split; [lia|]. intros extra. cbn [Nat.add]. rewrite loop_S.
        rewrite (nth_error_embed p c q pc i Hn), Hs. reflexivity.
  Qed.

  (** "Expression code": from any stack, the block pushes one stack value / fails. *)
  Definition pushes (c : code) (lg : log) (sv : sval) (lg' : log) : Prop :=
    closed c /\ forall st, exists f, loop' f E d c O st lg = (ROk (sv :: st), lg').
  Definition fails (c : code) (lg : log) (e : cel_error) (lg' : log) : Prop :=
    closed c /\ forall st, exists f, loop' f E d c O st lg = (RErr e, lg').

  (** How the consumer of a stack value sees it ([pop] resolves identifiers). *)
  Definition resolves (sv : sval) (lg : log) (v : value) (lg' : log) : Prop :=
    forall st, pop_val rs E d (sv :: st) lg = (ROk (v, st), lg').

  Lemma resolves_plain v lg : match v with VIdent _ => False | _ => True end -> resolves (SVal v) lg v lg.
  Proof. intros H st. destruct v; try reflexivity. destruct H. Qed.

  (* ---- a || b --------------------------------------------------------------- *)

  Definition or_code (ca cb : code) : code :=
    ca ++ [ITest; IDup; IJmpCond true (Z.of_nat (length cb) + 1)] ++ cb ++ [IOr].

  Definition and_code (ca cb : code) : code :=
    ca ++ [ITest; IDup; IJmpCond false (Z.of_nat (length cb) + 1)] ++ cb ++ [IAnd].

  Lemma nth_after {A} (p : list A) x q k : k = length p -> nth_error (p ++ x :: q) k = Some x.
  Proof. intros ->. rewrite nth_error_app2 by lia. rewrite Nat.sub_diag. reflexivity. Qed.

  (** Short circuit: when [a] is truthy, [a || b] is true and NOTHING of [b] runs:
      the result does not depend on what code [cb] is at all. *)
  Theorem or_short_circuit ca cb lg sva lg1 va lg2 :
    pushes ca lg sva lg1 -> resolves sva lg1 va lg2 ->
    is_err va = false -> is_truthy va = true ->
    forall st, exists f, loop' f E d (or_code ca cb) O st lg = (ROk (SVal (VBool true) :: st), lg2).
  Proof.
    intros [Hca Hpa] Hres Hne Htr st.
    destruct (Hpa st) as (fa & Ha).
    set (q := [ITest; IDup; IJmpCond true (Z.of_nat (length cb) + 1)] ++ cb ++ [IOr]).
    destruct (embed [] ca q Hca fa O st lg (sva :: st) lg1 (Nat.le_0_l _) Ha) as (f1 & _ & Hrun).
    exists (f1 + 4)%nat. unfold or_code. fold q. specialize (Hrun 4%nat).
    change ([] ++ ca ++ q) with (ca ++ q) in Hrun. change (length (@nil instr) + 0)%nat with O in Hrun.
    change (length (@nil instr) + length ca)%nat with (length ca) in Hrun.
    rewrite Hrun. clear Hrun. unfold q.
    set (code := ca ++ [ITest; IDup; IJmpCond true (Z.of_nat (length cb) + 1)] ++ cb ++ [IOr]).
    assert (N0 : nth_error code (length ca) = Some ITest) by (apply nth_after; reflexivity).
    assert (N1 : nth_error code (S (length ca)) = Some IDup).
    { unfold code. change (ca ++ [ITest; IDup; IJmpCond true (Z.of_nat (length cb) + 1)] ++ cb ++ [IOr])
        with (ca ++ ITest :: (IDup :: IJmpCond true (Z.of_nat (length cb) + 1) :: cb ++ [IOr])).
      rewrite nth_error_app2 by lia. replace (S (length ca) - length ca)%nat with 1%nat by lia. reflexivity. }
    assert (N2 : nth_error code (S (S (length ca))) = Some (IJmpCond true (Z.of_nat (length cb) + 1))).
    { unfold code. rewrite nth_error_app2 by lia. replace (S (S (length ca)) - length ca)%nat with 2%nat by lia. reflexivity. }
    assert (Len : length code = (length ca + 3 + length cb + 1)%nat).
    { unfold code. rewrite !app_length. cbn. lia. }
    (* Test *)
    rewrite loop_S, N0. cbn [step]. unfold mbind at 1. rewrite (Hres st). rewrite Hne. unfold mret at 1. rewrite Htr.
    (* Dup *)
    rewrite loop_S, N1. cbn [step]. unfold mbind, mret, push. cbn [pop_val pop into_value mbind mret].
    change (pop_val rs E d (SVal (VBool true) :: st) lg2) with (ROk (VBool true, st), lg2).
    (* JmpCond true *)
    rewrite loop_S, N2. cbn [step]. unfold mbind, mret.
    change (pop_val rs E d (SVal (VBool true) :: SVal (VBool true) :: st) lg2)
      with (ROk (VBool true, SVal (VBool true) :: st), lg2).
    cbn [Bool.eqb].
    rewrite jump_target_inside; [|lia|rewrite Len; lia].
    (* at the end of the block *)
    rewrite loop_S.
    replace (nth_error code (S (S (S (length ca))) + Z.to_nat (Z.of_nat (length cb) + 1))) with (@None instr).
    2:{ symmetry. apply nth_error_None. rewrite Len. lia. }
    reflexivity.
  Qed.

  (** [a && b]: when [a] is falsy or fails, the result is [false] resp. the
      failure of [a], and nothing of [b] runs. *)
  Theorem and_short_circuit ca cb lg sva lg1 va lg2 :
    pushes ca lg sva lg1 -> resolves sva lg1 va lg2 ->
    (is_err va = true \/ is_truthy va = false) ->
    forall st, exists f,
      loop' f E d (and_code ca cb) O st lg =
      (ROk (SVal (if is_err va then va else VBool false) :: st), lg2).
  Proof.
    intros [Hca Hpa] Hres Hcase st.
    destruct (Hpa st) as (fa & Ha).
    set (q := [ITest; IDup; IJmpCond false (Z.of_nat (length cb) + 1)] ++ cb ++ [IAnd]).
    destruct (embed [] ca q Hca fa O st lg (sva :: st) lg1 (Nat.le_0_l _) Ha) as (f1 & _ & Hrun).
    exists (f1 + 4)%nat. unfold and_code. fold q. specialize (Hrun 4%nat).
    change ([] ++ ca ++ q) with (ca ++ q) in Hrun. change (length (@nil instr) + 0)%nat with O in Hrun.
    change (length (@nil instr) + length ca)%nat with (length ca) in Hrun.
    rewrite Hrun. clear Hrun. unfold q.
    set (code := ca ++ [ITest; IDup; IJmpCond false (Z.of_nat (length cb) + 1)] ++ cb ++ [IAnd]).
    assert (N0 : nth_error code (length ca) = Some ITest) by (apply nth_after; reflexivity).
    assert (N1 : nth_error code (S (length ca)) = Some IDup).
    { unfold code. rewrite nth_error_app2 by lia. replace (S (length ca) - length ca)%nat with 1%nat by lia. reflexivity. }
    assert (N2 : nth_error code (S (S (length ca))) = Some (IJmpCond false (Z.of_nat (length cb) + 1))).
    { unfold code. rewrite nth_error_app2 by lia. replace (S (S (length ca)) - length ca)%nat with 2%nat by lia. reflexivity. }
    assert (Len : length code = (length ca + 3 + length cb + 1)%nat).
    { unfold code. rewrite !app_length. cbn. lia. }
    set (t := if is_err va then va else VBool false).
    assert (Ht : (if is_err va then (mret (None (A := Z), push va st)) else mret (None, push (VBool (is_truthy va)) st)) lg2
                 = (ROk (None, SVal t :: st), lg2)).
    { unfold t. destruct (is_err va) eqn:Ee; [reflexivity|].
      destruct Hcase as [Hx|Hx]; [discriminate|]. rewrite Hx. reflexivity. }
    assert (Tni : match t with VIdent _ => False | _ => True end).
    { unfold t. destruct (is_err va) eqn:Ee; [destruct va; try discriminate; exact I|exact I]. }
    assert (Tjmp : exists b, t = VBool false /\ b = tt \/ exists e, t = VErr e).
    { unfold t. destruct (is_err va) eqn:Ee; [destruct va; try discriminate; exists tt; right; eauto|exists tt; left; auto]. }
    rewrite loop_S, N0. cbn [step]. unfold mbind at 1. rewrite (Hres st). rewrite Ht.
    assert (Hend : nth_error code (S (S (S (length ca))) + Z.to_nat (Z.of_nat (length cb) + 1)) = None).
    { apply nth_error_None. rewrite Len. lia. }
    destruct Tjmp as (b & [[Et _]|[e Et]]); rewrite Et.
    - rewrite loop_S, N1. cbn [step]. unfold mbind, mret, push. cbn [pop_val pop into_value mbind mret].
      change (pop_val rs E d (SVal (VBool false) :: st) lg2) with (ROk (VBool false, st), lg2).
      rewrite loop_S, N2. cbn [step]. unfold mbind, mret.
      change (pop_val rs E d (SVal (VBool false) :: SVal (VBool false) :: st) lg2)
        with (ROk (VBool false, SVal (VBool false) :: st), lg2).
      cbn [Bool.eqb].
      rewrite jump_target_inside; [|lia|rewrite Len; lia].
      rewrite loop_S, Hend. reflexivity.
    - rewrite loop_S, N1. cbn [step]. unfold mbind, mret, push. cbn [pop_val pop into_value mbind mret].
      change (pop_val rs E d (SVal (VErr e) :: st) lg2) with (ROk (VErr e, st), lg2).
      rewrite loop_S, N2. cbn [step]. unfold mbind, mret.
      change (pop_val rs E d (SVal (VErr e) :: SVal (VErr e) :: st) lg2)
        with (ROk (VErr e, SVal (VErr e) :: st), lg2).
      lazy iota beta.
      rewrite jump_target_inside; [|lia|rewrite Len; lia].
      rewrite loop_S, Hend. reflexivity.
  Qed.

  Lemma nth_off {A} (p q : list A) k : nth_error (p ++ q) (length p + k) = nth_error q k.
  Proof. rewrite nth_error_app2 by lia. f_equal. lia. Qed.

  (** The value TEST leaves for an operand value. *)
  Definition tested (v : value) : value := if is_err v then v else VBool (is_truthy v).

  Lemma tested_plain v : match tested v with VIdent _ => False | _ => True end.
  Proof. unfold tested. destruct (is_err v) eqn:Ee; [destruct v; try discriminate; exact I|exact I]. Qed.

  (** TEST; DUP; JMP-if-w when the jump is not taken: the tested value stays on the stack. *)
  Lemma test_dup_nojump code k w dist sva lg1 va lg2 :
    nth_error code k = Some ITest -> nth_error code (S k) = Some IDup ->
    nth_error code (S (S k)) = Some (IJmpCond w dist) ->
    resolves sva lg1 va lg2 ->
    match tested va with VBool b => Bool.eqb b w = false | VErr _ => w = true | _ => False end ->
    forall f st, loop' (S (S (S f))) E d code k (sva :: st) lg1 =
                 loop' f E d code (S (S (S k))) (SVal (tested va) :: st) lg2.
  Proof.
    intros N0 N1 N2 Hra Hnj f st.
    assert (Ht : (if is_err va then (mret (None (A := Z), push va st)) else mret (None, push (VBool (is_truthy va)) st)) lg2
                 = (ROk (None, SVal (tested va) :: st), lg2)).
    { unfold tested. destruct (is_err va); reflexivity. }
    rewrite loop_S, N0. cbn [step]. unfold mbind at 1. rewrite (Hra st). rewrite Ht.
    destruct (tested va) as [| | |b| | | | | | | | | | |e] eqn:Et; try contradiction.
    - rewrite loop_S, N1. cbn [step]. unfold mbind, mret, push. cbn [pop_val pop into_value mbind mret].
      change (pop_val rs E d (SVal (VBool b) :: st) lg2) with (ROk (VBool b, st), lg2).
      rewrite loop_S, N2. cbn [step]. unfold mbind, mret.
      change (pop_val rs E d (SVal (VBool b) :: SVal (VBool b) :: st) lg2)
        with (ROk (VBool b, SVal (VBool b) :: st), lg2).
      lazy iota beta. rewrite Hnj. reflexivity.
    - subst w. rewrite loop_S, N1. cbn [step]. unfold mbind, mret, push. cbn [pop_val pop into_value mbind mret].
      change (pop_val rs E d (SVal (VErr e) :: st) lg2) with (ROk (VErr e, st), lg2).
      rewrite loop_S, N2. cbn [step]. unfold mbind, mret.
      change (pop_val rs E d (SVal (VErr e) :: SVal (VErr e) :: st) lg2)
        with (ROk (VErr e, SVal (VErr e) :: st), lg2).
      reflexivity.
  Qed.

  (** [a || b] when [a] does not decide: [b] is evaluated and the result is
      [or] of the tested left value and the right value (Ops.or_: true when
      either side is truthy, otherwise the failure / false). *)
  Theorem or_evaluates_rhs ca cb lg sva lg1 va lg2 svb lg3 vb lg4 :
    pushes ca lg sva lg1 -> resolves sva lg1 va lg2 ->
    (is_err va = true \/ is_truthy va = false) ->
    pushes cb lg2 svb lg3 -> resolves svb lg3 vb lg4 ->
    forall st, exists f, loop' f E d (or_code ca cb) O st lg = (ROk (SVal (or_ (tested va) vb) :: st), lg4).
  Proof.
    intros [Hca Hpa] Hra Hcase [Hcb Hpb] Hrb st.
    destruct (Hpa st) as (fa & Ha).
    set (pre := [ITest; IDup; IJmpCond true (Z.of_nat (length cb) + 1)]).
    set (q := pre ++ cb ++ [IOr]).
    destruct (embed [] ca q Hca fa O st lg (sva :: st) lg1 (Nat.le_0_l _) Ha) as (f1 & _ & Hrun1).
    set (t := tested va).
    destruct (Hpb (SVal t :: st)) as (fb & Hb).
    destruct (embed (ca ++ pre) cb [IOr] Hcb fb O (SVal t :: st) lg2 (svb :: SVal t :: st) lg3 (Nat.le_0_l _) Hb)
      as (f2 & _ & Hrun2).
    exists (f1 + (3 + (f2 + 2)))%nat. unfold or_code. fold pre. fold q.
    specialize (Hrun1 (3 + (f2 + 2))%nat).
    change ([] ++ ca ++ q) with (ca ++ q) in Hrun1. change (length (@nil instr) + 0)%nat with O in Hrun1.
    change (length (@nil instr) + length ca)%nat with (length ca) in Hrun1.
    rewrite Hrun1. clear Hrun1.
    assert (Ecode : ca ++ q = (ca ++ pre) ++ cb ++ [IOr]) by (unfold q; rewrite <- app_assoc; reflexivity).
    set (code := ca ++ q) in *.
    assert (N0 : nth_error code (length ca) = Some ITest).
    { unfold code. rewrite <- (Nat.add_0_r (length ca)), nth_off. reflexivity. }
    assert (N1 : nth_error code (S (length ca)) = Some IDup).
    { unfold code. replace (S (length ca)) with (length ca + 1)%nat by lia. rewrite nth_off. reflexivity. }
    assert (N2 : nth_error code (S (S (length ca))) = Some (IJmpCond true (Z.of_nat (length cb) + 1))).
    { unfold code. replace (S (S (length ca))) with (length ca + 2)%nat by lia. rewrite nth_off. reflexivity. }
    assert (Hnj : match tested va with VBool b => Bool.eqb b true = false | VErr _ => true = true | _ => False end).
    { unfold tested. destruct (is_err va) eqn:Ee; [destruct va; try discriminate; reflexivity|].
      destruct Hcase as [Hx|Hx]; [discriminate|]. rewrite Hx. reflexivity. }
    replace (3 + (f2 + 2))%nat with (S (S (S (f2 + 2)))) by lia.
    rewrite (test_dup_nojump code (length ca) true _ sva lg1 va lg2 N0 N1 N2 Hra Hnj). fold t.
    (* the right operand, embedded *)
    specialize (Hrun2 2%nat). rewrite <- Ecode in Hrun2. fold code in Hrun2.
    replace (length (ca ++ pre) + 0)%nat with (S (S (S (length ca)))) in Hrun2 by (rewrite app_length; cbn; lia).
    rewrite Hrun2. clear Hrun2.
    (* Or *)
    assert (N3 : nth_error code (length (ca ++ pre) + length cb) = Some IOr).
    { rewrite Ecode. rewrite nth_off. rewrite <- (Nat.add_0_r (length cb)), nth_off. reflexivity. }
    rewrite loop_S, N3. cbn [step]. unfold bin. unfold mbind at 1. rewrite (Hrb (SVal t :: st)).
    unfold mbind at 1. rewrite (resolves_plain t lg4 (tested_plain va) st). unfold mret, push.
    rewrite loop_S.
    replace (nth_error code (S (length (ca ++ pre) + length cb))) with (@None instr).
    2:{ symmetry. apply nth_error_None. rewrite Ecode, !app_length. cbn. lia. }
    reflexivity.
  Qed.

  (** ... and when the right operand fails hard, the whole expression fails with it. *)
  Theorem or_rhs_fails ca cb lg sva lg1 va lg2 e lg3 :
    pushes ca lg sva lg1 -> resolves sva lg1 va lg2 ->
    (is_err va = true \/ is_truthy va = false) ->
    fails cb lg2 e lg3 ->
    forall st, exists f, loop' f E d (or_code ca cb) O st lg = (RErr e, lg3).
  Proof.
    intros [Hca Hpa] Hra Hcase [Hcb Hpb] st.
    destruct (Hpa st) as (fa & Ha).
    set (pre := [ITest; IDup; IJmpCond true (Z.of_nat (length cb) + 1)]).
    set (q := pre ++ cb ++ [IOr]).
    destruct (embed [] ca q Hca fa O st lg (sva :: st) lg1 (Nat.le_0_l _) Ha) as (f1 & _ & Hrun1).
    set (t := tested va).
    destruct (Hpb (SVal t :: st)) as (fb & Hb).
    destruct (embed_err (ca ++ pre) cb [IOr] Hcb fb O (SVal t :: st) lg2 e lg3 (Nat.le_0_l _) Hb)
      as (f2 & _ & Hrun2).
    exists (f1 + (3 + (f2 + 0)))%nat. unfold or_code. fold pre. fold q.
    specialize (Hrun1 (3 + (f2 + 0))%nat).
    change ([] ++ ca ++ q) with (ca ++ q) in Hrun1. change (length (@nil instr) + 0)%nat with O in Hrun1.
    change (length (@nil instr) + length ca)%nat with (length ca) in Hrun1.
    rewrite Hrun1. clear Hrun1.
    assert (Ecode : ca ++ q = (ca ++ pre) ++ cb ++ [IOr]) by (unfold q; rewrite <- app_assoc; reflexivity).
    set (code := ca ++ q) in *.
    assert (N0 : nth_error code (length ca) = Some ITest).
    { unfold code. rewrite <- (Nat.add_0_r (length ca)), nth_off. reflexivity. }
    assert (N1 : nth_error code (S (length ca)) = Some IDup).
    { unfold code. replace (S (length ca)) with (length ca + 1)%nat by lia. rewrite nth_off. reflexivity. }
    assert (N2 : nth_error code (S (S (length ca))) = Some (IJmpCond true (Z.of_nat (length cb) + 1))).
    { unfold code. replace (S (S (length ca))) with (length ca + 2)%nat by lia. rewrite nth_off. reflexivity. }
    assert (Hnj : match tested va with VBool b => Bool.eqb b true = false | VErr _ => true = true | _ => False end).
    { unfold tested. destruct (is_err va) eqn:Ee; [destruct va; try discriminate; reflexivity|].
      destruct Hcase as [Hx|Hx]; [discriminate|]. rewrite Hx. reflexivity. }
    replace (3 + (f2 + 0))%nat with (S (S (S (f2 + 0)))) by lia.
    rewrite (test_dup_nojump code (length ca) true _ sva lg1 va lg2 N0 N1 N2 Hra Hnj). fold t.
    specialize (Hrun2 0%nat). rewrite <- Ecode in Hrun2. fold code in Hrun2.
    replace (length (ca ++ pre) + 0)%nat with (S (S (S (length ca)))) in Hrun2 by (rewrite app_length; cbn; lia).
    exact Hrun2.
  Qed.

  (* ---- single instructions on a stack whose top is not an identifier ---------- *)
  Definition plainv (v : value) : Prop := match v with VIdent _ => False | _ => True end.

  Lemma step_pop_plain v st lg : plainv v -> step rs E d IPop (SVal v :: st) lg = (ROk (None, st), lg).
  Proof. intros H. cbn [step]. unfold mbind. rewrite (resolves_plain v lg H st). reflexivity. Qed.
  Lemma step_dup_plain v st lg : plainv v ->
    step rs E d IDup (SVal v :: st) lg = (ROk (None, SVal v :: SVal v :: st), lg).
  Proof. intros H. cbn [step]. unfold mbind. rewrite (resolves_plain v lg H st). reflexivity. Qed.
  Lemma step_not_plain v st lg : plainv v ->
    step rs E d INot (SVal v :: st) lg = (ROk (None, SVal (not_ v) :: st), lg).
  Proof. intros H. cbn [step]. unfold un, mbind. rewrite (resolves_plain v lg H st). reflexivity. Qed.
  Lemma step_test st lg sv v lg' : resolves sv lg v lg' ->
    step rs E d ITest (sv :: st) lg = (ROk (None, SVal (tested v) :: st), lg').
  Proof. intros H. cbn [step]. unfold mbind. rewrite (H st). unfold tested. destruct (is_err v); reflexivity. Qed.
  Lemma step_jmpcond_bool w dist b st lg :
    step rs E d (IJmpCond w dist) (SVal (VBool b) :: st) lg =
    (ROk (if Bool.eqb b w then Some dist else None, st), lg).
  Proof. reflexivity. Qed.
  Lemma step_jmpcond_err w dist e st lg :
    step rs E d (IJmpCond w dist) (SVal (VErr e) :: st) lg =
    (ROk (if w then None else Some dist, st), lg).
  Proof. reflexivity. Qed.
  Lemma step_jmp dist st lg : step rs E d (IJmp dist) st lg = (ROk (Some dist, st), lg).
  Proof. reflexivity. Qed.

  (* ---- c ? x : y ------------------------------------------------------------------ *)
  Definition tern_code (cc ct cf : code) : code :=
    cc ++ [ITest; IDup; IJmpCond false (Z.of_nat (length ct) + 2); IPop] ++ ct ++
    [IJmp (Z.of_nat (length cf) + 4); IDup; INot; IJmpCond false (Z.of_nat (length cf) + 1); IPop] ++ cf.

  Section Tern.
    Variables cc ct cf : code.
    Let pre := [ITest; IDup; IJmpCond false (Z.of_nat (length ct) + 2); IPop].
    Let mid := [IJmp (Z.of_nat (length cf) + 4); IDup; INot; IJmpCond false (Z.of_nat (length cf) + 1); IPop].
    Let code := tern_code cc ct cf.
    Let n := length cc.

    Lemma tern_len : length code = (n + 4 + length ct + 5 + length cf)%nat.
    Proof. unfold code, tern_code, n. rewrite !app_length. cbn. lia. Qed.

    Lemma tern_pre k i : nth_error pre k = Some i -> nth_error code (n + k) = Some i.
    Proof.
      intros H. unfold code, tern_code, n. rewrite nth_off. unfold pre in *.
      rewrite nth_error_app1; [exact H|]. apply nth_error_Some. rewrite H. discriminate.
    Qed.
    Lemma tern_mid k i : nth_error mid k = Some i -> nth_error code (n + 4 + length ct + k) = Some i.
    Proof.
      intros H. unfold code, tern_code, n.
      replace (length cc + 4 + length ct + k)%nat with (length cc + (4 + (length ct + k)))%nat by lia.
      rewrite nth_off. unfold mid in *.
      match goal with |- nth_error (?p ++ ct ++ ?m ++ cf) _ = _ =>
        replace (4 + (length ct + k))%nat with (length p + (length ct + k))%nat by reflexivity end.
      rewrite nth_off, nth_off. rewrite nth_error_app1; [exact H|]. apply nth_error_Some. rewrite H. discriminate.
    Qed.
    Lemma tern_end : nth_error code (n + 4 + length ct + 5 + length cf) = None.
    Proof. apply nth_error_None. rewrite tern_len. lia. Qed.

    Lemma tern_embed_cc : closed cc -> forall fuel st lg st' lg',
      loop' fuel E d cc O st lg = (ROk st', lg') ->
      exists f1, forall extra, loop' (f1 + extra) E d code O st lg = loop' extra E d code n st' lg'.
    Proof.
      intros Hc fuel st lg st' lg' H.
      destruct (embed [] cc (pre ++ ct ++ mid ++ cf) Hc fuel O st lg st' lg' (Nat.le_0_l _) H) as (f1 & _ & Hr).
      exists f1. intros extra. specialize (Hr extra). exact Hr.
    Qed.

    Lemma tern_code_split_t : code = (cc ++ pre) ++ ct ++ (mid ++ cf).
    Proof. unfold code, tern_code. fold pre. fold mid. rewrite <- !app_assoc. reflexivity. Qed.
    Lemma tern_code_split_f : code = (cc ++ pre ++ ct ++ mid) ++ cf ++ [].
    Proof. unfold code, tern_code. fold pre. fold mid. rewrite app_nil_r, <- !app_assoc. reflexivity. Qed.

    (** condition truthy: exactly the then-branch runs; nothing depends on the else code *)
    Theorem tern_true lg sva lg1 va lg2 svt lg3 :
      pushes cc lg sva lg1 -> resolves sva lg1 va lg2 ->
      is_err va = false -> is_truthy va = true ->
      pushes ct lg2 svt lg3 ->
      forall st, exists f, loop' f E d code O st lg = (ROk (svt :: st), lg3).
    Proof.
      intros [Hcc Hpc] Hrc Hne Htr [Hct Hpt] st.
      destruct (Hpc st) as (fc & Hc).
      destruct (tern_embed_cc Hcc fc st lg (sva :: st) lg1 Hc) as (f1 & Hrun1).
      destruct (Hpt st) as (ft & Ht).
      destruct (embed (cc ++ pre) ct (mid ++ cf) Hct ft O st lg2 (svt :: st) lg3 (Nat.le_0_l _) Ht) as (f2 & _ & Hrun2).
      rewrite <- tern_code_split_t in Hrun2.
      replace (length (cc ++ pre) + 0)%nat with (n + 4)%nat in Hrun2 by (unfold n; rewrite app_length; cbn; lia).
      replace (length (cc ++ pre) + length ct)%nat with (n + 4 + length ct)%nat in Hrun2
        by (unfold n; rewrite app_length; cbn; lia).
      exists (f1 + (4 + (f2 + 2)))%nat. rewrite Hrun1.
      assert (Tv : tested va = VBool true) by (unfold tested; rewrite Hne, Htr; reflexivity).
      replace (4 + (f2 + 2))%nat with (S (S (S (S (f2 + 2))))) by lia.
      replace n with (n + 0)%nat at 1 by lia.
      rewrite loop_S, (tern_pre 0 ITest eq_refl), (step_test st lg1 sva va lg2 Hrc), Tv.
      replace (S (n + 0)) with (n + 1)%nat by lia.
      rewrite loop_S, (tern_pre 1 IDup eq_refl), step_dup_plain by exact I.
      replace (S (n + 1)) with (n + 2)%nat by lia.
      rewrite loop_S, (tern_pre 2 _ eq_refl), step_jmpcond_bool. cbn [Bool.eqb].
      replace (S (n + 2)) with (n + 3)%nat by lia.
      rewrite loop_S, (tern_pre 3 IPop eq_refl), step_pop_plain by exact I.
      replace (S (n + 3)) with (n + 4)%nat by lia.
      rewrite Hrun2.
      replace (n + 4 + length ct)%nat with (n + 4 + length ct + 0)%nat by lia.
      rewrite loop_S, (tern_mid 0 _ eq_refl), step_jmp.
      rewrite jump_target_inside; [|lia|rewrite tern_len; lia].
      replace (S (n + 4 + length ct + 0) + Z.to_nat (Z.of_nat (length cf) + 4))%nat
        with (n + 4 + length ct + 5 + length cf)%nat by lia.
      rewrite loop_S, tern_end. reflexivity.
    Qed.

    (** condition falsy: exactly the else-branch runs; nothing depends on the then code *)
    Theorem tern_false lg sva lg1 va lg2 svf lg3 :
      pushes cc lg sva lg1 -> resolves sva lg1 va lg2 ->
      is_err va = false -> is_truthy va = false ->
      pushes cf lg2 svf lg3 ->
      forall st, exists f, loop' f E d code O st lg = (ROk (svf :: st), lg3).
    Proof.
      intros [Hcc Hpc] Hrc Hne Htr [Hcf Hpf] st.
      destruct (Hpc st) as (fc & Hc).
      destruct (tern_embed_cc Hcc fc st lg (sva :: st) lg1 Hc) as (f1 & Hrun1).
      destruct (Hpf st) as (ff & Hf).
      destruct (embed (cc ++ pre ++ ct ++ mid) cf [] Hcf ff O st lg2 (svf :: st) lg3 (Nat.le_0_l _) Hf) as (f2 & _ & Hrun2).
      rewrite <- tern_code_split_f in Hrun2.
      assert (Lp : length (cc ++ pre ++ ct ++ mid) = (n + 4 + length ct + 5)%nat)
        by (unfold n; rewrite !app_length; cbn; lia).
      rewrite Lp in Hrun2. replace (n + 4 + length ct + 5 + 0)%nat with (n + 4 + length ct + 5)%nat in Hrun2 by lia.
      exists (f1 + (7 + (f2 + 1)))%nat. rewrite Hrun1.
      assert (Tv : tested va = VBool false) by (unfold tested; rewrite Hne, Htr; reflexivity).
      replace (7 + (f2 + 1))%nat with (S (S (S (S (S (S (S (f2 + 1)))))))) by lia.
      replace n with (n + 0)%nat at 1 by lia.
      rewrite loop_S, (tern_pre 0 ITest eq_refl), (step_test st lg1 sva va lg2 Hrc), Tv.
      replace (S (n + 0)) with (n + 1)%nat by lia.
      rewrite loop_S, (tern_pre 1 IDup eq_refl), step_dup_plain by exact I.
      replace (S (n + 1)) with (n + 2)%nat by lia.
      rewrite loop_S, (tern_pre 2 _ eq_refl), step_jmpcond_bool. cbn [Bool.eqb].
      rewrite jump_target_inside; [|lia|rewrite tern_len; lia].
      replace (S (n + 2) + Z.to_nat (Z.of_nat (length ct) + 2))%nat with (n + 4 + length ct + 1)%nat by lia.
      rewrite loop_S, (tern_mid 1 IDup eq_refl), step_dup_plain by exact I.
      replace (S (n + 4 + length ct + 1)) with (n + 4 + length ct + 2)%nat by lia.
      rewrite loop_S, (tern_mid 2 INot eq_refl), step_not_plain by exact I. cbn [not_ is_err is_truthy negb].
      replace (S (n + 4 + length ct + 2)) with (n + 4 + length ct + 3)%nat by lia.
      rewrite loop_S, (tern_mid 3 _ eq_refl), step_jmpcond_bool. cbn [Bool.eqb].
      replace (S (n + 4 + length ct + 3)) with (n + 4 + length ct + 4)%nat by lia.
      rewrite loop_S, (tern_mid 4 IPop eq_refl), step_pop_plain by exact I.
      replace (S (n + 4 + length ct + 4)) with (n + 4 + length ct + 5)%nat by lia.
      rewrite Hrun2.
      rewrite loop_S, tern_end. reflexivity.
    Qed.

    (** condition fails: the failure is the result and neither branch runs *)
    Theorem tern_cond_fails lg sva lg1 e lg2 :
      pushes cc lg sva lg1 -> resolves sva lg1 (VErr e) lg2 ->
      forall st, exists f, loop' f E d code O st lg = (ROk (SVal (VErr e) :: st), lg2).
    Proof.
      intros [Hcc Hpc] Hrc st.
      destruct (Hpc st) as (fc & Hc).
      destruct (tern_embed_cc Hcc fc st lg (sva :: st) lg1 Hc) as (f1 & Hrun1).
      exists (f1 + 7)%nat. rewrite Hrun1.
      assert (Tv : tested (VErr e) = VErr e) by reflexivity.
      replace 7%nat with (S (S (S (S (S (S (S O))))))) by lia.
      replace n with (n + 0)%nat at 1 by lia.
      rewrite loop_S, (tern_pre 0 ITest eq_refl), (step_test st lg1 sva (VErr e) lg2 Hrc), Tv.
      replace (S (n + 0)) with (n + 1)%nat by lia.
      rewrite loop_S, (tern_pre 1 IDup eq_refl), step_dup_plain by exact I.
      replace (S (n + 1)) with (n + 2)%nat by lia.
      rewrite loop_S, (tern_pre 2 _ eq_refl), step_jmpcond_err.
      rewrite jump_target_inside; [|lia|rewrite tern_len; lia].
      replace (S (n + 2) + Z.to_nat (Z.of_nat (length ct) + 2))%nat with (n + 4 + length ct + 1)%nat by lia.
      rewrite loop_S, (tern_mid 1 IDup eq_refl), step_dup_plain by exact I.
      replace (S (n + 4 + length ct + 1)) with (n + 4 + length ct + 2)%nat by lia.
      rewrite loop_S, (tern_mid 2 INot eq_refl), step_not_plain by exact I. cbn [not_ is_err].
      replace (S (n + 4 + length ct + 2)) with (n + 4 + length ct + 3)%nat by lia.
      rewrite loop_S, (tern_mid 3 _ eq_refl), step_jmpcond_err.
      rewrite jump_target_inside; [|lia|rewrite tern_len; lia].
      replace (S (n + 4 + length ct + 3) + Z.to_nat (Z.of_nat (length cf) + 1))%nat
        with (n + 4 + length ct + 5 + length cf)%nat by lia.
      rewrite loop_S, tern_end. reflexivity.
    Qed.
  End Tern.
End Blocks.
