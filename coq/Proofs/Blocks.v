(* Proofs/Blocks.v — composition of code blocks in the VM model: fuel
   monotonicity, embedding of a closed block at any offset of a larger block,
   and the block lemmas for the lazy operators (C05). *)
From Coq Require Import ZArith List Bool Lia Arith.
From Rscel Require Import Base.Prims Base.F64 Base.Text Model.Value Model.Ops Model.Dispatch Model.Funcs
     Model.Interp Spec.WfCode Proofs.VM.
Import ListNotations.
Open Scope Z_scope.

Section Blocks.
  Variable rs : runner.
  Variable E : env.
  Variable d : nat.

  Notation loop' := (loop rs).

  Lemma loop_S fuel c pc st lg :
    loop' (S fuel) E d c pc st lg =
    match nth_error c pc with
    | None => (ROk st, lg)
    | Some i =>
        match step rs E d i st lg with
        | (ROk (None, st'), lg') => loop' fuel E d c (S pc) st' lg'
        | (ROk (Some dd, st'), lg') =>
            match jump_target (S pc) dd (length c) with
            | Some pc' => loop' fuel E d c pc' st' lg'
            | None => (RErr ERuntime, lg')
            end
        | (RErr e, lg') => (RErr e, lg')
        | (RPanic, lg') => (RPanic, lg')
        | (RFuel, lg') => (RFuel, lg')
        | (RUnmod, lg') => (RUnmod, lg')
        end
    end.
  Proof.
    cbn [loop]. destruct (nth_error c pc) as [i|]; [|reflexivity].
    unfold mbind. destruct (step rs E d i st lg) as [[[j st']| | | |] lg']; try reflexivity.
    destruct j as [dd|]; [|reflexivity].
    destruct (jump_target (S pc) dd (length c)); reflexivity.
  Qed.

  (** More fuel does not change a result that is not "out of fuel". *)
  Lemma loop_mono : forall fuel c pc st lg r lg',
    loop' fuel E d c pc st lg = (r, lg') -> r <> RFuel ->
    forall extra, loop' (fuel + extra) E d c pc st lg = (r, lg').
  Proof.
    induction fuel as [|f IH]; intros c pc st lg r lg' H Hr extra.
    - cbn in H. inv H. congruence.
    - replace (S f + extra)%nat with (S (f + extra)) by lia. rewrite loop_S in *.
      destruct (nth_error c pc) as [i|]; [|exact H].
      destruct (step rs E d i st lg) as [[[j st1]| | | |] lg1]; try exact H.
      destruct j as [dd|].
      + destruct (jump_target (S pc) dd (length c)); [|exact H]. apply IH; assumption.
      + apply IH; assumption.
  Qed.

  (** A block is closed when all its jumps are forward and land inside it or at its end. *)
  Definition closed (c : code) : Prop :=
    forall pc i, nth_error c pc = Some i ->
      match i with
      | IJmp dd | IJmpCond _ dd => 0 <= dd /\ (S pc + Z.to_nat dd <= length c)%nat
      | _ => True
      end.

  Lemma jump_target_inside pc dd len :
    0 <= dd -> (S pc + Z.to_nat dd <= len)%nat -> jump_target (S pc) dd len = Some (S pc + Z.to_nat dd)%nat.
  Proof.
    intros H0 H1. unfold jump_target.
    replace ((Z.of_nat (S pc) + dd <? 0) || (Z.of_nat len <? Z.of_nat (S pc) + dd)) with false.
    2:{ symmetry. apply orb_false_iff. split; apply Z.ltb_ge; lia. }
    f_equal. lia.
  Qed.

  Lemma nth_error_embed {A} (p c q : list A) pc x :
    nth_error c pc = Some x -> nth_error (p ++ c ++ q) (length p + pc) = Some x.
  Proof.
    intros H. rewrite nth_error_app2 by lia. replace (length p + pc - length p)%nat with pc by lia.
    rewrite nth_error_app1; [exact H|]. apply nth_error_Some. congruence.
  Qed.

  (** Embedding: a closed block that runs to its end inside [c] alone runs the
      same way at any offset of a larger block, then control is at its end. *)
  Lemma embed p c q : closed c ->
    forall fuel pc st lg st' lg',
      (pc <= length c)%nat ->
      loop' fuel E d c pc st lg = (ROk st', lg') ->
      exists f1, (f1 <= fuel)%nat /\
        forall extra, loop' (f1 + extra) E d (p ++ c ++ q) (length p + pc) st lg =
                      loop' extra E d (p ++ c ++ q) (length p + length c) st' lg'.
  Proof.
    intros Hc. induction fuel as [|f IH]; intros pc st lg st' lg' Hpc H.
    - cbn in H. inv H.
    - rewrite loop_S in H. destruct (nth_error c pc) as [i|] eqn:Hn.
      + pose proof (Hc pc i Hn) as Hcl.
        destruct (step rs E d i st lg) as [[[j st1]| | | |] lg1] eqn:Hs; try discriminate H.
        assert (Hlt : (pc < length c)%nat) by (apply nth_error_Some; congruence).
        destruct j as [dd|].
        * (* a jump: it is Jmp dd or JmpCond _ dd *)
          pose proof (step_height rs E d i st lg (Some dd) st1 lg1 Hs) as (_ & _ & Hj).
          assert (Hrange : 0 <= dd /\ (S pc + Z.to_nat dd <= length c)%nat).
          { destruct i; cbn in Hj; try contradiction; subst; exact Hcl. }
          destruct Hrange as [H0 H1].
          rewrite (jump_target_inside pc dd (length c) H0 H1) in H.
          destruct (IH (S pc + Z.to_nat dd)%nat st1 lg1 st' lg' H1 H) as (f1 & Hf1 & Hrun).
          exists (S f1). split; [lia|]. intros extra.
          replace (S f1 + extra)%nat with (S (f1 + extra)) by lia. rewrite loop_S.
          rewrite (nth_error_embed p c q pc i Hn), Hs.
          rewrite (jump_target_inside (length p + pc) dd (length (p ++ c ++ q)) H0).
          2:{ rewrite !app_length. lia. }
          replace (S (length p + pc) + Z.to_nat dd)%nat with (length p + (S pc + Z.to_nat dd))%nat by lia.
          apply Hrun.
        * destruct (IH (S pc) st1 lg1 st' lg' Hlt H) as (f1 & Hf1 & Hrun).
          exists (S f1). split; [lia|]. intros extra.
          replace (S f1 + extra)%nat with (S (f1 + extra)) by lia. rewrite loop_S.
          rewrite (nth_error_embed p c q pc i Hn), Hs.
          replace (S (length p + pc)) with (length p + S pc)%nat by lia. apply Hrun.
      + inv H. apply nth_error_None in Hn. assert (pc = length c) by lia. subst pc.
        exists O. split; [lia|]. intros extra. reflexivity.
  Qed.

  (** ... and a closed block that fails (hard error) fails the larger block the same way. *)
  Lemma embed_err p c q : closed c ->
    forall fuel pc st lg e lg',
      (pc <= length c)%nat ->
      loop' fuel E d c pc st lg = (RErr e, lg') ->
      exists f1, (f1 <= fuel)%nat /\
        forall extra, loop' (f1 + extra) E d (p ++ c ++ q) (length p + pc) st lg = (RErr e, lg').
  Proof.
    intros Hc. induction fuel as [|f IH]; intros pc st lg e lg' Hpc H.
    - cbn in H. inv H.
    - rewrite loop_S in H. destruct (nth_error c pc) as [i|] eqn:Hn; [|discriminate H].
      pose proof (Hc pc i Hn) as Hcl.
      assert (Hlt : (pc < length c)%nat) by (apply nth_error_Some; congruence).
      destruct (step rs E d i st lg) as [[[j st1]| | | |] lg1] eqn:Hs; try discriminate H.
      + destruct j as [dd|].
        * pose proof (step_height rs E d i st lg (Some dd) st1 lg1 Hs) as (_ & _ & Hj).
          assert (Hrange : 0 <= dd /\ (S pc + Z.to_nat dd <= length c)%nat).
          { destruct i; cbn in Hj; try contradiction; subst; exact Hcl. }
          destruct Hrange as [H0 H1].
          rewrite (jump_target_inside pc dd (length c) H0 H1) in H.
          destruct (IH (S pc + Z.to_nat dd)%nat st1 lg1 e lg' H1 H) as (f1 & Hf1 & Hrun).
          exists (S f1). split; [lia|]. intros extra.
          replace (S f1 + extra)%nat with (S (f1 + extra)) by lia. rewrite loop_S.
          rewrite (nth_error_embed p c q pc i Hn), Hs.
          rewrite (jump_target_inside (length p + pc) dd (length (p ++ c ++ q)) H0).
          2:{ rewrite !app_length. lia. }
          replace (S (length p + pc) + Z.to_nat dd)%nat with (length p + (S pc + Z.to_nat dd))%nat by lia.
          apply Hrun.
        * destruct (IH (S pc) st1 lg1 e lg' Hlt H) as (f1 & Hf1 & Hrun).
          exists (S f1). split; [lia|]. intros extra.
          replace (S f1 + extra)%nat with (S (f1 + extra)) by lia. rewrite loop_S.
          rewrite (nth_error_embed p c q pc i Hn), Hs.
          replace (S (length p + pc)) with (length p + S pc)%nat by lia. apply Hrun.
      + inv H. exists 1%nat. split; [lia|]. intros extra. cbn [Nat.add]. rewrite loop_S.
        rewrite (nth_error_embed p c q pc i Hn), Hs. reflexivity.
  Qed.

  (** "Expression code": from any stack, the block pushes one stack value / fails. *)
  Definition pushes (c : code) (lg : log) (sv : sval) (lg' : log) : Prop :=
    closed c /\ forall st, exists f, loop' f E d c O st lg = (ROk (sv :: st), lg').
  Definition fails (c : code) (lg : log) (e : cel_error) (lg' : log) : Prop :=
    closed c /\ forall st, exists f, loop' f E d c O st lg = (RErr e, lg').

  (** How the consumer of a stack value sees it ([pop] resolves identifiers). *)
  Definition resolves (sv : sval) (lg : log) (v : value) (lg' : log) : Prop :=
    forall st, pop_val rs E d (sv :: st) lg = (ROk (v, st), lg').

  Lemma resolves_plain v lg : match v with VIdent _ => False | _ => True end -> resolves (SVal v) lg v lg.
  Proof. intros H st. destruct v; try reflexivity. destruct H. Qed.

  (* ---- a || b --------------------------------------------------------------- *)

  Definition or_code (ca cb : code) : code :=
    ca ++ [ITest; IDup; IJmpCond true (Z.of_nat (length cb) + 1)] ++ cb ++ [IOr].

  Definition and_code (ca cb : code) : code :=
    ca ++ [ITest; IDup; IJmpCond false (Z.of_nat (length cb) + 1)] ++ cb ++ [IAnd].

  Lemma nth_after {A} (p : list A) x q k : k = length p -> nth_error (p ++ x :: q) k = Some x.
  Proof. intros ->. rewrite nth_error_app2 by lia. rewrite Nat.sub_diag. reflexivity. Qed.

  (** Short circuit: when [a] is truthy, [a || b] is true and NOTHING of [b] runs:
      the result does not depend on what code [cb] is at all. *)
  Theorem or_short_circuit ca cb lg sva lg1 va lg2 :
    pushes ca lg sva lg1 -> resolves sva lg1 va lg2 ->
    is_err va = false -> is_truthy va = true ->
    forall st, exists f, loop' f E d (or_code ca cb) O st lg = (ROk (SVal (VBool true) :: st), lg2).
  Proof.
    intros [Hca Hpa] Hres Hne Htr st.
    destruct (Hpa st) as (fa & Ha).
    destruct (embed [] ca ([ITest; IDup; IJmpCond true (Z.of_nat (length cb) + 1)] ++ cb ++ [IOr]) Hca
                    fa O st lg (sva :: st) lg1 (Nat.le_0_l _) Ha) as (f1 & _ & Hrun).
    exists (f1 + 4)%nat. unfold or_code. specialize (Hrun 4%nat). cbn [app length Nat.add] in Hrun.
    rewrite Hrun. clear Hrun.
    set (code := ca ++ [ITest; IDup; IJmpCond true (Z.of_nat (length cb) + 1)] ++ cb ++ [IOr]).
    assert (N0 : nth_error code (length ca) = Some ITest) by (apply nth_after; reflexivity).
    assert (N1 : nth_error code (S (length ca)) = Some IDup).
    { unfold code. change (ca ++ [ITest; IDup; IJmpCond true (Z.of_nat (length cb) + 1)] ++ cb ++ [IOr])
        with (ca ++ ITest :: (IDup :: IJmpCond true (Z.of_nat (length cb) + 1) :: cb ++ [IOr])).
      rewrite nth_error_app2 by lia. replace (S (length ca) - length ca)%nat with 1%nat by lia. reflexivity. }
    assert (N2 : nth_error code (S (S (length ca))) = Some (IJmpCond true (Z.of_nat (length cb) + 1))).
    { unfold code. rewrite nth_error_app2 by lia. replace (S (S (length ca)) - length ca)%nat with 2%nat by lia. reflexivity. }
    assert (Len : length code = (length ca + 3 + length cb + 1)%nat).
    { unfold code. rewrite !app_length. cbn. lia. }
    (* Test *)
    rewrite loop_S, N0. cbn [step]. unfold mbind at 1. rewrite (Hres st). rewrite Hne. unfold mret at 1. rewrite Htr.
    (* Dup *)
    rewrite loop_S, N1. cbn [step]. unfold mbind, mret, push. cbn [pop_val pop into_value mbind mret].
    change (pop_val rs E d (SVal (VBool true) :: st) lg2) with (ROk (VBool true, st), lg2).
    (* JmpCond true *)
    rewrite loop_S, N2. cbn [step]. unfold mbind, mret.
    change (pop_val rs E d (SVal (VBool true) :: SVal (VBool true) :: st) lg2)
      with (ROk (VBool true, SVal (VBool true) :: st), lg2).
    cbn [Bool.eqb].
    rewrite jump_target_inside; [|lia|rewrite Len; lia].
    (* at the end of the block *)
    rewrite loop_S.
    replace (nth_error code (S (S (S (length ca))) + Z.to_nat (Z.of_nat (length cb) + 1))) with (@None instr).
    2:{ symmetry. apply nth_error_None. rewrite Len. lia. }
    reflexivity.
  Qed.

  (** [a && b]: when [a] is falsy or fails, the result is [false] resp. the
      failure of [a], and nothing of [b] runs. *)
  Theorem and_short_circuit ca cb lg sva lg1 va lg2 :
    pushes ca lg sva lg1 -> resolves sva lg1 va lg2 ->
    (is_err va = true \/ is_truthy va = false) ->
    forall st, exists f,
      loop' f E d (and_code ca cb) O st lg =
      (ROk (SVal (if is_err va then va else VBool false) :: st), lg2).
  Proof.
    intros [Hca Hpa] Hres Hcase st.
    destruct (Hpa st) as (fa & Ha).
    destruct (embed [] ca ([ITest; IDup; IJmpCond false (Z.of_nat (length cb) + 1)] ++ cb ++ [IAnd]) Hca
                    fa O st lg (sva :: st) lg1 (Nat.le_0_l _) Ha) as (f1 & _ & Hrun).
    exists (f1 + 4)%nat. unfold and_code. specialize (Hrun 4%nat). cbn [app length Nat.add] in Hrun.
    rewrite Hrun. clear Hrun.
    set (code := ca ++ [ITest; IDup; IJmpCond false (Z.of_nat (length cb) + 1)] ++ cb ++ [IAnd]).
    assert (N0 : nth_error code (length ca) = Some ITest) by (apply nth_after; reflexivity).
    assert (N1 : nth_error code (S (length ca)) = Some IDup).
    { unfold code. rewrite nth_error_app2 by lia. replace (S (length ca) - length ca)%nat with 1%nat by lia. reflexivity. }
    assert (N2 : nth_error code (S (S (length ca))) = Some (IJmpCond false (Z.of_nat (length cb) + 1))).
    { unfold code. rewrite nth_error_app2 by lia. replace (S (S (length ca)) - length ca)%nat with 2%nat by lia. reflexivity. }
    assert (Len : length code = (length ca + 3 + length cb + 1)%nat).
    { unfold code. rewrite !app_length. cbn. lia. }
    set (t := if is_err va then va else VBool false).
    assert (Ht : (if is_err va then (mret (None (A := Z), push va st)) else mret (None, push (VBool (is_truthy va)) st)) lg2
                 = (ROk (None, SVal t :: st), lg2)).
    { unfold t. destruct (is_err va) eqn:Ee; [reflexivity|].
      destruct Hcase as [Hx|Hx]; [discriminate|]. rewrite Hx. reflexivity. }
    assert (Tni : match t with VIdent _ => False | _ => True end).
    { unfold t. destruct (is_err va) eqn:Ee; [destruct va; try discriminate; exact I|exact I]. }
    assert (Tjmp : exists b, t = VBool false /\ b = tt \/ exists e, t = VErr e).
    { unfold t. destruct (is_err va) eqn:Ee; [destruct va; try discriminate; exists tt; right; eauto|exists tt; left; auto]. }
    rewrite loop_S, N0. cbn [step]. unfold mbind at 1. rewrite (Hres st). rewrite Ht.
    rewrite loop_S, N1. cbn [step]. unfold mbind at 1. rewrite (resolves_plain t lg2 Tni st).
    unfold mret at 1, push.
    rewrite loop_S, N2. cbn [step]. unfold mbind at 1. rewrite (resolves_plain t lg2 Tni (SVal t :: st)).
    assert (Hj : (match t with
                  | VBool b => mret (if Bool.eqb b false then Some (Z.of_nat (length cb) + 1) else None, SVal t :: st)
                  | VErr _ => mret (if false then None else Some (Z.of_nat (length cb) + 1), SVal t :: st)
                  | _ => mfail EInvalidOp
                  end) lg2 = (ROk (Some (Z.of_nat (length cb) + 1), SVal t :: st), lg2)).
    { destruct Tjmp as (b & [[-> _]|[e ->]]); reflexivity. }
    rewrite Hj.
    rewrite jump_target_inside; [|lia|rewrite Len; lia].
    rewrite loop_S.
    replace (nth_error code (S (S (S (length ca))) + Z.to_nat (Z.of_nat (length cb) + 1))) with (@None instr).
    2:{ symmetry. apply nth_error_None. rewrite Len. lia. }
    reflexivity.
  Qed.
End Blocks.
