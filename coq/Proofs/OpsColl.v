(* Proofs/OpsColl.v — C06: indexing (incl. negative), membership, substring,
   size, and map literals where the last entry of a repeated key wins. *)
From Coq Require Import ZArith List Bool Lia.
From Rscel Require Import Base.Prims Base.F64 Base.Text Model.Value Model.Ops Model.Dispatch Model.Funcs
     Model.Interp Model.Compile Spec.Wf.
From Rscel Require Import Proofs.OpsOrder.
Import ListNotations.
Import Coq.Strings.String.StringSyntax.
Open Scope Z_scope.

Ltac inv H := inversion H; subst; clear H.

(** [znth] is [nth_error] on the valid range and [None] outside it. *)
Lemma znth_spec {A} : forall (l : list A) i,
  znth l i = if (0 <=? i) && (i <? zlen l) then nth_error l (Z.to_nat i) else None.
Proof.
  induction l as [|x l IH]; intros i; cbn [znth].
  - unfold zlen; cbn. destruct (0 <=? i) eqn:HA; cbn; [|reflexivity].
    destruct (i <? 0) eqn:HB; [|reflexivity]. apply Z.leb_le in HA. apply Z.ltb_lt in HB. lia.
  - unfold zlen in *. cbn [length]. rewrite Nat2Z.inj_succ.
    destruct (Z.eqb_spec i 0) as [->|Hn].
    + cbn. destruct (Z.ltb_spec 0 (Z.succ (Z.of_nat (length l)))); [reflexivity|lia].
    + destruct (Z.ltb_spec i 0) as [Hneg|Hpos].
      * destruct (Z.leb_spec 0 i); [lia|reflexivity].
      * rewrite IH. destruct (Z.leb_spec 0 i); [|lia].
        destruct (Z.leb_spec 0 (i - 1)); [|lia]. cbn [andb].
        destruct (Z.ltb_spec (i - 1) (Z.of_nat (length l))), (Z.ltb_spec i (Z.succ (Z.of_nat (length l)))); try lia;
          [|reflexivity].
        replace (Z.to_nat i) with (S (Z.to_nat (i - 1))) by lia. reflexivity.
Qed.

(** l[i]: the i-th element for 0 <= i < size, the (size+i)-th for
    -size <= i < 0, an error outside that range. *)
Theorem index_list_int : forall l i,
  let j := if i <? 0 then zlen l + i else i in
  index (VList l) (VInt i) =
    if (0 <=? j) && (j <? zlen l)
    then match nth_error l (Z.to_nat j) with Some v => v | None => VErr EValue end
    else VErr EValue.
Proof.
  intros l i j. unfold index, error_prop_or. cbn [is_err]. fold j.
  rewrite znth_spec.
  destruct (Z.ltb_spec j 0) as [Hn|Hp].
  - destruct (Z.leb_spec 0 j); [lia|reflexivity].
  - destruct (Z.leb_spec 0 j); [|lia]. cbn [andb]. destruct (j <? zlen l); reflexivity.
Qed.

Theorem index_list_uint : forall l i,
  index (VList l) (VUInt i) =
    if (0 <=? i) && (i <? zlen l)
    then match nth_error l (Z.to_nat i) with Some v => v | None => VErr EValue end
    else VErr EValue.
Proof.
  intros l i. unfold index, error_prop_or. cbn [is_err]. rewrite znth_spec.
  destruct ((0 <=? i) && (i <? zlen l)); reflexivity.
Qed.

(** The element exists whenever the index is in range (no silent default). *)
Lemma nth_error_in_range {A} (l : list A) j : 0 <= j < zlen l -> exists v, nth_error l (Z.to_nat j) = Some v.
Proof.
  intros H. unfold zlen in H. destruct (nth_error l (Z.to_nat j)) eqn:E; [eauto|].
  apply nth_error_None in E. lia.
Qed.

Theorem index_list_other_is_error : forall l k,
  match k with VInt _ | VUInt _ | VErr _ => True | _ => index (VList l) k = VErr EValue end.
Proof. intros l k. destruct k; try exact I; reflexivity. Qed.

(** m[k] and m.k: the stored value or an absent-field error; other key types are errors. *)
Theorem index_map : forall m k,
  index (VMap m) (VString k) = match map_get m k with Some v => v | None => VErr (EAttribute k) end /\
  access (VMap m) k = match map_get m k with Some v => v | None => VErr (EAttribute k) end.
Proof. intros; split; reflexivity. Qed.

Theorem index_map_other_is_error : forall m k,
  match k with VString _ | VErr _ => True | _ => index (VMap m) k = VErr EValue end.
Proof. intros m k. destruct k; try exact I; reflexivity. Qed.

Theorem index_non_collection_is_error : forall o k,
  is_err o = false -> is_err k = false ->
  match o with VList _ | VMap _ => True | _ => index o k = VErr EValue end.
Proof. intros o k Ho Hk. destruct o; try exact I; unfold index, error_prop_or; rewrite ?Ho, Hk; try reflexivity; discriminate Ho. Qed.

(** [in]: list membership (structural equality), key presence, substring; an error otherwise. *)
Theorem in_spec : forall a b, is_err a = false -> is_err b = false ->
  in_ a b =
    match b with
    | VList l => VBool (existsb (fun v => peq a v) l)
    | VMap m => match a with
                | VString k => VBool (match map_get m k with Some _ => true | None => false end)
                | _ => VErr EInvalidOp end
    | VString s => match a with VString n => VBool (contains n s) | _ => VErr EInvalidOp end
    | _ => VErr EInvalidOp
    end.
Proof. intros a b Ha Hb. unfold in_, error_prop_or. rewrite Ha, Hb. reflexivity. Qed.

(** [contains] is the substring relation. *)
Lemma is_prefix_spec p : forall s, is_prefix p s = true <-> exists post, s = p ++ post.
Proof.
  induction p as [|x p IH]; intros s; cbn.
  - split; [intros _; exists s; reflexivity|reflexivity].
  - destruct s as [|y s]; [split; [discriminate|intros [post H]; discriminate]|].
    rewrite andb_true_iff, Z.eqb_eq, IH. split.
    + intros [-> [post ->]]. exists post. reflexivity.
    + intros [post H]. inv H. split; [reflexivity|eauto].
Qed.

Theorem contains_spec n : forall s, contains n s = true <-> exists pre post, s = pre ++ n ++ post.
Proof.
  induction s as [|y s IH]; cbn [contains].
  - rewrite orb_false_r, is_prefix_spec. split.
    + intros [post H]. exists [], post. exact H.
    + intros (pre & post & H). destruct pre; cbn in H; [eauto|discriminate].
  - rewrite orb_true_iff, is_prefix_spec, IH. split.
    + intros [[post H]|(pre & post & H)].
      * exists [], post. exact H.
      * exists (y :: pre), post. cbn. congruence.
    + intros (pre & post & H). destruct pre as [|z pre]; cbn in H.
      * left. eauto.
      * right. inv H. eauto.
Qed.

(** size: the element count (UTF-8 byte length for strings), in function and method form. *)
Theorem size_spec : forall now s l,
  call_default now #"size" VNull [VString s] = Some (ROk (VUInt (zlen s))) /\
  call_default now #"size" (VString s) [] = Some (ROk (VUInt (zlen s))) /\
  call_default now #"size" VNull [VBytes s] = Some (ROk (VUInt (zlen s))) /\
  call_default now #"size" (VBytes s) [] = Some (ROk (VUInt (zlen s))) /\
  call_default now #"size" VNull [VList l] = Some (ROk (VUInt (zlen l))) /\
  call_default now #"size" (VList l) [] = Some (ROk (VUInt (zlen l))).
Proof. intros. repeat split; reflexivity. Qed.

(* ---- map literals --------------------------------------------------------- *)

Lemma bytes_cmp_gt_lt a b : bytes_cmp a b = Gt -> bytes_cmp b a = Lt.
Proof. intros H. rewrite bytes_cmp_antisym, H. reflexivity. Qed.

Lemma bytes_eqb_false_of_cmp a b : bytes_cmp a b <> Eq -> bytes_eqb a b = false.
Proof. intros H. rewrite bytes_eqb_cmp. destruct (bytes_cmp a b); congruence. Qed.

Fixpoint keys_above {A} (k : bytes) (m : list (bytes * A)) : Prop :=
  match m with [] => True | (k', _) :: r => bytes_cmp k k' = Lt /\ keys_above k r end.

Fixpoint smap {A} (m : list (bytes * A)) : Prop :=      (* strictly sorted by key *)
  match m with [] => True | (k, _) :: r => keys_above k r /\ smap r end.

Lemma keys_above_trans {A} k k' (m : list (bytes * A)) : bytes_cmp k k' = Lt -> keys_above k' m -> keys_above k m.
Proof.
  induction m as [|[k2 v2] m IH]; cbn; [auto|]. intros H [H1 H2]. split; [|auto].
  eapply bytes_cmp_lt_trans; eauto.
Qed.

Lemma map_get_above {A} k (m : list (bytes * A)) : keys_above k m -> map_get m k = None.
Proof.
  induction m as [|[k2 v2] m IH]; cbn; [auto|]. intros [H1 H2].
  rewrite bytes_eqb_false_of_cmp by congruence. auto.
Qed.

Lemma map_insert_above {A} k0 k (v : A) m : bytes_cmp k0 k = Lt -> keys_above k0 m -> keys_above k0 (map_insert m k v).
Proof.
  induction m as [|[k2 v2] m IH]; cbn; intros H Ha.
  - auto.
  - destruct Ha as [H1 H2]. destruct (bytes_cmp k k2) eqn:C; cbn; auto.
Qed.

Lemma map_insert_sorted {A} k (v : A) m : smap m -> smap (map_insert m k v).
Proof.
  induction m as [|[k2 v2] m IH]; cbn; intros Hs; [auto|].
  destruct Hs as [Ha Hs]. destruct (bytes_cmp k k2) eqn:C; cbn.
  - apply bytes_cmp_eq in C. subst. auto.
  - split; [split; [assumption|eapply keys_above_trans; eauto]|auto].
  - split; [|auto]. apply map_insert_above; [apply bytes_cmp_gt_lt; assumption|assumption].
Qed.

(** Lookup after insertion: the inserted key maps to the new value, every other key is unchanged. *)
Lemma map_get_insert {A} k (v : A) m k' : smap m ->
  map_get (map_insert m k v) k' = if bytes_eqb k' k then Some v else map_get m k'.
Proof.
  induction m as [|[k2 v2] m IH]; cbn; intros Hs.
  - destruct (bytes_eqb k' k); reflexivity.
  - destruct Hs as [Ha Hs]. destruct (bytes_cmp k k2) eqn:C; cbn.
    + apply bytes_cmp_eq in C. subst. destruct (bytes_eqb k' k2); reflexivity.
    + destruct (bytes_eqb k' k); reflexivity.
    + destruct (bytes_eqb k' k2) eqn:E2.
      * apply bytes_eqb_eq in E2. subst.
        rewrite bytes_eqb_false_of_cmp; [reflexivity|]. rewrite bytes_cmp_antisym, C. discriminate.
      * apply IH. assumption.
Qed.

(** The value a key has in a literal: the one of its last entry. *)
Fixpoint last_entry (pairs : list (bytes * value)) (k : bytes) (acc : option value) : option value :=
  match pairs with
  | [] => acc
  | (k', v) :: r => last_entry r k (if bytes_eqb k k' then Some v else acc)
  end.

Definition build_map (pairs : list (bytes * value)) : list (bytes * value) :=
  fold_left (fun m kv => map_insert m (fst kv) (snd kv)) pairs [].

Lemma build_map_acc pairs : forall m k, smap m ->
  smap (fold_left (fun m kv => map_insert m (fst kv) (snd kv)) pairs m) /\
  map_get (fold_left (fun m kv => map_insert m (fst kv) (snd kv)) pairs m) k = last_entry pairs k (map_get m k).
Proof.
  induction pairs as [|[k1 v1] r IH]; intros m k Hs; cbn.
  - auto.
  - destruct (IH (map_insert m k1 v1) k (map_insert_sorted k1 v1 m Hs)) as [A B].
    split; [assumption|]. rewrite B, map_get_insert by assumption. reflexivity.
Qed.

(** For a repeated key the last entry wins; the result is sorted (canonical). *)
Theorem map_literal_last_wins : forall pairs k,
  map_get (build_map pairs) k = last_entry pairs k None /\ smap (build_map pairs).
Proof.
  intros pairs k. destruct (build_map_acc pairs [] k I) as [A B]. split; assumption.
Qed.

(** The compiler's constant folding of a map literal computes the same map as
    the VM's MkDict ([build_map] of the entries in source order). *)
Fixpoint interleave (pairs : list (bytes * value)) : list value :=
  match pairs with [] => [] | (k, v) :: r => v :: VString k :: interleave r end.

Theorem const_map_is_build_map : forall pairs acc,
  const_map (interleave pairs) acc = VMap (fold_left (fun m kv => map_insert m (fst kv) (snd kv)) pairs acc).
Proof.
  induction pairs as [|[k v] r IH]; intros acc; cbn; [reflexivity|]. apply IH.
Qed.

(* ---- the VM instructions that build literals -------------------------------- *)

Definition not_ident (v : value) : Prop := match v with VIdent _ => False | _ => True end.

Lemma pop_val_plain rs E d v st lg : not_ident v -> pop_val rs E d (SVal v :: st) lg = (ROk (v, st), lg).
Proof. intros H. destruct v; try reflexivity. destruct H. Qed.

Lemma pop_n_vals rs E d : forall vs st lg,
  Forall not_ident vs -> pop_n rs E d (length vs) (map SVal vs ++ st) lg = (ROk (vs, st), lg).
Proof.
  induction vs as [|v vs IH]; intros st lg Hf; [reflexivity|].
  inversion Hf as [|? ? Hv Hr]; subst. cbn [length pop_n map app].
  unfold mbind. rewrite pop_val_plain by assumption. rewrite IH by assumption. reflexivity.
Qed.

(** MkList: the list holds exactly the values pushed, in push (= source) order. *)
Theorem mklist_spec : forall rs E d vs st lg,
  Forall not_ident vs ->
  step rs E d (IMkList (zlen vs)) (map SVal (rev vs) ++ st) lg = (ROk (None, SVal (VList vs) :: st), lg).
Proof.
  intros rs E d vs st lg Hf. cbn [step]. unfold zlen. rewrite Nat2Z.id.
  unfold mbind. rewrite <- (rev_length vs).
  rewrite pop_n_vals by (apply Forall_rev; assumption).
  unfold mret, push. rewrite rev_involutive. reflexivity.
Qed.

(** MkDict: stack (top first) kn, vn, ..., k1, v1 for the entries (k1,v1)..(kn,vn)
    in source order; the result is [build_map] of the entries: last entry wins. *)
Fixpoint dict_stack (pairs_rev : list (bytes * value)) : stack :=
  match pairs_rev with
  | [] => []
  | (k, v) :: r => SVal (VString k) :: SVal v :: dict_stack r
  end.

(** the same stack with arbitrary key values *)
Fixpoint dict_stack_v (pairs_rev : list (value * value)) : stack :=
  match pairs_rev with
  | [] => []
  | (k, v) :: r => SVal k :: SVal v :: dict_stack_v r
  end.
Definition is_str (v : value) : bool := match v with VString _ => true | _ => false end.
Definition str_entries (prs : list (value * value)) : list (bytes * value) :=
  flat_map (fun kv => match fst kv with VString s => [(s, snd kv)] | _ => [] end) prs.

Lemma mkdict_general rs E d st : forall prs acc bad lg,
  Forall (fun kv => not_ident (fst kv) /\ not_ident (snd kv)) prs ->
  (fix go (k : nat) (st0 : stack) (acc0 : list (bytes * value)) (bad0 : bool) {struct k} : M (option Z * stack) :=
     match k with
     | O => if bad0 then mret (None, push (VErr EValue) st0)
            else mret (None, push (VMap (fold_left (fun m kv => map_insert m (fst kv) (snd kv)) acc0 [])) st0)
     | S k' =>
         mbind (pop_val rs E d st0) (fun rk => let '(key, st1) := rk in
         mbind (pop_val rs E d st1) (fun rv => let '(v, st2) := rv in
         match key with
         | VString s => go k' st2 ((s, v) :: acc0) bad0
         | _ => go k' st2 acc0 true
         end))
     end) (length prs) (dict_stack_v prs ++ st) acc bad lg =
  (ROk (None, SVal (if bad || negb (forallb is_str (map fst prs)) then VErr EValue
                    else VMap (fold_left (fun m kv => map_insert m (fst kv) (snd kv)) (rev (str_entries prs) ++ acc) [])) :: st), lg).
Proof.
  induction prs as [|[k v] prs IH]; intros acc bad lg Hp.
  - cbn. rewrite orb_false_r. destruct bad; reflexivity.
  - inversion Hp as [|? ? [Hk Hv] Hr]; subst. cbn [length dict_stack_v app fst snd] in *.
    unfold mbind at 1. rewrite pop_val_plain by exact Hk.
    unfold mbind at 1. rewrite pop_val_plain by exact Hv.
    destruct k; rewrite IH by assumption; cbn [map fst forallb is_str andb negb orb str_entries flat_map app rev];
      rewrite ?orb_true_r, ?orb_true_l; try reflexivity.
    fold (str_entries prs). cbn [snd]. rewrite <- app_assoc. reflexivity.
Qed.

Lemma dict_stack_as_v prs : dict_stack prs = dict_stack_v (map (fun kv => (VString (fst kv), snd kv)) prs).
Proof. induction prs as [|[k v] r IH]; [reflexivity|]. cbn. rewrite IH. reflexivity. Qed.

Theorem mkdict_spec : forall rs E d pairs st lg,
  Forall (fun kv => not_ident (snd kv)) pairs ->
  step rs E d (IMkDict (zlen pairs)) (dict_stack (rev pairs) ++ st) lg =
    (ROk (None, SVal (VMap (build_map pairs)) :: st), lg).
Proof.
  intros rs E d pairs st lg Hf. cbn [step]. unfold zlen. rewrite Nat2Z.id.
  rewrite <- (rev_length pairs). rewrite dict_stack_as_v.
  rewrite <- (map_length (fun kv => (VString (fst kv), snd kv)) (rev pairs)).
  rewrite mkdict_general.
  - cbn [orb]. rewrite map_map. cbn [fst].
    replace (forallb is_str (map (fun x => VString (fst x)) (rev pairs))) with true
      by (symmetry; apply forallb_forall; intros x Hx; apply in_map_iff in Hx; destruct Hx as (y & <- & _); reflexivity).
    cbn [negb]. rewrite app_nil_r.
    replace (str_entries (map (fun kv => (VString (fst kv), snd kv)) (rev pairs))) with (rev pairs).
    + rewrite rev_involutive. reflexivity.
    + generalize (rev pairs) as l. induction l as [|[k v] l IHl]; [reflexivity|]. cbn. f_equal. exact IHl.
  - apply Forall_forall. intros x Hx. apply in_map_iff in Hx. destruct Hx as ([k v] & <- & Hy). cbn. split; [exact I|].
    rewrite Forall_forall in Hf. apply (Hf (k, v)). apply in_rev. exact Hy.
Qed.

(** the constant folder on arbitrary keys *)
Fixpoint interleave_v (prs : list (value * value)) : list value :=
  match prs with [] => [] | (k, v) :: r => v :: k :: interleave_v r end.

Lemma const_map_v : forall prs acc,
  const_map (interleave_v prs) acc =
  if forallb is_str (map fst prs) then VMap (fold_left (fun m kv => map_insert m (fst kv) (snd kv)) (str_entries prs) acc)
  else VErr EValue.
Proof.
  induction prs as [|[k v] r IH]; intros acc; [reflexivity|].
  cbn [interleave_v map fst forallb]. destruct k; cbn [const_map is_str andb]; try reflexivity.
  rewrite IH. cbn [str_entries flat_map fst snd app]. fold (str_entries r). reflexivity.
Qed.

Lemma str_entries_app a b : str_entries (a ++ b) = str_entries a ++ str_entries b.
Proof. unfold str_entries. apply flat_map_app. Qed.

Lemma str_entries_rev prs : str_entries (rev prs) = rev (str_entries prs).
Proof.
  induction prs as [|[k v] r IH]; [reflexivity|]. cbn [rev]. rewrite str_entries_app, IH.
  cbn [str_entries flat_map fst snd]. destruct k; cbn [app rev]; rewrite ?app_nil_r; try reflexivity.
Qed.

Lemma forallb_rev {A} (f : A -> bool) l : forallb f (rev l) = forallb f l.
Proof.
  induction l as [|x l IH]; [reflexivity|]. cbn [rev forallb]. rewrite forallb_app, IH. cbn. rewrite andb_true_r. apply andb_comm.
Qed.

(** Map literals, any keys: the VM's MkDict leaves exactly the value the
    compiler's folder computes for the same entries: the same map (the last
    entry of a repeated key wins) or, when some key is not a string, the same
    error value. *)
Theorem mkdict_equals_folder : forall rs E d prs st lg,
  Forall (fun kv => not_ident (fst kv) /\ not_ident (snd kv)) prs ->
  step rs E d (IMkDict (zlen prs)) (dict_stack_v (rev prs) ++ st) lg =
    (ROk (None, SVal (const_map (interleave_v prs) []) :: st), lg).
Proof.
  intros rs E d prs st lg Hf. cbn [step]. unfold zlen. rewrite Nat2Z.id. rewrite <- (rev_length prs).
  rewrite mkdict_general by (apply Forall_rev; exact Hf).
  rewrite const_map_v. cbn [orb]. rewrite map_rev, forallb_rev.
  destruct (forallb is_str (map fst prs)); cbn [negb]; [|reflexivity].
  rewrite str_entries_rev, rev_involutive, app_nil_r. reflexivity.
Qed.

(** A key that is not a string makes the whole literal an error *value* (every
    entry is still taken off the stack): the VM agrees with the compiler's folding. *)
Theorem mkdict_bad_key : forall rs E d prs st lg,
  Forall (fun kv => not_ident (fst kv) /\ not_ident (snd kv)) prs ->
  forallb is_str (map fst prs) = false ->
  step rs E d (IMkDict (zlen prs)) (dict_stack_v prs ++ st) lg = (ROk (None, SVal (VErr EValue) :: st), lg).
Proof.
  intros rs E d prs st lg Hf Hb. cbn [step]. unfold zlen. rewrite Nat2Z.id.
  rewrite mkdict_general by assumption. rewrite Hb. reflexivity.
Qed.
