(* Proofs/ParseBounds.v — C18: positions through the parser.  The tokenizer hands out tokens in order; every
   node of a parsed tree lies between the position where its parser started and the position where it
   stopped; hence bracketed nodes contain their contents and siblings follow one another without overlap. *)
From Coq Require Import ZArith List Bool Lia.
From Rscel Require Import Base.Prims Base.F64 Base.Text Model.Value Model.Funcs Model.Lexer Model.Ast Model.Parser
     Proofs.Spans Proofs.LexFwd Proofs.ParseTp.
Import ListNotations.
Open Scope Z_scope.

(** where the input that has not been consumed begins *)
Definition front (t : tokenizer) : loc :=
  match tz_cur t with Some x => r_start (t_loc x) | None => sc_loc (tz_scan t) end.
(** a buffered token ends where the scanner stands *)
Definition tzinv (t : tokenizer) : Prop :=
  match tz_cur t with Some x => well_ordered (t_loc x) /\ r_end (t_loc x) = sc_loc (tz_scan t) | None => True end.

Lemma tzinv_init src : tzinv (tz_init src).
Proof. exact I. Qed.

Lemma tz_collect_some t x s eof : tz_collect t = (LOk (Some x) s, eof) ->
  loc_le (sc_loc (tz_scan t)) (r_start (t_loc x)) /\ well_ordered (t_loc x) /\ r_end (t_loc x) = sc_loc s.
Proof.
  unfold tz_collect. destruct (tz_eof t); [discriminate|].
  destruct (collect_token (tz_scan t)) as [[y|] s1| |] eqn:C; try discriminate.
  intros H. injection H as <- <- _. destruct (collect_token_span _ _ _ C) as (_ & A & B & D). auto.
Qed.
Lemma tz_collect_none t s eof : tz_collect t = (LOk None s, eof) -> loc_le (sc_loc (tz_scan t)) (sc_loc s).
Proof.
  unfold tz_collect. destruct (tz_eof t); [intros H; injection H as <- _; apply loc_le_refl|].
  destruct (collect_token (tz_scan t)) as [[y|] s1| |] eqn:C; try discriminate.
  intros H. injection H as <- _. apply fwd_le. eapply collect_token_fwd; eauto.
Qed.

Lemma peek_ok t o t' : tzinv t -> peek t = POk o t' -> tzinv t' /\ loc_le (front t) (front t').
Proof.
  unfold peek, tz_peek, tzinv, front. intros Hi. destruct (tz_cur t) as [x|] eqn:Cu.
  - intros H. injection H as <- <-. rewrite Cu. split; [exact Hi|apply loc_le_refl].
  - destruct (tz_collect t) as [[o1 s| |] eof] eqn:C; try discriminate. intros H. injection H as <- <-. cbn [tz_cur tz_scan].
    destruct o1 as [x|].
    + destruct (tz_collect_some _ _ _ _ C) as (A & B & D). split; [split; assumption|exact A].
    + split; [exact I|eapply tz_collect_none; eauto].
Qed.

Lemma next_some t x t' : tzinv t -> next t = POk (Some x) t' ->
  tzinv t' /\ loc_le (front t) (r_start (t_loc x)) /\ well_ordered (t_loc x) /\ loc_le (r_end (t_loc x)) (front t').
Proof.
  unfold next, tz_next, tzinv, front. intros Hi. destruct (tz_cur t) as [y|] eqn:Cu.
  - intros H. injection H as <- <-. cbn [tz_cur tz_scan]. destruct Hi as [W E].
    split; [exact I|]. split; [apply loc_le_refl|]. split; [exact W|]. rewrite E. apply loc_le_refl.
  - destruct (tz_collect t) as [[o1 s| |] eof] eqn:C; try discriminate. intros H. injection H as -> <-. cbn [tz_cur tz_scan].
    destruct (tz_collect_some _ _ _ _ C) as (A & B & D). split; [exact I|]. split; [exact A|]. split; [exact B|]. rewrite D. apply loc_le_refl.
Qed.
Lemma next_none t t' : tzinv t -> next t = POk None t' -> tzinv t' /\ loc_le (front t) (front t').
Proof.
  unfold next, tz_next, tzinv, front. intros Hi. destruct (tz_cur t) as [y|] eqn:Cu; [discriminate|].
  destruct (tz_collect t) as [[o1 s| |] eof] eqn:C; try discriminate. intros H. injection H as -> <-. cbn [tz_cur tz_scan].
  split; [exact I|eapply tz_collect_none; eauto].
Qed.

(** how far the scanner has read (a buffered token included) *)
Definition reach (t : tokenizer) : loc := sc_loc (tz_scan t).

Lemma front_le_reach t : tzinv t -> loc_le (front t) (reach t).
Proof. unfold tzinv, front, reach. destruct (tz_cur t) as [x|]; [intros [W E]; rewrite <- E; exact W|intros _; apply loc_le_refl]. Qed.

Lemma peek_reach t o t' : tzinv t -> peek t = POk o t' -> loc_le (reach t) (reach t').
Proof.
  unfold peek, tz_peek, reach. intros Hi. destruct (tz_cur t) as [x|] eqn:Cu; [intros H; injection H as _ <-; apply loc_le_refl|].
  destruct (tz_collect t) as [[o1 s| |] eof] eqn:C; try discriminate. intros H. injection H as <- <-. cbn [tz_scan].
  destruct o1 as [x|]; [destruct (tz_collect_some _ _ _ _ C) as (A & B & D); rewrite <- D; eapply loc_le_trans; eauto|eapply tz_collect_none; eauto].
Qed.
Lemma next_reach t o t' : tzinv t -> next t = POk o t' -> loc_le (reach t) (reach t').
Proof.
  unfold next, tz_next, reach. intros Hi. destruct (tz_cur t) as [x|] eqn:Cu; [intros H; injection H as _ <-; apply loc_le_refl|].
  destruct (tz_collect t) as [[o1 s| |] eof] eqn:C; try discriminate. intros H. injection H as <- <-. cbn [tz_scan].
  destruct o1 as [x|]; [destruct (tz_collect_some _ _ _ _ C) as (A & B & D); rewrite <- D; eapply loc_le_trans; eauto|eapply tz_collect_none; eauto].
Qed.
Lemma next_some_reach t x t' : tzinv t -> next t = POk (Some x) t' -> loc_le (reach t) (r_end (t_loc x)).
Proof.
  unfold next, tz_next, reach, tzinv. intros Hi. destruct (tz_cur t) as [y|] eqn:Cu.
  - intros H. injection H as <- _. destruct Hi as [_ E]. rewrite E. apply loc_le_refl.
  - destruct (tz_collect t) as [[o1 s| |] eof] eqn:C; try discriminate. intros H. injection H as -> _.
    destruct (tz_collect_some _ _ _ _ C) as (A & B & D). eapply loc_le_trans; eauto.
Qed.

(** a span between two positions *)
Definition bnd (lo : loc) (r : range) (hi : loc) : Prop := loc_le lo (r_start r) /\ well_ordered r /\ loc_le (r_end r) hi.

Lemma bnd_widen lo lo' r hi hi' : loc_le lo' lo -> loc_le hi hi' -> bnd lo r hi -> bnd lo' r hi'.
Proof. intros A B (C & D & E). split; [eapply loc_le_trans; eauto|]. split; [exact D|eapply loc_le_trans; eauto]. Qed.

Lemma loc_min_glb a b c : loc_le c a -> loc_le c b -> loc_le c (loc_min a b).
Proof. intros A B. unfold loc_min. destruct (loc_leb a b); assumption. Qed.
Lemma loc_max_lub a b c : loc_le a c -> loc_le b c -> loc_le (loc_max a b) c.
Proof. intros A B. unfold loc_max. destruct (loc_leb a b); assumption. Qed.

Lemma bnd_surrounding lo a b hi : bnd lo a hi -> bnd lo b hi -> bnd lo (surrounding a b) hi.
Proof.
  intros (A1 & A2 & A3) (B1 & B2 & B3). split; [apply loc_min_glb; assumption|]. split; [apply surrounding_well_ordered; exact A2|].
  apply loc_max_lub; assumption.
Qed.
Lemma bnd_before lo a mid1 mid2 b hi : bnd lo a mid1 -> loc_le mid1 mid2 -> bnd mid2 b hi -> before a b.
Proof. intros (_ & _ & A) M (B & _ & _). unfold before. eapply loc_le_trans; [exact A|]. eapply loc_le_trans; eauto. Qed.
Lemma within_brackets l rl a lo hi : well_ordered l -> well_ordered rl -> loc_le (r_end l) lo -> loc_le hi (r_end rl) ->
  bnd lo a hi -> within a (surrounding l rl).
Proof.
  intros Wl Wr A B (C & D & E). split.
  - cbn. eapply loc_le_trans; [apply loc_min_le_l|]. eapply loc_le_trans; [exact Wl|]. eapply loc_le_trans; eauto.
  - cbn. eapply loc_le_trans; [exact E|]. eapply loc_le_trans; [exact B|apply loc_max_ge_r].
Qed.

(** what a parser does to the positions and what it returns *)
Definition pk {A} (Q : loc -> A -> loc -> Prop) (m : P A) : Prop :=
  forall t a t', tzinv t -> m t = POk a t' ->
    tzinv t' /\ loc_le (front t) (front t') /\ loc_le (reach t) (reach t') /\ Q (front t) a (reach t').

Lemma pk_ret {A} (Q : loc -> A -> loc -> Prop) a : (forall lo hi, loc_le lo hi -> Q lo a hi) -> pk Q (pret a).
Proof.
  intros H t a0 t' Hi E. injection E as <- <-. split; [exact Hi|]. split; [apply loc_le_refl|]. split; [apply loc_le_refl|].
  apply H. apply front_le_reach. exact Hi.
Qed.
Lemma pk_fail_here {A} (Q : loc -> A -> loc -> Prop) : pk Q fail_here. Proof. intros t a t' _ E. discriminate. Qed.
Lemma pk_fail_at {A} (Q : loc -> A -> loc -> Prop) l : pk Q (fail_at l). Proof. intros t a t' _ E. discriminate. Qed.
Lemma pk_fuel {A} (Q : loc -> A -> loc -> Prop) : pk Q (fun _ => PFuel). Proof. intros t a t' _ E. discriminate. Qed.
Lemma pk_at {A} (Q : loc -> A -> loc -> Prop) (f : tokenizer -> P A) : (forall t0, pk Q (f t0)) -> pk Q (fun t => f t t).
Proof. intros H t a t' Hi E. eapply H; eauto. Qed.

(** sequencing: the second parser starts where the first stopped (its start is at or after the first's start,
    and what the first reached is at or before what the second reaches) *)
Lemma pk_bind {A B} (Q : loc -> A -> loc -> Prop) (R : A -> loc -> B -> loc -> Prop) (S : loc -> B -> loc -> Prop) m f :
  pk Q m -> (forall a, pk (R a) (f a)) ->
  (forall lo mid1 mid2 hi a b, loc_le lo mid2 -> loc_le mid1 hi -> loc_le mid2 hi -> Q lo a mid1 -> R a mid2 b hi -> S lo b hi) ->
  pk S (pbind m f).
Proof.
  intros Hm Hf Hc t b t' Hi E. unfold pbind in E. destruct (m t) as [a t1| |] eqn:M; try discriminate.
  destruct (Hm _ _ _ Hi M) as (I1 & F1 & R1 & Q1). destruct (Hf a _ _ _ I1 E) as (I2 & F2 & R2 & Q2).
  split; [exact I2|]. split; [eapply loc_le_trans; eauto|]. split; [eapply loc_le_trans; eauto|].
  eapply Hc; [exact F1|exact R2| |exact Q1|exact Q2].
  eapply loc_le_trans; [apply front_le_reach; exact I1|exact R2].
Qed.

(** peek, next, here as parsers *)
Lemma pk_peek : pk (fun _ _ _ => True) peek.
Proof. intros t o t' Hi E. destruct (peek_ok _ _ _ Hi E) as [I F]. split; [exact I|]. split; [exact F|]. split; [eapply peek_reach; eauto|exact Logic.I]. Qed.
Definition tokq (lo : loc) (o : option tokloc) (hi : loc) : Prop :=
  match o with Some x => bnd lo (t_loc x) hi | None => True end.
Lemma pk_next : pk tokq next.
Proof.
  intros t o t' Hi E. destruct o as [x|].
  - destruct (next_some _ _ _ Hi E) as (I & A & W & B). split; [exact I|]. split; [eapply loc_le_trans; [exact A|]; eapply loc_le_trans; [exact W|exact B]|].
    split; [eapply next_reach; eauto|]. cbn [tokq]. split; [exact A|]. split; [exact W|].
    eapply loc_le_trans; [exact B|apply front_le_reach; exact I].
  - destruct (next_none _ _ Hi E) as [I F]. split; [exact I|]. split; [exact F|]. split; [eapply next_reach; eauto|exact Logic.I].
Qed.
Lemma pk_here : pk (fun lo l hi => loc_le lo l /\ loc_le l hi) here.
Proof.
  intros t l t' Hi E. unfold here in E. injection E as <- <-. split; [exact Hi|]. split; [apply loc_le_refl|]. split; [apply loc_le_refl|].
  unfold tz_loc. fold (reach t). split; [apply front_le_reach; exact Hi|apply loc_le_refl].
Qed.

(* ---- what holds of a parsed tree ---------------------------------------------------------------- *)
Fixpoint ordered (l : list range) : Prop :=
  match l with a :: ((b :: _) as r) => before a b /\ ordered r | _ => True end.

Section Br.
  Variable rec : expr -> Prop.
  Definition init_range (i : objinit) : range := match i with ObjInit r _ _ => r end.
  Definition br_init (i : objinit) : Prop :=
    match i with ObjInit r k v => before (expr_range k) (expr_range v) /\ within (expr_range k) r /\ within (expr_range v) r /\ rec k /\ rec v end.
  Definition br_primary (p : primary) : Prop :=
    match p with
    | PrParens r e => within (expr_range e) r /\ rec e
    | PrList r es => Forall (fun e => within (expr_range e) r /\ rec e) es /\ ordered (map expr_range es)
    | PrObj r inits => Forall (fun i => within (init_range i) r /\ br_init i) inits /\ ordered (map init_range inits)
    | _ => True
    end.
  Definition br_mprime (m : mprime) : Prop :=
    match m with
    | MPCall r args => Forall (fun e => within (expr_range e) r /\ rec e) args /\ ordered (map expr_range (rev args))
    | MPIndex r e => within (expr_range e) r /\ rec e
    | MPAccess _ _ _ => True
    end.
  Definition br_member (m : member) : Prop :=
    match m with Member _ p ms => br_primary p /\ Forall br_mprime ms /\ ordered (primary_range p :: map mprime_range ms) end.
  Definition br_unary (u : unary) : Prop := match u with UnMember _ m | UnNot _ _ m | UnNeg _ _ m => br_member m end.
  Fixpoint br_mult (e : mult) : Prop :=
    match e with MulUn _ u => br_unary u | MulBin _ l _ b => before (mult_range l) (unary_range b) /\ br_mult l /\ br_unary b end.
  Fixpoint br_addn (e : addn) : Prop :=
    match e with AddUn _ u => br_mult u | AddBin _ l _ b => before (addn_range l) (mult_range b) /\ br_addn l /\ br_mult b end.
  Fixpoint br_rel (e : rel) : Prop :=
    match e with RelUn _ u => br_addn u | RelBin _ l _ b => before (rel_range l) (addn_range b) /\ br_rel l /\ br_addn b end.
  Fixpoint br_cand (e : cand) : Prop :=
    match e with AndUn _ u => br_rel u | AndBin _ l b => before (cand_range l) (rel_range b) /\ br_cand l /\ br_rel b end.
  Fixpoint br_cor (e : cor) : Prop :=
    match e with OrUn _ u => br_cand u | OrBin _ l b => before (cor_range l) (cand_range b) /\ br_cor l /\ br_cand b end.
  Definition br_pattern (p : mpat) : Prop := match p with MPatCmp _ _ _ o => br_cor o | _ => True end.
  Definition br_case (r : range) (c : mcase) : Prop := match c with MCase _ p arm => within (expr_range arm) r /\ br_pattern p /\ rec arm end.
  Definition br_expr_body (e : expr) : Prop :=
    match e with
    | EUnary _ c => br_cor c
    | ETernary _ c t f => before (cor_range c) (cor_range t) /\ before (cor_range t) (expr_range f) /\ br_cor c /\ br_cor t /\ rec f
    | EMatch r c cases => within (expr_range c) r /\ Forall (br_case r) cases /\ rec c
    end.
End Br.

Fixpoint br (fuel : nat) (e : expr) : Prop := match fuel with O => True | S f => br_expr_body (br f) e end.

(** a list of nodes parsed one after the other between two positions *)
Fixpoint seq_bnd {A} (rng : A -> range) (lo : loc) (l : list A) (hi : loc) : Prop :=
  match l with
  | [] => loc_le lo hi
  | x :: r => exists mid1 mid2, bnd lo (rng x) mid1 /\ loc_le mid1 mid2 /\ seq_bnd rng mid2 r hi
  end.

Lemma seq_bnd_le {A} (rng : A -> range) : forall l lo hi, seq_bnd rng lo l hi -> loc_le lo hi.
Proof.
  induction l as [|x r IH]; intros lo hi H; [exact H|]. destruct H as (m1 & m2 & (B1 & B2 & B3) & M & Hr).
  eapply loc_le_trans; [exact B1|]. eapply loc_le_trans; [exact B2|]. eapply loc_le_trans; [exact B3|]. eapply loc_le_trans; [exact M|]. eapply IH; eauto.
Qed.
Lemma seq_bnd_widen {A} (rng : A -> range) l : forall lo lo' hi hi', loc_le lo' lo -> loc_le hi hi' -> seq_bnd rng lo l hi -> seq_bnd rng lo' l hi'.
Proof.
  induction l as [|x r IH]; intros lo lo' hi hi' A1 A2 H; cbn [seq_bnd] in *.
  - eapply loc_le_trans; [exact A1|]. eapply loc_le_trans; eauto.
  - destruct H as (m1 & m2 & B & M & Hr). exists m1, m2. split; [eapply bnd_widen; [exact A1|apply loc_le_refl|exact B]|]. split; [exact M|].
    eapply IH; [apply loc_le_refl|exact A2|exact Hr].
Qed.
Lemma seq_bnd_snoc {A} (rng : A -> range) : forall l lo mid1 mid2 x hi,
  seq_bnd rng lo l mid1 -> loc_le mid1 mid2 -> bnd mid2 (rng x) hi -> seq_bnd rng lo (l ++ [x]) hi.
Proof.
  induction l as [|y r IH]; intros lo mid1 mid2 x hi H M B; cbn [app seq_bnd] in *.
  - exists hi, hi. split; [eapply bnd_widen; [eapply loc_le_trans; eauto|apply loc_le_refl|exact B]|]. split; apply loc_le_refl.
  - destruct H as (m1 & m2 & By & My & Hr). exists m1, m2. split; [exact By|]. split; [exact My|]. eapply IH; eauto.
Qed.
Lemma seq_bnd_all {A} (rng : A -> range) : forall l lo hi, seq_bnd rng lo l hi -> Forall (fun x => bnd lo (rng x) hi) l /\ ordered (map rng l).
Proof.
  induction l as [|x r IH]; intros lo hi H; [split; [constructor|exact I]|].
  destruct H as (m1 & m2 & B & M & Hr). destruct (IH _ _ Hr) as [F O]. pose proof (seq_bnd_le _ _ _ _ Hr) as L2. split.
  - constructor; [eapply bnd_widen; [apply loc_le_refl| |exact B]; eapply loc_le_trans; eauto|].
    eapply Forall_impl; [|exact F]. intros y By. eapply bnd_widen; [|apply loc_le_refl|exact By].
    destruct B as (B1 & B2 & B3). eapply loc_le_trans; [exact B1|]. eapply loc_le_trans; [exact B2|]. eapply loc_le_trans; eauto.
  - cbn [map]. destruct r as [|y r']; [exact I|]. cbn [map ordered] in *. split; [|exact O].
    destruct Hr as (n1 & n2 & By & _). eapply bnd_before; eauto.
Qed.


(* ---- the parser, state by state -------------------------------------------------------------------- *)
Definition st (t t' : tokenizer) : Prop := tzinv t' /\ loc_le (front t) (front t') /\ loc_le (reach t) (reach t').

Lemma st_refl t : tzinv t -> st t t.
Proof. intros H. split; [exact H|split; apply loc_le_refl]. Qed.
Lemma st_trans a b c : st a b -> st b c -> st a c.
Proof. intros (I1 & F1 & R1) (I2 & F2 & R2). split; [exact I2|]. split; eapply loc_le_trans; eauto. Qed.
Lemma st_peek t o t' : tzinv t -> peek t = POk o t' -> st t t'.
Proof. intros Hi E. destruct (peek_ok _ _ _ Hi E) as [I F]. split; [exact I|]. split; [exact F|eapply peek_reach; eauto]. Qed.
Lemma st_next t o t' : tzinv t -> next t = POk o t' -> st t t' /\ tokq (front t) o (front t') /\ (forall x, o = Some x -> loc_le (reach t) (r_end (t_loc x))).
Proof.
  intros Hi E. destruct o as [x|].
  - destruct (next_some _ _ _ Hi E) as (I & A & W & B). split; [|split].
    + split; [exact I|]. split; [eapply loc_le_trans; [exact A|]; eapply loc_le_trans; [exact W|exact B]|eapply next_reach; eauto].
    + cbn [tokq]. split; [exact A|]. split; assumption.
    + intros y Ey. injection Ey as <-. eapply next_some_reach; eauto.
  - destruct (next_none _ _ Hi E) as [I F]. split; [|split].
    + split; [exact I|]. split; [exact F|eapply next_reach; eauto].
    + exact Logic.I.
    + intros y Ey. discriminate.
Qed.

Lemma peek_then_next t x t' o t'' : peek t = POk (Some x) t' -> next t' = POk o t'' -> o = Some x.
Proof.
  unfold peek, tz_peek, next, tz_next. destruct (tz_cur t) as [y|] eqn:Cu.
  - intros H. injection H as <- <-. rewrite Cu. intros H2. injection H2 as <- _. reflexivity.
  - destruct (tz_collect t) as [[o1 s| |] eof]; try discriminate. intros H. injection H as -> <-. cbn [tz_cur]. intros H2. injection H2 as <- _. reflexivity.
Qed.
Lemma is_tok_some o k : is_tok o k = true -> exists x, o = Some x.
Proof. destruct o as [x|]; [eauto|discriminate]. Qed.

Lemma next_front t o t' : next t = POk o t' -> front t' = reach t'.
Proof.
  unfold next, tz_next, front, reach. destruct (tz_cur t) as [y|]; [intros H; injection H as _ <-; reflexivity|].
  destruct (tz_collect t) as [[o1 s| |] eof]; try discriminate. intros H. injection H as _ <-. reflexivity.
Qed.

Lemma peek_buffered t x t' : tzinv t -> peek t = POk (Some x) t' -> r_end (t_loc x) = reach t' /\ loc_le (front t) (r_start (t_loc x)).
Proof.
  intros Hi E. destruct (peek_ok _ _ _ Hi E) as [I F]. unfold peek, tz_peek in E. unfold tzinv, front, reach in *.
  destruct (tz_cur t) as [y|] eqn:Cu.
  - injection E as -> <-. rewrite Cu in *. split; [exact (proj2 Hi)|apply loc_le_refl].
  - destruct (tz_collect t) as [[o1 s| |] eof] eqn:C; try discriminate. injection E as -> <-. cbn [tz_cur tz_scan] in *.
    destruct (tz_collect_some _ _ _ _ C) as (A & B & D). split; [exact D|exact A].
Qed.

Lemma pbind_ok {A B} (m : P A) (f : A -> P B) t b t' : pbind m f t = POk b t' -> exists a t1, m t = POk a t1 /\ f a t1 = POk b t'.
Proof. unfold pbind. destruct (m t) as [a t1| |]; try discriminate. eauto. Qed.
Ltac pinv H := let a := fresh "a" in let t1 := fresh "t" in let H1 := fresh "Hm" in
  apply pbind_ok in H; destruct H as (a & t1 & H1 & H).
Tactic Notation "pinv3" hyp(H) "as" ident(a) ident(t1) ident(H1) := apply pbind_ok in H; destruct H as (a & t1 & H1 & H).

(** the node relation: between the front on entry and the reach on exit *)
Definition nd (t : tokenizer) (r : range) (t' : tokenizer) : Prop := bnd (front t) r (reach t').

Lemma nd_widen t0 t r t' t1 : st t0 t -> st t' t1 -> nd t r t' -> nd t0 r t1.
Proof. intros (_ & F & _) (_ & _ & R) H. eapply bnd_widen; eauto. Qed.

Section Levels.
  Variable rec_expr : P expr.
  Variable rec_src : chars -> pres unit.
  Variable Rr : expr -> Prop.
  Hypothesis Hrec : forall t e t', tzinv t -> rec_expr t = POk e t' -> st t t' /\ nd t (expr_range e) t' /\ Rr e.

  Ltac le := repeat match goal with
                    | |- loc_le ?a ?a => apply loc_le_refl
                    | H : loc_le ?a ?b |- loc_le ?a ?c => first [exact H | eapply loc_le_trans; [exact H|]]
                    | H : st ?a ?b |- _ => let I := fresh "I" in let F := fresh "F" in let R := fresh "R" in destruct H as (I & F & R)
                    | H : tzinv ?t |- loc_le (front ?t) (reach ?t) => exact (front_le_reach t H)
                    end.

  Lemma p_expr_list_b : forall n ending acc t es t' lo0 m,
    tzinv t -> seq_bnd expr_range lo0 (rev acc) m -> loc_le m (front t) -> Forall Rr acc ->
    p_expr_list rec_expr n ending acc t = POk es t' ->
    st t t' /\ seq_bnd expr_range lo0 es (reach t') /\ Forall Rr es.
  Proof.
    induction n as [|n IH]; intros ending acc t es t' lo0 m Hi Hs Hm Ha H; cbn [p_expr_list] in H; [discriminate|].
    pinv H. pose proof (st_peek _ _ _ Hi Hm0) as S1.
    destruct (is_tok a ending).
    - injection H as <- <-. split; [exact S1|]. split; [|apply Forall_rev; exact Ha].
      eapply seq_bnd_widen; [apply loc_le_refl| |exact Hs]. destruct S1 as (I1 & F1 & R1).
      eapply loc_le_trans; [exact Hm|]. eapply loc_le_trans; [apply front_le_reach; exact Hi|exact R1].
    - pinv H. destruct (Hrec _ _ _ (proj1 S1) Hm1) as (S2 & N2 & Re). pinv H. pose proof (st_peek _ _ _ (proj1 S2) Hm2) as S3.
      assert (Hs2 : seq_bnd expr_range lo0 (rev (a0 :: acc)) (reach t1)).
      { cbn [rev]. eapply seq_bnd_snoc; [exact Hs| |exact N2]. eapply loc_le_trans; [exact Hm|exact (proj1 (proj2 S1))]. }
      destruct (is_tok a1 TComma) eqn:Ic.
      + pinv H. destruct (st_next _ _ _ (proj1 S3) Hm3) as (S4 & Tq & Rq).
        destruct (is_tok_some _ _ Ic) as (x & ->). pose proof (peek_then_next _ _ _ _ _ Hm2 Hm3) as ->.
        assert (Hm4 : loc_le (reach t1) (front t3)).
        { eapply loc_le_trans; [exact (proj2 (proj2 S3))|]. eapply loc_le_trans; [exact (Rq x eq_refl)|exact (proj2 (proj2 Tq))]. }
        destruct (IH _ _ _ _ _ lo0 (reach t1) (proj1 S4) Hs2 Hm4 (Forall_cons _ Re Ha) H) as (S5 & Q5 & F5).
        split; [eapply st_trans; [exact S1|]; eapply st_trans; [exact S2|]; eapply st_trans; [exact S3|]; eapply st_trans; eauto|]. split; assumption.
      + injection H as <- <-. split; [eapply st_trans; [exact S1|]; eapply st_trans; eauto|]. split; [|apply (Forall_rev (Forall_cons _ Re Ha))].
        eapply seq_bnd_widen; [apply loc_le_refl|exact (proj2 (proj2 S3))|exact Hs2].
  Qed.

  Lemma within_of_bnd lo a hi r : bnd lo a hi -> loc_le (r_start r) lo -> loc_le hi (r_end r) -> within a r.
  Proof. intros (A & B & C) L H. split; eapply loc_le_trans; eauto. Qed.

  Lemma p_obj_inits_b : forall n acc t is t' lo0 m,
    tzinv t -> seq_bnd init_range lo0 (rev acc) m -> loc_le m (front t) -> Forall (br_init Rr) acc ->
    p_obj_inits rec_expr n acc t = POk is t' ->
    st t t' /\ seq_bnd init_range lo0 is (reach t') /\ Forall (br_init Rr) is.
  Proof.
    induction n as [|n IH]; intros acc t is t' lo0 m Hi Hs Hm Ha H; cbn [p_obj_inits] in H; [discriminate|].
    pinv3 H as o1 t1 P1. pose proof (st_peek _ _ _ Hi P1) as S1.
    destruct (is_tok o1 TRBrace).
    - injection H as <- <-. split; [exact S1|]. split; [|apply Forall_rev; exact Ha].
      eapply seq_bnd_widen; [apply loc_le_refl| |exact Hs]. destruct S1 as (I1 & F1 & R1).
      eapply loc_le_trans; [exact Hm|]. eapply loc_le_trans; [apply front_le_reach; exact Hi|exact R1].
    - pinv3 H as k t2 P2. destruct (Hrec _ _ _ (proj1 S1) P2) as (S2 & N2 & Rk). pinv3 H as oc t3 P3. destruct (st_next _ _ _ (proj1 S2) P3) as (S3 & Tq3 & Rq3).
      destruct (negb (is_tok oc TColon)) eqn:Ic; [discriminate|]. apply negb_false_iff in Ic. destruct (is_tok_some _ _ Ic) as (cx & ->).
      pinv3 H as v t4 P4. destruct (Hrec _ _ _ (proj1 S3) P4) as (S4 & N4 & Rv). pinv3 H as o5 t5 P5. pose proof (st_peek _ _ _ (proj1 S4) P5) as S5.
      set (init := ObjInit (surrounding (expr_range k) (expr_range v)) k v) in *.
      assert (Kv : before (expr_range k) (expr_range v)).
      { eapply bnd_before; [exact N2| |exact N4]. eapply loc_le_trans; [exact (Rq3 cx eq_refl)|exact (proj2 (proj2 Tq3))]. }
      assert (Ni : bnd (front t1) (init_range init) (reach t4)).
      { cbn [init_range init]. apply bnd_surrounding.
        - eapply bnd_widen; [apply loc_le_refl| |exact N2]. eapply loc_le_trans; [exact (proj2 (proj2 S3))|exact (proj2 (proj2 S4))].
        - eapply bnd_widen; [|apply loc_le_refl|exact N4]. eapply loc_le_trans; [exact (proj1 (proj2 S2))|exact (proj1 (proj2 S3))]. }
      assert (Bi : br_init Rr init).
      { cbn [br_init init]. split; [exact Kv|]. split; [exact (proj1 (surrounding_contains _ _))|]. split; [exact (proj2 (surrounding_contains _ _))|]. split; assumption. }
      assert (Hs2 : seq_bnd init_range lo0 (rev (init :: acc)) (reach t4)).
      { cbn [rev]. eapply seq_bnd_snoc; [exact Hs| |exact Ni]. eapply loc_le_trans; [exact Hm|exact (proj1 (proj2 S1))]. }
      destruct (is_tok o5 TComma) eqn:Icm.
      + pinv3 H as o6 t6 P6. destruct (st_next _ _ _ (proj1 S5) P6) as (S6 & Tq6 & Rq6).
        destruct (is_tok_some _ _ Icm) as (x & ->). pose proof (peek_then_next _ _ _ _ _ P5 P6) as ->.
        assert (Hm6 : loc_le (reach t4) (front t6)).
        { eapply loc_le_trans; [exact (proj2 (proj2 S5))|]. eapply loc_le_trans; [exact (Rq6 x eq_refl)|exact (proj2 (proj2 Tq6))]. }
        destruct (IH _ _ _ _ lo0 (reach t4) (proj1 S6) Hs2 Hm6 (Forall_cons _ Bi Ha) H) as (S7 & Q7 & F7).
        split; [|split; assumption].
        eapply st_trans; [exact S1|]. eapply st_trans; [exact S2|]. eapply st_trans; [exact S3|]. eapply st_trans; [exact S4|].
        eapply st_trans; [exact S5|]. eapply st_trans; eauto.
      + injection H as <- <-. split; [|split; [|apply (Forall_rev (Forall_cons _ Bi Ha))]].
        * eapply st_trans; [exact S1|]. eapply st_trans; [exact S2|]. eapply st_trans; [exact S3|]. eapply st_trans; eauto.
        * eapply seq_bnd_widen; [apply loc_le_refl|exact (proj2 (proj2 S5))|exact Hs2].
  Qed.

  Lemma check_segments_same at_ : forall segs t u t', check_segments rec_src at_ segs t = POk u t' -> t' = t.
  Proof.
    induction segs as [|sg r IH]; intros t u t' H; cbn [check_segments] in H; [injection H as _ <-; reflexivity|].
    destruct sg as [s|s]; [eapply IH; eauto|]. destruct (rec_src s); try discriminate; eapply IH; eauto.
  Qed.

  Lemma tok_nd t k l t1 t' : tokq (front t) (Some (mkTok k l)) (front t1) -> tzinv t1 -> st t1 t' -> nd t l t'.
  Proof.
    intros Tq I1 S. cbn [tokq t_loc] in Tq. eapply bnd_widen; [apply loc_le_refl| |exact Tq]. eapply loc_le_trans; [apply front_le_reach; exact I1|exact (proj2 (proj2 S))].
  Qed.

  Lemma p_primary_b t p t' : tzinv t -> p_primary rec_expr rec_src t = POk p t' ->
    (st t t' /\ nd t (primary_range p) t' /\ br_primary Rr p) /\ front t' = reach t'.
  Proof.
    intros Hi H.
    assert (Fr : front t' = reach t').
    { unfold p_primary in H. pinv3 H as o t1 P1. pose proof (next_front _ _ _ P1) as F1. destruct o as [[k l]|]; [|discriminate].
      destruct k; try discriminate; try (injection H as _ <-; exact F1).
      - pinv3 H as es t2 P2. pinv3 H as c t3 P3. destruct c as [[ck rl]|]; [|discriminate]. destruct ck; try discriminate.
        pinv3 H as o4 t4 P4. injection H as _ <-. exact (next_front _ _ _ P4).
      - pinv3 H as es t2 P2. pinv3 H as c t3 P3. destruct c as [[ck rl]|]; [|discriminate]. destruct ck; try discriminate.
        pinv3 H as o4 t4 P4. injection H as _ <-. exact (next_front _ _ _ P4).
      - pinv3 H as e t2 P2. pinv3 H as c t3 P3. destruct c as [[ck rl]|]; [|discriminate]. destruct ck; try discriminate.
        injection H as _ <-. exact (next_front _ _ _ P3).
      - destruct (v <=? i64_max); [|discriminate]. injection H as _ <-. exact F1.
      - pinv3 H as u t2 P2. apply check_segments_same in P2. subst t2. injection H as _ <-. exact F1. }
    split; [|exact Fr]. clear Fr.
    unfold p_primary in H. pinv3 H as o t1 P1. destruct (st_next _ _ _ Hi P1) as (S1 & Tq1 & Rq1).
    destruct o as [[k l]|]; [|discriminate].
    assert (Leaf : forall p0, primary_range p0 = l -> br_primary Rr p0 -> pret p0 t1 = POk p t' -> st t t' /\ nd t (primary_range p) t' /\ br_primary Rr p).
    { intros p0 Er Bp E. injection E as <- <-. split; [exact S1|]. split; [|exact Bp]. rewrite Er.
      exact (tok_nd t k l t1 t1 Tq1 (proj1 S1) (st_refl _ (proj1 S1))). }
    destruct k; try discriminate; try (eapply Leaf; [| |exact H]; [reflexivity|exact I]).
    - (* [ *)
      pinv3 H as es t2 P2.
      destruct (p_expr_list_b _ _ [] _ _ _ (front t1) (front t1) (proj1 S1) (loc_le_refl _) (loc_le_refl _) (Forall_nil _) P2) as (S2 & Q2 & F2).
      pinv3 H as c t3 P3. pose proof (st_peek _ _ _ (proj1 S2) P3) as S3.
      destruct c as [[ck rl]|]; [|discriminate]. destruct ck; try discriminate.
      pinv3 H as o4 t4 P4. destruct (st_next _ _ _ (proj1 S3) P4) as (S4 & Tq4 & Rq4). pose proof (peek_then_next _ _ _ _ _ P3 P4) as ->.
      injection H as <- <-. cbn [primary_range br_primary].
      destruct (seq_bnd_all _ _ _ _ Q2) as [Fb Ob].
      split; [eapply st_trans; [exact S1|]; eapply st_trans; [exact S2|]; eapply st_trans; eauto|]. split; [|split; [|exact Ob]].
      + apply bnd_surrounding.
        * eapply tok_nd; [exact Tq1|exact (proj1 S1)|]. eapply st_trans; [exact S2|]. eapply st_trans; eauto.
        * eapply bnd_widen; [| |exact Tq4]; [|apply front_le_reach; exact (proj1 S4)].
          eapply loc_le_trans; [exact (proj1 (proj2 S1))|]. eapply loc_le_trans; [exact (proj1 (proj2 S2))|exact (proj1 (proj2 S3))].
      + rewrite Forall_forall in *. intros e He. split; [|apply F2; exact He].
        eapply (within_brackets l rl); [exact (proj1 (proj2 Tq1))|exact (proj1 (proj2 Tq4))|exact (proj2 (proj2 Tq1))| |apply Fb; exact He].
        eapply loc_le_trans; [exact (proj2 (proj2 S3))|exact (Rq4 _ eq_refl)].
    - (* { *)
      pinv3 H as inits t2 P2.
      destruct (p_obj_inits_b _ [] _ _ _ (front t1) (front t1) (proj1 S1) (loc_le_refl _) (loc_le_refl _) (Forall_nil _) P2) as (S2 & Q2 & F2).
      pinv3 H as c t3 P3. pose proof (st_peek _ _ _ (proj1 S2) P3) as S3.
      destruct c as [[ck rl]|]; [|discriminate]. destruct ck; try discriminate.
      pinv3 H as o4 t4 P4. destruct (st_next _ _ _ (proj1 S3) P4) as (S4 & Tq4 & Rq4). pose proof (peek_then_next _ _ _ _ _ P3 P4) as ->.
      injection H as <- <-. cbn [primary_range br_primary].
      destruct (seq_bnd_all _ _ _ _ Q2) as [Fb Ob].
      split; [eapply st_trans; [exact S1|]; eapply st_trans; [exact S2|]; eapply st_trans; eauto|]. split; [|split; [|exact Ob]].
      + apply bnd_surrounding.
        * eapply tok_nd; [exact Tq1|exact (proj1 S1)|]. eapply st_trans; [exact S2|]. eapply st_trans; eauto.
        * eapply bnd_widen; [| |exact Tq4]; [|apply front_le_reach; exact (proj1 S4)].
          eapply loc_le_trans; [exact (proj1 (proj2 S1))|]. eapply loc_le_trans; [exact (proj1 (proj2 S2))|exact (proj1 (proj2 S3))].
      + rewrite Forall_forall in *. intros e He. split; [|apply F2; exact He].
        eapply (within_brackets l rl); [exact (proj1 (proj2 Tq1))|exact (proj1 (proj2 Tq4))|exact (proj2 (proj2 Tq1))| |apply Fb; exact He].
        eapply loc_le_trans; [exact (proj2 (proj2 S3))|exact (Rq4 _ eq_refl)].
    - (* ( *)
      pinv3 H as e t2 P2. destruct (Hrec _ _ _ (proj1 S1) P2) as (S2 & N2 & Re).
      pinv3 H as c t3 P3. destruct (st_next _ _ _ (proj1 S2) P3) as (S3 & Tq3 & Rq3).
      destruct c as [[ck rl]|]; [|discriminate]. destruct ck; try discriminate. injection H as <- <-. cbn [primary_range br_primary].
      split; [eapply st_trans; [exact S1|]; eapply st_trans; eauto|]. split; [|split; [|exact Re]].
      + apply bnd_surrounding.
        * eapply tok_nd; [exact Tq1|exact (proj1 S1)|]. eapply st_trans; eauto.
        * eapply bnd_widen; [| |exact Tq3]; [|apply front_le_reach; exact (proj1 S3)].
          eapply loc_le_trans; [exact (proj1 (proj2 S1))|exact (proj1 (proj2 S2))].
      + eapply (within_brackets l rl); [exact (proj1 (proj2 Tq1))|exact (proj1 (proj2 Tq3))|exact (proj2 (proj2 Tq1))|exact (Rq3 _ eq_refl)|exact N2].
    - (* int literal *) destruct (v <=? i64_max); [|discriminate]. eapply Leaf; [| |exact H]; [reflexivity|exact I].
    - (* f-string *) pinv3 H as u t2 P2. apply check_segments_same in P2. subst t2. eapply Leaf; [| |exact H]; [reflexivity|exact I].
  Qed.

  Lemma p_member_primes_b : forall n acc t ms t' lo0 m,
    tzinv t -> seq_bnd mprime_range lo0 (rev acc) m -> loc_le m (front t) -> Forall (br_mprime Rr) acc ->
    p_member_primes rec_expr n acc t = POk ms t' ->
    st t t' /\ seq_bnd mprime_range lo0 ms (reach t') /\ Forall (br_mprime Rr) ms.
  Proof.
    induction n as [|n IH]; intros acc t ms t' lo0 m Hi Hs Hm Ha H; cbn [p_member_primes] in H; [discriminate|].
    pinv3 H as o t1 P1. pose proof (st_peek _ _ _ Hi P1) as S1.
    assert (Done : pret (rev acc) t1 = POk ms t' -> st t t' /\ seq_bnd mprime_range lo0 ms (reach t') /\ Forall (br_mprime Rr) ms).
    { intros E. injection E as <- <-. split; [exact S1|]. split; [|apply Forall_rev; exact Ha].
      eapply seq_bnd_widen; [apply loc_le_refl| |exact Hs]. eapply loc_le_trans; [exact Hm|].
      eapply loc_le_trans; [apply front_le_reach; exact Hi|exact (proj2 (proj2 S1))]. }
    destruct o as [[k l]|]; [|exact (Done H)]. destruct k; try exact (Done H); clear Done.
    - (* . *)
      pinv3 H as o2 t2 P2. destruct (st_next _ _ _ (proj1 S1) P2) as (S2 & Tq2 & Rq2). pose proof (peek_then_next _ _ _ _ _ P1 P2) as ->.
      pinv3 H as i t3 P3. destruct (st_next _ _ _ (proj1 S2) P3) as (S3 & Tq3 & Rq3).
      destruct i as [[ik il]|]; [|discriminate]. destruct ik; try discriminate.
      assert (Nm : bnd (front t1) (surrounding l il) (reach t3)).
      { apply bnd_surrounding.
        - eapply (tok_nd t1 TDot l t2 t3); [exact Tq2|exact (proj1 S2)|exact S3].
        - eapply bnd_widen; [exact (proj1 (proj2 S2))|apply front_le_reach; exact (proj1 S3)|exact Tq3]. }
      assert (Hs2 : seq_bnd mprime_range lo0 (rev (MPAccess (surrounding l il) il s :: acc)) (reach t3)).
      { cbn [rev]. eapply seq_bnd_snoc; [exact Hs| |exact Nm]. eapply loc_le_trans; [exact Hm|exact (proj1 (proj2 S1))]. }
      destruct (IH _ _ _ _ lo0 (reach t3) (proj1 S3) Hs2 (eq_ind_r (fun x => loc_le (reach t3) x) (loc_le_refl _) (next_front _ _ _ P3))
                   (@Forall_cons _ (br_mprime Rr) (MPAccess (surrounding l il) il s) acc Logic.I Ha) H) as (S4 & Q4 & F4).
      split; [|split; assumption]. eapply st_trans; [exact S1|]. eapply st_trans; [exact S2|]. eapply st_trans; eauto.
    - (* [ *)
      pinv3 H as o2 t2 P2. destruct (st_next _ _ _ (proj1 S1) P2) as (S2 & Tq2 & Rq2). pose proof (peek_then_next _ _ _ _ _ P1 P2) as ->.
      pinv3 H as e t3 P3. destruct (Hrec _ _ _ (proj1 S2) P3) as (S3 & N3 & Re).
      pinv3 H as c t4 P4. destruct (st_next _ _ _ (proj1 S3) P4) as (S4 & Tq4 & Rq4).
      destruct c as [[ck rl]|]; [|discriminate]. destruct ck; try discriminate.
      assert (Nm : bnd (front t1) (surrounding l rl) (reach t4)).
      { apply bnd_surrounding.
        - eapply (tok_nd t1 TLBracket l t2 t4); [exact Tq2|exact (proj1 S2)|eapply st_trans; eauto].
        - eapply bnd_widen; [|apply front_le_reach; exact (proj1 S4)|exact Tq4]. eapply loc_le_trans; [exact (proj1 (proj2 S2))|exact (proj1 (proj2 S3))]. }
      assert (Bm : br_mprime Rr (MPIndex (surrounding l rl) e)).
      { cbn [br_mprime]. split; [|exact Re].
        eapply (within_brackets l rl); [exact (proj1 (proj2 Tq2))|exact (proj1 (proj2 Tq4))|exact (proj2 (proj2 Tq2))|exact (Rq4 _ eq_refl)|exact N3]. }
      assert (Hs2 : seq_bnd mprime_range lo0 (rev (MPIndex (surrounding l rl) e :: acc)) (reach t4)).
      { cbn [rev]. eapply seq_bnd_snoc; [exact Hs| |exact Nm]. eapply loc_le_trans; [exact Hm|exact (proj1 (proj2 S1))]. }
      destruct (IH _ _ _ _ lo0 (reach t4) (proj1 S4) Hs2 (eq_ind_r (fun x => loc_le (reach t4) x) (loc_le_refl _) (next_front _ _ _ P4))
                   (Forall_cons _ Bm Ha) H) as (S5 & Q5 & F5).
      split; [|split; assumption]. eapply st_trans; [exact S1|]. eapply st_trans; [exact S2|]. eapply st_trans; [exact S3|]. eapply st_trans; eauto.
    - (* ( *)
      pinv3 H as o2 t2 P2. destruct (st_next _ _ _ (proj1 S1) P2) as (S2 & Tq2 & Rq2). pose proof (peek_then_next _ _ _ _ _ P1 P2) as ->.
      pinv3 H as args t3 P3.
      destruct (p_expr_list_b _ _ [] _ _ _ (front t2) (front t2) (proj1 S2) (loc_le_refl _) (loc_le_refl _) (Forall_nil _) P3) as (S3 & Q3 & F3).
      pinv3 H as c t4 P4. destruct (st_next _ _ _ (proj1 S3) P4) as (S4 & Tq4 & Rq4).
      destruct c as [[ck rl]|]; [|discriminate]. destruct ck; try discriminate.
      destruct (seq_bnd_all _ _ _ _ Q3) as [Fb Ob].
      assert (Nm : bnd (front t1) (surrounding l rl) (reach t4)).
      { apply bnd_surrounding.
        - eapply (tok_nd t1 TLParen l t2 t4); [exact Tq2|exact (proj1 S2)|eapply st_trans; eauto].
        - eapply bnd_widen; [|apply front_le_reach; exact (proj1 S4)|exact Tq4]. eapply loc_le_trans; [exact (proj1 (proj2 S2))|exact (proj1 (proj2 S3))]. }
      assert (Bm : br_mprime Rr (MPCall (surrounding l rl) (rev args))).
      { cbn [br_mprime]. rewrite rev_involutive. split; [|exact Ob]. apply Forall_rev. rewrite Forall_forall in *. intros e He. split; [|apply F3; exact He].
        eapply (within_brackets l rl); [exact (proj1 (proj2 Tq2))|exact (proj1 (proj2 Tq4))|exact (proj2 (proj2 Tq2))|exact (Rq4 _ eq_refl)|apply Fb; exact He]. }
      assert (Hs2 : seq_bnd mprime_range lo0 (rev (MPCall (surrounding l rl) (rev args) :: acc)) (reach t4)).
      { cbn [rev]. eapply seq_bnd_snoc; [exact Hs| |exact Nm]. eapply loc_le_trans; [exact Hm|exact (proj1 (proj2 S1))]. }
      destruct (IH _ _ _ _ lo0 (reach t4) (proj1 S4) Hs2 (eq_ind_r (fun x => loc_le (reach t4) x) (loc_le_refl _) (next_front _ _ _ P4))
                   (Forall_cons _ Bm Ha) H) as (S5 & Q5 & F5).
      split; [|split; assumption]. eapply st_trans; [exact S1|]. eapply st_trans; [exact S2|]. eapply st_trans; [exact S3|]. eapply st_trans; eauto.
  Qed.

  Lemma ordered_cons {A} (rng : A -> range) lo a mid l hi : bnd lo a mid -> seq_bnd rng mid l hi -> ordered (a :: map rng l).
  Proof.
    intros Ba Hs. destruct (seq_bnd_all _ _ _ _ Hs) as [_ O]. destruct l as [|x r]; [exact I|]. cbn [map ordered] in *. split; [|exact O].
    destruct Hs as (m1 & m2 & Bx & _). eapply bnd_before; [exact Ba|apply loc_le_refl|exact Bx].
  Qed.
  Lemma fold_bnd lo hi : forall ms r0, bnd lo r0 hi -> Forall (fun m => bnd lo (mprime_range m) hi) ms ->
    bnd lo (fold_left (fun r m => surrounding r (mprime_range m)) ms r0) hi.
  Proof.
    induction ms as [|m ms IH]; intros r0 B F; cbn [fold_left]; [exact B|]. inversion F; subst. apply IH; [apply bnd_surrounding; assumption|assumption].
  Qed.

  Lemma p_member_b t m t' : tzinv t -> p_member rec_expr rec_src t = POk m t' ->
    st t t' /\ nd t (member_range m) t' /\ br_member Rr m.
  Proof.
    intros Hi H. unfold p_member in H. pinv3 H as p t1 P1. destruct (p_primary_b _ _ _ Hi P1) as ((S1 & N1 & B1) & Fr1).
    pinv3 H as ms t2 P2.
    destruct (p_member_primes_b _ [] _ _ _ (front t1) (front t1) (proj1 S1) (loc_le_refl _) (loc_le_refl _) (Forall_nil _) P2) as (S2 & Q2 & F2).
    injection H as <- <-. cbn [member_range br_member]. destruct (seq_bnd_all _ _ _ _ Q2) as [Fb Ob].
    split; [eapply st_trans; eauto|]. split.
    - apply fold_bnd.
      + eapply bnd_widen; [apply loc_le_refl|exact (proj2 (proj2 S2))|exact N1].
      + eapply Forall_impl; [|exact Fb]. intros x Bx. eapply bnd_widen; [exact (proj1 (proj2 S1))|apply loc_le_refl|exact Bx].
    - split; [exact B1|]. split; [exact F2|]. eapply ordered_cons; [|exact Q2]. unfold nd in N1. rewrite Fr1. exact N1.
  Qed.

  Lemma p_oplist_b : forall n k cnt t ops t', tzinv t -> p_oplist n k cnt t = POk ops t' -> st t t' /\ nd t (oplist_range ops) t'.
  Proof.
    induction n as [|n IH]; intros k cnt t ops t' Hi H; cbn [p_oplist] in H; [discriminate|].
    destruct (256 <=? cnt); [discriminate|]. pinv3 H as o t1 P1. pose proof (st_peek _ _ _ Hi P1) as S1.
    assert (Empty : (let! l := here in pret (OLEmpty (mkRange l l))) t1 = POk ops t' -> st t t' /\ nd t (oplist_range ops) t').
    { intros E. unfold pbind, here, pret in E. injection E as <- <-. split; [exact S1|]. cbn [oplist_range]. unfold nd, bnd, well_ordered. cbn [r_start r_end].
      unfold tz_loc. fold (reach t1). split; [|split; apply loc_le_refl].
      eapply loc_le_trans; [apply front_le_reach; exact Hi|exact (proj2 (proj2 S1))]. }
    destruct o as [x|]; [|exact (Empty H)]. destruct (token_eqb (t_tok x) k); [|exact (Empty H)]. clear Empty.
    pinv3 H as o2 t2 P2. destruct (st_next _ _ _ (proj1 S1) P2) as (S2 & Tq2 & Rq2). pose proof (peek_then_next _ _ _ _ _ P1 P2) as ->.
    pinv3 H as tail t3 P3. destruct (IH _ _ _ _ _ (proj1 S2) P3) as (S3 & N3). injection H as <- <-. cbn [oplist_range].
    split; [eapply st_trans; [exact S1|]; eapply st_trans; eauto|]. apply bnd_surrounding.
    - eapply bnd_widen; [|apply loc_le_refl|exact N3]. eapply loc_le_trans; [exact (proj1 (proj2 S1))|exact (proj1 (proj2 S2))].
    - destruct x as [xk xl]. eapply bnd_widen; [exact (proj1 (proj2 S1))|apply loc_le_refl|]. eapply (tok_nd t1 xk xl t2 t3); [exact Tq2|exact (proj1 S2)|exact S3].
  Qed.

  Lemma p_unary_b t u t' : tzinv t -> p_unary rec_expr rec_src t = POk u t' -> st t t' /\ nd t (unary_range u) t' /\ br_unary Rr u.
  Proof.
    intros Hi H. unfold p_unary in H. pinv3 H as o t1 P1. pose proof (st_peek _ _ _ Hi P1) as S1.
    assert (Plain : (let! m := p_member rec_expr rec_src in pret (UnMember (member_range m) m)) t1 = POk u t' ->
                    st t t' /\ nd t (unary_range u) t' /\ br_unary Rr u).
    { intros E. pinv3 E as m t2 P2. destruct (p_member_b _ _ _ (proj1 S1) P2) as (S2 & N2 & B2). injection E as <- <-.
      split; [eapply st_trans; eauto|]. split; [|exact B2]. cbn [unary_range]. eapply bnd_widen; [exact (proj1 (proj2 S1))|apply loc_le_refl|exact N2]. }
    destruct (tok_of o) as [k|]; [|exact (Plain H)].
    destruct k; try exact (Plain H); clear Plain;
      (pinv3 H as ops t2 P2; destruct (p_oplist_b _ _ _ _ _ _ (proj1 S1) P2) as (S2 & N2);
       pinv3 H as m t3 P3; destruct (p_member_b _ _ _ (proj1 S2) P3) as (S3 & N3 & B3); injection H as <- <-;
       (split; [eapply st_trans; [exact S1|]; eapply st_trans; eauto|]); (split; [|exact B3]); cbn [unary_range]).
    - apply bnd_surrounding.
      + eapply bnd_widen; [|apply loc_le_refl|exact N3]. eapply loc_le_trans; [exact (proj1 (proj2 S1))|exact (proj1 (proj2 S2))].
      + eapply bnd_widen; [exact (proj1 (proj2 S1))|exact (proj2 (proj2 S3))|exact N2].
    - apply bnd_surrounding.
      + eapply bnd_widen; [exact (proj1 (proj2 S1))|exact (proj2 (proj2 S3))|exact N2].
      + eapply bnd_widen; [|apply loc_le_refl|exact N3]. eapply loc_le_trans; [exact (proj1 (proj2 S1))|exact (proj1 (proj2 S2))].
  Qed.

  (** the generic left-associative loop: operands follow one another, the node spans both *)
  Lemma lloop_b {A B O} (rngA : A -> range) (rngB : B -> range) (brA : A -> Prop) (brB : B -> Prop)
        (opof : token -> option O) (rhs : P B) (mk : A -> O -> B -> A) :
    (forall t b t', tzinv t -> rhs t = POk b t' -> st t t' /\ nd t (rngB b) t' /\ brB b) ->
    (forall a o b, rngA (mk a o b) = surrounding (rngA a) (rngB b)) ->
    (forall a o b, brA a -> brB b -> before (rngA a) (rngB b) -> brA (mk a o b)) ->
    forall n acc t x t' lo0, tzinv t -> bnd lo0 (rngA acc) (reach t) -> brA acc ->
      lloop n opof rhs mk acc t = POk x t' -> st t t' /\ bnd lo0 (rngA x) (reach t') /\ brA x.
  Proof.
    intros Hrhs Hrng Hbr. induction n as [|n IH]; intros acc t x t' lo0 Hi Ba Bra H; cbn [lloop] in H; [discriminate|].
    pinv3 H as o t1 P1. pose proof (st_peek _ _ _ Hi P1) as S1.
    assert (Done : pret acc t1 = POk x t' -> st t t' /\ bnd lo0 (rngA x) (reach t') /\ brA x).
    { intros E. injection E as <- <-. split; [exact S1|]. split; [|exact Bra]. eapply bnd_widen; [apply loc_le_refl|exact (proj2 (proj2 S1))|exact Ba]. }
    destruct o as [tk|]; [|exact (Done H)]. destruct (opof (t_tok tk)) as [op|]; [|exact (Done H)]. clear Done.
    pinv3 H as o2 t2 P2. destruct (st_next _ _ _ (proj1 S1) P2) as (S2 & Tq2 & Rq2). pose proof (peek_then_next _ _ _ _ _ P1 P2) as ->.
    pinv3 H as b t3 P3. destruct (Hrhs _ _ _ (proj1 S2) P3) as (S3 & N3 & Bb).
    assert (L02 : loc_le (reach t) (front t2)).
    { eapply loc_le_trans; [exact (proj2 (proj2 S1))|]. eapply loc_le_trans; [exact (Rq2 _ eq_refl)|exact (proj2 (proj2 Tq2))]. }
    assert (Bf : before (rngA acc) (rngB b)) by (eapply bnd_before; [exact Ba|exact L02|exact N3]).
    assert (Bn : bnd lo0 (rngA (mk acc op b)) (reach t3)).
    { rewrite Hrng. apply bnd_surrounding.
      - eapply bnd_widen; [apply loc_le_refl| |exact Ba]. eapply loc_le_trans; [exact (proj2 (proj2 S1))|]. eapply loc_le_trans; [exact (proj2 (proj2 S2))|exact (proj2 (proj2 S3))].
      - eapply bnd_widen; [|apply loc_le_refl|exact N3]. destruct Ba as (A1 & A2 & A3).
        eapply loc_le_trans; [exact A1|]. eapply loc_le_trans; [exact A2|]. eapply loc_le_trans; [exact A3|exact L02]. }
    destruct (IH _ _ _ _ lo0 (proj1 S3) Bn (Hbr _ op _ Bra Bb Bf) H) as (S4 & N4 & B4).
    split; [|split; assumption]. eapply st_trans; [exact S1|]. eapply st_trans; [exact S2|]. eapply st_trans; eauto.
  Qed.

  Lemma p_mult_b t x t' : tzinv t -> p_mult rec_expr rec_src t = POk x t' -> st t t' /\ nd t (mult_range x) t' /\ br_mult Rr x.
  Proof.
    intros Hi H. unfold p_mult in H. pinv3 H as u t1 P1. destruct (p_unary_b _ _ _ Hi P1) as (S1 & N1 & B1).
    match type of H with lloop ?n ?opof ?rhs ?mk ?acc t1 = _ =>
      destruct (lloop_b mult_range unary_range (br_mult Rr) (br_unary Rr) opof rhs mk p_unary_b
                  (fun a o b => eq_refl) (fun a o b Ha Hb Hf => conj Hf (conj Ha Hb)) n acc t1 x t' (front t) (proj1 S1) N1 B1 H) as (S2 & N2 & B2) end.
    split; [eapply st_trans; eauto|]. split; assumption.
  Qed.

  Lemma p_addn_b t x t' : tzinv t -> p_addn rec_expr rec_src t = POk x t' -> st t t' /\ nd t (addn_range x) t' /\ br_addn Rr x.
  Proof.
    intros Hi H. unfold p_addn in H. pinv3 H as u t1 P1. destruct (p_mult_b _ _ _ Hi P1) as (S1 & N1 & B1).
    match type of H with lloop ?n ?opof ?rhs ?mk ?acc t1 = _ =>
      destruct (lloop_b addn_range mult_range (br_addn Rr) (br_mult Rr) opof rhs mk p_mult_b
                  (fun a o b => eq_refl) (fun a o b Ha Hb Hf => conj Hf (conj Ha Hb)) n acc t1 x t' (front t) (proj1 S1) N1 B1 H) as (S2 & N2 & B2) end.
    split; [eapply st_trans; eauto|]. split; assumption.
  Qed.

  Lemma p_rel_b t x t' : tzinv t -> p_rel rec_expr rec_src t = POk x t' -> st t t' /\ nd t (rel_range x) t' /\ br_rel Rr x.
  Proof.
    intros Hi H. unfold p_rel in H. pinv3 H as u t1 P1. destruct (p_addn_b _ _ _ Hi P1) as (S1 & N1 & B1).
    match type of H with lloop ?n ?opof ?rhs ?mk ?acc t1 = _ =>
      destruct (lloop_b rel_range addn_range (br_rel Rr) (br_addn Rr) opof rhs mk p_addn_b
                  (fun a o b => eq_refl) (fun a o b Ha Hb Hf => conj Hf (conj Ha Hb)) n acc t1 x t' (front t) (proj1 S1) N1 B1 H) as (S2 & N2 & B2) end.
    split; [eapply st_trans; eauto|]. split; assumption.
  Qed.

  Lemma p_cand_b t x t' : tzinv t -> p_cand rec_expr rec_src t = POk x t' -> st t t' /\ nd t (cand_range x) t' /\ br_cand Rr x.
  Proof.
    intros Hi H. unfold p_cand in H. pinv3 H as u t1 P1. destruct (p_rel_b _ _ _ Hi P1) as (S1 & N1 & B1).
    match type of H with lloop ?n ?opof ?rhs ?mk ?acc t1 = _ =>
      destruct (lloop_b cand_range rel_range (br_cand Rr) (br_rel Rr) opof rhs mk p_rel_b
                  (fun a o b => eq_refl) (fun a o b Ha Hb Hf => conj Hf (conj Ha Hb)) n acc t1 x t' (front t) (proj1 S1) N1 B1 H) as (S2 & N2 & B2) end.
    split; [eapply st_trans; eauto|]. split; assumption.
  Qed.

  Lemma p_cor_b t x t' : tzinv t -> p_cor rec_expr rec_src t = POk x t' -> st t t' /\ nd t (cor_range x) t' /\ br_cor Rr x.
  Proof.
    intros Hi H. unfold p_cor in H. pinv3 H as u t1 P1. destruct (p_cand_b _ _ _ Hi P1) as (S1 & N1 & B1).
    match type of H with lloop ?n ?opof ?rhs ?mk ?acc t1 = _ =>
      destruct (lloop_b cor_range cand_range (br_cor Rr) (br_cand Rr) opof rhs mk p_cand_b
                  (fun a o b => eq_refl) (fun a o b Ha Hb Hf => conj Hf (conj Ha Hb)) n acc t1 x t' (front t) (proj1 S1) N1 B1 H) as (S2 & N2 & B2) end.
    split; [eapply st_trans; eauto|]. split; assumption.
  Qed.

  Lemma p_pattern_b t p t' : tzinv t -> p_pattern rec_expr rec_src t = POk p t' -> st t t' /\ br_pattern Rr p.
  Proof.
    intros Hi H. unfold p_pattern in H. pinv3 H as start t0 P0. unfold here in P0. injection P0 as <- <-.
    pinv3 H as o t1 P1. pose proof (st_peek _ _ _ Hi P1) as S1.
    assert (Cmp : forall m, (let! o0 := peek in
                     let! op := match o0 with
                                | Some tk => match cmpop_of (t_tok tk) with Some c => let! _ := next in pret c | None => pret CEq end
                                | None => pret CEq
                                end in
                     let! ope := here in let! c := p_cor rec_expr rec_src in let! e := here in
                     pret (MPatCmp (mkRange (tz_loc t) e) (mkRange (tz_loc t) ope) op c)) t1 = POk p t' -> m = tt ->
                  st t t' /\ br_pattern Rr p).
    { intros _ E _. pinv3 E as o0 t2 P2. pose proof (st_peek _ _ _ (proj1 S1) P2) as S2.
      pinv3 E as op t3 P3.
      assert (S3 : st t2 t3).
      { destruct o0 as [tk|]; [destruct (cmpop_of (t_tok tk))|]; try (injection P3 as _ <-; apply st_refl; exact (proj1 S2)).
        pinv3 P3 as u t4 P4. injection P3 as _ <-. exact (proj1 (st_next _ _ _ (proj1 S2) P4)). }
      pinv3 E as ope t4 P4. unfold here in P4. injection P4 as _ <-.
      pinv3 E as c t5 P5. destruct (p_cor_b _ _ _ (proj1 S3) P5) as (S5 & N5 & B5).
      pinv3 E as e t6 P6. unfold here in P6. injection P6 as _ <-. injection E as <- <-.
      split; [|exact B5]. eapply st_trans; [exact S1|]. eapply st_trans; [exact S2|]. eapply st_trans; eauto. }
    destruct o as [[k l]|]; [|exact (Cmp tt H eq_refl)]. destruct k; try exact (Cmp tt H eq_refl).
    match type of H with context [is_type_name ?i] => rename i into idn end.
    destruct (bytes_eqb idn _).
    - pinv3 H as o2 t2 P2. pinv3 H as e t3 P3. unfold here in P3. injection P3 as _ <-. injection H as <- <-.
      split; [|exact I]. eapply st_trans; [exact S1|exact (proj1 (st_next _ _ _ (proj1 S1) P2))].
    - destruct (is_type_name idn); [|exact (Cmp tt H eq_refl)]. destruct (mtype_of idn); [|exact (Cmp tt H eq_refl)].
      pinv3 H as o2 t2 P2. pinv3 H as e t3 P3. unfold here in P3. injection P3 as _ <-. injection H as <- <-.
      split; [|exact I]. eapply st_trans; [exact S1|exact (proj1 (st_next _ _ _ (proj1 S1) P2))].
  Qed.

  Definition case_ok (lo hi : loc) (c : mcase) : Prop :=
    match c with MCase _ p arm => bnd lo (expr_range arm) hi /\ br_pattern Rr p /\ Rr arm end.

  Lemma p_cases_b : forall n comma rng acc t rc t' lo0,
    tzinv t -> loc_le lo0 (front t) -> Forall (case_ok lo0 (reach t)) acc ->
    p_cases rec_expr rec_src n comma rng acc t = POk rc t' ->
    st t t' /\ Forall (case_ok lo0 (reach t')) (snd rc) /\
    exists rl, fst rc = surrounding rng rl /\ well_ordered rl /\ r_end rl = reach t' /\ loc_le lo0 (r_start rl).
  Proof.
    induction n as [|n IH]; intros comma rng acc t rc t' lo0 Hi Hlo Ha H; cbn [p_cases] in H; [discriminate|].
    pinv3 H as rb t1 P1. pose proof (st_peek _ _ _ Hi P1) as S1.
    assert (Hw : forall c, case_ok lo0 (reach t) c -> forall tt, loc_le (reach t) (reach tt) -> case_ok lo0 (reach tt) c).
    { intros [r p arm] (A & B & C) tt L. split; [eapply bnd_widen; [apply loc_le_refl|exact L|exact A]|split; assumption]. }
    assert (Go : (if negb comma then fail_here
                  else let! ct := next in
                       if negb (is_tok ct TCase) then fail_here
                       else let! pat := p_pattern rec_expr rec_src in
                            let! col := next in
                            if negb (is_tok col TColon) then fail_here
                            else let! e := rec_expr in
                                 let c := MCase (surrounding (mpat_range pat) (expr_range e)) pat e in
                                 let! cm := peek in
                                 if is_tok cm TComma then let! _ := next in p_cases rec_expr rec_src n true rng (c :: acc)
                                 else p_cases rec_expr rec_src n false rng (c :: acc)) t1 = POk rc t' ->
                 st t t' /\ Forall (case_ok lo0 (reach t')) (snd rc) /\
                 exists rl, fst rc = surrounding rng rl /\ well_ordered rl /\ r_end rl = reach t' /\ loc_le lo0 (r_start rl)).
    { intros E. destruct (negb comma); [discriminate|]. pinv3 E as ct t2 P2. destruct (st_next _ _ _ (proj1 S1) P2) as (S2 & _ & _).
      destruct (negb (is_tok ct TCase)); [discriminate|]. pinv3 E as pat t3 P3. destruct (p_pattern_b _ _ _ (proj1 S2) P3) as (S3 & B3).
      pinv3 E as col t4 P4. destruct (st_next _ _ _ (proj1 S3) P4) as (S4 & _ & _). destruct (negb (is_tok col TColon)); [discriminate|].
      pinv3 E as e t5 P5. destruct (Hrec _ _ _ (proj1 S4) P5) as (S5 & N5 & Re). pinv3 E as cm t6 P6. pose proof (st_peek _ _ _ (proj1 S5) P6) as S6.
      assert (S06 : st t t6).
      { eapply st_trans; [exact S1|]. eapply st_trans; [exact S2|]. eapply st_trans; [exact S3|]. eapply st_trans; [exact S4|]. eapply st_trans; eauto. }
      assert (Ce : case_ok lo0 (reach t6) (MCase (surrounding (mpat_range pat) (expr_range e)) pat e)).
      { split; [|split; assumption]. eapply bnd_widen; [|exact (proj2 (proj2 S6))|exact N5].
        eapply loc_le_trans; [exact Hlo|]. eapply loc_le_trans; [exact (proj1 (proj2 S1))|]. eapply loc_le_trans; [exact (proj1 (proj2 S2))|].
        eapply loc_le_trans; [exact (proj1 (proj2 S3))|exact (proj1 (proj2 S4))]. }
      assert (Ha6 : Forall (case_ok lo0 (reach t6)) acc).
      { eapply Forall_impl; [|exact Ha]. intros c Hc. apply (Hw c Hc). exact (proj2 (proj2 S06)). }
      destruct (is_tok cm TComma).
      - pinv3 E as o7 t7 P7. destruct (st_next _ _ _ (proj1 S6) P7) as (S7 & _ & _).
        assert (Ha7 : Forall (case_ok lo0 (reach t7)) (MCase (surrounding (mpat_range pat) (expr_range e)) pat e :: acc)).
        { eapply Forall_impl; [|exact (Forall_cons _ Ce Ha6)]. intros [r p arm] (A & B & C). split; [eapply bnd_widen; [apply loc_le_refl|exact (proj2 (proj2 S7))|exact A]|split; assumption]. }
        destruct (IH _ _ _ _ _ _ lo0 (proj1 S7) (loc_le_trans _ _ _ Hlo (proj1 (proj2 (st_trans _ _ _ S06 S7)))) Ha7 E) as (S8 & F8 & X8).
        split; [eapply st_trans; [exact S06|]; eapply st_trans; eauto|]. split; assumption.
      - destruct (IH _ _ _ _ _ _ lo0 (proj1 S6) (loc_le_trans _ _ _ Hlo (proj1 (proj2 S06))) (Forall_cons _ Ce Ha6) E) as (S8 & F8 & X8).
        split; [eapply st_trans; eauto|]. split; assumption. }
    destruct rb as [[k rl]|]; [|exact (Go H)]. destruct k; try exact (Go H). clear Go.
    injection H as <- <-. cbn [fst snd]. destruct (peek_buffered _ _ _ Hi P1) as [Er Lr]. cbn [t_loc] in Er, Lr.
    split; [exact S1|]. split.
    - apply Forall_rev. eapply Forall_impl; [|exact Ha]. intros c Hc. apply (Hw c Hc). exact (proj2 (proj2 S1)).
    - exists rl. split; [reflexivity|]. split; [|split; [exact Er|eapply loc_le_trans; eauto]].
      pose proof (proj1 S1) as I1. unfold tzinv in I1. unfold peek, tz_peek in P1. destruct (tz_cur t) as [y|] eqn:Cu.
      + injection P1 as Ey <-. rewrite Cu in I1. rewrite Ey in I1. exact (proj1 I1).
      + destruct (tz_collect t) as [[o1 s| |] eof]; try discriminate. injection P1 as Ey <-. cbn [tz_cur] in I1. rewrite Ey in I1. exact (proj1 I1).
  Qed.

  Lemma within_sur a X rl : loc_le (r_start X) (r_start a) -> loc_le (r_end a) (r_end rl) -> within a (surrounding X rl).
  Proof.
    intros A B. split; cbn.
    - eapply loc_le_trans; [apply loc_min_le_l|exact A].
    - eapply loc_le_trans; [exact B|apply loc_max_ge_r].
  Qed.

  Lemma p_expr_body_b t e t' : tzinv t -> p_expr_body rec_expr rec_src t = POk e t' ->
    st t t' /\ nd t (expr_range e) t' /\ br_expr_body Rr e.
  Proof.
    intros Hi H. unfold p_expr_body in H. pinv3 H as o t1 P1. pose proof (st_peek _ _ _ Hi P1) as S1.
    assert (Plain : (let! l := p_cor rec_expr rec_src in
                     let! q := peek in
                     if is_tok q TQuestion then
                       let! _ := next in let! tc := p_cor rec_expr rec_src in let! col := next in
                       if negb (is_tok col TColon) then fail_here
                       else let! fc := rec_expr in pret (ETernary (surrounding (cor_range l) (expr_range fc)) l tc fc)
                     else pret (EUnary (cor_range l) l)) t1 = POk e t' ->
                    st t t' /\ nd t (expr_range e) t' /\ br_expr_body Rr e).
    { intros E. pinv3 E as l t2 P2. destruct (p_cor_b _ _ _ (proj1 S1) P2) as (S2 & N2 & B2). pinv3 E as q t3 P3. pose proof (st_peek _ _ _ (proj1 S2) P3) as S3.
      destruct (is_tok q TQuestion) eqn:Iq.
      - pinv3 E as o4 t4 P4. destruct (st_next _ _ _ (proj1 S3) P4) as (S4 & Tq4 & Rq4).
        destruct (is_tok_some _ _ Iq) as (qx & ->). pose proof (peek_then_next _ _ _ _ _ P3 P4) as ->.
        pinv3 E as tc t5 P5. destruct (p_cor_b _ _ _ (proj1 S4) P5) as (S5 & N5 & B5).
        pinv3 E as col t6 P6. destruct (st_next _ _ _ (proj1 S5) P6) as (S6 & Tq6 & Rq6).
        destruct (negb (is_tok col TColon)) eqn:Ic; [discriminate|]. apply negb_false_iff in Ic. destruct (is_tok_some _ _ Ic) as (cx & ->).
        pinv3 E as fc t7 P7. destruct (Hrec _ _ _ (proj1 S6) P7) as (S7 & N7 & Rf). injection E as <- <-. cbn [expr_range br_expr_body].
        assert (S17 : st t1 t7).
        { eapply st_trans; [exact S2|]. eapply st_trans; [exact S3|]. eapply st_trans; [exact S4|]. eapply st_trans; [exact S5|]. eapply st_trans; eauto. }
        split; [eapply st_trans; eauto|]. split; [|split; [|split; [|split; [exact B2|split; assumption]]]].
        + apply bnd_surrounding.
          * eapply bnd_widen; [exact (proj1 (proj2 S1))| |exact N2].
            eapply loc_le_trans; [exact (proj2 (proj2 S3))|]. eapply loc_le_trans; [exact (proj2 (proj2 S4))|]. eapply loc_le_trans; [exact (proj2 (proj2 S5))|].
            eapply loc_le_trans; [exact (proj2 (proj2 S6))|exact (proj2 (proj2 S7))].
          * eapply bnd_widen; [|apply loc_le_refl|exact N7].
            eapply loc_le_trans; [exact (proj1 (proj2 S1))|]. eapply loc_le_trans; [exact (proj1 (proj2 S2))|]. eapply loc_le_trans; [exact (proj1 (proj2 S3))|].
            eapply loc_le_trans; [exact (proj1 (proj2 S4))|]. eapply loc_le_trans; [exact (proj1 (proj2 S5))|exact (proj1 (proj2 S6))].
        + eapply bnd_before; [exact N2| |exact N5]. eapply loc_le_trans; [exact (proj2 (proj2 S3))|]. eapply loc_le_trans; [exact (Rq4 _ eq_refl)|exact (proj2 (proj2 Tq4))].
        + eapply bnd_before; [exact N5| |exact N7]. eapply loc_le_trans; [exact (Rq6 _ eq_refl)|exact (proj2 (proj2 Tq6))].
      - injection E as <- <-. cbn [expr_range br_expr_body]. split; [eapply st_trans; [exact S1|]; eapply st_trans; eauto|]. split; [|exact B2].
        eapply bnd_widen; [exact (proj1 (proj2 S1))|exact (proj2 (proj2 S3))|exact N2]. }
    destruct o as [[k ml]|]; [|exact (Plain H)]. destruct k; try exact (Plain H). clear Plain.
    pinv3 H as o2 t2 P2. destruct (st_next _ _ _ (proj1 S1) P2) as (S2 & Tq2 & Rq2). pose proof (peek_then_next _ _ _ _ _ P1 P2) as ->.
    pinv3 H as c t3 P3. destruct (Hrec _ _ _ (proj1 S2) P3) as (S3 & N3 & Rc).
    pinv3 H as lb t4 P4. destruct (st_next _ _ _ (proj1 S3) P4) as (S4 & _ & _). destruct (negb (is_tok lb TLBrace)); [discriminate|].
    pinv3 H as rc t5 P5.
    destruct (p_cases_b _ _ _ [] _ _ _ (front t4) (proj1 S4) (loc_le_refl _) (Forall_nil _) P5) as (S5 & F5 & rl & Erc & Wrl & Erl & Lrl).
    pinv3 H as o6 t6 P6. destruct (st_next _ _ _ (proj1 S5) P6) as (S6 & _ & _). injection H as <- <-. cbn [expr_range br_expr_body]. rewrite Erc.
    assert (S26 : st t2 t6). { eapply st_trans; [exact S3|]. eapply st_trans; [exact S4|]. eapply st_trans; eauto. }
    assert (Lml : loc_le (r_start (surrounding ml (expr_range c))) (front t2)).
    { cbn. eapply loc_le_trans; [apply loc_min_le_l|]. cbn [tokq t_loc] in Tq2. destruct Tq2 as (A & B & C). eapply loc_le_trans; [exact B|exact C]. }
    split; [eapply st_trans; [exact S1|]; eapply st_trans; eauto|]. split; [|split; [|split; [|exact Rc]]].
    - apply bnd_surrounding; [apply bnd_surrounding|].
      + eapply bnd_widen; [exact (proj1 (proj2 S1))|apply loc_le_refl|]. eapply (tok_nd t1 TMatch ml t2 t6); [exact Tq2|exact (proj1 S2)|exact S26].
      + eapply bnd_widen; [|exact (proj2 (proj2 (st_trans _ _ _ S4 (st_trans _ _ _ S5 S6))))|exact N3]. eapply loc_le_trans; [exact (proj1 (proj2 S1))|exact (proj1 (proj2 S2))].
      + split; [|split; [exact Wrl|rewrite Erl; exact (proj2 (proj2 S6))]].
        eapply loc_le_trans; [|exact Lrl]. eapply loc_le_trans; [exact (proj1 (proj2 S1))|]. eapply loc_le_trans; [exact (proj1 (proj2 S2))|].
        eapply loc_le_trans; [exact (proj1 (proj2 S3))|exact (proj1 (proj2 S4))].
    - apply within_sur; [eapply loc_le_trans; [exact Lml|exact (proj1 N3)]|].
      rewrite Erl. eapply loc_le_trans; [exact (proj2 (proj2 N3))|]. eapply loc_le_trans; [exact (proj2 (proj2 S4))|exact (proj2 (proj2 S5))].
    - eapply Forall_impl; [|exact F5]. intros [r p arm] (A & B & C). cbn [br_case]. split; [|split; assumption].
      apply within_sur; [|rewrite Erl; exact (proj2 (proj2 A))].
      eapply loc_le_trans; [exact Lml|]. eapply loc_le_trans; [exact (proj1 (proj2 S3))|]. eapply loc_le_trans; [exact (proj1 (proj2 S4))|exact (proj1 A)].
  Qed.
End Levels.

(** Every tree the parser returns, at every depth: every bracketed node contains its contents, the elements of a
    list, the entries of a map, the arguments of a call and the postfix operators of a chain follow one another
    without overlap, the operands of every binary operator and the three parts of a conditional are in source
    order and disjoint, a match contains its scrutinee and every arm; and the whole tree lies between the
    position where parsing started and the position it reached. *)
Theorem parser_positions : forall fuel depth t e t', tzinv t -> p_expr_at fuel depth t = POk e t' ->
  st t t' /\ nd t (expr_range e) t' /\ br fuel e.
Proof.
  induction fuel as [|f IH]; intros depth t e t' Hi H; [discriminate|]. cbn [p_expr_at] in H.
  destruct (32 <=? depth); [discriminate|]. cbn [br].
  eapply (p_expr_body_b (p_expr_at f (depth + 1)) _ (br f)); [|exact Hi|exact H].
  intros t0 e0 t0' Hi0 H0. eapply IH; eauto.
Qed.

Corollary program_positions fuel src e t : parse_program fuel src = POk e t ->
  br fuel e /\ bnd (mkLoc 0 0) (expr_range e) (reach t).
Proof.
  unfold parse_program. intros H. pinv3 H as e0 t0 P0. unfold p_expr in P0.
  destruct (parser_positions _ _ _ _ _ (tzinv_init src) P0) as (S0 & N0 & B0).
  pinv3 H as o t1 P1. destruct o; [discriminate|]. injection H as <- <-. split; [exact B0|].
  eapply bnd_widen; [apply loc_le_refl|exact (proj2 (proj2 (st_peek _ _ _ (proj1 S0) P1)))|exact N0].
Qed.
