(* Proofs/Sql.v — C20: a CEL string literal becomes exactly one SQL string
   literal with the same content; call arguments are emitted in source order;
   untranslatable constructs are reported, translation is total. *)
From Coq Require Import ZArith List Bool Lia.
From Rscel Require Import Base.Prims Base.F64 Base.Text Model.Value Model.Lexer Model.Ast Model.Sql.
Import ListNotations.
Import Coq.Strings.String.StringSyntax.
Open Scope Z_scope.

(** How SQL reads a string literal (standard-conforming strings): after the
    opening quote, a doubled quote is one quote character, a single quote ends
    the literal; a backslash, a dash, a semicolon, a newline are ordinary. *)
Fixpoint sql_read_body (fuel : nat) (s : chars) (acc : chars) : option (chars * chars) :=
  match fuel with
  | O => None
  | S f =>
      match s with
      | [] => None                                          (* unterminated *)
      | 39 :: 39 :: r => sql_read_body f r (39 :: acc)
      | 39 :: r => Some (rev acc, r)
      | c :: r => sql_read_body f r (c :: acc)
      end
  end.

Definition sql_read_string (s : chars) : option (chars * chars) :=
  match s with
  | 39 :: r => sql_read_body (S (length r)) r []
  | _ => None
  end.

Definition not_quote_head (rest : chars) : Prop := match rest with 39 :: _ => False | _ => True end.

Lemma read_body_step_quote f r acc : sql_read_body (S f) (39 :: 39 :: r) acc = sql_read_body f r (39 :: acc).
Proof. reflexivity. Qed.

Lemma read_body_step_other f c r acc : c <> 39 -> sql_read_body (S f) (c :: r) acc = sql_read_body f r (c :: acc).
Proof.
  intros H. cbn [sql_read_body]. destruct c as [|p|p]; try reflexivity.
  do 6 (try (destruct p as [p|p|]; try reflexivity)). congruence.
Qed.

Lemma read_body_end f rest acc : not_quote_head rest -> sql_read_body (S f) (39 :: rest) acc = Some (rev acc, rest).
Proof.
  intros H. cbn [sql_read_body]. destruct rest as [|c r]; [reflexivity|].
  destruct c as [|p|p]; try reflexivity. do 6 (try (destruct p as [p|p|]; try reflexivity)). destruct H.
Qed.

Definition esc (s : chars) : chars := flat_map (fun c => if c =? 39 then [39; 39] else [c]) s.

Lemma read_body_esc : forall s rest acc fuel, not_quote_head rest -> (length (esc s) < fuel)%nat ->
  sql_read_body fuel (esc s ++ 39 :: rest) acc = Some (rev acc ++ s, rest).
Proof.
  induction s as [|c r IH]; intros rest acc fuel Hr Hf.
  - cbn [esc flat_map app]. destruct fuel as [|f]; [cbn in Hf; lia|]. rewrite read_body_end by exact Hr.
    rewrite app_nil_r. reflexivity.
  - unfold esc in *. cbn [flat_map]. cbn [flat_map] in Hf. destruct (c =? 39) eqn:E.
    + apply Z.eqb_eq in E. subst c. cbn [app]. cbn [app length] in Hf.
      destruct fuel as [|f]; [lia|]. rewrite read_body_step_quote.
      rewrite IH by (try assumption; lia). cbn [rev]. rewrite <- app_assoc. reflexivity.
    + apply Z.eqb_neq in E. cbn [app]. cbn [app length] in Hf.
      destruct fuel as [|f]; [lia|]. rewrite read_body_step_other by exact E.
      rewrite IH by (try assumption; lia). cbn [rev]. rewrite <- app_assoc. reflexivity.
Qed.

(** The emitted literal is read back by SQL as exactly the CEL string's
    content, and reading stops exactly at its closing quote: whatever the
    content (quotes, backslashes, dashes, semicolons, newlines), it cannot end
    its own quoting.  (What follows a literal in the emitted text never starts
    with a quote: it is a closing parenthesis, a comma, a space or the end.) *)
Theorem string_literal_is_one_sql_literal s rest : not_quote_head rest ->
  sql_read_string (sql_quote s ++ rest) = Some (s, rest).
Proof.
  intros Hr. unfold sql_quote, sql_read_string. cbn [app]. rewrite <- app_assoc. cbn [app].
  fold (esc s). rewrite read_body_esc; [reflexivity|exact Hr|].
  rewrite app_length. cbn [length]. lia.
Qed.

Corollary literal_translation s r : sql_primary (PrLit r (LStr s)) = SqlOk (sql_quote s).
Proof. reflexivity. Qed.

(** the quoted text has no unpaired quote inside: every quote of the body is followed by another *)
Theorem quoted_length s : (length (sql_quote s) = 2 + length (esc s))%nat.
Proof. unfold sql_quote. fold (esc s). cbn [length]. rewrite app_length. cbn. lia. Qed.

(** untranslatable constructs are reported *)
Theorem match_is_unsupported r c cases : sql_expr (EMatch r c cases) = SqlUnsupported.
Proof. reflexivity. Qed.
Theorem bytes_fstring_unsupported r b segs :
  sql_primary (PrLit r (LBytes b)) = SqlUnsupported /\ sql_primary (PrLit r (LFStr segs)) = SqlUnsupported.
Proof. split; reflexivity. Qed.

(** operators: same operator, operands in source order, fully parenthesised *)
Theorem binary_structure :
  (forall r l op rhs ls rs, sql_addn l = SqlOk ls -> sql_mult rhs = SqlOk rs ->
     sql_addn (AddBin r l op rhs) = SqlOk ([40] ++ ls ++ [41; 32] ++ addop_sql op ++ [32; 40] ++ rs ++ [41])) /\
  (forall r l op rhs ls rs, sql_mult l = SqlOk ls -> sql_unary rhs = SqlOk rs ->
     sql_mult (MulBin r l op rhs) = SqlOk ([40] ++ ls ++ [41; 32] ++ mulop_sql op ++ [32; 40] ++ rs ++ [41])) /\
  (forall r l op rhs ls rs, sql_rel l = SqlOk ls -> sql_addn rhs = SqlOk rs ->
     sql_rel (RelBin r l op rhs) = SqlOk ([40] ++ ls ++ [41; 32] ++ relop_sql op ++ [32; 40] ++ rs ++ [41])) /\
  (forall r l rhs ls rs, sql_cand l = SqlOk ls -> sql_rel rhs = SqlOk rs ->
     sql_cand (AndBin r l rhs) = SqlOk ([40] ++ ls ++ [41; 32] ++ #"AND" ++ [32; 40] ++ rs ++ [41])) /\
  (forall r l rhs ls rs, sql_cor l = SqlOk ls -> sql_cand rhs = SqlOk rs ->
     sql_cor (OrBin r l rhs) = SqlOk ([40] ++ ls ++ [41; 32] ++ #"OR" ++ [32; 40] ++ rs ++ [41])).
Proof.
  repeat split; intros; cbn [sql_addn sql_mult sql_rel sql_cand sql_cor];
    repeat match goal with H : _ = SqlOk _ |- _ => rewrite H; clear H end; reflexivity.
Qed.

(** a call standing alone: callee, then the arguments in source order (the tree stores them last-first) *)
Lemma smap_ok {A} (f : A -> sqlres) l ts : Forall2 (fun x t => f x = SqlOk t) l ts -> smap f l = inl ts.
Proof. induction 1 as [|x t l ts H _ IH]; cbn [smap]; [reflexivity|]. rewrite H, IH. reflexivity. Qed.

Theorem call_arguments_in_source_order r p r' stored ts ps :
  (forall rr name, p = PrIdent rr name -> cast_type name = None) ->
  sql_primary p = SqlOk ps ->
  Forall2 (fun x t => sql_expr x = SqlOk t) stored ts ->
  sql_member (Member r p [MPCall r' stored]) = SqlOk (ps ++ [40] ++ join_sql #", " (rev ts) ++ [41]).
Proof.
  intros Hc Hp Ha. cbn [sql_member]. unfold with_all. rewrite (smap_ok sql_expr stored ts Ha).
  destruct p as [rr name|rr e|rr es|rr inits|rr l]; try (rewrite Hp; reflexivity).
  rewrite (Hc rr name eq_refl). rewrite Hp. reflexivity.
Qed.

(** a type constructor applied to one argument is a cast of that argument *)
Theorem cast_of_one_argument r rr name ty r' a t :
  cast_type name = Some ty -> sql_expr a = SqlOk t ->
  sql_member (Member r (PrIdent rr name) [MPCall r' [a]]) =
  SqlOk ((if cast_needs_parens a then [40] ++ t ++ [41] else t) ++ #"::" ++ ty).
Proof.
  intros Hc Ha. cbn [sql_member]. unfold with_all. cbn [smap]. rewrite Ha. cbn [rev app]. rewrite Hc. reflexivity.
Qed.
