(* Proofs/ReadsCtx.v — C17 for a context holding several programs that refer to one another: the reported
   parameters of ALL stored programs decide the result of executing any of them. *)
From Coq Require Import ZArith List Bool Lia.
From Rscel Require Import Base.Prims Base.F64 Base.Text Model.Strings Model.Time Model.Value Model.Ops Model.Dispatch Model.Funcs Model.Interp
     Model.Lexer Model.Ast Model.Parser Model.Compile Proofs.OpsColl Proofs.Relevance Proofs.Reads.
Import ListNotations.
Import Coq.Strings.String.StringSyntax.
Open Scope Z_scope.

(** every stored program is what the compiler made of some source, and [names] holds what they report *)
Definition compiled_context (progs : list (bytes * code)) (names : list bytes) : Prop :=
  forall n c, assoc n progs = Some c ->
    exists fuel src p k, compile_source fuel src = COk p k /\ c = pr_code p /\ incl (pr_params p) names.

Definition ctx_env (ps : list (bytes * value)) (progs : list (bytes * code)) (ufs : list (bytes * ufun)) (now : Z) : env :=
  mkEnv true ps progs ufs true (Some now).

Lemma agree_ctx_envs (S : bytes -> Prop) ps ps' progs ufs now : pure_binds ps -> pure_binds ps' -> pure_ufuns ufs ->
  (forall n c, assoc n progs = Some c -> okc S c) ->
  (forall n, S n -> map_get ps n = map_get ps' n) -> agree S (ctx_env ps progs ufs now) (ctx_env ps' progs ufs now).
Proof.
  intros [S1 P1] [S2 P2] Pu Hp Hag. constructor; cbn [ctx_env e_bound e_params e_progs e_ufuncs e_runtime e_now]; auto.
  - intros n v _ Hg. apply pure_ok. eapply P1; eauto.
  - intros n c _ Hc. eapply Hp; eauto.
  - intros n v Hu. apply pure_ok. eapply Pu; eauto.
Qed.

Lemma compiled_context_ok progs names : compiled_context progs names ->
  forall n c, assoc n progs = Some c -> okc (inS names) c.
Proof.
  intros H n c Hc. destruct (H n c Hc) as (fuel & src & p & k & Hcomp & -> & Hincl).
  unfold okc. eapply okv_mono; [|exact (program_reads_only_its_params fuel src p k Hcomp)].
  intros m Hm. eapply inS_incl; eauto.
Qed.

(** Two sets of bindings that agree on every name reported by any program of the context (and on variables
    named like built-in types) give the same outcome for every stored program, through every chain of
    references between the programs. *)
Theorem context_params_decide_the_result progs names : compiled_context progs names ->
  forall ps ps' ufs now, pure_binds ps -> pure_binds ps' -> pure_ufuns ufs ->
  (forall n, In n names \/ is_type_name n = true -> map_get ps n = map_get ps' n) ->
  forall fuelr name,
    exec fuelr (ctx_env ps progs ufs now) name = exec fuelr (ctx_env ps' progs ufs now) name.
Proof.
  intros Hctx ps ps' ufs now B1 B2 Bu Hag fuelr name. unfold exec. cbn [ctx_env e_progs].
  destruct (assoc name progs) as [c|] eqn:Hc; [|reflexivity].
  rewrite (vm_same_outcome (inS names) fuelr (ctx_env ps progs ufs now) (ctx_env ps' progs ufs now) c true O).
  - reflexivity.
  - apply agree_ctx_envs; auto. apply compiled_context_ok. exact Hctx.
  - eapply compiled_context_ok; eauto.
Qed.

(** the premise is met by an ordinary context: `a` refers to `b`, both read variables *)
Example compiled_context_somewhere :
  exists ca cb, compiled_context [(#"a", ca); (#"b", cb)] [#"b"; #"x"; #"y"] /\
    exec 100 (ctx_env [(#"x", VInt 1); (#"y", VInt 20)] [(#"a", ca); (#"b", cb)] [] 0) #"a" = (ROk (VInt 41), []).
Proof.
  destruct (compile_source 40 #"b + x") as [pa ka| | | |] eqn:Ha; try (vm_compute in Ha; discriminate Ha).
  destruct (compile_source 40 #"y * 2") as [pb kb| | | |] eqn:Hb; try (vm_compute in Hb; discriminate Hb).
  exists (pr_code pa), (pr_code pb). split.
  - intros n c. cbn [assoc]. destruct (bytes_eqb n #"a").
    + intros E. injection E as <-. exists 40%nat, #"b + x", pa, ka. split; [exact Ha|]. split; [reflexivity|].
      vm_compute in Ha. injection Ha as <- _. cbn [pr_params]. intros m [<-|[<-|[]]]; cbn; auto.
    + destruct (bytes_eqb n #"b"); [|discriminate]. intros E. injection E as <-. exists 40%nat, #"y * 2", pb, kb. split; [exact Hb|]. split; [reflexivity|].
      vm_compute in Hb. injection Hb as <- _. cbn [pr_params]. intros m [<-|[]]; cbn; auto.
  - vm_compute in Ha. injection Ha as <- _. vm_compute in Hb. injection Hb as <- _. vm_compute. reflexivity.
Qed.
