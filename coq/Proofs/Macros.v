(* Proofs/Macros.v — C07: the comprehension macros equal their defining folds,
   visit the elements in order, stop at the deciding or failing element, run
   every body under the caller's environment extended by the loop variable,
   and use one depth level for the whole loop. *)
From Coq Require Import ZArith List Bool Lia.
From Rscel Require Import Base.Prims Base.F64 Base.Text Model.Value Model.Ops Model.Dispatch Model.Funcs Model.Interp.
Import ListNotations.
Import Coq.Strings.String.StringSyntax.
Open Scope Z_scope.

Ltac inv H := inversion H; subst; clear H.

Section Loops.
  Variable rs : runner.
  Variable E : env.
  Variable dcur : nat.
  Variable x : bytes.
  Variable body : code.

  (** One body evaluation: the body code run under E[x := v], at the loop's depth. *)
  Definition B (v : value) : M (value + value) := run_body rs dcur (bind_param E x v) body.

  (** [trace l lg bs lg']: the bodies of the elements of [l], evaluated in
      order starting from log [lg], all succeed with results [bs]; the log ends as [lg']. *)
  Inductive trace : list value -> log -> list value -> log -> Prop :=
  | tr_nil lg : trace [] lg [] lg
  | tr_cons v r lg b lg1 bs lg2 :
      B v lg = (ROk (inr b), lg1) -> trace r lg1 bs lg2 -> trace (v :: r) lg (b :: bs) lg2.

  Definition truthy_all (bs : list value) : bool := forallb is_truthy bs.
  Definition falsy_all (bs : list value) : bool := forallb (fun b => negb (is_truthy b)) bs.

  (* ---- all ------------------------------------------------------------------ *)
  Theorem all_every_truthy l lg bs lg' :
    trace l lg bs lg' -> truthy_all bs = true ->
    all_loop rs E dcur x body l lg = (ROk (VBool true), lg').
  Proof.
    induction 1 as [lg|v r lg b lg1 bs lg2 Hb Ht IH]; intros Hall; cbn [all_loop]; [reflexivity|].
    cbn in Hall. apply andb_true_iff in Hall. destruct Hall as [Hb1 Hr].
    unfold mbind. fold (B v). rewrite Hb, Hb1. apply IH. exact Hr.
  Qed.

  (** stops at the first falsy element: nothing after it is evaluated ([post] is arbitrary) *)
  Theorem all_stops_at_first_falsy pre v post lg bs lg1 b lg2 :
    trace pre lg bs lg1 -> truthy_all bs = true ->
    B v lg1 = (ROk (inr b), lg2) -> is_truthy b = false ->
    all_loop rs E dcur x body (pre ++ v :: post) lg = (ROk (VBool false), lg2).
  Proof.
    intros Ht. revert b lg2. induction Ht as [lg|u r lg c lg1' bs lg2' Hc Ht IH]; intros b lg2 Hall Hb Hf; cbn [app all_loop].
    - unfold mbind. fold (B v). rewrite Hb, Hf. reflexivity.
    - cbn in Hall. apply andb_true_iff in Hall. destruct Hall as [Hc1 Hr].
      unfold mbind. fold (B u). rewrite Hc, Hc1. eapply IH; eauto.
  Qed.

  (** ... and at the first element whose body fails, which makes the macro fail *)
  Theorem all_stops_at_first_failure pre v post lg bs lg1 e lg2 :
    trace pre lg bs lg1 -> truthy_all bs = true ->
    B v lg1 = (ROk (inl e), lg2) ->
    all_loop rs E dcur x body (pre ++ v :: post) lg = (ROk e, lg2).
  Proof.
    intros Ht. revert e lg2. induction Ht as [lg|u r lg c lg1' bs lg2' Hc Ht IH]; intros e lg2 Hall Hb; cbn [app all_loop].
    - unfold mbind. fold (B v). rewrite Hb. reflexivity.
    - cbn in Hall. apply andb_true_iff in Hall. destruct Hall as [Hc1 Hr].
      unfold mbind. fold (B u). rewrite Hc, Hc1. eapply IH; eauto.
  Qed.

  (* ---- exists --------------------------------------------------------------- *)
  Theorem exists_none_truthy l lg bs lg' :
    trace l lg bs lg' -> falsy_all bs = true ->
    exists_loop rs E dcur x body l lg = (ROk (VBool false), lg').
  Proof.
    induction 1 as [lg|v r lg b lg1 bs lg2 Hb Ht IH]; intros Hall; cbn [exists_loop]; [reflexivity|].
    cbn in Hall. apply andb_true_iff in Hall. destruct Hall as [Hb1 Hr]. apply negb_true_iff in Hb1.
    unfold mbind. fold (B v). rewrite Hb, Hb1. apply IH. exact Hr.
  Qed.

  Theorem exists_stops_at_first_truthy pre v post lg bs lg1 b lg2 :
    trace pre lg bs lg1 -> falsy_all bs = true ->
    B v lg1 = (ROk (inr b), lg2) -> is_truthy b = true ->
    exists_loop rs E dcur x body (pre ++ v :: post) lg = (ROk (VBool true), lg2).
  Proof.
    intros Ht. revert b lg2. induction Ht as [lg|u r lg c lg1' bs lg2' Hc Ht IH]; intros b lg2 Hall Hb Hf; cbn [app exists_loop].
    - unfold mbind. fold (B v). rewrite Hb, Hf. reflexivity.
    - cbn in Hall. apply andb_true_iff in Hall. destruct Hall as [Hc1 Hr]. apply negb_true_iff in Hc1.
      unfold mbind. fold (B u). rewrite Hc, Hc1. eapply IH; eauto.
  Qed.

  (* ---- exists_one ------------------------------------------------------------- *)
  Definition count_truthy (bs : list value) : Z := zlen (filter is_truthy bs).

  Theorem exists_one_counts l : forall lg bs lg' k,
    trace l lg bs lg' -> 0 <= k -> k + count_truthy bs <= 1 ->
    exists_one_loop rs E dcur x body l k lg = (ROk (VBool (k + count_truthy bs =? 1)), lg').
  Proof.
    induction l as [|v r IH]; intros lg bs lg' k Ht Hk Hc; inv Ht; cbn [exists_one_loop].
    - unfold count_truthy, zlen. cbn. rewrite Z.add_0_r. reflexivity.
    - unfold mbind. fold (B v). rewrite H1.
      unfold count_truthy, zlen in *. cbn [filter] in *. destruct (is_truthy b) eqn:Tb.
      + cbn [length] in *. rewrite Nat2Z.inj_succ in *.
        destruct (Z.ltb_spec 1 (k + 1)); [lia|].
        rewrite (IH lg1 bs0 lg' (k + 1) H5) by lia.
        replace (k + 1 + Z.of_nat (length (filter is_truthy bs0))) with
                (k + Z.succ (Z.of_nat (length (filter is_truthy bs0)))) by lia. reflexivity.
      + apply IH; assumption.
  Qed.

  (** a second truthy element decides the answer (false) at once *)
  Theorem exists_one_stops_at_second pre v post lg bs lg1 b lg2 :
    trace pre lg bs lg1 -> count_truthy bs = 1 ->
    B v lg1 = (ROk (inr b), lg2) -> is_truthy b = true ->
    exists_one_loop rs E dcur x body (pre ++ v :: post) 0 lg = (ROk (VBool false), lg2).
  Proof.
    intros Ht Hc Hb Htr.
    assert (G : forall pre lg bs lg1 k, trace pre lg bs lg1 -> 0 <= k -> k + count_truthy bs = 1 ->
                exists_one_loop rs E dcur x body (pre ++ v :: post) k lg =
                exists_one_loop rs E dcur x body (v :: post) 1 lg1).
    { induction pre0 as [|u r IH]; intros lg0 bs0 lg10 k Ht0 Hk Hs; inv Ht0; cbn [app].
      - unfold count_truthy, zlen in Hs. cbn in Hs. replace k with 1 by lia. reflexivity.
      - cbn [exists_one_loop]. unfold mbind. fold (B u). rewrite H1.
        unfold count_truthy, zlen in Hs. cbn [filter] in Hs. destruct (is_truthy b0) eqn:Tb.
        + cbn [length] in Hs. rewrite Nat2Z.inj_succ in Hs.
          destruct (Z.ltb_spec 1 (k + 1)); [pose proof (Zle_0_nat (length (filter is_truthy bs1))); lia|].
          eapply IH; eauto; unfold count_truthy, zlen; lia.
        + eapply IH; eauto. }
    rewrite (G pre lg bs lg1 0 Ht (Z.le_refl 0)) by lia.
    cbn [exists_one_loop]. unfold mbind. fold (B v). rewrite Hb, Htr. reflexivity.
  Qed.

  (* ---- filter / map ------------------------------------------------------------ *)
  Fixpoint keep (l bs : list value) : list value :=
    match l, bs with
    | v :: r, b :: bs' => if is_truthy b then v :: keep r bs' else keep r bs'
    | _, _ => []
    end.

  Theorem filter_keeps_truthy l : forall lg bs lg' acc,
    trace l lg bs lg' ->
    filter_loop rs E dcur x body l acc lg = (ROk (VList (rev acc ++ keep l bs)), lg').
  Proof.
    induction l as [|v r IH]; intros lg bs lg' acc Ht; inv Ht; cbn [filter_loop keep].
    - rewrite app_nil_r. reflexivity.
    - unfold mbind. fold (B v). rewrite H1.
      rewrite (IH lg1 bs0 lg' _ H5). destruct (is_truthy b); cbn [rev]; rewrite <- ?app_assoc; reflexivity.
  Qed.

  Theorem map2_collects l : forall lg bs lg' acc,
    trace l lg bs lg' ->
    map_loop rs E dcur x None body l acc lg = (ROk (VList (rev acc ++ bs)), lg').
  Proof.
    induction l as [|v r IH]; intros lg bs lg' acc Ht; inv Ht; cbn [map_loop].
    - rewrite app_nil_r. reflexivity.
    - unfold mbind. fold (B v). rewrite H1. rewrite (IH lg1 bs0 lg' _ H5). cbn [rev]. rewrite <- app_assoc. reflexivity.
  Qed.

  (** a failing body makes filter / map fail at that element *)
  Theorem filter_stops_at_first_failure pre v post lg bs lg1 e lg2 acc :
    trace pre lg bs lg1 -> B v lg1 = (ROk (inl e), lg2) ->
    filter_loop rs E dcur x body (pre ++ v :: post) acc lg = (ROk e, lg2).
  Proof.
    intros Ht. revert acc. induction Ht as [lg|u r lg c lg1' bs lg2' Hc Ht IH]; intros acc Hb; cbn [app filter_loop].
    - unfold mbind. fold (B v). rewrite Hb. reflexivity.
    - unfold mbind. fold (B u). rewrite Hc. apply IH. exact Hb.
  Qed.
End Loops.

(** reduce: threads the accumulator from the seed through the step, left to right.
    The step body runs under E[next := element][cur := accumulator]. *)
Section Reduce.
  Variable rs : runner.
  Variable E : env.
  Variable dcur : nat.
  Variables cur next : bytes.
  Variable body : code.

  Definition S_ (acc v : value) : M (value + value) :=
    run_body rs dcur (bind_param (bind_param E next v) cur acc) body.

  (** every accumulator along the way stays within reduce's nesting bound *)
  Inductive rtrace : list value -> value -> log -> value -> log -> Prop :=
  | rt_nil a lg : rtrace [] a lg a lg
  | rt_cons v r a lg a1 lg1 a2 lg2 :
      S_ a v lg = (ROk (inr a1), lg1) -> nested_too_deep a1 = false ->
      rtrace r a1 lg1 a2 lg2 -> rtrace (v :: r) a lg a2 lg2.

  Theorem reduce_threads_accumulator l seed lg a lg' :
    rtrace l seed lg a lg' -> reduce_loop rs E dcur cur next body l seed lg = (ROk a, lg').
  Proof.
    induction 1 as [a0 lg0|v r a0 lg0 a1 lg1 a2 lg2 Hs Hd Ht IH]; cbn [reduce_loop]; [reflexivity|].
    unfold mbind. fold (S_ a0 v). rewrite Hs, Hd. exact IH.
  Qed.

  Theorem reduce_stops_at_first_failure pre v post seed lg a lg1 e lg2 :
    rtrace pre seed lg a lg1 -> S_ a v lg1 = (ROk (inl e), lg2) ->
    reduce_loop rs E dcur cur next body (pre ++ v :: post) seed lg = (ROk e, lg2).
  Proof.
    induction 1 as [a0 lg0|u r a0 lg0 a1 lg1' a2 lg2' Hs Hd Ht IH]; intros Hb; cbn [app reduce_loop].
    - unfold mbind. fold (S_ a0 v). rewrite Hb. reflexivity.
    - unfold mbind. fold (S_ a0 u). rewrite Hs, Hd. apply IH. exact Hb.
  Qed.

  (** an accumulator nested more than 1000 levels deep ends the loop with a value error: no value
      deeper than that is ever bound, cloned or compared by a later step *)
  Theorem reduce_stops_at_deep_accumulator pre v post seed lg a lg1 a1 lg2 :
    rtrace pre seed lg a lg1 -> S_ a v lg1 = (ROk (inr a1), lg2) -> nested_too_deep a1 = true ->
    reduce_loop rs E dcur cur next body (pre ++ v :: post) seed lg = (ROk (VErr EValue), lg2).
  Proof.
    induction 1 as [a0 lg0|u r a0 lg0 a1' lg1' a2 lg2' Hs Hd Ht IH]; intros Hb Hdeep; cbn [app reduce_loop].
    - unfold mbind. fold (S_ a0 v). rewrite Hb, Hdeep. reflexivity.
    - unfold mbind. fold (S_ a0 u). rewrite Hs, Hd. apply IH; assumption.
  Qed.
End Reduce.

(** Scope: the body environment is the caller's with only the loop variable
    (re)bound: it shadows an outer binding of the same name, every other
    binding, stored program and function stays visible, the clock and the
    macro set are the caller's. *)
Theorem macro_scope : forall E x v,
  let E' := bind_param E x v in
  map_get (e_params E') x = map_get (map_insert (e_params E) x v) x /\
  e_params E' = map_insert (e_params E) x v /\
  e_progs E' = e_progs E /\ e_ufuncs E' = e_ufuncs E /\ e_runtime E' = e_runtime E /\
  e_now E' = e_now E /\ e_bound E' = e_bound E.
Proof. intros. repeat split. Qed.

(** Maps: filter and map range over the keys in the order of the canonical
    (sorted) representation. *)
Theorem map_macros_visit_sorted_keys : forall rs E d m a0 a1,
  call_macro_impl rs E d #"filter" (VMap m) [a0; a1] =
    with_ident rs E a0 (fun x => filter_loop rs E d x a1 (map (fun kv => VString (fst kv)) m) []) /\
  call_macro_impl rs E d #"map" (VMap m) [a0; a1] =
    with_ident rs E a0 (fun x => map_loop rs E d x None a1 (map (fun kv => VString (fst kv)) m) []).
Proof. intros. split; reflexivity. Qed.

(** Loop iterations do not consume the depth budget: every body of the loop
    runs through [rs] at the same depth [dcur] (by definition of [B] above);
    lists of any length are therefore handled at one level. *)
Theorem macro_body_depth_constant : forall rs E d x body v lg,
  B rs E d x body v lg =
  match rs (bind_param E x v) body true d lg with
  | (ROk r, lg') => (ROk (inr r), lg')
  | (RErr e, lg') => (ROk (inl (VErr e)), lg')
  | (o, lg') => (mcast o, lg')
  end.
Proof. intros. reflexivity. Qed.
