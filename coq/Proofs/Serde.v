(* Proofs/Serde.v — C19: reading back what was written gives the same value,
   code and error, with times at millisecond resolution. *)
From Coq Require Import ZArith List Bool Lia.
From Rscel Require Import Base.Prims Base.F64 Base.Text Model.Value Model.Serde.
From Rscel Require Import Proofs.ValueInd.
Import ListNotations.
Open Scope Z_scope.

Lemma all_some_map {A B} (f : A -> option B) (g : A -> B) l :
  Forall (fun x => f x = Some (g x)) l -> all_some (map f l) = Some (map g l).
Proof.
  induction 1 as [|x r H _ IH]; [reflexivity|]. cbn [map all_some]. rewrite H, IH. reflexivity.
Qed.

Lemma de_ser_err e : de_err (ser_err e) = Some e.
Proof. destruct e; reflexivity. Qed.

Theorem de_ser_roundtrip :
  (forall v, de_value (ser_value v) = Some (quant v)) /\ (forall i, de_instr (ser_instr i) = Some (quant_instr i)).
Proof.
  assert (G : forall v, de_value (ser_value v) = Some (quant v)).
  { apply (value_instr_ind (fun v => de_value (ser_value v) = Some (quant v))
                           (fun i => de_instr (ser_instr i) = Some (quant_instr i))).
    - intros l H. cbn [ser_value de_value quant]. rewrite map_map.
      rewrite (all_some_map (fun x => de_value (ser_value x)) quant l H). reflexivity.
    - intros m H. cbn [ser_value de_value quant]. rewrite map_map. cbn [fst snd].
      rewrite (all_some_map (fun kv : bytes * value => option_map (pair (fst kv)) (de_value (ser_value (snd kv))))
                            (fun kv => (fst kv, quant (snd kv))) m).
      + reflexivity.
      + eapply Forall_impl; [|exact H]. cbn. intros [k x] Hx. cbn [fst snd] in *. rewrite Hx. reflexivity.
    - intros c H. cbn [ser_value de_value quant]. rewrite map_map.
      rewrite (all_some_map (fun x => de_instr (ser_instr x)) quant_instr c H). reflexivity.
    - intros v Hv. destruct v; try (destruct Hv); try reflexivity.
      + cbn [ser_value de_value quant]. rewrite map_map.
        rewrite (all_some_map (fun x => de_u8 (SDU x)) (fun x => x) s); [rewrite map_id; reflexivity|].
        apply Forall_forall. intros x _. reflexivity.
      + cbn [ser_value de_value quant]. rewrite de_ser_err. reflexivity.
    - intros v Hv. cbn [ser_instr de_instr quant_instr]. rewrite Hv. reflexivity.
    - intros i Hi. destruct i; try (destruct Hi); try reflexivity. destruct w; reflexivity. }
  split; [exact G|].
  intros i. destruct i; try reflexivity; [cbn [ser_instr de_instr quant_instr]; rewrite G; reflexivity|destruct w; reflexivity].
Qed.

(** a value at millisecond resolution comes back unchanged *)
Fixpoint ms_res (v : value) : Prop :=
  match v with
  | VTime ns | VDur ns => ns mod 1000000 = 0
  | VList l => (fix go (l : list value) := match l with [] => True | x :: r => ms_res x /\ go r end) l
  | VMap m => (fix go (m : list (bytes * value)) := match m with [] => True | (_, x) :: r => ms_res x /\ go r end) m
  | VCode c => (fix go (c : list instr) := match c with [] => True | i :: r => ms_res_instr i /\ go r end) c
  | _ => True
  end
with ms_res_instr (i : instr) : Prop := match i with IPush v => ms_res v | _ => True end.

Lemma quot_exact ns : ns mod 1000000 = 0 -> Z.quot ns 1000000 * 1000000 = ns /\ ns / 1000000 * 1000000 = ns.
Proof.
  intros H. pose proof (Z.div_mod ns 1000000 ltac:(lia)) as D.
  assert (E : ns = ns / 1000000 * 1000000) by lia.
  split; [|lia]. set (q := ns / 1000000) in *. rewrite E. rewrite Z.quot_mul by lia. reflexivity.
Qed.

Theorem quant_id :
  (forall v, ms_res v -> quant v = v) /\ (forall i, ms_res_instr i -> quant_instr i = i).
Proof.
  assert (G : forall v, ms_res v -> quant v = v).
  { apply (value_instr_ind (fun v => ms_res v -> quant v = v) (fun i => ms_res_instr i -> quant_instr i = i)).
    - intros l H Hm. cbn [quant]. f_equal. induction H as [|x r Hx _ IH]; [reflexivity|].
      cbn in Hm. destruct Hm as [H1 H2]. cbn [map]. rewrite (Hx H1), (IH H2). reflexivity.
    - intros m H Hm. cbn [quant]. f_equal. induction H as [|[k x] r Hx _ IH]; [reflexivity|].
      cbn in Hm. destruct Hm as [H1 H2]. cbn [map fst snd] in *. rewrite (Hx H1), (IH H2). reflexivity.
    - intros c H Hm. cbn [quant]. f_equal. induction H as [|i r Hi _ IH]; [reflexivity|].
      cbn in Hm. destruct Hm as [H1 H2]. cbn [map]. rewrite (Hi H1), (IH H2). reflexivity.
    - intros v Hv Hm. destruct v; try (destruct Hv); try reflexivity; cbn [quant ms_res] in *;
        unfold ms_of_ns, dur_ms_of_ns; destruct (quot_exact ns Hm) as [A B]; rewrite ?A, ?B; reflexivity.
    - intros v Hv Hm. cbn [quant_instr]. rewrite (Hv Hm). reflexivity.
    - intros i Hi _. destruct i; try (destruct Hi); reflexivity. }
  split; [exact G|]. intros i Hi. destruct i; try reflexivity. cbn [quant_instr]. rewrite (G v Hi). reflexivity.
Qed.

(** a whole program's code *)
Theorem code_roundtrip c : Forall ms_res_instr c ->
  all_some (map de_instr (map ser_instr c)) = Some c.
Proof.
  intros H. rewrite map_map. destruct de_ser_roundtrip as [_ R]. destruct quant_id as [_ Q].
  rewrite (all_some_map (fun i => de_instr (ser_instr i)) (fun i => i) c); [rewrite map_id; reflexivity|].
  eapply Forall_impl; [|exact H]. cbn. intros i Hi. rewrite R, (Q i Hi). reflexivity.
Qed.

(** the written form determines the value: two values written alike are equal up to sub-millisecond time *)
Theorem ser_injective v1 v2 : ser_value v1 = ser_value v2 -> quant v1 = quant v2.
Proof.
  intros H. destruct de_ser_roundtrip as [R _]. pose proof (R v1) as A. pose proof (R v2) as B. rewrite H in A. congruence.
Qed.
