(* Proofs/TreeAlg.v — C10: an algebra of height-disciplined trees (Proofs/Asm.v) for the shapes the
   compiler emits: stack effects compose, sub-trees with disjoint fresh label ranges combine, jumps
   to a label and its later definition close into a tree over one more fresh label. *)
From Coq Require Import ZArith List Bool Lia Arith Permutation.
From Rscel Require Import Base.Prims Model.Value Model.Compile Spec.WfCode Proofs.Asm.
Import ListNotations.
Local Open Scope nat_scope.

Definition wf1 : code -> bool := fun _ => true.

Definition in_range (n n' l : nat) : Prop := n <= l < n'.
Definition lset := nat -> Prop.
Definition fresh_in (R : lset) (G : lmap) : Prop := forall l, R l -> G l = None.

(** heights relative to a base: [None] = no path reaches the point *)
Definition hs (k : nat) (a : option nat) : option nat := option_map (fun x => k + x) a.

Lemma NoDup_app_disjoint {A} (l1 l2 : list A) : NoDup l1 -> NoDup l2 -> (forall x, In x l1 -> In x l2 -> False) -> NoDup (l1 ++ l2).
Proof.
  induction l1 as [|a l1 IH]; intros H1 H2 Hd; [exact H2|]. cbn. inversion H1 as [|? ? Ha Hr]; subst. constructor.
  - intros Hin. apply in_app_or in Hin. destruct Hin as [Hin|Hin]; [auto|]. apply (Hd a); [left; reflexivity|exact Hin].
  - apply IH; auto. intros x Hx Hy. apply (Hd x); [right; exact Hx|exact Hy].
Qed.

Lemma tfwd_mono t : forall L L', incl L L' -> tfwd L t -> tfwd L' t.
Proof.
  induction t as [|i|l|w l|l|bc Hb|a IHa b IHb]; intros L L' Hi H; cbn [tfwd] in *; auto.
  destruct H as [Ha Hb']. split; [|eauto]. eapply IHa; [|exact Ha]. apply incl_app; [apply incl_appl, incl_refl|apply incl_appr; exact Hi].
Qed.

Fixpoint tuses (t : ptree) : list nat :=
  match t with
  | TJ l | TJC _ l => [l]
  | TSeq a b => tuses a ++ tuses b
  | _ => []
  end.

Lemma tfwd_uses t : forall L, tfwd L t -> forall l, In l (tuses t) -> In l (tdefs t) \/ In l L.
Proof.
  induction t as [|i|l0|w l0|l0|bc Hb|a IHa b IHb]; intros L H l Hin; cbn [tfwd tuses] in *; try contradiction.
  - destruct Hin as [<-|[]]. right. exact H.
  - destruct Hin as [<-|[]]. right. exact H.
  - destruct H as [Ha Hb']. rewrite tdefs_seq. apply in_app_or in Hin. destruct Hin as [Hin|Hin].
    + destruct (IHa _ Ha l Hin) as [D|D]; [left; apply in_or_app; left; exact D|].
      apply in_app_or in D. destruct D as [D|D]; [left; apply in_or_app; right; exact D|right; exact D].
    + destruct (IHb _ Hb' l Hin) as [D|D]; [left; apply in_or_app; right; exact D|right; exact D].
Qed.

(** a tree whose own (fresh) labels lie in the set R, taking relative height a to b, possibly
    jumping to the external labels [ext], each expected at its relative height *)
Record eff (ext : list (nat * nat)) (R : lset) (t : ptree) (a b : option nat) : Prop := mkEff {
  e_nest : tnested wf1 t;
  e_fwd : tfwd (map fst ext) t;
  e_nodup : NoDup (tdefs t);
  e_range : forall l, In l (tdefs t) -> R l;
  e_check : forall k G, fresh_in R G ->
      (forall l o, In (l, o) ext -> G l = None \/ G l = Some (k + o)) ->
      exists G', tcheck t (hs k a) G = Some (hs k b, G') /\
                 (forall l, ~ R l -> ~ In l (map fst ext) -> G' l = G l) /\
                 (forall l o, In (l, o) ext ->
                    (In l (tuses t) -> G' l = Some (k + o)) /\ (~ In l (tuses t) -> G' l = G l))
}.

Lemma eff_weaken ext (R R' : lset) t a b : eff ext R t a b -> (forall l, R l -> R' l) -> eff ext R' t a b.
Proof.
  intros [N F D Rg C] Hsub. split; auto.
  intros k G Hf He. destruct (C k G) as (G' & T & Fr & Ex).
  - intros l Hl. apply Hf. auto.
  - exact He.
  - exists G'. split; [exact T|]. split; [|exact Ex]. intros l Hl Hn. apply Fr; [|exact Hn]. intros Hr. apply Hl. auto.
Qed.

(** more external labels may be allowed as long as they are not the tree's own *)
Lemma eff_ext ext ext' R t a b : eff ext R t a b -> incl ext ext' ->
  (forall l, In l (map fst ext') -> ~ R l) ->
  (forall l o o', In (l, o) ext' -> In (l, o') ext -> o = o') ->
  eff ext' R t a b.
Proof.
  intros [N F D Rg C] Hi Hout Hfun. split; auto.
  - eapply tfwd_mono; [|exact F]. intros l Hl. apply in_map_iff in Hl. destruct Hl as ([l0 o] & E & Hl). cbn in E. subst.
    apply in_map_iff. exists (l, o). split; [reflexivity|apply Hi; exact Hl].
  - intros k G Hf He. destruct (C k G Hf) as (G' & T & Fr & Ex).
    + intros l o Hin. apply He. apply Hi. exact Hin.
    + exists G'. split; [exact T|]. split.
      * intros l Hr Hn. apply Fr; [exact Hr|]. intros Hin. apply Hn.
        apply in_map_iff in Hin. destruct Hin as ([l0 o] & E & Hl). cbn in E. subst.
        apply in_map_iff. exists (l, o). split; [reflexivity|apply Hi; exact Hl].
      * intros l o Hin. destruct (in_dec Nat.eq_dec l (map fst ext)) as [Hy|Hn].
        -- apply in_map_iff in Hy. destruct Hy as ([l0 o'] & E & Hl). cbn in E. subst.
           rewrite (Hfun l o o' Hin Hl). exact (Ex l o' Hl).
        -- assert (Hout' : ~ R l).
           { apply Hout. apply in_map_iff. exists (l, o). split; [reflexivity|exact Hin]. }
           split.
           ++ intros Hu. exfalso. destruct (tfwd_uses t _ F l Hu) as [Dd|Dd]; [apply Hout'; apply Rg; exact Dd|exact (Hn Dd)].
           ++ intros _. apply Fr; assumption.
Qed.

Lemma eff_instr ext R i : is_jump i = false ->
  eff ext R (TI i) (Some (pops i)) (Some (pushes i)).
Proof.
  intros Hj. split.
  - split; [exact Hj|]. destruct i; try exact I. destruct v; try exact I. reflexivity.
  - exact I.
  - constructor.
  - intros x [].
  - intros k G _ _. exists G. cbn [tcheck hs option_map].
    assert (L : Nat.leb (pops i) (k + pops i) = true) by (apply Nat.leb_le; lia). rewrite L.
    replace (k + pops i - pops i + pushes i) with (k + pushes i) by lia.
    split; [reflexivity|]. split; [reflexivity|]. intros l o _. split; [intros []|reflexivity].
Qed.

Lemma eff_nil ext R a : eff ext R TNil a a.
Proof.
  split.
  - exact I.
  - exact I.
  - constructor.
  - intros x [].
  - intros k G _ _. exists G. split; [reflexivity|]. split; [reflexivity|]. intros l o _. split; [intros []|reflexivity].
Qed.

Lemma eff_chunk ext R bc Hb : validate wf1 bc Hb = true -> eff ext R (TChunk bc Hb) (Some 0) (Some 1).
Proof.
  intros Hv. split.
  - exact Hv.
  - exact I.
  - constructor.
  - intros x [].
  - intros k G _ _. exists G. cbn [tcheck hs option_map]. rewrite Nat.add_0_r. replace (k + 1) with (S k) by lia.
    split; [reflexivity|]. split; [reflexivity|]. intros l o _. split; [intros []|reflexivity].
Qed.

Definition lunion (A B : lset) : lset := fun l => A l \/ B l.

(** sequencing of two trees whose own label sets are disjoint *)
Lemma eff_seqR ext (R1 R2 : lset) t1 t2 a b c :
  (forall l, R1 l -> R2 l -> False) ->
  (forall l, In l (map fst ext) -> ~ R1 l /\ ~ R2 l) ->
  eff ext R1 t1 a b -> eff ext R2 t2 b c -> eff ext (lunion R1 R2) (TSeq t1 t2) a c.
Proof.
  intros Hdis Hext [N1 F1 D1 Rg1 C1] [N2 F2 D2 Rg2 C2]. split.
  - split; assumption.
  - cbn [tfwd]. split; [|exact F2]. eapply tfwd_mono; [|exact F1]. apply incl_appr, incl_refl.
  - rewrite tdefs_seq. apply NoDup_app_disjoint; try assumption. intros l Ha Hb. exact (Hdis l (Rg1 l Ha) (Rg2 l Hb)).
  - intros l Hl. rewrite tdefs_seq in Hl. apply in_app_or in Hl. destruct Hl as [Hl|Hl]; [left; auto|right; auto].
  - intros k G Hf He.
    destruct (C1 k G) as (G1 & T1 & Fr1 & Ex1).
    { intros l Hl. apply Hf. left. exact Hl. }
    { exact He. }
    destruct (C2 k G1) as (G2 & T2 & Fr2 & Ex2).
    { intros l Hl. rewrite Fr1.
      - apply Hf. right. exact Hl.
      - intros H1. exact (Hdis l H1 Hl).
      - intros Hin. exact (proj2 (Hext l Hin) Hl). }
    { intros l o Hin. destruct (Ex1 l o Hin) as [Eu En].
      destruct (in_dec Nat.eq_dec l (tuses t1)) as [Hu|Hu]; [right; auto|rewrite (En Hu); exact (He l o Hin)]. }
    exists G2. cbn [tcheck]. rewrite T1. split; [exact T2|]. split.
    + intros l Hr Hn. rewrite Fr2, Fr1; auto; intros Hx; apply Hr; [left|right]; exact Hx.
    + intros l o Hin. destruct (Ex1 l o Hin) as [Eu1 En1], (Ex2 l o Hin) as [Eu2 En2]. cbn [tuses]. split.
      * intros Hu. apply in_app_or in Hu.
        destruct (in_dec Nat.eq_dec l (tuses t2)) as [Hu2|Hu2]; [auto|].
        rewrite (En2 Hu2). destruct Hu as [Hu|Hu]; [auto|contradiction].
      * intros Hu. rewrite En2, En1; auto; intros Hx; apply Hu; apply in_or_app; auto.
Qed.

(** the interval forms used for consecutive label ranges *)
Lemma eff_seq2 ext n n' p1 p2 q1 q2 t1 t2 a b c :
  n <= p1 -> p2 <= n' -> n <= q1 -> q2 <= n' -> (p2 <= q1 \/ q2 <= p1) ->
  (forall l, In l (map fst ext) -> ~ in_range n n' l) ->
  eff ext (in_range p1 p2) t1 a b -> eff ext (in_range q1 q2) t2 b c -> eff ext (in_range n n') (TSeq t1 t2) a c.
Proof.
  intros Hp1 Hp2 Hq1 Hq2 Hdis Hext E1 E2.
  eapply eff_weaken; [eapply eff_seqR; [| |exact E1|exact E2]|].
  - intros l A B. unfold in_range in *. lia.
  - intros l Hin. specialize (Hext l Hin). unfold in_range in *. lia.
  - intros l [A|A]; unfold in_range in *; lia.
Qed.

Lemma eff_seq ext n n1 n2 t1 t2 a b c :
  n <= n1 -> n1 <= n2 ->
  (forall l, In l (map fst ext) -> ~ in_range n n2 l) ->
  eff ext (in_range n n1) t1 a b -> eff ext (in_range n1 n2) t2 b c -> eff ext (in_range n n2) (TSeq t1 t2) a c.
Proof. intros H1 H2 Hext E1 E2. eapply eff_seq2 with (p1 := n) (p2 := n1) (q1 := n1) (q2 := n2); eauto; lia. Qed.

(** jumps to an external label *)
Lemma eff_jc ext R w L o : In (L, o) ext -> (forall o', In (L, o') ext -> o' = o) ->
  eff ext R (TJC w L) (Some (S o)) (Some o).
Proof.
  intros Hin Hfun. split.
  - exact I.
  - cbn [tfwd]. apply in_map_iff. exists (L, o). split; [reflexivity|exact Hin].
  - constructor.
  - intros x [].
  - intros k G _ He. cbn [tcheck hs option_map tuses]. rewrite Nat.add_succ_r.
    destruct (He L o Hin) as [E|E]; unfold constrain; rewrite E.
    + exists (upd G L (k + o)). split; [reflexivity|]. split.
      * intros l _ Hn. unfold upd. destruct (Nat.eqb_spec l L); [|reflexivity]. subst. exfalso. apply Hn.
        apply in_map_iff. exists (L, o). split; [reflexivity|exact Hin].
      * intros l o' Hl. unfold upd. destruct (Nat.eqb_spec l L).
        -- subst. rewrite (Hfun o' Hl). split; [reflexivity|]. intros Hn. exfalso. apply Hn. left. reflexivity.
        -- split; [|reflexivity]. intros [Hx|[]]. congruence.
    + rewrite Nat.eqb_refl. exists G. split; [reflexivity|]. split; [reflexivity|].
      intros l o' Hl. split; [|reflexivity]. intros [<-|[]]. rewrite (Hfun o' Hl). exact E.
Qed.

Lemma eff_j ext R L o : In (L, o) ext -> (forall o', In (L, o') ext -> o' = o) ->
  eff ext R (TJ L) (Some o) None.
Proof.
  intros Hin Hfun. split.
  - exact I.
  - cbn [tfwd]. apply in_map_iff. exists (L, o). split; [reflexivity|exact Hin].
  - constructor.
  - intros x [].
  - intros k G _ He. cbn [tcheck hs option_map tuses].
    destruct (He L o Hin) as [E|E]; unfold constrain; rewrite E.
    + exists (upd G L (k + o)). split; [reflexivity|]. split.
      * intros l _ Hn. unfold upd. destruct (Nat.eqb_spec l L); [|reflexivity]. subst. exfalso. apply Hn.
        apply in_map_iff. exists (L, o). split; [reflexivity|exact Hin].
      * intros l o' Hl. unfold upd. destruct (Nat.eqb_spec l L).
        -- subst. rewrite (Hfun o' Hl). split; [reflexivity|]. intros Hn. exfalso. apply Hn. left. reflexivity.
        -- split; [|reflexivity]. intros [Hx|[]]. congruence.
    + rewrite Nat.eqb_refl. exists G. split; [reflexivity|]. split; [reflexivity|].
      intros l o' Hl. split; [|reflexivity]. intros [<-|[]]. rewrite (Hfun o' Hl). exact E.
Qed.

Lemma tcheck_seq a b h G : tcheck (TSeq a b) h G = match tcheck a h G with Some (h1, G1) => tcheck b h1 G1 | None => None end.
Proof. reflexivity. Qed.

(** a label is defined after the part that jumps to it: it becomes one of the tree's own labels *)
Lemma eff_defineR ext (R1 R2 : lset) pre post L o a b c :
  eff ((L, o) :: ext) R1 pre a b ->
  (b = Some o \/ (b = None /\ In L (tuses pre))) ->
  eff ext R2 post (Some o) c ->
  (forall l, R1 l -> R2 l -> False) -> ~ R1 L -> ~ R2 L ->
  (forall l, In l (map fst ext) -> ~ R1 l /\ ~ R2 l /\ l <> L) ->
  eff ext (fun l => R1 l \/ R2 l \/ l = L) (TSeq pre (TSeq (TL L) post)) a c.
Proof.
  intros [N1 F1 D1 Rg1 C1] Hb [N2 F2 D2 Rg2 C2] Hdis HLp HLq Hext.
  assert (HLe : ~ In L (map fst ext)) by (intros Hin; destruct (Hext L Hin) as (_ & _ & Hne); congruence).
  split.
  - cbn [tnested]. auto.
  - cbn [tfwd]. split; [|split; [exact I|exact F2]].
    eapply tfwd_mono; [|exact F1]. intros l [<-|Hl].
    + rewrite tdefs_seq. cbn. left. reflexivity.
    + apply in_or_app. right. exact Hl.
  - rewrite !tdefs_seq. change (tdefs (TL L)) with [L]. cbn [app].
    apply NoDup_app_disjoint; [exact D1| |].
    + constructor; [|exact D2]. intros Hin. apply HLq. apply Rg2. exact Hin.
    + intros l Ha [<-|Hb']; [apply HLp; apply Rg1; exact Ha|]. exact (Hdis l (Rg1 l Ha) (Rg2 l Hb')).
  - intros l Hl. rewrite !tdefs_seq in Hl. change (tdefs (TL L)) with [L] in Hl. cbn [app] in Hl.
    apply in_app_or in Hl. destruct Hl as [Hl|[<-|Hl]]; [left; auto|right; right; reflexivity|right; left; auto].
  - intros k G Hf He.
    destruct (C1 k G) as (G1 & T1 & Fr1 & Ex1).
    { intros l Hl. apply Hf. left. exact Hl. }
    { intros l o' [E|Hin]; [injection E as <- <-; left; apply Hf; right; right; reflexivity|exact (He l o' Hin)]. }
    destruct (Ex1 L o (or_introl eq_refl)) as [ExU ExN].
    assert (TLs : exists G1', tcheck (TL L) (hs k b) G1 = Some (Some (k + o), G1') /\ G1' L = Some (k + o) /\
                              (forall l, l <> L -> G1' l = G1 l)).
    { destruct Hb as [->|[-> Hu]]; cbn [tcheck hs option_map].
      - destruct (in_dec Nat.eq_dec L (tuses pre)) as [Hu|Hu].
        + unfold constrain. rewrite (ExU Hu), Nat.eqb_refl. exists G1. cbn. repeat split; auto.
        + unfold constrain. rewrite (ExN Hu), (Hf L (or_intror (or_intror eq_refl))). exists (upd G1 L (k + o)). cbn. repeat split.
          * unfold upd. rewrite Nat.eqb_refl. reflexivity.
          * intros l Hne. unfold upd. destruct (Nat.eqb_spec l L); [contradiction|reflexivity].
      - rewrite (ExU Hu). exists G1. repeat split; auto. }
    destruct TLs as (G1' & TL1 & GL & Gother).
    destruct (C2 k G1') as (G2 & T2 & Fr2 & Ex2).
    { intros l Hl. assert (l <> L) by (intros ->; exact (HLq Hl)). rewrite (Gother l H), Fr1.
      - apply Hf. right. left. exact Hl.
      - intros H1. exact (Hdis l H1 Hl).
      - intros [E|Hin]; [cbn in E; congruence|]. destruct (Hext l Hin) as (_ & Hn2 & _). exact (Hn2 Hl). }
    { intros l o' Hin. assert (l <> L) by (intros ->; apply HLe; apply in_map_iff; exists (L, o'); auto).
      rewrite (Gother l H). destruct (Ex1 l o' (or_intror Hin)) as [Eu En].
      destruct (in_dec Nat.eq_dec l (tuses pre)) as [Hu|Hu]; [right; auto|rewrite (En Hu); exact (He l o' Hin)]. }
    exists G2. rewrite tcheck_seq, T1, tcheck_seq, TL1. split; [exact T2|]. split.
    + intros l Hr Hn. assert (l <> L) by (intros ->; apply Hr; right; right; reflexivity).
      assert (A1 : ~ R1 l) by (intros Hx; apply Hr; left; exact Hx).
      assert (A2 : ~ R2 l) by (intros Hx; apply Hr; right; left; exact Hx).
      assert (A3 : ~ In l (map fst ((L, o) :: ext))) by (intros [E|Hin]; [cbn in E; congruence|exact (Hn Hin)]).
      rewrite (Fr2 l A2 Hn), (Gother l H), (Fr1 l A1 A3). reflexivity.
    + intros l o' Hin. assert (l <> L) by (intros ->; apply HLe; apply in_map_iff; exists (L, o'); auto).
      destruct (Ex1 l o' (or_intror Hin)) as [Eu1 En1], (Ex2 l o' Hin) as [Eu2 En2]. cbn [tuses app]. split.
      * intros Hu. apply in_app_or in Hu.
        destruct (in_dec Nat.eq_dec l (tuses post)) as [Hu2|Hu2]; [auto|].
        rewrite (En2 Hu2), (Gother l H). destruct Hu as [Hu|Hu]; [auto|contradiction].
      * intros Hu. rewrite En2, (Gother l H), En1; auto; intros Hx; apply Hu; apply in_or_app; auto.
Qed.

(** interval form *)
Lemma eff_define ext n n' p1 p2 q1 q2 pre post L o a b c :
  eff ((L, o) :: ext) (in_range p1 p2) pre a b ->
  (b = Some o \/ (b = None /\ In L (tuses pre))) ->
  eff ext (in_range q1 q2) post (Some o) c ->
  n <= p1 -> p1 <= p2 -> p2 <= q1 -> q1 <= q2 -> q2 <= n' ->
  in_range n n' L -> ~ in_range p1 p2 L -> ~ in_range q1 q2 L ->
  (forall l, In l (map fst ext) -> ~ in_range n n' l) ->
  eff ext (in_range n n') (TSeq pre (TSeq (TL L) post)) a c.
Proof.
  intros E1 Hb E2 H1 H2 H3 H4 H5 HL HLp HLq Hext.
  eapply eff_weaken; [eapply eff_defineR; [exact E1|exact Hb|exact E2| | | |]|].
  - intros l A B. unfold in_range in *. lia.
  - exact HLp.
  - exact HLq.
  - intros l Hin. specialize (Hext l Hin). split; [unfold in_range in *; lia|]. split; [unfold in_range in *; lia|]. intros ->. apply Hext. exact HL.
  - intros l [A|[A|E]]; [| |subst l; exact HL]; unfold in_range in *; lia.
Qed.
