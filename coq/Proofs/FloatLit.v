(* Proofs/FloatLit.v — C13: a decimal floating-point literal denotes the
   correctly rounded (to nearest, ties to even) binary64 of the real number
   mantissa * 10^exponent, or +infinity on overflow.  Uses Flocq's
   specification of rounding over the reals (hence the standard real-number
   and classical axioms of the Coq standard library). *)
From Coq Require Import ZArith Bool Reals Lia Floats.SpecFloat.
From Flocq Require Import Core.Zaux Core.Raux Core.Defs Core.Float_prop Core.Generic_fmt Core.FLT
  Core.Round_NE IEEE754.BinarySingleNaN.
From Rscel Require Import Base.F64 Base.Text Model.Lexer Proofs.F64Facts.
Open Scope Z_scope.

(** the real number spelled by mantissa m and decimal exponent e *)
Definition dec_real (m e : Z) : R :=
  if 0 <=? e then IZR (m * 10 ^ e) else (IZR m / IZR (10 ^ (- e)))%R.

Notation fexp64 := (FLT_exp (3 - 1024 - 53) 53).
Notation rnd64 x := (round radix2 fexp64 ZnearestE x).

Theorem dec_to_f64_correctly_rounded pm e :
  let x := dec_real (Zpos pm) e in
  let z := dec_to_f64 (Zpos pm) e in
  if Rlt_bool (Rabs (rnd64 x)) (bpow radix2 1024) then
    SF2R radix2 z = rnd64 x /\ is_finite_SF z = true
  else z = S754_infinity false.
Proof.
  intros x z. unfold z, x, dec_to_f64, dec_real. destruct (0 <=? e) eqn:He.
  - (* integer mantissa * 10^e, one rounding *)
    unfold prec64, emax64. rewrite binary_normalize_equiv.
    pose proof (binary_normalize_correct 53 1024 Hprec64 Hmax64 mode_NE (Zpos pm * 10 ^ e) 0 false) as H.
    cbv zeta in H. unfold F2R in H. cbn [Fnum Fexp] in H. change (bpow radix2 0) with 1%R in H. rewrite Rmult_1_r in H.
    change (round_mode mode_NE) with ZnearestE in H.
    match type of H with (if ?c then _ else _) =>
      match goal with |- if ?c' then _ else _ => change c' with c end; destruct c end.
    + destruct H as (H1 & H2 & _). split; [rewrite SF2R_B2SF; exact H1|].
      rewrite is_finite_SF_B2SF. exact H2.
    + rewrite H. apply Z.leb_le in He.
      assert (Hpos : (0 < IZR (Zpos pm * 10 ^ e))%R).
      { apply IZR_lt. apply Z.mul_pos_pos; [reflexivity|apply Z.pow_pos_nonneg; lia]. }
      rewrite Rlt_bool_false by (apply Rlt_le; exact Hpos). reflexivity.
  - (* division by a power of ten, one rounding *)
    apply Z.leb_gt in He. destruct (10 ^ (- e)) as [|pd|pd] eqn:Ep.
    + exfalso. assert (0 < 10 ^ (- e)) by (apply Z.pow_pos_nonneg; lia). lia.
    + unfold prec64, emax64.
      pose proof (Bdiv_correct_aux 53 1024 Hprec64 Hmax64 mode_NE false pm 0 false pd 0) as H.
      cbv zeta in H. unfold F2R in H. cbn [Fnum Fexp cond_Zopp xorb] in H. change (bpow radix2 0) with 1%R in H. rewrite !Rmult_1_r in H.
      change (round_mode mode_NE) with ZnearestE in H.
      destruct (SFdiv_core_binary 53 1024 (Z.pos pm) 0 (Z.pos pd) 0) as [[mz ez] lz].
      rewrite binary_round_aux_equiv. destruct H as [_ H].
      match type of H with (if ?c then _ else _) =>
        match goal with |- if ?c' then _ else _ => change c' with c end; destruct c end.
      * destruct H as (H1 & H2 & _). split; assumption.
      * exact H.
    + exfalso. assert (0 < 10 ^ (- e)) by (apply Z.pow_pos_nonneg; lia). lia.
Qed.

(** zero mantissa: +0.0 *)
Theorem dec_to_f64_zero e : dec_to_f64 0 e = S754_zero false.
Proof. reflexivity. Qed.
