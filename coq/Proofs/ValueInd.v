(* Proofs/ValueInd.v — induction over values through the nested lists and maps. *)
From Coq Require Import ZArith List Bool.
From Rscel Require Import Base.Prims Base.F64 Model.Value.
Import ListNotations.

Section ValueInd.
  Variable P : value -> Prop.
  Hypothesis Hlist : forall l, Forall P l -> P (VList l).
  Hypothesis Hmap : forall m, Forall (fun kv => P (snd kv)) m -> P (VMap m).
  Hypothesis Hleaf : forall v, match v with VList _ | VMap _ => False | _ => True end -> P v.

  Fixpoint value_ind_nested (v : value) : P v :=
    match v with
    | VList l =>
        Hlist l ((fix go (l : list value) : Forall P l :=
                    match l with
                    | [] => Forall_nil P
                    | x :: r => Forall_cons x (value_ind_nested x) (go r)
                    end) l)
    | VMap m =>
        Hmap m ((fix go (m : list (bytes * value)) : Forall (fun kv => P (snd kv)) m :=
                   match m with
                   | [] => Forall_nil _
                   | (k, x) :: r => @Forall_cons _ (fun kv => P (snd kv)) (k, x) r (value_ind_nested x) (go r)
                   end) m)
    | VInt z => Hleaf (VInt z) I
    | VUInt z => Hleaf (VUInt z) I
    | VFloat f => Hleaf (VFloat f) I
    | VBool b => Hleaf (VBool b) I
    | VString s => Hleaf (VString s) I
    | VBytes s => Hleaf (VBytes s) I
    | VNull => Hleaf VNull I
    | VIdent s => Hleaf (VIdent s) I
    | VType s => Hleaf (VType s) I
    | VTime ns => Hleaf (VTime ns) I
    | VDur ns => Hleaf (VDur ns) I
    | VCode c => Hleaf (VCode c) I
    | VErr e => Hleaf (VErr e) I
    end.
End ValueInd.

(** values and instructions together (code constants hold instructions, PUSH holds a value) *)
Section ValueInstrInd.
  Variable P : value -> Prop.
  Variable Q : instr -> Prop.
  Hypothesis Hlist : forall l, Forall P l -> P (VList l).
  Hypothesis Hmap : forall m, Forall (fun kv => P (snd kv)) m -> P (VMap m).
  Hypothesis Hcode : forall c, Forall Q c -> P (VCode c).
  Hypothesis Hleaf : forall v, match v with VList _ | VMap _ | VCode _ => False | _ => True end -> P v.
  Hypothesis Hpush : forall v, P v -> Q (IPush v).
  Hypothesis Hother : forall i, match i with IPush _ => False | _ => True end -> Q i.

  Fixpoint value_instr_ind (v : value) : P v :=
    match v with
    | VList l =>
        Hlist l ((fix go (l : list value) : Forall P l :=
                    match l with [] => Forall_nil P | x :: r => Forall_cons x (value_instr_ind x) (go r) end) l)
    | VMap m =>
        Hmap m ((fix go (m : list (bytes * value)) : Forall (fun kv => P (snd kv)) m :=
                   match m with
                   | [] => Forall_nil _
                   | (k, x) :: r => @Forall_cons _ (fun kv => P (snd kv)) (k, x) r (value_instr_ind x) (go r)
                   end) m)
    | VCode c =>
        Hcode c ((fix go (c : list instr) : Forall Q c :=
                    match c with [] => Forall_nil Q | i :: r => Forall_cons i (instr_value_ind i) (go r) end) c)
    | VInt z => Hleaf (VInt z) I
    | VUInt z => Hleaf (VUInt z) I
    | VFloat f => Hleaf (VFloat f) I
    | VBool b => Hleaf (VBool b) I
    | VString s => Hleaf (VString s) I
    | VBytes s => Hleaf (VBytes s) I
    | VNull => Hleaf VNull I
    | VIdent s => Hleaf (VIdent s) I
    | VType s => Hleaf (VType s) I
    | VTime ns => Hleaf (VTime ns) I
    | VDur ns => Hleaf (VDur ns) I
    | VErr e => Hleaf (VErr e) I
    end
  with instr_value_ind (i : instr) : Q i :=
    match i with
    | IPush v => Hpush v (value_instr_ind v)
    | IPop => Hother IPop I | ITest => Hother ITest I | IDup => Hother IDup I | IOr => Hother IOr I
    | IAnd => Hother IAnd I | INot => Hother INot I | INeg => Hother INeg I | IAdd => Hother IAdd I
    | ISub => Hother ISub I | IMul => Hother IMul I | IDiv => Hother IDiv I | IMod => Hother IMod I
    | ILt => Hother ILt I | ILe => Hother ILe I | IEq => Hother IEq I | INe => Hother INe I
    | IGe => Hother IGe I | IGt => Hother IGt I | IIn => Hother IIn I
    | IJmp d => Hother (IJmp d) I | IJmpCond w d => Hother (IJmpCond w d) I
    | IMkList n => Hother (IMkList n) I | IMkDict n => Hother (IMkDict n) I
    | IIndex => Hother IIndex I | IAccess => Hother IAccess I
    | ICall n => Hother (ICall n) I | IFmt n => Hother (IFmt n) I
    end.
End ValueInstrInd.
