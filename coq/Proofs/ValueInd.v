(* Proofs/ValueInd.v — induction over values through the nested lists and maps. *)
From Coq Require Import ZArith List Bool.
From Rscel Require Import Base.Prims Base.F64 Model.Value.
Import ListNotations.

Section ValueInd.
  Variable P : value -> Prop.
  Hypothesis Hlist : forall l, Forall P l -> P (VList l).
  Hypothesis Hmap : forall m, Forall (fun kv => P (snd kv)) m -> P (VMap m).
  Hypothesis Hleaf : forall v, match v with VList _ | VMap _ => False | _ => True end -> P v.

  Fixpoint value_ind_nested (v : value) : P v :=
    match v with
    | VList l =>
        Hlist l ((fix go (l : list value) : Forall P l :=
                    match l with
                    | [] => Forall_nil P
                    | x :: r => Forall_cons x (value_ind_nested x) (go r)
                    end) l)
    | VMap m =>
        Hmap m ((fix go (m : list (bytes * value)) : Forall (fun kv => P (snd kv)) m :=
                   match m with
                   | [] => Forall_nil _
                   | (k, x) :: r => @Forall_cons _ (fun kv => P (snd kv)) (k, x) r (value_ind_nested x) (go r)
                   end) m)
    | VInt z => Hleaf (VInt z) I
    | VUInt z => Hleaf (VUInt z) I
    | VFloat f => Hleaf (VFloat f) I
    | VBool b => Hleaf (VBool b) I
    | VString s => Hleaf (VString s) I
    | VBytes s => Hleaf (VBytes s) I
    | VNull => Hleaf VNull I
    | VIdent s => Hleaf (VIdent s) I
    | VType s => Hleaf (VType s) I
    | VTime ns => Hleaf (VTime ns) I
    | VDur ns => Hleaf (VDur ns) I
    | VCode c => Hleaf (VCode c) I
    | VErr e => Hleaf (VErr e) I
    end.
End ValueInd.
