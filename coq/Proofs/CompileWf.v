(* Proofs/CompileWf.v — C10: every program the compiler emits is well-formed.
   For every expression, fuel and label counter: if the code generator returns, the code it returns
   is the flattening of a height-disciplined tree over fresh labels (Proofs/TreeAlg.v), hence resolves
   and passes the validator (Proofs/Asm.v) — and so does every nested block it pushes for call
   arguments, macro bodies and f-string segments, each being such a result itself. *)
From Coq Require Import ZArith List Bool Lia Arith.
From Coq Require Strings.String.
Import Coq.Strings.String.StringSyntax.
From Rscel Require Import Base.Prims Base.F64 Base.Text Model.Value Model.Ops Model.Funcs Model.Interp
     Model.Lexer Model.Ast Model.Parser Model.Compile Spec.WfCode Proofs.Asm Proofs.TreeAlg.
Import ListNotations.
Local Open Scope nat_scope.


(* ---- interval forms of the tree algebra (consecutive label ranges) ------------------------------- *)
Definition effI (ext : list (nat * nat)) (n n' : nat) (t : ptree) (a b : option nat) : Prop :=
  eff ext (in_range n n') t a b.

Lemma eff_weakenI ext n n' t a b m m' : effI ext n n' t a b -> m <= n -> n' <= m' -> effI ext m m' t a b.
Proof. intros E H1 H2. eapply eff_weaken; [exact E|]. intros l Hl. unfold in_range in *. lia. Qed.
Lemma eff_extI ext ext' n n' t a b : effI ext n n' t a b -> incl ext ext' ->
  (forall l, In l (map fst ext') -> ~ in_range n n' l) ->
  (forall l o o', In (l, o) ext' -> In (l, o') ext -> o = o') -> effI ext' n n' t a b.
Proof. intros. eapply eff_ext; eauto. Qed.
Lemma eff_instrI ext n i : is_jump i = false -> effI ext n n (TI i) (Some (pops i)) (Some (pushes i)).
Proof. apply eff_instr. Qed.
Lemma eff_nilI ext n a : effI ext n n TNil a a.
Proof. apply eff_nil. Qed.
Lemma eff_chunkI ext n bc Hb : validate wf1 bc Hb = true -> effI ext n n (TChunk bc Hb) (Some 0) (Some 1).
Proof. apply eff_chunk. Qed.
Lemma eff_jcI ext n w L o : In (L, o) ext -> (forall o', In (L, o') ext -> o' = o) -> effI ext n n (TJC w L) (Some (S o)) (Some o).
Proof. apply eff_jc. Qed.
Lemma eff_jI ext n L o : In (L, o) ext -> (forall o', In (L, o') ext -> o' = o) -> effI ext n n (TJ L) (Some o) None.
Proof. apply eff_j. Qed.

Definition shift_ext (m : nat) (ext : list (nat * nat)) : list (nat * nat) := map (fun lo => (fst lo, snd lo + m)) ext.

Lemma hs_shift k m a : hs (k + m) a = hs k (option_map (fun x => x + m) a).
Proof. destruct a as [x|]; cbn; [f_equal; lia|reflexivity]. Qed.

(** the same tree under m more values on the stack *)
Lemma eff_lift ext n n' t a b m :
  effI ext n n' t a b -> effI (shift_ext m ext) n n' t (option_map (fun x => x + m) a) (option_map (fun x => x + m) b).
Proof.
  intros [N F D R C]. split; auto.
  - unfold shift_ext. rewrite map_map. cbn [fst]. exact F.
  - intros k G Hf He. destruct (C (k + m) G Hf) as (G' & T & Fr & Ex).
    + intros l o Hin. destruct (He l (o + m)) as [E|E].
      * unfold shift_ext. apply in_map_iff. exists (l, o). split; [reflexivity|exact Hin].
      * left; exact E.
      * right. rewrite E. f_equal. lia.
    + exists G'. rewrite !hs_shift in T. split; [exact T|]. split.
      * intros l Hr Hn. apply Fr; [exact Hr|]. intros Hin. apply Hn. unfold shift_ext. rewrite map_map. exact Hin.
      * intros l o Hin. unfold shift_ext in Hin. apply in_map_iff in Hin. destruct Hin as ([l0 o0] & E & Hin). cbn in E. injection E as E1 E2. subst l o.
        destruct (Ex l0 o0 Hin) as [Eu En]. split; [|exact En]. intros Hu. rewrite (Eu Hu). f_equal. lia.
Qed.

Lemma eff_lift0 n n' t a b m : effI [] n n' t (Some a) (Some b) -> effI [] n n' t (Some (a + m)) (Some (b + m)).
Proof. intros H. exact (eff_lift [] n n' t (Some a) (Some b) m H). Qed.

(** a closed tree resolves to validated code *)
Lemma eff_closed_resolves n n' t : effI [] n n' t (Some 0) (Some 1) ->
  exists code H, resolve (flat t) = Some code /\ validate wf1 code H = true.
Proof.
  intros [N F D R C]. destruct (C 0 (fun _ => None)) as (G' & T & _ & _).
  - intros l _. reflexivity.
  - intros l o [].
  - cbn in T. eapply resolve_valid; eauto.
Qed.

(* ---- compile results ------------------------------------------------------------------------------ *)

Definition good (n n' : nat) (nv : nodeval) : Prop :=
  exists t, flat t = into_bytecode nv /\ effI [] n n' t (Some 0) (Some 1).

Lemma good_weaken n n' nv m m' : good n n' nv -> m <= n -> n' <= m' -> good m m' nv.
Proof. intros (t & F & E) H1 H2. exists t. split; [exact F|]. eapply eff_weakenI; eauto. Qed.

Lemma good_const n v : good n n (NConst v).
Proof. exists (TI (IPush v)). split; [reflexivity|]. exact (eff_instrI [] n (IPush v) eq_refl). Qed.

Lemma good_resolves n n' nv : good n n' nv ->
  exists code H, resolve (into_bytecode nv) = Some code /\ validate wf1 code H = true.
Proof. intros (t & F & E). rewrite <- F. eapply eff_closed_resolves; eauto. Qed.

(** code followed by instructions *)
Lemma good_instr_tree n i a b : is_jump i = false -> pops i = a -> pushes i = b -> effI [] n n (TI i) (Some a) (Some b).
Proof. intros Hj <- <-. apply eff_instrI. exact Hj. Qed.

Lemma no_ext n n2 : forall l, In l (map fst (@nil (nat * nat))) -> ~ in_range n n2 l.
Proof. intros l []. Qed.

(** compile2: a binary operator over two results with consecutive label ranges *)
Lemma good_compile2 op f cl cr n n1 n2 :
  is_jump op = false -> pops op = 2 -> pushes op = 1 ->
  n <= n1 -> n1 <= n2 -> good n n1 (cp_node cl) -> good n1 n2 (cp_node cr) ->
  good n n2 (cp_node (compile2 op f cl cr)).
Proof.
  intros Hj Hp Hq H1 H2 (ta & Fa & Ea) (tb & Fb & Eb). unfold compile2.
  assert (Bc : good n n2 (NBytecode (into_bytecode (cp_node cl) ++ into_bytecode (cp_node cr) ++ [PBc op]))).
  { exists (TSeq ta (TSeq tb (TI op))). split; [cbn [flat into_bytecode]; rewrite Fa, Fb; reflexivity|].
    eapply eff_seq with (n1 := n1) (b := Some 1); [exact H1|exact H2|apply no_ext|exact Ea|].
    eapply eff_seq with (n1 := n2) (b := Some 2); [exact H2|lia|apply no_ext|exact (eff_lift0 _ _ _ 0 1 1 Eb)|].
    apply good_instr_tree; assumption. }
  destruct (cp_node cl) as [ca|x]; [exact Bc|]. destruct (cp_node cr) as [cb|y]; [exact Bc|].
  cbn [cp_node]. eapply good_weaken; [apply (good_const n)|lia|lia].
Qed.

(* ---- the code-generation monad ------------------------------------------------------------------- *)

Lemma cbind_ok {A B} (m : C A) (f : A -> C B) n b n2 :
  cbind m f n = COk b n2 -> exists a n1, m n = COk a n1 /\ f a n1 = COk b n2.
Proof. unfold cbind. destruct (m n) as [a n1| | | |]; try discriminate. intros H. eauto. Qed.

Lemma cret_ok {A} (a : A) n b n2 : cret a n = COk b n2 -> b = a /\ n2 = n.
Proof. unfold cret. intros H. injection H as <- <-. auto. Qed.

(** a list of results with consecutive label ranges; two neighbours may have been compiled in the
    other order (a map entry: the key is compiled first, the value's code comes first) *)
Inductive goods : nat -> list cprog -> nat -> Prop :=
| g_nil n : goods n [] n
| g_cons n m n' c r : n <= m -> good n m (cp_node c) -> goods m r n' -> goods n (c :: r) n'
| g_swap n m1 m2 n' c1 c2 r : n <= m1 -> m1 <= m2 -> good n m1 (cp_node c2) -> good m1 m2 (cp_node c1) ->
    goods m2 r n' -> goods n (c1 :: c2 :: r) n'.

Lemma goods_le : forall n cs n', goods n cs n' -> n <= n'.
Proof. induction 1; lia. Qed.

(** the children's code in sequence: j values become j + number of children *)
Lemma goods_tree : forall n cs n', goods n cs n' -> forall j,
  exists t, flat t = flat_map (fun c => into_bytecode (cp_node c)) cs /\ effI [] n n' t (Some j) (Some (j + length cs)).
Proof.
  induction 1 as [n|n m n' c r H1 (tc & Fc & Ec) Hr IH|n m1 m2 n' c1 c2 r H1 H2 (t2 & F2 & E2) (t1 & F1 & E1) Hr IH]; intros j;
    cbn [flat_map length].
  - exists TNil. split; [reflexivity|]. rewrite Nat.add_0_r. apply eff_nilI.
  - destruct (IH (S j)) as (tr & Fr & Er). pose proof (goods_le _ _ _ Hr).
    exists (TSeq tc tr). split; [cbn [flat]; rewrite Fc, Fr; reflexivity|].
    eapply eff_seq with (n1 := m) (b := Some (S j)); [exact H1|assumption|apply no_ext| |].
    + pose proof (eff_lift0 _ _ _ 0 1 j Ec) as E. cbn in E. exact E.
    + replace (j + S (length r)) with (S j + length r) by lia. exact Er.
  - destruct (IH (S (S j))) as (tr & Fr & Er). pose proof (goods_le _ _ _ Hr).
    exists (TSeq (TSeq t1 t2) tr). split; [cbn [flat]; rewrite F1, F2, Fr, <- app_assoc; reflexivity|].
    eapply eff_seq with (n1 := m2) (b := Some (S (S j))); [lia|lia|apply no_ext| |].
    + eapply eff_seq2 with (p1 := m1) (p2 := m2) (q1 := n) (q2 := m1) (b := Some (S j)); try lia; [apply no_ext| |].
      * pose proof (eff_lift0 _ _ _ 0 1 j E1) as E. cbn in E. exact E.
      * pose proof (eff_lift0 _ _ _ 0 1 (S j) E2) as E. cbn in E. exact E.
    + replace (j + S (S (length r))) with (S (S j) + length r) by lia. exact Er.
Qed.

Lemma all_const_none_or cs : (exists vs, all_const cs = Some vs) \/ all_const cs = None.
Proof. destruct (all_const cs); eauto. Qed.

Lemma good_from_children cs op f n n' :
  is_jump op = false -> pops op = length cs -> pushes op = 1 -> goods n cs n' ->
  good n n' (cp_node (from_children cs op f)).
Proof.
  intros Hj Hp Hq Hg. pose proof (goods_le _ _ _ Hg) as Hle. unfold from_children.
  destruct (all_const cs) as [vs|].
  - cbn [cp_node]. eapply good_weaken; [apply (good_const n)|lia|lia].
  - cbn [cp_node]. destruct (goods_tree n cs n' Hg 0) as (t & Ft & Et).
    exists (TSeq t (TI op)). split; [cbn [flat into_bytecode]; rewrite Ft; reflexivity|].
    eapply eff_seq with (n1 := n') (b := Some (0 + length cs)); [exact Hle|lia|apply no_ext|exact Et|].
    cbn [Nat.add]. apply good_instr_tree; assumption.
Qed.

Section Gen.
  Variable fuel : nat.
  Variable rec_expr : expr -> C cprog.
  Hypothesis Hrec : forall e n cp n', rec_expr e n = COk cp n' -> n <= n' /\ good n n' (cp_node cp).

  Lemma c_list_good : forall es n cs n', c_list rec_expr es n = COk cs n' -> goods n cs n' /\ length cs = length es.
  Proof.
    induction es as [|e r IH]; intros n cs n' H; cbn [c_list] in H.
    - apply cret_ok in H. destruct H as [-> ->]. split; [constructor|reflexivity].
    - apply cbind_ok in H. destruct H as (x & n1 & Hx & H). apply cbind_ok in H. destruct H as (xs & n2 & Hxs & H).
      apply cret_ok in H. destruct H as [-> ->]. destruct (Hrec _ _ _ _ Hx) as [L1 G1]. destruct (IH _ _ _ Hxs) as [G2 Len].
      split; [|cbn; congruence]. eapply g_cons; eauto.
  Qed.

  (* ---- literals and f-strings ---- *)

  (** three more instructions after code that left j values: push, push the callee, call with one argument *)
  Lemma seg_tree n ta j v f1 :
    effI [] n n ta (Some 0) (Some j) ->
    effI [] n n (TSeq ta (TSeq (TI (IPush v)) (TSeq (TI (IPush f1)) (TI (ICall 1))))) (Some 0) (Some (S j)).
  Proof.
    intros E.
    eapply eff_seq with (n1 := n) (b := Some j); [lia|lia|apply no_ext|exact E|].
    eapply eff_seq with (n1 := n) (b := Some (S j)); [lia|lia|apply no_ext| |].
    { pose proof (eff_lift0 n n (TI (IPush v)) 0 1 j (eff_instrI [] n (IPush v) eq_refl)) as X. cbn in X. exact X. }
    eapply eff_seq with (n1 := n) (b := Some (S (S j))); [lia|lia|apply no_ext| |].
    { pose proof (eff_lift0 n n (TI (IPush f1)) 0 1 (S j) (eff_instrI [] n (IPush f1) eq_refl)) as X. cbn in X. exact X. }
    pose proof (eff_lift0 n n (TI (ICall 1)) 2 1 j (eff_instrI [] n (ICall 1) eq_refl)) as X. cbn in X.
    replace (S (S j)) with (2 + j) by lia. replace (S j) with (1 + j) by lia. exact X.
  Qed.

  Lemma c_lit_good l n cp n' : c_lit fuel rec_expr l n = COk cp n' -> n <= n' /\ good n n' (cp_node cp).
  Proof.
    destruct l; cbn [c_lit]; intros H;
      try (apply cret_ok in H; destruct H as [-> ->]; split; [lia|apply good_const]).
    match type of H with ?g segs [] [] O n = _ =>
      assert (G : forall segs acc ps j n cp n' ta, g segs acc ps j n = COk cp n' ->
                    flat ta = acc -> effI [] n n ta (Some 0) (Some j) -> n' = n /\ good n n (cp_node cp)) end.
    { clear H. induction segs0 as [|sg r IH]; intros acc ps j n0 cp0 n0' ta H Fa Ea.
      - apply cret_ok in H. destruct H as [-> ->]. split; [reflexivity|]. cbn [cp_node].
        exists (TSeq ta (TI (IFmt (Z.of_nat j)))). split; [cbn [flat into_bytecode]; rewrite Fa; reflexivity|].
        eapply eff_seq with (n1 := n0) (b := Some j); [lia|lia|apply no_ext|exact Ea|].
        apply good_instr_tree; [reflexivity|cbn; apply Nat2Z.id|reflexivity].
      - destruct sg as [s|s].
        + eapply (IH _ _ _ _ _ _ _ H); [|apply seg_tree; exact Ea]. cbn [flat]. rewrite Fa. reflexivity.
        + destruct (p_expr fuel (tz_init s)) as [e t| |]; try discriminate H.
          destruct (rec_expr e O) as [cpe ne| | | |]; try discriminate H.
          destruct (resolve (into_bytecode (cp_node cpe))) as [bc|]; [|discriminate H].
          eapply (IH _ _ _ _ _ _ _ H); [|apply seg_tree; exact Ea]. cbn [flat]. rewrite Fa. reflexivity. }
    destruct (G _ _ _ _ _ _ _ TNil H eq_refl (eff_nilI [] n (Some 0))) as [-> Gd]. split; [lia|exact Gd].
  Qed.

  (* ---- primaries ---- *)

  Lemma c_primary_good p n cp n' : c_primary fuel rec_expr p n = COk cp n' -> n <= n' /\ good n n' (cp_node cp).
  Proof.
    destruct p as [r name|r e|r es|r inits|r l]; cbn [c_primary]; intros H.
    - apply cret_ok in H. destruct H as [-> ->]. split; [lia|]. cbn [cp_node].
      exists (TI (IPush (VIdent (utf8_encode name)))). split; [reflexivity|]. exact (eff_instrI [] n (IPush (VIdent (utf8_encode name))) eq_refl).
    - eapply Hrec; eauto.
    - apply cbind_ok in H. destruct H as (cs & n1 & Hcs & H). apply cret_ok in H. destruct H as [-> ->].
      destruct (c_list_good _ _ _ _ Hcs) as [Gs Len]. split; [eapply goods_le; eauto|].
      apply good_from_children; [reflexivity| |reflexivity|exact Gs].
      cbn [pops]. unfold zlen. rewrite Nat2Z.id. congruence.
    - apply cbind_ok in H. destruct H as (cs & n1 & Hcs & H). apply cret_ok in H. destruct H as [-> ->].
      match type of Hcs with ?g inits n = _ =>
        assert (G : forall l n cs n', g l n = COk cs n' -> goods n cs n' /\ length cs = 2 * length l) end.
      { clear Hcs. induction l as [|[ri k v] l IH]; intros n0 cs0 n0' H0.
        - apply cret_ok in H0. destruct H0 as [-> ->]. split; [constructor|reflexivity].
        - apply cbind_ok in H0. destruct H0 as (ck & m1 & Hk & H0). apply cbind_ok in H0. destruct H0 as (cv & m2 & Hv & H0).
          apply cbind_ok in H0. destruct H0 as (rest & m3 & Hr & H0). apply cret_ok in H0. destruct H0 as [-> ->].
          destruct (Hrec _ _ _ _ Hk) as [L1 G1], (Hrec _ _ _ _ Hv) as [L2 G2]. destruct (IH _ _ _ Hr) as [G3 Len].
          split; [|cbn [length]; rewrite Len; cbn [length]; lia].
          eapply g_swap; eauto. }
      destruct (G _ _ _ _ Hcs) as [Gs Len]. split; [eapply goods_le; eauto|].
      apply good_from_children; [reflexivity| |reflexivity|exact Gs].
      cbn [pops]. unfold zlen. rewrite Nat2Z.id. lia.
    - eapply c_lit_good; eauto.
  Qed.

  (* ---- member chains ---- *)

  Lemma resolve_or_panic_ok c n bc n' : resolve_or_panic c n = COk bc n' -> resolve c = Some bc /\ n' = n.
  Proof. unfold resolve_or_panic. destruct (resolve c); [|discriminate]. intros H. injection H as <- <-. auto. Qed.

  (** code, then instructions that take the single value to a single value again *)
  Lemma good_then n0 n nv (tl : ptree) : n0 <= n ->
    good n0 n nv -> effI [] n n tl (Some 1) (Some 1) ->
    good n0 n (NBytecode (into_bytecode nv ++ flat tl)).
  Proof.
    intros Hle (t & Ft & Et) El.
    exists (TSeq t tl). split; [cbn [flat into_bytecode]; rewrite Ft; reflexivity|].
    eapply eff_seq with (n1 := n) (b := Some 1); [exact Hle|lia|apply no_ext|exact Et|exact El].
  Qed.

  (** push, then a binary instruction *)
  Lemma push_op_tree n v op : is_jump op = false -> pops op = 2 -> pushes op = 1 ->
    effI [] n n (TSeq (TI (IPush v)) (TI op)) (Some 1) (Some 1).
  Proof.
    intros Hj Hp Hq. eapply eff_seq with (n1 := n) (b := Some 2); [lia|lia|apply no_ext| |].
    - pose proof (eff_lift0 n n (TI (IPush v)) 0 1 1 (eff_instrI [] n (IPush v) eq_refl)) as X. cbn in X. exact X.
    - apply good_instr_tree; assumption.
  Qed.

  Lemma c_mprime_good cur m n0 n cp n' : n0 <= n -> good n0 n (cp_node cur) ->
    c_mprime fuel rec_expr cur m n = COk cp n' -> n <= n' /\ good n0 n' (cp_node cp).
  Proof.
    intros Hle Gc H. destruct m as [r1 r2 name|r rargs|r e]; cbn [c_mprime] in H.
    - (* field access *)
      assert (Bc : forall c, into_bytecode (cp_node cur) = c ->
                   good n0 n (NBytecode (c ++ [PBc (IPush (VIdent (utf8_encode name))); PBc IAccess]))).
      { intros c <-. apply (good_then n0 n (cp_node cur) (TSeq (TI (IPush (VIdent (utf8_encode name)))) (TI IAccess)) Hle Gc).
        apply push_op_tree; reflexivity. }
      destruct (cp_node cur) as [c|o] eqn:En.
      + apply cret_ok in H. destruct H as [-> ->]. split; [lia|]. exact (Bc c eq_refl).
      + assert (Hb : good n0 n (NBytecode [PBc (IPush o); PBc (IPush (VIdent (utf8_encode name))); PBc IAccess])) by exact (Bc _ eq_refl).
        destruct o; try (apply cret_ok in H; destruct H as [-> ->]; split; [lia|exact Hb]).
        destruct (access (VMap m) (utf8_encode name));
          apply cret_ok in H; destruct H as [-> ->]; split; try lia; try exact Hb;
          cbn [cp_node]; eapply good_weaken; try apply (good_const n0); lia.
    - (* call *)
      apply cbind_ok in H. destruct H as ([pushes ps] & n1 & Hp & H).
      match type of Hp with ?g rargs n = _ =>
        assert (G : forall l n pp n', g l n = COk pp n' ->
                      n <= n' /\ exists t, flat t = fst pp /\ forall j x, effI [] x x t (Some j) (Some (j + length l))) end.
      { clear Hp H. induction l as [|a l IH]; intros m0 pp m0' H0.
        - apply cret_ok in H0. destruct H0 as [-> ->]. split; [lia|]. exists TNil. split; [reflexivity|]. intros j x. rewrite Nat.add_0_r. apply eff_nilI.
        - apply cbind_ok in H0. destruct H0 as (ca & m1 & Ha & H0). apply cbind_ok in H0. destruct H0 as (bc & m2 & Hb & H0).
          apply cbind_ok in H0. destruct H0 as (rest & m3 & Hr & H0). apply cret_ok in H0. destruct H0 as [-> ->].
          destruct (Hrec _ _ _ _ Ha) as [L1 _]. apply resolve_or_panic_ok in Hb. destruct Hb as [_ ->].
          destruct (IH _ _ _ Hr) as (L3 & tr & Fr & Er). split; [lia|].
          exists (TSeq (TI (IPush (VCode bc))) tr). split; [cbn [flat fst]; rewrite Fr; reflexivity|].
          intros j x. eapply eff_seq with (n1 := x) (b := Some (S j)); [lia|lia|apply no_ext| |].
          + pose proof (eff_lift0 x x (TI (IPush (VCode bc))) 0 1 j (eff_instrI [] x (IPush (VCode bc)) eq_refl)) as X. cbn in X. exact X.
          + cbn [length]. replace (j + S (length l)) with (S j + length l) by lia. apply Er. }
      destruct (G _ _ _ _ Hp) as (L1 & tp & Fp & Ep). cbn [fst snd] in *.
      destruct Gc as (tc & Fc & Ec).
      (* the node before the compile-time evaluation *)
      set (node := mkCP (NBytecode (pushes ++ into_bytecode (cp_node cur) ++ [PBc (ICall (zlen rargs))])) (union ps (cp_params cur))) in H.
      assert (Gn : good n0 n (cp_node node)).
      { exists (TSeq tp (TSeq tc (TI (ICall (zlen rargs))))). split; [cbn [flat cp_node node into_bytecode]; rewrite Fp, Fc; reflexivity|].
        eapply eff_seq with (n1 := n0) (b := Some (0 + length rargs)); [lia|exact Hle|apply no_ext|apply Ep|].
        eapply eff_seq with (n1 := n) (b := Some (S (length rargs))); [exact Hle|lia|apply no_ext| |].
        - pose proof (eff_lift0 _ _ _ 0 1 (length rargs) Ec) as X. cbn in X. exact X.
        - apply good_instr_tree; [reflexivity| |reflexivity]. cbn [pops]. unfold zlen. rewrite Nat2Z.id. reflexivity. }
      unfold check_for_const in H. apply cbind_ok in H. destruct H as (bc & n2 & Hb & H).
      apply resolve_or_panic_ok in Hb. destruct Hb as [Hres ->].
      destruct (good_resolves _ _ _ Gn) as (code & Hc & Hres' & Hval). rewrite Hres in Hres'. injection Hres' as <-.
      assert (Gchunk : good n0 n1 (NBytecode (of_code bc))).
      { exists (TChunk bc Hc). split; [reflexivity|]. eapply eff_weakenI; [apply (eff_chunkI [] n0 bc Hc Hval)|lia|lia]. }
      assert (Gk : forall v, good n0 n1 (NConst v)) by (intros v; eapply good_weaken; [apply (good_const n0)|lia|lia]).
      destruct (run fuel compile_env bc true 0 []) as [[v|e| | |] lgc]; try discriminate H.
      + destruct (runtime_requested lgc || contains_err v); apply cret_ok in H; destruct H as [-> ->]; (split; [exact L1|]); [exact Gchunk|apply Gk].
      + apply cret_ok in H. destruct H as [-> ->]. split; [exact L1|exact Gchunk].
    - (* index *)
      apply cbind_ok in H. destruct H as (ci & n1 & Hi & H). apply cret_ok in H. destruct H as [-> ->].
      destruct (Hrec _ _ _ _ Hi) as [L1 G1]. split; [exact L1|]. apply good_compile2 with (n1 := n); auto.
  Qed.

  Lemma c_member_good m n cp n' : c_member fuel rec_expr m n = COk cp n' -> n <= n' /\ good n n' (cp_node cp).
  Proof.
    destruct m as [r p ms]. cbn [c_member]. intros H. apply cbind_ok in H. destruct H as (cp0 & n1 & Hp & H).
    destruct (c_primary_good _ _ _ _ Hp) as [L0 G0].
    match type of H with ?g ms cp0 n1 = _ =>
      assert (G : forall l cur m0 cp1 m1, n <= m0 -> good n m0 (cp_node cur) -> g l cur m0 = COk cp1 m1 ->
                    m0 <= m1 /\ good n m1 (cp_node cp1)) end.
    { clear H. induction l as [|x l IH]; intros cur m0 cp1 m1 Hle Gc H0.
      - apply cret_ok in H0. destruct H0 as [-> ->]. split; [lia|exact Gc].
      - apply cbind_ok in H0. destruct H0 as (c' & m2 & Hx & H0).
        destruct (c_mprime_good cur x n m0 c' m2 Hle Gc Hx) as [L1 G1].
        destruct (IH c' m2 cp1 m1 ltac:(lia) G1 H0) as [L2 G2]. split; [lia|exact G2]. }
    destruct (G _ _ _ _ _ L0 G0 H) as [L1 G1]. split; [lia|exact G1].
  Qed.

  (** k unary instructions *)
  Lemma repeat_tree n op k : is_jump op = false -> pops op = 1 -> pushes op = 1 ->
    exists t, flat t = repeat (PBc op) k /\ effI [] n n t (Some 1) (Some 1).
  Proof.
    intros Hj Hp Hq. induction k as [|k (t & Ft & Et)].
    - exists TNil. split; [reflexivity|apply eff_nilI].
    - exists (TSeq (TI op) t). split; [cbn [flat repeat]; rewrite Ft; reflexivity|].
      eapply eff_seq with (n1 := n) (b := Some 1); [lia|lia|apply no_ext| |exact Et]. apply good_instr_tree; assumption.
  Qed.

  Lemma c_unary_good u n cp n' : c_unary fuel rec_expr u n = COk cp n' -> n <= n' /\ good n n' (cp_node cp).
  Proof.
    destruct u as [r m|r nots m|r negs m]; cbn [c_unary]; intros H.
    - eapply c_member_good; eauto.
    - apply cbind_ok in H. destruct H as (cm & n1 & Hm & H). apply cret_ok in H. destruct H as [-> ->].
      destruct (c_member_good _ _ _ _ Hm) as [L G]. split; [exact L|]. unfold append_result. cbn [cp_node into_bytecode].
      destruct (repeat_tree n1 INot (oplist_len nots) eq_refl eq_refl eq_refl) as (t & Ft & Et). rewrite <- Ft.
      apply good_then; assumption.
    - apply cbind_ok in H. destruct H as (cm & n1 & Hm & H). apply cret_ok in H. destruct H as [-> ->].
      destruct (c_member_good _ _ _ _ Hm) as [L G]. split; [exact L|]. unfold append_result. cbn [cp_node into_bytecode].
      destruct (repeat_tree n1 INeg (oplist_len negs) eq_refl eq_refl eq_refl) as (t & Ft & Et). rewrite <- Ft.
      apply good_then; assumption.
  Qed.

  Lemma c_mult_good : forall e n cp n', c_mult fuel rec_expr e n = COk cp n' -> n <= n' /\ good n n' (cp_node cp).
  Proof.
    induction e as [r l IH op rr|r u]; intros n cp n' H; cbn [c_mult] in H.
    - apply cbind_ok in H. destruct H as (cl & n1 & Hl & H). apply cbind_ok in H. destruct H as (cr & n2 & Hr & H).
      apply cret_ok in H. destruct H as [-> ->]. destruct (IH _ _ _ Hl) as [L1 G1]. destruct (c_unary_good _ _ _ _ Hr) as [L2 G2].
      split; [lia|]. destruct op; apply good_compile2 with (n1 := n1); auto.
    - eapply c_unary_good; eauto.
  Qed.

  Lemma c_addn_good : forall e n cp n', c_addn fuel rec_expr e n = COk cp n' -> n <= n' /\ good n n' (cp_node cp).
  Proof.
    induction e as [r l IH op rr|r u]; intros n cp n' H; cbn [c_addn] in H.
    - apply cbind_ok in H. destruct H as (cl & n1 & Hl & H). apply cbind_ok in H. destruct H as (cr & n2 & Hr & H).
      apply cret_ok in H. destruct H as [-> ->]. destruct (IH _ _ _ Hl) as [L1 G1]. destruct (c_mult_good _ _ _ _ Hr) as [L2 G2].
      split; [lia|]. destruct op; apply good_compile2 with (n1 := n1); auto.
    - eapply c_mult_good; eauto.
  Qed.

  Lemma c_rel_good : forall e n cp n', c_rel fuel rec_expr e n = COk cp n' -> n <= n' /\ good n n' (cp_node cp).
  Proof.
    induction e as [r l IH op rr|r u]; intros n cp n' H; cbn [c_rel] in H.
    - apply cbind_ok in H. destruct H as (cl & n1 & Hl & H). apply cbind_ok in H. destruct H as (cr & n2 & Hr & H).
      apply cret_ok in H. destruct H as [-> ->]. destruct (IH _ _ _ Hl) as [L1 G1]. destruct (c_addn_good _ _ _ _ Hr) as [L2 G2].
      split; [lia|]. destruct op; apply good_compile2 with (n1 := n1); auto.
    - eapply c_addn_good; eauto.
  Qed.

  (* ---- && and || chains: every link jumps to the one label the chain shares ---- *)

  Definition ext1 (L : nat) : list (nat * nat) := [(L, 1)].

  Lemma ext1_out L n n' : L < n -> forall l, In l (map fst (ext1 L)) -> ~ in_range n n' l.
  Proof. intros HL l [<-|[]]. unfold in_range. cbn. lia. Qed.

  Lemma eff_to_ext1 L n n' t a b : L < n -> effI [] n n' t a b -> effI (ext1 L) n n' t a b.
  Proof.
    intros HL E. eapply eff_extI; [exact E|intros x []|apply ext1_out; exact HL|intros l o o' _ []].
  Qed.

  Definition chain_good (L n n' : nat) (nv : nodeval) : Prop :=
    exists t, flat t = into_bytecode nv /\ effI (ext1 L) n n' t (Some 0) (Some 1).

  Lemma chain_step L n n1 n2 tl tr w op :
    L < n -> n <= n1 -> n1 <= n2 -> is_jump op = false -> pops op = 2 -> pushes op = 1 ->
    effI (ext1 L) n n1 tl (Some 0) (Some 1) -> effI [] n1 n2 tr (Some 0) (Some 1) ->
    effI (ext1 L) n n2 (TSeq tl (TSeq (TI ITest) (TSeq (TI IDup) (TSeq (TJC w L) (TSeq tr (TI op)))))) (Some 0) (Some 1).
  Proof.
    intros HL H1 H2 Hj Hp Hq El Er.
    eapply eff_seq with (n1 := n1) (b := Some 1); [exact H1|exact H2|apply ext1_out; exact HL|exact El|].
    eapply eff_seq with (n1 := n1) (b := Some 1); [lia|exact H2|apply ext1_out; lia|apply (eff_instrI (ext1 L) n1 ITest eq_refl)|].
    eapply eff_seq with (n1 := n1) (b := Some 2); [lia|exact H2|apply ext1_out; lia|apply (eff_instrI (ext1 L) n1 IDup eq_refl)|].
    eapply eff_seq with (n1 := n1) (b := Some 1); [lia|exact H2|apply ext1_out; lia| |].
    { apply eff_jcI; [left; reflexivity|]. intros o' [E|[]]. injection E as <-. reflexivity. }
    eapply eff_seq with (n1 := n2) (b := Some 2); [exact H2|lia|apply ext1_out; lia| |].
    { apply eff_to_ext1; [lia|]. pose proof (eff_lift0 _ _ _ 0 1 1 Er) as X. cbn in X. exact X. }
    pose proof (eff_instrI (ext1 L) n2 op Hj) as X. rewrite Hp, Hq in X. exact X.
  Qed.

  Lemma good_to_chain L n n' nv : L < n -> good n n' nv -> chain_good L n n' nv.
  Proof. intros HL (t & F & E). exists t. split; [exact F|]. apply eff_to_ext1; assumption. Qed.

  (** the chain's label is defined right after the chain *)
  Lemma chain_close L n' c :
    chain_good L (S L) n' (cp_node c) -> S L <= n' -> good L n' (cp_node (append_if_bytecode c [PLabel L])).
  Proof.
    intros (t & F & E) Hle. unfold append_if_bytecode. destruct (cp_node c) as [b|v] eqn:En; cbn [cp_node].
    - exists (TSeq t (TSeq (TL L) TNil)). split; [cbn [flat into_bytecode] in *; rewrite F; reflexivity|].
      eapply eff_define with (p1 := S L) (p2 := n') (q1 := n') (q2 := n') (o := 1) (b := Some 1);
        [exact E|left; reflexivity|apply eff_nilI|lia|lia|lia|lia|lia|unfold in_range; lia|unfold in_range; lia|unfold in_range; lia|intros l []].
    - rewrite En. eapply good_weaken; [apply (good_const L)|lia|lia].
  Qed.

  Lemma c_cand_chain_good : forall e L n cp n', L < n ->
    c_cand_chain fuel rec_expr e L n = COk cp n' -> n <= n' /\ chain_good L n n' (cp_node cp).
  Proof.
    induction e as [r l IH rr|r u]; intros L n cp n' HL H; cbn [c_cand_chain] in H.
    - apply cbind_ok in H. destruct H as (cl & n1 & Hl & H). apply cbind_ok in H. destruct H as (cr & n2 & Hr & H).
      apply cret_ok in H. destruct H as [-> ->]. destruct (IH _ _ _ _ HL Hl) as (L1 & tl & Fl & El).
      destruct (c_rel_good _ _ _ _ Hr) as (L2 & tr & Fr & Er). split; [lia|]. cbn [cp_node].
      exists (TSeq tl (TSeq (TI ITest) (TSeq (TI IDup) (TSeq (TJC false L) (TSeq tr (TI IAnd)))))).
      split; [cbn [flat into_bytecode]; rewrite Fl, Fr; reflexivity|]. apply chain_step with (n1 := n1); auto.
    - destruct (c_rel_good _ _ _ _ H) as [L1 G1]. split; [exact L1|]. apply good_to_chain; assumption.
  Qed.

  Lemma c_cand_good e n cp n' : c_cand fuel rec_expr e n = COk cp n' -> n <= n' /\ good n n' (cp_node cp).
  Proof.
    unfold c_cand. intros H. apply cbind_ok in H. destruct H as (L & n1 & HLb & H). unfold new_label in HLb. injection HLb as <- <-.
    apply cbind_ok in H. destruct H as (c & n2 & Hc & H). apply cret_ok in H. destruct H as [-> ->].
    destruct (c_cand_chain_good _ _ _ _ _ (Nat.lt_succ_diag_r n) Hc) as [L1 G1]. split; [lia|]. apply chain_close; assumption.
  Qed.

  Lemma c_cor_chain_good : forall e L n cp n', L < n ->
    c_cor_chain fuel rec_expr e L n = COk cp n' -> n <= n' /\ chain_good L n n' (cp_node cp).
  Proof.
    induction e as [r l IH rr|r u]; intros L n cp n' HL H; cbn [c_cor_chain] in H.
    - apply cbind_ok in H. destruct H as (cl & n1 & Hl & H). apply cbind_ok in H. destruct H as (cr & n2 & Hr & H).
      apply cret_ok in H. destruct H as [-> ->]. destruct (IH _ _ _ _ HL Hl) as (L1 & tl & Fl & El).
      destruct (c_cand_good _ _ _ _ Hr) as (L2 & tr & Fr & Er). split; [lia|]. cbn [cp_node].
      exists (TSeq tl (TSeq (TI ITest) (TSeq (TI IDup) (TSeq (TJC true L) (TSeq tr (TI IOr)))))).
      split; [cbn [flat into_bytecode]; rewrite Fl, Fr; reflexivity|]. apply chain_step with (n1 := n1); auto.
    - destruct (c_cand_good _ _ _ _ H) as [L1 G1]. split; [exact L1|]. apply good_to_chain; assumption.
  Qed.

  Lemma c_cor_good e n cp n' : c_cor fuel rec_expr e n = COk cp n' -> n <= n' /\ good n n' (cp_node cp).
  Proof.
    unfold c_cor. intros H. apply cbind_ok in H. destruct H as (L & n1 & HLb & H). unfold new_label in HLb. injection HLb as <- <-.
    apply cbind_ok in H. destruct H as (c & n2 & Hc & H). apply cret_ok in H. destruct H as [-> ->].
    destruct (c_cor_chain_good _ _ _ _ _ (Nat.lt_succ_diag_r n) Hc) as [L1 G1]. split; [lia|]. apply chain_close; assumption.
  Qed.

  (* ---- ?: ---- *)

  Definition ext2 (A B : nat) : list (nat * nat) := [(A, 1); (B, 1)].

  Lemma ext_fun1 L : forall o', In (L, o') (ext1 L) -> o' = 1.
  Proof. intros o' [E|[]]. injection E as <-. reflexivity. Qed.

  Lemma ext2_out A B n n' : n' <= A -> n' <= B -> forall l, In l (map fst (ext2 A B)) -> ~ in_range n n' l.
  Proof. intros HA HB l [<-|[<-|[]]]; unfold in_range; cbn; lia. Qed.

  Lemma eff_to_ext n n' t a b ext : (forall l, In l (map fst ext) -> ~ in_range n n' l) ->
    effI [] n n' t a b -> effI ext n n' t a b.
  Proof. intros Hout E. eapply eff_extI; [exact E|intros x []|exact Hout|intros l o o' _ []]. Qed.

  Lemma ternary_tree n n1 n2 n3 tb tt tf :
    n <= n1 -> n1 <= n2 -> n2 <= n3 ->
    effI [] n n1 tb (Some 0) (Some 1) -> effI [] n1 n2 tt (Some 0) (Some 1) -> effI [] n2 n3 tf (Some 0) (Some 1) ->
    effI [] n (S (S n3))
      (TSeq (TSeq (TSeq tb (TSeq (TI ITest) (TSeq (TI IDup) (TSeq (TJC false n3) (TSeq (TI IPop) (TSeq tt (TJ (S n3))))))))
                  (TSeq (TL n3) (TSeq (TI IDup) (TSeq (TI INot) (TSeq (TJC false (S n3)) (TSeq (TI IPop) tf))))))
            (TSeq (TL (S n3)) TNil))
      (Some 0) (Some 1).
  Proof.
    intros H1 H2 H3 Eb Et Ef. set (AT := n3). set (EN := S n3).
    assert (O2 : forall x y, x <= n3 -> forall l, In l (map fst (ext2 AT EN)) -> ~ in_range y x l).
    { intros x y Hx. apply ext2_out; unfold AT, EN; lia. }
    assert (F2a : forall o', In (AT, o') (ext2 AT EN) -> o' = 1).
    { intros o' [E|[E|[]]]; injection E; intros; subst; reflexivity. }
    assert (F2e : forall o', In (EN, o') (ext2 AT EN) -> o' = 1).
    { intros o' [E|[E|[]]]; injection E; intros; subst; reflexivity. }
    (* before the first label *)
    assert (Pre : effI (ext2 AT EN) n n2 (TSeq tb (TSeq (TI ITest) (TSeq (TI IDup) (TSeq (TJC false AT) (TSeq (TI IPop) (TSeq tt (TJ EN))))))) (Some 0) None).
    { eapply eff_seq with (n1 := n1) (b := Some 1); [exact H1|exact H2|apply O2; lia|apply eff_to_ext; [apply O2; lia|exact Eb]|].
      eapply eff_seq with (n1 := n1) (b := Some 1); [lia|exact H2|apply O2; lia|apply (eff_instrI _ n1 ITest eq_refl)|].
      eapply eff_seq with (n1 := n1) (b := Some 2); [lia|exact H2|apply O2; lia|apply (eff_instrI _ n1 IDup eq_refl)|].
      eapply eff_seq with (n1 := n1) (b := Some 1); [lia|exact H2|apply O2; lia|apply eff_jcI; [left; reflexivity|exact F2a]|].
      eapply eff_seq with (n1 := n1) (b := Some 0); [lia|exact H2|apply O2; lia|apply (eff_instrI _ n1 IPop eq_refl)|].
      eapply eff_seq with (n1 := n2) (b := Some 1); [exact H2|lia|apply O2; lia|apply eff_to_ext; [apply O2; lia|exact Et]|].
      apply eff_jI; [right; left; reflexivity|exact F2e]. }
    (* between the labels *)
    assert (Mid : effI (ext1 EN) n2 n3 (TSeq (TI IDup) (TSeq (TI INot) (TSeq (TJC false EN) (TSeq (TI IPop) tf)))) (Some 1) (Some 1)).
    { assert (O1 : forall l, In l (map fst (ext1 EN)) -> ~ in_range n2 n3 l) by (intros l [<-|[]]; unfold in_range, EN; cbn; lia).
      eapply eff_seq with (n1 := n2) (b := Some 2); [lia|exact H3|exact O1|apply (eff_instrI _ n2 IDup eq_refl)|].
      eapply eff_seq with (n1 := n2) (b := Some 2); [lia|exact H3|exact O1| |].
      { apply eff_to_ext; [intros l Hl; unfold in_range; lia|].
        pose proof (eff_lift0 n2 n2 (TI INot) 1 1 1 (eff_instrI [] n2 INot eq_refl)) as X. cbn in X. exact X. }
      eapply eff_seq with (n1 := n2) (b := Some 1); [lia|exact H3|exact O1|apply eff_jcI; [left; reflexivity|apply ext_fun1]|].
      eapply eff_seq with (n1 := n2) (b := Some 0); [lia|exact H3|exact O1|apply (eff_instrI _ n2 IPop eq_refl)|].
      apply eff_to_ext; [exact O1|exact Ef]. }
    (* the first label *)
    assert (X : effI (ext1 EN) n (S n3) (TSeq (TSeq tb (TSeq (TI ITest) (TSeq (TI IDup) (TSeq (TJC false AT) (TSeq (TI IPop) (TSeq tt (TJ EN)))))))
                                            (TSeq (TL AT) (TSeq (TI IDup) (TSeq (TI INot) (TSeq (TJC false EN) (TSeq (TI IPop) tf)))))) (Some 0) (Some 1)).
    { eapply eff_define with (p1 := n) (p2 := n2) (q1 := n2) (q2 := n3) (o := 1) (b := None);
        [exact Pre| |exact Mid|lia|lia|lia|lia|lia|unfold in_range, AT; lia|unfold in_range, AT; lia|unfold in_range, AT; lia|].
      - right. split; [reflexivity|]. cbn [tuses]. apply in_or_app. right. cbn. left. reflexivity.
      - intros l [<-|[]]. unfold in_range, EN. cbn. lia. }
    eapply eff_define with (p1 := n) (p2 := S n3) (q1 := S (S n3)) (q2 := S (S n3)) (o := 1) (b := Some 1);
      [exact X|left; reflexivity|apply eff_nilI|lia|lia|lia|lia|lia|unfold in_range, EN; lia|unfold in_range, EN; lia|unfold in_range, EN; lia|intros l []].
  Qed.

  (* ---- match ---- *)

  (** a pattern takes the duplicated scrutinee to a boolean *)
  Lemma c_pattern_good p n pc ps n' : c_pattern fuel rec_expr p n = COk (pc, ps) n' ->
    n <= n' /\ exists t, flat t = pc /\ effI [] n n' t (Some 1) (Some 1).
  Proof.
    destruct p as [r1 r2 op o|r1 r2 mt name|r1 r2]; cbn [c_pattern]; intros H.
    - apply cbind_ok in H. destruct H as (co & n1 & Ho & H). apply cret_ok in H. destruct H as [E ->]. injection E as -> ->.
      destruct (c_cor_good _ _ _ _ Ho) as (L & t & F & Et). split; [exact L|].
      exists (TSeq t (TI (cmp_instr op))). split; [cbn [flat]; rewrite F; reflexivity|].
      eapply eff_seq with (n1 := n1) (b := Some 2); [exact L|lia|apply no_ext| |].
      + pose proof (eff_lift0 _ _ _ 0 1 1 Et) as X. cbn in X. exact X.
      + apply good_instr_tree; destruct op; reflexivity.
    - destruct (is_type_name (utf8_encode name)); [|discriminate H].
      apply cret_ok in H. destruct H as [E ->]. injection E as -> ->. split; [lia|].
      exists (TSeq (TI (IPush (VIdent #"type"))) (TSeq (TI (ICall 1)) (TSeq (TI (IPush (VIdent (utf8_encode name)))) (TI IEq)))).
      split; [reflexivity|].
      eapply eff_seq with (n1 := n) (b := Some 2); [lia|lia|apply no_ext| |].
      { pose proof (eff_lift0 n n _ 0 1 1 (eff_instrI [] n (IPush (VIdent #"type")) eq_refl)) as X. cbn in X. exact X. }
      eapply eff_seq with (n1 := n) (b := Some 1); [lia|lia|apply no_ext|apply (eff_instrI [] n (ICall 1) eq_refl)|].
      apply push_op_tree; reflexivity.
    - apply cret_ok in H. destruct H as [E ->]. injection E as -> ->. split; [lia|].
      exists (TSeq (TI IPop) (TI (IPush (VBool true)))). split; [reflexivity|].
      eapply eff_seq with (n1 := n) (b := Some 0); [lia|lia|apply no_ext|apply (eff_instrI [] n IPop eq_refl)|apply (eff_instrI [] n (IPush (VBool true)) eq_refl)].
  Qed.

  Inductive parts_good : nat -> list (pcode * pcode) -> nat -> Prop :=
  | pg_nil m : parts_good m [] m
  | pg_cons m m1 m2 m' pb eb tp ta r :
      m <= m1 -> m1 <= m2 ->
      flat tp = pb -> effI [] m m1 tp (Some 1) (Some 1) ->
      eb = PBc IPop :: flat ta -> effI [] m1 m2 ta (Some 0) (Some 1) ->
      parts_good m2 r m' -> parts_good m ((pb, eb) :: r) m'.

  Lemma parts_le m ps m' : parts_good m ps m' -> m <= m'.
  Proof. induction 1; lia. Qed.

  Lemma ext1_in L : In (L, 1) (ext1 L). Proof. left. reflexivity. Qed.

  (** the arms of a match, one after the other: each jumps over itself when its pattern fails and to the
      common end label when it ran *)
  Lemma match_body AM : forall m ps m', parts_good m ps m' -> forall q body q',
    m' <= AM -> AM < q ->
    (fix go (l : list (pcode * pcode)) : C pcode :=
       match l with
       | [] => cret []
       | (pb, eb) :: r =>
           let+ after_case := new_label in
           let+ rest := go r in
           cret ([PBc IDup] ++ pb ++ [PJmpCond false after_case] ++ eb ++ [PJmp AM; PLabel after_case] ++ rest)
       end) ps q = COk body q' ->
    q <= q' /\ exists t, flat t = body /\
      eff (ext1 AM) (fun l => in_range m m' l \/ in_range q q' l) t (Some 1) (Some 1).
  Proof.
    induction 1 as [m|m m1 m2 m' pb eb tp ta r H1 H2 Fp Ep Feb Ea Hr IH]; intros q body q' HAM Hq H.
    - apply cret_ok in H. destruct H as [-> ->]. split; [lia|]. exists TNil. split; [reflexivity|apply eff_nil].
    - apply cbind_ok in H. destruct H as (AC & q1 & HAC & H). unfold new_label in HAC. injection HAC as <- <-.
      apply cbind_ok in H. destruct H as (rest & q2 & Hrest & H). apply cret_ok in H. destruct H as [-> ->].
      assert (Hq1 : AM < S q) by lia.
      destruct (IH _ _ _ HAM Hq1 Hrest) as (Lq & tr & Fr & Er). pose proof (parts_le _ _ _ Hr) as Lm.
      split; [lia|].
      set (E2 := (q, 1) :: ext1 AM).
      assert (O2 : forall x y, x <= m' -> forall l, In l (map fst E2) -> ~ in_range y x l).
      { intros x y Hx l [<-|[<-|[]]]; unfold in_range; cbn; lia. }
      assert (Fq : forall o', In (q, o') E2 -> o' = 1).
      { intros o' [E|[E|[]]]; injection E; intros; subst; reflexivity. }
      assert (Fa : forall o', In (AM, o') E2 -> o' = 1).
      { intros o' [E|[E|[]]]; injection E; intros; subst; reflexivity. }
      assert (Pre : eff E2 (in_range m m2)
                      (TSeq (TI IDup) (TSeq tp (TSeq (TJC false q) (TSeq (TI IPop) (TSeq ta (TJ AM)))))) (Some 1) None).
      { eapply eff_seq with (n1 := m) (b := Some 2); [lia|lia|apply O2; lia|apply (eff_instr E2 _ IDup eq_refl)|].
        eapply eff_seq with (n1 := m1) (b := Some 2); [exact H1|exact H2|apply O2; lia| |].
        { apply eff_to_ext; [apply O2; lia|]. pose proof (eff_lift0 _ _ _ 1 1 1 Ep) as X. cbn in X. exact X. }
        eapply eff_seq with (n1 := m1) (b := Some 1); [lia|exact H2|apply O2; lia|apply eff_jc; [left; reflexivity|exact Fq]|].
        eapply eff_seq with (n1 := m1) (b := Some 0); [lia|exact H2|apply O2; lia|apply (eff_instr E2 _ IPop eq_refl)|].
        eapply eff_seq with (n1 := m2) (b := Some 1); [exact H2|lia|apply O2; lia|apply eff_to_ext; [apply O2; lia|exact Ea]|].
        apply eff_j; [right; left; reflexivity|exact Fa]. }
      exists (TSeq (TSeq (TI IDup) (TSeq tp (TSeq (TJC false q) (TSeq (TI IPop) (TSeq ta (TJ AM)))))) (TSeq (TL q) tr)).
      split.
      { cbn [flat]. rewrite Fp, Fr. subst eb. cbn [app]. repeat (rewrite <- app_assoc; cbn [app]). reflexivity. }
      eapply eff_weaken.
      + eapply eff_defineR with (o := 1) (b := None); [exact Pre| |exact Er| | | |].
        * right. split; [reflexivity|]. cbn [tuses]. cbn [app]. apply in_or_app. right. left. reflexivity.
        * intros l A [B|B]; unfold in_range in *; lia.
        * unfold in_range. lia.
        * intros [B|B]; unfold in_range in *; lia.
        * intros l [<-|[]]. cbn [fst]. split; [unfold in_range; lia|]. split; [intros [B|B]; unfold in_range in *; lia|lia].
      + intros l [A|[[A|A]|E]]; [| | |subst l]; unfold in_range in *; lia.
  Qed.

  Lemma c_expr_body_good e n cp n' : c_expr_body fuel rec_expr e n = COk cp n' -> n <= n' /\ good n n' (cp_node cp).
  Proof.
    destruct e as [r c t f|r c cases|r c]; cbn [c_expr_body]; intros H.
    - (* ?: *)
      apply cbind_ok in H. destruct H as (cc & n1 & Hc & H). apply cbind_ok in H. destruct H as (ct & n2 & Ht & H).
      apply cbind_ok in H. destruct H as (cf & n3 & Hf & H).
      destruct (c_cor_good _ _ _ _ Hc) as [L1 G1]. destruct (c_cor_good _ _ _ _ Ht) as [L2 G2]. destruct (Hrec _ _ _ _ Hf) as [L3 G3].
      destruct (cp_node cc) as [cb|v] eqn:Ec.
      + apply cbind_ok in H. destruct H as (AT & m1 & HA & H). unfold new_label in HA. injection HA as <- <-.
        apply cbind_ok in H. destruct H as (EN & m2 & HE & H). unfold new_label in HE. injection HE as <- <-.
        apply cret_ok in H. destruct H as [-> ->]. split; [lia|]. cbn [cp_node].
        destruct G1 as (tb & Fb & Eb), G2 as (tt & Ft & Et), G3 as (tf & Ff & Ef). cbn [into_bytecode] in Fb.
        eexists. split; [|apply (ternary_tree n n1 n2 n3 tb tt tf L1 L2 L3 Eb Et Ef)].
        cbn [flat]. rewrite Fb, Ft, Ff. cbn [app]. repeat (rewrite <- app_assoc; cbn [app]). reflexivity.
      + destruct (is_err v); [|destruct (is_truthy v)]; apply cret_ok in H; destruct H as [-> ->]; (split; [lia|]); cbn [cp_node].
        * eapply good_weaken; [apply (good_const n)|lia|lia].
        * eapply good_weaken; [exact G2|lia|lia].
        * eapply good_weaken; [exact G3|lia|lia].
    - (* match *)
      apply cbind_ok in H. destruct H as (cc & n1 & Hc & H). apply cbind_ok in H. destruct H as ([parts pps] & n2 & Hp & H).
      destruct (Hrec _ _ _ _ Hc) as [L1 (tcc & Fcc & Ecc)].
      match type of Hp with ?g cases n1 = _ =>
        assert (G : forall l m pr m', g l m = COk pr m' -> parts_good m (fst pr) m') end.
      { clear Hp H. induction l as [|[rc p arm] l IH]; intros m0 pr m0' H0.
        - apply cret_ok in H0. destruct H0 as [-> ->]. constructor.
        - apply cbind_ok in H0. destruct H0 as ([pc pp] & m1 & Hpat & H0). apply cbind_ok in H0. destruct H0 as (ca & m2 & Harm & H0).
          apply cbind_ok in H0. destruct H0 as (rest & m3 & Hr & H0). apply cret_ok in H0. destruct H0 as [-> ->].
          destruct (c_pattern_good _ _ _ _ _ Hpat) as (Lp & tp & Fp & Ep). destruct (Hrec _ _ _ _ Harm) as [La (ta & Fa & Ea)].
          cbn [fst]. eapply pg_cons with (tp := tp) (ta := ta); eauto. rewrite Fa. reflexivity. }
      pose proof (G _ _ _ _ Hp) as Pg. cbn [fst snd] in *. pose proof (parts_le _ _ _ Pg) as L2.
      apply cbind_ok in H. destruct H as (AM & m1 & HA & H). unfold new_label in HA. injection HA as <- <-.
      apply cbind_ok in H. destruct H as (body & n3 & Hb & H). apply cret_ok in H. destruct H as [-> ->].
      destruct (match_body n2 _ _ _ Pg _ _ _ (Nat.le_refl n2) (Nat.lt_succ_diag_r n2) Hb) as (L3 & tb & Fb & Eb).
      split; [lia|]. cbn [cp_node].
      exists (TSeq (TSeq tcc (TSeq tb (TSeq (TI IPop) (TI (IPush VNull))))) (TSeq (TL n2) TNil)). split.
      { cbn [flat into_bytecode]. rewrite Fcc, Fb. cbn [app]. repeat (rewrite <- app_assoc; cbn [app]). reflexivity. }
      assert (Oam : forall x y, x <= n2 -> forall l, In l (map fst (ext1 n2)) -> ~ in_range y x l).
      { intros x y Hx l [<-|[]]. cbn [fst]. unfold in_range. lia. }
      assert (A1 : eff (ext1 n2) (in_range n n1) tcc (Some 0) (Some 1)) by (apply eff_to_ext; [apply Oam; lia|exact Ecc]).
      assert (A3 : eff (ext1 n2) (in_range n3 n3) (TSeq (TI IPop) (TI (IPush VNull))) (Some 1) (Some 1)).
      { eapply eff_seq with (n1 := n3) (b := Some 0); [lia|lia|intros l [<-|[]]; cbn [fst]; unfold in_range; lia| |].
        - apply (eff_instr (ext1 n2) _ IPop eq_refl).
        - apply (eff_instr (ext1 n2) _ (IPush VNull) eq_refl). }
      assert (A23 : eff (ext1 n2) (lunion (fun l => in_range n1 n2 l \/ in_range (S n2) n3 l) (in_range n3 n3))
                      (TSeq tb (TSeq (TI IPop) (TI (IPush VNull)))) (Some 1) (Some 1)).
      { eapply eff_seqR; [| |exact Eb|exact A3].
        - intros l [A|A] B; unfold in_range in *; lia.
        - intros l [<-|[]]. cbn [fst]. split; [intros [A|A]|intros A]; unfold in_range in *; lia. }
      assert (Pre : eff (ext1 n2) (lunion (in_range n n1) (lunion (fun l => in_range n1 n2 l \/ in_range (S n2) n3 l) (in_range n3 n3)))
                      (TSeq tcc (TSeq tb (TSeq (TI IPop) (TI (IPush VNull))))) (Some 0) (Some 1)).
      { eapply eff_seqR; [| |exact A1|exact A23].
        - intros l A [[B|B]|B]; unfold in_range in *; lia.
        - intros l [<-|[]]. cbn [fst]. split; [unfold in_range; lia|]. intros [[B|B]|B]; unfold in_range in *; lia. }
      eapply eff_weaken.
      + eapply eff_defineR with (o := 1) (b := Some 1) (ext := []) (R2 := in_range n3 n3);
          [exact Pre|left; reflexivity|apply eff_nil| | | |intros l []].
        * intros l _ B. unfold in_range in B. lia.
        * intros [A|[[A|A]|A]]; unfold in_range in *; lia.
        * unfold in_range. lia.
      + intros l [[A|[[A|A]|A]]|[A|E]]; [| | | | |subst l]; unfold in_range in *; lia.
    - (* no conditional *)
      eapply c_cor_good; eauto.
  Qed.
End Gen.

(** * Every expression, every fuel *)

Theorem c_expr_good : forall fuel e n cp n', c_expr fuel e n = COk cp n' -> n <= n' /\ good n n' (cp_node cp).
Proof.
  induction fuel as [|f IH]; intros e n cp n' H; cbn [c_expr] in H; [discriminate H|].
  eapply c_expr_body_good; [|exact H]. exact IH.
Qed.

(** The code the compiler emits for any expression resolves (no duplicate or undefined label: the
    Rust code's panic there is unreachable) and passes the validator of Spec/WfCode.v with an explicit
    certificate: every jump lands in the block or at its end, no path pops from an empty stack, paths
    that meet agree on the height, the block ends with exactly one value. *)
Theorem compiled_code_is_valid fuel e n cp n' : c_expr fuel e n = COk cp n' ->
  exists code H, resolve (into_bytecode (cp_node cp)) = Some code /\ validate wf1 code H = true.
Proof. intros Hc. destruct (c_expr_good _ _ _ _ _ Hc) as [_ G]. eapply good_resolves; eauto. Qed.

Theorem compile_source_is_valid fuel src p k : compile_source fuel src = COk p k ->
  exists H, validate wf1 (pr_code p) H = true.
Proof.
  unfold compile_source. destruct (parse_program fuel src) as [e t| |]; try discriminate.
  destruct (c_expr fuel e 0) as [cp n| | | |] eqn:Hc; try discriminate.
  destruct (compiled_code_is_valid _ _ _ _ _ Hc) as (code & H & Hr & Hv). rewrite Hr.
  intros E. injection E as <- <-. cbn [pr_code]. eauto.
Qed.

(** the compiler's "undefined / duplicate label" panic is unreachable: when parsing and code generation
    return, so does the whole compilation *)
Theorem compile_source_never_label_panic fuel src e t cp n :
  parse_program fuel src = POk e t -> c_expr fuel e 0 = COk cp n ->
  exists p, compile_source fuel src = COk p n /\ pr_ast p = e.
Proof.
  intros Hp Hc. unfold compile_source. rewrite Hp, Hc.
  destruct (compiled_code_is_valid _ _ _ _ _ Hc) as (code & H & Hr & _). rewrite Hr. eexists. split; reflexivity.
Qed.
