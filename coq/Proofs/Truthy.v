(* Proofs/Truthy.v — C05: one truthiness, and the absorption rules of || and &&. *)
From Coq Require Import ZArith List Bool Lia.
From Coq Require Import Floats.SpecFloat.
From Rscel Require Import Base.Prims Base.F64 Base.Text Model.Value Model.Ops Model.Dispatch Model.Funcs.
Import ListNotations.
Import Coq.Strings.String.StringSyntax.
Open Scope Z_scope.

(** The truthiness table of the statement. *)
Theorem truthy_table : forall v,
  is_truthy v =
  match v with
  | VInt i => negb (i =? 0) | VUInt u => negb (u =? 0)
  | VFloat f => match f with S754_zero _ => false | _ => true end
  | VBool b => b
  | VString s => match s with [] => false | _ => true end
  | VBytes s => match s with [] => false | _ => true end
  | VList l => match l with [] => false | _ => true end
  | VMap m => match m with [] => false | _ => true end
  | VType _ | VTime _ | VDur _ => true
  | VNull | VErr _ | VIdent _ | VCode _ => false
  end.
Proof.
  assert (L : forall A (x : A) (r : list A), negb (zlen (x :: r) =? 0) = true).
  { intros A x r. unfold zlen. cbn [length]. destruct (Z.eqb_spec (Z.of_nat (S (length r))) 0); [lia|reflexivity]. }
  intros v. destruct v; try reflexivity.
  - destruct f; reflexivity.
  - destruct s; [reflexivity|]. apply L.
  - destruct s; [reflexivity|]. apply L.
  - destruct l; [reflexivity|]. apply L.
  - destruct m; [reflexivity|]. apply L.
Qed.

Definition truthy_ok (v : value) : bool := negb (is_err v) && is_truthy v.

(** || yields true when either side is truthy even if the other side fails;
    otherwise a failing operand makes the result fail (left one first). *)
Theorem or_spec : forall a b,
  or_ a b =
  if truthy_ok a || truthy_ok b then VBool true
  else if is_err a then a else if is_err b then b else VBool false.
Proof.
  intros a b. unfold or_, truthy_ok.
  destruct (is_err a) eqn:Ea, (is_err b) eqn:Eb; cbn [negb andb orb].
  - assert (is_truthy b = false) by (destruct b; try discriminate; reflexivity). rewrite H. reflexivity.
  - destruct (is_truthy b); reflexivity.
  - rewrite orb_false_r. destruct (is_truthy a); reflexivity.
  - destruct (is_truthy a), (is_truthy b); reflexivity.
Qed.

(** && fails when an operand fails (left one first), otherwise it is the conjunction of the truthiness. *)
Theorem and_spec : forall a b,
  and_ a b = if is_err a then a else if is_err b then b else VBool (is_truthy a && is_truthy b).
Proof. intros. reflexivity. Qed.

(** ! uses the same truthiness. *)
Theorem not_spec : forall a, not_ a = if is_err a then a else VBool (negb (is_truthy a)).
Proof. intros. reflexivity. Qed.

(** bool(): the same truthiness, outside the recorded finding (the five spellings of false). *)
Definition false_spelling (v : value) : bool :=
  match v with VString s => match parse_bool_literal s with Some false => true | _ => false end | _ => false end.

Lemma parse_bool_true_nonempty s : parse_bool_literal s = Some true -> is_truthy (VString s) = true.
Proof.
  unfold parse_bool_literal.
  repeat match goal with |- context [if ?c then _ else _] => destruct c eqn:? end; try discriminate; intros _;
    repeat match goal with H : _ || _ = true |- _ => apply orb_true_iff in H; destruct H as [H|H] end;
    match goal with H : bytes_eqb s _ = true |- _ => destruct s; [discriminate H|reflexivity] end.
Qed.

Theorem bool_is_truthy_outside_known : forall now v,
  is_err v = false -> false_spelling v = false ->
  construct_type now #"bool" [v] = ROk (VBool (is_truthy v)).
Proof.
  intros now v He Hk. destruct v; try discriminate He; try reflexivity.
  cbn in Hk.
  assert (Hc : construct_type now #"bool" [VString s] =
               match parse_bool_literal s with
               | Some b => ROk (VBool b)
               | None => ROk (VBool (negb (zlen s =? 0)))
               end) by reflexivity.
  rewrite Hc.
  destruct (parse_bool_literal s) as [[|]|] eqn:P; try discriminate Hk.
  - rewrite (parse_bool_true_nonempty s P). reflexivity.
  - reflexivity.
Qed.

Theorem bool_truthy_refuted : exists now v,
  is_err v = false /\ construct_type now #"bool" [v] <> ROk (VBool (is_truthy v)).
Proof. exists None, (VString #"0"). split; [reflexivity|]. vm_compute. discriminate. Qed.
