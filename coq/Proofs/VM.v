(* Proofs/VM.v — metatheory of the VM model used by C10 (and C01):
   every instruction has a fixed stack effect, a validated height assignment
   is an invariant of execution (no pop from an empty stack on any path,
   joins agree, exactly one value at the end), jumps of validated code are
   forward and in range, and a validated block takes at most one step per
   instruction. *)
From Coq Require Import ZArith List Bool Lia Arith.
From Rscel Require Import Base.Prims Base.F64 Base.Text Model.Value Model.Ops Model.Dispatch Model.Funcs
     Model.Interp Spec.WfCode.
Import ListNotations.
Open Scope Z_scope.

Ltac inv H := inversion H; subst; clear H.

(** destruct the scrutinee of the outermost match in hypothesis H *)
Ltac dm H :=
  match type of H with
  | context [match ?x with _ => _ end] =>
      match x with
      | context [match _ with _ => _ end] => fail 1
      | _ => destruct x eqn:?
      end
  end.

Lemma mbind_ok {A B} (m : M A) (f : A -> M B) lg b lg' :
  mbind m f lg = (ROk b, lg') -> exists a lg1, m lg = (ROk a, lg1) /\ f a lg1 = (ROk b, lg').
Proof.
  unfold mbind. destruct (m lg) as [[a| | | |] lg1]; try discriminate. intros H. eauto.
Qed.

Section StepFacts.
  Variable rs : runner.
  Variable E : env.
  Variable d : nat.

  Lemma pop_spec st lg x st' lg' :
    pop rs E d st lg = (ROk (x, st'), lg') -> exists y, st = y :: st'.
  Proof.
    destruct st as [|y st0]; cbn; [discriminate|].
    destruct y as [v|]; [|intros H; inv H; eauto].
    destruct v; try (intros H; inv H; eauto; fail).
    unfold mbind, mret. destruct (resolve_ident rs E d s lg) as [[?| | | |] ?]; try discriminate.
    intros H; inv H. eauto.
  Qed.

  Lemma pop_val_spec st lg v st' lg' :
    pop_val rs E d st lg = (ROk (v, st'), lg') -> exists y, st = y :: st'.
  Proof.
    unfold pop_val, mbind. destruct (pop rs E d st lg) as [[[x s1]| | | |] l1] eqn:Hp; try discriminate.
    destruct x; cbn; try discriminate. intros H; inv H. eapply pop_spec; eauto.
  Qed.

  Lemma pop_noresolve_spec st lg x st' lg' :
    pop_noresolve st lg = (ROk (x, st'), lg') -> st = x :: st'.
  Proof. destruct st; cbn; [discriminate|]. intros H; inv H. reflexivity. Qed.

  Lemma pop_n_spec n : forall st lg vs st' lg',
    pop_n rs E d n st lg = (ROk (vs, st'), lg') ->
    length st = (n + length st')%nat /\ length vs = n.
  Proof.
    induction n as [|n IH]; intros st lg vs st' lg'; cbn [pop_n].
    - unfold mret. intros H; inv H. split; reflexivity.
    - unfold mbind. destruct (pop_val rs E d st lg) as [[[v s1]| | | |] l1] eqn:Hp; try discriminate.
      destruct (pop_n rs E d n s1 l1) as [[[vs1 s2]| | | |] l2] eqn:Hn; try discriminate.
      unfold mret. intros H; inv H.
      apply pop_val_spec in Hp. destruct Hp as [y ->].
      apply IH in Hn. destruct Hn as [Hl Hv]. cbn. split; lia.
  Qed.

  Lemma bin_spec f st lg j st' lg' :
    bin rs E d f st lg = (ROk (j, st'), lg') ->
    j = None /\ exists a b r, st = a :: b :: r /\ length st' = S (length r).
  Proof.
    unfold bin, mbind. destruct (pop_val rs E d st lg) as [[[v2 s1]| | | |] l1] eqn:H2; try discriminate.
    destruct (pop_val rs E d s1 l1) as [[[v1 s2]| | | |] l2] eqn:H1; try discriminate.
    unfold mret, push. intros H; inv H.
    apply pop_val_spec in H2. destruct H2 as [a ->].
    apply pop_val_spec in H1. destruct H1 as [b ->].
    split; [reflexivity|]. exists a, b, s2. split; reflexivity.
  Qed.

  Lemma un_spec f st lg j st' lg' :
    un rs E d f st lg = (ROk (j, st'), lg') ->
    j = None /\ exists a r, st = a :: r /\ length st' = S (length r).
  Proof.
    unfold un, mbind. destruct (pop_val rs E d st lg) as [[[v1 s1]| | | |] l1] eqn:H1; try discriminate.
    unfold mret, push. intros H; inv H.
    apply pop_val_spec in H1. destruct H1 as [a ->].
    split; [reflexivity|]. exists a, s1. split; reflexivity.
  Qed.

  (** The stack effect of one instruction that does not fail. *)
  Definition jump_of (i : instr) (j : option Z) : Prop :=
    match i, j with
    | IJmp dd, Some x => x = dd
    | IJmp _, None => False
    | IJmpCond _ dd, Some x => x = dd
    | IJmpCond _ _, None => True
    | _, None => True
    | _, Some _ => False
    end.

  Lemma step_height i st lg j st' lg' :
    step rs E d i st lg = (ROk (j, st'), lg') ->
    (pops i <= length st)%nat /\
    length st' = (length st - pops i + pushes i)%nat /\
    jump_of i j.
  Proof.
    intros H.
    destruct i; cbn [step pops pushes jump_of] in *;
      try (apply bin_spec in H; destruct H as [-> (a & b & r & -> & Hl)]; cbn; repeat split; lia);
      try (apply un_spec in H; destruct H as [-> (a & r & -> & Hl)]; cbn; repeat split; lia).
    - (* Push *) unfold mret, push in H. inv H. cbn. repeat split; lia.
    - (* Pop *)
      unfold mbind in H. destruct (pop_val rs E d st lg) as [[[v s1]| | | |] l1] eqn:Hp; try discriminate.
      unfold mret in H. inv H. apply pop_val_spec in Hp. destruct Hp as [y ->]. cbn. repeat split; lia.
    - (* Test *)
      unfold mbind in H. destruct (pop_val rs E d st lg) as [[[v s1]| | | |] l1] eqn:Hp; try discriminate.
      apply pop_val_spec in Hp. destruct Hp as [y ->].
      destruct (is_err v); unfold mret, push in H; inv H; cbn; repeat split; lia.
    - (* Dup *)
      unfold mbind in H. destruct (pop_val rs E d st lg) as [[[v s1]| | | |] l1] eqn:Hp; try discriminate.
      apply pop_val_spec in Hp. destruct Hp as [y ->].
      unfold mret, push in H; inv H; cbn; repeat split; lia.
    - (* Jmp *) unfold mret in H. inv H. cbn. repeat split; lia.
    - (* JmpCond *)
      unfold mbind in H. destruct (pop_val rs E d st lg) as [[[v s1]| | | |] l1] eqn:Hp; try discriminate.
      apply pop_val_spec in Hp. destruct Hp as [y ->].
      destruct v; try discriminate H; unfold mret in H.
      + destruct (Bool.eqb b w); inv H; cbn; repeat split; lia.
      + destruct w; inv H; cbn; repeat split; lia.
    - (* MkList *)
      unfold mbind in H. destruct (pop_n rs E d (Z.to_nat n) st lg) as [[[vs s1]| | | |] l1] eqn:Hp; try discriminate.
      apply pop_n_spec in Hp. destruct Hp as [Hl _].
      unfold mret, push in H; inv H; cbn [length]; repeat split; lia.
    - (* MkDict *)
      assert (Hgen : forall k st lg acc bad,
        (fix go (k : nat) (st : stack) (acc : list (bytes * value)) (bad : bool) {struct k} : M (option Z * stack) :=
           match k with
           | O => if bad then mret (None, push (VErr EValue) st)
                  else mret (None, push (VMap (fold_left (fun m kv => map_insert m (fst kv) (snd kv)) acc [])) st)
           | S k' =>
               mbind (pop_val rs E d st) (fun rk => let '(key, st1) := rk in
               mbind (pop_val rs E d st1) (fun rv => let '(v, st2) := rv in
               match key with
               | VString s => go k' st2 ((s, v) :: acc) bad
               | _ => go k' st2 acc true
               end))
           end) k st acc bad lg = (ROk (j, st'), lg') ->
        (2 * k <= length st)%nat /\ length st' = (length st - 2 * k + 1)%nat /\ j = None).
      { induction k as [|k IH]; intros st0 lg0 acc0 bad0 H0.
        - destruct bad0; unfold mret, push in H0; inv H0; cbn; repeat split; lia.
        - unfold mbind in H0 at 1.
          destruct (pop_val rs E d st0 lg0) as [[[key s1]| | | |] l1] eqn:Hk; try discriminate.
          apply pop_val_spec in Hk. destruct Hk as [y ->].
          unfold mbind in H0 at 1.
          destruct (pop_val rs E d s1 l1) as [[[v s2]| | | |] l2] eqn:Hv; try discriminate.
          apply pop_val_spec in Hv. destruct Hv as [y2 ->].
          destruct key; apply IH in H0; destruct H0 as (A & B & C); cbn [length]; repeat split; try lia; assumption. }
      apply Hgen in H. destruct H as (A & B & ->). repeat split; lia.
    - (* Access *)
      unfold mbind in H.
      destruct (pop_noresolve st lg) as [[[idx s1]| | | |] l1] eqn:Hi; try discriminate.
      apply pop_noresolve_spec in Hi. subst st.
      destruct idx as [v|]; [|discriminate].
      destruct v;
        try (destruct (pop_val rs E d s1 l1) as [[[o s2]| | | |] l2] eqn:Ho; try discriminate;
             apply pop_val_spec in Ho; destruct Ho as [y ->];
             unfold mret, push in H; cbn in H; inv H; cbn; repeat split; lia).
      (* identifier *)
      destruct (pop_val rs E d s1 l1) as [[[o s2]| | | |] l2] eqn:Ho; try discriminate.
      apply pop_val_spec in Ho. destruct Ho as [y ->].
      destruct o;
        repeat (match type of H with
                | context [match ?x with _ => _ end] => destruct x eqn:?
                | context [if ?x then _ else _] => destruct x eqn:?
                end; try discriminate H);
        unfold mret, mfail, push in H; try discriminate H; inv H; cbn; repeat split; lia.
    - (* Call *)
      apply mbind_ok in H. destruct H as ([callee s1] & l1 & Hc & H).
      apply pop_noresolve_spec in Hc. subst st.
      apply mbind_ok in H. destruct H as ([args s2] & l2 & Ha & H).
      apply pop_n_spec in Ha. destruct Ha as [Hl _].
      assert (Hret : forall v lgx, mret (A := option Z * stack) (None, push v s2) lgx = (ROk (j, st'), lg') ->
                 j = None /\ length st' = S (length s2)).
      { intros v lgx Hm. unfold mret, push in Hm. inv Hm. split; reflexivity. }
      assert (Hfin : forall (m : M value) lgx,
                 (mbind m (fun r => mret (None, push r s2))) lgx = (ROk (j, st'), lg') ->
                 j = None /\ length st' = S (length s2)).
      { intros m lgx Hm. apply mbind_ok in Hm. destruct Hm as (r & lx & _ & Hm). eapply Hret; eauto. }
      assert (Hfin2 : forall (m1 : M (list value)) (k : list value -> M value) lgx,
                 (mbind m1 (fun vals => mbind (k vals) (fun r => mret (None, push r s2)))) lgx = (ROk (j, st'), lg') ->
                 j = None /\ length st' = S (length s2)).
      { intros m1 k lgx Hm. apply mbind_ok in Hm. destruct Hm as (vals & lx & _ & Hm). eapply Hfin; eauto. }
      cbn [length].
      destruct callee as [v|[|] name this].
      + destruct v;
          try (apply Hret in H; destruct H as [-> Hs]; cbn; repeat split; lia).
        * (* ident *)
          destruct (has_func E s).
          { apply Hfin2 in H. destruct H as [-> Hs]. cbn. repeat split; lia. }
          destruct (has_macro E s).
          { apply Hfin in H. destruct H as [-> Hs]. cbn. repeat split; lia. }
          destruct (env_type E s) as [[]|];
            try (destruct (folding E); [discriminate H|]; apply Hret in H; destruct H as [-> Hs]; cbn; repeat split; lia).
          apply Hfin2 in H. destruct H as [-> Hs]. cbn. repeat split; lia.
        * (* type *)
          apply Hfin2 in H. destruct H as [-> Hs]. cbn. repeat split; lia.
      + apply Hfin in H. destruct H as [-> Hs]. cbn. repeat split; lia.
      + apply Hfin2 in H. destruct H as [-> Hs]. cbn. repeat split; lia.
    - (* Fmt *)
      unfold mbind in H. destruct (pop_n rs E d (Z.to_nat n) st lg) as [[[segs s1]| | | |] l1] eqn:Hp; try discriminate.
      apply pop_n_spec in Hp. destruct Hp as [Hl _].
      revert H. generalize (@nil Z) as acc. generalize (rev segs) as l.
      induction l as [|x l IH]; intros acc H.
      + unfold mret, push in H. inv H. cbn. repeat split; lia.
      + destruct x; try discriminate H. eapply IH; eauto.
  Qed.
End StepFacts.

(* ------------------------------------------------------------------------ *)
(** * Validated height assignments are invariants of execution *)

Lemma height_is_spec H pc k : height_is H pc k = true <-> nth_error H pc = Some (Some k).
Proof.
  unfold height_is. destruct (nth_error H pc) as [[k0|]|]; split; intros A; try discriminate.
  - apply Nat.eqb_eq in A. subst. reflexivity.
  - inv A. apply Nat.eqb_refl.
Qed.

Lemma valid_from_nth wfn len H : forall c pc0 j i,
  valid_from wfn len H pc0 c = true -> nth_error c j = Some i ->
  valid_at wfn len H (pc0 + j) i = true.
Proof.
  induction c as [|x c IH]; intros pc0 j i Hv Hn.
  - destruct j; discriminate.
  - cbn in Hv. apply andb_true_iff in Hv. destruct Hv as [Hx Hc].
    destruct j as [|j]; cbn in Hn.
    + inv Hn. rewrite Nat.add_0_r. exact Hx.
    + replace (pc0 + S j)%nat with (S pc0 + j)%nat by lia. eapply IH; eauto.
Qed.

Lemma validate_parts wfn c H :
  validate wfn c H = true ->
  length H = S (length c) /\ height_is H O O = true /\ height_is H (length c) 1 = true /\
  valid_from wfn (length c) H O c = true.
Proof.
  unfold validate. intros Hv.
  apply andb_true_iff in Hv. destruct Hv as [Hv D].
  apply andb_true_iff in Hv. destruct Hv as [Hv C].
  apply andb_true_iff in Hv. destruct Hv as [A B].
  apply Nat.eqb_eq in A. auto.
Qed.

Section Invariant.
  Variable rs : runner.
  Variable E : env.
  Variable d : nat.
  Variable wfn : code -> bool.
  Variable c : code.
  Variable H : list (option nat).
  Hypothesis Hval : validate wfn c H = true.

  Lemma val_len : length H = S (length c).
  Proof. apply (validate_parts _ _ _ Hval). Qed.
  Lemma val_start : nth_error H O = Some (Some O).
  Proof. apply height_is_spec. apply (validate_parts _ _ _ Hval). Qed.
  Lemma val_end : nth_error H (length c) = Some (Some 1%nat).
  Proof. apply height_is_spec. apply (validate_parts _ _ _ Hval). Qed.
  Lemma val_at pc i : nth_error c pc = Some i -> valid_at wfn (length c) H pc i = true.
  Proof.
    intros Hn. destruct (validate_parts _ _ _ Hval) as (_ & _ & _ & Hf).
    exact (valid_from_nth wfn (length c) H c O pc i Hf Hn).
  Qed.

  (** One step of [loop]: where control goes next. *)
  Definition next_pc (pc : nat) (j : option Z) : option nat :=
    match j with None => Some (S pc) | Some dd => jump_target (S pc) dd (length c) end.

  (** The key step lemma: from a state that agrees with [H], a successful
      instruction leads to a state that agrees with [H], strictly later in
      the block, and its jump (if any) is in range. *)
  Lemma step_preserves pc i st lg j st' lg' :
    nth_error c pc = Some i ->
    nth_error H pc = Some (Some (length st)) ->
    step rs E d i st lg = (ROk (j, st'), lg') ->
    exists pc', next_pc pc j = Some pc' /\ (pc < pc' <= length c)%nat /\
                nth_error H pc' = Some (Some (length st')).
  Proof.
    intros Hn Hh Hs.
    pose proof (val_at pc i Hn) as Hv.
    apply step_height in Hs. destruct Hs as (Hp & Hl & Hj).
    assert (Hpc : (pc < length c)%nat) by (apply nth_error_Some; congruence).
    unfold valid_at in Hv. rewrite Hh in Hv.
    apply andb_true_iff in Hv. destruct Hv as [Hv1 Hv2].
    apply andb_true_iff in Hv1. destruct Hv1 as [_ Hjr].
    apply andb_true_iff in Hv2. destruct Hv2 as [_ Hnext].
    rewrite <- Hl in Hnext.
    destruct i; cbn [jump_of] in Hj;
      try (destruct j; [contradiction|]; exists (S pc); cbn [next_pc];
           apply height_is_spec in Hnext; repeat split; try lia; assumption).
    - (* Jmp *)
      destruct j as [x|]; [subst x|contradiction].
      apply andb_true_iff in Hjr. destruct Hjr as [Hd0 Hd1]. apply Z.leb_le in Hd0, Hd1.
      apply height_is_spec in Hnext.
      exists (S pc + Z.to_nat d0)%nat. cbn [next_pc]. unfold jump_target.
      replace ((Z.of_nat (S pc) + d0 <? 0) || (Z.of_nat (length c) <? Z.of_nat (S pc) + d0)) with false.
      2:{ symmetry. apply orb_false_iff. split; [apply Z.ltb_ge|apply Z.ltb_ge]; lia. }
      replace (Z.to_nat (Z.of_nat (S pc) + d0)) with (S pc + Z.to_nat d0)%nat by lia.
      repeat split; try lia; assumption.
    - (* JmpCond *)
      apply andb_true_iff in Hjr. destruct Hjr as [Hd0 Hd1]. apply Z.leb_le in Hd0, Hd1.
      apply andb_true_iff in Hnext. destruct Hnext as [Hn1 Hn2].
      apply height_is_spec in Hn1, Hn2.
      destruct j as [x|].
      + subst x. exists (S pc + Z.to_nat d0)%nat. cbn [next_pc]. unfold jump_target.
        replace ((Z.of_nat (S pc) + d0 <? 0) || (Z.of_nat (length c) <? Z.of_nat (S pc) + d0)) with false.
        2:{ symmetry. apply orb_false_iff. split; [apply Z.ltb_ge|apply Z.ltb_ge]; lia. }
        replace (Z.to_nat (Z.of_nat (S pc) + d0)) with (S pc + Z.to_nat d0)%nat by lia.
        repeat split; try lia; assumption.
      + exists (S pc). cbn [next_pc]. repeat split; try lia; assumption.
  Qed.

  (** No instruction of a state that agrees with [H] pops an empty stack. *)
  Lemma no_underflow pc i (st : stack) :
    nth_error c pc = Some i -> nth_error H pc = Some (Some (length st)) -> (pops i <= length st)%nat.
  Proof.
    intros Hn Hh. pose proof (val_at pc i Hn) as Hv. unfold valid_at in Hv. rewrite Hh in Hv.
    apply andb_true_iff in Hv. destruct Hv as [_ Hv]. apply andb_true_iff in Hv. destruct Hv as [Hv _].
    apply Nat.leb_le. assumption.
  Qed.

  (** Reachable states of the block (zero or more successful steps). *)
  Inductive reach : nat -> stack -> log -> nat -> stack -> log -> Prop :=
  | reach_refl pc st lg : reach pc st lg pc st lg
  | reach_step pc st lg i j st1 lg1 pc1 pc2 st2 lg2 :
      nth_error c pc = Some i ->
      step rs E d i st lg = (ROk (j, st1), lg1) ->
      next_pc pc j = Some pc1 ->
      reach pc1 st1 lg1 pc2 st2 lg2 ->
      reach pc st lg pc2 st2 lg2.

  Theorem reach_invariant pc st lg pc' st' lg' :
    reach pc st lg pc' st' lg' ->
    nth_error H pc = Some (Some (length st)) ->
    nth_error H pc' = Some (Some (length st')) /\ (pc <= pc' <= length c)%nat.
  Proof.
    induction 1 as [pc st lg | pc st lg i j st1 lg1 pc1 pc2 st2 lg2 Hn Hs Hnx Hr IH]; intros Hh.
    - split; [assumption|]. assert (pc < length H)%nat by (apply nth_error_Some; congruence).
      rewrite val_len in *. lia.
    - destruct (step_preserves pc i st lg j st1 lg1 Hn Hh Hs) as (pc1' & Hnx' & Hlt & Hh1).
      rewrite Hnx in Hnx'. inv Hnx'. destruct (IH Hh1) as [A B]. split; [assumption|lia].
  Qed.

  (** Every state reachable from the start of the block: stack height as
      assigned, no underflow at the next instruction, and exactly one value
      when the end of the block is reached. *)
  Theorem wf_no_underflow lg pc st lg' i :
    reach O [] lg pc st lg' -> nth_error c pc = Some i -> (pops i <= length st)%nat.
  Proof.
    intros Hr Hn. destruct (reach_invariant _ _ _ _ _ _ Hr val_start) as [Hh _].
    eapply no_underflow; eauto.
  Qed.

  Theorem wf_one_value_at_end lg st lg' :
    reach O [] lg (length c) st lg' -> length st = 1%nat.
  Proof.
    intros Hr. destruct (reach_invariant _ _ _ _ _ _ Hr val_start) as [Hh _].
    rewrite val_end in Hh. inv Hh. reflexivity.
  Qed.

  (** [loop] only visits reachable states, so its result has one value. *)
  Theorem loop_result_height : forall fuel pc st lg st' lg',
    nth_error H pc = Some (Some (length st)) ->
    loop rs fuel E d c pc st lg = (ROk st', lg') -> length st' = 1%nat.
  Proof.
    induction fuel as [|f IH]; intros pc st lg st' lg' Hh Hl; cbn [loop] in Hl; [discriminate|].
    destruct (nth_error c pc) as [i|] eqn:Hn.
    - apply mbind_ok in Hl. destruct Hl as ([j st1] & lg1 & Hs & Hl).
      destruct (step_preserves pc i st lg j st1 lg1 Hn Hh Hs) as (pc1 & Hnx & Hlt & Hh1).
      destruct j as [dd|]; cbn [next_pc] in Hnx.
      + rewrite Hnx in Hl. eapply IH; eauto.
      + inv Hnx. eapply IH; eauto.
    - unfold mret in Hl. inv Hl.
      apply nth_error_None in Hn.
      assert (pc < length H)%nat by (apply nth_error_Some; congruence).
      rewrite val_len in *. assert (pc = length c) by lia. subst pc.
      rewrite val_end in Hh. inv Hh. reflexivity.
  Qed.

  (** In validated code the VM's range check on jumps never fires. *)
  Theorem jump_always_in_range pc i st lg j st' lg' :
    nth_error c pc = Some i -> nth_error H pc = Some (Some (length st)) ->
    step rs E d i st lg = (ROk (j, st'), lg') -> next_pc pc j <> None.
  Proof.
    intros Hn Hh Hs. destruct (step_preserves pc i st lg j st' lg' Hn Hh Hs) as (pc' & Hx & _). congruence.
  Qed.
End Invariant.

(** The VM's own bounds check: an out-of-range jump is an error, never an
    access outside the program. *)
Theorem jump_target_checked pc dist len :
  match jump_target pc dist len with
  | Some t => (Z.of_nat t = Z.of_nat pc + dist) /\ (t <= len)%nat
  | None => Z.of_nat pc + dist < 0 \/ Z.of_nat len < Z.of_nat pc + dist
  end.
Proof.
  unfold jump_target.
  destruct (Z.ltb_spec (Z.of_nat pc + dist) 0); cbn; [left; assumption|].
  destruct (Z.ltb_spec (Z.of_nat len) (Z.of_nat pc + dist)); cbn; [right; assumption|].
  split; lia.
Qed.

Theorem loop_jump_out_of_range_is_error rs f E d c pc st lg i dist st1 lg1 :
  nth_error c pc = Some i ->
  step rs E d i st lg = (ROk (Some dist, st1), lg1) ->
  jump_target (S pc) dist (length c) = None ->
  loop rs (S f) E d c pc st lg = (RErr ERuntime, lg1).
Proof.
  intros Hn Hs Hj. cbn [loop]. rewrite Hn. unfold mbind. rewrite Hs. rewrite Hj. reflexivity.
Qed.
