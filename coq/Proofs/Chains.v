(* Proofs/Chains.v — C05: chains a || b || c ... and a && b && c ... as the compiler emits them: one end
   label shared by every link.  The value of the chain is the left fold of the operator over the tested
   operands, evaluation stops at the first operand that decides, and nothing after it runs. *)
From Coq Require Import ZArith List Bool Lia Arith.
From Rscel Require Import Base.Prims Base.F64 Base.Text Model.Value Model.Ops Model.Dispatch Model.Funcs
     Model.Interp Spec.WfCode Proofs.VM Proofs.Blocks.
Import ListNotations.
Open Scope Z_scope.

Section Chains.
  Variable rs : runner.
  Variable E : env.
  Variable d : nat.
  Variable w : bool.                         (* the jump condition: true for ||, false for && *)
  Variable op : instr.
  Variable opf : value -> value -> value.
  Hypothesis Hstep : forall st, step rs E d op st = bin rs E d opf st.
  Hypothesis Hplain : forall a b, plainv (opf a b).

  (** every link jumps to the end of the whole chain *)
  Fixpoint links (cs : list code) : code :=
    match cs with
    | [] => []
    | c :: r => [ITest; IDup; IJmpCond w (Z.of_nat (length c + 1 + length (links r)))] ++ c ++ [op] ++ links r
    end.
  Definition chain_code (c1 : code) (cs : list code) : code := c1 ++ links cs.

  (** the jump of a link is taken: the tested value decides *)
  Definition decides (t : value) : bool :=
    match t with VBool b => Bool.eqb b w | VErr _ => negb w | _ => false end.

  Inductive chain_run : value -> log -> list code -> value -> log -> Prop :=
  | cr_nil acc lg : chain_run acc lg [] acc lg
  | cr_stop acc lg c r : decides (tested acc) = true -> chain_run acc lg (c :: r) (tested acc) lg
  | cr_step acc lg c r svb lg1 vb lg2 res lg3 :
      decides (tested acc) = false ->
      pushes rs E d c lg svb lg1 -> resolves rs E d svb lg1 vb lg2 ->
      chain_run (opf (tested acc) vb) lg2 r res lg3 ->
      chain_run acc lg (c :: r) res lg3.

  Lemma tested_cases v : (exists b, tested v = VBool b) \/ (exists e, tested v = VErr e).
  Proof. unfold tested. destruct (is_err v) eqn:Ee; [right; destruct v; try discriminate; eauto|left; eauto]. Qed.

  (** TEST; DUP; JMP-if-w when the jump is taken *)
  Lemma test_dup_jump code k dist sva lg1 va lg2 :
    nth_error code k = Some ITest -> nth_error code (S k) = Some IDup ->
    nth_error code (S (S k)) = Some (IJmpCond w dist) ->
    resolves rs E d sva lg1 va lg2 -> decides (tested va) = true ->
    0 <= dist -> (S (S (S k)) + Z.to_nat dist <= length code)%nat ->
    forall f st, loop rs (S (S (S f))) E d code k (sva :: st) lg1 =
                 loop rs f E d code (S (S (S k)) + Z.to_nat dist) (SVal (tested va) :: st) lg2.
  Proof.
    intros N0 N1 N2 Hra Hd Hd0 Hin f st.
    rewrite loop_S, N0. rewrite (step_test rs E d st lg1 sva va lg2 Hra).
    destruct (tested_cases va) as [[b Et]|[e Et]]; rewrite Et in *; cbn [decides] in Hd.
    - rewrite loop_S, N1. cbn [step]. unfold mbind, mret, push. cbn [pop_val pop into_value mbind mret].
      change (pop_val rs E d (SVal (VBool b) :: st) lg2) with (ROk (VBool b, st), lg2).
      rewrite loop_S, N2. rewrite step_jmpcond_bool, Hd.
      rewrite jump_target_inside; [reflexivity|lia|lia].
    - rewrite loop_S, N1. cbn [step]. unfold mbind, mret, push. cbn [pop_val pop into_value mbind mret].
      change (pop_val rs E d (SVal (VErr e) :: st) lg2) with (ROk (VErr e, st), lg2).
      rewrite loop_S, N2. rewrite step_jmpcond_err. destruct w; [discriminate Hd|].
      rewrite jump_target_inside; [reflexivity|lia|lia].
  Qed.

  Lemma decides_false_nojump t : decides t = false -> (exists b, t = VBool b) \/ (exists e, t = VErr e) ->
    match t with VBool b => Bool.eqb b w = false | VErr _ => w = true | _ => False end.
  Proof. intros Hd [[b ->]|[e ->]]; cbn in *; [exact Hd|destruct w; [reflexivity|discriminate]]. Qed.

  Lemma links_run : forall cs acc lg res lg', chain_run acc lg cs res lg' ->
    forall sv lg0, resolves rs E d sv lg0 acc lg -> (cs = [] -> sv = SVal acc /\ lg0 = lg) ->
    forall p st, exists f, loop rs f E d (p ++ links cs) (length p) (sv :: st) lg0 = (ROk (SVal res :: st), lg').
  Proof.
    induction 1 as [acc lg|acc lg c r Hd|acc lg c r svb lg1 vb lg2 res lg3 Hd [Hcc Hpc] Hrb Hrun IH]; intros sv lg0 Hres Hnil p st.
    - destruct (Hnil eq_refl) as [-> ->].
      exists 1%nat. cbn [links]. rewrite app_nil_r. rewrite loop_S.
      replace (nth_error p (length p)) with (@None instr) by (symmetry; apply nth_error_None; lia). reflexivity.
    - (* the link decides: jump to the end *)
      set (dist := Z.of_nat (length c + 1 + length (links r))).
      set (code := p ++ links (c :: r)).
      assert (Len : length code = (length p + 3 + length c + 1 + length (links r))%nat).
      { unfold code. cbn [links]. repeat (rewrite ?app_length; cbn [length app]). lia. }
      assert (N0 : nth_error code (length p) = Some ITest).
      { unfold code. rewrite <- (Nat.add_0_r (length p)), nth_off. reflexivity. }
      assert (N1 : nth_error code (S (length p)) = Some IDup).
      { unfold code. replace (S (length p)) with (length p + 1)%nat by lia. rewrite nth_off. reflexivity. }
      assert (N2 : nth_error code (S (S (length p))) = Some (IJmpCond w dist)).
      { unfold code. replace (S (S (length p))) with (length p + 2)%nat by lia. rewrite nth_off. reflexivity. }
      exists 4%nat.
      rewrite (test_dup_jump code (length p) dist sv lg0 acc lg N0 N1 N2 Hres Hd);
        [|unfold dist; lia|rewrite Len; unfold dist; lia].
      rewrite loop_S.
      replace (nth_error code (S (S (S (length p))) + Z.to_nat dist)) with (@None instr).
      2:{ symmetry. apply nth_error_None. rewrite Len. unfold dist. lia. }
      reflexivity.
    - (* the link does not decide: the operand runs, the operator folds it in *)
      set (t := tested acc) in *.
      set (dist := Z.of_nat (length c + 1 + length (links r))).
      set (pre := [ITest; IDup; IJmpCond w dist]).
      set (code := p ++ links (c :: r)).
      assert (Ecode : code = (p ++ pre) ++ c ++ ([op] ++ links r)).
      { unfold code, pre, dist. cbn [links]. rewrite <- app_assoc. reflexivity. }
      assert (Ecode2 : code = (p ++ pre ++ c ++ [op]) ++ links r).
      { rewrite Ecode. rewrite <- !app_assoc. reflexivity. }
      assert (N0 : nth_error code (length p) = Some ITest).
      { unfold code. rewrite <- (Nat.add_0_r (length p)), nth_off. reflexivity. }
      assert (N1 : nth_error code (S (length p)) = Some IDup).
      { unfold code. replace (S (length p)) with (length p + 1)%nat by lia. rewrite nth_off. reflexivity. }
      assert (N2 : nth_error code (S (S (length p))) = Some (IJmpCond w dist)).
      { unfold code. replace (S (S (length p))) with (length p + 2)%nat by lia. rewrite nth_off. reflexivity. }
      destruct (Hpc (SVal t :: st)) as (fc & Hc).
      destruct (embed rs E d (p ++ pre) c ([op] ++ links r) Hcc fc O (SVal t :: st) lg (svb :: SVal t :: st) lg1 (Nat.le_0_l _) Hc)
        as (f2 & _ & Hrun2).
      assert (Pacc : plainv (opf t vb)) by apply Hplain.
      destruct (IH (SVal (opf t vb)) lg2 (resolves_plain rs E d _ lg2 Pacc) (fun _ => conj eq_refl eq_refl) (p ++ pre ++ c ++ [op]) st) as (f3 & Hrun3).
      exists (S (S (S (f2 + (1 + f3))))).
      rewrite (test_dup_nojump rs E d code (length p) w dist sv lg0 acc lg N0 N1 N2 Hres).
      2:{ apply decides_false_nojump; [exact Hd|apply tested_cases]. }
      fold t.
      specialize (Hrun2 (1 + f3)%nat). rewrite <- Ecode in Hrun2.
      replace (length (p ++ pre) + 0)%nat with (S (S (S (length p)))) in Hrun2 by (rewrite app_length; cbn; lia).
      rewrite Hrun2. clear Hrun2.
      assert (N3 : nth_error code (length (p ++ pre) + length c) = Some op).
      { rewrite Ecode. rewrite nth_off. rewrite <- (Nat.add_0_r (length c)), nth_off. reflexivity. }
      change (1 + f3)%nat with (S f3). rewrite loop_S, N3. rewrite Hstep. unfold bin. unfold mbind at 1. rewrite (Hrb (SVal t :: st)).
      unfold mbind at 1. rewrite (resolves_plain rs E d t lg2 (tested_plain acc) st). unfold mret, push.
      rewrite Ecode2.
      replace (S (length (p ++ pre) + length c)) with (length (p ++ pre ++ c ++ [op])).
      2:{ rewrite !app_length. cbn [length]. lia. }
      exact Hrun3.
  Qed.

  (** The chain  c1 OP c2 OP ... OP cn  (n >= 1): the first operand is resolved by the first TEST. *)
  Theorem chain_evaluates c1 cs lg sva lg1 va lg2 res lg3 :
    pushes rs E d c1 lg sva lg1 -> resolves rs E d sva lg1 va lg2 -> cs <> [] ->
    chain_run va lg2 cs res lg3 ->
    forall st, exists f, loop rs f E d (chain_code c1 cs) O st lg = (ROk (SVal res :: st), lg3).
  Proof.
    intros [Hc1 Hp1] Hra Hne Hrun st. destruct (Hp1 st) as (f1 & H1).
    destruct (embed rs E d [] c1 (links cs) Hc1 f1 O st lg (sva :: st) lg1 (Nat.le_0_l _) H1) as (f1' & _ & Hrun1).
    destruct (links_run cs va lg2 res lg3 Hrun sva lg1 Hra (fun Ecs => False_ind _ (Hne Ecs)) c1 st) as (f2 & H2).
    exists (f1' + f2)%nat. specialize (Hrun1 f2). cbn [app length Nat.add] in Hrun1.
    unfold chain_code. rewrite Hrun1. exact H2.
  Qed.

  (** nothing after the deciding operand runs: the rest of the chain may be ANY code *)
  Corollary chain_stops_early c1 c r lg sva lg1 va lg2 :
    pushes rs E d c1 lg sva lg1 -> resolves rs E d sva lg1 va lg2 -> decides (tested va) = true ->
    forall st, exists f, loop rs f E d (chain_code c1 (c :: r)) O st lg = (ROk (SVal (tested va) :: st), lg2).
  Proof. intros Hp Hr Hd. eapply chain_evaluates; eauto; [discriminate|]. apply cr_stop. exact Hd. Qed.
End Chains.

(** the two instances the compiler emits *)
Lemma or_plainv a b : plainv (or_ a b).
Proof.
  unfold or_. destruct (is_err a) eqn:Ea; [destruct (is_truthy b); [exact I|destruct a; try discriminate; exact I]|].
  destruct (is_err b) eqn:Eb; [destruct (is_truthy a); [exact I|destruct b; try discriminate; exact I]|exact I].
Qed.
Lemma and_plainv a b : plainv (and_ a b).
Proof.
  unfold and_, error_prop_or. destruct (is_err a) eqn:Ea; [destruct a; try discriminate; exact I|].
  destruct (is_err b) eqn:Eb; [destruct b; try discriminate; exact I|exact I].
Qed.

Definition or_chain_code := chain_code true IOr.
Definition and_chain_code := chain_code false IAnd.

Theorem or_chain_evaluates rs E d c1 cs lg sva lg1 va lg2 res lg3 :
  pushes rs E d c1 lg sva lg1 -> resolves rs E d sva lg1 va lg2 -> cs <> [] ->
  chain_run rs E d true or_ va lg2 cs res lg3 ->
  forall st, exists f, loop rs f E d (or_chain_code c1 cs) O st lg = (ROk (SVal res :: st), lg3).
Proof. apply chain_evaluates; [reflexivity|apply or_plainv]. Qed.

Theorem and_chain_evaluates rs E d c1 cs lg sva lg1 va lg2 res lg3 :
  pushes rs E d c1 lg sva lg1 -> resolves rs E d sva lg1 va lg2 -> cs <> [] ->
  chain_run rs E d false and_ va lg2 cs res lg3 ->
  forall st, exists f, loop rs f E d (and_chain_code c1 cs) O st lg = (ROk (SVal res :: st), lg3).
Proof. apply chain_evaluates; [reflexivity|apply and_plainv]. Qed.
