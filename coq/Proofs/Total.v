(* Proofs/Total.v — C01: the VM model never answers with the panic outcome:
   every path through every instruction, macro and nested run ends in a value,
   an error, "out of fuel" or "not modelled" — provided the built-in function
   table does not (Proofs below discharge that for the type constructors). *)
From Coq Require Import ZArith List Bool Lia.
From Rscel Require Import Base.Prims Base.F64 Base.Text Model.Value Model.Ops Model.Dispatch Model.Funcs Model.Interp.
Import ListNotations.
Open Scope Z_scope.

Definition np {A} (m : M A) : Prop := forall lg, fst (m lg) <> RPanic.

Lemma np_ret {A} (a : A) : np (mret a).
Proof. intros lg. cbn. discriminate. Qed.
Lemma np_fail {A} e : np (@mfail A e).
Proof. intros lg. cbn. discriminate. Qed.
Lemma np_fail_runtime {A} e : np (@mfail_runtime A e).
Proof. intros lg. cbn. discriminate. Qed.
Lemma np_note E b : np (note_clock E b).
Proof. intros lg. cbn. discriminate. Qed.
Lemma np_lift {A} (r : res A) : r <> RPanic -> np (mlift r).
Proof. intros H lg. exact H. Qed.
Lemma np_bind {A B} (m : M A) (f : A -> M B) : np m -> (forall a, np (f a)) -> np (mbind m f).
Proof.
  intros Hm Hf lg. unfold mbind. specialize (Hm lg). destruct (m lg) as [[a|e| | |] lg']; cbn in *;
    try discriminate; try congruence; try apply Hf.
Qed.

Ltac np_step :=
  match goal with
  | |- np (mret _) => apply np_ret
  | |- np (mfail _) => apply np_fail
  | |- np (mfail_runtime _) => apply np_fail_runtime
  | |- np (note_clock _ _) => apply np_note
  | |- np (mbind _ _) => apply np_bind; [|intros]
  | |- np (let '(_, _) := ?p in _) => destruct p
  | |- np (match ?x with _ => _ end) => destruct x
  | |- np (if ?b then _ else _) => destruct b
  end.

Section Total.
  Variable rs : runner.
  Hypothesis Hrs : forall E c r d, np (rs E c r d).
  Hypothesis Hfun : forall now n t a r, call_default now n t a = Some r -> r <> RPanic.
  Hypothesis Hctor : forall now t a, construct_type now t a <> RPanic.

  Variable E : env.
  Variable d : nat.

  Lemma np_resolve_ident name : np (resolve_ident rs E d name).
  Proof. unfold resolve_ident. repeat np_step; try apply Hrs. Qed.

  Lemma np_pop st : np (pop rs E d st).
  Proof. unfold pop. destruct st as [|[v|b n o] st]; [apply np_fail| |apply np_ret].
    destruct v; try apply np_ret. apply np_bind; [apply np_resolve_ident|intros; apply np_ret]. Qed.

  Lemma np_into_value x : np (into_value x).
  Proof. destruct x; [apply np_ret|apply np_fail]. Qed.

  Lemma np_pop_val st : np (pop_val rs E d st).
  Proof. unfold pop_val. apply np_bind; [apply np_pop|]. intros [x st']. apply np_bind; [apply np_into_value|intros; apply np_ret]. Qed.

  Lemma np_pop_noresolve st : np (pop_noresolve st).
  Proof. destruct st; [apply np_fail|apply np_ret]. Qed.

  Lemma np_pop_n n : forall st, np (pop_n rs E d n st).
  Proof.
    induction n as [|n IH]; intros st; cbn [pop_n]; [apply np_ret|].
    apply np_bind; [apply np_pop_val|]. intros [v st1]. apply np_bind; [apply IH|]. intros [vs st2]. apply np_ret.
  Qed.

  Lemma np_resolve_args args : np (resolve_args rs E d args).
  Proof.
    induction args as [|a r IH]; cbn [resolve_args]; [apply np_ret|].
    destruct a; try (apply np_bind; [exact IH|intros; apply np_ret]).
    apply np_bind; [apply Hrs|intros]. apply np_bind; [exact IH|intros; apply np_ret].
  Qed.

  Lemma np_call_func name this args : np (call_func E name this args).
  Proof.
    unfold call_func. destruct (assoc name (e_ufuncs E)); [intros lg; cbn; discriminate|].
    destruct (call_default (e_now E) name this args) eqn:C; [|apply np_fail]. apply np_lift. eapply Hfun; eauto.
  Qed.

  Lemma np_eval_ident c : np (eval_ident rs E c).
  Proof.
    intros lg. unfold eval_ident. pose proof (Hrs (ident_env E) c false O lg) as H.
    destruct (rs (ident_env E) c false O lg) as [[v|e| | |] lg']; cbn in *; try discriminate; try congruence. destruct v; cbn; discriminate.
  Qed.

  Lemma np_run_body E' c : np (run_body rs d E' c).
  Proof.
    intros lg. unfold run_body. pose proof (Hrs E' c true d lg) as H.
    destruct (rs E' c true d lg) as [[v|e| | |] lg']; cbn in *; try discriminate; congruence.
  Qed.

  Lemma np_with_ident c k : (forall x, np (k x)) -> np (with_ident rs E c k).
  Proof. intros Hk. unfold with_ident. apply np_bind; [apply np_eval_ident|]. intros [e|x]; [apply np_ret|apply Hk]. Qed.

  Ltac body_step IH :=
    apply np_bind; [apply np_run_body|]; intros [?e|?b]; [apply np_ret|].

  Lemma np_all_loop x body l : np (all_loop rs E d x body l).
  Proof. induction l as [|v l IH]; cbn [all_loop]; [apply np_ret|]. body_step IH. destruct (is_truthy b); [exact IH|apply np_ret]. Qed.

  Lemma np_exists_loop x body l : np (exists_loop rs E d x body l).
  Proof. induction l as [|v l IH]; cbn [exists_loop]; [apply np_ret|]. body_step IH. destruct (is_truthy b); [apply np_ret|exact IH]. Qed.

  Lemma np_exists_one_loop x body l : forall count, np (exists_one_loop rs E d x body l count).
  Proof.
    induction l as [|v l IH]; intros count; cbn [exists_one_loop]; [apply np_ret|]. body_step IH.
    destruct (is_truthy b); [destruct (1 <? count + 1); [apply np_ret|apply IH]|apply IH].
  Qed.

  Lemma np_filter_loop x body l : forall acc, np (filter_loop rs E d x body l acc).
  Proof. induction l as [|v l IH]; intros acc; cbn [filter_loop]; [apply np_ret|]. body_step IH. apply IH. Qed.

  Lemma np_map_loop x pred f l : forall acc, np (map_loop rs E d x pred f l acc).
  Proof.
    induction l as [|v l IH]; intros acc; cbn [map_loop]; [apply np_ret|]. destruct pred as [p|].
    - body_step IH. destruct (is_truthy b); [|apply IH]. apply np_bind; [apply np_run_body|]. intros [e2|y]; [apply np_ret|apply IH].
    - apply np_bind; [apply np_run_body|]. intros [e2|y]; [apply np_ret|apply IH].
  Qed.

  Lemma np_reduce_loop cur next body l : forall acc, np (reduce_loop rs E d cur next body l acc).
  Proof. induction l as [|v l IH]; intros acc; cbn [reduce_loop]; [apply np_ret|]. apply np_bind; [apply np_run_body|]. intros [e|a]; [apply np_ret|]. destruct (nested_too_deep a); [apply np_ret|apply IH]. Qed.

  Lemma np_coalesce_loop args : np (coalesce_loop rs E d args).
  Proof.
    induction args as [|c r IH]; cbn [coalesce_loop]; [apply np_ret|]. intros lg. pose proof (Hrs E c true d lg) as H.
    destruct (rs E c true d lg) as [[v|e| | |] lg']; cbn in *; try discriminate; try congruence.
    - destruct v; try (cbn; discriminate). apply IH.
    - destruct e; try (cbn; discriminate); apply IH.
  Qed.

  Lemma np_call_macro_impl name this args : np (call_macro_impl rs E d name this args).
  Proof.
    unfold call_macro_impl.
    destruct (bytes_eqb name _).
    { destruct args as [|c [|c2 r]]; try apply np_ret. intros lg. pose proof (Hrs E c true d lg) as H.
      destruct (rs E c true d lg) as [[v|e| | |] lg']; cbn in *; try discriminate; try congruence. destruct e; cbn; discriminate. }
    destruct (bytes_eqb name _); [apply np_coalesce_loop|].
    destruct (bytes_eqb name _).
    { destruct args as [|a0 [|a1 [|a2 r]]]; try apply np_ret. apply np_with_ident. intros x. destruct this; try apply np_ret. apply np_all_loop. }
    destruct (bytes_eqb name _).
    { destruct args as [|a0 [|a1 [|a2 r]]]; try apply np_ret. apply np_with_ident. intros x. destruct this; try apply np_ret. apply np_exists_loop. }
    destruct (bytes_eqb name _).
    { destruct args as [|a0 [|a1 [|a2 r]]]; try apply np_ret. apply np_with_ident. intros x. destruct this; try apply np_ret. apply np_exists_one_loop. }
    destruct (bytes_eqb name _).
    { destruct args as [|a0 [|a1 [|a2 r]]]; try apply np_ret. apply np_with_ident. intros x. destruct this; try apply np_ret; apply np_filter_loop. }
    destruct (bytes_eqb name _).
    { destruct args as [|a0 [|a1 [|a2 [|a3 r]]]]; try apply np_ret; apply np_with_ident; intros x; destruct this; try apply np_ret; apply np_map_loop. }
    destruct (bytes_eqb name _); [|apply np_fail].
    destruct args as [|a0 [|a1 [|a2 [|a3 [|a4 r]]]]]; try apply np_ret.
    apply np_with_ident. intros cur. apply np_with_ident. intros next. apply np_bind; [apply np_run_body|].
    intros [e|seed]; [apply np_ret|]. destruct this; try apply np_ret. apply np_reduce_loop.
  Qed.

  Lemma np_call_macro name this args : np (call_macro rs E d name this args).
  Proof. unfold call_macro. destruct (all_code args); [apply np_call_macro_impl|apply np_fail]. Qed.

  Lemma np_bin f st : np (bin rs E d f st).
  Proof. unfold bin. apply np_bind; [apply np_pop_val|]. intros [v2 st1]. apply np_bind; [apply np_pop_val|]. intros [v1 st2]. apply np_ret. Qed.

  Ltac np_auto :=
    repeat first
      [ apply np_ret | apply np_fail | apply np_pop_val | apply np_pop_noresolve | apply np_pop_n | apply np_resolve_args
      | apply np_call_func | apply np_call_macro | apply np_lift; apply Hctor
      | apply np_bind; [|intros]
      | match goal with
        | |- np (let '(_, _) := ?p in _) => destruct p
        | |- np (match ?x with _ => _ end) => destruct x
        | |- np (if ?b then _ else _) => destruct b
        end ].

  (** one instruction *)
  Theorem np_step i st : np (step rs E d i st).
  Proof.
    destruct i; cbn [step]; try apply np_bin; try apply np_ret.
    all: try (apply np_bind; [apply np_pop_val|]; intros [v st1]; repeat np_step; try apply np_pop_val).
    - (* MkList *) np_auto.
    - (* MkDict *)
      match goal with |- np (?g (Z.to_nat n) st [] false) => assert (G : forall k st0 acc bad, np (g k st0 acc bad)); [|apply G] end.
      induction k as [|k IH]; intros st0 acc bad; [destruct bad; apply np_ret|].
      apply np_bind; [apply np_pop_val|]. intros [key st1].
      apply np_bind; [apply np_pop_val|]. intros [v st2]. destruct key; apply IH.
    - (* Access *) np_auto.
    - (* Call *) np_auto.
    - (* Fmt *) apply np_bind; [apply np_pop_n|]. intros [segs st1].
      match goal with |- np (?g (rev segs) []) => assert (G : forall l acc, np (g l acc)); [|apply G] end.
      induction l as [|x l IH]; intros acc; [apply np_ret|]. destruct x; try apply np_fail. apply IH.
  Qed.

  (** the loop of one activation *)
  Theorem np_loop : forall fuel c pc st, np (loop rs fuel E d c pc st).
  Proof.
    induction fuel as [|f IH]; intros c pc st; [intros lg; cbn; discriminate|]. cbn [loop].
    destruct (nth_error c pc) as [i|]; [|apply np_ret]. apply np_bind; [apply np_step|]. intros [j st'].
    destruct j as [dd|]; [|apply IH]. destruct (jump_target (S pc) dd (length c)); [apply IH|apply np_fail].
  Qed.

  Theorem np_finish resolve st : np (finish rs E d resolve st).
  Proof.
    unfold finish. destruct resolve.
    - apply np_bind; [apply np_pop|]. intros r. apply np_bind; [apply np_into_value|]. intros v. unfold into_result. destruct v; try apply np_ret; apply np_fail.
    - destruct st as [|[v|b n o] st']; try apply np_fail. unfold into_result.
      destruct v; try apply np_ret; try apply np_fail. destruct (env_param E s) as [v|]; [destruct v; try apply np_ret; apply np_fail|apply np_ret].
  Qed.
End Total.

(** The interpreter itself: by induction on the fuel, every nested run included. *)
Section Run.
  Hypothesis Hfun : forall now n t a r, call_default now n t a = Some r -> r <> RPanic.
  Hypothesis Hctor : forall now t a, construct_type now t a <> RPanic.

  Theorem run_never_panics : forall fuel E c r d, np (run fuel E c r d).
  Proof.
    induction fuel as [|f IH]; intros E c r d; [intros lg; cbn; discriminate|]. cbn [run].
    destruct (Nat.ltb 32 (S d)); [apply np_fail|]. apply np_bind.
    - apply np_loop; assumption.
    - intros st. apply np_finish; assumption.
  Qed.

  Theorem exec_never_panics fuel E name : fst (exec fuel E name) <> RPanic.
  Proof.
    unfold exec. destruct (assoc name (e_progs E)) as [c|]; [|cbn; discriminate].
    pose proof (run_never_panics fuel E c true O []) as H. destruct (run fuel E c true 0 []) as [r lg]. exact H.
  Qed.
End Run.

(* ---- the built-in table never answers with the panic outcome -------------------------------- *)

From Rscel Require Import Model.Time Model.Strings Proofs.Conv.

Lemma dispatch_np arms this args :
  (forall a t l, In a arms -> a_impl a t l <> RPanic) -> dispatch arms this args <> RPanic.
Proof.
  intros H. destruct (dispatch_cases arms this args) as [E|(a & args' & Hin & _ & E)]; rewrite E; [discriminate|apply H; exact Hin].
Qed.

Ltac body_np :=
  cbn;
  repeat match goal with
         | |- context [match ?x with _ => _ end] => destruct x; cbn
         | |- context [if ?c then _ else _] => destruct c; cbn
         end; try discriminate.

Ltac arms_np :=
  intros a t l Hin; cbn [In] in Hin;
  repeat (destruct Hin as [<-|Hin]; [body_np|]); try (destruct Hin).

Theorem construct_type_never_panics now tname args : construct_type now tname args <> RPanic.
Proof.
  unfold construct_type.
  repeat match goal with |- (if ?c then _ else _) <> _ => destruct c end; try discriminate;
    apply dispatch_np.
  - unfold bool_arms. arms_np.
  - unfold int_arms. arms_np.
  - unfold uint_arms. arms_np.
  - unfold double_arms. arms_np.
  - unfold double_arms. arms_np.
  - unfold bytes_arms. arms_np.
  - unfold string_arms. arms_np.
  - unfold type_arms. arms_np.
  - unfold timestamp_arms. arms_np. unfold read_clock. destruct now; discriminate.
  - unfold duration_arms. unfold duration_new. arms_np.
  - unfold dyn_arms. arms_np.
Qed.

Ltac body_np2 :=
  cbn [a_impl arm1 arm2 arm3 arm_this arm_this1 arm_this2 str2 ci ok verr unmod bad];
  repeat match goal with
         | |- ?r <> RPanic =>
             match r with
             | ROk _ => discriminate
             | RUnmod => discriminate
             | RErr _ => discriminate
             | match ?x with _ => _ end => destruct x
             | if ?c then _ else _ => destruct c
             | let '(_, _) := ?p in _ => destruct p
             | _ => progress cbn [a_impl arm1 arm2 arm3 arm_this arm_this1 arm_this2 str2 ci ok verr unmod bad pow_int_res sort_impl]
             | _ => progress unfold ok, verr, unmod, bad, pow_int_res, sort_impl, min_impl, max_impl, zip_impl, string_func, str2, ci
             end
         end.

Ltac arms_np2 :=
  intros a t l Hin; cbn [In] in Hin;
  repeat (destruct Hin as [<-|Hin]; [body_np2|]); try (destruct Hin).

Lemma default_arms_np now name arms : default_arms now name = Some arms ->
  forall a t l, In a arms -> a_impl a t l <> RPanic.
Proof.
  unfold default_arms.
  repeat (destruct (bytes_eqb name _); [intros H; injection H as <-; arms_np2|]).
  all: try (intros H; discriminate H).
Qed.

Lemma time_arms_np name : forall a t l, In a (time_arms name) -> a_impl a t l <> RPanic.
Proof.
  unfold time_arms. destruct (taccess_of name) as [acc|]; [|intros a t l []].
  intros a t l Hin. apply in_app_or in Hin. destruct Hin as [Hin|Hin].
  - cbn [In] in Hin. repeat (destruct Hin as [<-|Hin]; [body_np2|]); try (destruct Hin).
  - destruct (dur_field acc 0); [|destruct Hin]. cbn [In] in Hin. repeat (destruct Hin as [<-|Hin]; [body_np2|]); try (destruct Hin).
Qed.

Theorem call_default_never_panics now name this args r : call_default now name this args = Some r -> r <> RPanic.
Proof.
  unfold call_default. destruct (negb (is_default_func name)); [discriminate|].
  destruct (default_arms now name) as [arms|] eqn:D.
  - intros H. injection H as <-. apply dispatch_np. apply (default_arms_np now name arms D).
  - repeat match goal with |- (if ?c then _ else _) = _ -> _ => destruct c end; intros H; injection H as <-;
      try (apply dispatch_np; apply time_arms_np);
      try (unfold string_func; body_np2);
      try (unfold min_impl, max_impl, zip_impl, read_clock; body_np2).
Qed.

(** no hypothesis left: the interpreter model never panics *)
Theorem vm_never_panics fuel E c r d lg : fst (run fuel E c r d lg) <> RPanic.
Proof. apply run_never_panics; [exact call_default_never_panics|exact construct_type_never_panics]. Qed.

Theorem exec_is_total fuel E name :
  match fst (exec fuel E name) with
  | ROk _ | RErr _ | RFuel | RUnmod => True
  | RPanic => False
  end.
Proof.
  pose proof (exec_never_panics call_default_never_panics construct_type_never_panics fuel E name) as H.
  destruct (fst (exec fuel E name)); auto.
Qed.

(* ---- the parser's recursion is bounded ---------------------------------------------------------- *)
From Rscel Require Import Model.Lexer Model.Ast Model.Parser.

(** an expression that would be the 33rd open level is refused before anything is read *)
Theorem nesting_guard fuel depth t : 32 <= depth -> p_expr_at (S fuel) depth t = PErr (tz_loc t).
Proof. intros H. cbn [p_expr_at]. assert (E : (32 <=? depth) = true) by (apply Z.leb_le; exact H). rewrite E. reflexivity. Qed.

(** a prefix run that is already 256 calls deep is refused *)
Theorem prefix_run_guard n k cnt t : 256 <= cnt ->
  p_oplist (S n) k cnt t = PErr (tz_loc t).
Proof. intros H. cbn [p_oplist]. assert (E : (256 <=? cnt) = true) by (apply Z.leb_le; exact H). rewrite E. reflexivity. Qed.
