(* Proofs/Reads.v — C17: every identifier a compiled program can resolve is one of its reported
   parameters (field names after '.' are not resolved and are not parameters). *)
From Coq Require Import ZArith List Bool Lia.
From Rscel Require Import Base.Prims Base.F64 Base.Text Model.Value Model.Ops Model.Dispatch Model.Funcs Model.Interp
     Model.Lexer Model.Ast Model.Parser Model.Compile Proofs.ValueInd Proofs.Params Proofs.Asm Proofs.EqSym Proofs.OpsColl.
From Rscel Require Import Proofs.Relevance.
Import ListNotations.
Import Coq.Strings.String.StringSyntax.
Open Scope Z_scope.

Lemma okv_mono (S S' : bytes -> Prop) : (forall n, S n -> S' n) -> forall v, okv S v -> okv S' v.
Proof.
  intros HS.
  apply (value_instr_ind (fun v => okv S v -> okv S' v) (fun i => match i with IPush v => okv S v -> okv S' v | _ => True end)).
  - intros l H. rewrite !okv_list. intros Hl. rewrite Forall_forall in *. auto.
  - intros m H. rewrite !okv_map. intros Hm. rewrite Forall_forall in *. auto.
  - intros c H. change (okc S c -> okc S' c). induction H as [|i r Hi _ IH]; [auto|].
    unfold okc in *. destruct i; try exact IH. cbn. destruct v; try (intros [A B]; split; [apply Hi; exact A|apply IH; exact B]).
    destruct r as [|[] r']; try (intros [A B]; split; [apply Hi; exact A|apply IH; exact B]); exact IH.
  - intros v Hv. destruct v; try contradiction; try (intros _; exact I). cbn. apply HS.
  - intros v H. exact H.
  - intros i Hi. destruct i; try exact I. contradiction.
Qed.

Section Okp.
  Variable S : bytes -> Prop.

  Fixpoint okp (p : pcode) : Prop :=
    match p with
    | [] => True
    | PBc (IPush v) :: r =>
        match v, r with
        | VIdent _, PBc IAccess :: _ => okp r
        | VIdent _, PBc (ICall _) :: _ => okp r
        | _, _ => okv S v /\ okp r
        end
    | _ :: r => okp r
    end.

  Lemma okp_tail x r : okp (x :: r) -> okp r.
  Proof.
    destruct x as [i|l|w l|l]; try (intros H; exact H). destruct i; try (intros H; exact H).
    cbn [okp]. destruct v; try (intros [_ H]; exact H). destruct r as [|[[]| | |] r']; try (intros [_ H]; exact H); intros H; exact H.
  Qed.

  Lemma okp_cons_push v r : okv S v -> okp r -> okp (PBc (IPush v) :: r).
  Proof.
    intros Hv Hr. cbn [okp]. destruct v; try (split; assumption). destruct r as [|[[]| | |] r']; try (split; assumption); exact Hr.
  Qed.

  Lemma okp_cons_other x r : match x with PBc (IPush _) => False | _ => True end -> okp r -> okp (x :: r).
  Proof. intros Hx Hr. destruct x as [i|l|w l|l]; try exact Hr. destruct i; try exact Hr. contradiction. Qed.

  Lemma okp_app a : forall b, okp a -> okp b -> okp (a ++ b).
  Proof.
    induction a as [|x a IH]; intros b Ha Hb; [exact Hb|]. cbn [app].
    pose proof (IH b (okp_tail _ _ Ha) Hb) as Hr.
    destruct x as [i|l|w l|l]; try exact Hr. destruct i; try exact Hr.
    cbn [okp] in Ha |- *. destruct v; try (split; [exact (proj1 Ha)|exact Hr]).
    destruct a as [|y a'].
    - cbn [app]. destruct b as [|[[]| | |] b']; try (split; [exact (proj1 Ha)|exact Hr]); exact Hr.
    - cbn [app] in *. destruct y as [[]| | |]; try (split; [exact (proj1 Ha)|exact Hr]); exact Hr.
  Qed.

  Lemma okp_access_tail a n : okp a -> okp (a ++ [PBc (IPush (VIdent n)); PBc IAccess]).
  Proof. intros H. apply okp_app; [exact H|]. cbn. exact I. Qed.

  Lemma okp_of_code bc : okc S bc -> okp (of_code bc).
  Proof.
    unfold okc, of_code. induction bc as [|i r IH]; [auto|]. cbn [map]. destruct i; try exact IH.
    cbn. destruct v; try (intros [A B]; split; [exact A|apply IH; exact B]).
    destruct r as [|[] r']; cbn [map]; try (intros [A B]; split; [exact A|apply IH; exact B]); exact IH.
  Qed.

  Lemma okc_cons_push v c : ((exists n r, v = VIdent n /\ (c = IAccess :: r \/ exists k, c = ICall k :: r)) \/ okv S v) -> okc S c -> okc S (IPush v :: c).
  Proof.
    unfold okc. intros H Hc. cbn. destruct H as [(n & r & -> & [->|(k & ->)])|Hv]; [exact Hc|exact Hc|].
    destruct v; try (split; assumption). destruct c as [|[] c']; try (split; assumption); exact Hc.
  Qed.
  Lemma okc_cons_other i c : match i with IPush _ => False | _ => True end -> okc S c -> okc S (i :: c).
  Proof. unfold okc. intros Hi Hc. destruct i; try exact Hc. contradiction. Qed.

  Lemma okp_resolve p : forall pos locs c, okp p -> resolve_at p pos locs = Some c -> okc S c.
  Proof.
    induction p as [|x p IH]; intros pos locs c Hp; cbn [resolve_at].
    - intros E. injection E as <-. exact I.
    - pose proof (okp_tail _ _ Hp) as Ht. destruct x as [i|l|w l|l].
      + destruct (resolve_at p (Datatypes.S pos) locs) as [c'|] eqn:R; [|discriminate]. cbn [option_map]. intros E. injection E as <-.
        pose proof (IH _ _ _ Ht R) as Hc'.
        destruct i; try (apply okc_cons_other; [exact I|exact Hc']).
        apply okc_cons_push; [|exact Hc']. cbn [okp] in Hp.
        destruct v; try (right; exact (proj1 Hp)).
        destruct p as [|y p']; [right; exact (proj1 Hp)|].
        destruct y as [[]| | |]; try (right; exact (proj1 Hp));
          (left; cbn [resolve_at] in R; destruct (resolve_at p' _ locs) as [c''|]; [|discriminate]; cbn in R; injection R as <-;
           exists s, c''; split; [reflexivity|]).
        * left. reflexivity.
        * right. exists n. reflexivity.
      + destruct (find_label l locs); [|discriminate]. destruct (resolve_at p (Datatypes.S pos) locs) as [c'|] eqn:R; [|discriminate].
        intros E. injection E as <-. apply okc_cons_other; [exact I|exact (IH _ _ _ Ht R)].
      + destruct (find_label l locs); [|discriminate]. destruct (resolve_at p (Datatypes.S pos) locs) as [c'|] eqn:R; [|discriminate].
        intros E. injection E as <-. apply okc_cons_other; [exact I|exact (IH _ _ _ Ht R)].
      + apply IH. exact Ht.
  Qed.

  Lemma okp_resolve' p c : okp p -> resolve p = Some c -> okc S c.
  Proof. unfold resolve. destruct (label_locs p 0 []); [|discriminate]. apply okp_resolve. Qed.
End Okp.

Lemma okp_mono (S S' : bytes -> Prop) : (forall n, S n -> S' n) -> forall p, okp S p -> okp S' p.
Proof.
  intros HS. induction p as [|x p IH]; [auto|]. intros H. pose proof (IH (okp_tail S _ _ H)) as Hr.
  destruct x as [i|l|w l|l]; try exact Hr. destruct i; try exact Hr. cbn [okp] in *.
  destruct v; try (split; [apply (okv_mono S S' HS); exact (proj1 H)|exact Hr]).
  destruct p as [|[[]| | |] p']; try (split; [apply (okv_mono S S' HS); exact (proj1 H)|exact Hr]); exact Hr.
Qed.

(* ---- the compiler: every resolvable identifier of the emitted code is a reported parameter ------ *)

Definition inS (ps : list bytes) (n : bytes) : Prop := In n ps \/ is_type_name n = true.
Definition bc_of' (c : cprog) : pcode := into_bytecode (cp_node c).
Definition rd (cp : cprog) : Prop := okp (inS (cp_params cp)) (bc_of' cp).

Lemma inS_incl ps ps' : incl ps ps' -> forall n, inS ps n -> inS ps' n.
Proof. intros H n [A|A]; [left; apply H; exact A|right; exact A]. Qed.
Lemma okp_weaken ps ps' p : incl ps ps' -> okp (inS ps) p -> okp (inS ps') p.
Proof. intros H. apply okp_mono. apply inS_incl. exact H. Qed.
Lemma okv_weaken ps ps' v : incl ps ps' -> okv (inS ps) v -> okv (inS ps') v.
Proof. intros H. apply okv_mono. apply inS_incl. exact H. Qed.

Lemma okp_push1 S v : okp S [PBc (IPush v)] <-> okv S v.
Proof. cbn [okp]. destruct v; tauto. Qed.

Lemma agree_compile_env S : agree S compile_env compile_env.
Proof. constructor; cbn; auto; try discriminate. Qed.

Lemma okp_repeat S i k : match i with IPush _ => False | _ => True end -> okp S (repeat (PBc i) k).
Proof. intros Hi. induction k as [|k IH]; [exact I|]. cbn [repeat]. apply okp_cons_other; [destruct i; auto|exact IH]. Qed.

Section Level.
  Variable fuel : nat.
  Variable rec_expr : expr -> C cprog.
  Hypothesis Hrec : forall e n cp n', rec_expr e n = COk cp n' -> rd cp.

  Lemma rd_compile2 op f a b : (forall S, ok2 S f) -> match op with IPush _ => False | _ => True end ->
    rd a -> rd b -> rd (compile2 op f a b).
  Proof.
    intros Hf Hop Ha Hb. unfold rd, bc_of' in *. unfold compile2, union.
    assert (Wa : okp (inS (cp_params a ++ cp_params b)) (into_bytecode (cp_node a))) by (eapply okp_weaken; [apply incl_appl, incl_refl|exact Ha]).
    assert (Wb : okp (inS (cp_params a ++ cp_params b)) (into_bytecode (cp_node b))) by (eapply okp_weaken; [apply incl_appr, incl_refl|exact Hb]).
    destruct (cp_node a) as [ca|x] eqn:Ea, (cp_node b) as [cb|y] eqn:Eb; cbn [cp_node cp_params into_bytecode] in *;
      try (apply okp_app; [exact Wa|apply okp_app; [exact Wb|apply okp_cons_other; [exact Hop|exact I]]]).
    apply okp_push1. apply Hf; apply okp_push1; assumption.
  Qed.

  Lemma rd_append_result a b : rd a -> rd b -> rd (append_result a b).
  Proof.
    intros Ha Hb. unfold rd, bc_of', append_result, union in *. cbn [cp_node cp_params into_bytecode].
    apply okp_app; [eapply okp_weaken; [apply incl_appl, incl_refl|exact Ha]|eapply okp_weaken; [apply incl_appr, incl_refl|exact Hb]].
  Qed.

  Lemma rd_check_for_const node n cp n' : rd node -> check_for_const fuel node n = COk cp n' -> rd cp.
  Proof.
    intros Hn H. unfold check_for_const in H. cinv H. unfold resolve_or_panic in Hc.
    destruct (resolve (into_bytecode (cp_node node))) as [bc|] eqn:R; [|discriminate]. injection Hc as <- <-.
    pose proof (okp_resolve' _ _ _ Hn R) as Hbc.
    assert (Hcode : rd (mkCP (NBytecode (of_code bc)) (cp_params node))).
    { unfold rd, bc_of'. cbn [cp_node cp_params into_bytecode]. apply okp_of_code. exact Hbc. }
    destruct (vm_relevant (inS (cp_params node)) fuel compile_env compile_env bc true O (agree_compile_env _) Hbc []) as [_ Pv].
    destruct (run fuel compile_env bc true 0 []) as [[v|e| | |] lg]; try discriminate H.
    - destruct (runtime_requested lg || contains_err v); apply cret_ok in H; destruct H as [<- _]; [exact Hcode|].
      unfold rd, bc_of'. cbn [cp_node cp_params into_bytecode]. apply okp_push1. eapply Pv. reflexivity.
    - apply cret_ok in H. destruct H as [<- _]. exact Hcode.
  Qed.

  Definition rds (cs : list cprog) : Prop := Forall rd cs.

  Lemma c_list_rd : forall es n cs n', c_list rec_expr es n = COk cs n' -> rds cs.
  Proof.
    induction es as [|e r IH]; intros n cs n' H; cbn [c_list] in H.
    - apply cret_ok in H. destruct H as [<- _]. constructor.
    - cinv H. cinv H. apply cret_ok in H. destruct H as [<- _]. constructor; [eapply Hrec; eauto|eapply IH; eauto].
  Qed.

  Lemma flat_codes_ok cs : rds cs -> okp (inS (flat_map cp_params cs)) (flat_map (fun c => into_bytecode (cp_node c)) cs).
  Proof.
    induction 1 as [|c r Hc _ IH]; [exact I|]. cbn [flat_map]. apply okp_app.
    - eapply okp_weaken; [apply incl_appl, incl_refl|exact Hc].
    - eapply okp_weaken; [apply incl_appr, incl_refl|exact IH].
  Qed.

  Lemma all_const_ok cs vs : rds cs -> all_const cs = Some vs -> Forall (okv (inS (flat_map cp_params cs))) vs.
  Proof.
    intros H. revert vs. induction H as [|c r Hc _ IH]; intros vs; cbn [all_const fold_right flat_map].
    - intros E. injection E as <-. constructor.
    - fold (all_const r). unfold rd, bc_of' in Hc. destruct (cp_node c) as [b|v] eqn:Ec; [discriminate|].
      destruct (all_const r) as [vs'|]; [|discriminate]. intros E. injection E as <-. constructor.
      + eapply okv_weaken; [apply incl_appl, incl_refl|]. apply okp_push1. exact Hc.
      + eapply Forall_impl; [|apply IH; reflexivity]. intros v0. apply okv_weaken. apply incl_appr, incl_refl.
  Qed.

  Lemma rd_from_children cs op f : match op with IPush _ => False | _ => True end ->
    (forall S vs, Forall (okv S) vs -> okv S (f vs)) -> rds cs -> rd (from_children cs op f).
  Proof.
    intros Hop Hf H. unfold rd, bc_of', from_children. destruct (all_const cs) as [vs|] eqn:A; cbn [cp_node cp_params into_bytecode].
    - apply okp_push1. apply Hf. eapply all_const_ok; eauto.
    - apply okp_app; [apply flat_codes_ok; exact H|apply okp_cons_other; [exact Hop|exact I]].
  Qed.

  Lemma okv_const_map S : forall vals acc, Forall (okv S) vals -> okv S (VMap acc) -> okv S (const_map vals acc).
  Proof.
    fix IH 1. intros vals acc Hv Ha. destruct vals as [|v [|k r]]; cbn [const_map]; try exact Ha.
    inversion Hv as [|? ? Hv0 Hr]; subst. inversion Hr as [|? ? Hk Hr']; subst.
    destruct k; try exact I. apply IH; [exact Hr'|]. apply okv_map. apply forall_insert'; [apply okv_map; exact Ha|exact Hv0].
  Qed.

  Lemma c_lit_rd l n cp n' : c_lit fuel rec_expr l n = COk cp n' -> rd cp.
  Proof.
    destruct l; cbn [c_lit]; try (intros H; apply cret_ok in H; destruct H as [<- _]; exact (conj I I)).
    intros H.
    match type of H with ?go segs [] [] O n = _ =>
      assert (G : forall segs0 acc ps k n0 cp0 n0', okp (inS ps) acc -> go segs0 acc ps k n0 = COk cp0 n0' -> rd cp0) end.
    { induction segs0 as [|sg r IH]; intros acc ps k n0 cp0 n0' Hacc H0.
      - apply cret_ok in H0. destruct H0 as [<- _]. unfold rd, bc_of'. cbn [cp_node cp_params into_bytecode].
        apply okp_app; [exact Hacc|exact I].
      - destruct sg as [s|s].
        + eapply IH; [|exact H0]. apply okp_app; [exact Hacc|]. cbn. exact (conj I I).
        + destruct (p_expr fuel (tz_init s)) as [e t| |] eqn:Hp; try discriminate H0.
          destruct (rec_expr e O) as [cpe ne| | | |] eqn:He; try discriminate H0.
          destruct (resolve (into_bytecode (cp_node cpe))) as [bc|] eqn:R; try discriminate H0.
          eapply IH; [|exact H0]. unfold union. apply okp_app; [eapply okp_weaken; [apply incl_appl, incl_refl|exact Hacc]|].
          cbn [okp]. split; [|exact I].
          apply (okv_weaken (cp_params cpe)); [apply incl_appr, incl_refl|].
          exact (okp_resolve' _ _ _ (Hrec _ _ _ _ He) R). }
    eapply G; [|exact H]. exact I.
  Qed.

  Lemma c_primary_rd p n cp n' : c_primary fuel rec_expr p n = COk cp n' -> rd cp.
  Proof.
    destruct p; cbn [c_primary]; intros H.
    - apply cret_ok in H. destruct H as [<- _]. unfold rd, bc_of'. cbn [cp_node cp_params into_bytecode]. apply okp_push1.
      left. left. reflexivity.
    - eapply Hrec; eauto.
    - cinv H. apply cret_ok in H. destruct H as [<- _]. apply rd_from_children; [exact I| |eapply c_list_rd; eauto].
      intros S vs Hv. apply okv_list. exact Hv.
    - cinv H. apply cret_ok in H. destruct H as [<- _]. apply rd_from_children; [exact I| |].
      + intros S vs Hv. apply okv_const_map; [exact Hv|exact I].
      + revert a n n0 Hc. induction inits as [|[r0 k v] rest IH]; intros a n n0 Hc.
        * apply cret_ok in Hc. destruct Hc as [<- _]. constructor.
        * cinv Hc. cinv Hc. cinv Hc. apply cret_ok in Hc. destruct Hc as [<- _].
          constructor; [eapply Hrec; eauto|]. constructor; [eapply Hrec; eauto|]. eapply IH; eauto.
    - eapply c_lit_rd; eauto.
  Qed.

  Lemma access_ok S o n : okv S o -> okv S (access o n).
  Proof.
    intros Ho. unfold access. destruct (is_err o); [exact Ho|]. destruct o; try exact I.
    destruct (map_get m n) eqn:G; [eapply map_get_ok; eauto|exact I].
  Qed.

  Lemma c_mprime_rd cur m n cp n' : rd cur -> c_mprime fuel rec_expr cur m n = COk cp n' -> rd cp.
  Proof.
    intros Hcur. destruct m; cbn [c_mprime]; intros H.
    - (* .name *)
      unfold rd, bc_of' in *. destruct (cp_node cur) as [c|o] eqn:Ec.
      + apply cret_ok in H. destruct H as [<- _]. cbn [cp_node cp_params into_bytecode] in *. apply okp_access_tail. exact Hcur.
      + cbn [into_bytecode] in Hcur. apply okp_push1 in Hcur.
        match type of H with (match ?fo with Some _ => _ | None => _ end) _ = _ => destruct fo as [v|] eqn:Ef end;
          apply cret_ok in H; destruct H as [<- _]; cbn [cp_node cp_params into_bytecode].
        * apply okp_push1. destruct o; try discriminate Ef. pose proof (access_ok _ (VMap m) (utf8_encode name) Hcur) as Ha.
          destruct (access (VMap m) (utf8_encode name)); try discriminate Ef; injection Ef as <-; exact Ha.
        * apply okp_cons_push; [exact Hcur|]. cbn. exact I.
    - (* call *)
      cinv H. eapply rd_check_for_const; [|exact H]. clear H.
      assert (G : okp (inS (snd a)) (fst a)).
      { revert a n n0 Hc. induction args as [|e rest IH]; intros a n n0 Hc.
        - apply cret_ok in Hc. destruct Hc as [<- _]. exact I.
        - cinv Hc. cinv Hc. cinv Hc. apply cret_ok in Hc. destruct Hc as [<- _]. cbn [fst snd]. unfold union.
          unfold resolve_or_panic in Hc1. destruct (resolve (into_bytecode (cp_node a0))) as [bc|] eqn:R; [|discriminate]. injection Hc1 as <- <-.
          apply okp_cons_push.
          + apply (okv_weaken (cp_params a0)); [apply incl_appl, incl_refl|]. exact (okp_resolve' _ _ _ (Hrec _ _ _ _ Hc0) R).
          + eapply okp_weaken; [apply incl_appr, incl_refl|]. eapply IH; eauto. }
      unfold rd, bc_of'. cbn [cp_node cp_params into_bytecode]. unfold union.
      apply okp_app; [eapply okp_weaken; [apply incl_appl, incl_refl|exact G]|].
      apply okp_app; [eapply okp_weaken; [apply incl_appr, incl_refl|exact Hcur]|exact I].
    - (* index *)
      cinv H. apply cret_ok in H. destruct H as [<- _]. apply rd_compile2; [intros S; apply ok_index|exact I|exact Hcur|eapply Hrec; eauto].
  Qed.

  Lemma c_member_rd m n cp n' : c_member fuel rec_expr m n = COk cp n' -> rd cp.
  Proof.
    destruct m as [r p ms]. cbn [c_member]. intros H. cinv H. apply c_primary_rd in Hc.
    revert a n0 Hc H. induction ms as [|x ms IH]; intros cur n0 Hcur H.
    - apply cret_ok in H. destruct H as [<- _]. exact Hcur.
    - cinv H. eapply IH; [|exact H]. eapply c_mprime_rd; eauto.
  Qed.

  Lemma c_unary_rd u n cp n' : c_unary fuel rec_expr u n = COk cp n' -> rd cp.
  Proof.
    destruct u; cbn [c_unary]; intros H.
    - eapply c_member_rd; eauto.
    - cinv H. apply cret_ok in H. destruct H as [<- _]. apply rd_append_result; [eapply c_member_rd; eauto|]. apply okp_repeat. exact I.
    - cinv H. apply cret_ok in H. destruct H as [<- _]. apply rd_append_result; [eapply c_member_rd; eauto|]. apply okp_repeat. exact I.
  Qed.

  Lemma c_mult_rd : forall e n cp n', c_mult fuel rec_expr e n = COk cp n' -> rd cp.
  Proof.
    induction e as [r l IH op u|r u]; intros n cp n' H; cbn [c_mult] in *.
    - cinv H. cinv H. apply cret_ok in H. destruct H as [<- _].
      destruct op; (apply rd_compile2; [intros S; first [apply ok_mul|apply ok_div|apply ok_rem]|exact I|eapply IH; eauto|eapply c_unary_rd; eauto]).
    - eapply c_unary_rd; eauto.
  Qed.

  Lemma c_addn_rd : forall e n cp n', c_addn fuel rec_expr e n = COk cp n' -> rd cp.
  Proof.
    induction e as [r l IH op u|r u]; intros n cp n' H; cbn [c_addn] in *.
    - cinv H. cinv H. apply cret_ok in H. destruct H as [<- _].
      destruct op; (apply rd_compile2; [intros S; first [apply ok_add|apply ok_sub]|exact I|eapply IH; eauto|eapply c_mult_rd; eauto]).
    - eapply c_mult_rd; eauto.
  Qed.

  Lemma c_rel_rd : forall e n cp n', c_rel fuel rec_expr e n = COk cp n' -> rd cp.
  Proof.
    induction e as [r l IH op u|r u]; intros n cp n' H; cbn [c_rel] in *.
    - cinv H. cinv H. apply cret_ok in H. destruct H as [<- _].
      destruct op; (apply rd_compile2; [intros S; first [apply ok_cmp|apply ok_eq|apply ok_neq|apply ok_in]|exact I|eapply IH; eauto|eapply c_addn_rd; eauto]).
    - eapply c_addn_rd; eauto.
  Qed.

  Lemma rd_link (cl cr : cprog) (mid tail : pcode) :
    rd cl -> rd cr -> okp (fun _ => False) mid -> okp (fun _ => False) tail ->
    rd (mkCP (NBytecode (into_bytecode (cp_node cl) ++ mid ++ into_bytecode (cp_node cr) ++ tail)) (union (cp_params cl) (cp_params cr))).
  Proof.
    intros Hl Hr Hm Ht. unfold rd, bc_of', union in *. cbn [cp_node cp_params into_bytecode].
    apply okp_app; [eapply okp_weaken; [apply incl_appl, incl_refl|exact Hl]|].
    apply okp_app; [eapply okp_mono; [|exact Hm]; intros ? []|].
    apply okp_app; [eapply okp_weaken; [apply incl_appr, incl_refl|exact Hr]|eapply okp_mono; [|exact Ht]; intros ? []].
  Qed.

  Lemma rd_append_if c x : rd c -> okp (fun _ => False) x -> rd (append_if_bytecode c x).
  Proof.
    intros Hc Hx. unfold rd, bc_of', append_if_bytecode in *. destruct (cp_node c) as [b|v] eqn:E; [|rewrite E; exact Hc].
    cbn [cp_node cp_params into_bytecode] in *. apply okp_app; [exact Hc|eapply okp_mono; [|exact Hx]; intros ? []].
  Qed.

  Lemma c_cand_chain_rd : forall e lbl n cp n', c_cand_chain fuel rec_expr e lbl n = COk cp n' -> rd cp.
  Proof.
    induction e as [r l IH u|r u]; intros lbl n cp n' H; cbn [c_cand_chain] in *.
    - cinv H. cinv H. apply cret_ok in H. destruct H as [<- _].
      apply (rd_link a a0 [PBc ITest; PBc IDup; PJmpCond false lbl] [PBc IAnd]); [eapply IH; eauto|eapply c_rel_rd; eauto|exact I|exact I].
    - eapply c_rel_rd; eauto.
  Qed.
  Lemma c_cand_rd e n cp n' : c_cand fuel rec_expr e n = COk cp n' -> rd cp.
  Proof.
    unfold c_cand. intros H. cinv H. cinv H. apply cret_ok in H. destruct H as [<- _].
    apply rd_append_if; [eapply c_cand_chain_rd; eauto|exact I].
  Qed.
  Lemma c_cor_chain_rd : forall e lbl n cp n', c_cor_chain fuel rec_expr e lbl n = COk cp n' -> rd cp.
  Proof.
    induction e as [r l IH u|r u]; intros lbl n cp n' H; cbn [c_cor_chain] in *.
    - cinv H. cinv H. apply cret_ok in H. destruct H as [<- _].
      apply (rd_link a a0 [PBc ITest; PBc IDup; PJmpCond true lbl] [PBc IOr]); [eapply IH; eauto|eapply c_cand_rd; eauto|exact I|exact I].
    - eapply c_cand_rd; eauto.
  Qed.
  Lemma c_cor_rd e n cp n' : c_cor fuel rec_expr e n = COk cp n' -> rd cp.
  Proof.
    unfold c_cor. intros H. cinv H. cinv H. apply cret_ok in H. destruct H as [<- _].
    apply rd_append_if; [eapply c_cor_chain_rd; eauto|exact I].
  Qed.

  (** a pattern: code and the names it reads; a type pattern pushes the name of a built-in type *)
  Lemma c_pattern_rd p n r n' : c_pattern fuel rec_expr p n = COk r n' -> okp (inS (snd r)) (fst r).
  Proof.
    destruct p; cbn [c_pattern]; intros H.
    - cinv H. apply cret_ok in H. destruct H as [<- _]. cbn [fst snd]. apply okp_app; [eapply c_cor_rd; eauto|destruct op; exact I].
    - destruct (is_type_name (utf8_encode name)) eqn:Ht; [|discriminate H].
      apply cret_ok in H. destruct H as [<- _]. cbn [fst snd]. cbn [okp]. split; [right; exact Ht|exact I].
    - apply cret_ok in H. destruct H as [<- _]. cbn [fst snd]. cbn. exact (conj I I).
  Qed.

  Lemma c_expr_body_rd e n cp n' : c_expr_body fuel rec_expr e n = COk cp n' -> rd cp.
  Proof.
    destruct e; cbn [c_expr_body]; intros H.
    - (* ternary *)
      cinv H. cinv H. cinv H.
      pose proof (c_cor_rd _ _ _ _ Hc) as R1. pose proof (c_cor_rd _ _ _ _ Hc0) as R2. pose proof (Hrec _ _ _ _ Hc1) as R3.
      unfold rd, bc_of', union in *.
      assert (W1 : okp (inS (cp_params a ++ cp_params a0 ++ cp_params a1)) (into_bytecode (cp_node a)))
        by (eapply okp_weaken; [apply incl_appl, incl_refl|exact R1]).
      assert (W2 : okp (inS (cp_params a ++ cp_params a0 ++ cp_params a1)) (into_bytecode (cp_node a0)))
        by (eapply okp_weaken; [apply incl_appr, incl_appl, incl_refl|exact R2]).
      assert (W3 : okp (inS (cp_params a ++ cp_params a0 ++ cp_params a1)) (into_bytecode (cp_node a1)))
        by (eapply okp_weaken; [apply incl_appr, incl_appr, incl_refl|exact R3]).
      destruct (cp_node a) as [cb|v] eqn:Ea.
      + cinv H. cinv H. apply cret_ok in H. destruct H as [<- _]. cbn [cp_node cp_params into_bytecode] in *.
        apply okp_app; [exact W1|]. apply okp_app; [exact I|]. apply okp_app; [exact W2|]. apply okp_app; [exact I|].
        apply okp_app; [exact W3|exact I].
      + destruct (is_err v); [|destruct (is_truthy v)]; apply cret_ok in H; destruct H as [<- _]; cbn [cp_node cp_params into_bytecode] in *; assumption.
    - (* match *)
      cinv H. cinv H. cinv H. cinv H. apply cret_ok in H. destruct H as [<- _].
      pose proof (Hrec _ _ _ _ Hc) as R0.
      match type of Hc0 with ?g cases n0 = _ =>
        assert (G : forall l m pr m', g l m = COk pr m' ->
                  Forall (fun pe => okp (inS (snd pr)) (fst pe) /\ okp (inS (snd pr)) (snd pe)) (fst pr)) end.
      { induction l as [|[rc p arm] l IH]; intros m0 pr m0' H0.
        - apply cret_ok in H0. destruct H0 as [<- _]. constructor.
        - cinv H0. cinv H0. cinv H0. apply cret_ok in H0. destruct H0 as [<- _]. cbn [fst snd]. unfold union. constructor.
          + cbn [fst snd]. split.
            * eapply okp_weaken; [apply incl_appl, incl_refl|eapply c_pattern_rd; eauto].
            * apply okp_cons_other; [exact I|]. eapply okp_weaken; [apply incl_appr, incl_appl, incl_refl|].
              match goal with Ha : rec_expr arm _ = COk _ _ |- _ => exact (Hrec _ _ _ _ Ha) end.
          + eapply Forall_impl; [|eapply IH; eauto]. intros [pb eb] [A B]. cbn [fst snd] in *.
            split; (eapply okp_weaken; [apply incl_appr, incl_appr, incl_refl|]; assumption). }
      pose proof (G _ _ _ _ Hc0) as Gp. clear G.
      match type of Hc2 with ?g (fst a0) n2 = _ =>
        assert (B : forall l q bd q', g l q = COk bd q' ->
                  forall S, Forall (fun pe => okp S (fst pe) /\ okp S (snd pe)) l -> okp S bd) end.
      { induction l as [|[pb eb] l IH]; intros q bd q' H0 S HS.
        - apply cret_ok in H0. destruct H0 as [<- _]. exact I.
        - cinv H0. cinv H0. apply cret_ok in H0. destruct H0 as [<- _]. inversion HS as [|? ? [A1 A2] Hr]; subst. cbn [fst snd] in *.
          apply okp_app; [exact I|]. apply okp_app; [exact A1|]. apply okp_app; [exact I|]. apply okp_app; [exact A2|].
          apply okp_app; [exact I|]. eapply IH; eauto. }
      unfold rd, bc_of', union in *. cbn [cp_node cp_params into_bytecode].
      apply okp_app; [eapply okp_weaken; [apply incl_appl, incl_refl|exact R0]|].
      apply okp_app; [|exact (conj I I)].
      eapply B; [exact Hc2|]. eapply Forall_impl; [|exact Gp]. intros [pb eb] [A1 A2]. cbn [fst snd] in *.
      split; (eapply okp_weaken; [apply incl_appr, incl_refl|]; assumption).
    - eapply c_cor_rd; eauto.
  Qed.
End Level.

(** Every identifier a compiled expression can resolve is one of its parameters or the name of a built-in type. *)
Theorem c_expr_rd : forall fuel e n cp n', c_expr fuel e n = COk cp n' -> rd cp.
Proof.
  induction fuel as [|f IH]; intros e n cp n' H; [discriminate H|]. cbn [c_expr] in H.
  eapply (c_expr_body_rd f (c_expr f)); eauto.
Qed.

Lemma inS_sorted ps n : inS (sort_params ps) n <-> inS ps n.
Proof. unfold inS. rewrite sort_params_in. tauto. Qed.

Theorem program_reads_only_its_params fuel src p k : compile_source fuel src = COk p k ->
  okc (inS (pr_params p)) (pr_code p).
Proof.
  intros H. unfold compile_source in H.
  destruct (parse_program fuel src) as [e t| |]; try discriminate H.
  destruct (c_expr fuel e O) as [cp n1| | | |] eqn:Hc; try discriminate H.
  destruct (resolve (into_bytecode (cp_node cp))) as [bc|] eqn:R; try discriminate H.
  injection H as <- _. cbn [pr_params pr_code].
  eapply okp_resolve'; [|exact R]. eapply okp_mono; [|exact (c_expr_rd _ _ _ _ _ Hc)].
  intros n Hn. apply inS_sorted. exact Hn.
Qed.

(* ---- C17: bindings that agree on the reported names give the same result ------------------------ *)

Lemma pure_ok S : forall v, pure v = true -> okv S v.
Proof.
  apply (value_ind_nested (fun v => pure v = true -> okv S v)).
  - intros l H Hp. apply okv_list. induction H as [|x r Hx _ IH]; [constructor|]. cbn in Hp. apply andb_prop in Hp. destruct Hp as [A B].
    constructor; [apply Hx; exact A|apply IH; exact B].
  - intros m H Hp. apply okv_map. induction H as [|[k x] r Hx _ IH]; [constructor|]. cbn in Hp. apply andb_prop in Hp. destruct Hp as [A B].
    constructor; [apply Hx; exact A|apply IH; exact B].
  - intros v Hv Hp. destruct v; try contradiction; try exact I; discriminate Hp.
Qed.

(** run-time environments of a single program: bound, no other stored program *)
Definition env_of (ps : list (bytes * value)) (ufs : list (bytes * ufun)) (now : Z) : env :=
  mkEnv true ps [] ufs true (Some now).

Definition pure_binds (ps : list (bytes * value)) : Prop := smap ps /\ forall n v, map_get ps n = Some v -> pure v = true.
Definition pure_ufuns (ufs : list (bytes * ufun)) : Prop := forall n v, assoc n ufs = Some (UFConst v) -> pure v = true.

Lemma agree_envs (S : bytes -> Prop) ps ps' ufs now : pure_binds ps -> pure_binds ps' -> pure_ufuns ufs ->
  (forall n, S n -> map_get ps n = map_get ps' n) -> agree S (env_of ps ufs now) (env_of ps' ufs now).
Proof.
  intros [S1 P1] [S2 P2] Pu Hag. constructor; cbn [env_of e_bound e_params e_progs e_ufuncs e_runtime e_now]; auto.
  - intros n v _ Hg. apply pure_ok. eapply P1; eauto.
  - intros n c _ Hc. discriminate Hc.
  - intros n v Hu. apply pure_ok. eapply Pu; eauto.
Qed.

(** The reported parameters are enough: two sets of bindings that agree on every reported name (and on
    variables named like a built-in type, which no program can read anyway once the type is known) give
    the same outcome - value or error, and call log - for every fuel, whatever else they bind. *)
Theorem reported_params_decide_the_result fuel src p k : compile_source fuel src = COk p k ->
  forall ps ps' ufs now, pure_binds ps -> pure_binds ps' -> pure_ufuns ufs ->
  (forall n, In n (pr_params p) \/ is_type_name n = true -> map_get ps n = map_get ps' n) ->
  forall fuelr lg, run fuelr (env_of ps ufs now) (pr_code p) true O lg = run fuelr (env_of ps' ufs now) (pr_code p) true O lg.
Proof.
  intros Hc ps ps' ufs now B1 B2 Bu Hag fuelr lg.
  apply (vm_same_outcome (inS (pr_params p))).
  - apply agree_envs; auto.
  - eapply program_reads_only_its_params; eauto.
Qed.

(** the premises are met: a program with a variable, a field name, a callee and a type pattern *)
Example relevance_somewhere :
  match compile_source 40 #"match x.f { case int: size(y), case _: z }" with
  | COk p _ => pr_params p
  | _ => []
  end = [#"size"; #"x"; #"y"; #"z"].
Proof. vm_compute. reflexivity. Qed.
