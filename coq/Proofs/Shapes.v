(* Proofs/Shapes.v — C05: the code the compiler emits for `||`, `&&`, `?:` and match IS the block the
   theorems of Blocks / Chains / MatchBlock talk about: resolving the label code of the construct gives
   chain_code / tern_code / match_code of the resolved operand blocks, for every expression. *)
From Coq Require Import ZArith List Bool Lia Arith Permutation.
From Rscel Require Import Base.Prims Model.Value Model.Ops Model.Interp Model.Ast Model.Compile Spec.WfCode Proofs.Asm Proofs.TreeAlg Proofs.CompileWf
     Proofs.Blocks Proofs.Chains Proofs.MatchBlock.
Import ListNotations.
Local Open Scope nat_scope.

(* ---- closed label code resolves the same wherever it is placed ---------------------------------- *)

Fixpoint puses (c : pcode) : list nat :=
  match c with
  | [] => []
  | PJmp l :: r | PJmpCond _ l :: r => l :: puses r
  | _ :: r => puses r
  end.
Definition pdefs (c : pcode) : list nat := map fst (plabs c 0).
Definition pclosed (c : pcode) : Prop := NoDup (pdefs c) /\ forall l, In l (puses c) -> In l (pdefs c).

Lemma puses_app a b : puses (a ++ b) = puses a ++ puses b.
Proof. induction a as [|[i|l|w l|l] a IH]; cbn; auto; rewrite IH; reflexivity. Qed.

Lemma plabs_shift c : forall p, plabs c p = map (fun lq => (fst lq, p + snd lq)) (plabs c 0).
Proof.
  induction c as [|[i|l|w l|l] c IH]; intros p; cbn [plabs map]; try reflexivity.
  - rewrite (IH (S p)), (IH 1), map_map. apply map_ext. intros [k q]. cbn. f_equal. lia.
  - rewrite (IH (S p)), (IH 1), map_map. apply map_ext. intros [k q]. cbn. f_equal. lia.
  - rewrite (IH (S p)), (IH 1), map_map. apply map_ext. intros [k q]. cbn. f_equal. lia.
  - cbn. rewrite Nat.add_0_r. f_equal. apply IH.
Qed.
Lemma pdefs_at c p : map fst (plabs c p) = pdefs c.
Proof. unfold pdefs. rewrite (plabs_shift c p), map_map. reflexivity. Qed.
Lemma pdefs_app a b : pdefs (a ++ b) = pdefs a ++ pdefs b.
Proof. unfold pdefs. rewrite plabs_app, map_app. f_equal. apply pdefs_at. Qed.

(** jumps are relative: only the distance from the position to the label matters *)
Lemma resolve_at_rel c : forall p q locs locs',
  (forall l, In l (puses c) -> exists a b, find_label l locs = Some a /\ find_label l locs' = Some b /\
                                           (Z.of_nat a - Z.of_nat p = Z.of_nat b - Z.of_nat q)%Z) ->
  resolve_at c p locs = resolve_at c q locs'.
Proof.
  induction c as [|[i|l|w l|l] c IH]; intros p q locs locs' H; cbn [resolve_at].
  - reflexivity.
  - rewrite (IH (S p) (S q) locs locs'); [reflexivity|].
    intros l Hl. destruct (H l Hl) as (a & b & A & B & D). exists a, b. repeat split; auto. lia.
  - destruct (H l (or_introl eq_refl)) as (a & b & A & B & D). rewrite A, B.
    rewrite (IH (S p) (S q) locs locs').
    + destruct (resolve_at c (S q) locs'); [|reflexivity]. do 3 f_equal. lia.
    + intros l0 Hl. destruct (H l0 (or_intror Hl)) as (a0 & b0 & A0 & B0 & D0). exists a0, b0. repeat split; auto. lia.
  - destruct (H l (or_introl eq_refl)) as (a & b & A & B & D). rewrite A, B.
    rewrite (IH (S p) (S q) locs locs').
    + destruct (resolve_at c (S q) locs'); [|reflexivity]. do 3 f_equal. lia.
    + intros l0 Hl. destruct (H l0 (or_intror Hl)) as (a0 & b0 & A0 & B0 & D0). exists a0, b0. repeat split; auto. lia.
  - apply IH. exact H.
Qed.

Lemma resolve_at_length c : forall p locs r, resolve_at c p locs = Some r -> length r = psize c.
Proof.
  induction c as [|[i|l|w l|l] c IH]; intros p locs r; cbn [resolve_at psize].
  - intros E. injection E as <-. reflexivity.
  - destruct (resolve_at c (S p) locs) eqn:R; cbn; [|discriminate]. intros E. injection E as <-. cbn. f_equal. eauto.
  - destruct (find_label l locs); [|discriminate]. destruct (resolve_at c (S p) locs) eqn:R; [|discriminate].
    intros E. injection E as <-. cbn. f_equal. eauto.
  - destruct (find_label l locs); [|discriminate]. destruct (resolve_at c (S p) locs) eqn:R; [|discriminate].
    intros E. injection E as <-. cbn. f_equal. eauto.
  - eauto.
Qed.

Lemma resolve_unfold c : NoDup (pdefs c) -> resolve c = resolve_at c 0 (rev (plabs c 0)).
Proof.
  intros H. unfold resolve. rewrite label_locs_spec; rewrite app_nil_r; [reflexivity|exact H].
Qed.
Lemma resolve_length c r : resolve c = Some r -> length r = psize c.
Proof. unfold resolve. destruct (label_locs c 0 []); [|discriminate]. apply resolve_at_length. Qed.

Lemma nodup_app_l {A} (a b : list A) : NoDup (a ++ b) -> NoDup a.
Proof. induction a as [|x a IH]; cbn; intros H; [constructor|]. inversion H; subst. constructor; [|auto]. intros Hin. apply H2. apply in_or_app. auto. Qed.
Lemma nodup_app_r {A} (a b : list A) : NoDup (a ++ b) -> NoDup b.
Proof. induction a as [|x a IH]; cbn; intros H; [exact H|]. inversion H; subst. auto. Qed.
Lemma nodup_app_disj {A} (a b : list A) x : NoDup (a ++ b) -> In x a -> In x b -> False.
Proof. induction a as [|y a IH]; cbn; intros H Ha Hb; [contradiction|]. inversion H; subst. destruct Ha as [->|Ha]; [|eauto]. apply H2. apply in_or_app. auto. Qed.

(** the label table of a whole program finds the labels of each of its parts where they are *)
Section Whole.
  Variable whole : pcode.
  Hypothesis Hnd : NoDup (pdefs whole).
  Let locs := rev (plabs whole 0).

  Lemma find_in_whole pre c post l o : whole = pre ++ c ++ post -> In (l, o) (plabs c 0) ->
    find_label l locs = Some (psize pre + o).
  Proof.
    intros -> Hin. apply find_label_in.
    - unfold locs. rewrite map_rev. apply NoDup_rev. exact Hnd.
    - unfold locs. rewrite <- in_rev. rewrite plabs_app. apply in_or_app. right.
      rewrite plabs_app. apply in_or_app. left. rewrite plabs_shift. apply in_map_iff. exists (l, o). split; [|exact Hin].
      cbn. reflexivity.
  Qed.

  Lemma sub_nodup pre c post : whole = pre ++ c ++ post -> NoDup (pdefs c).
  Proof.
    intros E. rewrite E in Hnd. rewrite !pdefs_app in Hnd. apply nodup_app_r in Hnd. apply nodup_app_l in Hnd. exact Hnd.
  Qed.

  (** a closed part resolves, in place, to what it resolves to on its own *)
  Lemma resolve_at_sub pre c post : whole = pre ++ c ++ post -> (forall l, In l (puses c) -> In l (pdefs c)) ->
    resolve_at c (psize pre) locs = resolve c.
  Proof.
    intros E Hc. rewrite (resolve_unfold c (sub_nodup _ _ _ E)). apply resolve_at_rel. intros l Hl.
    apply Hc in Hl. unfold pdefs in Hl. apply in_map_iff in Hl. destruct Hl as ([l' o] & El & Hin). cbn in El. subst l'.
    exists (psize pre + o), o. split; [eapply find_in_whole; eauto|]. split; [|lia].
    apply find_label_in; [|rewrite <- in_rev; exact Hin].
    rewrite map_rev. apply NoDup_rev. exact (sub_nodup _ _ _ E).
  Qed.
End Whole.

(* ---- chains ------------------------------------------------------------------------------------- *)

Definition plink (w : bool) (op : instr) (L : nat) (p : pcode) : pcode :=
  [PBc ITest; PBc IDup; PJmpCond w L] ++ p ++ [PBc op].
Fixpoint plinks (w : bool) (op : instr) (L : nat) (ps : list pcode) : pcode :=
  match ps with [] => [] | p :: r => plink w op L p ++ plinks w op L r end.

Definition resolves_to (p : pcode) (c : code) : Prop :=
  resolve p = Some c /\ forall l, In l (puses p) -> In l (pdefs p).


Lemma psize_plinks w op L ps cs : Forall2 resolves_to ps cs -> psize (plinks w op L ps) = length (links w op cs).
Proof.
  induction 1 as [|p c ps cs [R _] _ IH]; [reflexivity|].
  cbn [plinks links]. unfold plink. rewrite !psize_app, !app_length, IH, (resolve_length _ _ R). cbn [psize length]. lia.
Qed.

Section ChainWhole.
  Variable whole : pcode.
  Hypothesis Hnd : NoDup (pdefs whole).
  Let locs := rev (plabs whole 0).
  Variables (w : bool) (op : instr) (L : nat).

  Lemma links_resolve : forall ps cs pre, Forall2 resolves_to ps cs ->
    whole = pre ++ plinks w op L ps ++ [PLabel L] ->
    resolve_at (plinks w op L ps) (psize pre) locs = Some (links w op cs).
  Proof.
    intros ps cs pre F. revert pre. induction F as [|p c ps cs [R Hc] F IH]; intros pre E; [reflexivity|].
    assert (HL : find_label L locs = Some (psize pre + psize (plinks w op L (p :: ps)))).
    { replace (psize pre + psize (plinks w op L (p :: ps))) with (psize (pre ++ plinks w op L (p :: ps)) + 0)
        by (rewrite psize_app; lia).
      apply (find_in_whole whole Hnd (pre ++ plinks w op L (p :: ps)) [PLabel L] [] L 0).
      - rewrite E, <- app_assoc. reflexivity.
      - left. reflexivity. }
    cbn [plinks]. unfold plink at 1. rewrite <- !app_assoc. cbn [app resolve_at]. rewrite HL.
    rewrite resolve_at_app.
    replace (S (S (S (psize pre)))) with (psize (pre ++ [PBc ITest; PBc IDup; PJmpCond w L])) by (rewrite psize_app; cbn; lia).
    unfold locs.
    rewrite (resolve_at_sub whole Hnd _ p ([PBc op] ++ plinks w op L ps ++ [PLabel L]));
      [|rewrite E; cbn [plinks]; unfold plink; rewrite <- !app_assoc; reflexivity|exact Hc].
    rewrite R. cbn [option_map app resolve_at].
    replace (S (psize (pre ++ [PBc ITest; PBc IDup; PJmpCond w L]) + psize p)) with (psize (pre ++ plink w op L p))
      by (unfold plink; rewrite !psize_app; cbn; lia).
    fold locs. rewrite (IH (pre ++ plink w op L p)); [|rewrite E; cbn [plinks]; rewrite <- !app_assoc; reflexivity].
    cbn [option_map links app]. do 4 f_equal.
    rewrite !psize_app. cbn [plinks]. unfold plink. rewrite !psize_app, (psize_plinks w op L ps cs F), (resolve_length _ _ R).
    cbn [psize]. f_equal. lia.
  Qed.
End ChainWhole.

Lemma pdefs_plinks w op L ps : pdefs (plinks w op L ps) = flat_map pdefs ps.
Proof.
  induction ps as [|p r IH]; [reflexivity|]. cbn [plinks flat_map]. unfold plink. rewrite !pdefs_app, IH.
  change (pdefs [PBc ITest; PBc IDup; PJmpCond w L]) with (@nil nat). change (pdefs [PBc op]) with (@nil nat).
  rewrite app_nil_r. reflexivity.
Qed.
Lemma plinks_app w op L a b : plinks w op L (a ++ b) = plinks w op L a ++ plinks w op L b.
Proof. induction a as [|p r IH]; [reflexivity|]. cbn [app plinks]. rewrite IH, app_assoc. reflexivity. Qed.

(** a chain resolves to the chain of its resolved operands *)
Theorem chain_resolves w op L p1 ps c1 cs :
  resolves_to p1 c1 -> Forall2 resolves_to ps cs -> NoDup (pdefs p1 ++ flat_map pdefs ps ++ [L]) ->
  resolve (p1 ++ plinks w op L ps ++ [PLabel L]) = Some (chain_code w op c1 cs).
Proof.
  intros [R1 C1] F Hnd. set (whole := p1 ++ plinks w op L ps ++ [PLabel L]).
  assert (Hnd' : NoDup (pdefs whole)).
  { unfold whole. rewrite !pdefs_app, pdefs_plinks. exact Hnd. }
  rewrite (resolve_unfold _ Hnd'). unfold whole at 1. rewrite resolve_at_app.
  pose proof (resolve_at_sub whole Hnd' [] p1 (plinks w op L ps ++ [PLabel L]) eq_refl C1) as S1. cbn [psize] in S1. rewrite S1, R1.
  rewrite resolve_at_app. cbn [psize Nat.add].
  rewrite (links_resolve whole Hnd' w op L ps cs p1 F eq_refl). cbn [option_map resolve_at]. rewrite app_nil_r. reflexivity.
Qed.

(* ---- what "good" compile results give ---------------------------------------------------------- *)

Lemma puses_of_code bc : puses (of_code bc) = [].
Proof. unfold of_code. induction bc as [|i r IH]; cbn; auto. Qed.
Lemma puses_flat t : puses (flat t) = tuses t.
Proof.
  induction t as [|i|l|w l|l|bc Hb|a IHa b IHb]; cbn [flat tuses puses]; try reflexivity.
  - apply puses_of_code.
  - rewrite puses_app. congruence.
Qed.
Lemma pdefs_flat t : pdefs (flat t) = tdefs t.
Proof. unfold pdefs, tdefs. rewrite plabs_flat. reflexivity. Qed.

Record closed_in (n n' : nat) (p : pcode) (c : code) : Prop := mkCI {
  ci_res : resolves_to p c;
  ci_nodup : NoDup (pdefs p);
  ci_range : forall l, In l (pdefs p) -> n <= l < n' }.

Lemma good_closed n n' nv : good n n' nv -> exists c, closed_in n n' (into_bytecode nv) c.
Proof.
  intros G. destruct (good_resolves _ _ _ G) as (c & H & R & _). exists c.
  destruct G as (t & F & [N Fw D Rg _]). rewrite <- F. split.
  - split; [rewrite F; exact R|]. intros l Hl. rewrite puses_flat in Hl. rewrite pdefs_flat.
    destruct (tfwd_uses t _ Fw l Hl) as [Hd|[]]. exact Hd.
  - rewrite pdefs_flat. exact D.
  - intros l Hl. rewrite pdefs_flat in Hl. exact (Rg l Hl).
Qed.

(** operands compiled one after the other, each with its own run of labels *)
Inductive compiled_seq {A} (f : A -> C cprog) : nat -> list A -> list cprog -> nat -> Prop :=
| cs_nil n : compiled_seq f n [] [] n
| cs_cons n a n1 cp r cps n2 : f a n = COk cp n1 -> compiled_seq f n1 r cps n2 ->
    compiled_seq f n (a :: r) (cp :: cps) n2.

Lemma compiled_seq_snoc {A} (f : A -> C cprog) n xs cps n1 a cp n2 :
  compiled_seq f n xs cps n1 -> f a n1 = COk cp n2 -> compiled_seq f n (xs ++ [a]) (cps ++ [cp]) n2.
Proof. induction 1; intros Hlast; cbn [app]; econstructor; eauto. constructor. Qed.

Definition bc_of (c : cprog) : pcode := into_bytecode (cp_node c).

Section Seq.
  Context {A : Type} (f : A -> C cprog).
  Hypothesis Hf : forall a n cp n', f a n = COk cp n' -> n <= n' /\ good n n' (cp_node cp).

  Lemma seq_closed : forall n xs cps n', compiled_seq f n xs cps n' ->
    n <= n' /\ exists cs, Forall2 resolves_to (map bc_of cps) cs /\
                          NoDup (flat_map pdefs (map bc_of cps)) /\
                          (forall l, In l (flat_map pdefs (map bc_of cps)) -> n <= l < n').
  Proof.
    induction 1 as [n|n a n1 cp r cps n2 Ha _ (L2 & cs & F & Nd & Rg)].
    - split; [lia|]. exists []. cbn. split; [constructor|]. split; [constructor|tauto].
    - destruct (Hf _ _ _ _ Ha) as [L1 G]. destruct (good_closed _ _ _ G) as (c & [Rc Nc Rgc]). split; [lia|].
      exists (c :: cs). cbn [map flat_map]. split; [constructor; assumption|]. split.
      + apply NoDup_app_disjoint; auto. intros x H1 H2. apply Rgc in H1. apply Rg in H2. lia.
      + intros l Hl. apply in_app_or in Hl. destruct Hl as [Hl|Hl]; [apply Rgc in Hl|apply Rg in Hl]; lia.
  Qed.
End Seq.

(* ---- || and && as compiled ----------------------------------------------------------------------- *)

Fixpoint cor_ops (e : cor) : cand * list cand :=
  match e with OrUn _ u => (u, []) | OrBin _ l r => (fst (cor_ops l), snd (cor_ops l) ++ [r]) end.
Fixpoint cand_ops (e : cand) : rel * list rel :=
  match e with AndUn _ u => (u, []) | AndBin _ l r => (fst (cand_ops l), snd (cand_ops l) ++ [r]) end.

Section Gen.
  Variable fuel : nat.
  Variable rec_expr : expr -> C cprog.
  Hypothesis Hrec : forall e n cp n', rec_expr e n = COk cp n' -> n <= n' /\ good n n' (cp_node cp).

  Lemma c_cand_chain_shape : forall e L n cp n', c_cand_chain fuel rec_expr e L n = COk cp n' ->
    exists cph cpt, compiled_seq (c_rel fuel rec_expr) n (fst (cand_ops e) :: snd (cand_ops e)) (cph :: cpt) n' /\
      bc_of cp = bc_of cph ++ plinks false IAnd L (map bc_of cpt) /\
      (snd (cand_ops e) = [] -> cp = cph) /\ (snd (cand_ops e) <> [] -> is_const (cp_node cp) = false).
  Proof.
    induction e as [r l IH rr|r u]; intros L n cp n' H; cbn [c_cand_chain] in H.
    - apply cbind_ok in H. destruct H as (cl & n1 & Hl & H). apply cbind_ok in H. destruct H as (cr & n2 & Hr & H).
      apply cret_ok in H. destruct H as [-> ->]. destruct (IH _ _ _ _ Hl) as (cph & cpt & S & B & _ & _).
      exists cph, (cpt ++ [cr]). cbn [cand_ops fst snd]. split; [|split; [|split]].
      + apply (compiled_seq_snoc _ _ (fst (cand_ops l) :: snd (cand_ops l)) (cph :: cpt) n1 rr cr n2 S Hr).
      + unfold bc_of at 1. cbn [cp_node into_bytecode]. fold (bc_of cl). rewrite B, map_app, plinks_app. cbn [map plinks].
        unfold plink. fold (bc_of cr). rewrite app_nil_r, <- !app_assoc. reflexivity.
      + intros E. destruct (snd (cand_ops l)); discriminate.
      + reflexivity.
    - exists cp, []. cbn [cand_ops fst snd map plinks]. split; [econstructor; [exact H|constructor]|].
      rewrite app_nil_r. split; [reflexivity|]. split; [reflexivity|]. intros E. contradiction.
  Qed.

  Lemma c_cor_chain_shape : forall e L n cp n', c_cor_chain fuel rec_expr e L n = COk cp n' ->
    exists cph cpt, compiled_seq (c_cand fuel rec_expr) n (fst (cor_ops e) :: snd (cor_ops e)) (cph :: cpt) n' /\
      bc_of cp = bc_of cph ++ plinks true IOr L (map bc_of cpt) /\
      (snd (cor_ops e) = [] -> cp = cph) /\ (snd (cor_ops e) <> [] -> is_const (cp_node cp) = false).
  Proof.
    induction e as [r l IH rr|r u]; intros L n cp n' H; cbn [c_cor_chain] in H.
    - apply cbind_ok in H. destruct H as (cl & n1 & Hl & H). apply cbind_ok in H. destruct H as (cr & n2 & Hr & H).
      apply cret_ok in H. destruct H as [-> ->]. destruct (IH _ _ _ _ Hl) as (cph & cpt & S & B & _ & _).
      exists cph, (cpt ++ [cr]). cbn [cor_ops fst snd]. split; [|split; [|split]].
      + apply (compiled_seq_snoc _ _ (fst (cor_ops l) :: snd (cor_ops l)) (cph :: cpt) n1 rr cr n2 S Hr).
      + unfold bc_of at 1. cbn [cp_node into_bytecode]. fold (bc_of cl). rewrite B, map_app, plinks_app. cbn [map plinks].
        unfold plink. fold (bc_of cr). rewrite app_nil_r, <- !app_assoc. reflexivity.
      + intros E. destruct (snd (cor_ops l)); discriminate.
      + reflexivity.
    - exists cp, []. cbn [cor_ops fst snd map plinks]. split; [econstructor; [exact H|constructor]|].
      rewrite app_nil_r. split; [reflexivity|]. split; [reflexivity|]. intros E. contradiction.
  Qed.

  (** the common end of both: a compiled chain resolves to the chain of its resolved operands *)
  Lemma chain_of_seq {A} (f : A -> C cprog) (Hf : forall a n cp n', f a n = COk cp n' -> n <= n' /\ good n n' (cp_node cp))
        w op L x xs cph cpt n' (cp : cprog) :
    compiled_seq f (S L) (x :: xs) (cph :: cpt) n' ->
    bc_of cp = bc_of cph ++ plinks w op L (map bc_of cpt) ->
    exists ch cts, resolve (bc_of cph) = Some ch /\
                   Forall2 (fun c code => resolve (bc_of c) = Some code) cpt cts /\
                   resolve (bc_of cp ++ [PLabel L]) = Some (chain_code w op ch cts).
  Proof.
    intros S B. inversion S as [|? ? n1 ? ? ? ? Hh St]; subst.
    destruct (Hf _ _ _ _ Hh) as [L1 G]. destruct (good_closed _ _ _ G) as (ch & [Rh Nh Rgh]).
    destruct (seq_closed f Hf _ _ _ _ St) as (L2 & cts & F & Nd & Rg).
    exists ch, cts. split; [exact (proj1 Rh)|]. split.
    - clear -F. revert cts F. induction cpt as [|c r IH]; intros cts F; inversion F; subst; constructor.
      + match goal with H : resolves_to _ _ |- _ => exact (proj1 H) end.
      + apply IH. assumption.
    - rewrite B, <- app_assoc. apply chain_resolves; auto.
      apply NoDup_app_disjoint; auto.
      + apply NoDup_app_disjoint; auto.
        * constructor; [intros []|constructor].
        * intros y H1 [<-|[]]. apply Rg in H1. lia.
      + intros y H1 H2. apply Rgh in H1. apply in_app_or in H2. destruct H2 as [H2|[<-|[]]]; [apply Rg in H2|]; lia.
  Qed.

  (** a || b || ... with at least two operands: the emitted program is the proved chain block over the
      emitted operand programs *)
  Theorem or_compiles_to_chain e n cp n' : c_cor fuel rec_expr e n = COk cp n' -> snd (cor_ops e) <> [] ->
    exists cph cpt ch cts,
      compiled_seq (c_cand fuel rec_expr) (S n) (fst (cor_ops e) :: snd (cor_ops e)) (cph :: cpt) n' /\
      resolve (bc_of cph) = Some ch /\ Forall2 (fun c code => resolve (bc_of c) = Some code) cpt cts /\
      resolve (bc_of cp) = Some (or_chain_code ch cts).
  Proof.
    unfold c_cor. intros H Hne. apply cbind_ok in H. destruct H as (L & n1 & HLb & H). unfold new_label in HLb. injection HLb as <- <-.
    apply cbind_ok in H. destruct H as (c & n2 & Hc & H). apply cret_ok in H. destruct H as [-> ->].
    destruct (c_cor_chain_shape _ _ _ _ _ Hc) as (cph & cpt & S & B & _ & Hk). specialize (Hk Hne).
    destruct (chain_of_seq _ (c_cand_good fuel rec_expr Hrec) true IOr _ _ _ _ _ _ _ S B) as (ch & cts & R1 & F & R).
    exists cph, cpt, ch, cts. split; [exact S|]. split; [exact R1|]. split; [exact F|].
    unfold append_if_bytecode. unfold bc_of in *. destruct (cp_node c) as [b|v]; [|discriminate]. exact R.
  Qed.

  Theorem and_compiles_to_chain e n cp n' : c_cand fuel rec_expr e n = COk cp n' -> snd (cand_ops e) <> [] ->
    exists cph cpt ch cts,
      compiled_seq (c_rel fuel rec_expr) (S n) (fst (cand_ops e) :: snd (cand_ops e)) (cph :: cpt) n' /\
      resolve (bc_of cph) = Some ch /\ Forall2 (fun c code => resolve (bc_of c) = Some code) cpt cts /\
      resolve (bc_of cp) = Some (and_chain_code ch cts).
  Proof.
    unfold c_cand. intros H Hne. apply cbind_ok in H. destruct H as (L & n1 & HLb & H). unfold new_label in HLb. injection HLb as <- <-.
    apply cbind_ok in H. destruct H as (c & n2 & Hc & H). apply cret_ok in H. destruct H as [-> ->].
    destruct (c_cand_chain_shape _ _ _ _ _ Hc) as (cph & cpt & S & B & _ & Hk). specialize (Hk Hne).
    destruct (chain_of_seq _ (c_rel_good fuel rec_expr Hrec) false IAnd _ _ _ _ _ _ _ S B) as (ch & cts & R1 & F & R).
    exists cph, cpt, ch, cts. split; [exact S|]. split; [exact R1|]. split; [exact F|].
    unfold append_if_bytecode. unfold bc_of in *. destruct (cp_node c) as [b|v]; [|discriminate]. exact R.
  Qed.
End Gen.

(* ---- ?: ------------------------------------------------------------------------------------------ *)

Definition ptern (A E : nat) (cb ct cf : pcode) : pcode :=
  cb ++ [PBc ITest; PBc IDup; PJmpCond false A; PBc IPop] ++ ct ++
  [PJmp E; PLabel A; PBc IDup; PBc INot; PJmpCond false E; PBc IPop] ++ cf ++ [PLabel E].

Theorem tern_resolves A E cb ct cf c1 c2 c3 :
  resolves_to cb c1 -> resolves_to ct c2 -> resolves_to cf c3 ->
  NoDup (pdefs cb ++ pdefs ct ++ [A] ++ pdefs cf ++ [E]) ->
  resolve (ptern A E cb ct cf) = Some (tern_code c1 c2 c3).
Proof.
  intros [R1 C1] [R2 C2] [R3 C3] Hnd. set (whole := ptern A E cb ct cf).
  assert (Hnd' : NoDup (pdefs whole)).
  { unfold whole, ptern. rewrite !pdefs_app.
    change (pdefs [PBc ITest; PBc IDup; PJmpCond false A; PBc IPop]) with (@nil nat).
    change (pdefs [PJmp E; PLabel A; PBc IDup; PBc INot; PJmpCond false E; PBc IPop]) with [A].
    change (pdefs [PLabel E]) with [E]. exact Hnd. }
  pose proof (resolve_length _ _ R1) as N1. pose proof (resolve_length _ _ R2) as N2. pose proof (resolve_length _ _ R3) as N3.
  assert (HA : find_label A (rev (plabs whole 0)) = Some (psize cb + 4 + psize ct + 1)).
  { replace (psize cb + 4 + psize ct + 1) with (psize (cb ++ [PBc ITest; PBc IDup; PJmpCond false A; PBc IPop] ++ ct ++ [PJmp E]) + 0)
      by (rewrite !psize_app; cbn [psize]; lia).
    apply (find_in_whole whole Hnd' _ [PLabel A] ([PBc IDup; PBc INot; PJmpCond false E; PBc IPop] ++ cf ++ [PLabel E]) A 0).
    - unfold whole, ptern. rewrite <- !app_assoc. reflexivity.
    - left. reflexivity. }
  assert (HE : find_label E (rev (plabs whole 0)) = Some (psize cb + 4 + psize ct + 5 + psize cf)).
  { replace (psize cb + 4 + psize ct + 5 + psize cf) with
      (psize (cb ++ [PBc ITest; PBc IDup; PJmpCond false A; PBc IPop] ++ ct ++
              [PJmp E; PLabel A; PBc IDup; PBc INot; PJmpCond false E; PBc IPop] ++ cf) + 0)
      by (rewrite !psize_app; cbn [psize]; lia).
    apply (find_in_whole whole Hnd' _ [PLabel E] [] E 0).
    - unfold whole, ptern. rewrite <- !app_assoc. reflexivity.
    - left. reflexivity. }
  rewrite (resolve_unfold _ Hnd'). unfold whole at 1, ptern. rewrite resolve_at_app.
  pose proof (resolve_at_sub whole Hnd' [] cb _ eq_refl C1) as S1. cbn [psize] in S1. rewrite S1, R1. clear S1.
  cbn [app resolve_at Nat.add]. rewrite HA. rewrite resolve_at_app.
  pose proof (resolve_at_sub whole Hnd' (cb ++ [PBc ITest; PBc IDup; PJmpCond false A; PBc IPop]) ct
                ([PJmp E; PLabel A; PBc IDup; PBc INot; PJmpCond false E; PBc IPop] ++ cf ++ [PLabel E])) as S2.
  rewrite psize_app in S2. cbn [psize] in S2.
  replace (S (S (S (S (psize cb))))) with (psize cb + 4) by lia. rewrite S2; [|unfold whole, ptern; rewrite <- !app_assoc; reflexivity|exact C2].
  rewrite R2. cbn [app resolve_at]. rewrite HE. rewrite resolve_at_app.
  pose proof (resolve_at_sub whole Hnd' (cb ++ [PBc ITest; PBc IDup; PJmpCond false A; PBc IPop] ++ ct ++
                [PJmp E; PLabel A; PBc IDup; PBc INot; PJmpCond false E; PBc IPop]) cf [PLabel E]) as S3.
  rewrite !psize_app in S3. cbn [psize] in S3.
  replace (S (S (S (S (S (psize cb + 4 + psize ct)))))) with (psize cb + (4 + (psize ct + 5))) by lia.
  rewrite S3; [|unfold whole, ptern; rewrite <- !app_assoc; reflexivity|exact C3].
  rewrite R3. cbn [resolve_at option_map app]. rewrite app_nil_r. unfold tern_code. rewrite <- N1, <- N2, <- N3.
  cbn [app].
  replace (Z.of_nat (length c1 + 4 + length c2 + 1) - Z.of_nat (S (S (S (length c1)))))%Z with (Z.of_nat (length c2) + 2)%Z by lia.
  replace (Z.of_nat (length c1 + 4 + length c2 + 5 + length c3) - Z.of_nat (S (length c1 + 4 + length c2)))%Z
    with (Z.of_nat (length c3) + 4)%Z by lia.
  replace (Z.of_nat (length c1 + 4 + length c2 + 5 + length c3) - Z.of_nat (S (S (S (S (length c1 + 4 + length c2))))))%Z
    with (Z.of_nat (length c3) + 1)%Z by lia.
  reflexivity.
Qed.

(* ---- closed code always resolves ------------------------------------------------------------------ *)

Lemma resolve_at_some c : forall p locs, (forall l, In l (puses c) -> exists q, find_label l locs = Some q) ->
  exists r, resolve_at c p locs = Some r.
Proof.
  induction c as [|[i|l|w l|l] c IH]; intros p locs H; cbn [resolve_at].
  - eexists. reflexivity.
  - destruct (IH (S p) locs H) as (r & ->). eexists. reflexivity.
  - destruct (H l (or_introl eq_refl)) as (q & ->). destruct (IH (S p) locs (fun l0 Hl => H l0 (or_intror Hl))) as (r & ->).
    eexists. reflexivity.
  - destruct (H l (or_introl eq_refl)) as (q & ->). destruct (IH (S p) locs (fun l0 Hl => H l0 (or_intror Hl))) as (r & ->).
    eexists. reflexivity.
  - apply IH. exact H.
Qed.

Lemma closed_resolves p : NoDup (pdefs p) -> (forall l, In l (puses p) -> In l (pdefs p)) -> exists c, resolves_to p c.
Proof.
  intros Hn Hc. destruct (resolve_at_some p 0 (rev (plabs p 0))) as (r & R).
  - intros l Hl. apply Hc in Hl. unfold pdefs in Hl. apply in_map_iff in Hl. destruct Hl as ([l' o] & El & Hin). cbn in El. subst l'.
    exists o. apply find_label_in; [rewrite map_rev; apply NoDup_rev; exact Hn|rewrite <- in_rev; exact Hin].
  - exists r. split; [rewrite (resolve_unfold _ Hn); exact R|exact Hc].
Qed.

Lemma eff_closed_in n n' t a b : effI [] n n' t a b -> exists c, closed_in n n' (flat t) c.
Proof.
  intros [N Fw D Rg _].
  assert (Hc : forall l, In l (puses (flat t)) -> In l (pdefs (flat t))).
  { intros l Hl. rewrite puses_flat in Hl. rewrite pdefs_flat. destruct (tfwd_uses t _ Fw l Hl) as [Hd|[]]. exact Hd. }
  assert (Hn : NoDup (pdefs (flat t))) by (rewrite pdefs_flat; exact D).
  destruct (closed_resolves _ Hn Hc) as (c & R). exists c. split; [exact R|exact Hn|].
  intros l Hl. rewrite pdefs_flat in Hl. exact (Rg l Hl).
Qed.

(* ---- match ---------------------------------------------------------------------------------------- *)

(** one case: pattern code, arm code, the label after the case *)
Fixpoint pcases (AM : nat) (parts : list (pcode * pcode * nat)) : pcode :=
  match parts with
  | [] => []
  | (pb, arm, AC) :: r =>
      [PBc IDup] ++ pb ++ [PJmpCond false AC] ++ (PBc IPop :: arm) ++ [PJmp AM; PLabel AC] ++ pcases AM r
  end.
Definition ptail (AM : nat) : pcode := [PBc IPop; PBc (IPush VNull); PLabel AM].
Definition pmatch (AM : nat) (cc : pcode) (parts : list (pcode * pcode * nat)) : pcode :=
  cc ++ pcases AM parts ++ ptail AM.

Definition part_resolves (pt : pcode * pcode * nat) (c : code * code) : Prop :=
  resolves_to (fst (fst pt)) (fst c) /\ resolves_to (snd (fst pt)) (snd c).
Definition part_defs (pt : pcode * pcode * nat) : list nat := pdefs (fst (fst pt)) ++ pdefs (snd (fst pt)) ++ [snd pt].

Lemma pdefs_pcases AM parts : pdefs (pcases AM parts) = flat_map part_defs parts.
Proof.
  induction parts as [|[[pb arm] AC] r IH]; [reflexivity|]. cbn [pcases flat_map]. rewrite !pdefs_app, IH.
  change (pdefs [PBc IDup]) with (@nil nat). change (pdefs [PJmpCond false AC]) with (@nil nat).
  change (pdefs (PBc IPop :: arm)) with (pdefs ([PBc IPop] ++ arm)). rewrite pdefs_app.
  change (pdefs [PBc IPop]) with (@nil nat). change (pdefs [PJmp AM; PLabel AC]) with [AC].
  unfold part_defs. cbn [fst snd app]. rewrite <- !app_assoc. reflexivity.
Qed.

Lemma psize_pcases AM parts cs : Forall2 part_resolves parts cs -> psize (pcases AM parts) = length (cases_code cs).
Proof.
  induction 1 as [|[[pb arm] AC] [cpb carm] parts cs [[R1 _] [R2 _]] _ IH]; [reflexivity|]. cbn [fst snd] in R1, R2.
  cbn [pcases cases_code]. rewrite !psize_app, !app_length, IH, <- (resolve_length _ _ R1). cbn [psize length].
  rewrite <- (resolve_length _ _ R2). lia.
Qed.

Section MatchWhole.
  Variable whole : pcode.
  Hypothesis Hnd : NoDup (pdefs whole).
  Let locs := rev (plabs whole 0).
  Variable AM : nat.

  Lemma cases_resolve : forall parts cs pre, Forall2 part_resolves parts cs ->
    whole = pre ++ pcases AM parts ++ ptail AM ->
    resolve_at (pcases AM parts) (psize pre) locs = Some (cases_code cs).
  Proof.
    intros parts cs pre F. revert pre.
    induction F as [|[[pb arm] AC] [cpb carm] parts cs [[R1 C1] [R2 C2]] F IH]; intros pre E; [reflexivity|].
    cbn [fst snd] in R1, C1, R2, C2.
    pose proof (resolve_length _ _ R1) as N1. pose proof (resolve_length _ _ R2) as N2.
    pose proof (psize_pcases AM parts cs F) as N3.
    assert (HAM : find_label AM locs = Some (psize pre + psize (pcases AM ((pb, arm, AC) :: parts)) + 2)).
    { replace (psize pre + psize (pcases AM ((pb, arm, AC) :: parts)) + 2)
        with (psize (pre ++ pcases AM ((pb, arm, AC) :: parts) ++ [PBc IPop; PBc (IPush VNull)]) + 0)
        by (rewrite !psize_app; cbn [psize]; lia).
      apply (find_in_whole whole Hnd _ [PLabel AM] [] AM 0).
      - rewrite E. unfold ptail. rewrite <- !app_assoc. reflexivity.
      - left. reflexivity. }
    assert (HAC : find_label AC locs = Some (psize pre + (1 + psize pb + 1 + 1 + psize arm + 1))).
    { replace (psize pre + (1 + psize pb + 1 + 1 + psize arm + 1))
        with (psize (pre ++ [PBc IDup] ++ pb ++ [PJmpCond false AC] ++ (PBc IPop :: arm) ++ [PJmp AM]) + 0)
        by (rewrite !psize_app; cbn [psize]; lia).
      apply (find_in_whole whole Hnd _ [PLabel AC] (pcases AM parts ++ ptail AM) AC 0).
      - rewrite E. cbn [pcases]. rewrite <- !app_assoc. cbn [app]. reflexivity.
      - left. reflexivity. }
    cbn [pcases]. cbn [app resolve_at]. rewrite resolve_at_app.
    pose proof (resolve_at_sub whole Hnd (pre ++ [PBc IDup]) pb
                  ([PJmpCond false AC] ++ (PBc IPop :: arm) ++ [PJmp AM; PLabel AC] ++ pcases AM parts ++ ptail AM)) as S1.
    rewrite psize_app in S1. cbn [psize] in S1. replace (S (psize pre)) with (psize pre + 1) by lia.
    unfold locs. rewrite S1; [|rewrite E; cbn [pcases]; rewrite <- !app_assoc; reflexivity|exact C1].
    fold locs. rewrite R1. cbn [app resolve_at]. rewrite HAC. rewrite resolve_at_app.
    pose proof (resolve_at_sub whole Hnd (pre ++ [PBc IDup] ++ pb ++ [PJmpCond false AC; PBc IPop]) arm
                  ([PJmp AM; PLabel AC] ++ pcases AM parts ++ ptail AM)) as S2.
    rewrite !psize_app in S2. cbn [psize] in S2.
    replace (S (S (psize pre + 1 + psize pb))) with (psize pre + (1 + (psize pb + 2))) by lia.
    unfold locs. rewrite S2; [|rewrite E; cbn [pcases]; rewrite <- !app_assoc; reflexivity|exact C2].
    fold locs. rewrite R2. cbn [app resolve_at]. rewrite HAM.
    assert (IH' : resolve_at (pcases AM parts) (S (psize pre + (1 + (psize pb + 2)) + psize arm)) locs = Some (cases_code cs)).
    { replace (S (psize pre + (1 + (psize pb + 2)) + psize arm))
        with (psize (pre ++ [PBc IDup] ++ pb ++ [PJmpCond false AC] ++ (PBc IPop :: arm) ++ [PJmp AM; PLabel AC]))
        by (rewrite !psize_app; cbn [psize]; lia).
      apply IH. rewrite E. cbn [pcases]. rewrite <- !app_assoc. reflexivity. }
    rewrite IH'. cbn [option_map app cases_code]. rewrite <- ?app_assoc. cbn [app].
    assert (P1 : psize (pcases AM ((pb, arm, AC) :: parts)) = 1 + psize pb + 1 + 1 + psize arm + 1 + psize (pcases AM parts)).
    { cbn [pcases]. rewrite !psize_app. cbn [psize]. rewrite ?psize_app. cbn [psize]. lia. }
    rewrite P1, N3, <- N1, <- N2.
    do 3 f_equal. f_equal; [f_equal; lia|]. do 3 f_equal. f_equal. lia.
  Qed.
End MatchWhole.

Theorem match_resolves AM cc parts c0 cs :
  resolves_to cc c0 -> Forall2 part_resolves parts cs ->
  NoDup (pdefs cc ++ flat_map part_defs parts ++ [AM]) ->
  resolve (pmatch AM cc parts) = Some (match_code c0 cs).
Proof.
  intros [R0 C0] F Hnd. set (whole := pmatch AM cc parts).
  assert (Hnd' : NoDup (pdefs whole)).
  { unfold whole, pmatch, ptail. rewrite !pdefs_app, pdefs_pcases.
    change (pdefs [PBc IPop; PBc (IPush VNull); PLabel AM]) with [AM]. exact Hnd. }
  rewrite (resolve_unfold _ Hnd'). unfold whole at 1, pmatch. rewrite resolve_at_app.
  pose proof (resolve_at_sub whole Hnd' [] cc _ eq_refl C0) as S1. cbn [psize] in S1. rewrite S1, R0. clear S1.
  rewrite resolve_at_app. cbn [Nat.add].
  rewrite (cases_resolve whole Hnd' AM parts cs cc F eq_refl). unfold ptail. cbn [resolve_at option_map].
  unfold match_code, tail_code. reflexivity.
Qed.

(** labels of the cases, as the second pass allocates them *)
Fixpoint with_labels (l : list (pcode * pcode)) (q : nat) : list (pcode * pcode * nat) :=
  match l with [] => [] | (pb, arm) :: r => (pb, arm, q) :: with_labels r (S q) end.
Definition pa_defs (pa : pcode * pcode) : list nat := pdefs (fst pa) ++ pdefs (snd pa).

Lemma parts_nodup : forall l q lo hi,
  (forall x, In x (flat_map pa_defs l) -> lo <= x < hi) -> hi <= q -> NoDup (flat_map pa_defs l) ->
  NoDup (flat_map part_defs (with_labels l q)) /\
  (forall x, In x (flat_map part_defs (with_labels l q)) -> In x (flat_map pa_defs l) \/ q <= x < q + length l).
Proof.
  induction l as [|[pb arm] r IH]; intros q lo hi Rg Hq Nd; cbn [with_labels flat_map length].
  - split; [constructor|intros x []].
  - cbn [flat_map] in Rg, Nd.
    destruct (IH (S q) lo hi) as [N2 R2].
    { intros x Hx. apply Rg. apply in_or_app. right. exact Hx. }
    { lia. }
    { eapply nodup_app_r. exact Nd. }
    change (part_defs (pb, arm, q)) with (pdefs pb ++ pdefs arm ++ [q]).
    change (pa_defs (pb, arm)) with (pdefs pb ++ pdefs arm) in *.
    rewrite (app_assoc (pdefs pb)). rewrite <- (app_assoc (pdefs pb ++ pdefs arm)). split.
    + apply NoDup_app_disjoint.
      * eapply nodup_app_l. exact Nd.
      * cbn [app]. constructor; [|exact N2]. intros Hin. apply R2 in Hin. destruct Hin as [Hin|Hin]; [|lia].
        assert (lo <= q < hi) by (apply Rg; apply in_or_app; right; exact Hin). lia.
      * intros x H1 [<-|H2].
        -- assert (lo <= q < hi) by (apply Rg; apply in_or_app; left; exact H1). lia.
        -- destruct (R2 x H2) as [B|B].
           ++ exact (nodup_app_disj _ _ x Nd H1 B).
           ++ assert (lo <= x < hi) by (apply Rg; apply in_or_app; left; exact H1). lia.
    + intros x Hx. apply in_app_or in Hx. destruct Hx as [Hx|[<-|Hx]].
      * left. apply in_or_app. left. exact Hx.
      * right. lia.
      * destruct (R2 x Hx) as [B|B]; [left; apply in_or_app; right; exact B|right; lia].
Qed.

(* ---- ?: and match as compiled ------------------------------------------------------------------- *)

Lemma good_closed' n n' cp : good n n' (cp_node cp) -> exists c, closed_in n n' (bc_of cp) c.
Proof. apply good_closed. Qed.

Section Gen2.
  Variable fuel : nat.
  Variable rec_expr : expr -> C cprog.
  Hypothesis Hrec : forall e n cp n', rec_expr e n = COk cp n' -> n <= n' /\ good n n' (cp_node cp).

  (** c ? t : f.  A condition that is not a constant gives the proved conditional block over the three
      emitted programs; a constant condition selects at compile time exactly as the block would:
      an error stays, otherwise its truthiness picks the branch. *)
  Theorem ternary_compiles_to_block r c t f n cp n' :
    c_expr_body fuel rec_expr (ETernary r c t f) n = COk cp n' ->
    exists cc ct cf n1 n2 n3,
      c_cor fuel rec_expr c n = COk cc n1 /\ c_cor fuel rec_expr t n1 = COk ct n2 /\ rec_expr f n2 = COk cf n3 /\
      match cp_node cc with
      | NConst v => cp_node cp = if is_err v then NConst v else if is_truthy v then cp_node ct else cp_node cf
      | NBytecode _ =>
          exists c1 c2 c3, resolve (bc_of cc) = Some c1 /\ resolve (bc_of ct) = Some c2 /\ resolve (bc_of cf) = Some c3 /\
                           resolve (bc_of cp) = Some (tern_code c1 c2 c3)
      end.
  Proof.
    cbn [c_expr_body]. intros H.
    apply cbind_ok in H. destruct H as (cc & n1 & Hc & H). apply cbind_ok in H. destruct H as (ct & n2 & Ht & H).
    apply cbind_ok in H. destruct H as (cf & n3 & Hf & H).
    exists cc, ct, cf, n1, n2, n3. split; [exact Hc|]. split; [exact Ht|]. split; [exact Hf|].
    destruct (c_cor_good fuel rec_expr Hrec _ _ _ _ Hc) as [L1 G1]. destruct (c_cor_good fuel rec_expr Hrec _ _ _ _ Ht) as [L2 G2].
    destruct (Hrec _ _ _ _ Hf) as [L3 G3].
    destruct (good_closed' _ _ _ G1) as (c1 & [Q1 D1 B1]). destruct (good_closed' _ _ _ G2) as (c2 & [Q2 D2 B2]).
    destruct (good_closed' _ _ _ G3) as (c3 & [Q3 D3 B3]).
    unfold bc_of in *. destruct (cp_node cc) as [cb|v] eqn:Ec.
    - apply cbind_ok in H. destruct H as (AT & m1 & HA & H). unfold new_label in HA. injection HA as <- <-.
      apply cbind_ok in H. destruct H as (EN & m2 & HE & H). unfold new_label in HE. injection HE as <- <-.
      apply cret_ok in H. destruct H as [-> ->]. exists c1, c2, c3. split; [exact (proj1 Q1)|]. split; [exact (proj1 Q2)|].
      split; [exact (proj1 Q3)|]. cbn [cp_node into_bytecode] in *.
      apply (tern_resolves n3 (S n3) cb _ _ c1 c2 c3 Q1 Q2 Q3).
      apply NoDup_app_disjoint; [exact D1| |].
      + apply NoDup_app_disjoint; [exact D2| |].
        * cbn [app]. constructor.
          -- intros Hin. apply in_app_or in Hin. destruct Hin as [Hin|[Hin|[]]]; [apply B3 in Hin|]; lia.
          -- apply NoDup_app_disjoint; [exact D3|constructor; [intros []|constructor]|].
             intros x H1 [<-|[]]. apply B3 in H1. lia.
        * intros x H1 H2. apply B2 in H1. cbn [app] in H2. destruct H2 as [<-|H2]; [lia|].
          apply in_app_or in H2. destruct H2 as [H2|[<-|[]]]; [apply B3 in H2|]; lia.
      + intros x H1 H2. apply B1 in H1. apply in_app_or in H2. destruct H2 as [H2|H2]; [apply B2 in H2; lia|].
        cbn [app] in H2. destruct H2 as [<-|H2]; [lia|].
        apply in_app_or in H2. destruct H2 as [H2|[<-|[]]]; [apply B3 in H2|]; lia.
    - destruct (is_err v); [|destruct (is_truthy v)]; apply cret_ok in H; destruct H as [-> ->]; reflexivity.
  Qed.

  Inductive compiled_cases : nat -> list mcase -> list (pcode * cprog) -> nat -> Prop :=
  | cc_nil m : compiled_cases m [] [] m
  | cc_cons m rg p arm pb pps m1 ca m2 r rest m3 :
      c_pattern fuel rec_expr p m = COk (pb, pps) m1 -> rec_expr arm m1 = COk ca m2 ->
      compiled_cases m2 r rest m3 -> compiled_cases m (MCase rg p arm :: r) ((pb, ca) :: rest) m3.

  Definition pa_of (pc : pcode * cprog) : pcode * pcode := (fst pc, bc_of (snd pc)).

  Lemma cases_closed : forall m l cps m', compiled_cases m l cps m' ->
    m <= m' /\ exists cs, Forall2 (fun pc co => resolves_to (fst pc) (fst co) /\ resolves_to (bc_of (snd pc)) (snd co)) cps cs /\
                         NoDup (flat_map pa_defs (map pa_of cps)) /\
                         (forall x, In x (flat_map pa_defs (map pa_of cps)) -> m <= x < m').
  Proof.
    induction 1 as [m|m rg p arm pb pps m1 ca m2 r rest m3 Hp Ha _ (L3 & cs & F & Nd & Rg)].
    - split; [lia|]. exists []. split; [constructor|]. split; [constructor|intros x []].
    - destruct (c_pattern_good fuel rec_expr Hrec _ _ _ _ _ Hp) as (L1 & tp & Fp & Ep).
      destruct (eff_closed_in _ _ _ _ _ Ep) as (cpb & [Qp Dp Bp]). rewrite Fp in Qp, Dp, Bp.
      destruct (Hrec _ _ _ _ Ha) as [L2 G2]. destruct (good_closed' _ _ _ G2) as (carm & [Qa Da Ba]).
      split; [lia|]. exists ((cpb, carm) :: cs). split; [constructor; [split; assumption|exact F]|].
      cbn [map flat_map]. unfold pa_of at 1 3. unfold pa_defs at 1 3. cbn [fst snd]. split.
      + apply NoDup_app_disjoint; [|exact Nd|].
        * apply NoDup_app_disjoint; auto. intros x H1 H2. apply Bp in H1. apply Ba in H2. lia.
        * intros x H1 H2. apply Rg in H2. apply in_app_or in H1. destruct H1 as [H1|H1]; [apply Bp in H1|apply Ba in H1]; lia.
      + intros x Hx. apply in_app_or in Hx. destruct Hx as [Hx|Hx]; [|apply Rg in Hx; lia].
        apply in_app_or in Hx. destruct Hx as [Hx|Hx]; [apply Bp in Hx|apply Ba in Hx]; lia.
  Qed.

  Lemma with_labels_resolves : forall cps cs q,
    Forall2 (fun pc co => resolves_to (fst pc) (fst co) /\ resolves_to (bc_of (snd pc)) (snd co)) cps cs ->
    Forall2 part_resolves (with_labels (map pa_of cps) q) cs.
  Proof.
    induction cps as [|[pb ca] r IH]; intros cs q F; inversion F; subst; cbn [map with_labels pa_of fst snd]; constructor.
    - assumption.
    - apply IH. assumption.
  Qed.

  (** match: the emitted program is the proved match block over the emitted scrutinee, pattern and arm
      programs, case by case in source order *)
  Theorem match_compiles_to_block r c cases n cp n' :
    c_expr_body fuel rec_expr (EMatch r c cases) n = COk cp n' ->
    exists cc n1 cps n2 c0 cs,
      rec_expr c n = COk cc n1 /\ compiled_cases n1 cases cps n2 /\
      resolve (bc_of cc) = Some c0 /\
      Forall2 (fun pc co => resolve (fst pc) = Some (fst co) /\ resolve (bc_of (snd pc)) = Some (snd co)) cps cs /\
      resolve (bc_of cp) = Some (match_code c0 cs).
  Proof.
    cbn [c_expr_body]. intros H.
    apply cbind_ok in H. destruct H as (cc & n1 & Hc & H). apply cbind_ok in H. destruct H as ([parts pps] & n2 & Hp & H).
    destruct (Hrec _ _ _ _ Hc) as [L1 G0]. destruct (good_closed' _ _ _ G0) as (c0 & [Q0 D0 B0]).
    match type of Hp with ?g cases n1 = _ =>
      assert (G1 : forall l m pr m', g l m = COk pr m' ->
                exists cps, compiled_cases m l cps m' /\ fst pr = map (fun pa => (fst pa, PBc IPop :: snd pa)) (map pa_of cps)) end.
    { clear Hp H. induction l as [|[rc p arm] l IH]; intros m0 pr m0' H0.
      - apply cret_ok in H0. destruct H0 as [-> ->]. exists []. split; [constructor|reflexivity].
      - apply cbind_ok in H0. destruct H0 as ([pc pp] & m1 & Hpat & H0). apply cbind_ok in H0. destruct H0 as (ca & m2 & Harm & H0).
        apply cbind_ok in H0. destruct H0 as (rest & m3 & Hr & H0). apply cret_ok in H0. destruct H0 as [-> ->].
        destruct (IH _ _ _ Hr) as (cps & Cc & Er). exists ((pc, ca) :: cps). split; [econstructor; eauto|].
        cbn [fst map pa_of snd]. rewrite Er. reflexivity. }
    destruct (G1 _ _ _ _ Hp) as (cps & Cc & Eparts). cbn [fst snd] in *. clear G1 Hp.
    destruct (cases_closed _ _ _ _ Cc) as (L2 & cs & F & Nd & Rg).
    apply cbind_ok in H. destruct H as (AM & m1 & HA & H). unfold new_label in HA. injection HA as <- <-.
    apply cbind_ok in H. destruct H as (body & n3 & Hb & H). apply cret_ok in H. destruct H as [-> ->].
    match type of Hb with ?g parts (S n2) = _ =>
      assert (G2 : forall l q bd q', g (map (fun pa => (fst pa, PBc IPop :: snd pa)) l) q = COk bd q' ->
                     bd = pcases n2 (with_labels l q)) end.
    { clear. induction l as [|[pb arm] l IH]; intros q bd q' H0; cbn [map fst snd] in H0.
      - apply cret_ok in H0. destruct H0 as [-> ->]. reflexivity.
      - apply cbind_ok in H0. destruct H0 as (AC & m1 & HA & H0). unfold new_label in HA. injection HA as <- <-.
        apply cbind_ok in H0. destruct H0 as (rest & m3 & Hr & H0). apply cret_ok in H0. destruct H0 as [-> ->].
        rewrite (IH _ _ _ Hr). cbn [with_labels pcases]. reflexivity. }
    rewrite Eparts in Hb. apply G2 in Hb. subst body. clear G2.
    exists cc, n1, cps, n2, c0, cs. split; [exact Hc|]. split; [exact Cc|]. split; [exact (proj1 Q0)|]. split.
    - clear -F. induction F as [|pc co cps cs [[A _] [B _]] _ IH]; constructor; auto.
    - unfold bc_of at 1. cbn [cp_node into_bytecode]. fold (bc_of cc).
      change (bc_of cc ++ pcases n2 (with_labels (map pa_of cps) (S n2)) ++ [PBc IPop; PBc (IPush VNull); PLabel n2])
        with (pmatch n2 (bc_of cc) (with_labels (map pa_of cps) (S n2))).
      apply match_resolves; [exact Q0|apply with_labels_resolves; exact F|].
      destruct (parts_nodup (map pa_of cps) (S n2) n1 n2 Rg (Nat.le_succ_diag_r n2) Nd) as [N2 R2].
      apply NoDup_app_disjoint; [exact D0| |].
      + apply NoDup_app_disjoint; [exact N2|constructor; [intros []|constructor]|].
        intros x H1 [<-|[]]. destruct (R2 _ H1) as [B|B]; [apply Rg in B|]; lia.
      + intros x H1 H2. apply B0 in H1. apply in_app_or in H2. destruct H2 as [H2|[<-|[]]]; [|lia].
        destruct (R2 _ H2) as [B|B]; [apply Rg in B|]; lia.
  Qed.
End Gen2.

(* ---- every expression, every fuel ---------------------------------------------------------------- *)

Theorem or_compiles_to_chain_all f e n cp n' :
  c_cor f (c_expr f) e n = COk cp n' -> snd (cor_ops e) <> [] ->
  exists cph cpt ch cts,
    compiled_seq (c_cand f (c_expr f)) (S n) (fst (cor_ops e) :: snd (cor_ops e)) (cph :: cpt) n' /\
    resolve (bc_of cph) = Some ch /\ Forall2 (fun c code => resolve (bc_of c) = Some code) cpt cts /\
    resolve (bc_of cp) = Some (or_chain_code ch cts).
Proof. apply or_compiles_to_chain. apply c_expr_good. Qed.

Theorem and_compiles_to_chain_all f e n cp n' :
  c_cand f (c_expr f) e n = COk cp n' -> snd (cand_ops e) <> [] ->
  exists cph cpt ch cts,
    compiled_seq (c_rel f (c_expr f)) (S n) (fst (cand_ops e) :: snd (cand_ops e)) (cph :: cpt) n' /\
    resolve (bc_of cph) = Some ch /\ Forall2 (fun c code => resolve (bc_of c) = Some code) cpt cts /\
    resolve (bc_of cp) = Some (and_chain_code ch cts).
Proof. apply and_compiles_to_chain. apply c_expr_good. Qed.

Theorem ternary_compiles_to_block_all f r c t e n cp n' :
  c_expr (S f) (ETernary r c t e) n = COk cp n' ->
  exists cc ct cf n1 n2 n3,
    c_cor f (c_expr f) c n = COk cc n1 /\ c_cor f (c_expr f) t n1 = COk ct n2 /\ c_expr f e n2 = COk cf n3 /\
    match cp_node cc with
    | NConst v => cp_node cp = if is_err v then NConst v else if is_truthy v then cp_node ct else cp_node cf
    | NBytecode _ =>
        exists c1 c2 c3, resolve (bc_of cc) = Some c1 /\ resolve (bc_of ct) = Some c2 /\ resolve (bc_of cf) = Some c3 /\
                         resolve (bc_of cp) = Some (tern_code c1 c2 c3)
    end.
Proof. cbn [c_expr]. apply ternary_compiles_to_block. apply c_expr_good. Qed.

Theorem match_compiles_to_block_all f r c cases n cp n' :
  c_expr (S f) (EMatch r c cases) n = COk cp n' ->
  exists cc n1 cps n2 c0 cs,
    c_expr f c n = COk cc n1 /\ compiled_cases f (c_expr f) n1 cases cps n2 /\
    resolve (bc_of cc) = Some c0 /\
    Forall2 (fun pc co => resolve (fst pc) = Some (fst co) /\ resolve (bc_of (snd pc)) = Some (snd co)) cps cs /\
    resolve (bc_of cp) = Some (match_code c0 cs).
Proof. cbn [c_expr]. apply match_compiles_to_block. apply c_expr_good. Qed.

(** the two halves together, for ||: whatever the operands are, the emitted program of a chain of two
    or more operands runs as the chain semantics says over the emitted operand programs *)
Theorem or_program_evaluates f e n cp n' :
  c_cor f (c_expr f) e n = COk cp n' -> snd (cor_ops e) <> [] ->
  exists code ch cts, resolve (bc_of cp) = Some code /\ length cts = length (snd (cor_ops e)) /\
    forall rs E d lg sva lg1 va lg2 res lg3,
      pushes rs E d ch lg sva lg1 -> resolves rs E d sva lg1 va lg2 ->
      chain_run rs E d true or_ va lg2 cts res lg3 ->
      forall st, exists fu, loop rs fu E d code O st lg = (ROk (SVal res :: st), lg3).
Proof.
  intros H Hne. destruct (or_compiles_to_chain_all _ _ _ _ _ H Hne) as (cph & cpt & ch & cts & S & R1 & F & R).
  exists (or_chain_code ch cts), ch, cts. split; [exact R|].
  assert (Len : length cts = length (snd (cor_ops e))).
  { inversion S as [|? ? ? ? ? ? ? _ St]; subst. clear -St F.
    assert (L1 : length cpt = length cts) by (clear -F; induction F; cbn; auto). rewrite <- L1.
    remember (snd (cor_ops e)) as xs. clear Heqxs L1 F. induction St; cbn; auto. }
  split; [exact Len|]. intros rs E d lg sva lg1 va lg2 res lg3 Hp Hr Hrun. apply or_chain_evaluates with (sva := sva) (lg1 := lg1) (va := va) (lg2 := lg2); auto.
  intros ->. cbn in Len. destruct (snd (cor_ops e)); [contradiction|discriminate].
Qed.
