(* Proofs/LexFwd.v — C18: the scanner only moves forward, so tokens are reported with well-ordered spans
   that increase and do not overlap, each starting after the white space that precedes it. *)
From Coq Require Import ZArith List Bool Lia.
From Rscel Require Import Base.Prims Base.F64 Base.Text Model.Value Model.Lexer Proofs.Spans.
Import ListNotations.
Open Scope Z_scope.

(** [s'] is [s] after reading some characters: what is left is a suffix and the position is the one reached
    by reading the consumed prefix *)
Definition fwd (s s' : scanner) : Prop :=
  exists pre, sc_rest s = pre ++ sc_rest s' /\ sc_loc s' = loc_after (sc_loc s) pre.

Lemma fwd_refl s : fwd s s.
Proof. exists []. split; reflexivity. Qed.

Lemma loc_after_app l a b : loc_after l (a ++ b) = loc_after (loc_after l a) b.
Proof. revert l. induction a as [|c a IH]; intros l; [reflexivity|]. cbn [app loc_after]. apply IH. Qed.

Lemma fwd_trans a b c : fwd a b -> fwd b c -> fwd a c.
Proof.
  intros (p & R1 & L1) (q & R2 & L2). exists (p ++ q). split.
  - rewrite R1, R2, app_assoc. reflexivity.
  - rewrite L2, L1, loc_after_app. reflexivity.
Qed.

Lemma next_fwd s o s1 : sc_next s = (o, s1) -> fwd s s1.
Proof.
  unfold sc_next. destruct (sc_rest s) as [|c r] eqn:E; intros H; injection H as <- <-; [apply fwd_refl|].
  exists [c]. split; [cbn; destruct (c =? 10); exact E|]. unfold sc_loc. cbn [loc_after]. destruct (c =? 10); reflexivity.
Qed.
Lemma next_fwd' s : fwd s (snd (sc_next s)).
Proof. destruct (sc_next s) as [o s1] eqn:N. exact (next_fwd _ _ _ N). Qed.

Lemma fwd_le s s' : fwd s s' -> loc_le (sc_loc s) (sc_loc s').
Proof. intros (p & _ & L). rewrite L. apply loc_after_forward. Qed.


Ltac chain :=
  repeat match goal with
         | H : sc_next ?a = (_, ?b) |- fwd ?a _ => eapply fwd_trans; [exact (next_fwd _ _ _ H)|]
         | H : fwd ?a ?b |- fwd ?a _ => first [exact H | eapply fwd_trans; [exact H|]]
         | |- fwd ?a ?a => apply fwd_refl
         | |- fwd ?a (snd (sc_next ?a)) => apply next_fwd'
         end.

Lemma take_ident_fwd : forall fuel s acc w s', take_ident fuel s acc = (w, s') -> fwd s s'.
Proof.
  induction fuel as [|f IH]; intros s acc w s' H; cbn [take_ident] in H; [injection H as _ <-; apply fwd_refl|].
  destruct (sc_peek s) as [c|]; [|injection H as _ <-; apply fwd_refl].
  destruct (is_ident_char c); [|injection H as _ <-; apply fwd_refl].
  eapply fwd_trans; [apply next_fwd'|eapply IH; eauto].
Qed.

Lemma lex_ident_fwd first s t s' : lex_ident first s = LOk t s' -> fwd s s'.
Proof. unfold lex_ident. destruct (take_ident _ s [first]) as [w s1] eqn:T. intros H. injection H as _ <-. eapply take_ident_fwd; eauto. Qed.

Lemma hex_digits_fwd : forall n s acc v s', hex_digits n s acc = LOk v s' -> fwd s s'.
Proof.
  induction n as [|n IH]; intros s acc v s' H; cbn [hex_digits] in H; [injection H as _ <-; apply fwd_refl|].
  destruct (sc_next s) as [[c|] s1] eqn:N; [|discriminate]. destruct (is_hex c); [|discriminate].
  eapply fwd_trans; [exact (next_fwd _ _ _ N)|eapply IH; eauto].
Qed.
Lemma extract_hex_fwd n s v s' : extract_hex n s = LOk v s' -> fwd s s'.
Proof.
  unfold extract_hex. destruct (hex_digits n s 0) as [v0 s0| |] eqn:H0; try discriminate.
  destruct (is_scalar v0); [|discriminate]. intros H. injection H as _ <-. eapply hex_digits_fwd; eauto.
Qed.
Lemma octal3_fwd d0 s v s' : octal3 d0 s = LOk v s' -> fwd s s'.
Proof.
  unfold octal3. destruct (sc_next s) as [[d1|] s1] eqn:N1; [|discriminate]. destruct (sc_next s1) as [[d2|] s2] eqn:N2; [|discriminate].
  destruct (oct_val d0), (oct_val d1), (oct_val d2); try discriminate. intros H. injection H as _ <-. chain.
Qed.

Lemma lex_fexpr_fwd : forall fuel s depth acc r s', lex_fexpr fuel s depth acc = LOk r s' -> fwd s s'.
Proof.
  induction fuel as [|f IH]; intros s depth acc r s' H; cbn [lex_fexpr] in H; [discriminate|].
  destruct (sc_next s) as [[c|] s1] eqn:N; [|discriminate].
  destruct (c =? 125); [destruct (depth - 1 >? 0); [|injection H as _ <-; chain]|destruct (c =? 123)];
    (eapply fwd_trans; [exact (next_fwd _ _ _ N)|eapply IH; eauto]).
Qed.

Lemma lex_bytes_fwd : forall fuel q s acc t s', lex_bytes fuel q s acc = LOk t s' -> fwd s s'.
Proof.
  induction fuel as [|f IH]; intros q s acc t s' H; cbn [lex_bytes] in H; [discriminate|].
  destruct (sc_next s) as [[c|] s1] eqn:N; [|discriminate].
  destruct (c =? q); [injection H as _ <-; chain|].
  destruct (c =? 92); [|eapply fwd_trans; [exact (next_fwd _ _ _ N)|eapply IH; eauto]].
  destruct (sc_next s1) as [[e|] s2] eqn:N2; [|discriminate].
  assert (F2 : fwd s s2) by chain.
  repeat match type of H with
         | (if ?c then _ else _) = _ => destruct c
         end;
    try solve [eapply fwd_trans; [exact F2|eapply IH; eassumption]].
  - destruct (extract_hex 2 s2) as [v s3| |] eqn:X; try discriminate. apply extract_hex_fwd in X.
    eapply fwd_trans; [exact F2|]. eapply fwd_trans; [exact X|eapply IH; eauto].
  - destruct (octal3 e s2) as [v s3| |] eqn:X; try discriminate. apply octal3_fwd in X. destruct (v <=? 255); [|discriminate].
    eapply fwd_trans; [exact F2|]. eapply fwd_trans; [exact X|eapply IH; eauto].
Qed.

Lemma lex_string_fwd : forall fuel q raw fmt s work segs t s', lex_string fuel q raw fmt s work segs = LOk t s' -> fwd s s'.
Proof.
  induction fuel as [|f IH]; intros q raw fmt s work segs t s' H; cbn [lex_string] in H; [discriminate|].
  destruct (sc_next s) as [[c|] s1] eqn:N; [|discriminate].
  destruct (c =? q).
  { destruct segs; injection H as _ <-; chain. }
  destruct ((c =? 92) && negb raw).
  { destruct (sc_next s1) as [[e|] s2] eqn:N2; [|discriminate].
    assert (F2 : fwd s s2) by chain.
    repeat match type of H with
           | (if ?c then _ else _) = _ => destruct c
           end;
      try solve [eapply fwd_trans; [exact F2|eapply IH; eassumption]];
      try (destruct (extract_hex _ s2) as [v s3| |] eqn:X; try discriminate; apply extract_hex_fwd in X;
           eapply fwd_trans; [exact F2|]; eapply fwd_trans; [exact X|eapply IH; eassumption]).
    destruct (octal3 e s2) as [v s3| |] eqn:X; try discriminate. apply octal3_fwd in X. destruct (is_scalar v); [|discriminate].
    eapply fwd_trans; [exact F2|]. eapply fwd_trans; [exact X|eapply IH; eassumption]. }
  destruct ((c =? 123) && fmt).
  { destruct (sc_next s1) as [[e|] s2] eqn:N2; [|discriminate]. assert (F2 : fwd s s2) by chain.
    destruct (e =? 123); [eapply fwd_trans; [exact F2|eapply IH; eassumption]|].
    destruct (e =? 125); [discriminate|].
    destruct (lex_fexpr f s2 1 [e]) as [body s3| |] eqn:X; try discriminate. apply lex_fexpr_fwd in X.
    eapply fwd_trans; [exact F2|]. eapply fwd_trans; [exact X|eapply IH; eassumption]. }
  destruct ((c =? 125) && fmt).
  { destruct (sc_next s1) as [[e|] s2] eqn:N2; [|discriminate]. assert (F2 : fwd s s2) by chain.
    destruct (e =? 125); [|discriminate]. eapply fwd_trans; [exact F2|eapply IH; eassumption]. }
  eapply fwd_trans; [exact (next_fwd _ _ _ N)|eapply IH; eassumption].
Qed.

Lemma collect_number_fwd : forall fuel s st st' s', collect_number fuel s st = (st', s') -> fwd s s'.
Proof.
  induction fuel as [|f IH]; intros s st st' s' H; cbn [collect_number] in H; [injection H as _ <-; apply fwd_refl|].
  destruct (sc_peek s) as [c|]; [|injection H as _ <-; apply fwd_refl].
  pose proof (next_fwd' s) as F1.
  repeat match type of H with
         | (if ?c then _ else _) = _ => destruct c
         | (match sc_peek ?x with _ => _ end) = _ => destruct (sc_peek x)
         end;
    try (injection H as _ <-; first [apply fwd_refl|exact F1]);
    try solve [eapply fwd_trans; [exact F1|eapply IH; eassumption]];
    try solve [eapply fwd_trans; [exact F1|]; eapply fwd_trans; [apply next_fwd'|eapply IH; eassumption]].
Qed.

Lemma lex_number_fwd first fl s t s' : lex_number first fl s = LOk t s' -> fwd s s'.
Proof.
  unfold lex_number. destruct (collect_number _ s _) as [st s1] eqn:C. apply collect_number_fwd in C. intros H.
  repeat match type of H with
         | (if ?c then _ else _) = _ => destruct c
         | (match ?x with _ => _ end) = _ => destruct x
         end; try discriminate; injection H as _ <-; exact C.
Qed.

Lemma skip_ws_fwd : forall fuel s start oc s1, skip_ws fuel s = (start, oc, s1) ->
  fwd s s1 /\ loc_le (sc_loc s) start /\ loc_le start (sc_loc s1).
Proof.
  induction fuel as [|f IH]; intros s start oc s1 H; cbn [skip_ws] in H.
  - injection H as <- _ <-. split; [apply fwd_refl|split; apply loc_le_refl].
  - destruct (sc_next s) as [[c|] s2] eqn:N.
    + destruct ((c =? 32) || (c =? 9) || (c =? 10)).
      * destruct (IH _ _ _ _ H) as (F & L1 & L2). pose proof (next_fwd _ _ _ N) as F0.
        split; [eapply fwd_trans; eauto|]. split; [|exact L2]. eapply loc_le_trans; [apply fwd_le; exact F0|exact L1].
      * injection H as <- _ <-. pose proof (next_fwd _ _ _ N) as F0. split; [exact F0|]. split; [apply loc_le_refl|apply fwd_le; exact F0].
    + injection H as <- _ <-. pose proof (next_fwd _ _ _ N) as F0. split; [exact F0|]. split; [apply loc_le_refl|apply fwd_le; exact F0].
Qed.

(** one token: its span starts at or after the position the scanner was at (after the white space), is well
    ordered, and ends exactly where the scanner is afterwards *)
Theorem collect_token_span s t s2 : collect_token s = LOk (Some t) s2 ->
  fwd s s2 /\ loc_le (sc_loc s) (r_start (t_loc t)) /\ well_ordered (t_loc t) /\ r_end (t_loc t) = sc_loc s2.
Proof.
  unfold collect_token. destruct (skip_ws _ s) as [[start oc] s1] eqn:W. destruct (skip_ws_fwd _ _ _ _ _ W) as (F1 & L1 & L2).
  destruct oc as [c|]; [|discriminate].
  match goal with |- (match ?r with _ => _ end) = _ -> _ => destruct r as [tk s3| |] eqn:R end; try discriminate.
  intros H. injection H as <- <-. cbn [t_loc r_start r_end].
  assert (F3 : fwd s1 s3).
  { clear -R. revert R.
    repeat match goal with
           | |- (if ?c then _ else _) = _ -> _ => destruct c
           | |- (match sc_peek ?x with _ => _ end) = _ -> _ => destruct (sc_peek x)
           end;
      intros R; try discriminate R;
      try (injection R as _ <-; first [apply fwd_refl|apply next_fwd']);
      first [ eapply lex_number_fwd; eassumption | eapply lex_ident_fwd; eassumption
            | eapply lex_string_fwd; eassumption
            | (eapply fwd_trans; [apply next_fwd'|]; first [eapply lex_bytes_fwd; eassumption|eapply lex_string_fwd; eassumption]) ]. }
  split; [eapply fwd_trans; eauto|]. split; [exact L1|]. split; [|reflexivity].
  unfold well_ordered. cbn [r_start r_end]. eapply loc_le_trans; [exact L2|apply fwd_le; exact F3].
Qed.

(** tokens one after the other between two positions: each span is well ordered, starts at or after the end
    of the one before (so spans increase and do not overlap), and the last ends at or before [hi] *)
Fixpoint chain (lo : loc) (toks : list tokloc) (hi : loc) : Prop :=
  match toks with
  | [] => loc_le lo hi
  | t :: r => loc_le lo (r_start (t_loc t)) /\ well_ordered (t_loc t) /\ chain (r_end (t_loc t)) r hi
  end.

Lemma chain_app : forall a lo mid b hi, chain lo a mid -> chain mid b hi -> chain lo (a ++ b) hi.
Proof.
  induction a as [|t a IH]; intros lo mid b hi Ha Hb; cbn [app chain] in *.
  - destruct b as [|u b]; cbn [chain] in *; [eapply loc_le_trans; eauto|].
    destruct Hb as (B1 & B2 & B3). split; [eapply loc_le_trans; eauto|]. split; assumption.
  - destruct Ha as (A1 & A2 & A3). split; [exact A1|]. split; [exact A2|]. eapply IH; eauto.
Qed.

Lemma lex_all_chain : forall fuel s acc toks s' lo, chain lo (rev acc) (sc_loc s) ->
  lex_all fuel s acc = LOk toks s' -> chain lo toks (sc_loc s').
Proof.
  induction fuel as [|f IH]; intros s acc toks s' lo Hc H; cbn [lex_all] in H; [discriminate|].
  destruct (collect_token s) as [[t|] s1| |] eqn:C; try discriminate.
  - destruct (collect_token_span _ _ _ C) as (F & L1 & W & E).
    eapply IH; [|exact H]. cbn [rev]. eapply chain_app; [exact Hc|]. cbn [chain]. split; [exact L1|]. split; [exact W|]. rewrite E. apply loc_le_refl.
  - injection H as <- <-.
    assert (F : fwd s s1).
    { unfold collect_token in C. destruct (skip_ws _ s) as [[start oc] s2] eqn:W. destruct (skip_ws_fwd _ _ _ _ _ W) as (F1 & _ & _).
      destruct oc; [|injection C as <-; exact F1].
      match type of C with (match ?r with _ => _ end) = _ => destruct r end; discriminate. }
    rewrite <- (app_nil_r (rev acc)). eapply chain_app; [exact Hc|]. cbn [chain]. apply fwd_le. exact F.
Qed.

(** Tokens are reported with increasing, non-overlapping, well-ordered spans, from the start of the source on. *)
Theorem tokens_in_order src toks s' : lex src = LOk toks s' -> chain (mkLoc 0 0) toks (sc_loc s').
Proof. unfold lex. apply lex_all_chain. cbn. apply loc_le_refl. Qed.

Lemma collect_token_fwd s o s1 : collect_token s = LOk o s1 -> fwd s s1.
Proof.
  destruct o as [t|]; [intros H; exact (proj1 (collect_token_span _ _ _ H))|].
  unfold collect_token. destruct (skip_ws _ s) as [[start oc] s2] eqn:W. destruct (skip_ws_fwd _ _ _ _ _ W) as (F1 & _ & _).
  destruct oc; [|intros C; injection C as <-; exact F1].
  match goal with |- (match ?r with _ => _ end) = _ -> _ => destruct r end; discriminate.
Qed.

Lemma lex_all_fwd : forall fuel s acc toks s', lex_all fuel s acc = LOk toks s' -> fwd s s'.
Proof.
  induction fuel as [|f IH]; intros s acc toks s' H; cbn [lex_all] in H; [discriminate|].
  destruct (collect_token s) as [[t|] s1| |] eqn:C; try discriminate.
  - eapply fwd_trans; [eapply collect_token_fwd; eauto|eapply IH; eauto].
  - injection H as _ <-. eapply collect_token_fwd; eauto.
Qed.

(** ... and all of them lie inside the source: the position after the last token is the one reached by reading a
    prefix of the source text *)
Theorem tokens_inside_source src toks s' : lex src = LOk toks s' ->
  chain (mkLoc 0 0) toks (sc_loc s') /\ exists pre, src = pre ++ sc_rest s' /\ sc_loc s' = loc_after (mkLoc 0 0) pre.
Proof.
  intros H. split; [eapply tokens_in_order; eauto|]. unfold lex in H. destruct (lex_all_fwd _ _ _ _ _ H) as (pre & R & L).
  exists pre. cbn in R, L. split; assumption.
Qed.
