(* Proofs/Strings.v — C15: substring / prefix / suffix tests are what they say;
   the pieces of split rejoin with the delimiter to the original and contain no
   occurrence a left scan would have split; rsplit is the mirror image; replace
   and remove are defined by split; trimming strips whole copies of the pattern;
   splitAt cuts at the offset; integer pow and log are exact. *)
From Coq Require Import ZArith List Bool Lia.
From Rscel Require Import Base.Prims Base.F64 Base.Text Model.Strings Model.Value Model.Ops Model.Dispatch Model.Funcs.
Import ListNotations.
Import Coq.Strings.String.StringSyntax.
Open Scope Z_scope.

(* ---- prefix and substring ------------------------------------------------------------ *)

Lemma is_prefix_spec p : forall s, is_prefix p s = true <-> exists t, s = p ++ t.
Proof.
  induction p as [|x p IH]; intros s; cbn [is_prefix].
  - split; [intros _; exists s; reflexivity|reflexivity].
  - destruct s as [|y s]; [split; [discriminate|intros [t H]; discriminate]|].
    rewrite andb_true_iff, Z.eqb_eq, IH. split.
    + intros [-> [t ->]]. exists t. reflexivity.
    + intros [t H]. cbn in H. inversion H; subst. split; [reflexivity|exists t; reflexivity].
Qed.

Lemma is_prefix_skipn p s : is_prefix p s = true -> s = p ++ skipn (length p) s.
Proof. intros H. apply is_prefix_spec in H. destruct H as [t ->]. rewrite skipn_app, skipn_all, Nat.sub_diag. reflexivity. Qed.

Theorem contains_spec n : forall h, contains n h = true <-> exists u v, h = u ++ n ++ v.
Proof.
  induction h as [|c h IH]; cbn [contains]; rewrite orb_true_iff, is_prefix_spec.
  - split.
    + intros [[t H]|H]; [exists [], t; exact H|discriminate].
    + intros (u & v & H). left. destruct u; [exists v; exact H|discriminate].
  - rewrite IH. split.
    + intros [[t H]|(u & v & H)]; [exists [], t; exact H|exists (c :: u), v; rewrite H; reflexivity].
    + intros (u & v & H). destruct u as [|x u]; [left; exists v; exact H|].
      right. cbn in H. inversion H; subst. exists u, v. reflexivity.
Qed.

Lemma is_prefix_app p s t : is_prefix p s = true -> is_prefix p (s ++ t) = true.
Proof. rewrite !is_prefix_spec. intros [r ->]. exists (r ++ t). rewrite app_assoc. reflexivity. Qed.

(* ---- join ------------------------------------------------------------------------------- *)

Lemma join_cons_ne sep x l : l <> [] -> join_bytes sep (x :: l) = x ++ sep ++ join_bytes sep l.
Proof. destruct l; [congruence|reflexivity]. Qed.

Lemma snoc_ne {A} (xs : list A) p : xs ++ [p] <> [].
Proof. destruct xs; discriminate. Qed.

Lemma join_last sep xs p t : join_bytes sep (xs ++ [p]) ++ t = join_bytes sep (xs ++ [p ++ t]).
Proof.
  induction xs as [|x xs IH]; [reflexivity|]. cbn [app].
  rewrite !join_cons_ne by apply snoc_ne. rewrite <- !app_assoc, IH. reflexivity.
Qed.

Lemma join_snoc sep xs p q : join_bytes sep (xs ++ [p; q]) = join_bytes sep (xs ++ [p]) ++ sep ++ q.
Proof.
  induction xs as [|x xs IH]; [reflexivity|]. cbn [app].
  rewrite !join_cons_ne by (try apply snoc_ne; destruct xs; discriminate). rewrite IH, <- !app_assoc. reflexivity.
Qed.

Lemma join_snoc_empty sep xs p : join_bytes sep (xs ++ [p; []]) = join_bytes sep (xs ++ [p]) ++ sep.
Proof. rewrite join_snoc, app_nil_r. reflexivity. Qed.

(* ---- split -------------------------------------------------------------------------------- *)

Lemma split_scan_rejoin needle : needle <> [] -> forall fuel s cur acc, (length s < fuel)%nat ->
  join_bytes needle (split_scan fuel needle s cur acc) = join_bytes needle (rev acc ++ [rev cur]) ++ s.
Proof.
  intros Hn. induction fuel as [|f IH]; intros s cur acc Hf; [lia|]. cbn [split_scan].
  destruct s as [|c r].
  - cbn [rev]. rewrite app_nil_r. reflexivity.
  - destruct (is_prefix needle (c :: r)) eqn:P.
    + pose proof (is_prefix_skipn _ _ P) as E.
      assert (Hl : (length (skipn (length needle) (c :: r)) < f)%nat).
      { rewrite skipn_length. destruct needle; [congruence|]. cbn [length] in *. lia. }
      rewrite IH by exact Hl. cbn [rev]. rewrite <- app_assoc. cbn [app].
      rewrite join_snoc_empty. rewrite <- app_assoc. rewrite <- E. reflexivity.
    + rewrite IH by (cbn [length] in Hf; lia). cbn [rev]. rewrite <- join_last. rewrite <- app_assoc. reflexivity.
Qed.

Lemma split_str_nonempty s needle : needle <> [] -> split_str s needle = Some (split_scan (S (length s)) needle s [] []).
Proof. destruct needle; [congruence|reflexivity]. Qed.

(** the pieces, joined with the delimiter, give back the original *)
Theorem split_rejoin s needle l : split_str s needle = Some l -> needle <> [] -> join_bytes needle l = s.
Proof.
  intros H Hn. rewrite (split_str_nonempty s needle Hn) in H.
  assert (E : l = split_scan (S (length s)) needle s [] []) by congruence. subst l.
  rewrite (split_scan_rejoin needle Hn (S (length s)) s [] []) by lia. reflexivity.
Qed.

(** no piece contains an occurrence that the left-to-right scan would have split *)
Definition no_match_inside (needle cur s : bytes) : Prop :=
  forall u v, rev cur = u ++ v -> v <> [] -> is_prefix needle (v ++ s) = false.

Lemma clean_piece needle cur s : needle <> [] -> no_match_inside needle cur s -> contains needle (rev cur) = false.
Proof.
  intros Hn Inv. destruct (contains needle (rev cur)) eqn:C; [|reflexivity]. exfalso.
  apply contains_spec in C. destruct C as (u & v & E).
  assert (Hv : needle ++ v <> []) by (destruct needle; [congruence|discriminate]).
  pose proof (Inv u (needle ++ v) E Hv) as F.
  assert (T : is_prefix needle ((needle ++ v) ++ s) = true) by (apply is_prefix_spec; exists (v ++ s); rewrite app_assoc; reflexivity).
  congruence.
Qed.

Lemma split_scan_clean needle : needle <> [] -> forall fuel s cur acc,
  Forall (fun p => contains needle p = false) acc -> no_match_inside needle cur s ->
  Forall (fun p => contains needle p = false) (split_scan fuel needle s cur acc).
Proof.
  intros Hn. induction fuel as [|f IH]; intros s cur acc Ha Inv; cbn [split_scan].
  - apply Forall_rev. constructor; [eapply clean_piece; eauto|exact Ha].
  - destruct s as [|c r].
    + apply Forall_rev. constructor; [eapply clean_piece; eauto|exact Ha].
    + destruct (is_prefix needle (c :: r)) eqn:P.
      * apply IH; [constructor; [eapply clean_piece; eauto|exact Ha]|].
        intros u v E Hv. cbn in E. destruct u; [cbn in E; subst v; congruence|discriminate].
      * apply IH; [exact Ha|]. intros u v E Hv. cbn [rev] in E.
        destruct (exists_last Hv) as (v0 & x & ->).
        rewrite app_assoc in E. apply app_inj_tail in E. destruct E as [E ->].
        rewrite <- app_assoc. cbn [app]. destruct v0 as [|y v0]; [exact P|].
        apply (Inv u (y :: v0) E). discriminate.
Qed.

Theorem split_pieces_clean s needle l : split_str s needle = Some l -> needle <> [] ->
  Forall (fun p => contains needle p = false) l.
Proof.
  intros H Hn. rewrite (split_str_nonempty s needle Hn) in H.
  assert (E : l = split_scan (S (length s)) needle s [] []) by congruence. subst l.
  apply split_scan_clean; [exact Hn|constructor|]. intros u v E Hv. cbn in E. destruct u; [cbn in E; subst; congruence|discriminate].
Qed.

(* ---- rsplit: the mirror image ------------------------------------------------------------------ *)

Lemma rev_join sep : forall l, rev (join_bytes sep l) = join_bytes (rev sep) (rev (map (@rev Z) l)).
Proof.
  induction l as [|x l IH]; [reflexivity|]. destruct l as [|y l]; [cbn; reflexivity|].
  rewrite join_cons_ne by discriminate. rewrite !rev_app_distr, IH. cbn [map rev].
  set (m := rev (map (@rev Z) l)).
  replace ((m ++ [rev y]) ++ [rev x]) with (m ++ [rev y; rev x]) by (rewrite <- app_assoc; reflexivity).
  rewrite join_snoc, <- app_assoc. reflexivity.
Qed.

Lemma rev_nonempty (l : bytes) : l <> [] -> rev l <> [].
Proof. intros H E. apply (f_equal (@rev Z)) in E. rewrite rev_involutive in E. cbn in E. congruence. Qed.

Lemma rsplit_str_nonempty s needle : needle <> [] ->
  rsplit_str s needle = Some (map (@rev Z) (split_scan (S (length s)) (rev needle) (rev s) [] [])).
Proof. destruct needle; [congruence|reflexivity]. Qed.

(** the pieces of rsplit, taken back into left-to-right order and joined, give the original *)
Theorem rsplit_rejoin s needle l : rsplit_str s needle = Some l -> needle <> [] -> join_bytes needle (rev l) = s.
Proof.
  intros H Hn. rewrite (rsplit_str_nonempty s needle Hn) in H.
  set (ps := split_scan (S (length s)) (rev needle) (rev s) [] []) in *.
  assert (E : l = map (@rev Z) ps) by congruence. subst l.
  assert (J : join_bytes (rev needle) ps = rev s).
  { unfold ps. rewrite (split_scan_rejoin (rev needle) (rev_nonempty needle Hn) (S (length s)) (rev s) [] []); [reflexivity|].
    rewrite rev_length. lia. }
  apply (f_equal (@rev Z)) in J. rewrite rev_involutive, rev_join, rev_involutive in J. exact J.
Qed.

(** rsplit is split seen in a mirror *)
Theorem rsplit_is_mirrored_split s needle : needle <> [] ->
  rsplit_str s needle = option_map (map (@rev Z)) (split_str (rev s) (rev needle)).
Proof.
  intros Hn. rewrite (rsplit_str_nonempty s needle Hn), (split_str_nonempty (rev s) (rev needle) (rev_nonempty needle Hn)).
  cbn [option_map]. rewrite rev_length. reflexivity.
Qed.

(* ---- replace / remove ------------------------------------------------------------------------------ *)

Theorem replace_is_join_of_split s from to : replace_str s from to = option_map (join_bytes to) (split_str s from).
Proof. reflexivity. Qed.

Theorem replace_with_itself s from r : from <> [] -> replace_str s from from = Some r -> r = s.
Proof.
  intros Hn H. unfold replace_str in H. destruct (split_str s from) as [l|] eqn:E; [|discriminate]. inversion H; subst r.
  eapply split_rejoin; eauto.
Qed.

Theorem remove_is_replace_by_nothing s pat : pat <> [] -> remove_str s pat = replace_str s pat [].
Proof. intros H. destruct pat; [congruence|reflexivity]. Qed.

Theorem remove_nothing s : remove_str s [] = Some s.
Proof. reflexivity. Qed.

(* ---- trimming ----------------------------------------------------------------------------------------- *)

Fixpoint copies (k : nat) (p : bytes) : bytes := match k with O => [] | S k' => p ++ copies k' p end.

Lemma trim_start_go_spec p : p <> [] -> forall fuel s, (length s <= fuel)%nat ->
  exists k, s = copies k p ++ trim_start_go fuel p s /\ is_prefix p (trim_start_go fuel p s) = false.
Proof.
  intros Hp. induction fuel as [|f IH]; intros s Hf.
  - destruct s; [|cbn in Hf; lia]. exists O. split; [reflexivity|]. cbn. destruct p; [congruence|reflexivity].
  - cbn [trim_start_go]. destruct (is_prefix p s) eqn:P.
    + pose proof (is_prefix_skipn _ _ P) as E.
      assert (Hl : (length (skipn (length p) s) <= f)%nat).
      { rewrite skipn_length. destruct p; [congruence|]. cbn [length] in *.
        assert (length s <> 0)%nat by (destruct s; [discriminate P|discriminate]). lia. }
      destruct (IH _ Hl) as (k & Ek & Nk). exists (S k). split; [|exact Nk].
      cbn [copies]. rewrite <- app_assoc, <- Ek. exact E.
    + exists O. split; [reflexivity|exact P].
Qed.

(** trimStartMatches strips whole copies of the pattern and what remains does not start with it *)
Theorem trim_start_matches_spec s p : p <> [] ->
  exists k, s = copies k p ++ trim_start_matches s p /\ is_prefix p (trim_start_matches s p) = false.
Proof. intros Hp. unfold trim_start_matches. destruct p; [congruence|]. apply trim_start_go_spec; [discriminate|lia]. Qed.

Theorem trim_empty_pattern s : trim_start_matches s [] = s /\ trim_end_matches s [] = s.
Proof. split; reflexivity. Qed.

Lemma rev_copies k p : rev (copies k p) = copies k (rev p).
Proof.
  induction k as [|k IH]; [reflexivity|]. cbn [copies]. rewrite rev_app_distr, IH.
  clear. induction k as [|k IH]; [cbn; rewrite app_nil_r; reflexivity|]. cbn [copies]. rewrite <- app_assoc, IH. reflexivity.
Qed.

Theorem trim_end_matches_spec s p : p <> [] -> exists k, s = trim_end_matches s p ++ copies k p.
Proof.
  intros Hp. unfold trim_end_matches. destruct p as [|p0 pr]; [congruence|].
  assert (Hr : rev (p0 :: pr) <> []) by (intros E; apply (f_equal (@rev Z)) in E; rewrite rev_involutive in E; discriminate).
  destruct (trim_start_go_spec (rev (p0 :: pr)) Hr (length s) (rev s) ltac:(rewrite rev_length; lia)) as (k & Ek & _).
  exists k. apply (f_equal (@rev Z)) in Ek. rewrite rev_involutive, rev_app_distr, rev_copies, rev_involutive in Ek. exact Ek.
Qed.

(* ---- splitAt ---------------------------------------------------------------------------------------------- *)

Theorem split_at_spec s i l r : split_at_str s i = Some (l, r) ->
  l ++ r = s /\ Z.of_nat (length l) = i /\ 0 <= i <= Z.of_nat (length s).
Proof.
  unfold split_at_str. destruct (i <? 0) eqn:N; [discriminate|]. apply Z.ltb_ge in N.
  destruct (Nat.leb (Z.to_nat i) (length s) && is_boundary s (Z.to_nat i)) eqn:B; [|discriminate].
  apply andb_true_iff in B. destruct B as [B _]. apply Nat.leb_le in B. intros H. inversion H; subst.
  split; [apply firstn_skipn|]. rewrite firstn_length. lia.
Qed.

Theorem split_at_out_of_range s i : i < 0 \/ Z.of_nat (length s) < i -> split_at_str s i = None.
Proof.
  intros [H|H]; unfold split_at_str.
  - assert (E : (i <? 0) = true) by (apply Z.ltb_lt; lia). rewrite E. reflexivity.
  - destruct (i <? 0); [reflexivity|]. assert (E : Nat.leb (Z.to_nat i) (length s) = false) by (apply Nat.leb_gt; lia).
    rewrite E. reflexivity.
Qed.

(* ---- integer power and logarithm ---------------------------------------------------------------------------- *)

Lemma zpow_checked_exact inr b : forall fuel e acc r, zpow_checked fuel inr b e acc = Some r -> 0 <= e -> r = acc * b ^ e.
Proof.
  induction fuel as [|f IH]; intros e acc r H He; [discriminate|]. cbn [zpow_checked] in H.
  destruct (e <=? 0) eqn:E0.
  - apply Z.leb_le in E0. assert (e = 0) by lia. subst. inversion H. lia.
  - apply Z.leb_gt in E0. destruct (inr (acc * b)); [|discriminate].
    apply IH in H; [|lia]. rewrite H. replace e with (Z.succ (e - 1)) at 2 by lia. rewrite Z.pow_succ_r by lia. lia.
Qed.

(** pow on integers is the exact power whenever it returns a value *)
Theorem int_pow_exact inr b e r : int_pow inr b e = Some r -> r = b ^ e /\ 0 <= e.
Proof.
  unfold int_pow. destruct ((e <? 0) || (u32_max <? e)) eqn:R; [discriminate|].
  apply orb_false_iff in R. destruct R as [R1 _]. apply Z.ltb_ge in R1.
  destruct (b =? 0) eqn:B0.
  - apply Z.eqb_eq in B0. subst b. intros H. inversion H. split; [|exact R1]. destruct (e =? 0) eqn:E0.
    + apply Z.eqb_eq in E0. subst. reflexivity.
    + apply Z.eqb_neq in E0. rewrite Z.pow_0_l by lia. reflexivity.
  - destruct (b =? 1) eqn:B1.
    + apply Z.eqb_eq in B1. subst b. intros H. inversion H. rewrite Z.pow_1_l by lia. split; [reflexivity|exact R1].
    + destruct (b =? -1) eqn:Bm.
      * apply Z.eqb_eq in Bm. subst b. intros H. inversion H. split; [|exact R1].
        destruct (Z.even e) eqn:Ev.
        -- apply Z.even_spec in Ev. destruct Ev as [k ->]. rewrite Z.pow_mul_r by lia. change ((-1) ^ 2) with 1.
           rewrite Z.pow_1_l by lia. reflexivity.
        -- assert (Od : Z.odd e = true) by (rewrite <- Z.negb_even, Ev; reflexivity).
           apply Z.odd_spec in Od. destruct Od as [k ->]. rewrite Z.pow_add_r, Z.pow_mul_r by lia. change ((-1) ^ 2) with 1.
           rewrite Z.pow_1_l by lia. reflexivity.
      * destruct (64 <? e); [discriminate|]. intros H. apply zpow_checked_exact in H; [|exact R1]. split; [lia|exact R1].
Qed.

Theorem int_pow_negative_exponent inr b e : e < 0 -> int_pow inr b e = None.
Proof. intros H. unfold int_pow. assert (E : (e <? 0) = true) by (apply Z.ltb_lt; lia). rewrite E. reflexivity. Qed.

