(* Proofs/StrLit.v — C13: quoted string literals denote the characters they
   spell, for every supported spelling of every character chosen independently;
   raw strings denote their text verbatim. *)
From Coq Require Import ZArith List Bool Lia.
From Rscel Require Import Base.Prims Base.F64 Base.Text Model.Value Model.Lexer Proofs.Literals.
Import ListNotations.
Open Scope Z_scope.

Lemma sc_next_cons s c r : sc_rest s = c :: r ->
  sc_next s = (Some c, advance s [c]) /\ sc_rest (advance s [c]) = r.
Proof.
  intros H. cbn [advance]. unfold sc_next. rewrite H. cbn [snd]. split; [reflexivity|]. destruct (c =? 10); reflexivity.
Qed.

Lemma advance_app s a b : advance s (a ++ b) = advance (advance s a) b.
Proof. revert s. induction a as [|x a IH]; intros s; [reflexivity|]. cbn [app advance]. apply IH. Qed.

Lemma advance_rest' : forall ds s tail, sc_rest s = ds ++ tail -> sc_rest (advance s ds) = tail.
Proof.
  induction ds as [|d r IH]; intros s tail H; [exact H|]. cbn [advance]. apply IH.
  cbn [app] in H. destruct (sc_next_cons s d (r ++ tail) H) as [_ E]. exact E.
Qed.

(** value of a run of hex digits, most significant first *)
Definition hex_value (hs : chars) : Z := fold_left (fun a h => a * 16 + hex_val h) hs 0.

Lemma hex_digits_run : forall hs s tail acc,
  sc_rest s = hs ++ tail -> Forall (fun h => is_hex h = true) hs ->
  hex_digits (length hs) s acc = LOk (fold_left (fun a h => a * 16 + hex_val h) hs acc) (advance s hs).
Proof.
  induction hs as [|h r IH]; intros s tail acc Hs Hh; [reflexivity|]. cbn [length hex_digits]. cbn [app] in Hs.
  destruct (sc_next_cons s h (r ++ tail) Hs) as [E1 E2]. rewrite E1. rewrite (Forall_inv Hh).
  rewrite (IH (advance s [h]) tail _ E2 (Forall_inv_tail Hh)). reflexivity.
Qed.

Lemma extract_hex_run hs s tail : sc_rest s = hs ++ tail -> Forall (fun h => is_hex h = true) hs ->
  extract_hex (length hs) s =
  if is_scalar (hex_value hs) then LOk (hex_value hs) (advance s hs) else LErr (sc_loc (advance s hs)).
Proof. intros Hs Hh. unfold extract_hex. rewrite (hex_digits_run hs s tail 0 Hs Hh). reflexivity. Qed.

(** the single-character escapes *)
Definition simple_escape (e : Z) : option Z :=
  if e =? 97 then Some 7 else if e =? 98 then Some 8 else if e =? 102 then Some 12
  else if e =? 110 then Some 10 else if e =? 114 then Some 13 else if e =? 116 then Some 9
  else if e =? 118 then Some 11 else if e =? 92 then Some 92 else if e =? 39 then Some 39
  else if e =? 34 then Some 34 else None.

(** an escape character with no special meaning stands for itself *)
Definition plain_escape (e : Z) : bool :=
  negb ((e =? 97) || (e =? 98) || (e =? 102) || (e =? 110) || (e =? 114) || (e =? 116) || (e =? 117) || (e =? 85)
        || (e =? 118) || (e =? 120) || (e =? 88) || (e =? 92) || (e =? 39) || (e =? 34) || is_digit e).

(** [spells q c sp]: inside a string delimited by [q] (not raw, not an
    f-string) the text [sp] is a spelling of the character [c] *)
Inductive spells (q : Z) : Z -> chars -> Prop :=
| sp_plain c : c <> q -> c <> 92 -> spells q c [c]
| sp_simple e c : simple_escape e = Some c -> spells q c [92; e]
| sp_other e : plain_escape e = true -> spells q e [92; e]
| sp_x x h1 h2 : (x = 120 \/ x = 88) -> is_hex h1 = true -> is_hex h2 = true -> spells q (hex_value [h1; h2]) [92; x; h1; h2]
| sp_u hs : length hs = 4%nat -> Forall (fun h => is_hex h = true) hs -> is_scalar (hex_value hs) = true ->
            spells q (hex_value hs) (92 :: 117 :: hs)
| sp_U hs : length hs = 8%nat -> Forall (fun h => is_hex h = true) hs -> is_scalar (hex_value hs) = true ->
            spells q (hex_value hs) (92 :: 85 :: hs)
| sp_oct a b c : 0 <= a <= 7 -> 0 <= b <= 7 -> 0 <= c <= 7 -> spells q (a * 64 + b * 8 + c) [92; 48 + a; 48 + b; 48 + c].

Definition text_of (items : list (Z * chars)) : chars := flat_map snd items.

Lemma oct_val_digit a : 0 <= a <= 7 -> oct_val (48 + a) = Some a.
Proof.
  intros H. unfold oct_val. assert (E : ((48 <=? 48 + a) && (48 + a <=? 55)) = true)
    by (apply andb_true_iff; split; apply Z.leb_le; lia). rewrite E. f_equal. lia.
Qed.

Lemma is_digit_oct a : 0 <= a <= 7 -> is_digit (48 + a) = true.
Proof. intros H. unfold is_digit. apply andb_true_iff; split; apply Z.leb_le; lia. Qed.

Lemma oct_scalar a b c : 0 <= a <= 7 -> 0 <= b <= 7 -> 0 <= c <= 7 -> is_scalar (a * 64 + b * 8 + c) = true.
Proof.
  intros Ha Hb Hc. unfold is_scalar. apply orb_true_iff. left. apply andb_true_iff. split; [apply Z.leb_le|apply Z.ltb_lt]; lia.
Qed.

Lemma x_hex_scalar h1 h2 : is_hex h1 = true -> is_hex h2 = true -> is_scalar (hex_value [h1; h2]) = true.
Proof.
  intros H1 H2. unfold hex_value. cbn [fold_left].
  assert (B : forall h, is_hex h = true -> 0 <= hex_val h <= 15).
  { intros h Hh. unfold is_hex, is_digit in Hh. unfold hex_val, is_digit.
    destruct ((48 <=? h) && (h <=? 57)) eqn:D.
    - apply andb_true_iff in D. destruct D as [D1 D2]. apply Z.leb_le in D1, D2. lia.
    - cbn [orb] in Hh. apply orb_true_iff in Hh. destruct Hh as [Hh|Hh]; apply andb_true_iff in Hh; destruct Hh as [D1 D2];
        apply Z.leb_le in D1, D2.
      + assert (E : (h <=? 70) = true) by (apply Z.leb_le; lia). rewrite E. lia.
      + assert (E : (h <=? 70) = false) by (apply Z.leb_gt; lia). rewrite E. lia. }
  pose proof (B h1 H1). pose proof (B h2 H2). unfold is_scalar. apply orb_true_iff. left.
  apply andb_true_iff. split; [apply Z.leb_le|apply Z.ltb_lt]; lia.
Qed.

Ltac esc_cases He e :=
  repeat match type of He with
  | (if e =? ?k then _ else _) = _ =>
      let E := fresh "E" in destruct (e =? k) eqn:E;
      [apply Z.eqb_eq in E; subst e; inversion He; subst; reflexivity | ]
  end; try discriminate He.

(** one spelled character: one round of the string loop *)
Lemma lex_string_char q c sp : spells q c sp -> q <> 92 ->
  forall fuel s tail work,
    sc_rest s = sp ++ tail ->
    lex_string (S fuel) q false false s work [] = lex_string fuel q false false (advance s sp) (c :: work) [].
Proof.
  intros Hsp Hq92 fuel s tail work Hs.
  assert (Q92 : (92 =? q) = false) by (apply Z.eqb_neq; congruence).
  destruct Hsp as [c Hq Hb|e c He|e He|x h1 h2 Hx H1 H2|hs Hl Hh Hsc|hs Hl Hh Hsc|a b c Ha Hb Hc].
  - cbn [app] in Hs. destruct (sc_next_cons s c tail Hs) as [E1 E2]. cbn [lex_string]. rewrite E1.
    assert (Q : (c =? q) = false) by (apply Z.eqb_neq; assumption).
    assert (B : (c =? 92) = false) by (apply Z.eqb_neq; assumption).
    rewrite Q, B. cbn [andb negb]. rewrite !andb_false_r. reflexivity.
  - cbn [app] in Hs. destruct (sc_next_cons s 92 (e :: tail) Hs) as [E1 E2].
    destruct (sc_next_cons _ e tail E2) as [E3 E4]. cbn [lex_string]. rewrite E1, Q92.
    change ((92 =? 92) && negb false) with true. cbv iota. rewrite E3.
    unfold simple_escape in He. esc_cases He e.
  - cbn [app] in Hs. destruct (sc_next_cons s 92 (e :: tail) Hs) as [E1 E2].
    destruct (sc_next_cons _ e tail E2) as [E3 E4]. cbn [lex_string]. rewrite E1, Q92.
    change ((92 =? 92) && negb false) with true. cbv iota. rewrite E3.
    unfold plain_escape in He. apply negb_true_iff in He.
    repeat (apply orb_false_iff in He; destruct He as [He ?]).
    repeat match goal with H : (_ =? _) = false |- _ => rewrite H; clear H end.
    match goal with H : is_digit e = false |- _ => rewrite H end. cbn [orb]. reflexivity.
  - cbn [app] in Hs. destruct (sc_next_cons s 92 (x :: h1 :: h2 :: tail) Hs) as [E1 E2].
    destruct (sc_next_cons _ x (h1 :: h2 :: tail) E2) as [E3 E4]. cbn [lex_string]. rewrite E1, Q92.
    change ((92 =? 92) && negb false) with true. cbv iota. rewrite E3.
    pose proof (extract_hex_run [h1; h2] _ tail E4 (Forall_cons _ H1 (Forall_cons _ H2 (Forall_nil _)))) as EH.
    rewrite (x_hex_scalar h1 h2 H1 H2) in EH. cbn [length] in EH.
    destruct Hx; subst x; cbv beta iota zeta; cbn [Z.eqb Pos.eqb orb]; rewrite EH; reflexivity.
  - cbn [app] in Hs. destruct (sc_next_cons s 92 (117 :: hs ++ tail) Hs) as [E1 E2].
    destruct (sc_next_cons _ 117 (hs ++ tail) E2) as [E3 E4]. cbn [lex_string]. rewrite E1, Q92.
    change ((92 =? 92) && negb false) with true. cbv iota. rewrite E3.
    pose proof (extract_hex_run hs _ tail E4 Hh) as EH. rewrite Hsc, Hl in EH.
    cbv beta iota zeta; cbn [Z.eqb Pos.eqb orb]. rewrite EH.
    change (92 :: 117 :: hs) with ([92; 117] ++ hs). rewrite advance_app. reflexivity.
  - cbn [app] in Hs. destruct (sc_next_cons s 92 (85 :: hs ++ tail) Hs) as [E1 E2].
    destruct (sc_next_cons _ 85 (hs ++ tail) E2) as [E3 E4]. cbn [lex_string]. rewrite E1, Q92.
    change ((92 =? 92) && negb false) with true. cbv iota. rewrite E3.
    pose proof (extract_hex_run hs _ tail E4 Hh) as EH. rewrite Hsc, Hl in EH.
    cbv beta iota zeta; cbn [Z.eqb Pos.eqb orb]. rewrite EH.
    change (92 :: 85 :: hs) with ([92; 85] ++ hs). rewrite advance_app. reflexivity.
  - cbn [app] in Hs. destruct (sc_next_cons s 92 ((48 + a) :: (48 + b) :: (48 + c) :: tail) Hs) as [E1 E2].
    destruct (sc_next_cons _ (48 + a) ((48 + b) :: (48 + c) :: tail) E2) as [E3 E4].
    destruct (sc_next_cons _ (48 + b) ((48 + c) :: tail) E4) as [E5 E6].
    destruct (sc_next_cons _ (48 + c) tail E6) as [E7 E8].
    cbn [lex_string]. rewrite E1, Q92.
    change ((92 =? 92) && negb false) with true. cbv iota. rewrite E3.
    assert (EO : octal3 (48 + a) (advance (advance s [92]) [48 + a]) =
                 LOk (a * 64 + b * 8 + c) (advance s [92; 48 + a; 48 + b; 48 + c])).
    { unfold octal3. rewrite E5, E7. rewrite !oct_val_digit by assumption. reflexivity. }
    pose proof (oct_scalar a b c Ha Hb Hc) as Sc.
    cbv beta zeta.
    repeat match goal with |- context [48 + a =? ?k] =>
      replace (48 + a =? k) with false by (symmetry; apply Z.eqb_neq; lia) end.
    cbn [orb]. rewrite (is_digit_oct a Ha), EO, Sc. reflexivity.
Qed.

(** A quoted string: every character spelled in any supported way, then the
    closing quote.  The token carries exactly the spelled characters. *)
Theorem lex_string_denotes q : q <> 92 -> forall items fuel s tail work,
  Forall (fun it => spells q (fst it) (snd it)) items ->
  sc_rest s = text_of items ++ q :: tail -> (length items < fuel)%nat ->
  lex_string fuel q false false s work [] =
  LOk (TStringLit (rev work ++ map fst items)) (advance s (text_of items ++ [q])).
Proof.
  intros Hq. induction items as [|[c sp] r IH]; intros fuel s tail work Hsp Hs Hf.
  - destruct fuel as [|f]; [cbn in Hf; lia|]. cbn [text_of flat_map app] in *.
    destruct (sc_next_cons s q tail Hs) as [E1 E2]. cbn [lex_string]. rewrite E1, Z.eqb_refl.
    rewrite app_nil_r. reflexivity.
  - destruct fuel as [|f]; [cbn in Hf; lia|]. cbn [text_of flat_map snd] in Hs. rewrite <- app_assoc in Hs.
    rewrite (lex_string_char q c sp (Forall_inv Hsp) Hq f s _ work Hs).
    rewrite (IH f (advance s sp) tail (c :: work) (Forall_inv_tail Hsp)).
    + f_equal.
      * cbn [rev map fst]. rewrite <- app_assoc. reflexivity.
      * unfold text_of. cbn [flat_map snd]. rewrite <- app_assoc. rewrite !advance_app. reflexivity.
    + apply advance_rest'. exact Hs.
    + cbn [length] in Hf. lia.
Qed.

(** A raw string denotes its text verbatim: nothing is an escape. *)
Theorem lex_raw_string_denotes q : forall cs fuel s tail work,
  Forall (fun c => c <> q) cs -> sc_rest s = cs ++ q :: tail -> (length cs < fuel)%nat ->
  lex_string fuel q true false s work [] = LOk (TStringLit (rev work ++ cs)) (advance s (cs ++ [q])).
Proof.
  induction cs as [|c r IH]; intros fuel s tail work Hc Hs Hf.
  - destruct fuel as [|f]; [cbn in Hf; lia|]. cbn [app] in *.
    destruct (sc_next_cons s q tail Hs) as [E1 E2]. cbn [lex_string]. rewrite E1, Z.eqb_refl.
    rewrite app_nil_r. reflexivity.
  - destruct fuel as [|f]; [cbn in Hf; lia|]. cbn [app] in Hs.
    destruct (sc_next_cons s c (r ++ q :: tail) Hs) as [E1 E2]. cbn [lex_string]. rewrite E1.
    assert (Q : (c =? q) = false) by (apply Z.eqb_neq; exact (Forall_inv Hc)). rewrite Q.
    cbn [negb]. rewrite !andb_false_r.
    rewrite (IH f _ tail (c :: work) (Forall_inv_tail Hc) E2); [|cbn [length] in Hf; lia].
    cbn [rev app advance]. rewrite <- app_assoc. reflexivity.
Qed.

(* ---- byte strings --------------------------------------------------------------------- *)

Definition plain_escape_b (e : Z) : bool :=
  negb ((e =? 97) || (e =? 98) || (e =? 102) || (e =? 110) || (e =? 114) || (e =? 116)
        || (e =? 118) || (e =? 120) || (e =? 88) || (e =? 92) || (e =? 39) || (e =? 34) || is_digit e).

(** [bspells q bs sp]: inside a bytes literal delimited by [q] the text [sp] spells the bytes [bs] *)
Inductive bspells (q : Z) : bytes -> chars -> Prop :=
| bs_plain c : c <> q -> c <> 92 -> bspells q (utf8_encode_char c) [c]
| bs_simple e b : simple_escape e = Some b -> bspells q [b] [92; e]
| bs_other e : plain_escape_b e = true -> bspells q (utf8_encode_char e) [92; e]
| bs_x x h1 h2 : (x = 120 \/ x = 88) -> is_hex h1 = true -> is_hex h2 = true -> bspells q [hex_value [h1; h2]] [92; x; h1; h2]
| bs_oct a b c : 0 <= a <= 3 -> 0 <= b <= 7 -> 0 <= c <= 7 -> bspells q [a * 64 + b * 8 + c] [92; 48 + a; 48 + b; 48 + c].

Lemma lex_bytes_item q bs sp : bspells q bs sp -> q <> 92 ->
  forall fuel s tail acc,
    sc_rest s = sp ++ tail ->
    lex_bytes (S fuel) q s acc = lex_bytes fuel q (advance s sp) (rev bs ++ acc).
Proof.
  intros Hsp Hq92 fuel s tail acc Hs.
  assert (Q92 : (92 =? q) = false) by (apply Z.eqb_neq; congruence).
  destruct Hsp as [c Hq Hb|e b He|e He|x h1 h2 Hx H1 H2|a b c Ha Hb Hc].
  - cbn [app] in Hs. destruct (sc_next_cons s c tail Hs) as [E1 E2]. cbn [lex_bytes]. rewrite E1.
    assert (Q : (c =? q) = false) by (apply Z.eqb_neq; assumption).
    assert (B : (c =? 92) = false) by (apply Z.eqb_neq; assumption).
    rewrite Q, B. reflexivity.
  - cbn [app] in Hs. destruct (sc_next_cons s 92 (e :: tail) Hs) as [E1 E2].
    destruct (sc_next_cons _ e tail E2) as [E3 E4]. cbn [lex_bytes]. rewrite E1, Q92.
    change (92 =? 92) with true. cbv iota. rewrite E3.
    unfold simple_escape in He. esc_cases He e.
  - cbn [app] in Hs. destruct (sc_next_cons s 92 (e :: tail) Hs) as [E1 E2].
    destruct (sc_next_cons _ e tail E2) as [E3 E4]. cbn [lex_bytes]. rewrite E1, Q92.
    change (92 =? 92) with true. cbv iota. rewrite E3.
    unfold plain_escape_b in He. apply negb_true_iff in He.
    repeat (apply orb_false_iff in He; destruct He as [He ?]).
    repeat match goal with H : (_ =? _) = false |- _ => rewrite H; clear H end.
    match goal with H : is_digit e = false |- _ => rewrite H end. cbn [orb]. reflexivity.
  - cbn [app] in Hs. destruct (sc_next_cons s 92 (x :: h1 :: h2 :: tail) Hs) as [E1 E2].
    destruct (sc_next_cons _ x (h1 :: h2 :: tail) E2) as [E3 E4]. cbn [lex_bytes]. rewrite E1, Q92.
    change (92 =? 92) with true. cbv iota. rewrite E3.
    pose proof (extract_hex_run [h1; h2] _ tail E4 (Forall_cons _ H1 (Forall_cons _ H2 (Forall_nil _)))) as EH.
    rewrite (x_hex_scalar h1 h2 H1 H2) in EH. cbn [length] in EH.
    destruct Hx; subst x; cbv beta iota zeta; cbn [Z.eqb Pos.eqb orb]; rewrite EH; reflexivity.
  - cbn [app] in Hs. destruct (sc_next_cons s 92 ((48 + a) :: (48 + b) :: (48 + c) :: tail) Hs) as [E1 E2].
    destruct (sc_next_cons _ (48 + a) ((48 + b) :: (48 + c) :: tail) E2) as [E3 E4].
    destruct (sc_next_cons _ (48 + b) ((48 + c) :: tail) E4) as [E5 E6].
    destruct (sc_next_cons _ (48 + c) tail E6) as [E7 E8].
    cbn [lex_bytes]. rewrite E1, Q92. change (92 =? 92) with true. cbv iota. rewrite E3.
    assert (EO : octal3 (48 + a) (advance (advance s [92]) [48 + a]) =
                 LOk (a * 64 + b * 8 + c) (advance s [92; 48 + a; 48 + b; 48 + c])).
    { unfold octal3. rewrite E5, E7. rewrite !oct_val_digit by lia. reflexivity. }
    cbv beta zeta.
    repeat match goal with |- context [48 + a =? ?k] =>
      replace (48 + a =? k) with false by (symmetry; apply Z.eqb_neq; lia) end.
    cbn [orb]. rewrite (is_digit_oct a ltac:(lia)), EO.
    assert (L : (a * 64 + b * 8 + c <=? 255) = true) by (apply Z.leb_le; lia). rewrite L. reflexivity.
Qed.

Definition btext_of (items : list (bytes * chars)) : chars := flat_map snd items.
Definition bytes_of_items (items : list (bytes * chars)) : bytes := flat_map fst items.

(** A bytes literal denotes exactly the bytes it spells. *)
Theorem lex_bytes_denotes q : q <> 92 -> forall items fuel s tail acc,
  Forall (fun it => bspells q (fst it) (snd it)) items ->
  sc_rest s = btext_of items ++ q :: tail -> (length items < fuel)%nat ->
  lex_bytes fuel q s acc = LOk (TByteStringLit (rev acc ++ bytes_of_items items)) (advance s (btext_of items ++ [q])).
Proof.
  intros Hq. induction items as [|[bs sp] r IH]; intros fuel s tail acc Hsp Hs Hf.
  - destruct fuel as [|f]; [cbn in Hf; lia|]. cbn [btext_of bytes_of_items flat_map app] in *.
    destruct (sc_next_cons s q tail Hs) as [E1 E2]. cbn [lex_bytes]. rewrite E1, Z.eqb_refl.
    rewrite app_nil_r. reflexivity.
  - destruct fuel as [|f]; [cbn in Hf; lia|]. unfold btext_of in Hs. cbn [flat_map snd] in Hs. rewrite <- app_assoc in Hs.
    rewrite (lex_bytes_item q bs sp (Forall_inv Hsp) Hq f s _ acc Hs).
    rewrite (IH f (advance s sp) tail (rev bs ++ acc) (Forall_inv_tail Hsp)).
    + f_equal.
      * unfold bytes_of_items. cbn [flat_map fst]. rewrite rev_app_distr, rev_involutive, <- app_assoc. reflexivity.
      * unfold btext_of. cbn [flat_map snd]. rewrite <- app_assoc. rewrite !advance_app. reflexivity.
    + apply advance_rest'. exact Hs.
    + cbn [length] in Hf. lia.
Qed.

(** An octal escape above \377 is rejected in a bytes literal. *)
Theorem lex_bytes_octal_out_of_range q a b c fuel s tail acc : q <> 92 ->
  4 <= a <= 7 -> 0 <= b <= 7 -> 0 <= c <= 7 ->
  sc_rest s = 92 :: (48 + a) :: (48 + b) :: (48 + c) :: tail ->
  lex_bytes (S fuel) q s acc = LErr (sc_loc (advance s [92; 48 + a; 48 + b; 48 + c])).
Proof.
  intros Hq92 Ha Hb Hc Hs.
  assert (Q92 : (92 =? q) = false) by (apply Z.eqb_neq; congruence).
  destruct (sc_next_cons s 92 ((48 + a) :: (48 + b) :: (48 + c) :: tail) Hs) as [E1 E2].
  destruct (sc_next_cons _ (48 + a) ((48 + b) :: (48 + c) :: tail) E2) as [E3 E4].
  destruct (sc_next_cons _ (48 + b) ((48 + c) :: tail) E4) as [E5 E6].
  destruct (sc_next_cons _ (48 + c) tail E6) as [E7 E8].
  cbn [lex_bytes]. rewrite E1, Q92. change (92 =? 92) with true. cbv iota. rewrite E3.
  assert (EO : octal3 (48 + a) (advance (advance s [92]) [48 + a]) =
               LOk (a * 64 + b * 8 + c) (advance s [92; 48 + a; 48 + b; 48 + c])).
  { unfold octal3. rewrite E5, E7. rewrite !oct_val_digit by lia. reflexivity. }
  cbv beta zeta.
  repeat match goal with |- context [48 + a =? ?k] =>
    replace (48 + a =? k) with false by (symmetry; apply Z.eqb_neq; lia) end.
  cbn [orb]. rewrite (is_digit_oct a ltac:(lia)), EO.
  assert (L : (a * 64 + b * 8 + c <=? 255) = false) by (apply Z.leb_gt; lia). rewrite L. reflexivity.
Qed.

(** Malformed escapes in a string are rejected: a code point that is not a
    Unicode scalar value, and a hex escape cut short by a non-hex character. *)
Theorem lex_string_bad_code_point q hs u fuel s tail work : q <> 92 ->
  (u = 117 /\ length hs = 4%nat \/ u = 85 /\ length hs = 8%nat) ->
  Forall (fun h => is_hex h = true) hs -> is_scalar (hex_value hs) = false ->
  sc_rest s = 92 :: u :: hs ++ tail ->
  lex_string (S fuel) q false false s work [] = LErr (sc_loc (advance s (92 :: u :: hs))).
Proof.
  intros Hq92 Hu Hh Hsc Hs.
  assert (Q92 : (92 =? q) = false) by (apply Z.eqb_neq; congruence).
  destruct (sc_next_cons s 92 (u :: hs ++ tail) Hs) as [E1 E2].
  destruct (sc_next_cons _ u (hs ++ tail) E2) as [E3 E4]. cbn [lex_string]. rewrite E1, Q92.
  change ((92 =? 92) && negb false) with true. cbv iota. rewrite E3.
  pose proof (extract_hex_run hs _ tail E4 Hh) as EH. rewrite Hsc in EH.
  change (92 :: u :: hs) with ([92; u] ++ hs). rewrite advance_app.
  destruct Hu as [[-> Hl]|[-> Hl]]; rewrite Hl in EH; cbv beta iota zeta; cbn [Z.eqb Pos.eqb orb]; rewrite EH; reflexivity.
Qed.
