(* Proofs/Conv.v — C14: conversions are exact on their domain and reject the rest. *)
From Coq Require Import ZArith List Bool Lia.
From Coq Require Import Floats.SpecFloat.
From Rscel Require Import Base.Prims Base.F64 Base.Text Base.FloatText Model.Value Model.Ops Model.Dispatch Model.Funcs Model.Lexer.
From Rscel Require Import Proofs.Literals.
Import ListNotations.
Import Coq.Strings.String.StringSyntax.
Open Scope Z_scope.

(* ---- integers <-> decimal text ------------------------------------------------------------- *)

Lemma digits_value_fold : forall ds a, digits_value a ds = fold_left (dstep 10) ds (Some a).
Proof.
  induction ds as [|d r IH]; intros a; [reflexivity|]. cbn [digits_value fold_left dstep]. cbn [Z.eqb].
  destruct (is_digit d) eqn:D.
  - rewrite IH. unfold hex_val. rewrite D. reflexivity.
  - clear IH. induction r as [|x r IH]; [reflexivity|]. cbn [fold_left dstep]. exact IH.
Qed.

Lemma digits_value_dec n : 0 <= n -> digits_value 0 (dec_of_nonneg n) = Some n /\ dec_of_nonneg n <> [].
Proof.
  intros Hn. destruct (dec_of_nonneg_digits n Hn) as [_ Hne]. split; [|exact Hne].
  rewrite digits_value_fold. rewrite <- digits_value_base_fold by exact Hne. apply decimal_denotes. exact Hn.
Qed.

Lemma dec_head_digit n : 0 <= n -> exists d r, dec_of_nonneg n = d :: r /\ is_digit d = true.
Proof.
  intros Hn. destruct (dec_of_nonneg_digits n Hn) as [Hd Hne]. destruct (dec_of_nonneg n) as [|d r]; [congruence|].
  exists d, r. split; [reflexivity|exact (Forall_inv Hd)].
Qed.

Lemma digit_not_sign d : is_digit d = true -> d <> 43 /\ d <> 45.
Proof. unfold is_digit. intros H. apply andb_true_iff in H. destruct H as [A B]. apply Z.leb_le in A. lia. Qed.

Lemma parse_i64_unsigned d r : d <> 43 -> d <> 45 ->
  parse_i64 (d :: r) = match digits_value 0 (d :: r) with
                       | Some v => if in_i64 v then Some v else None
                       | None => None
                       end.
Proof.
  intros N1 N2. unfold parse_i64.
  destruct d as [|p|p]; try reflexivity. do 7 (try (destruct p as [p|p|]; try reflexivity)); congruence.
Qed.

Lemma parse_u64_unsigned d r : d <> 43 ->
  parse_u64 (d :: r) = match digits_value 0 (d :: r) with
                       | Some v => if in_u64 v then Some v else None
                       | None => None
                       end.
Proof.
  intros N1. unfold parse_u64.
  destruct d as [|p|p]; try reflexivity. do 7 (try (destruct p as [p|p|]; try reflexivity)); congruence.
Qed.

(** int(string(i)) == i over the whole int64 range *)
Theorem parse_i64_dec z : in_i64 z = true -> parse_i64 (dec_of_Z z) = Some z.
Proof.
  intros Hr. unfold dec_of_Z. destruct (z <? 0) eqn:Neg.
  - apply Z.ltb_lt in Neg. unfold parse_i64. destruct (digits_value_dec (- z) ltac:(lia)) as [Hv Hne].
    destruct (dec_of_nonneg (- z)) as [|d r] eqn:E; [congruence|]. rewrite Hv.
    replace (- - z) with z by lia. rewrite Hr. reflexivity.
  - apply Z.ltb_ge in Neg. destruct (dec_head_digit z Neg) as (d & r & E & Hd).
    destruct (digit_not_sign d Hd) as [N1 N2]. destruct (digits_value_dec z Neg) as [Hv _]. rewrite E in *.
    rewrite (parse_i64_unsigned d r N1 N2), Hv, Hr. reflexivity.
Qed.

(** uint(string(u)) == u over the whole uint64 range *)
Theorem parse_u64_dec z : in_u64 z = true -> parse_u64 (dec_of_Z z) = Some z.
Proof.
  intros Hr. assert (Hz : 0 <= z) by (unfold in_u64 in Hr; apply andb_true_iff in Hr; destruct Hr as [A _]; apply Z.leb_le in A; lia).
  unfold dec_of_Z. assert (Neg : (z <? 0) = false) by (apply Z.ltb_ge; lia). rewrite Neg.
  destruct (dec_head_digit z Hz) as (d & r & E & Hd). destruct (digit_not_sign d Hd) as [N1 _].
  destruct (digits_value_dec z Hz) as [Hv _]. rewrite E in *.
  rewrite (parse_u64_unsigned d r N1), Hv, Hr. reflexivity.
Qed.

(** a minus sign has no unsigned reading *)
Theorem parse_u64_negative r : parse_u64 (45 :: r) = None.
Proof. reflexivity. Qed.

(* ---- through the constructors ------------------------------------------------------------------ *)

Section Ctor.
  Variable now : option Z.

  Theorem int_of_string_of_int z : in_i64 z = true ->
    construct_type now #"string" [VInt z] = ROk (VString (dec_of_Z z)) /\
    construct_type now #"int" [VString (dec_of_Z z)] = ROk (VInt z).
  Proof.
    intros H. split; [reflexivity|]. unfold construct_type. cbn [bytes_eqb].
    change (dispatch int_arms VNull [VString (dec_of_Z z)]) with
      (match parse_i64 (dec_of_Z z) with Some z' => ok (VInt z') | None => verr EValue end).
    rewrite (parse_i64_dec z H). reflexivity.
  Qed.

  Theorem uint_of_string_of_uint z : in_u64 z = true ->
    construct_type now #"string" [VUInt z] = ROk (VString (dec_of_Z z)) /\
    construct_type now #"uint" [VString (dec_of_Z z)] = ROk (VUInt z).
  Proof.
    intros H. split; [reflexivity|]. unfold construct_type.
    change (dispatch uint_arms VNull [VString (dec_of_Z z)]) with
      (match parse_u64 (dec_of_Z z) with Some z' => ok (VUInt z') | None => verr EValue end).
    rewrite (parse_u64_dec z H). reflexivity.
  Qed.

  (** integral conversions preserve the number or fail: never a wrapped value *)
  Theorem uint_of_int z :
    construct_type now #"uint" [VInt z] = ROk (if 0 <=? z then VUInt z else VErr EValue).
  Proof. unfold construct_type. cbn. destruct (0 <=? z); reflexivity. Qed.

  Theorem int_of_uint z :
    construct_type now #"int" [VUInt z] = ROk (if z <=? i64_max then VInt z else VErr EValue).
  Proof. unfold construct_type. cbn. destruct (z <=? i64_max); reflexivity. Qed.

  Theorem int_of_int z : construct_type now #"int" [VInt z] = ROk (VInt z).
  Proof. reflexivity. Qed.
  Theorem uint_of_uint z : construct_type now #"uint" [VUInt z] = ROk (VUInt z).
  Proof. reflexivity. Qed.

  (** double -> integer: truncation toward zero, saturating; NaN gives 0 *)
  Theorem int_of_double f : construct_type now #"int" [VFloat f] = ROk (VInt (f64_to_i64 f)).
  Proof. reflexivity. Qed.
  Theorem uint_of_double f : construct_type now #"uint" [VFloat f] = ROk (VUInt (f64_to_u64 f)).
  Proof. reflexivity. Qed.

  (** integer -> double: the correctly rounded value (Proofs/F64Facts.f64_of_Z_ieee) *)
  Theorem double_of_int z : construct_type now #"double" [VInt z] = ROk (VFloat (f64_of_Z z)).
  Proof. reflexivity. Qed.
  Theorem double_of_uint z : construct_type now #"double" [VUInt z] = ROk (VFloat (f64_of_Z z)).
  Proof. reflexivity. Qed.

  (** text -> double: Rust's grammar, correctly rounded (Proofs/FloatLit) *)
  Theorem double_of_string s :
    construct_type now #"double" [VString s] =
    ROk (match rust_parse_f64 s with Some x => VFloat x | None => VErr EValue end).
  Proof. unfold construct_type. cbn. destruct (rust_parse_f64 s); reflexivity. Qed.

  (** string <-> bytes *)
  Theorem bytes_of_string s : construct_type now #"bytes" [VString s] = ROk (VBytes s).
  Proof. reflexivity. Qed.
  Theorem string_of_bytes b :
    construct_type now #"string" [VBytes b] = ROk (if utf8_valid b then VString b else VErr EValue).
  Proof. unfold construct_type. cbn. destruct (utf8_valid b); reflexivity. Qed.

  Theorem dyn_is_identity v : construct_type now #"dyn" [v] = ROk v.
  Proof. unfold construct_type. cbn. destruct v; reflexivity. Qed.
End Ctor.

(** saturation, spelled out *)
Theorem f64_to_i64_range f : -9223372036854775808 <= f64_to_i64 f <= 9223372036854775807.
Proof. unfold f64_to_i64. destruct f as [s|s| |s m e]; try (destruct s); try lia; destruct (f64_trunc _); lia. Qed.

Theorem f64_to_u64_range f : 0 <= f64_to_u64 f <= 18446744073709551615.
Proof. unfold f64_to_u64. destruct f as [s|s| |s m e]; try (destruct s); try lia; destruct (f64_trunc _); lia. Qed.

Theorem f64_to_i64_exact s m e z : f64_trunc (S754_finite s m e) = Some z ->
  -9223372036854775808 <= z <= 9223372036854775807 -> f64_to_i64 (S754_finite s m e) = z.
Proof. intros H Hr. unfold f64_to_i64. rewrite H. lia. Qed.

(** truncation toward zero of m * 2^e *)
Theorem f64_trunc_spec s m e :
  f64_trunc (S754_finite s m e) =
  Some (let mag := if 0 <=? e then Zpos m * 2 ^ e else Zpos m / 2 ^ (- e) in if s then - mag else mag).
Proof. reflexivity. Qed.

(* ---- UTF-8: string(bytes(s)) == s ------------------------------------------------------------------ *)

Lemma utf8_decode_fuel_more : forall fuel bs r, utf8_decode_fuel fuel bs = Some r ->
  forall extra, utf8_decode_fuel (fuel + extra) bs = Some r.
Proof.
  induction fuel as [|f IH]; intros bs r H extra.
  - destruct bs; [|discriminate]. inversion H. destruct extra; reflexivity.
  - cbn [Nat.add]. cbn [utf8_decode_fuel] in *. destruct bs as [|b0 r0]; [exact H|].
    destruct (b0 <? 128).
    { destruct (utf8_decode_fuel f r0) eqn:E; [|discriminate]. rewrite (IH _ _ E). exact H. }
    destruct (b0 <? 194); [discriminate|].
    destruct (b0 <? 224).
    { destruct r0 as [|b1 r1]; [discriminate|]. destruct (is_cont b1); [|discriminate].
      destruct (utf8_decode_fuel f r1) eqn:E; [|discriminate]. rewrite (IH _ _ E). exact H. }
    destruct (b0 <? 240).
    { destruct r0 as [|b1 [|b2 r2]]; try discriminate.
      destruct (is_cont b1 && is_cont b2 && (2048 <=? (b0 - 224) * 4096 + (b1 - 128) * 64 + (b2 - 128)) &&
                is_scalar ((b0 - 224) * 4096 + (b1 - 128) * 64 + (b2 - 128))); [|discriminate].
      destruct (utf8_decode_fuel f r2) eqn:E; [|discriminate]. rewrite (IH _ _ E). exact H. }
    destruct (b0 <? 245); [|discriminate].
    destruct r0 as [|b1 [|b2 [|b3 r3]]]; try discriminate.
    match type of H with (if ?c then _ else _) = _ => destruct c; [|discriminate] end.
    destruct (utf8_decode_fuel f r3) eqn:E; [|discriminate]. rewrite (IH _ _ E). exact H.
Qed.

Ltac Zify.zify_post_hook ::= Z.div_mod_to_equations.

(** one character: its encoding decodes to itself, whatever follows *)
Lemma utf8_char_roundtrip c rest fuel r : is_scalar c = true ->
  utf8_decode_fuel fuel rest = Some r ->
  utf8_decode_fuel (S fuel) (utf8_encode_char c ++ rest) = Some (c :: r).
Proof.
  intros Hs Hr. unfold is_scalar in Hs. unfold utf8_encode_char.
  assert (Hc : (0 <= c < 55296) \/ (57344 <= c <= 1114111)).
  { apply orb_true_iff in Hs. destruct Hs as [H|H]; apply andb_true_iff in H; destruct H as [A B]; [left|right];
      (apply Z.leb_le in A); [apply Z.ltb_lt in B|apply Z.leb_le in B]; lia. }
  destruct (c <? 128) eqn:C1.
  - apply Z.ltb_lt in C1. cbn [app utf8_decode_fuel]. assert (E : (c <? 128) = true) by (apply Z.ltb_lt; lia).
    rewrite E, Hr. reflexivity.
  - apply Z.ltb_ge in C1. destruct (c <? 2048) eqn:C2.
    + apply Z.ltb_lt in C2. cbn [app utf8_decode_fuel].
      assert (E1 : (192 + c / 64 <? 128) = false) by (apply Z.ltb_ge; lia).
      assert (E2 : (192 + c / 64 <? 194) = false) by (apply Z.ltb_ge; lia).
      assert (E3 : (192 + c / 64 <? 224) = true) by (apply Z.ltb_lt; lia).
      assert (E4 : is_cont (128 + c mod 64) = true) by (unfold is_cont; apply andb_true_iff; split; [apply Z.leb_le|apply Z.ltb_lt]; lia).
      rewrite E1, E2, E3, E4, Hr. cbn [option_map]. f_equal. f_equal. lia.
    + apply Z.ltb_ge in C2. destruct (c <? 65536) eqn:C3.
      * apply Z.ltb_lt in C3. cbn [app utf8_decode_fuel].
        assert (E1 : (224 + c / 4096 <? 128) = false) by (apply Z.ltb_ge; lia).
        assert (E2 : (224 + c / 4096 <? 194) = false) by (apply Z.ltb_ge; lia).
        assert (E3 : (224 + c / 4096 <? 224) = false) by (apply Z.ltb_ge; lia).
        assert (E3' : (224 + c / 4096 <? 240) = true) by (apply Z.ltb_lt; lia).
        assert (E4 : is_cont (128 + (c / 64) mod 64) = true) by (unfold is_cont; apply andb_true_iff; split; [apply Z.leb_le|apply Z.ltb_lt]; lia).
        assert (E5 : is_cont (128 + c mod 64) = true) by (unfold is_cont; apply andb_true_iff; split; [apply Z.leb_le|apply Z.ltb_lt]; lia).
        assert (EV : (224 + c / 4096 - 224) * 4096 + (128 + (c / 64) mod 64 - 128) * 64 + (128 + c mod 64 - 128) = c) by lia.
        rewrite E1, E2, E3, E3', E4, E5, EV.
        assert (E6 : (2048 <=? c) = true) by (apply Z.leb_le; lia).
        rewrite E6. unfold is_scalar. rewrite Hs. cbn [andb]. rewrite Hr. reflexivity.
      * apply Z.ltb_ge in C3. cbn [app utf8_decode_fuel].
        assert (E1 : (240 + c / 262144 <? 128) = false) by (apply Z.ltb_ge; lia).
        assert (E2 : (240 + c / 262144 <? 194) = false) by (apply Z.ltb_ge; lia).
        assert (E3 : (240 + c / 262144 <? 224) = false) by (apply Z.ltb_ge; lia).
        assert (E3' : (240 + c / 262144 <? 240) = false) by (apply Z.ltb_ge; lia).
        assert (E3'' : (240 + c / 262144 <? 245) = true) by (apply Z.ltb_lt; lia).
        assert (E4 : is_cont (128 + (c / 4096) mod 64) = true) by (unfold is_cont; apply andb_true_iff; split; [apply Z.leb_le|apply Z.ltb_lt]; lia).
        assert (E5 : is_cont (128 + (c / 64) mod 64) = true) by (unfold is_cont; apply andb_true_iff; split; [apply Z.leb_le|apply Z.ltb_lt]; lia).
        assert (E6 : is_cont (128 + c mod 64) = true) by (unfold is_cont; apply andb_true_iff; split; [apply Z.leb_le|apply Z.ltb_lt]; lia).
        assert (EV : (240 + c / 262144 - 240) * 262144 + (128 + (c / 4096) mod 64 - 128) * 4096 +
                     (128 + (c / 64) mod 64 - 128) * 64 + (128 + c mod 64 - 128) = c) by lia.
        rewrite E1, E2, E3, E3', E3'', E4, E5, E6, EV.
        assert (E7 : (65536 <=? c) = true) by (apply Z.leb_le; lia).
        assert (E8 : (c <=? 1114111) = true) by (apply Z.leb_le; lia).
        rewrite E7, E8. cbn [andb]. rewrite Hr. reflexivity.
Qed.

(** every string of Unicode scalar values encodes to valid UTF-8 that decodes to itself *)
Theorem utf8_roundtrip : forall cs, Forall (fun c => is_scalar c = true) cs ->
  exists fuel, forall extra, utf8_decode_fuel (fuel + extra) (utf8_encode cs) = Some cs.
Proof.
  induction cs as [|c r IH]; intros H.
  - exists O. intros extra. destruct extra; reflexivity.
  - destruct (IH (Forall_inv_tail H)) as (f & Hf). exists (S f). intros extra.
    unfold utf8_encode. cbn [flat_map]. replace (S f + extra)%nat with (S (f + extra)) by lia.
    apply utf8_char_roundtrip; [exact (Forall_inv H)|apply Hf].
Qed.

Lemma utf8_encode_char_length c : (1 <= length (utf8_encode_char c))%nat.
Proof. unfold utf8_encode_char. destruct (c <? 128); [cbn; lia|]. destruct (c <? 2048); [cbn; lia|]. destruct (c <? 65536); cbn; lia. Qed.

Theorem utf8_valid_encode cs : Forall (fun c => is_scalar c = true) cs ->
  utf8_decode (utf8_encode cs) = Some cs /\ utf8_valid (utf8_encode cs) = true.
Proof.
  intros H. assert (D : utf8_decode (utf8_encode cs) = Some cs).
  { unfold utf8_decode.
    assert (G : forall cs0, Forall (fun c => is_scalar c = true) cs0 ->
                forall fuel, (length cs0 <= fuel)%nat -> utf8_decode_fuel fuel (utf8_encode cs0) = Some cs0).
    { induction cs0 as [|c r IH]; intros Hc fuel Hl.
      - destruct fuel; reflexivity.
      - destruct fuel as [|f]; [cbn in Hl; lia|]. unfold utf8_encode. cbn [flat_map].
        apply utf8_char_roundtrip; [exact (Forall_inv Hc)|]. apply IH; [exact (Forall_inv_tail Hc)|cbn in Hl; lia]. }
    apply G; [exact H|]. clear. induction cs as [|c r IH]; [cbn; lia|].
    unfold utf8_encode in *. cbn [flat_map length]. rewrite app_length. pose proof (utf8_encode_char_length c). lia. }
  split; [exact D|]. unfold utf8_valid. rewrite D. reflexivity.
Qed.

(* ---- type(T(x)) == T -------------------------------------------------------------------------------- *)

(** what a dispatch can return: the result of a matching overload, or an Argument error *)
Lemma dispatch_cases arms this args :
  dispatch arms this args = ROk (VErr EArgument) \/
  exists a args', In a arms /\ arm_match (max_args arms) a this args' = true /\
                  dispatch arms this args = a_impl a this args'.
Proof.
  unfold dispatch. destruct (Nat.ltb _ _); [left; reflexivity|].
  destruct (find _ arms) as [a|] eqn:F; [|left; reflexivity].
  right. exists a, (args ++ repeat VNull (max_args arms - length args)). apply find_some in F. tauto.
Qed.

Definition result_type_ok (tname : bytes) (r : res value) : Prop :=
  match r with
  | ROk (VErr _) => True
  | ROk v => as_type v = VType tname
  | _ => True
  end.

Ltac solve_body :=
  try unfold checked_time; try unfold duration_new;
  repeat match goal with
         | |- context [if ?c then _ else _] => destruct c
         | |- context [match ?x with _ => _ end] => destruct x
         end; cbn; try exact I; try reflexivity.

Ltac one_arm Hm args' :=
  unfold arm_match in Hm; cbn in Hm;
  destruct args' as [|?v ?rest]; [try discriminate Hm|];
  try (match goal with v : value |- _ => destruct v; try discriminate Hm end);
  cbn; solve_body.

Ltac result_type arms :=
  match goal with |- result_type_ok _ (dispatch arms VNull ?args) =>
    destruct (dispatch_cases arms VNull args) as [E|(a & args' & Hin & Hm & E)]; rewrite E; [exact I|];
    cbn [In arms] in Hin;
    repeat (destruct Hin as [<-|Hin]; [one_arm Hm args'|]); try (destruct Hin)
  end.

Section ResultTypes.
  Variable now : option Z.
  Variable args : list value.

  Theorem int_result_type : result_type_ok #"int" (construct_type now #"int" args).
  Proof. change (construct_type now #"int" args) with (dispatch int_arms VNull args). result_type int_arms. Qed.
  Theorem uint_result_type : result_type_ok #"uint" (construct_type now #"uint" args).
  Proof. change (construct_type now #"uint" args) with (dispatch uint_arms VNull args). result_type uint_arms. Qed.
  Theorem double_result_type : result_type_ok #"float" (construct_type now #"double" args).
  Proof. change (construct_type now #"double" args) with (dispatch double_arms VNull args). result_type double_arms. Qed.
  Theorem string_result_type : result_type_ok #"string" (construct_type now #"string" args).
  Proof. change (construct_type now #"string" args) with (dispatch string_arms VNull args). result_type string_arms. Qed.
  Theorem bytes_result_type : result_type_ok #"bytes" (construct_type now #"bytes" args).
  Proof. change (construct_type now #"bytes" args) with (dispatch bytes_arms VNull args). result_type bytes_arms. Qed.
  Theorem bool_result_type : result_type_ok #"bool" (construct_type now #"bool" args).
  Proof. change (construct_type now #"bool" args) with (dispatch bool_arms VNull args). result_type bool_arms. Qed.
  Theorem duration_result_type : result_type_ok #"duration" (construct_type now #"duration" args).
  Proof.
    change (construct_type now #"duration" args) with (dispatch duration_arms VNull args).
    destruct (dispatch_cases duration_arms VNull args) as [E|(a & args' & Hin & Hm & E)]; rewrite E; [exact I|].
    cbn [In duration_arms] in Hin.
    repeat (destruct Hin as [<-|Hin]; [unfold arm_match in Hm; cbn in Hm;
      destruct args' as [|v1 [|v2 rest]]; try discriminate Hm; destruct v1; try discriminate Hm;
      try (destruct v2; try discriminate Hm); cbn; unfold duration_new; solve_body|]); try (destruct Hin).
  Qed.
  Theorem timestamp_result_type : result_type_ok #"timestamp" (construct_type now #"timestamp" args).
  Proof.
    change (construct_type now #"timestamp" args) with (dispatch (timestamp_arms now) VNull args).
    destruct (dispatch_cases (timestamp_arms now) VNull args) as [E|(a & args' & Hin & Hm & E)]; rewrite E; [exact I|].
    cbn [In timestamp_arms] in Hin.
    destruct Hin as [<-|Hin]; [cbn; unfold read_clock; destruct now; cbn; try exact I; reflexivity|].
    repeat (destruct Hin as [<-|Hin]; [one_arm Hm args'; unfold checked_time; solve_body|]); try (destruct Hin).
  Qed.
End ResultTypes.
