(* what the float printer returns reads back as the same double (C14: double(string(d)) == d) *)
From Coq Require Import ZArith List Bool Lia.
From Coq Require Import Floats.SpecFloat.
From Rscel Require Import Base.Prims Base.F64 Base.Text Base.FloatText.
From Rscel Require Import Base.FloatPrint.
Import ListNotations.
Open Scope Z_scope.

Lemma sf_eqb_eq a b : sf_eqb a b = true -> a = b.
Proof.
  destruct a as [s1|s1| |s1 m1 e1], b as [s2|s2| |s2 m2 e2]; cbn; try discriminate; try reflexivity.
  - intros H. apply Bool.eqb_prop in H. subst. reflexivity.
  - intros H. apply Bool.eqb_prop in H. subst. reflexivity.
  - intros H. apply andb_true_iff in H. destruct H as [H H3]. apply andb_true_iff in H. destruct H as [H1 H2].
    apply Bool.eqb_prop in H1. apply Pos.eqb_eq in H2. apply Z.eqb_eq in H3. subst. reflexivity.
Qed.

Lemma ok_reads_back x txt : (match rust_parse_f64 txt with Some y => sf_eqb y x | None => false end) = true ->
  rust_parse_f64 txt = Some x.
Proof. destruct (rust_parse_f64 txt) as [y|]; [|discriminate]. intros H. apply sf_eqb_eq in H. subst. reflexivity. Qed.

Lemma first_ok {A} (b1 o1 b2 o2 : bool) (t1 t2 t : A) (P : A -> Prop) :
  (o1 = true -> P t1) -> (o2 = true -> P t2) ->
  (if b1 && o1 then Some t1 else if b2 && o2 then Some t2 else None) = Some t -> P t.
Proof.
  intros H1 H2. destruct b1, o1, b2, o2; cbn; intros E; try discriminate; injection E as <-; auto.
Qed.

Lemma try_digits_reads_back x num den k n t : try_digits x num den k n = Some t -> rust_parse_f64 t = Some x.
Proof.
  unfold try_digits.
  match goal with |- context [let '(a, b) := ?p in _] => destruct p as [snum sden] end. cbv zeta.
  intros H. eapply (first_ok _ _ _ _ _ _ t (fun s => rust_parse_f64 s = Some x)); [| |exact H]; apply ok_reads_back.
Qed.

Lemma shortest_reads_back : forall fuel x num den k n t, shortest fuel x num den k n = Some t -> rust_parse_f64 t = Some x.
Proof.
  induction fuel as [|f IH]; intros x num den k n t H; [discriminate|]. cbn [shortest] in H.
  destruct (try_digits x num den k n) as [s|] eqn:T; [inversion H; subst; eapply try_digits_reads_back; eauto|eapply IH; eauto].
Qed.

(** what the printer writes for a positive finite double reads back as that double *)
Theorem print_reads_back_positive m e t : print_f64 (S754_finite false m e) = Some t ->
  rust_parse_f64 t = Some (S754_finite false m e).
Proof.
  cbn [print_f64]. destruct (ratio_of m e) as [num den].
  destruct (shortest 17 (S754_finite false m e) num den (dec_exponent num den) 1) as [s|] eqn:S; [|discriminate].
  intros H. inversion H; subst. eapply shortest_reads_back; eauto.
Qed.

Theorem print_specials :
  print_f64 S754_nan = Some [78; 97; 78] /\ print_f64 (S754_infinity false) = Some [105; 110; 102] /\
  print_f64 (S754_infinity true) = Some [45; 105; 110; 102] /\ print_f64 (S754_zero false) = Some [48] /\
  print_f64 (S754_zero true) = Some [45; 48] /\
  rust_parse_f64 [78; 97; 78] = Some S754_nan /\ rust_parse_f64 [105; 110; 102] = Some (S754_infinity false) /\
  rust_parse_f64 [45; 105; 110; 102] = Some (S754_infinity true) /\ rust_parse_f64 [48] = Some (S754_zero false) /\
  rust_parse_f64 [45; 48] = Some (S754_zero true).
Proof. vm_compute. repeat split. Qed.

(* ---- negative doubles --------------------------------------------------------------------- *)
From Rscel Require Import Proofs.Literals Proofs.Conv.

Lemma parse_with_minus d r y : is_digit d = true -> rust_parse_f64 (d :: r) = Some y ->
  rust_parse_f64 (45 :: d :: r) = Some (SFopp y).
Proof.
  intros Hd. destruct (digit_not_sign d Hd) as [N1 N2]. unfold rust_parse_f64.
  assert (M : (match d :: r with 43 :: r0 => (false, r0) | 45 :: r0 => (true, r0) | _ => (false, d :: r) end) = (false, d :: r)).
  { destruct d as [|p|p]; try reflexivity. do 7 (try (destruct p as [p|p|]; try reflexivity)); congruence. }
  rewrite M. cbv iota beta zeta.
  destruct (bytes_eqb _ _ || bytes_eqb _ _); [intros [= <-]; reflexivity|].
  destruct (bytes_eqb _ _); [intros [= <-]; reflexivity|].
  destruct (parse_float_text (d :: r)); [intros [= <-]; reflexivity|discriminate].
Qed.

Lemma positional_head digits e10 : 0 <= digits -> exists d r, positional digits e10 = d :: r /\ is_digit d = true.
Proof.
  intros H. unfold positional. destruct (dec_head_digit digits H) as (d & r & E & Hd). rewrite E.
  set (n := Z.of_nat (length (d :: r))). destruct (n + e10 <=? 0) eqn:K; [exists 48, (46 :: zeros (- (n + e10)) ++ d :: r); split; reflexivity|].
  destruct (n <=? n + e10); [exists d, (r ++ zeros (n + e10 - n)); split; [reflexivity|exact Hd]|].
  apply Z.leb_gt in K. destruct (Z.to_nat (n + e10)) as [|k] eqn:EK; [lia|]. cbn [firstn app]. eexists d, _. split; [reflexivity|exact Hd].
Qed.

Lemma first_ok_b {A} (b1 o1 b2 o2 : bool) (t1 t2 t : A) (P : A -> Prop) :
  (b1 = true -> P t1) -> (b2 = true -> P t2) ->
  (if b1 && o1 then Some t1 else if b2 && o2 then Some t2 else None) = Some t -> P t.
Proof.
  intros H1 H2. destruct b1, o1, b2, o2; cbn; intros E; try discriminate; injection E as <-; auto.
Qed.

Lemma strip_zeros_nonneg : forall fuel d z, 0 <= d -> 0 <= fst (strip_zeros fuel d z).
Proof.
  induction fuel as [|f IH]; intros d z H; [exact H|]. cbn [strip_zeros].
  destruct ((d mod 10 =? 0) && negb (d =? 0)); [apply IH; apply Z.div_pos; lia|exact H].
Qed.

Lemma candidate_head c e10 : 0 <= c -> exists d r, candidate_text c e10 = d :: r /\ is_digit d = true.
Proof.
  intros H. unfold candidate_text. pose proof (strip_zeros_nonneg 20 c 0 H) as N.
  destruct (strip_zeros 20 c 0) as [d' z]. cbn [fst] in N. apply positional_head. exact N.
Qed.

Lemma try_digits_head x num den k n t : try_digits x num den k n = Some t -> exists d r, t = d :: r /\ is_digit d = true.
Proof.
  unfold try_digits.
  match goal with |- context [let '(a, b) := ?p in _] => destruct p as [snum sden] end. cbv zeta.
  intros H. eapply (first_ok_b _ _ _ _ _ _ t (fun s => exists d r, s = d :: r /\ is_digit d = true)); [| |exact H];
    intros Hp; apply Z.ltb_lt in Hp; apply candidate_head; lia.
Qed.

Lemma shortest_head : forall fuel x num den k n t, shortest fuel x num den k n = Some t -> exists d r, t = d :: r /\ is_digit d = true.
Proof.
  induction fuel as [|f IH]; intros x num den k n t H; [discriminate|]. cbn [shortest] in H.
  destruct (try_digits x num den k n) as [s|] eqn:T; [injection H as <-; eapply try_digits_head; eauto|eapply IH; eauto].
Qed.

(** every finite double: what the printer writes reads back as that double, sign included *)
Theorem print_reads_back s m e t : print_f64 (S754_finite s m e) = Some t -> rust_parse_f64 t = Some (S754_finite s m e).
Proof.
  destruct s; [|apply print_reads_back_positive].
  cbn [print_f64]. destruct (ratio_of m e) as [num den].
  destruct (shortest 17 (S754_finite false m e) num den (dec_exponent num den) 1) as [t0|] eqn:S; [|discriminate].
  intros [= <-]. destruct (shortest_head _ _ _ _ _ _ _ S) as (d & r & -> & Hd).
  apply shortest_reads_back in S. rewrite (parse_with_minus d r _ Hd S). reflexivity.
Qed.
