(* Proofs/F64Facts.v — the SpecFloat operations used by the model are
   Flocq's IEEE-754 binary64 operations (round to nearest even), whose
   correctness theorems (Bplus_correct, Bmult_correct, Bdiv_correct,
   Bsqrt_correct, binary_normalize_correct) then apply. *)
From Coq Require Import ZArith Bool Reals Floats.SpecFloat.
From Flocq Require Import Core.Zaux IEEE754.BinarySingleNaN.
From Rscel Require Import Base.F64.
Open Scope Z_scope.

Lemma Hprec64 : FLX.Prec_gt_0 53. Proof. reflexivity. Qed.
Lemma Hmax64 : Prec_lt_emax 53 1024. Proof. reflexivity. Qed.
#[export] Existing Instance Hprec64.
#[export] Existing Instance Hmax64.

Notation b64 := (binary_float 53 1024).

Lemma round_nearest_even_equiv s m l :
  round_nearest_even m l = choice_mode mode_NE s m l.
Proof.
case l; [reflexivity|intro c].
case c; [ | reflexivity..].
now simpl; unfold Round.cond_incr; case Z.even.
Qed.

Lemma binary_round_aux_equiv sx mx ex lx :
  SpecFloat.binary_round_aux 53 1024 sx mx ex lx
  = binary_round_aux 53 1024 mode_NE sx mx ex lx.
Proof.
unfold SpecFloat.binary_round_aux, binary_round_aux.
set (mrse' := shr_fexp _ _ _ _ _).
case mrse'; intros mrs' e'; simpl.
now rewrite (round_nearest_even_equiv sx).
Qed.

Lemma binary_round_equiv s m e :
  SpecFloat.binary_round 53 1024 s m e =
  binary_round 53 1024 mode_NE s m e.
Proof.
unfold SpecFloat.binary_round, binary_round, shl_align_fexp.
set (mez := shl_align _ _ _); case mez as [mz ez].
apply binary_round_aux_equiv.
Qed.

Lemma binary_normalize_equiv m e szero :
  SpecFloat.binary_normalize 53 1024 m e szero
  = B2SF (binary_normalize 53 1024 Hprec64 Hmax64 mode_NE m e szero).
Proof.
case m as [ | p | p].
- now simpl.
- simpl; rewrite B2SF_SF2B; apply binary_round_equiv.
- simpl; rewrite B2SF_SF2B; apply binary_round_equiv.
Qed.

Theorem f64_add_ieee (x y : b64) :
  f64_add (B2SF x) (B2SF y) = B2SF (Bplus mode_NE x y).
Proof.
unfold f64_add.
case x as [sx|sx| |sx mx ex Bx]; case y as [sy|sy| |sy my ey By];
  [now (trivial || simpl; case Bool.eqb).. | ].
apply binary_normalize_equiv.
Qed.

Theorem f64_sub_ieee (x y : b64) :
  f64_sub (B2SF x) (B2SF y) = B2SF (Bminus mode_NE x y).
Proof.
unfold f64_sub.
case x as [sx|sx| |sx mx ex Bx]; case y as [sy|sy| |sy my ey By];
  [now (trivial || simpl; case Bool.eqb).. | ].
simpl. unfold Zminus. rewrite <- cond_Zopp_negb.
apply binary_normalize_equiv.
Qed.

Theorem f64_mul_ieee (x y : b64) :
  f64_mul (B2SF x) (B2SF y) = B2SF (Bmult mode_NE x y).
Proof.
unfold f64_mul.
case x as [sx|sx| |sx mx ex Bx]; case y as [sy|sy| |sy my ey By]; [now trivial.. | ].
simpl. rewrite B2SF_SF2B. apply binary_round_aux_equiv.
Qed.

Theorem f64_div_ieee (x y : b64) :
  f64_div (B2SF x) (B2SF y) = B2SF (Bdiv mode_NE x y).
Proof.
unfold f64_div.
case x as [sx|sx| |sx mx ex Bx]; case y as [sy|sy| |sy my ey By];
  [now (trivial || simpl; case Bool.eqb).. | ].
simpl. rewrite B2SF_SF2B.
set (melz := SFdiv_core_binary _ _ _ _ _ _).
case melz as [[mz ez] lz].
apply binary_round_aux_equiv.
Qed.

Theorem f64_sqrt_ieee (x : b64) :
  f64_sqrt (B2SF x) = B2SF (Bsqrt mode_NE x).
Proof.
unfold f64_sqrt.
case x as [sx|sx| |sx mx ex Bx]; [now (trivial || case sx).. | ].
case sx; [reflexivity | ].
simpl. rewrite B2SF_SF2B.
set (melz := SFsqrt_core_binary _ _ _ _).
case melz as [[mz ez] lz].
apply binary_round_aux_equiv.
Qed.

Theorem f64_neg_ieee (x : b64) : f64_neg (B2SF x) = B2SF (Bopp x).
Proof. now case x. Qed.

Theorem f64_cmp_ieee (x y : b64) : f64_cmp (B2SF x) (B2SF y) = Bcompare x y.
Proof. reflexivity. Qed.

Theorem f64_of_Z_ieee (z : Z) :
  f64_of_Z z = B2SF (binary_normalize 53 1024 Hprec64 Hmax64 mode_NE z 0 false).
Proof. apply binary_normalize_equiv. Qed.

(** Every valid spec_float is the image of a Flocq binary float. *)
Lemma valid_is_B2SF (x : f64) : f64_valid x = true -> exists b : b64, B2SF b = x.
Proof. intro H. exists (SF2B x H). apply B2SF_SF2B. Qed.

(** The operations preserve validity (they are images of Flocq floats). *)
Lemma f64_add_valid x y : f64_valid x = true -> f64_valid y = true -> f64_valid (f64_add x y) = true.
Proof.
intros Hx Hy. destruct (valid_is_B2SF x Hx) as [bx <-], (valid_is_B2SF y Hy) as [by_ <-].
rewrite f64_add_ieee. apply valid_binary_B2SF.
Qed.
Lemma f64_sub_valid x y : f64_valid x = true -> f64_valid y = true -> f64_valid (f64_sub x y) = true.
Proof.
intros Hx Hy. destruct (valid_is_B2SF x Hx) as [bx <-], (valid_is_B2SF y Hy) as [by_ <-].
rewrite f64_sub_ieee. apply valid_binary_B2SF.
Qed.
Lemma f64_mul_valid x y : f64_valid x = true -> f64_valid y = true -> f64_valid (f64_mul x y) = true.
Proof.
intros Hx Hy. destruct (valid_is_B2SF x Hx) as [bx <-], (valid_is_B2SF y Hy) as [by_ <-].
rewrite f64_mul_ieee. apply valid_binary_B2SF.
Qed.
Lemma f64_div_valid x y : f64_valid x = true -> f64_valid y = true -> f64_valid (f64_div x y) = true.
Proof.
intros Hx Hy. destruct (valid_is_B2SF x Hx) as [bx <-], (valid_is_B2SF y Hy) as [by_ <-].
rewrite f64_div_ieee. apply valid_binary_B2SF.
Qed.
Lemma f64_neg_valid x : f64_valid x = true -> f64_valid (f64_neg x) = true.
Proof. now destruct x. Qed.
Lemma f64_of_Z_valid z : f64_valid (f64_of_Z z) = true.
Proof. rewrite f64_of_Z_ieee. apply valid_binary_B2SF. Qed.
