(* Proofs/Asm.v — C10: the label assembler.  A structured view of pre-resolved code (a tree whose
   leaves are instructions, label jumps, labels and already-resolved chunks) with a stack-height
   discipline; when the discipline holds and every label is defined once, after its uses, [resolve]
   succeeds and the resolved code passes the validator of Spec/WfCode.v with an explicit height
   assignment. *)
From Coq Require Import ZArith List Bool Lia Arith Permutation.
From Rscel Require Import Base.Prims Model.Value Model.Compile Spec.WfCode.
Import ListNotations.
Local Open Scope nat_scope.

Definition is_jump (i : instr) : bool := match i with IJmp _ | IJmpCond _ _ => true | _ => false end.

Inductive ptree :=
| TNil
| TI (i : instr)                                   (* an instruction that is not a jump *)
| TJ (l : nat)
| TJC (w : bool) (l : nat)
| TL (l : nat)
| TChunk (bc : code) (Hb : list (option nat))      (* resolved code of a whole sub-program, with its certificate *)
| TSeq (a b : ptree).

Fixpoint flat (t : ptree) : pcode :=
  match t with
  | TNil => []
  | TI i => [PBc i]
  | TJ l => [PJmp l]
  | TJC w l => [PJmpCond w l]
  | TL l => [PLabel l]
  | TChunk bc _ => of_code bc
  | TSeq a b => flat a ++ flat b
  end.

(** number of instructions (labels take no room) *)
Fixpoint tsize (t : ptree) : nat :=
  match t with
  | TNil | TL _ => 0
  | TI _ | TJ _ | TJC _ _ => 1
  | TChunk bc _ => length bc
  | TSeq a b => tsize a + tsize b
  end.

(** labels defined, with their offsets *)
Fixpoint tlabs (t : ptree) (p : nat) : list (nat * nat) :=
  match t with
  | TL l => [(l, p)]
  | TSeq a b => tlabs a p ++ tlabs b (p + tsize a)
  | _ => []
  end.
Definition tdefs (t : ptree) : list nat := map fst (tlabs t 0).

(** every jump goes to a label defined later: in the rest of the tree or in [later] *)
Fixpoint tfwd (later : list nat) (t : ptree) : Prop :=
  match t with
  | TJ l | TJC _ l => In l later
  | TSeq a b => tfwd (tdefs b ++ later) a /\ tfwd later b
  | _ => True
  end.

(** nested blocks and chunks carry their own certificates *)
Fixpoint tnested (wfn : code -> bool) (t : ptree) : Prop :=
  match t with
  | TI i => is_jump i = false /\ match i with IPush (VCode b) => wfn b = true | _ => True end
  | TChunk bc Hb => validate wfn bc Hb = true
  | TSeq a b => tnested wfn a /\ tnested wfn b
  | _ => True
  end.

(* ---- the height discipline, labels' heights inferred on the way --------------------------------- *)

Definition lmap := nat -> option nat.
Definition upd (G : lmap) (l k : nat) : lmap := fun x => if Nat.eqb x l then Some k else G x.
Definition constrain (G : lmap) (l k : nat) : option lmap :=
  match G l with
  | None => Some (upd G l k)
  | Some k0 => if Nat.eqb k0 k then Some G else None
  end.

(** [h]: height on entry, [None] when no path reaches this point (only a label may follow) *)
Fixpoint tcheck (t : ptree) (h : option nat) (G : lmap) : option (option nat * lmap) :=
  match t with
  | TNil => Some (h, G)
  | TI i =>
      match h with
      | Some k => if Nat.leb (pops i) k then Some (Some (k - pops i + pushes i), G) else None
      | None => None
      end
  | TJ l =>
      match h with
      | Some k => option_map (fun G' => (None, G')) (constrain G l k)
      | None => None
      end
  | TJC _ l =>
      match h with
      | Some (S k) => option_map (fun G' => (Some k, G')) (constrain G l k)
      | _ => None
      end
  | TL l =>
      match h with
      | Some k => option_map (fun G' => (Some k, G')) (constrain G l k)
      | None => match G l with Some k => Some (Some k, G) | None => None end
      end
  | TChunk _ _ =>
      match h with Some k => Some (Some (S k), G) | None => None end
  | TSeq a b =>
      match tcheck a h G with
      | Some (h1, G1) => tcheck b h1 G1
      | None => None
      end
  end.

(** the same discipline against a fixed assignment of heights to labels *)
Fixpoint tck (G : lmap) (t : ptree) (h : option nat) : option (option nat) :=
  match t with
  | TNil => Some h
  | TI i =>
      match h with
      | Some k => if Nat.leb (pops i) k then Some (Some (k - pops i + pushes i)) else None
      | None => None
      end
  | TJ l =>
      match h, G l with
      | Some k, Some k0 => if Nat.eqb k0 k then Some None else None
      | _, _ => None
      end
  | TJC _ l =>
      match h, G l with
      | Some (S k), Some k0 => if Nat.eqb k0 k then Some (Some k) else None
      | _, _ => None
      end
  | TL l =>
      match G l with
      | Some k0 => match h with
                   | Some k => if Nat.eqb k0 k then Some (Some k) else None
                   | None => Some (Some k0)
                   end
      | None => None
      end
  | TChunk _ _ => match h with Some k => Some (Some (S k)) | None => None end
  | TSeq a b => match tck G a h with Some h1 => tck G b h1 | None => None end
  end.

Definition extends (G G' : lmap) : Prop := forall l k, G l = Some k -> G' l = Some k.

Lemma extends_refl G : extends G G. Proof. intros l k H; exact H. Qed.
Lemma extends_trans G1 G2 G3 : extends G1 G2 -> extends G2 G3 -> extends G1 G3.
Proof. intros A B l k H. auto. Qed.

Lemma constrain_spec G l k G' : constrain G l k = Some G' -> extends G G' /\ G' l = Some k.
Proof.
  unfold constrain. destruct (G l) as [k0|] eqn:E.
  - destruct (Nat.eqb_spec k0 k); [|discriminate]. intros H. injection H as <-. subst. split; [apply extends_refl|exact E].
  - intros H. injection H as <-. split.
    + intros x kx Hx. unfold upd. destruct (Nat.eqb_spec x l); [subst; congruence|exact Hx].
    + unfold upd. rewrite Nat.eqb_refl. reflexivity.
Qed.

Lemma tcheck_extends : forall t h G h' G', tcheck t h G = Some (h', G') -> extends G G'.
Proof.
  induction t as [|i|l|w l|l|bc Hb|a IHa b IHb]; intros h G h' G' H; cbn [tcheck] in H.
  - injection H as _ <-. apply extends_refl.
  - destruct h as [k|]; [|discriminate]. destruct (Nat.leb (pops i) k); [|discriminate]. injection H as _ <-. apply extends_refl.
  - destruct h as [k|]; [|discriminate]. destruct (constrain G l k) as [G1|] eqn:C; [|discriminate].
    injection H as _ <-. apply (constrain_spec _ _ _ _ C).
  - destruct h as [[|k]|]; try discriminate. destruct (constrain G l k) as [G1|] eqn:C; [|discriminate].
    injection H as _ <-. apply (constrain_spec _ _ _ _ C).
  - destruct h as [k|].
    + destruct (constrain G l k) as [G1|] eqn:C; [|discriminate]. injection H as _ <-. apply (constrain_spec _ _ _ _ C).
    + destruct (G l); [|discriminate]. injection H as _ <-. apply extends_refl.
  - destruct h as [k|]; [|discriminate]. injection H as _ <-. apply extends_refl.
  - destruct (tcheck a h G) as [[h1 G1]|] eqn:A; [|discriminate].
    eapply extends_trans; [eapply IHa; eauto|eapply IHb; eauto].
Qed.

(** what was inferred on the way holds against any extension of the final assignment *)
Lemma tcheck_tck : forall t h G h' G', tcheck t h G = Some (h', G') ->
  forall GG, extends G' GG -> tck GG t h = Some h'.
Proof.
  induction t as [|i|l|w l|l|bc Hb|a IHa b IHb]; intros h G h' G' H GG Hext; cbn [tcheck] in H; cbn [tck].
  - injection H as <- _. reflexivity.
  - destruct h as [k|]; [|discriminate]. destruct (Nat.leb (pops i) k); [|discriminate]. injection H as <- _. reflexivity.
  - destruct h as [k|]; [|discriminate]. destruct (constrain G l k) as [G1|] eqn:C; [|discriminate].
    injection H as <- <-. destruct (constrain_spec _ _ _ _ C) as [_ E]. rewrite (Hext l k E), Nat.eqb_refl. reflexivity.
  - destruct h as [[|k]|]; try discriminate. destruct (constrain G l k) as [G1|] eqn:C; [|discriminate].
    injection H as <- <-. destruct (constrain_spec _ _ _ _ C) as [_ E]. rewrite (Hext l k E), Nat.eqb_refl. reflexivity.
  - destruct h as [k|].
    + destruct (constrain G l k) as [G1|] eqn:C; [|discriminate]. injection H as <- <-.
      destruct (constrain_spec _ _ _ _ C) as [_ E]. rewrite (Hext l k E), Nat.eqb_refl. reflexivity.
    + destruct (G l) as [k0|] eqn:E; [|discriminate]. injection H as <- <-. rewrite (Hext l k0 E). reflexivity.
  - destruct h as [k|]; [|discriminate]. injection H as <- _. reflexivity.
  - destruct (tcheck a h G) as [[h1 G1]|] eqn:A; [|discriminate].
    rewrite (IHa h G h1 G1 A GG).
    + eapply IHb; eauto.
    + eapply extends_trans; [eapply tcheck_extends; exact H|exact Hext].
Qed.

(* ---- resolve on flat code ----------------------------------------------------------------------- *)

Fixpoint psize (c : pcode) : nat :=
  match c with [] => 0 | PLabel _ :: r => psize r | _ :: r => S (psize r) end.
Fixpoint plabs (c : pcode) (p : nat) : list (nat * nat) :=
  match c with
  | [] => []
  | PLabel l :: r => (l, p) :: plabs r p
  | _ :: r => plabs r (S p)
  end.

Lemma psize_app a b : psize (a ++ b) = psize a + psize b.
Proof. induction a as [|[i|l|w l|l] a IH]; cbn; auto. Qed.
Lemma plabs_app a b p : plabs (a ++ b) p = plabs a p ++ plabs b (p + psize a).
Proof.
  revert p. induction a as [|[i|l|w l|l] a IH]; intros p; cbn [app plabs psize].
  - rewrite Nat.add_0_r. reflexivity.
  - rewrite IH. f_equal. f_equal. lia.
  - rewrite IH. f_equal. f_equal. lia.
  - rewrite IH. f_equal. f_equal. lia.
  - rewrite IH. reflexivity.
Qed.
Lemma psize_of_code bc : psize (of_code bc) = length bc.
Proof. unfold of_code. induction bc as [|i r IH]; cbn; auto. Qed.
Lemma plabs_of_code bc p : plabs (of_code bc) p = [].
Proof. unfold of_code. revert p. induction bc as [|i r IH]; intros p; cbn; auto. Qed.

Lemma psize_flat t : psize (flat t) = tsize t.
Proof.
  induction t as [|i|l|w l|l|bc Hb|a IHa b IHb]; cbn [flat tsize psize]; try reflexivity.
  - apply psize_of_code.
  - rewrite psize_app. congruence.
Qed.
Lemma plabs_flat t : forall p, plabs (flat t) p = tlabs t p.
Proof.
  induction t as [|i|l|w l|l|bc Hb|a IHa b IHb]; intros p; cbn [flat tlabs plabs]; try reflexivity.
  - apply plabs_of_code.
  - rewrite plabs_app, IHa, IHb, psize_flat. reflexivity.
Qed.

Lemma tlabs_shift t : forall p, tlabs t p = map (fun lq => (fst lq, p + snd lq)) (tlabs t 0).
Proof.
  induction t as [|i|l|w l|l|bc Hb|a IHa b IHb]; intros p; cbn [tlabs map]; try reflexivity.
  - cbn. rewrite Nat.add_0_r. reflexivity.
  - rewrite map_app, (IHa p), (IHb (p + tsize a)), (IHb (0 + tsize a)), map_map. f_equal.
    apply map_ext. intros [l q]. cbn. f_equal. lia.
Qed.
Lemma tdefs_labs t p : map fst (tlabs t p) = tdefs t.
Proof. unfold tdefs. rewrite (tlabs_shift t p), map_map. reflexivity. Qed.
Lemma tdefs_seq a b : tdefs (TSeq a b) = tdefs a ++ tdefs b.
Proof. unfold tdefs. cbn [tlabs]. rewrite map_app. f_equal. apply tdefs_labs. Qed.

(** the label table [resolve] builds: every defined label with its offset, when no label is defined twice *)
Lemma find_label_app l a b : find_label l (a ++ b) = match find_label l a with Some q => Some q | None => find_label l b end.
Proof. induction a as [|[k q] a IH]; cbn; [reflexivity|]. destruct (Nat.eqb k l); auto. Qed.

Lemma find_label_none l a : ~ In l (map fst a) -> find_label l a = None.
Proof.
  induction a as [|[k q] a IH]; cbn; [reflexivity|]. intros H. destruct (Nat.eqb_spec k l); [subst; tauto|apply IH; tauto].
Qed.

Lemma find_label_in l q a : NoDup (map fst a) -> In (l, q) a -> find_label l a = Some q.
Proof.
  induction a as [|[k q0] a IH]; cbn; [tauto|]. intros Hn [E|Hin].
  - injection E as -> ->. rewrite Nat.eqb_refl. reflexivity.
  - inversion Hn as [|? ? Hk Hr]; subst. destruct (Nat.eqb_spec k l).
    + subst. exfalso. apply Hk. apply in_map_iff. exists (l, q). split; [reflexivity|exact Hin].
    + apply IH; assumption.
Qed.

Lemma existsb_key l acc : existsb (fun kv : nat * nat => Nat.eqb (fst kv) l) acc = true <-> In l (map fst acc).
Proof.
  rewrite existsb_exists. split.
  - intros ([k q] & Hin & E). cbn in E. apply Nat.eqb_eq in E. subst. apply in_map_iff. exists (l, q). auto.
  - intros H. apply in_map_iff in H. destruct H as ([k q] & E & Hin). cbn in E. subst. exists (l, q). split; [exact Hin|apply Nat.eqb_refl].
Qed.

Lemma label_locs_spec : forall c p acc,
  NoDup (map fst (plabs c p) ++ map fst acc) ->
  label_locs c p acc = Some (rev (plabs c p) ++ acc).
Proof.
  induction c as [|[i|l|w l|l] c IH]; intros p acc Hn; cbn [label_locs plabs]; try (apply IH; exact Hn).
  - reflexivity.
  - cbn [map fst app] in Hn. inversion Hn as [|? ? Hk Hr]; subst.
    destruct (existsb (fun kv : nat * nat => Nat.eqb (fst kv) l) acc) eqn:E.
    + apply existsb_key in E. exfalso. apply Hk. apply in_or_app. right. exact E.
    + rewrite IH.
      * cbn [rev]. rewrite <- app_assoc. reflexivity.
      * cbn [map fst]. eapply Permutation_NoDup; [apply Permutation_middle|exact Hn].
Qed.

(* ---- resolve and validation of a placed tree ---------------------------------------------------- *)
From Rscel Require Import Proofs.VM.
Local Open Scope nat_scope.

Lemma resolve_at_app c1 : forall c2 p locs,
  resolve_at (c1 ++ c2) p locs =
  match resolve_at c1 p locs with
  | Some r1 => option_map (app r1) (resolve_at c2 (p + psize c1) locs)
  | None => None
  end.
Proof.
  induction c1 as [|[i|l|w l|l] c1 IH]; intros c2 p locs; cbn [app resolve_at psize].
  - rewrite Nat.add_0_r. destruct (resolve_at c2 p locs); reflexivity.
  - rewrite IH. replace (S p + psize c1) with (p + S (psize c1)) by lia.
    destruct (resolve_at c1 (S p) locs); cbn; [|reflexivity]. destruct (resolve_at c2 _ locs); reflexivity.
  - rewrite IH. replace (S p + psize c1) with (p + S (psize c1)) by lia.
    destruct (find_label l locs); [|reflexivity].
    destruct (resolve_at c1 (S p) locs); cbn; [|reflexivity]. destruct (resolve_at c2 _ locs); reflexivity.
  - rewrite IH. replace (S p + psize c1) with (p + S (psize c1)) by lia.
    destruct (find_label l locs); [|reflexivity].
    destruct (resolve_at c1 (S p) locs); cbn; [|reflexivity]. destruct (resolve_at c2 _ locs); reflexivity.
  - apply IH.
Qed.

Lemma resolve_at_of_code bc : forall p locs, resolve_at (of_code bc) p locs = Some bc.
Proof. unfold of_code. induction bc as [|i r IH]; intros p locs; cbn; [reflexivity|]. rewrite IH. reflexivity. Qed.

Lemma valid_from_app wfn len H c1 : forall c2 p,
  valid_from wfn len H p (c1 ++ c2) = valid_from wfn len H p c1 && valid_from wfn len H (p + length c1) c2.
Proof.
  induction c1 as [|i c1 IH]; intros c2 p; cbn [app valid_from length].
  - rewrite Nat.add_0_r. reflexivity.
  - rewrite IH, andb_assoc. replace (S p + length c1) with (p + S (length c1)) by lia. reflexivity.
Qed.

Section Placed.
  Variable wfn : code -> bool.
  Variable LEN : nat.
  Variable H : list (option nat).
  Variable G : lmap.
  Variable locs : list (nat * nat).

  Definition entry_ok (p : nat) (h : option nat) : Prop :=
    match h with Some k => height_is H p k = true | None => True end.

  (** [H] carries, at the positions of [t] placed at [p], the entry heights of its instructions *)
  Fixpoint hts_ok (t : ptree) (p : nat) (h : option nat) : Prop :=
    match t with
    | TNil | TL _ => True
    | TI _ | TJ _ | TJC _ _ => entry_ok p h
    | TChunk bc Hb =>
        match h with
        | Some k => forall j, j <= length bc ->
                      nth_error H (p + j) = option_map (option_map (fun x => x + k)) (nth_error Hb j)
        | None => False
        end
    | TSeq a b => hts_ok a p h /\ match tck G a h with Some h1 => hts_ok b (p + tsize a) h1 | None => False end
    end.

  (** every label of the table lies in the block and carries its height *)
  Hypothesis LP : forall l q, find_label l locs = Some q ->
    q <= LEN /\ (forall k, G l = Some k -> height_is H q k = true).

  Lemma entry_of : forall t p h h',
    tck G t h = Some h' -> tnested wfn t -> hts_ok t p h -> entry_ok (p + tsize t) h' ->
    (forall l q, In (l, q) (tlabs t p) -> find_label l locs = Some q) ->
    entry_ok p h.
  Proof.
    induction t as [|i|l|w l|l|bc Hb|a IHa b IHb]; intros p h h' Hck Hn Hh Hex Hlab; cbn [tck tsize hts_ok tlabs tnested] in *.
    - injection Hck as <-. rewrite Nat.add_0_r in Hex. exact Hex.
    - exact Hh.
    - exact Hh.
    - exact Hh.
    - destruct h as [k|]; [|exact I]. destruct (G l) as [k0|] eqn:E; [|discriminate].
      destruct (Nat.eqb_spec k0 k); [|discriminate]. subst k0. cbn.
      destruct (LP l p (Hlab l p (or_introl eq_refl))) as [_ Hk]. apply Hk. exact E.
    - destruct h as [k|]; [|contradiction]. cbn. apply height_is_spec.
      specialize (Hh 0 (Nat.le_0_l _)). rewrite Nat.add_0_r in Hh. rewrite Hh.
      destruct (validate_parts _ _ _ Hn) as (_ & H0 & _). apply height_is_spec in H0. rewrite H0. reflexivity.
    - destruct (tck G a h) as [h1|] eqn:A; [|discriminate]. destruct Hh as [Ha Hb']. destruct Hn as [Na Nb].
      apply (IHa p h h1 A Na Ha).
      + apply (IHb (p + tsize a) h1 h' Hck Nb Hb').
        * rewrite <- Nat.add_assoc. exact Hex.
        * intros l q Hin. apply Hlab. apply in_or_app. right. exact Hin.
      + intros l q Hin. apply Hlab. apply in_or_app. left. exact Hin.
  Qed.

  (** a validated block placed at [p] under [k] values stays valid *)
  Lemma valid_at_embed (bc : code) (Hb : list (option nat)) p k j i :
    (forall j, j <= length bc -> nth_error H (p + j) = option_map (option_map (fun x => x + k)) (nth_error Hb j)) ->
    length Hb = S (length bc) -> p + length bc <= LEN -> j < length bc ->
    valid_at wfn (length bc) Hb j i = true -> valid_at wfn LEN H (p + j) i = true.
  Proof.
    intros Hseg HlenH Hfit Hj Hv. unfold valid_at in *.
    apply andb_true_iff in Hv. destruct Hv as [Hv Hhts]. apply andb_true_iff in Hv. destruct Hv as [Hnest Hrange].
    rewrite Hnest. cbn [andb].
    assert (Hrange' : match i with
                      | IJmp d | IJmpCond _ d => ((0 <=? d)%Z && (Z.of_nat (S (p + j)) + d <=? Z.of_nat LEN)%Z)
                      | _ => true end = true).
    { destruct i; try reflexivity; apply andb_true_iff in Hrange; destruct Hrange as [R1 R2];
        apply Z.leb_le in R1, R2; apply andb_true_iff; split; apply Z.leb_le; lia. }
    rewrite Hrange'. cbn [andb].
    rewrite (Hseg j (Nat.lt_le_incl _ _ Hj)).
    destruct (nth_error Hb j) as [[kb|]|] eqn:Ej; cbn [option_map]; [|reflexivity|discriminate Hhts].
    apply andb_true_iff in Hhts. destruct Hhts as [Hp Hnext]. apply Nat.leb_le in Hp.
    apply andb_true_iff. split; [apply Nat.leb_le; lia|].
    assert (Hshift : forall q kq, q <= length bc -> height_is Hb q kq = true -> height_is H (p + q) (kq + k) = true).
    { intros q kq Hq Hk. apply height_is_spec in Hk. apply height_is_spec. rewrite (Hseg q Hq), Hk. reflexivity. }
    replace (kb + k - pops i + pushes i) with (kb - pops i + pushes i + k) by lia.
    destruct i; try (replace (S (p + j)) with (p + S j) by lia; apply Hshift; [lia|exact Hnext]).
    - (* IJmp *) apply andb_true_iff in Hrange. destruct Hrange as [R1 R2]. apply Z.leb_le in R1, R2.
      replace (S (p + j) + Z.to_nat d) with (p + (S j + Z.to_nat d)) by lia. apply Hshift; [lia|exact Hnext].
    - (* IJmpCond *) apply andb_true_iff in Hrange. destruct Hrange as [R1 R2]. apply Z.leb_le in R1, R2.
      apply andb_true_iff in Hnext. destruct Hnext as [N1 N2]. apply andb_true_iff. split.
      + replace (S (p + j)) with (p + S j) by lia. apply Hshift; [lia|exact N1].
      + replace (S (p + j) + Z.to_nat d) with (p + (S j + Z.to_nat d)) by lia. apply Hshift; [lia|exact N2].
  Qed.

  Lemma valid_from_embed (bc : code) (Hb : list (option nat)) p k :
    (forall j, j <= length bc -> nth_error H (p + j) = option_map (option_map (fun x => x + k)) (nth_error Hb j)) ->
    length Hb = S (length bc) -> p + length bc <= LEN ->
    forall c j, j + length c = length bc ->
    valid_from wfn (length bc) Hb j c = true -> valid_from wfn LEN H (p + j) c = true.
  Proof.
    intros Hseg HlenH Hfit. induction c as [|i c IH]; intros j Hj Hv; [reflexivity|].
    cbn [valid_from length] in *. apply andb_true_iff in Hv. destruct Hv as [Hi Hc]. apply andb_true_iff. split.
    - eapply valid_at_embed; eauto. lia.
    - replace (S (p + j)) with (p + S j) by lia. apply IH; [lia|exact Hc].
  Qed.

  Lemma not_jump_next i k' p : is_jump i = false ->
    height_is H (S p) k' = true ->
    match i with
    | IJmp d => height_is H (S p + Z.to_nat d) k'
    | IJmpCond _ d => height_is H (S p) k' && height_is H (S p + Z.to_nat d) k'
    | _ => height_is H (S p) k'
    end = true.
  Proof. intros Hj Hh. destruct i; try discriminate Hj; exact Hh. Qed.

  Lemma not_jump_range i p : is_jump i = false ->
    match i with
    | IJmp d | IJmpCond _ d => ((0 <=? d)%Z && (Z.of_nat (S p) + d <=? Z.of_nat LEN)%Z)
    | _ => true
    end = true.
  Proof. intros Hj. destruct i; try discriminate Hj; reflexivity. Qed.

  (** the central lemma: a disciplined tree placed at [p] resolves, and its code is valid there *)
  Lemma placed_valid : forall t p h h' later,
    tck G t h = Some h' -> tnested wfn t -> hts_ok t p h -> entry_ok p h -> entry_ok (p + tsize t) h' ->
    tfwd later t ->
    (forall l, In l later -> exists q, find_label l locs = Some q /\ p + tsize t <= q) ->
    (forall l q, In (l, q) (tlabs t p) -> find_label l locs = Some q) ->
    p + tsize t <= LEN ->
    exists code, resolve_at (flat t) p locs = Some code /\ length code = tsize t /\
                 valid_from wfn LEN H p code = true.
  Proof.
    induction t as [|i|l|w l|l|bc Hb|a IHa b IHb]; intros p h h' later Hck Hn Hh Hen Hex Hfw Hlater Hlab Hfit;
      cbn [tck tsize hts_ok tlabs tnested tfwd flat] in *.
    - exists []. repeat split; reflexivity.
    - (* instruction *)
      destruct h as [k|]; [|discriminate]. destruct (Nat.leb (pops i) k) eqn:Hp; [|discriminate]. injection Hck as <-.
      destruct Hn as [Hj Hnest]. exists [i]. split; [reflexivity|]. split; [reflexivity|].
      cbn [valid_from]. rewrite andb_true_r. unfold valid_at.
      cbn in Hen. apply height_is_spec in Hen. rewrite Hen, Hp. cbn [andb].
      replace (p + 1) with (S p) in Hex by lia. cbn in Hex.
      rewrite (not_jump_next i _ p Hj Hex), (not_jump_range i p Hj), andb_true_r, andb_true_r.
      destruct i; try reflexivity. destruct v; try reflexivity. exact Hnest.
    - (* jump *)
      destruct h as [k|]; [|discriminate]. destruct (G l) as [k0|] eqn:E; [|discriminate].
      destruct (Nat.eqb_spec k0 k); [|discriminate]. subst k0.
      destruct (Hlater l Hfw) as (q & Hq & Hge). destruct (LP l q Hq) as [Hqle Hqh]. specialize (Hqh k E).
      cbn [resolve_at]. rewrite Hq. eexists. split; [reflexivity|]. split; [reflexivity|].
      cbn [valid_from]. rewrite andb_true_r. unfold valid_at. cbn [andb].
      cbn in Hen. apply height_is_spec in Hen. rewrite Hen. cbn [pops pushes Nat.leb].
      assert (R : ((0 <=? Z.of_nat q - Z.of_nat (S p))%Z && (Z.of_nat (S p) + (Z.of_nat q - Z.of_nat (S p)) <=? Z.of_nat LEN)%Z) = true).
      { apply andb_true_iff. split; apply Z.leb_le; lia. }
      rewrite R. cbn [andb].
      replace (S p + Z.to_nat (Z.of_nat q - Z.of_nat (S p))) with q by lia.
      replace (k - 0 + 0) with k by lia. exact Hqh.
    - (* conditional jump *)
      destruct h as [[|k]|]; try discriminate. destruct (G l) as [k0|] eqn:E; [|discriminate].
      destruct (Nat.eqb_spec k0 k); [|discriminate]. subst k0. injection Hck as <-.
      destruct (Hlater l Hfw) as (q & Hq & Hge). destruct (LP l q Hq) as [Hqle Hqh]. specialize (Hqh k E).
      cbn [resolve_at]. rewrite Hq. eexists. split; [reflexivity|]. split; [reflexivity|].
      cbn [valid_from]. rewrite andb_true_r. unfold valid_at. cbn [andb].
      cbn in Hen. apply height_is_spec in Hen. rewrite Hen. cbn [pops pushes Nat.leb].
      assert (R : ((0 <=? Z.of_nat q - Z.of_nat (S p))%Z && (Z.of_nat (S p) + (Z.of_nat q - Z.of_nat (S p)) <=? Z.of_nat LEN)%Z) = true).
      { apply andb_true_iff. split; apply Z.leb_le; lia. }
      rewrite R. cbn [andb].
      replace (S p + Z.to_nat (Z.of_nat q - Z.of_nat (S p))) with q by lia.
      replace (S k - 1 + 0) with k by lia. rewrite Hqh, andb_true_r.
      replace (p + 1) with (S p) in Hex by lia. exact Hex.
    - (* label *)
      exists []. repeat split; reflexivity.
    - (* chunk *)
      destruct h as [k|]; [|discriminate]. rewrite resolve_at_of_code. exists bc. split; [reflexivity|]. split; [reflexivity|].
      destruct (validate_parts _ _ _ Hn) as (HlenH & _ & _ & Hv).
      replace p with (p + 0) at 1 by lia. eapply valid_from_embed; eauto.
    - (* sequence *)
      destruct (tck G a h) as [h1|] eqn:A; [|discriminate]. destruct Hh as [Hha Hhb]. destruct Hn as [Na Nb]. destruct Hfw as [Fa Fb].
      assert (Labb : forall l q, In (l, q) (tlabs b (p + tsize a)) -> find_label l locs = Some q)
        by (intros l q Hin; apply Hlab; apply in_or_app; right; exact Hin).
      assert (Hmid : entry_ok (p + tsize a) h1).
      { apply (entry_of b (p + tsize a) h1 h' Hck Nb Hhb); [rewrite <- Nat.add_assoc; exact Hex|exact Labb]. }
      destruct (IHa p h h1 (tdefs b ++ later) A Na Hha Hen Hmid Fa) as (ca & Ra & La & Va).
      + intros l Hin. apply in_app_or in Hin. destruct Hin as [Hin|Hin].
        * rewrite <- (tdefs_labs b (p + tsize a)) in Hin. apply in_map_iff in Hin. destruct Hin as ([l0 q] & E & Hin). cbn in E. subst l0.
          exists q. split; [apply Labb; exact Hin|].
          rewrite tlabs_shift in Hin. apply in_map_iff in Hin. destruct Hin as ([l1 q1] & E1 & _). cbn in E1. injection E1 as _ <-. lia.
        * destruct (Hlater l Hin) as (q & Hq & Hge). exists q. split; [exact Hq|lia].
      + intros l q Hin. apply Hlab. apply in_or_app. left. exact Hin.
      + lia.
      + destruct (IHb (p + tsize a) h1 h' later Hck Nb Hhb Hmid) as (cb & Rb & Lb & Vb).
        * rewrite <- Nat.add_assoc. exact Hex.
        * exact Fb.
        * intros l Hin. destruct (Hlater l Hin) as (q & Hq & Hge). exists q. split; [exact Hq|lia].
        * exact Labb.
        * lia.
        * exists (ca ++ cb). rewrite resolve_at_app, Ra, psize_flat, Rb. split; [reflexivity|]. split.
          -- rewrite app_length. lia.
          -- rewrite valid_from_app, Va, La, Vb. reflexivity.
  Qed.
End Placed.

(* ---- the height assignment of a whole tree ------------------------------------------------------ *)

Fixpoint hts (G : lmap) (t : ptree) (h : option nat) : list (option nat) :=
  match t with
  | TNil | TL _ => []
  | TI _ | TJ _ | TJC _ _ => [h]
  | TChunk bc Hb =>
      match h with
      | Some k => map (option_map (fun x => x + k)) (firstn (length bc) Hb)
      | None => repeat None (length bc)
      end
  | TSeq a b => hts G a h ++ match tck G a h with Some h1 => hts G b h1 | None => repeat None (tsize b) end
  end.

Lemma hts_length wfn G : forall t h h', tck G t h = Some h' -> tnested wfn t -> length (hts G t h) = tsize t.
Proof.
  induction t as [|i|l|w l|l|bc Hb|a IHa b IHb]; intros h h' Hck Hn; cbn [hts tsize tck tnested] in *; try reflexivity.
  - destruct h as [k|]; [|discriminate]. rewrite map_length, firstn_length.
    destruct (validate_parts _ _ _ Hn) as (HlenH & _). lia.
  - destruct (tck G a h) as [h1|] eqn:A; [|discriminate]. destruct Hn as [Na Nb].
    rewrite app_length, (IHa h h1 A Na), (IHb h1 h' Hck Nb). reflexivity.
Qed.

Lemma tlabs_bound t : forall p l q, In (l, q) (tlabs t p) -> p <= q <= p + tsize t.
Proof.
  induction t as [|i|l0|w l0|l0|bc Hb|a IHa b IHb]; intros p l q Hin; cbn [tlabs tsize] in *; try contradiction.
  - destruct Hin as [E|[]]. injection E as _ <-. lia.
  - apply in_app_or in Hin. destruct Hin as [Hin|Hin]; [apply IHa in Hin|apply IHb in Hin]; lia.
Qed.

Lemma nth_error_firstn_lt {A} (l : list A) : forall n j, j < n -> nth_error (firstn n l) j = nth_error l j.
Proof.
  induction l as [|x l IH]; intros n j Hj; [destruct n, j; reflexivity|].
  destruct n; [lia|]. destruct j; [reflexivity|]. cbn. apply IH. lia.
Qed.

Section Build.
  Variable wfn : code -> bool.
  Variable G : lmap.

  Lemma nth_error_mid {A} (pre : list A) x post : nth_error (pre ++ x :: post) (length pre) = Some x.
  Proof. rewrite nth_error_app2 by lia. rewrite Nat.sub_diag. reflexivity. Qed.

  (** with [H] built from [hts], placed after [pre], and the continuation agreeing with the exit height:
      labels carry their heights, the entry height is in place, and [H] is an assignment for the tree *)
  Lemma build_ok : forall t pre post h h',
    tck G t h = Some h' -> tnested wfn t ->
    let H := pre ++ hts G t h ++ post in
    let p := length pre in
    entry_ok H (p + tsize t) h' ->
    (forall l q k, In (l, q) (tlabs t p) -> G l = Some k -> height_is H q k = true) /\
    entry_ok H p h /\ hts_ok H G t p h.
  Proof.
    induction t as [|i|l|w l|l|bc Hb|a IHa b IHb]; intros pre post h h' Hck Hn H p Hex;
      cbn [tck tsize hts_ok tlabs tnested hts] in *.
    - injection Hck as <-. subst p. rewrite Nat.add_0_r in Hex. repeat split; [intros l q k []|exact Hex].
    - assert (E : entry_ok H p h).
      { destruct h as [k|]; [|exact I]. cbn. apply height_is_spec. subst H p. cbn [app]. apply nth_error_mid. }
      repeat split; [intros l q k []|exact E|exact E].
    - assert (E : entry_ok H p h).
      { destruct h as [k|]; [|exact I]. cbn. apply height_is_spec. subst H p. cbn [app]. apply nth_error_mid. }
      repeat split; [intros l0 q k []|exact E|exact E].
    - assert (E : entry_ok H p h).
      { destruct h as [k|]; [|exact I]. cbn. apply height_is_spec. subst H p. cbn [app]. apply nth_error_mid. }
      repeat split; [intros l0 q k []|exact E|exact E].
    - (* label *)
      rewrite Nat.add_0_r in Hex. destruct (G l) as [k0|] eqn:E; [|discriminate].
      assert (Hk0 : height_is H p k0 = true).
      { destruct h as [k|]; [destruct (Nat.eqb_spec k0 k); [|discriminate]; subst k0|]; injection Hck as <-; exact Hex. }
      repeat split.
      + intros l0 q k [Eq|[]] Hg. injection Eq as <- <-. rewrite E in Hg. injection Hg as <-. exact Hk0.
      + destruct h as [k|]; [|exact I]. destruct (Nat.eqb_spec k0 k); [|discriminate]. subst k0. exact Hk0.
    - (* chunk *)
      destruct h as [k|]; [|discriminate]. injection Hck as <-.
      destruct (validate_parts _ _ _ Hn) as (HlenH & H0 & Hend & _).
      assert (Seg : forall j, j <= length bc ->
                nth_error H (p + j) = option_map (option_map (fun x => x + k)) (nth_error Hb j)).
      { intros j Hj. subst H p. rewrite nth_error_app2 by lia. replace (length pre + j - length pre) with j by lia.
        destruct (Nat.eq_dec j (length bc)) as [->|Hne].
        - rewrite nth_error_app2 by (rewrite map_length, firstn_length; lia).
          rewrite map_length, firstn_length. replace (length bc - Nat.min (length bc) (length Hb)) with 0 by lia.
          apply height_is_spec in Hend. rewrite Hend. cbn [option_map].
          cbn in Hex. apply height_is_spec in Hex. rewrite nth_error_app2 in Hex by lia.
          rewrite nth_error_app2 in Hex by (rewrite map_length, firstn_length; lia).
          rewrite map_length, firstn_length in Hex.
          replace (length pre + length bc - length pre - Nat.min (length bc) (length Hb)) with 0 in Hex by lia.
          rewrite Hex. reflexivity.
        - rewrite nth_error_app1 by (rewrite map_length, firstn_length; lia).
          rewrite nth_error_map. f_equal. apply nth_error_firstn_lt. lia. }
      repeat split; [intros l q k0 []| |exact Seg].
      cbn. apply height_is_spec. specialize (Seg 0 (Nat.le_0_l _)). rewrite Nat.add_0_r in Seg. rewrite Seg.
      apply height_is_spec in H0. rewrite H0. reflexivity.
    - (* sequence *)
      destruct (tck G a h) as [h1|] eqn:A; [|discriminate]. destruct Hn as [Na Nb].
      pose proof (hts_length wfn G a h h1 A Na) as La.
      destruct (IHb (pre ++ hts G a h) post h1 h' Hck Nb) as (Lb & Eb & Ob).
      { rewrite app_length, La. subst H p. rewrite <- app_assoc. rewrite <- Nat.add_assoc. rewrite <- app_assoc in Hex. exact Hex. }
      rewrite app_length, La in Lb, Eb, Ob. rewrite <- !app_assoc in Lb, Eb, Ob.
      destruct (IHa pre (hts G b h1 ++ post) h h1 A Na) as (Lla & Ea & Oa).
      { exact Eb. }
      subst H p. rewrite <- !app_assoc.
      repeat split.
      + intros l q k Hin Hg. apply in_app_or in Hin. destruct Hin as [Hin|Hin]; [eapply Lla; eauto|eapply Lb; eauto].
      + exact Ea.
      + exact Oa.
      + exact Ob.
  Qed.
End Build.

(* ---- the assembler theorem ------------------------------------------------------------------------ *)

Lemma find_label_some_in l q a : find_label l a = Some q -> In (l, q) a.
Proof.
  induction a as [|[k q0] a IH]; cbn; [discriminate|]. destruct (Nat.eqb_spec k l).
  - intros E. injection E as <-. subst. left. reflexivity.
  - intros E. right. auto.
Qed.

(** A tree that follows the height discipline from an empty stack to exactly one value, whose labels
    are defined once and after their uses, and whose nested blocks are certified, resolves to code
    that passes the validator. *)
Theorem resolve_valid wfn T G :
  tcheck T (Some 0) (fun _ => None) = Some (Some 1, G) ->
  tnested wfn T -> tfwd [] T -> NoDup (tdefs T) ->
  exists code H, resolve (flat T) = Some code /\ validate wfn code H = true.
Proof.
  intros Hc Hn Hf Hd.
  pose proof (tcheck_tck T _ _ _ _ Hc G (extends_refl G)) as Hck.
  set (H := hts G T (Some 0) ++ [Some 1]).
  set (locs := rev (tlabs T 0)).
  pose proof (hts_length wfn G T _ _ Hck Hn) as HL.
  assert (Hlocs : label_locs (flat T) 0 [] = Some locs).
  { rewrite label_locs_spec; [rewrite app_nil_r, plabs_flat; reflexivity|].
    rewrite app_nil_r, plabs_flat. exact Hd. }
  assert (Hfind : forall l q, In (l, q) (tlabs T 0) -> find_label l locs = Some q).
  { intros l q Hin. apply find_label_in.
    - unfold locs. rewrite map_rev. apply NoDup_rev. exact Hd.
    - unfold locs. apply in_rev in Hin. exact Hin. }
  destruct (build_ok wfn G T [] [Some 1] (Some 0) (Some 1) Hck Hn) as (Lh & E0 & Ok).
  { cbn [length app Nat.add]. cbn. apply height_is_spec. fold H. unfold H. rewrite nth_error_app2 by lia.
    rewrite HL, Nat.sub_diag. reflexivity. }
  cbn [app length] in Lh, E0, Ok. fold H in Lh, E0, Ok.
  assert (LP : forall l q, find_label l locs = Some q ->
                 q <= tsize T /\ (forall k, G l = Some k -> height_is H q k = true)).
  { intros l q Hq. apply find_label_some_in in Hq. unfold locs in Hq. apply in_rev in Hq. split.
    - apply tlabs_bound in Hq. lia.
    - intros k Hg. eapply Lh; eauto. }
  destruct (placed_valid wfn (tsize T) H G locs LP T 0 (Some 0) (Some 1) [] Hck Hn Ok E0) as (code & Rc & Lc & Vc).
  - cbn. apply height_is_spec. unfold H. rewrite nth_error_app2 by lia. rewrite HL, Nat.sub_diag. reflexivity.
  - exact Hf.
  - intros l [].
  - exact Hfind.
  - lia.
  - exists code, H. split.
    + unfold resolve. rewrite Hlocs. exact Rc.
    + unfold validate. rewrite Lc. unfold H at 1. rewrite app_length, HL. cbn [length]. rewrite Nat.add_1_r, Nat.eqb_refl.
      cbn in E0. rewrite E0. cbn [andb].
      assert (Hend : height_is H (tsize T) 1 = true).
      { apply height_is_spec. unfold H. rewrite nth_error_app2 by lia. rewrite HL, Nat.sub_diag. reflexivity. }
      rewrite Hend, Vc. reflexivity.
Qed.
