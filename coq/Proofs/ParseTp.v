(* Proofs/ParseTp.v — the parser builds a type pattern only from the name of a built-in type, at every
   depth of every tree it returns; hence the compiler never meets the state Compile.c_pattern marks
   unreachable. *)
From Coq Require Import ZArith List Bool Lia.
From Rscel Require Import Base.Prims Base.F64 Base.Text Model.Value Model.Funcs Model.Lexer Model.Ast Model.Parser Proofs.OpsOrder.
Import ListNotations.
Open Scope Z_scope.

(* ---- the predicate, level by level (as Spec/FreeIdents.v) --------------------------------------- *)
Section Tp.
  Variable rec : expr -> Prop.

  Definition tp_primary (p : primary) : Prop :=
    match p with
    | PrParens _ e => rec e
    | PrList _ es => Forall rec es
    | PrObj _ inits => Forall (fun i => match i with ObjInit _ k v => rec k /\ rec v end) inits
    | _ => True
    end.
  Definition tp_mprime (m : mprime) : Prop :=
    match m with MPCall _ args => Forall rec args | MPIndex _ e => rec e | MPAccess _ _ _ => True end.
  Definition tp_member (m : member) : Prop := match m with Member _ p ms => tp_primary p /\ Forall tp_mprime ms end.
  Definition tp_unary (u : unary) : Prop := match u with UnMember _ m | UnNot _ _ m | UnNeg _ _ m => tp_member m end.
  Fixpoint tp_mult (e : mult) : Prop := match e with MulUn _ u => tp_unary u | MulBin _ l _ r => tp_mult l /\ tp_unary r end.
  Fixpoint tp_addn (e : addn) : Prop := match e with AddUn _ u => tp_mult u | AddBin _ l _ r => tp_addn l /\ tp_mult r end.
  Fixpoint tp_rel (e : rel) : Prop := match e with RelUn _ u => tp_addn u | RelBin _ l _ r => tp_rel l /\ tp_addn r end.
  Fixpoint tp_cand (e : cand) : Prop := match e with AndUn _ u => tp_rel u | AndBin _ l r => tp_cand l /\ tp_rel r end.
  Fixpoint tp_cor (e : cor) : Prop := match e with OrUn _ u => tp_cand u | OrBin _ l r => tp_cor l /\ tp_cand r end.
  Definition tp_pattern (p : mpat) : Prop :=
    match p with
    | MPatCmp _ _ _ o => tp_cor o
    | MPatType _ _ _ name => is_type_name (utf8_encode name) = true
    | MPatAny _ _ => True
    end.
  Definition tp_case (c : mcase) : Prop := match c with MCase _ p arm => tp_pattern p /\ rec arm end.
  Definition tp_expr_body (e : expr) : Prop :=
    match e with
    | EUnary _ c => tp_cor c
    | ETernary _ c t f => tp_cor c /\ tp_cor t /\ rec f
    | EMatch _ c cases => rec c /\ Forall tp_case cases
    end.
End Tp.

Fixpoint tp (fuel : nat) (e : expr) : Prop :=
  match fuel with O => True | S f => tp_expr_body (tp f) e end.

(* ---- what a parser returns ------------------------------------------------------------------------- *)
Definition pok {A} (Q : A -> Prop) (m : P A) : Prop := forall t a t', m t = POk a t' -> Q a.

Lemma pok_ret {A} (Q : A -> Prop) a : Q a -> pok Q (pret a).
Proof. intros H t a0 t' E. injection E as <- _. exact H. Qed.
Lemma pok_bind {A B} (Q : A -> Prop) (R : B -> Prop) m f : pok Q m -> (forall a, Q a -> pok R (f a)) -> pok R (pbind m f).
Proof. intros Hm Hf t b t' E. unfold pbind in E. destruct (m t) as [a t1| |] eqn:M; try discriminate. eapply Hf; [eapply Hm; eauto|exact E]. Qed.
Lemma pok_fail_here {A} (Q : A -> Prop) : pok Q fail_here.
Proof. intros t a t' E. discriminate. Qed.
Lemma pok_fail_at {A} (Q : A -> Prop) l : pok Q (fail_at l).
Proof. intros t a t' E. discriminate. Qed.
Lemma pok_any {A} (m : P A) : pok (fun _ => True) m.
Proof. intros t a t' _. exact I. Qed.
Lemma pok_fuel {A} (Q : A -> Prop) : pok Q (fun _ => PFuel).
Proof. intros t a t' E. discriminate. Qed.
Lemma pok_at {A} (Q : A -> Prop) (f : tokenizer -> P A) : (forall t0, pok Q (f t0)) -> pok Q (fun t => f t t).
Proof. intros H t a t' E. eapply H; eauto. Qed.

Lemma type_name_ascii i : is_type_name i = true -> is_type_name (utf8_encode i) = true.
Proof.
  unfold is_type_name, type_table. cbn [assoc].
  repeat match goal with |- context [if bytes_eqb i ?k then _ else _] =>
    let E := fresh "E" in destruct (bytes_eqb i k) eqn:E; [apply bytes_eqb_eq in E; subst i; intros _; vm_compute; reflexivity|] end.
  intros H; discriminate H.
Qed.

Section Levels.
  Variable rec_expr : P expr.
  Variable rec_src : chars -> pres unit.
  Variable R : expr -> Prop.
  Hypothesis Hrec : pok R rec_expr.

  Ltac pk :=
    repeat first
      [ apply pok_fail_here | apply pok_fail_at | apply pok_fuel
      | (eapply pok_bind; [apply pok_any|]; intros ? _)
      ].

  Lemma lloop_ok {A B O} (QA : A -> Prop) (QB : B -> Prop) (opof : token -> option O) (rhs : P B) (mk : A -> O -> B -> A) :
    pok QB rhs -> (forall a o b, QA a -> QB b -> QA (mk a o b)) ->
    forall n acc, QA acc -> pok QA (lloop n opof rhs mk acc).
  Proof.
    intros Hr Hmk. induction n as [|n IH]; intros acc Ha; cbn [lloop]; [apply pok_fuel|].
    eapply pok_bind; [apply pok_any|]. intros o _. destruct o as [t|]; [|apply pok_ret; exact Ha].
    destruct (opof (t_tok t)) as [op|]; [|apply pok_ret; exact Ha].
    eapply pok_bind; [apply pok_any|]. intros _ _. eapply pok_bind; [exact Hr|]. intros b Hb. apply IH. apply Hmk; assumption.
  Qed.

  Lemma p_expr_list_ok : forall n ending acc, Forall R acc -> pok (Forall R) (p_expr_list rec_expr n ending acc).
  Proof.
    induction n as [|n IH]; intros ending acc Ha; cbn [p_expr_list]; [apply pok_fuel|].
    eapply pok_bind; [apply pok_any|]. intros o _. destruct (is_tok o ending); [apply pok_ret; apply Forall_rev; exact Ha|].
    eapply pok_bind; [exact Hrec|]. intros e He. eapply pok_bind; [apply pok_any|]. intros o2 _.
    destruct (is_tok o2 TComma).
    - eapply pok_bind; [apply pok_any|]. intros _ _. apply IH. constructor; assumption.
    - apply pok_ret. apply Forall_rev. constructor; assumption.
  Qed.

  Definition tp_init (i : objinit) : Prop := match i with ObjInit _ k v => R k /\ R v end.

  Lemma p_obj_inits_ok : forall n acc, Forall tp_init acc -> pok (Forall tp_init) (p_obj_inits rec_expr n acc).
  Proof.
    induction n as [|n IH]; intros acc Ha; cbn [p_obj_inits]; [apply pok_fuel|].
    eapply pok_bind; [apply pok_any|]. intros o _. destruct (is_tok o TRBrace); [apply pok_ret; apply Forall_rev; exact Ha|].
    eapply pok_bind; [exact Hrec|]. intros k Hk. eapply pok_bind; [apply pok_any|]. intros c _.
    destruct (negb (is_tok c TColon)); [apply pok_fail_here|].
    eapply pok_bind; [exact Hrec|]. intros v Hv. eapply pok_bind; [apply pok_any|]. intros o2 _.
    destruct (is_tok o2 TComma).
    - eapply pok_bind; [apply pok_any|]. intros _ _. apply IH. constructor; [split; assumption|exact Ha].
    - apply pok_ret. apply Forall_rev. constructor; [split; assumption|exact Ha].
  Qed.

  Lemma p_primary_ok : pok (tp_primary R) (p_primary rec_expr rec_src).
  Proof.
    unfold p_primary. intros t0. revert t0. apply pok_at with (f := fun _ => _). intros _.
    eapply pok_bind; [apply pok_any|]. intros o _.
    destruct o as [[k l]|]; [|apply pok_fail_here].
    destruct k; try apply pok_fail_here; try (apply pok_ret; exact I);
      match goal with
      | |- context [p_expr_list] =>
          apply pok_at with (f := fun t => _); intros t1;
          (eapply pok_bind; [apply p_expr_list_ok; constructor|]); intros es Hes; (eapply pok_bind; [apply pok_any|]); intros c _;
          (destruct c as [[ck cl]|]; [|apply pok_fail_here]); destruct ck; try apply pok_fail_here;
          (eapply pok_bind; [apply pok_any|]); intros _ _; apply pok_ret; exact Hes
      | |- context [p_obj_inits] =>
          apply pok_at with (f := fun t => _); intros t1;
          (eapply pok_bind; [apply p_obj_inits_ok; constructor|]); intros inits Hi; (eapply pok_bind; [apply pok_any|]); intros c _;
          (destruct c as [[ck cl]|]; [|apply pok_fail_here]); destruct ck; try apply pok_fail_here;
          (eapply pok_bind; [apply pok_any|]); intros _ _; apply pok_ret; exact Hi
      | |- context [check_segments] => (eapply pok_bind; [apply pok_any|]); intros _ _; apply pok_ret; exact I
      | |- context [i64_max] => destruct (_ <=? i64_max); [apply pok_ret; exact I|apply pok_fail_at]
      | _ => (eapply pok_bind; [exact Hrec|]); intros e He; (eapply pok_bind; [apply pok_any|]); intros c _;
             (destruct c as [[ck cl]|]; [|apply pok_fail_at]); destruct ck; try apply pok_fail_at; apply pok_ret; exact He
      end.
  Qed.

  Lemma p_member_primes_ok : forall n acc, Forall (tp_mprime R) acc -> pok (Forall (tp_mprime R)) (p_member_primes rec_expr n acc).
  Proof.
    induction n as [|n IH]; intros acc Ha; cbn [p_member_primes]; [apply pok_fuel|].
    eapply pok_bind; [apply pok_any|]. intros o _.
    destruct o as [[k l]|]; [|apply pok_ret; apply Forall_rev; exact Ha].
    destruct k; try (apply pok_ret; apply Forall_rev; exact Ha).
    - (* . *) eapply pok_bind; [apply pok_any|]. intros _ _. eapply pok_bind; [apply pok_any|]. intros i _.
      destruct i as [[ik il]|]; [|apply pok_fail_here]. destruct ik; try apply pok_fail_here.
      apply IH. constructor; [exact I|exact Ha].
    - (* [ *) eapply pok_bind; [apply pok_any|]. intros _ _. eapply pok_bind; [exact Hrec|]. intros e He.
      eapply pok_bind; [apply pok_any|]. intros c _. destruct c as [[ck cl]|]; [|apply pok_fail_here]. destruct ck; try apply pok_fail_here.
      apply IH. constructor; [exact He|exact Ha].
    - (* ( *) eapply pok_bind; [apply pok_any|]. intros _ _. apply pok_at with (f := fun t => _). intros t1.
      eapply pok_bind; [apply p_expr_list_ok; constructor|]. intros args Hargs.
      eapply pok_bind; [apply pok_any|]. intros c _. destruct c as [[ck cl]|]; [|apply pok_fail_here]. destruct ck; try apply pok_fail_here.
      apply IH. constructor; [cbn; apply Forall_rev; exact Hargs|exact Ha].
  Qed.

  Lemma p_member_ok : pok (tp_member R) (p_member rec_expr rec_src).
  Proof.
    unfold p_member. eapply pok_bind; [apply p_primary_ok|]. intros p Hp. apply pok_at with (f := fun t => _). intros t1.
    eapply pok_bind; [apply p_member_primes_ok; constructor|]. intros ms Hms. apply pok_ret. split; assumption.
  Qed.

  Lemma p_unary_ok : pok (tp_unary R) (p_unary rec_expr rec_src).
  Proof.
    unfold p_unary. eapply pok_bind; [apply pok_any|]. intros o _.
    destruct (tok_of o) as [k|]; [|eapply pok_bind; [apply p_member_ok|]; intros m Hm; apply pok_ret; exact Hm].
    destruct k; try (eapply pok_bind; [apply p_member_ok|]; intros m Hm; apply pok_ret; exact Hm);
      (apply pok_at with (f := fun t => _); intros t1; eapply pok_bind; [apply pok_any|]; intros ops _;
       eapply pok_bind; [apply p_member_ok|]; intros m Hm; apply pok_ret; exact Hm).
  Qed.

  Lemma p_mult_ok : pok (tp_mult R) (p_mult rec_expr rec_src).
  Proof.
    unfold p_mult. eapply pok_bind; [apply p_unary_ok|]. intros u Hu. apply pok_at with (f := fun t => _). intros t1.
    eapply (lloop_ok (tp_mult R) (tp_unary R)); [apply p_unary_ok| |exact Hu]. intros a o b Ha Hb. split; assumption.
  Qed.
  Lemma p_addn_ok : pok (tp_addn R) (p_addn rec_expr rec_src).
  Proof.
    unfold p_addn. eapply pok_bind; [apply p_mult_ok|]. intros u Hu. apply pok_at with (f := fun t => _). intros t1.
    eapply (lloop_ok (tp_addn R) (tp_mult R)); [apply p_mult_ok| |exact Hu]. intros a o b Ha Hb. split; assumption.
  Qed.
  Lemma p_rel_ok : pok (tp_rel R) (p_rel rec_expr rec_src).
  Proof.
    unfold p_rel. eapply pok_bind; [apply p_addn_ok|]. intros u Hu. apply pok_at with (f := fun t => _). intros t1.
    eapply (lloop_ok (tp_rel R) (tp_addn R)); [apply p_addn_ok| |exact Hu]. intros a o b Ha Hb. split; assumption.
  Qed.
  Lemma p_cand_ok : pok (tp_cand R) (p_cand rec_expr rec_src).
  Proof.
    unfold p_cand. eapply pok_bind; [apply p_rel_ok|]. intros u Hu. apply pok_at with (f := fun t => _). intros t1.
    eapply (lloop_ok (tp_cand R) (tp_rel R)); [apply p_rel_ok| |exact Hu]. intros a o b Ha Hb. split; assumption.
  Qed.
  Lemma p_cor_ok : pok (tp_cor R) (p_cor rec_expr rec_src).
  Proof.
    unfold p_cor. eapply pok_bind; [apply p_cand_ok|]. intros u Hu. apply pok_at with (f := fun t => _). intros t1.
    eapply (lloop_ok (tp_cor R) (tp_cand R)); [apply p_cand_ok| |exact Hu]. intros a o b Ha Hb. split; assumption.
  Qed.

  Lemma p_pattern_ok : pok (tp_pattern R) (p_pattern rec_expr rec_src).
  Proof.
    unfold p_pattern. eapply pok_bind; [apply pok_any|]. intros start _. eapply pok_bind; [apply pok_any|]. intros o _.
    assert (Cmp : pok (tp_pattern R)
                    (let! o0 := peek in
                     let! op := match o0 with
                                | Some t => match cmpop_of (t_tok t) with Some c => let! _ := next in pret c | None => pret CEq end
                                | None => pret CEq
                                end in
                     let! ope := here in let! c := p_cor rec_expr rec_src in let! e := here in
                     pret (MPatCmp (mkRange start e) (mkRange start ope) op c))).
    { eapply pok_bind; [apply pok_any|]. intros o0 _. eapply pok_bind; [apply pok_any|]. intros op _.
      eapply pok_bind; [apply pok_any|]. intros ope _. eapply pok_bind; [apply p_cor_ok|]. intros c Hc.
      eapply pok_bind; [apply pok_any|]. intros e _. apply pok_ret. exact Hc. }
    destruct o as [[k l]|]; [|exact Cmp]. destruct k; try exact Cmp.
    match goal with |- context [is_type_name ?i] => rename i into idn end.
    destruct (bytes_eqb idn _).
    - eapply pok_bind; [apply pok_any|]. intros _ _. eapply pok_bind; [apply pok_any|]. intros e _. apply pok_ret. exact I.
    - destruct (is_type_name idn) eqn:Ht; [|exact Cmp]. destruct (mtype_of idn); [|exact Cmp].
      eapply pok_bind; [apply pok_any|]. intros _ _. eapply pok_bind; [apply pok_any|]. intros e _. apply pok_ret.
      cbn [tp_pattern]. apply type_name_ascii. exact Ht.
  Qed.

  Lemma p_cases_ok : forall n comma rng acc, Forall (tp_case R) acc ->
    pok (fun rc => Forall (tp_case R) (snd rc)) (p_cases rec_expr rec_src n comma rng acc).
  Proof.
    induction n as [|n IH]; intros comma rng acc Ha; cbn [p_cases]; [apply pok_fuel|].
    eapply pok_bind; [apply pok_any|]. intros rb _.
    assert (Go : pok (fun rc : range * list mcase => Forall (tp_case R) (snd rc))
                   (if negb comma then fail_here
                    else let! ct := next in
                         if negb (is_tok ct TCase) then fail_here
                         else let! pat := p_pattern rec_expr rec_src in
                              let! col := next in
                              if negb (is_tok col TColon) then fail_here
                              else let! e := rec_expr in
                                   let c := MCase (surrounding (mpat_range pat) (expr_range e)) pat e in
                                   let! cm := peek in
                                   if is_tok cm TComma then let! _ := next in p_cases rec_expr rec_src n true rng (c :: acc)
                                   else p_cases rec_expr rec_src n false rng (c :: acc))).
    { destruct (negb comma); [apply pok_fail_here|]. eapply pok_bind; [apply pok_any|]. intros ct _.
      destruct (negb (is_tok ct TCase)); [apply pok_fail_here|]. eapply pok_bind; [apply p_pattern_ok|]. intros pat Hp.
      eapply pok_bind; [apply pok_any|]. intros col _. destruct (negb (is_tok col TColon)); [apply pok_fail_here|].
      eapply pok_bind; [exact Hrec|]. intros e He. eapply pok_bind; [apply pok_any|]. intros cm _.
      destruct (is_tok cm TComma); [eapply pok_bind; [apply pok_any|]; intros _ _|]; apply IH; (constructor; [split; assumption|exact Ha]). }
    destruct rb as [[k l]|]; [|exact Go]. destruct k; try exact Go.
    apply pok_ret. cbn [snd]. apply Forall_rev. exact Ha.
  Qed.

  Lemma p_expr_body_ok : pok (tp_expr_body R) (p_expr_body rec_expr rec_src).
  Proof.
    unfold p_expr_body. eapply pok_bind; [apply pok_any|]. intros o _.
    assert (Plain : pok (tp_expr_body R)
                      (let! l := p_cor rec_expr rec_src in
                       let! q := peek in
                       if is_tok q TQuestion then
                         let! _ := next in let! tc := p_cor rec_expr rec_src in let! col := next in
                         if negb (is_tok col TColon) then fail_here
                         else let! fc := rec_expr in pret (ETernary (surrounding (cor_range l) (expr_range fc)) l tc fc)
                       else pret (EUnary (cor_range l) l))).
    { eapply pok_bind; [apply p_cor_ok|]. intros l Hl. eapply pok_bind; [apply pok_any|]. intros q _.
      destruct (is_tok q TQuestion); [|apply pok_ret; exact Hl].
      eapply pok_bind; [apply pok_any|]. intros _ _. eapply pok_bind; [apply p_cor_ok|]. intros tc Htc.
      eapply pok_bind; [apply pok_any|]. intros col _. destruct (negb (is_tok col TColon)); [apply pok_fail_here|].
      eapply pok_bind; [exact Hrec|]. intros fc Hfc. apply pok_ret. repeat split; assumption. }
    destruct o as [[k l]|]; [|exact Plain]. destruct k; try exact Plain.
    eapply pok_bind; [apply pok_any|]. intros _ _. eapply pok_bind; [exact Hrec|]. intros c Hc.
    eapply pok_bind; [apply pok_any|]. intros lb _. destruct (negb (is_tok lb TLBrace)); [apply pok_fail_here|].
    apply pok_at with (f := fun t => _). intros t1. eapply pok_bind; [apply p_cases_ok; constructor|]. intros rc Hrc.
    eapply pok_bind; [apply pok_any|]. intros _ _. apply pok_ret. split; assumption.
  Qed.
End Levels.

(** Every tree the parser returns: a type pattern carries the name of a built-in type, at every depth. *)
Theorem parser_type_patterns : forall fuel depth t e t', p_expr_at fuel depth t = POk e t' -> tp fuel e.
Proof.
  induction fuel as [|f IH]; intros depth t e t' H; [exact I|]. cbn [p_expr_at] in H.
  destruct (32 <=? depth); [discriminate H|]. cbn [tp].
  eapply (p_expr_body_ok (p_expr_at f (depth + 1)) _ (tp f)); [|exact H]. intros t0 e0 t0' H0. eapply IH; eauto.
Qed.
