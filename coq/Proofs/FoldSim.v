(* Proofs/FoldSim.v — C09: what the compiler computes while folding is what the VM computes when it runs.
   The compiler evaluates a sub-expression on an interpreter that has no clock, no variables, no stored
   programs and no caller-bound functions, and freezes the value only if that evaluation never asked for
   such a run-time input (the mark in the log).  Simulation: an evaluation under such an environment Ef
   that ends without a mark is reproduced, outcome for outcome, under every environment E that extends
   Ef - more variables, more programs, a clock, has / coalesce, caller-bound functions under names that
   do not replace a built-in - whatever the log was before.  The whole interpreter, every nested run,
   every macro and every built-in are covered. *)
From Coq Require Import ZArith List Bool Lia.
From Rscel Require Import Base.Prims Base.F64 Base.Text Model.Strings Model.Time Model.Value Model.Ops Model.Dispatch Model.Funcs Model.Interp
     Model.Lexer Model.Ast Model.Parser Model.Compile Proofs.OpsColl Proofs.OpsOrder Proofs.Fold.
Import ListNotations.
Import Coq.Strings.String.StringSyntax.
Open Scope Z_scope.

(** [m] (folding) is reproduced by [m'] (running) whenever it ends unmarked; marks are never removed;
    what [m] returns satisfies [P] *)
Definition fsim {A} (P : A -> Prop) (m m' : M A) : Prop :=
  forall lg r lg1, m lg = (r, lg1) ->
    (forall a, r = ROk a -> P a) /\
    (runtime_requested lg = true -> runtime_requested lg1 = true) /\
    (runtime_requested lg1 = false -> forall lg2, exists lg2', m' lg2 = (r, lg2')).

Definition anyv {A} : A -> Prop := fun _ => True.

Lemma marked_cons lg : runtime_requested (runtime_mark :: lg) = true.
Proof. reflexivity. Qed.

Lemma fsim_ret {A} (P : A -> Prop) a : P a -> fsim P (mret a) (mret a).
Proof.
  intros H lg r lg1 E. injection E as <- <-. split; [intros a0 E0; injection E0 as <-; exact H|].
  split; [auto|]. intros _ lg2. exists lg2. reflexivity.
Qed.
Lemma fsim_fail {A} (P : A -> Prop) e : fsim P (mfail e) (mfail e).
Proof.
  intros lg r lg1 E. injection E as <- <-. split; [intros a0 E0; discriminate|]. split; [auto|]. intros _ lg2. exists lg2. reflexivity.
Qed.
Lemma fsim_mark {A} (P : A -> Prop) e (m' : M A) : fsim P (mfail_runtime e) m'.
Proof.
  intros lg r lg1 E. injection E as <- <-. split; [intros a0 E0; discriminate|]. split; [intros _; reflexivity|]. rewrite marked_cons. discriminate.
Qed.
Lemma fsim_lift {A} (P : A -> Prop) r : (forall a, r = ROk a -> P a) -> fsim P (mlift r) (mlift r).
Proof.
  intros H lg r0 lg1 E. injection E as <- <-. split; [exact H|]. split; [auto|]. intros _ lg2. exists lg2. reflexivity.
Qed.
Lemma fsim_bind {A B} (P : A -> Prop) (Q : B -> Prop) m m' f f' :
  fsim P m m' -> (forall a, P a -> fsim Q (f a) (f' a)) -> fsim Q (mbind m f) (mbind m' f').
Proof.
  intros Hm Hf lg r lg1 E. unfold mbind in E. destruct (m lg) as [ra lga] eqn:Em.
  destruct (Hm lg ra lga Em) as (Pa & Mono & Sim).
  destruct ra as [a|e| | |].
  - destruct (Hf a (Pa a eq_refl) lga r lg1 E) as (Qb & Mono2 & Sim2). split; [exact Qb|]. split; [auto|].
    intros Hn lg2. assert (Ha : runtime_requested lga = false).
    { destruct (runtime_requested lga); [|reflexivity]. rewrite Mono2 in Hn by reflexivity. discriminate. }
    destruct (Sim Ha lg2) as [lg2a E2]. destruct (Sim2 Hn lg2a) as [lg2' E3]. exists lg2'. unfold mbind. rewrite E2. exact E3.
  - injection E as <- <-. split; [intros; discriminate|]. split; [exact Mono|]. intros Hn lg2. destruct (Sim Hn lg2) as [lg2' E2].
    exists lg2'. unfold mbind. rewrite E2. reflexivity.
  - injection E as <- <-. split; [intros; discriminate|]. split; [exact Mono|]. intros Hn lg2. destruct (Sim Hn lg2) as [lg2' E2].
    exists lg2'. unfold mbind. rewrite E2. reflexivity.
  - injection E as <- <-. split; [intros; discriminate|]. split; [exact Mono|]. intros Hn lg2. destruct (Sim Hn lg2) as [lg2' E2].
    exists lg2'. unfold mbind. rewrite E2. reflexivity.
  - injection E as <- <-. split; [intros; discriminate|]. split; [exact Mono|]. intros Hn lg2. destruct (Sim Hn lg2) as [lg2' E2].
    exists lg2'. unfold mbind. rewrite E2. reflexivity.
Qed.
Lemma fsim_weaken {A} (P Q : A -> Prop) m m' : fsim P m m' -> (forall a, P a -> Q a) -> fsim Q m m'.
Proof. intros H HPQ lg r lg1 E. destruct (H lg r lg1 E) as (Pa & Mono & Sim). split; [intros a Ea; apply HPQ; auto|]. split; assumption. Qed.
Lemma fsim_bind_ret {A B} (Q : B -> Prop) (a : A) (f f' : A -> M B) : fsim Q (f a) (f' a) -> fsim Q (mbind (mret a) f) (mbind (mret a) f').
Proof. intros H. exact H. Qed.

(** a computation whose outcome is a function of another one's outcome, the log untouched *)
Lemma fsim_post {A B} (m m' : M A) (g : res A -> res B) (n n' : M B) :
  fsim anyv m m' ->
  (forall lg, n lg = (g (fst (m lg)), snd (m lg))) -> (forall lg, n' lg = (g (fst (m' lg)), snd (m' lg))) ->
  fsim anyv n n'.
Proof.
  intros Hm Hn Hn' lg r lg1 E. rewrite Hn in E. destruct (m lg) as [ra lga] eqn:Em. cbn [fst snd] in E. injection E as <- <-.
  destruct (Hm lg ra lga Em) as (_ & Mono & Sim). split; [intros; exact Logic.I|]. split; [exact Mono|].
  intros Hu lg2. destruct (Sim Hu lg2) as [lg2' E2]. exists lg2'. rewrite Hn', E2. reflexivity.
Qed.

(** the clock: asked for while folding = a mark; not asked for = the same answer with any clock *)
Lemma fsim_note_clock {A} (P : A -> Prop) Ef E asked (k k' : M A) :
  folding Ef = true ->
  (forall lg, snd (k lg) = lg) ->
  (forall a lg lg', k lg = (ROk a, lg') -> P a) ->
  (asked = false -> fsim P k k') ->
  fsim P (do _ <- note_clock Ef asked; k) (do _ <- note_clock E asked; k').
Proof.
  intros Hf Hk HP Hs lg r lg1 E0. unfold mbind, note_clock in E0. rewrite Hf in E0. cbn [andb] in E0. destruct asked.
  - pose proof (Hk (runtime_mark :: lg)) as K. rewrite E0 in K. cbn [snd] in K. subst lg1.
    split; [intros a Ea; subst r; eapply HP; exact E0|]. split; [intros _; reflexivity|]. rewrite marked_cons. discriminate.
  - destruct (Hs eq_refl lg r lg1 E0) as (Pa & Mono & Sim). split; [exact Pa|]. split; [exact Mono|].
    intros Hu lg2. destruct (Sim Hu lg2) as [lg2' E2]. exists lg2'. unfold mbind, note_clock. rewrite andb_false_r. exact E2.
Qed.

(** E extends the folding environment Ef *)
Record frel (Ef E : env) : Prop := mkFrel {
  fr_bound : e_bound Ef = e_bound E;
  fr_fold : e_now Ef = None;
  fr_nouf : e_ufuncs Ef = [];
  fr_uf : forall n u, assoc n (e_ufuncs E) = Some u ->
            is_default_func n = false /\ mem_bytes n compile_macros = false /\ mem_bytes n runtime_macros = false /\ get_type n = None;
  fr_runtime : e_runtime Ef = true -> e_runtime E = true;
  fr_sorted : smap (e_params Ef) /\ smap (e_params E);
  fr_params : forall n v, map_get (e_params Ef) n = Some v -> map_get (e_params E) n = Some v;
  fr_noprogs : e_progs Ef = []
}.

Lemma frel_empty : frel empty_env empty_env.
Proof. constructor; cbn; auto; try discriminate. Qed.

Lemma frel_bind Ef E k v : frel Ef E -> frel (bind_param Ef k v) (bind_param E k v).
Proof.
  intros [A1 A2 A3 A4 A5 [A6 A6'] A7 A8].
  constructor; cbn [bind_param e_bound e_params e_progs e_ufuncs e_runtime e_now]; auto.
  - split; apply map_insert_sorted; assumption.
  - intros n v0. rewrite !map_get_insert by assumption. destruct (bytes_eqb n k); auto.
Qed.

Lemma frel_folding Ef E : frel Ef E -> folding Ef = true.
Proof. intros A. unfold folding. rewrite (fr_fold _ _ A). reflexivity. Qed.
Lemma frel_type Ef E n : frel Ef E -> env_type Ef n = env_type E n.
Proof. intros A. unfold env_type. rewrite (fr_bound _ _ A). reflexivity. Qed.
Lemma frel_has_func_f Ef E n : frel Ef E -> has_func Ef n = e_bound E && is_default_func n.
Proof. intros A. unfold has_func. rewrite (fr_nouf _ _ A), (fr_bound _ _ A). reflexivity. Qed.
Lemma frel_has_func_up Ef E n : frel Ef E -> has_func Ef n = true -> has_func E n = true.
Proof.
  intros A. rewrite (frel_has_func_f Ef E n A). unfold has_func. destruct (e_bound E); [|discriminate]. cbn [andb].
  intros ->. apply orb_true_r.
Qed.
(** a name that only E can call is a caller-bound function *)
Lemma frel_has_func_new Ef E n : frel Ef E -> has_func Ef n = false -> has_func E n = true ->
  mem_bytes n compile_macros = false /\ mem_bytes n runtime_macros = false /\ get_type n = None.
Proof.
  intros A. rewrite (frel_has_func_f Ef E n A). unfold has_func. destruct (e_bound E); [|discriminate]. cbn [andb].
  intros ->. rewrite orb_false_r. destruct (assoc n (e_ufuncs E)) as [u|] eqn:U; [|discriminate]. intros _.
  destruct (fr_uf _ _ A n u U) as (_ & B & C & D). auto.
Qed.
Lemma frel_has_macro_up Ef E n : frel Ef E -> has_macro Ef n = true -> has_macro E n = true.
Proof.
  intros A. unfold has_macro. rewrite (fr_bound _ _ A). destruct (e_bound E); [|discriminate]. cbn [andb].
  destruct (mem_bytes n compile_macros); [reflexivity|]. cbn [orb]. destruct (e_runtime Ef) eqn:R; [|discriminate].
  rewrite (fr_runtime _ _ A R). auto.
Qed.
Lemma frel_has_macro_new Ef E n : frel Ef E -> has_macro Ef n = false -> has_macro E n = true ->
  mem_bytes n runtime_macros = true.
Proof.
  intros A. unfold has_macro. rewrite (fr_bound _ _ A). destruct (e_bound E); [|discriminate]. cbn [andb].
  destruct (mem_bytes n compile_macros); [discriminate|]. cbn [orb]. intros _ H. apply andb_prop in H. apply H.
Qed.
Lemma runtime_macro_no_type n : mem_bytes n runtime_macros = true -> get_type n = None.
Proof.
  unfold runtime_macros, mem_bytes. cbn [existsb]. intros H. apply orb_prop in H. destruct H as [H|H].
  - apply bytes_eqb_eq in H. subst. reflexivity.
  - apply orb_prop in H. destruct H as [H|H]; [|discriminate]. apply bytes_eqb_eq in H. subst. reflexivity.
Qed.

Section Sim.
  Variable rs : runner.
  Hypothesis Hrs : forall Ef E c r d, frel Ef E -> (r = true \/ e_bound E = false) -> fsim anyv (rs Ef c r d) (rs E c r d).

  Variables Ef E : env.
  Hypothesis HA : frel Ef E.
  Variable d : nat.

  (** a method call that was resolved while folding names a built-in *)
  Definition sbok (x : sval) : Prop := match x with SBound false n _ => is_default_func n = true | _ => True end.
  Definition stok (st : stack) : Prop := Forall sbok st.
  Definition okp {A} (P : A -> Prop) (p : A * stack) : Prop := P (fst p) /\ stok (snd p).

  Lemma sim_resolve_ident n : fsim anyv (resolve_ident rs Ef d n) (resolve_ident rs E d n).
  Proof.
    unfold resolve_ident. rewrite <- (frel_type Ef E n HA).
    destruct (env_type Ef n) as [t|]; [apply fsim_ret; exact Logic.I|].
    rewrite (fr_noprogs _ _ HA), (fr_fold _ _ HA). cbn [assoc].
    unfold env_param. rewrite <- (fr_bound _ _ HA). destruct (e_bound Ef); [|apply fsim_mark].
    destruct (map_get (e_params Ef) n) as [v|] eqn:P; [|apply fsim_mark].
    rewrite (fr_params _ _ HA n v P). apply fsim_ret. exact Logic.I.
  Qed.

  Lemma sim_pop st : stok st -> fsim (okp sbok) (pop rs Ef d st) (pop rs E d st).
  Proof.
    intros H. unfold pop. destruct st as [|x st']; [apply fsim_fail|]. inversion H as [|? ? Hx Hst]; subst.
    destruct x as [v|b n o]; [|apply fsim_ret; split; assumption].
    destruct v; try (apply fsim_ret; split; assumption).
    eapply fsim_bind; [apply sim_resolve_ident|]. intros v _. apply fsim_ret. split; [exact Logic.I|assumption].
  Qed.

  Lemma sim_into_value x : fsim anyv (into_value x) (into_value x).
  Proof. destruct x; [apply fsim_ret; exact Logic.I|apply fsim_fail]. Qed.

  Lemma sim_pop_val st : stok st -> fsim (okp anyv) (pop_val rs Ef d st) (pop_val rs E d st).
  Proof.
    intros H. unfold pop_val. eapply fsim_bind; [apply sim_pop; exact H|]. intros [x st'] [Hx Hst]. cbn [fst snd] in *.
    eapply fsim_bind; [apply sim_into_value|]. intros v _. apply fsim_ret. split; [exact Logic.I|assumption].
  Qed.

  Lemma sim_pop_n n : forall st, stok st -> fsim (okp anyv) (pop_n rs Ef d n st) (pop_n rs E d n st).
  Proof.
    induction n as [|n IH]; intros st H; cbn [pop_n]; [apply fsim_ret; split; [exact Logic.I|exact H]|].
    eapply fsim_bind; [apply sim_pop_val; exact H|]. intros [v st1] [_ H1]. cbn [fst snd] in *.
    eapply fsim_bind; [apply IH; exact H1|]. intros [vs st2] [_ H2]. cbn [fst snd] in *.
    apply fsim_ret. split; [exact Logic.I|exact H2].
  Qed.

  Lemma sim_resolve_args args : fsim anyv (resolve_args rs Ef d args) (resolve_args rs E d args).
  Proof.
    induction args as [|a r IH]; cbn [resolve_args]; [apply fsim_ret; exact Logic.I|].
    destruct a; try (eapply fsim_bind; [exact IH|]; intros vs _; apply fsim_ret; exact Logic.I).
    eapply fsim_bind; [apply Hrs; [exact HA|left; reflexivity]|]. intros v _.
    eapply fsim_bind; [exact IH|]. intros vs _. apply fsim_ret. exact Logic.I.
  Qed.

  Lemma sim_call_func name this args : is_default_func name = true ->
    fsim anyv (call_func Ef name this args) (call_func E name this args).
  Proof.
    intros Hd. unfold call_func. rewrite (fr_nouf _ _ HA). cbn [assoc].
    destruct (assoc name (e_ufuncs E)) as [u|] eqn:U.
    { destruct (fr_uf _ _ HA name u U) as (B & _). rewrite B in Hd. discriminate. }
    apply fsim_note_clock; [exact (frel_folding Ef E HA)| | |].
    - intros lg. destruct (call_default (e_now Ef) name this args); reflexivity.
    - intros; exact Logic.I.
    - intros Hask. rewrite (fr_fold _ _ HA).
      rewrite (proj1 (unasked_calls_ignore_the_clock None (e_now E) name this args name) Hask).
      destruct (call_default (e_now E) name this args) as [r|]; [apply fsim_lift; intros; exact Logic.I|apply fsim_fail].
  Qed.

  Lemma frel_ident : frel (ident_env Ef) (ident_env E).
  Proof. constructor; cbn; auto; try discriminate. exact (fr_fold _ _ HA). Qed.

  Lemma sim_eval_ident c : fsim anyv (eval_ident rs Ef c) (eval_ident rs E c).
  Proof.
    apply (fsim_post (rs (ident_env Ef) c false O) (rs (ident_env E) c false O)
             (fun r => match r with ROk (VIdent s) => ROk (inr s) | ROk _ => ROk (inl (VErr EMisc)) | RErr e => ROk (inl (VErr e)) | r => mcast r end)).
    - apply Hrs; [exact frel_ident|right; reflexivity].
    - intros lg. unfold eval_ident. destruct (rs (ident_env Ef) c false O lg) as [[v|e| | |] lg']; try reflexivity. destruct v; reflexivity.
    - intros lg. unfold eval_ident. destruct (rs (ident_env E) c false O lg) as [[v|e| | |] lg']; try reflexivity. destruct v; reflexivity.
  Qed.

  Lemma sim_run_body E1 E1' c : frel E1 E1' -> fsim anyv (run_body rs d E1 c) (run_body rs d E1' c).
  Proof.
    intros A.
    apply (fsim_post (rs E1 c true d) (rs E1' c true d)
             (fun r => match r with ROk v => ROk (inr v) | RErr e => ROk (inl (VErr e)) | r => mcast r end)).
    - apply Hrs; [exact A|left; reflexivity].
    - intros lg. unfold run_body. destruct (rs E1 c true d lg) as [[v|e| | |] lg']; reflexivity.
    - intros lg. unfold run_body. destruct (rs E1' c true d lg) as [[v|e| | |] lg']; reflexivity.
  Qed.

  Lemma sim_with_ident c k k' : (forall x, fsim anyv (k x) (k' x)) -> fsim anyv (with_ident rs Ef c k) (with_ident rs E c k').
  Proof.
    intros Hk. unfold with_ident. eapply fsim_bind; [apply sim_eval_ident|]. intros [e|x] _; [apply fsim_ret; exact Logic.I|apply Hk].
  Qed.

  Ltac body_step := eapply fsim_bind; [apply sim_run_body; apply frel_bind; exact HA|]; intros [?e|?b] _; [apply fsim_ret; exact Logic.I|].

  Lemma sim_all_loop x body l : fsim anyv (all_loop rs Ef d x body l) (all_loop rs E d x body l).
  Proof.
    induction l as [|v l IH]; cbn [all_loop]; [apply fsim_ret; exact Logic.I|]. body_step.
    destruct (is_truthy b); [exact IH|apply fsim_ret; exact Logic.I].
  Qed.
  Lemma sim_exists_loop x body l : fsim anyv (exists_loop rs Ef d x body l) (exists_loop rs E d x body l).
  Proof.
    induction l as [|v l IH]; cbn [exists_loop]; [apply fsim_ret; exact Logic.I|]. body_step.
    destruct (is_truthy b); [apply fsim_ret; exact Logic.I|exact IH].
  Qed.
  Lemma sim_exists_one_loop x body l : forall count,
    fsim anyv (exists_one_loop rs Ef d x body l count) (exists_one_loop rs E d x body l count).
  Proof.
    induction l as [|v l IH]; intros count; cbn [exists_one_loop]; [apply fsim_ret; exact Logic.I|]. body_step.
    destruct (is_truthy b); [destruct (1 <? count + 1); [apply fsim_ret; exact Logic.I|apply IH]|apply IH].
  Qed.
  Lemma sim_filter_loop x body l : forall acc,
    fsim anyv (filter_loop rs Ef d x body l acc) (filter_loop rs E d x body l acc).
  Proof.
    induction l as [|v l IH]; intros acc; cbn [filter_loop]; [apply fsim_ret; exact Logic.I|]. body_step. apply IH.
  Qed.
  Lemma sim_map_loop x pred f l : forall acc,
    fsim anyv (map_loop rs Ef d x pred f l acc) (map_loop rs E d x pred f l acc).
  Proof.
    induction l as [|v l IH]; intros acc; cbn [map_loop]; [apply fsim_ret; exact Logic.I|].
    destruct pred as [p|].
    - body_step. destruct (is_truthy b); [|apply IH]. body_step. apply IH.
    - body_step. apply IH.
  Qed.
  Lemma sim_reduce_loop cur next body l : forall acc,
    fsim anyv (reduce_loop rs Ef d cur next body l acc) (reduce_loop rs E d cur next body l acc).
  Proof.
    induction l as [|v l IH]; intros acc; cbn [reduce_loop]; [apply fsim_ret; exact Logic.I|].
    eapply fsim_bind; [apply sim_run_body; apply frel_bind; apply frel_bind; exact HA|].
    intros [e|a] _; [apply fsim_ret; exact Logic.I|]. destruct (nested_too_deep a); [apply fsim_ret; exact Logic.I|apply IH].
  Qed.

  Lemma sim_coalesce_loop args : fsim anyv (coalesce_loop rs Ef d args) (coalesce_loop rs E d args).
  Proof.
    induction args as [|c r IH]; cbn [coalesce_loop]; [apply fsim_ret; exact Logic.I|].
    (* one argument, then either an answer or the rest *)
    set (g := fun x : res value => match x with
                | ROk VNull => None | ROk v => Some (ROk v)
                | RErr (EBinding _) | RErr (EAttribute _) => None
                | RErr e => Some (ROk (VErr e)) | x => Some (mcast x) end).
    assert (Shape : forall E0 lg, (fun lg => match rs E0 c true d lg with
                | (ROk VNull, lg') => coalesce_loop rs E0 d r lg'
                | (ROk v, lg') => (ROk v, lg')
                | (RErr (EBinding _), lg') | (RErr (EAttribute _), lg') => coalesce_loop rs E0 d r lg'
                | (RErr e, lg') => (ROk (VErr e), lg')
                | (x, lg') => (mcast x, lg') end) lg =
              match g (fst (rs E0 c true d lg)) with Some y => (y, snd (rs E0 c true d lg)) | None => coalesce_loop rs E0 d r (snd (rs E0 c true d lg)) end).
    { intros E0 lg. destruct (rs E0 c true d lg) as [[v|e| | |] lg']; cbn [fst snd]; try reflexivity; [destruct v|destruct e]; reflexivity. }
    intros lg r0 lg1 E0. rewrite Shape in E0. destruct (rs Ef c true d lg) as [ra lga] eqn:Em. cbn [fst snd] in E0.
    destruct (Hrs Ef E c true d HA (or_introl eq_refl) lg ra lga Em) as (_ & Mono & Sim).
    destruct (g ra) as [y|] eqn:G.
    - injection E0 as <- <-. split; [intros; exact Logic.I|]. split; [exact Mono|]. intros Hu lg2. destruct (Sim Hu lg2) as [lg2' E2].
      exists lg2'. rewrite Shape, E2. cbn [fst snd]. rewrite G. reflexivity.
    - destruct (IH lga r0 lg1 E0) as (_ & Mono2 & Sim2). split; [intros; exact Logic.I|]. split; [auto|]. intros Hu lg2.
      assert (Ha : runtime_requested lga = false).
      { destruct (runtime_requested lga); [|reflexivity]. rewrite Mono2 in Hu by reflexivity. discriminate. }
      destruct (Sim Ha lg2) as [lg2a E2]. destruct (Sim2 Hu lg2a) as [lg2' E3]. exists lg2'. rewrite Shape, E2. cbn [fst snd]. rewrite G. exact E3.
  Qed.

  Lemma sim_call_macro_impl name this args :
    fsim anyv (call_macro_impl rs Ef d name this args) (call_macro_impl rs E d name this args).
  Proof.
    unfold call_macro_impl.
    destruct (bytes_eqb name _).
    { destruct args as [|c [|c2 r]]; try (apply fsim_ret; exact Logic.I).
      apply (fsim_post (rs Ef c true d) (rs E c true d)
               (fun x => match x with ROk _ => ROk (VBool true) | RErr (EBinding _) | RErr (EAttribute _) => ROk (VBool false)
                                  | RErr e => ROk (VErr e) | x => mcast x end)).
      - apply Hrs; [exact HA|left; reflexivity].
      - intros lg. destruct (rs Ef c true d lg) as [[v|e| | |] lg']; try reflexivity. destruct e; reflexivity.
      - intros lg. destruct (rs E c true d lg) as [[v|e| | |] lg']; try reflexivity. destruct e; reflexivity. }
    destruct (bytes_eqb name _); [apply sim_coalesce_loop|].
    destruct (bytes_eqb name _).
    { destruct args as [|a0 [|a1 [|a2 r]]]; try (apply fsim_ret; exact Logic.I).
      apply sim_with_ident. intros x. destruct this; try (apply fsim_ret; exact Logic.I). apply sim_all_loop. }
    destruct (bytes_eqb name _).
    { destruct args as [|a0 [|a1 [|a2 r]]]; try (apply fsim_ret; exact Logic.I).
      apply sim_with_ident. intros x. destruct this; try (apply fsim_ret; exact Logic.I). apply sim_exists_loop. }
    destruct (bytes_eqb name _).
    { destruct args as [|a0 [|a1 [|a2 r]]]; try (apply fsim_ret; exact Logic.I).
      apply sim_with_ident. intros x. destruct this; try (apply fsim_ret; exact Logic.I). apply sim_exists_one_loop. }
    destruct (bytes_eqb name _).
    { destruct args as [|a0 [|a1 [|a2 r]]]; try (apply fsim_ret; exact Logic.I).
      apply sim_with_ident. intros x. destruct this; try (apply fsim_ret; exact Logic.I); apply sim_filter_loop. }
    destruct (bytes_eqb name _).
    { destruct args as [|a0 [|a1 [|a2 [|a3 r]]]]; try (apply fsim_ret; exact Logic.I).
      - apply sim_with_ident. intros x. destruct this; try (apply fsim_ret; exact Logic.I); apply sim_map_loop.
      - apply sim_with_ident. intros x. destruct this; try (apply fsim_ret; exact Logic.I); apply sim_map_loop. }
    destruct (bytes_eqb name _); [|apply fsim_fail].
    destruct args as [|a0 [|a1 [|a2 [|a3 [|a4 r]]]]]; try (apply fsim_ret; exact Logic.I).
    apply sim_with_ident. intros cur. apply sim_with_ident. intros next.
    eapply fsim_bind; [apply sim_run_body; exact HA|]. intros [e|seed] _; [apply fsim_ret; exact Logic.I|].
    destruct this; try (apply fsim_ret; exact Logic.I). apply sim_reduce_loop.
  Qed.

  Lemma sim_call_macro name this args :
    fsim anyv (call_macro rs Ef d name this args) (call_macro rs E d name this args).
  Proof. unfold call_macro. destruct (all_code args) as [cs|]; [apply sim_call_macro_impl|apply fsim_fail]. Qed.

  Definition okj (r : option Z * stack) : Prop := stok (snd r).

  Lemma stok_push v st : stok st -> stok (push v st).
  Proof. intros. constructor; [exact Logic.I|assumption]. Qed.

  Lemma sim_bin f st : stok st -> fsim okj (bin rs Ef d f st) (bin rs E d f st).
  Proof.
    intros H. unfold bin. eapply fsim_bind; [apply sim_pop_val; exact H|]. intros [v2 st1] [_ Hs1]. cbn [fst snd] in *.
    eapply fsim_bind; [apply sim_pop_val; exact Hs1|]. intros [v1 st2] [_ Hs2]. cbn [fst snd] in *.
    apply fsim_ret. apply stok_push. exact Hs2.
  Qed.
  Lemma sim_un f st : stok st -> fsim okj (un rs Ef d f st) (un rs E d f st).
  Proof.
    intros H. unfold un. eapply fsim_bind; [apply sim_pop_val; exact H|]. intros [v1 st1] [_ Hs1]. cbn [fst snd] in *.
    apply fsim_ret. apply stok_push. exact Hs1.
  Qed.

  Lemma sim_step_access st : match st with [] => True | _ :: st0 => stok st0 end ->
    fsim okj (step rs Ef d IAccess st) (step rs E d IAccess st).
  Proof.
    intros H. cbn [step]. unfold pop_noresolve. destruct st as [|idx st1]; [apply fsim_fail|].
    apply fsim_bind_ret.
    destruct idx as [v|b n o]; [|apply fsim_fail].
    destruct v; try (eapply fsim_bind; [apply sim_pop_val; exact H|]; intros [o st2] [_ Hs2]; cbn [fst snd] in *;
                     apply fsim_ret; apply stok_push; exact Hs2).
    eapply fsim_bind; [apply sim_pop_val; exact H|]. intros [obj st2] [_ Hs2]. cbn [fst snd] in *.
    assert (He : okj (None, push (VErr (EAttribute s)) st2)) by (apply stok_push; exact Hs2).
    (* the method / macro / absent-field ladder *)
    assert (Ladder : fsim okj
       (if has_func Ef s then mret (None, SBound false s obj :: st2)
        else if has_macro Ef s then mret (None, SBound true s obj :: st2)
        else if folding Ef then mfail_runtime (EAttribute s) else mret (None, push (VErr (EAttribute s)) st2))
       (if has_func E s then mret (None, SBound false s obj :: st2)
        else if has_macro E s then mret (None, SBound true s obj :: st2)
        else if folding E then mfail_runtime (EAttribute s) else mret (None, push (VErr (EAttribute s)) st2))).
    { destruct (has_func Ef s) eqn:F.
      - rewrite (frel_has_func_up Ef E s HA F). apply fsim_ret. unfold okj. cbn [snd]. constructor; [|exact Hs2].
        cbn [sbok]. rewrite (frel_has_func_f Ef E s HA) in F. apply andb_prop in F. apply F.
      - destruct (has_macro Ef s) eqn:Mc.
        + destruct (has_func E s) eqn:F'.
          { exfalso. destruct (frel_has_func_new Ef E s HA F F') as (B & C & _).
            unfold has_macro in Mc. rewrite B, C in Mc. rewrite andb_false_r in Mc. cbn in Mc. rewrite andb_false_r in Mc. discriminate. }
          rewrite (frel_has_macro_up Ef E s HA Mc). apply fsim_ret. unfold okj. cbn [snd]. constructor; [exact Logic.I|exact Hs2].
        + rewrite (frel_folding Ef E HA). apply fsim_mark. }
    destruct obj; try (rewrite <- (fr_bound _ _ HA); destruct (negb (e_bound Ef)); [apply fsim_fail|exact Ladder]).
    - destruct (map_get m s) as [v|]; [apply fsim_ret; apply stok_push; exact Hs2|exact Ladder].
    - apply fsim_ret. apply stok_push. exact Hs2.
  Qed.

  Lemma sim_ctor tn args st2 : stok st2 ->
    fsim okj (do vals <- resolve_args rs Ef d args; do _ <- note_clock Ef (asks_clock_ty tn vals); do r <- mlift (construct_type (e_now Ef) tn vals); mret (None, push r st2))
             (do vals <- resolve_args rs E d args; do _ <- note_clock E (asks_clock_ty tn vals); do r <- mlift (construct_type (e_now E) tn vals); mret (None, push r st2)).
  Proof.
    intros Hs2. eapply fsim_bind; [apply sim_resolve_args|]. intros vals _.
    apply fsim_note_clock; [exact (frel_folding Ef E HA)| | |].
    - intros lg. unfold mbind, mlift. destruct (construct_type (e_now Ef) tn vals); reflexivity.
    - intros a lg lg' Ea. unfold mbind, mlift in Ea. destruct (construct_type (e_now Ef) tn vals); try discriminate.
      injection Ea as <- _. apply stok_push. exact Hs2.
    - intros Hask. rewrite (fr_fold _ _ HA).
      rewrite (proj2 (unasked_calls_ignore_the_clock None (e_now E) tn VNull vals tn) Hask).
      eapply fsim_bind; [apply fsim_lift; intros; exact Logic.I|]. intros r _. apply fsim_ret. apply stok_push. exact Hs2.
  Qed.

  Lemma sim_step_call n st :
    match st with [] => True | x :: st0 => stok st0 /\ sbok x end ->
    fsim okj (step rs Ef d (ICall n) st) (step rs E d (ICall n) st).
  Proof.
    intros H. cbn [step].
    unfold pop_noresolve. destruct st as [|callee st1]; [apply fsim_fail|]. destruct H as [Hs1 Hc].
    apply fsim_bind_ret.
    eapply fsim_bind; [apply sim_pop_n; exact Hs1|]. intros [args st2] [_ Hs2]. cbn [fst snd] in *.
    assert (Push : forall r, fsim okj (mret (None, push r st2)) (mret (None, push r st2))).
    { intros r. apply fsim_ret. apply stok_push. exact Hs2. }
    destruct callee as [v|[|] name this].
    - destruct v; try (apply Push); try (apply sim_ctor; exact Hs2).
      destruct (has_func Ef s) eqn:F.
      { rewrite (frel_has_func_up Ef E s HA F).
        eapply fsim_bind; [apply sim_resolve_args|]. intros vals _.
        eapply fsim_bind; [apply sim_call_func|intros r _; apply Push].
        rewrite (frel_has_func_f Ef E s HA) in F. apply andb_prop in F. apply F. }
      destruct (has_macro Ef s) eqn:Mc.
      { destruct (has_func E s) eqn:F'.
        { exfalso. destruct (frel_has_func_new Ef E s HA F F') as (B & C & _).
          unfold has_macro in Mc. rewrite B, C in Mc. rewrite andb_false_r in Mc. cbn in Mc. rewrite andb_false_r in Mc. discriminate. }
        rewrite (frel_has_macro_up Ef E s HA Mc).
        eapply fsim_bind; [apply sim_call_macro|intros r _; apply Push]. }
      rewrite <- (frel_type Ef E s HA).
      destruct (env_type Ef s) as [t|] eqn:T.
      + assert (Gt : get_type s <> None).
        { unfold env_type in T. destruct (e_bound Ef); [|discriminate]. rewrite T. discriminate. }
        destruct (has_func E s) eqn:F'.
        { exfalso. destruct (frel_has_func_new Ef E s HA F F') as (_ & _ & D). contradiction. }
        destruct (has_macro E s) eqn:Mc'.
        { exfalso. apply Gt. apply runtime_macro_no_type. exact (frel_has_macro_new Ef E s HA Mc Mc'). }
        destruct t; try (rewrite (frel_folding Ef E HA); apply fsim_mark). apply sim_ctor. exact Hs2.
      + rewrite (frel_folding Ef E HA).
        destruct (has_func E s); [apply fsim_mark|]. destruct (has_macro E s); apply fsim_mark.
    - eapply fsim_bind; [apply sim_call_macro|intros r _; apply Push].
    - eapply fsim_bind; [apply sim_resolve_args|]. intros vals _.
      eapply fsim_bind; [apply sim_call_func; exact Hc|intros r _; apply Push].
  Qed.

  Lemma sim_step i st : stok st -> fsim okj (step rs Ef d i st) (step rs E d i st).
  Proof.
    intros H.
    destruct i; cbn [step]; try (apply sim_bin; assumption); try (apply sim_un; assumption).
    - (* Push *) apply fsim_ret. apply stok_push; assumption.
    - (* Pop *) eapply fsim_bind; [apply sim_pop_val; exact H|]. intros [v st1] [_ Hs1]. apply fsim_ret. exact Hs1.
    - (* Test *) eapply fsim_bind; [apply sim_pop_val; exact H|]. intros [v st1] [_ Hs1]. cbn [fst snd] in *.
      destruct (is_err v); apply fsim_ret; apply stok_push; auto.
    - (* Dup *) eapply fsim_bind; [apply sim_pop_val; exact H|]. intros [v st1] [_ Hs1]. cbn [fst snd] in *.
      apply fsim_ret. apply stok_push. apply stok_push. assumption.
    - (* Jmp *) apply fsim_ret. exact H.
    - (* JmpCond *) eapply fsim_bind; [apply sim_pop_val; exact H|]. intros [v st1] [_ Hs1]. cbn [fst snd] in *.
      destruct v; try apply fsim_fail; apply fsim_ret; exact Hs1.
    - (* MkList *) eapply fsim_bind; [apply sim_pop_n; exact H|]. intros [vs st1] [_ Hs1]. cbn [fst snd] in *.
      apply fsim_ret. apply stok_push. exact Hs1.
    - (* MkDict *)
      match goal with |- fsim _ (?g (Z.to_nat n) st [] false) (?g' (Z.to_nat n) st [] false) =>
        assert (G : forall k st0 acc bad, stok st0 -> fsim okj (g k st0 acc bad) (g' k st0 acc bad));
          [|apply G; exact H] end.
      induction k as [|k IH]; intros st0 acc bad Hs0.
      + destruct bad; apply fsim_ret; apply stok_push; exact Hs0.
      + eapply fsim_bind; [apply sim_pop_val; exact Hs0|]. intros [key st1] [_ Hs1]. cbn [fst snd] in *.
        eapply fsim_bind; [apply sim_pop_val; exact Hs1|]. intros [v st2] [_ Hs2]. cbn [fst snd] in *.
        destruct key; apply IH; assumption.
    - (* Access *) apply sim_step_access. destruct st; [exact Logic.I|]. inversion H; assumption.
    - (* Call *) apply sim_step_call. destruct st as [|x st0]; [exact Logic.I|]. inversion H; subst. split; assumption.
    - (* Fmt *) eapply fsim_bind; [apply sim_pop_n; exact H|]. intros [segs st1] [_ Hs1]. cbn [fst snd] in *.
      match goal with |- fsim _ (?g (rev segs) []) _ => assert (G : forall l acc, fsim okj (g l acc) (g l acc)); [|apply G] end.
      induction l as [|x l IH]; intros acc; [apply fsim_ret; apply stok_push; exact Hs1|]. destruct x; try apply fsim_fail. apply IH.
  Qed.

  Theorem sim_loop c : forall fuel pc st, stok st ->
    fsim stok (loop rs fuel Ef d c pc st) (loop rs fuel E d c pc st).
  Proof.
    induction fuel as [|f IH]; intros pc st Hst.
    { intros lg r lg1 E0. injection E0 as <- <-. split; [intros; discriminate|]. split; [auto|]. intros _ lg2. exists lg2. reflexivity. }
    cbn [loop]. destruct (nth_error c pc) as [i|]; [|apply fsim_ret; exact Hst].
    eapply fsim_bind; [apply sim_step; exact Hst|]. intros [j st'] Hj. unfold okj in Hj. cbn [snd] in Hj.
    destruct j as [dd|]; [|apply IH; exact Hj].
    destruct (jump_target (Datatypes.S pc) dd (length c)); [apply IH; exact Hj|apply fsim_fail].
  Qed.

  Lemma sim_finish resolve st : (resolve = true \/ e_bound E = false) -> stok st ->
    fsim anyv (finish rs Ef d resolve st) (finish rs E d resolve st).
  Proof.
    intros Hr H. unfold finish. destruct resolve.
    - eapply fsim_bind; [apply sim_pop; exact H|]. intros [x st'] _. cbn [fst] in *.
      eapply fsim_bind; [apply sim_into_value|]. intros v _. unfold into_result. destruct v; try (apply fsim_ret; exact Logic.I). apply fsim_fail.
    - destruct Hr as [Hr|Hb]; [discriminate|].
      destruct st as [|[v|b n o] st']; try apply fsim_fail. unfold into_result.
      destruct v; try (apply fsim_ret; exact Logic.I); try apply fsim_fail.
      unfold env_param. rewrite (fr_bound _ _ HA), Hb. apply fsim_ret. exact Logic.I.
  Qed.
End Sim.

(** The interpreter itself, every nested run included: by induction on the fuel. *)
Theorem fold_simulation : forall fuel Ef E c r d, frel Ef E -> (r = true \/ e_bound E = false) ->
  fsim anyv (run fuel Ef c r d) (run fuel E c r d).
Proof.
  induction fuel as [|f IH]; intros Ef E c r d HA Hr.
  { intros lg r0 lg1 E0. injection E0 as <- <-. split; [intros; discriminate|]. split; [auto|]. intros _ lg2. exists lg2. reflexivity. }
  cbn [run]. destruct (Nat.ltb 32 (Datatypes.S d)); [apply fsim_fail|].
  eapply fsim_bind.
  - apply (sim_loop (run f) IH Ef E HA (Datatypes.S d) c f 0%nat []). constructor.
  - intros st Hst. apply (sim_finish (run f) Ef E HA (Datatypes.S d) r st Hr Hst).
Qed.

(** every binding a caller can set up extends the compiler's folding environment, as long as its own
    functions do not take the name of a built-in function, macro or type (when they do, a call with
    constant arguments has already been folded with the built-in: known finding
    bound-function-vs-folded-call of C12) *)
Definition no_builtin_replaced (ufs : list (bytes * ufun)) : Prop :=
  forall n u, assoc n ufs = Some u ->
    is_default_func n = false /\ mem_bytes n compile_macros = false /\ mem_bytes n runtime_macros = false /\ get_type n = None.

Lemma frel_compile_env params progs ufs rt now : smap params -> no_builtin_replaced ufs ->
  frel compile_env (mkEnv true params progs ufs rt now).
Proof. intros Hs Hu. constructor; cbn; auto; try discriminate. Qed.

(** The value the compiler freezes is the value the bytecode it replaces evaluates to, at every
    execution: under any variables, stored programs, clock and caller-bound functions. *)
Theorem frozen_constant_is_what_runs : forall fuel node n n' bc v params,
  resolve (into_bytecode (cp_node node)) = Some bc ->
  check_for_const fuel node n = COk (mkCP (NConst v) params) n' ->
  forall vars progs ufs rt now lg, smap vars -> no_builtin_replaced ufs ->
  exists lg', run fuel (mkEnv true vars progs ufs rt now) bc true O lg = (ROk v, lg').
Proof.
  intros fuel node n n' bc v params Hr Hc vars progs ufs rt now lg Hs Hu.
  unfold check_for_const, cbind, resolve_or_panic in Hc. rewrite Hr in Hc.
  destruct (run fuel compile_env bc true O []) as [[v0|e| | |] lg0] eqn:R; try discriminate.
  destruct (runtime_requested lg0 || contains_err v0) eqn:G; [discriminate|].
  injection Hc as <- _ _. apply orb_false_elim in G. destruct G as [G _].
  destruct (fold_simulation fuel compile_env (mkEnv true vars progs ufs rt now) bc true O
              (frel_compile_env vars progs ufs rt now Hs Hu) (or_introl eq_refl) [] (ROk v0) lg0 R) as (_ & _ & Sim).
  exact (Sim G lg).
Qed.

(** and conversely the compiler keeps the bytecode whenever the folding evaluation asked for a run-time
    input: then, and only then, the two evaluations may differ *)
Example frozen_constant_example :
  let E := mkEnv true [(#"x", VInt 5)] [(#"p", [IPush (VInt 1)])] [(#"f", UFArg0)] true (Some 1700000000000) in
  smap (e_params E) /\ no_builtin_replaced (e_ufuncs E) /\
  match compile_source 40 #"[1, 2, 3].map(v, v * 2)[1] + size('ab')" with
  | COk p _ => pr_code p
  | _ => []
  end = [IPush (VInt 6)].
Proof.
  split; [cbn; auto|]. split; [|vm_compute; reflexivity].
  intros n u. cbn [e_ufuncs assoc]. destruct (bytes_eqb n #"f") eqn:B; [|discriminate].
  apply bytes_eqb_eq in B. subst n. intros _. vm_compute. auto.
Qed.
