(* Proofs/EqSym.v — C04: == is symmetric on all error-free data values (scalars of any two types, lists, maps; nested). *)
From Coq Require Import ZArith List Bool Lia Arith.
From Rscel Require Import Base.Prims Base.F64 Base.Text Model.Value Model.Ops Spec.Wf.
From Rscel Require Import Proofs.OpsOrder Proofs.OpsColl Proofs.EqMaps.
Import ListNotations.
Open Scope Z_scope.

(** scalar data, lists and maps of them (nested); NaN allowed *)
Fixpoint pure (v : value) : bool :=
  match v with
  | VInt _ | VUInt _ | VFloat _ | VBool _ | VString _ | VBytes _ | VNull | VType _ | VTime _ | VDur _ => true
  | VList l => (fix go (l : list value) := match l with [] => true | x :: r => pure x && go r end) l
  | VMap m => (fix go (m : list (bytes * value)) := match m with [] => true | (_, x) :: r => pure x && go r end) m
  | _ => false
  end.

Lemma pure_not_err v : pure v = true -> is_err v = false.
Proof. destruct v; cbn; intros; try reflexivity; discriminate. Qed.

(* ---- sorted maps: lookup is membership -------------------------------------------------------- *)

Lemma map_get_in {A} (m : list (bytes * A)) k x : map_get m k = Some x -> In (k, x) m.
Proof.
  induction m as [|[k' v] m IH]; cbn; [discriminate|]. destruct (bytes_eqb k k') eqn:E.
  - apply bytes_eqb_eq in E. subst. intros H. injection H as <-. left. reflexivity.
  - intros H. right. auto.
Qed.

Lemma keys_above_in {A} k (m : list (bytes * A)) k' x : keys_above k m -> In (k', x) m -> bytes_cmp k k' = Lt.
Proof.
  induction m as [|[k2 v2] m IH]; cbn; [tauto|]. intros [H1 H2] [E|Hin]; [injection E as <- <-; exact H1|auto].
Qed.

Lemma in_map_get {A} (m : list (bytes * A)) k x : smap m -> In (k, x) m -> map_get m k = Some x.
Proof.
  induction m as [|[k' v] m IH]; cbn; [tauto|]. intros [Ha Hs] [E|Hin].
  - injection E as <- <-. rewrite bytes_eqb_refl. reflexivity.
  - pose proof (keys_above_in k' m k x Ha Hin) as C.
    rewrite bytes_eqb_false_of_cmp; [auto|]. intros E. apply bytes_cmp_eq in E. subst k'.
    assert (R : bytes_cmp k k = Eq) by (apply bytes_cmp_eq; reflexivity). congruence.
Qed.

Lemma smap_nodup {A} (m : list (bytes * A)) : smap m -> NoDup (map fst m).
Proof.
  induction m as [|[k v] m IH]; cbn; [constructor|]. intros [Ha Hs]. constructor; [|auto].
  intros Hin. apply in_map_iff in Hin. destruct Hin as ([k' x] & E & Hin). cbn in E. subst k'.
  pose proof (keys_above_in k m k x Ha Hin) as C.
  assert (R : bytes_cmp k k = Eq) by (apply bytes_cmp_eq; reflexivity). congruence.
Qed.

(* ---- the map loop of eq_ as a proposition ----------------------------------------------------- *)

Definition all_in (f : value -> value -> bool) (r : list (bytes * value)) :=
  fix go (l : list (bytes * value)) : bool :=
    match l with
    | [] => true
    | (k, x) :: l' => match map_get r k with Some y => f x y && go l' | None => false end
    end.

Lemma all_in_spec f r l :
  all_in f r l = true <-> (forall k x, In (k, x) l -> exists y, map_get r k = Some y /\ f x y = true).
Proof.
  induction l as [|[k x] l IH]; cbn [all_in].
  - split; [intros _ k x []|reflexivity].
  - destruct (map_get r k) as [y|] eqn:G.
    + rewrite andb_true_iff, IH. split.
      * intros [Hf Hr] k' x' [E|Hin]; [injection E as <- <-; eauto|auto].
      * intros H. split.
        -- destruct (H k x (or_introl eq_refl)) as (y' & G' & Hf). rewrite G in G'. injection G' as <-. exact Hf.
        -- intros k' x' Hin. apply H. right. exact Hin.
    + split; [discriminate|]. intros H. destruct (H k x (or_introl eq_refl)) as (y & G' & _). rewrite G in G'. discriminate G'.
Qed.

(** inclusion both ways for two strictly sorted maps of the same length *)
Lemma all_in_swap f g l r : smap l -> smap r -> length l = length r ->
  (forall k x y, In (k, x) l -> In (k, y) r -> f x y = g y x) ->
  all_in f r l = true -> all_in g l r = true.
Proof.
  intros Sl Sr Hlen Hfg H. rewrite all_in_spec in H. apply all_in_spec. intros k y Hin.
  assert (Hincl : incl (map fst l) (map fst r)).
  { intros k0 Hk. apply in_map_iff in Hk. destruct Hk as ([k1 x1] & E & Hk). cbn in E. subst k1.
    destruct (H k0 x1 Hk) as (y1 & G & _). apply map_get_in in G. apply in_map_iff. exists (k0, y1). split; [reflexivity|exact G]. }
  assert (Hback : incl (map fst r) (map fst l)).
  { apply NoDup_length_incl; [apply smap_nodup; exact Sl| rewrite !map_length; lia | exact Hincl]. }
  assert (Hk : In k (map fst l)).
  { apply Hback. apply in_map_iff. exists (k, y). split; [reflexivity|exact Hin]. }
  apply in_map_iff in Hk. destruct Hk as ([k1 x] & E & Hx). cbn in E. subst k1.
  exists x. split; [apply in_map_get; assumption|].
  destruct (H k x Hx) as (y' & G & Hf). rewrite (in_map_get r k y Sr Hin) in G. injection G as <-.
  rewrite <- (Hfg k x y Hx Hin). exact Hf.
Qed.

(* ---- the list loop ------------------------------------------------------------------------------ *)

Definition list_eq_loop :=
  fix go (l r : list value) : value :=
    match l, r with
    | x :: l', y :: r' =>
        match eq_ x y with
        | VErr e => VErr e
        | o => if is_true o then go l' r' else VBool false
        end
    | _, _ => VBool true
    end.

Lemma list_loop_sym : forall l r, length l = length r ->
  (forall x y, In x l -> In y r -> eq_ x y = eq_ y x) -> list_eq_loop l r = list_eq_loop r l.
Proof.
  induction l as [|x l IH]; destruct r as [|y r]; intros Hlen H; try reflexivity; try discriminate Hlen.
  cbn [list_eq_loop]. rewrite (H x y (or_introl eq_refl) (or_introl eq_refl)).
  rewrite (IH r); [reflexivity|cbn in Hlen; lia|]. intros x' y' Hx Hy. apply H; right; assumption.
Qed.

Lemma wf_list_in l x : wf (VList l) = true -> In x l -> wf x = true.
Proof.
  induction l as [|a l IH]; [intros _ []|]. cbn. intros H [->|Hin]; apply andb_true_iff in H; destruct H as [H1 H2]; auto.
Qed.
Lemma pure_list_in l x : pure (VList l) = true -> In x l -> pure x = true.
Proof.
  induction l as [|a l IH]; [intros _ []|]. cbn. intros H [->|Hin]; apply andb_true_iff in H; destruct H as [H1 H2]; auto.
Qed.
Lemma vsize_list_in l x : In x l -> (vsize x < vsize (VList l))%nat.
Proof.
  induction l as [|a l IH]; [intros []|]. intros [->|Hin]; rewrite vsize_list_cons.
  - pose proof (vsize_pos (VList l)). lia.
  - specialize (IH Hin). lia.
Qed.

Lemma wf_map_parts m : wf (VMap m) = true ->
  keys_sorted (map fst m) = true /\ (forall k x, In (k, x) m -> wf x = true).
Proof.
  cbn [wf]. intros H. apply andb_true_iff in H. destruct H as [Hk Hv]. split; [exact Hk|].
  clear Hk. induction m as [|[k0 x0] m IH]; [intros k x []|].
  apply andb_true_iff in Hv. destruct Hv as [Hv1 Hv2]. apply andb_true_iff in Hv1. destruct Hv1 as [_ Hx0].
  intros k x [E|Hin]; [injection E as <- <-; exact Hx0|eauto].
Qed.
Lemma pure_map_in m k x : pure (VMap m) = true -> In (k, x) m -> pure x = true.
Proof.
  induction m as [|[k0 x0] m IH]; [intros _ []|]. cbn. intros H [E|Hin]; apply andb_true_iff in H; destruct H as [H1 H2].
  - injection E as <- <-. exact H1.
  - auto.
Qed.
Lemma vsize_map_in m k x : In (k, x) m -> (vsize x < vsize (VMap m))%nat.
Proof.
  induction m as [|[k0 x0] m IH]; [intros []|]. intros [E|Hin]; rewrite vsize_map_cons.
  - injection E as <- <-. assert (0 < vsize (VMap m))%nat by (cbn; lia). lia.
  - specialize (IH Hin). lia.
Qed.

(* ---- symmetry ----------------------------------------------------------------------------------- *)

Theorem eq_sym_pure : forall n a b, (vsize a < n)%nat ->
  wf a = true -> wf b = true -> pure a = true -> pure b = true -> eq_ a b = eq_ b a.
Proof.
  induction n as [|n IH]; intros a b Hn Wa Wb Pa Pb; [lia|].
  destruct (scalar a) eqn:Sa, (scalar b) eqn:Sb.
  - apply eq_sym_scalar; assumption.
  - destruct a; try discriminate Sa; destruct b; try discriminate Sb; try discriminate Pb; reflexivity.
  - destruct a; try discriminate Sa; try discriminate Pa; destruct b; try discriminate Sb; reflexivity.
  - destruct a; try discriminate Sa; try discriminate Pa; destruct b; try discriminate Sb; try discriminate Pb; try reflexivity.
    + (* list, list *)
      rename l into la, l0 into lb.
      cbn [eq_ is_err type_prop]. rewrite (Z.eqb_sym (zlen lb)).
      destruct (zlen la =? zlen lb) eqn:L; cbn [negb]; [|reflexivity].
      apply Z.eqb_eq in L. unfold zlen in L. apply Nat2Z.inj in L.
      change (list_eq_loop la lb = list_eq_loop lb la). apply list_loop_sym; [exact L|].
      intros x y Hx Hy. apply IH.
      * pose proof (vsize_list_in la x Hx) as Hlt. eapply Nat.lt_le_trans; [exact Hlt|]. apply Nat.lt_succ_r. exact Hn.
      * exact (wf_list_in la x Wa Hx).
      * exact (wf_list_in lb y Wb Hy).
      * exact (pure_list_in la x Pa Hx).
      * exact (pure_list_in lb y Pb Hy).
    + (* map, map *)
      rename m into ma, m0 into mb.
      cbn [eq_ is_err type_prop].
      change (
        (if all_in (fun x y => is_true (eq_ x y)) mb ma then VBool (zlen ma =? zlen mb) else VBool false) =
        (if all_in (fun x y => is_true (eq_ x y)) ma mb then VBool (zlen mb =? zlen ma) else VBool false)).
      rewrite (Z.eqb_sym (zlen mb)).
      destruct (wf_map_parts ma Wa) as [Ka Va], (wf_map_parts mb Wb) as [Kb Vb].
      pose proof (keys_sorted_smap ma Ka) as Sma. pose proof (keys_sorted_smap mb Kb) as Smb.
      assert (Hsym : forall k x y, In (k, x) ma -> In (k, y) mb -> eq_ x y = eq_ y x).
      { intros k x y Hx Hy. apply IH.
        - pose proof (vsize_map_in ma k x Hx) as Hlt. eapply Nat.lt_le_trans; [exact Hlt|]. apply Nat.lt_succ_r. exact Hn.
        - exact (Va k x Hx).
        - exact (Vb k y Hy).
        - exact (pure_map_in ma k x Pa Hx).
        - exact (pure_map_in mb k y Pb Hy). }
      destruct (zlen ma =? zlen mb) eqn:L.
      * apply Z.eqb_eq in L. unfold zlen in L. apply Nat2Z.inj in L.
        destruct (all_in (fun x y => is_true (eq_ x y)) mb ma) eqn:A1.
        -- rewrite (all_in_swap (fun x y => is_true (eq_ x y)) (fun x y => is_true (eq_ x y)) ma mb Sma Smb L); [reflexivity| |exact A1].
           intros k x y Hx Hy. rewrite (Hsym k x y Hx Hy). reflexivity.
        -- destruct (all_in (fun x y => is_true (eq_ x y)) ma mb) eqn:A2; [|reflexivity].
           rewrite (all_in_swap (fun x y => is_true (eq_ x y)) (fun x y => is_true (eq_ x y)) mb ma Smb Sma (eq_sym L)) in A1; [discriminate A1| |exact A2].
           intros k y x Hy Hx. rewrite (Hsym k x y Hx Hy). reflexivity.
      * destruct (all_in _ mb ma), (all_in _ ma mb); reflexivity.
Qed.
