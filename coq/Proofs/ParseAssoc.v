(* Proofs/ParseAssoc.v — C02: every binary level of the parser is the same
   left-associative loop over the next tighter level; the conditional nests to
   the right in its else branch; parentheses restart at the loosest level. *)
From Coq Require Import ZArith List Bool Lia.
From Rscel Require Import Base.Prims Base.F64 Base.Text Model.Value Model.Lexer Model.Ast Model.Parser.
Import ListNotations.
Open Scope Z_scope.

Section LLoop.
  Context {A B O : Type}.
  Variable opof : token -> option O.
  Variable rhs : P B.
  Variable mk : A -> O -> B -> A.

  (** [chain t items t']: from tokenizer state t the input continues with the
      operators and right operands [items] (each operand parsed by [rhs]) and
      then with something that is not an operator of this level *)
  Inductive chain : tokenizer -> list (O * B) -> tokenizer -> Prop :=
  | ch_end t o t1 :
      peek t = POk o t1 ->
      match o with Some tk => opof (t_tok tk) = None | None => True end ->
      chain t [] t1
  | ch_step t tk t1 x t2 op b t3 items tend :
      peek t = POk (Some tk) t1 -> opof (t_tok tk) = Some op ->
      next t1 = POk x t2 -> rhs t2 = POk b t3 -> chain t3 items tend ->
      chain t ((op, b) :: items) tend.

  (** operators of equal precedence group to the left: the loop folds its
      operands from the left, whatever their number *)
  Theorem lloop_left_assoc t items tend : chain t items tend ->
    forall n acc, (length items < n)%nat ->
      lloop n opof rhs mk acc t = POk (fold_left (fun a ob => mk a (fst ob) (snd ob)) items acc) tend.
  Proof.
    induction 1 as [t o t1 Hp Ho|t tk t1 x t2 op b t3 items tend Hp Ho Hn Hr Hc IH]; intros n acc Hl.
    - destruct n as [|n]; [cbn in Hl; lia|]. cbn [lloop]. unfold pbind. rewrite Hp.
      destruct o as [tk|]; [rewrite Ho|]; reflexivity.
    - destruct n as [|n]; [cbn in Hl; lia|]. cbn [lloop]. unfold pbind at 1. rewrite Hp, Ho.
      unfold pbind at 1. rewrite Hn. unfold pbind at 1. rewrite Hr. cbn [length] in Hl.
      rewrite IH by lia. reflexivity.
  Qed.
End LLoop.

(** The precedence ladder: each level is that loop over the next tighter one
    (||  &&  relations  + -  * / %  unary), by definition of the parser. *)
Theorem levels_are_left_loops rec_expr rec_src :
  p_cor rec_expr rec_src =
    (let! u := p_cand rec_expr rec_src in
     fun t => lloop (loop_fuel t) (fun k => match k with TOrOr => Some tt | _ => None end) (p_cand rec_expr rec_src)
                (fun acc _ b => OrBin (surrounding (cor_range acc) (cand_range b)) acc b) (OrUn (cand_range u) u) t) /\
  p_cand rec_expr rec_src =
    (let! u := p_rel rec_expr rec_src in
     fun t => lloop (loop_fuel t) (fun k => match k with TAndAnd => Some tt | _ => None end) (p_rel rec_expr rec_src)
                (fun acc _ b => AndBin (surrounding (cand_range acc) (rel_range b)) acc b) (AndUn (rel_range u) u) t) /\
  p_rel rec_expr rec_src =
    (let! u := p_addn rec_expr rec_src in
     fun t => lloop (loop_fuel t) relop_of (p_addn rec_expr rec_src)
                (fun acc op b => RelBin (surrounding (rel_range acc) (addn_range b)) acc op b) (RelUn (addn_range u) u) t) /\
  p_addn rec_expr rec_src =
    (let! u := p_mult rec_expr rec_src in
     fun t => lloop (loop_fuel t) addop_of (p_mult rec_expr rec_src)
                (fun acc op b => AddBin (surrounding (addn_range acc) (mult_range b)) acc op b) (AddUn (mult_range u) u) t) /\
  p_mult rec_expr rec_src =
    (let! u := p_unary rec_expr rec_src in
     fun t => lloop (loop_fuel t) mulop_of (p_unary rec_expr rec_src)
                (fun acc op b => MulBin (surrounding (mult_range acc) (unary_range b)) acc op b) (MulUn (unary_range u) u) t).
Proof. repeat split. Qed.

(** which tokens belong to which level: the relations include `in`; the
    additive and multiplicative operators are disjoint from everything looser *)
Theorem operator_classes :
  (forall t, relop_of t <> None <-> In t [TLessThan; TLessEqual; TEqualEqual; TNotEqual; TGreaterEqual; TGreaterThan; TIn]) /\
  (forall t, addop_of t <> None <-> In t [TAdd; TMinus]) /\
  (forall t, mulop_of t <> None <-> In t [TMultiply; TDivide; TMod]).
Proof.
  repeat split; intros H; try (destruct t; cbn in *; try congruence; tauto);
    try (cbn in H; repeat (destruct H as [<-|H]; [cbn; discriminate|]); destruct H).
Qed.

(** the conditional: condition and then-branch are or-level expressions, the
    else branch is a whole expression again (so a ? b : c ? d : e nests to the
    right, and a ? b : c || d keeps the || inside the else branch) *)
Theorem ternary_shape rec_expr rec_src t o t0 l t1 q t2 x t3 tc t4 col t5 fc t6 :
  peek t = POk o t0 -> (forall ml, o <> Some (mkTok TMatch ml)) ->
  p_cor rec_expr rec_src t0 = POk l t1 ->
  peek t1 = POk q t2 -> is_tok q TQuestion = true ->
  next t2 = POk x t3 -> p_cor rec_expr rec_src t3 = POk tc t4 ->
  next t4 = POk col t5 -> is_tok col TColon = true ->
  rec_expr t5 = POk fc t6 ->
  p_expr_body rec_expr rec_src t = POk (ETernary (surrounding (cor_range l) (expr_range fc)) l tc fc) t6.
Proof.
  intros Hp Hm Hl Hq Hq' Hn Htc Hc Hc' Hf. unfold p_expr_body. unfold pbind at 1. rewrite Hp.
  assert (G : (let! l0 := p_cor rec_expr rec_src in
               let! q0 := peek in
               if is_tok q0 TQuestion
               then let! _ := next in
                    let! tc0 := p_cor rec_expr rec_src in
                    let! col0 := next in
                    if negb (is_tok col0 TColon) then fail_here
                    else let! fc0 := rec_expr in
                         pret (ETernary (surrounding (cor_range l0) (expr_range fc0)) l0 tc0 fc0)
               else pret (EUnary (cor_range l0) l0)) t0 =
              POk (ETernary (surrounding (cor_range l) (expr_range fc)) l tc fc) t6).
  { unfold pbind at 1. rewrite Hl. unfold pbind at 1. rewrite Hq, Hq'. unfold pbind at 1. rewrite Hn.
    unfold pbind at 1. rewrite Htc. unfold pbind at 1. rewrite Hc, Hc'. cbn [negb]. unfold pbind. rewrite Hf. reflexivity. }
  destruct o as [[tok rng]|]; [|exact G]. destruct tok; try exact G. exfalso. eapply Hm. reflexivity.
Qed.

Theorem no_question_is_plain rec_expr rec_src t o t0 l t1 q t2 :
  peek t = POk o t0 -> (forall ml, o <> Some (mkTok TMatch ml)) ->
  p_cor rec_expr rec_src t0 = POk l t1 -> peek t1 = POk q t2 -> is_tok q TQuestion = false ->
  p_expr_body rec_expr rec_src t = POk (EUnary (cor_range l) l) t2.
Proof.
  intros Hp Hm Hl Hq Hq'. unfold p_expr_body. unfold pbind at 1. rewrite Hp.
  assert (G : (let! l0 := p_cor rec_expr rec_src in
               let! q0 := peek in
               if is_tok q0 TQuestion
               then let! _ := next in
                    let! tc0 := p_cor rec_expr rec_src in
                    let! col0 := next in
                    if negb (is_tok col0 TColon) then fail_here
                    else let! fc0 := rec_expr in
                         pret (ETernary (surrounding (cor_range l0) (expr_range fc0)) l0 tc0 fc0)
               else pret (EUnary (cor_range l0) l0)) t0 = POk (EUnary (cor_range l) l) t2).
  { unfold pbind at 1. rewrite Hl. unfold pbind at 1. rewrite Hq, Hq'. reflexivity. }
  destruct o as [[tok rng]|]; [|exact G]. destruct tok; try exact G. exfalso. eapply Hm. reflexivity.
Qed.

(** parentheses restart at the loosest level: what stands between them is a whole expression *)
Theorem parens_restart rec_expr rec_src t l t1 e t2 rl t3 :
  next t = POk (Some (mkTok TLParen l)) t1 -> rec_expr t1 = POk e t2 ->
  next t2 = POk (Some (mkTok TRParen rl)) t3 ->
  p_primary rec_expr rec_src t = POk (PrParens (surrounding l rl) e) t3.
Proof.
  intros H1 H2 H3. unfold p_primary. unfold pbind at 1. rewrite H1. unfold pbind at 1. rewrite H2.
  unfold pbind. rewrite H3. reflexivity.
Qed.

(** a run of n prefix operators is one node holding a chain of n links *)
Fixpoint oplist_len (o : oplist) : nat := match o with OLEmpty _ => O | OLCons _ tl => S (oplist_len tl) end.
