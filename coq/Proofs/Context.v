(* Proofs/Context.v — C11: histories over contexts and binding sets.
   Executing and inspecting change nothing; a write touches exactly one
   numbered store; clones evolve independently; the result of an exec is a
   function of the two stores it names, so it is the result a fresh context
   holding the same final sources gives. *)
From Coq Require Import ZArith List Bool Lia.
From Rscel Require Import Base.Prims Base.F64 Base.Text Model.Value Model.Ops Model.Funcs Model.Interp
  Model.Lexer Model.Compile Model.Context.
From Rscel Require Import Proofs.OpsOrder Proofs.OpsColl.
Import ListNotations.
Open Scope Z_scope.

Lemma assoc_map_get {A} k (l : list (bytes * A)) : assoc k l = map_get l k.
Proof. induction l as [|[k' v] l IH]; cbn; [reflexivity|]. rewrite IH. reflexivity. Qed.

(* ---- numbered stores ------------------------------------------------------------- *)

Lemma zassoc_zset_same {A} k (v : A) l : zassoc k (zset k v l) = Some v.
Proof.
  induction l as [|[k' v'] l IH]; cbn; [rewrite Z.eqb_refl; reflexivity|].
  destruct (k =? k') eqn:E; cbn; [rewrite Z.eqb_refl; reflexivity|]. rewrite E. exact IH.
Qed.

Lemma zassoc_zset_other {A} k k2 (v : A) l : k2 <> k -> zassoc k2 (zset k v l) = zassoc k2 l.
Proof.
  intros Hne. induction l as [|[k' v'] l IH]; cbn.
  - destruct (k2 =? k) eqn:E; [apply Z.eqb_eq in E; congruence|reflexivity].
  - destruct (k =? k') eqn:E; cbn.
    + apply Z.eqb_eq in E. subst k'. destruct (k2 =? k) eqn:E2; [apply Z.eqb_eq in E2; congruence|reflexivity].
    + destruct (k2 =? k'); [reflexivity|exact IH].
Qed.

(** which store an operation writes *)
Definition writes_ctx (o : op) : option Z :=
  match o with OAddProgram c _ _ => Some c | OCloneCtx _ t => Some t | _ => None end.
Definition writes_bind (o : op) : option Z :=
  match o with OBind b _ _ => Some b | OCloneBind _ t => Some t | _ => None end.

(** Executing and inspecting change nothing at all. *)
Theorem exec_changes_nothing fuel w c b name : fst (step_op fuel w (OExec c b name)) = w.
Proof. reflexivity. Qed.
Theorem params_changes_nothing fuel w c name : fst (step_op fuel w (OParams c name)) = w.
Proof. reflexivity. Qed.

(** A write touches only the store it names. *)
Theorem ctx_frame fuel w o c : writes_ctx o <> Some c -> get_ctx (fst (step_op fuel w o)) c = get_ctx w c.
Proof.
  intros H. destruct o as [c0 n src|b n v|f t|f t|c0 b n|c0 n]; cbn [step_op writes_ctx] in *; try reflexivity.
  - destruct (compile_checked fuel src); cbn [fst]; try reflexivity.
    unfold get_ctx at 1. cbn [w_ctx]. rewrite zassoc_zset_other by congruence. reflexivity.
  - cbn [fst]. unfold get_ctx at 1. cbn [w_ctx]. rewrite zassoc_zset_other by congruence. reflexivity.
Qed.

Theorem bind_frame fuel w o b : writes_bind o <> Some b -> get_bind (fst (step_op fuel w o)) b = get_bind w b.
Proof.
  intros H. destruct o as [c0 n src|b0 n v|f t|f t|c0 b0 n|c0 n]; cbn [step_op writes_bind] in *; try reflexivity.
  - destruct (compile_checked fuel src); reflexivity.
  - cbn [fst]. unfold get_bind at 1. cbn [w_bind]. rewrite zassoc_zset_other by congruence. reflexivity.
  - cbn [fst]. unfold get_bind at 1. cbn [w_bind]. rewrite zassoc_zset_other by congruence. reflexivity.
Qed.

(** A clone starts as a copy ... *)
Theorem clone_ctx_copies fuel w f t : get_ctx (fst (step_op fuel w (OCloneCtx f t))) t = get_ctx w f.
Proof. cbn. unfold get_ctx at 1. cbn [w_ctx]. rewrite zassoc_zset_same. reflexivity. Qed.
Theorem clone_bind_copies fuel w f t : get_bind (fst (step_op fuel w (OCloneBind f t))) t = get_bind w f.
Proof. cbn. unfold get_bind at 1. cbn [w_bind]. rewrite zassoc_zset_same. reflexivity. Qed.

(** ... and then evolves independently: no later history that does not name
    a store as the target of a write can change it. *)
Theorem ctx_frame_history fuel c : forall ops w,
  Forall (fun o => writes_ctx o <> Some c) ops -> get_ctx (fst (run_ops fuel w ops)) c = get_ctx w c.
Proof.
  induction ops as [|o r IH]; intros w Hf; [reflexivity|]. inversion Hf as [|? ? Ho Hr]; subst.
  cbn [run_ops]. destruct (step_op fuel w o) as [w1 x] eqn:E1. destruct (run_ops fuel w1 r) as [w2 xs] eqn:E2.
  cbn [fst]. specialize (IH w1 Hr). rewrite E2 in IH. cbn [fst] in IH. rewrite IH.
  pose proof (ctx_frame fuel w o c Ho) as F. rewrite E1 in F. exact F.
Qed.

Theorem bind_frame_history fuel b : forall ops w,
  Forall (fun o => writes_bind o <> Some b) ops -> get_bind (fst (run_ops fuel w ops)) b = get_bind w b.
Proof.
  induction ops as [|o r IH]; intros w Hf; [reflexivity|]. inversion Hf as [|? ? Ho Hr]; subst.
  cbn [run_ops]. destruct (step_op fuel w o) as [w1 x] eqn:E1. destruct (run_ops fuel w1 r) as [w2 xs] eqn:E2.
  cbn [fst]. specialize (IH w1 Hr). rewrite E2 in IH. cbn [fst] in IH. rewrite IH.
  pose proof (bind_frame fuel w o b Ho) as F. rewrite E1 in F. exact F.
Qed.

(** The result of an exec is a function of the two stores it names. *)
Definition exec_out (fuel : nat) (w : world) (c b : Z) (name : bytes) : out :=
  snd (step_op fuel w (OExec c b name)).

Theorem exec_function_of_stores fuel w1 w2 c1 c2 b1 b2 name :
  get_ctx w1 c1 = get_ctx w2 c2 -> get_bind w1 b1 = get_bind w2 b2 ->
  exec_out fuel w1 c1 b1 name = exec_out fuel w2 c2 b2 name.
Proof. intros Hc Hb. unfold exec_out. cbn. rewrite Hc, Hb. reflexivity. Qed.

(** Whatever happens in between — executions, inspections, writes to other
    stores, clones taken from these — the same exec gives the same result. *)
Theorem exec_history_independent fuel w ops c b name :
  Forall (fun o => writes_ctx o <> Some c /\ writes_bind o <> Some b) ops ->
  exec_out fuel (fst (run_ops fuel w ops)) c b name = exec_out fuel w c b name.
Proof.
  intros H. apply exec_function_of_stores.
  - apply ctx_frame_history. eapply Forall_impl; [|exact H]. cbn. tauto.
  - apply bind_frame_history. eapply Forall_impl; [|exact H]. cbn. tauto.
Qed.

(** An exec of a clone pair equals the exec of the originals. *)
Theorem exec_on_clones fuel w c b c' b' name : c' <> c -> b' <> b ->
  exec_out fuel (fst (run_ops fuel w [OCloneCtx c c'; OCloneBind b b'])) c' b' name = exec_out fuel w c b name.
Proof.
  intros Hc Hb. apply exec_function_of_stores; cbn.
  - unfold get_ctx at 1. cbn [w_ctx]. rewrite zassoc_zset_same. reflexivity.
  - unfold get_bind at 1. cbn [w_bind]. rewrite zassoc_zset_same. reflexivity.
Qed.

(** Repetition: n executions in a row all give the first one's result. *)
Theorem exec_repeat fuel w c b name n :
  snd (run_ops fuel w (repeat (OExec c b name) n)) = repeat (exec_out fuel w c b name) n.
Proof.
  induction n as [|n IH]; [reflexivity|]. cbn [repeat run_ops]. unfold exec_out in *. cbn [step_op snd] in *.
  destruct (run_ops fuel w (repeat (OExec c b name) n)) as [w2 xs] eqn:E. cbn [snd] in *. rewrite IH. reflexivity.
Qed.

(* ---- insert-or-replace ------------------------------------------------------------- *)

Definition sorted_world (w : world) : Prop :=
  (forall c, smap (get_ctx w c)) /\ (forall b, smap (get_bind w b)).

Lemma sorted_empty : sorted_world empty_world.
Proof. split; intros x; exact I. Qed.

Lemma get_ctx_zset w c m c2 : get_ctx (mkWorld (zset c m (w_ctx w)) (w_bind w)) c2 = if c2 =? c then m else get_ctx w c2.
Proof.
  unfold get_ctx. cbn [w_ctx]. destruct (c2 =? c) eqn:E.
  - apply Z.eqb_eq in E. subst. rewrite zassoc_zset_same. reflexivity.
  - apply Z.eqb_neq in E. rewrite zassoc_zset_other by assumption. reflexivity.
Qed.
Lemma get_bind_zset w b m b2 : get_bind (mkWorld (w_ctx w) (zset b m (w_bind w))) b2 = if b2 =? b then m else get_bind w b2.
Proof.
  unfold get_bind. cbn [w_bind]. destruct (b2 =? b) eqn:E.
  - apply Z.eqb_eq in E. subst. rewrite zassoc_zset_same. reflexivity.
  - apply Z.eqb_neq in E. rewrite zassoc_zset_other by assumption. reflexivity.
Qed.

Lemma step_sorted fuel w o : sorted_world w -> sorted_world (fst (step_op fuel w o)).
Proof.
  intros [Hc Hb]. destruct o as [c0 n src|b0 n v|f t|f t|c0 b0 n|c0 n]; cbn [step_op]; try (split; assumption).
  - destruct (compile_checked fuel src); cbn [fst]; try (split; assumption).
    split; [|exact Hb]. intros c. rewrite get_ctx_zset. destruct (c =? c0); [apply map_insert_sorted|]; apply Hc.
  - cbn [fst]. split; [exact Hc|]. intros b. rewrite get_bind_zset. destruct (b =? b0); [apply map_insert_sorted|]; apply Hb.
  - cbn [fst]. split; [|exact Hb]. intros c. rewrite get_ctx_zset. destruct (c =? t); apply Hc.
  - cbn [fst]. split; [exact Hc|]. intros b. rewrite get_bind_zset. destruct (b =? t); apply Hb.
Qed.

Theorem history_sorted fuel : forall ops w, sorted_world w -> sorted_world (fst (run_ops fuel w ops)).
Proof.
  induction ops as [|o r IH]; intros w Hs; [exact Hs|]. cbn [run_ops].
  destruct (step_op fuel w o) as [w1 x] eqn:E1. destruct (run_ops fuel w1 r) as [w2 xs] eqn:E2. cbn [fst].
  pose proof (step_sorted fuel w o Hs) as S1. rewrite E1 in S1. specialize (IH w1 S1). rewrite E2 in IH. exact IH.
Qed.

(** Binding replaces: afterwards the name has the new value and every other name is untouched. *)
Theorem bind_replaces fuel w b name v k : sorted_world w ->
  map_get (get_bind (fst (step_op fuel w (OBind b name v))) b) k =
  if bytes_eqb k name then Some v else map_get (get_bind w b) k.
Proof.
  intros [_ Hb]. cbn [step_op fst]. rewrite get_bind_zset, Z.eqb_refl. apply map_get_insert. apply Hb.
Qed.

(** Adding a program that compiles replaces: later lookups see the new one;
    one that does not compile leaves everything as it was. *)
Definition compiled (fuel : nat) (src : chars) : option stored :=
  match compile_checked fuel src with COk p _ => Some (mkStored (pr_code p) (pr_params p)) | _ => None end.

Theorem add_program_replaces fuel w c name src k : sorted_world w ->
  map_get (get_ctx (fst (step_op fuel w (OAddProgram c name src))) c) k =
  match compiled fuel src with
  | Some s => if bytes_eqb k name then Some s else map_get (get_ctx w c) k
  | None => map_get (get_ctx w c) k
  end.
Proof.
  intros [Hc _]. cbn [step_op]. unfold compiled. destruct (compile_checked fuel src); cbn [fst]; try reflexivity.
  rewrite get_ctx_zset, Z.eqb_refl. apply map_get_insert. apply Hc.
Qed.

(* ---- a fresh context holding the same sources gives the same results --------------- *)

(** source-level view of the contexts: what the caller would have to add to a
    fresh context to rebuild one *)
Definition sctx := list (bytes * chars).
Definition sget (sw : list (Z * sctx)) (c : Z) : sctx := match zassoc c sw with Some x => x | None => [] end.

Definition sstep (fuel : nat) (sw : list (Z * sctx)) (o : op) : list (Z * sctx) :=
  match o with
  | OAddProgram c name src =>
      match compiled fuel src with Some _ => zset c (map_insert (sget sw c) name src) sw | None => sw end
  | OCloneCtx f t => zset t (sget sw f) sw
  | _ => sw
  end.

Definition stored_of (fuel : nat) (src : chars) : stored :=
  match compiled fuel src with Some s => s | None => mkStored [] [] end.
Definition compile_all (fuel : nat) (m : sctx) : cel_ctx := map (fun kv => (fst kv, stored_of fuel (snd kv))) m.

Lemma map_insert_map {A B} (f : A -> B) (m : list (bytes * A)) k v :
  map_insert (map (fun kv => (fst kv, f (snd kv))) m) k (f v) = map (fun kv => (fst kv, f (snd kv))) (map_insert m k v).
Proof.
  induction m as [|[k' v'] m IH]; cbn; [reflexivity|].
  destruct (bytes_cmp k k'); cbn; [reflexivity|reflexivity|]. rewrite IH. reflexivity.
Qed.

Lemma smap_map {A B} (f : A -> B) (m : list (bytes * A)) : smap m -> smap (map (fun kv => (fst kv, f (snd kv))) m).
Proof.
  assert (Ka : forall k (m : list (bytes * A)), keys_above k m -> keys_above k (map (fun kv => (fst kv, f (snd kv))) m)).
  { intros k m0. induction m0 as [|[k' v'] m0 IH]; cbn; [auto|]. intros [H1 H2]. auto. }
  induction m as [|[k' v'] m IH]; cbn; [auto|]. intros [H1 H2]. split; auto.
Qed.

Definition refines (fuel : nat) (w : world) (sw : list (Z * sctx)) : Prop :=
  forall c, get_ctx w c = compile_all fuel (sget sw c) /\ smap (sget sw c).

Lemma sget_zset sw c m c2 : sget (zset c m sw) c2 = if c2 =? c then m else sget sw c2.
Proof.
  unfold sget. destruct (c2 =? c) eqn:E.
  - apply Z.eqb_eq in E. subst. rewrite zassoc_zset_same. reflexivity.
  - apply Z.eqb_neq in E. rewrite zassoc_zset_other by assumption. reflexivity.
Qed.

Lemma step_refines fuel w sw o : refines fuel w sw -> refines fuel (fst (step_op fuel w o)) (sstep fuel sw o).
Proof.
  intros R. destruct o as [c0 n src|b0 n v|f t|f t|c0 b0 n|c0 n]; cbn [step_op sstep]; try exact R.
  - unfold compiled. destruct (compile_checked fuel src) as [p ps| | | |l] eqn:EC; cbn [fst]; try exact R.
    intros c. rewrite get_ctx_zset, sget_zset. destruct (c =? c0); [|apply R].
    destruct (R c0) as [Rg Rs]. split; [|apply map_insert_sorted; exact Rs].
    rewrite Rg. unfold compile_all.
    replace (mkStored (pr_code p) (pr_params p)) with (stored_of fuel src)
      by (unfold stored_of, compiled; rewrite EC; reflexivity).
    apply (map_insert_map (stored_of fuel)).
  - cbn [fst]. intros c. rewrite get_ctx_zset, sget_zset. destruct (c =? t); apply R.
Qed.

Definition srun (fuel : nat) (sw : list (Z * sctx)) (ops : list op) : list (Z * sctx) := fold_left (sstep fuel) ops sw.

Theorem history_refines fuel : forall ops w sw, refines fuel w sw -> refines fuel (fst (run_ops fuel w ops)) (srun fuel sw ops).
Proof.
  induction ops as [|o r IH]; intros w sw R; [exact R|]. cbn [run_ops srun fold_left].
  destruct (step_op fuel w o) as [w1 x] eqn:E1. destruct (run_ops fuel w1 r) as [w2 xs] eqn:E2. cbn [fst].
  pose proof (step_refines fuel w sw o R) as R1. rewrite E1 in R1. specialize (IH w1 _ R1). rewrite E2 in IH. exact IH.
Qed.

Lemma refines_empty fuel : refines fuel empty_world [].
Proof. intros c. split; [reflexivity|exact I]. Qed.

(** adding the entries of a sorted store one after another rebuilds it *)
Fixpoint all_below {A} (k : bytes) (m : list (bytes * A)) : Prop :=
  match m with [] => True | (k', _) :: r => bytes_cmp k' k = Lt /\ all_below k r end.

Lemma map_insert_last {A} (m : list (bytes * A)) k v : all_below k m -> map_insert m k v = m ++ [(k, v)].
Proof.
  induction m as [|[k' v'] m IH]; cbn; [reflexivity|]. intros [H1 H2].
  rewrite bytes_cmp_antisym, H1. cbn. rewrite IH by assumption. reflexivity.
Qed.

Lemma smap_app_below {A} (acc : list (bytes * A)) k v m : smap (acc ++ (k, v) :: m) -> all_below k acc.
Proof.
  induction acc as [|[k' v'] acc IH]; cbn; [auto|]. intros [Ha Hs]. split; [|auto].
  clear IH Hs. induction acc as [|[k2 v2] acc IH]; cbn in Ha; [tauto|]. apply IH. tauto.
Qed.

Lemma insert_all_sorted {A} : forall (m acc : list (bytes * A)), smap (acc ++ m) ->
  fold_left (fun a kv => map_insert a (fst kv) (snd kv)) m acc = acc ++ m.
Proof.
  induction m as [|[k v] m IH]; intros acc Hs; cbn [fold_left]; [rewrite app_nil_r; reflexivity|].
  cbn [fst snd]. rewrite (map_insert_last acc k v) by (eapply smap_app_below; exact Hs).
  rewrite IH; rewrite <- app_assoc; [reflexivity|exact Hs].
Qed.

(** a fresh context: add the given sources, in order, to a new context *)
Definition fresh_world (fuel : nat) (srcs : sctx) (binds : bind_ctx) : world :=
  fst (run_ops fuel empty_world
         (map (fun kv => OAddProgram 0 (fst kv) (snd kv)) srcs ++ map (fun kv => OBind 0 (fst kv) (snd kv)) binds)).

Lemma add_all fuel : forall (srcs : sctx) w,
  Forall (fun kv => compiled fuel (snd kv) <> None) srcs ->
  let w' := fst (run_ops fuel w (map (fun kv => OAddProgram 0 (fst kv) (snd kv)) srcs)) in
  get_ctx w' 0 = fold_left (fun a kv => map_insert a (fst kv) (snd kv))
                           (compile_all fuel srcs) (get_ctx w 0)
  /\ w_bind w' = w_bind w.
Proof.
  induction srcs as [|[n src] r IH]; intros w Hc; cbv zeta; cbn [map run_ops fst snd]; [split; reflexivity|].
  inversion Hc as [|? ? H1 H2]; subst. cbn [snd] in H1.
  destruct (step_op fuel w (OAddProgram 0 n src)) as [w1 x] eqn:E1.
  destruct (run_ops fuel w1 (map (fun kv => OAddProgram 0 (fst kv) (snd kv)) r)) as [w2 xs] eqn:E2.
  cbn [fst]. destruct (IH w1 H2) as [A B]. cbv zeta in A, B. rewrite E2 in A, B. cbn [fst] in A, B. rewrite A, B.
  cbn [step_op] in E1. unfold compiled in H1. unfold compile_all at 2. cbn [map fold_left fst snd].
  unfold stored_of, compiled.
  destruct (compile_checked fuel src) as [p ps| | | |l]; try congruence.
  inversion E1; subst. rewrite get_ctx_zset. cbn. split; reflexivity.
Qed.

Lemma bind_all fuel : forall (binds : bind_ctx) w,
  let w' := fst (run_ops fuel w (map (fun kv => OBind 0 (fst kv) (snd kv)) binds)) in
  get_bind w' 0 = fold_left (fun a kv => map_insert a (fst kv) (snd kv)) binds (get_bind w 0)
  /\ get_ctx w' 0 = get_ctx w 0.
Proof.
  induction binds as [|[n v] r IH]; intros w; cbv zeta; cbn [map run_ops fst snd]; [split; reflexivity|].
  destruct (run_ops fuel (fst (step_op fuel w (OBind 0 n v))) (map (fun kv => OBind 0 (fst kv) (snd kv)) r)) as [w2 xs] eqn:E2.
  cbn [step_op fst] in *. rewrite E2. cbn [fst].
  destruct (IH (mkWorld (w_ctx w) (zset 0 (map_insert (get_bind w 0) n v) (w_bind w)))) as [A B].
  cbv zeta in A, B. rewrite E2 in A, B. cbn [fst] in A, B. rewrite A, B. rewrite get_bind_zset. cbn. split; reflexivity.
Qed.

Lemma run_ops_app fuel : forall a b w, fst (run_ops fuel w (a ++ b)) = fst (run_ops fuel (fst (run_ops fuel w a)) b).
Proof.
  induction a as [|o r IH]; intros b w; [reflexivity|]. cbn [app run_ops].
  destruct (step_op fuel w o) as [w1 x]. specialize (IH b w1).
  destruct (run_ops fuel w1 (r ++ b)) as [w2 xs]. destruct (run_ops fuel w1 r) as [w3 ys]. cbn [fst] in *.
  destruct (run_ops fuel w3 b) as [w4 zs] eqn:E4. cbn [fst] in *. exact IH.
Qed.

Theorem fresh_world_stores fuel srcs binds :
  smap srcs -> smap binds -> Forall (fun kv => compiled fuel (snd kv) <> None) srcs ->
  get_ctx (fresh_world fuel srcs binds) 0 = compile_all fuel srcs /\
  get_bind (fresh_world fuel srcs binds) 0 = binds.
Proof.
  intros Hs Hb Hc. unfold fresh_world. rewrite run_ops_app.
  destruct (add_all fuel srcs empty_world Hc) as [A B].
  set (w1 := fst (run_ops fuel empty_world (map (fun kv => OAddProgram 0 (fst kv) (snd kv)) srcs))) in *.
  destruct (bind_all fuel binds w1) as [C D]. cbv zeta in *. rewrite C, D, A. split.
  - change (get_ctx empty_world 0) with (@nil (bytes * stored)). rewrite insert_all_sorted; [reflexivity|].
    cbn [app]. apply (smap_map (stored_of fuel)). exact Hs.
  - unfold get_bind. rewrite B. cbn. rewrite insert_all_sorted; [reflexivity|exact Hb].
Qed.

(** every source kept in the source-level view compiles *)
Definition all_compile (fuel : nat) (sw : list (Z * sctx)) : Prop :=
  forall c, Forall (fun kv => compiled fuel (snd kv) <> None) (sget sw c).

Lemma forall_insert {A} (P : bytes * A -> Prop) m k v : Forall P m -> P (k, v) -> Forall P (map_insert m k v).
Proof.
  induction m as [|[k' v'] m IH]; cbn; intros Hm Hp; [auto|]. inversion Hm; subst.
  destruct (bytes_cmp k k'); auto.
Qed.

Lemma sstep_all_compile fuel sw o : all_compile fuel sw -> all_compile fuel (sstep fuel sw o).
Proof.
  intros H. destruct o as [c0 n src|b0 n v|f t|f t|c0 b0 n|c0 n]; cbn [sstep]; try exact H.
  - destruct (compiled fuel src) eqn:EC; [|exact H]. intros c. rewrite sget_zset. destruct (c =? c0); [|apply H].
    apply forall_insert; [apply H|]. cbn. congruence.
  - intros c. rewrite sget_zset. destruct (c =? t); apply H.
Qed.

Lemma srun_all_compile fuel : forall ops sw, all_compile fuel sw -> all_compile fuel (srun fuel sw ops).
Proof.
  induction ops as [|o r IH]; intros sw H; [exact H|]. cbn [srun fold_left]. apply IH. apply sstep_all_compile. exact H.
Qed.

(** Any history from scratch: the exec of (c, b) gives the result a fresh
    context gives after adding the surviving sources of c and binding the
    surviving values of b — whatever else the history did. *)
Theorem exec_equals_fresh_context fuel ops c b name :
  let w := fst (run_ops fuel empty_world ops) in
  exec_out fuel w c b name =
  exec_out fuel (fresh_world fuel (sget (srun fuel [] ops) c) (get_bind w b)) 0 0 name.
Proof.
  intros w. subst w.
  pose proof (history_refines fuel ops empty_world [] (refines_empty fuel) c) as [Rg Rs].
  pose proof (history_sorted fuel ops empty_world sorted_empty) as [_ Sb].
  pose proof (srun_all_compile fuel ops [] (fun c0 => Forall_nil _) c) as Hc.
  destruct (fresh_world_stores fuel _ _ Rs (Sb b) Hc) as [A B].
  apply exec_function_of_stores; [rewrite Rg, A; reflexivity|rewrite B; reflexivity].
Qed.
