(* Proofs/EqMaps.v — C04: == is reflexive on all NaN-free data values, maps included. *)
From Coq Require Import ZArith List Bool Lia.
From Rscel Require Import Base.Prims Base.F64 Base.Text Model.Value Model.Ops Spec.Wf.
From Rscel Require Import Proofs.OpsOrder Proofs.OpsColl.
Import ListNotations.
Open Scope Z_scope.

(** scalar data, lists and maps of them (nested), without NaN *)
Fixpoint data (v : value) : bool :=
  match v with
  | VInt _ | VUInt _ | VBool _ | VString _ | VBytes _ | VNull | VType _ | VTime _ | VDur _ => true
  | VFloat f => negb (f64_is_nan f)
  | VList l => (fix go (l : list value) := match l with [] => true | x :: r => data x && go r end) l
  | VMap m => (fix go (m : list (bytes * value)) := match m with [] => true | (_, x) :: r => data x && go r end) m
  | _ => false
  end.

Lemma keys_sorted_smap (m : list (bytes * value)) : keys_sorted (map fst m) = true -> smap m.
Proof.
  induction m as [|[k v] m IH]; [intros; exact I|]. intros H. cbn [smap].
  assert (A : keys_above k m /\ keys_sorted (map fst m) = true).
  { clear IH. revert k H. induction m as [|[k2 v2] m IHm]; intros k H; [split; [exact I|reflexivity]|].
    cbn [map fst keys_sorted] in H. destruct (bytes_cmp k k2) eqn:C; try discriminate.
    split; [|exact H]. cbn [keys_above]. split; [exact C|]. destruct (IHm k2 H) as [Ha _].
    eapply keys_above_trans; eauto. }
  destruct A as [A B]. split; [exact A|apply IH; exact B].
Qed.

Lemma vsize_map_cons k x m : vsize (VMap ((k, x) :: m)) = (vsize x + vsize (VMap m))%nat.
Proof. cbn. lia. Qed.

Lemma map_get_head k (x : value) m : map_get ((k, x) :: m) k = Some x.
Proof. cbn. rewrite bytes_eqb_refl. reflexivity. Qed.

Theorem eq_refl_data : forall n v, (vsize v < n)%nat -> wf v = true -> data v = true -> eq_ v v = VBool true.
Proof.
  induction n as [|n IH]; intros v Hn Hw Hp; [lia|].
  destruct v; try discriminate Hp; cbn [eq_ is_err type_prop].
  - rewrite Z.eqb_refl. reflexivity.
  - rewrite Z.eqb_refl. reflexivity.
  - rewrite f64_eqb_refl; [reflexivity|exact Hw|]. cbn in Hp. destruct (f64_is_nan f); [discriminate|reflexivity].
  - destruct b; reflexivity.
  - rewrite bytes_eqb_refl. reflexivity.
  - rewrite bytes_eqb_refl. reflexivity.
  - (* list *)
    rewrite Z.eqb_refl. cbn [negb].
    match goal with |- ?f l l = VBool true =>
      assert (G : forall l', (vsize (VList l') <= vsize (VList l))%nat -> wf (VList l') = true ->
                  data (VList l') = true -> f l' l' = VBool true) end.
    { induction l' as [|x l' IHl]; intros Hs Hw' Hp'; [reflexivity|].
      rewrite vsize_list_cons in Hs.
      cbn in Hw'. apply andb_true_iff in Hw'. destruct Hw' as [Wx Wl].
      cbn in Hp'. apply andb_true_iff in Hp'. destruct Hp' as [Px Pl].
      pose proof (vsize_pos (VList l')) as Hpos.
      cbn. rewrite (IH x); [|lia|exact Wx|exact Px]. cbn [is_true].
      apply IHl; [lia|exact Wl|exact Pl]. }
    apply G; [lia|exact Hw|exact Hp].
  - (* map: every key is found, first, with a value equal to itself *)
    cbn [wf] in Hw. apply andb_true_iff in Hw. destruct Hw as [Hs Hw]. apply keys_sorted_smap in Hs.
    match goal with |- (if ?g m then _ else _) = _ => assert (G : g m = true) end.
    { assert (Gen : forall pre suf, m = pre ++ suf -> smap m ->
                (vsize (VMap suf) <= vsize (VMap m))%nat ->
                (fix go (m0 : list (bytes * value)) : bool := match m0 with [] => true | (k, x) :: m' => bytes_ok k && wf x && go m' end) suf = true ->
                data (VMap suf) = true ->
                (fix go (l : list (bytes * value)) : bool :=
                   match l with
                   | [] => true
                   | (k, x) :: l' => match map_get m k with Some y => is_true (eq_ x y) && go l' | None => false end
                   end) suf = true).
      { intros pre suf. revert pre. induction suf as [|[k x] suf IHs]; intros pre Em Sm Hsz Hwf Hd; [reflexivity|].
        rewrite vsize_map_cons in Hsz. pose proof (vsize_pos (VMap suf)).
        apply andb_true_iff in Hwf. destruct Hwf as [Hwf1 Hwf2]. apply andb_true_iff in Hwf1. destruct Hwf1 as [_ Wx].
        cbn in Hd. apply andb_true_iff in Hd. destruct Hd as [Dx Ds].
        assert (Gk : map_get m k = Some x).
        { subst m. clear -Sm. induction pre as [|[k0 v0] pre IHp]; [apply map_get_head|].
          cbn [app smap] in Sm. destruct Sm as [Ka Sm']. cbn [app map_get].
          assert (Ne : bytes_eqb k k0 = false).
          { clear -Ka. induction pre as [|[k1 v1] pre IH]; cbn [app keys_above] in Ka.
            - destruct Ka as [C _]. rewrite bytes_eqb_cmp, bytes_cmp_antisym, C. reflexivity.
            - apply IH. destruct Ka as [_ Ka]. exact Ka. }
          rewrite Ne. apply IHp. exact Sm'. }
        rewrite Gk. rewrite (IH x); [|lia|exact Wx|exact Dx]. cbn [is_true andb].
        apply (IHs (pre ++ [(k, x)])); [rewrite <- app_assoc; exact Em|exact Sm|lia|exact Hwf2|exact Ds]. }
      apply (Gen [] m eq_refl Hs); [lia|exact Hw|exact Hp]. }
    rewrite G, Z.eqb_refl. reflexivity.
  - reflexivity.
  - rewrite bytes_eqb_refl. reflexivity.
  - rewrite Z.eqb_refl. reflexivity.
  - rewrite Z.eqb_refl. reflexivity.
Qed.
