(* Proofs/ParseFwd.v — C18: the parser only ever moves its scanner forward, so the position a parse reaches
   is a position of the source text; with Proofs/ParseBounds.v every span of the tree lies inside the source. *)
From Coq Require Import ZArith List Bool Lia.
From Rscel Require Import Base.Prims Base.F64 Base.Text Model.Value Model.Funcs Model.Lexer Model.Ast Model.Parser
     Proofs.Spans Proofs.LexFwd Proofs.ParseTp Proofs.ParseBounds.
Import ListNotations.
Open Scope Z_scope.

Definition sfw (t t' : tokenizer) : Prop := fwd (tz_scan t) (tz_scan t').
Definition pfw {A} (m : P A) : Prop := forall t a t', m t = POk a t' -> sfw t t'.

Lemma sfw_refl t : sfw t t. Proof. apply fwd_refl. Qed.
Lemma pfw_ret {A} (a : A) : pfw (pret a). Proof. intros t a0 t' E. injection E as _ <-. apply sfw_refl. Qed.
Lemma pfw_fail_here {A} : pfw (@fail_here A). Proof. intros t a t' E. discriminate. Qed.
Lemma pfw_fail_at {A} l : pfw (@fail_at A l). Proof. intros t a t' E. discriminate. Qed.
Lemma pfw_fuel {A} : pfw (fun _ : tokenizer => @PFuel A). Proof. intros t a t' E. discriminate. Qed.
Lemma pfw_bind {A B} (m : P A) (f : A -> P B) : pfw m -> (forall a, pfw (f a)) -> pfw (pbind m f).
Proof.
  intros Hm Hf t b t' E. unfold pbind in E. destruct (m t) as [a t1| |] eqn:M; try discriminate.
  eapply fwd_trans; [eapply Hm; eauto|eapply Hf; eauto].
Qed.
Lemma pfw_at {A} (f : tokenizer -> P A) : (forall t0, pfw (f t0)) -> pfw (fun t => f t t).
Proof. intros H t a t' E. eapply H; eauto. Qed.

Lemma tz_collect_fwd t o s eof : tz_collect t = (LOk o s, eof) -> fwd (tz_scan t) s.
Proof.
  unfold tz_collect. destruct (tz_eof t); [intros H; injection H as _ <- _; apply fwd_refl|].
  destruct (collect_token (tz_scan t)) as [[y|] s1| |] eqn:C; try discriminate; intros H; injection H as _ <- _; eapply collect_token_fwd; eauto.
Qed.
Lemma pfw_peek : pfw peek.
Proof.
  intros t o t' E. unfold peek, tz_peek in E. unfold sfw. destruct (tz_cur t); [injection E as _ <-; apply fwd_refl|].
  destruct (tz_collect t) as [[o1 s| |] eof] eqn:C; try discriminate. injection E as _ <-. cbn [tz_scan]. eapply tz_collect_fwd; eauto.
Qed.
Lemma pfw_next : pfw next.
Proof.
  intros t o t' E. unfold next, tz_next in E. unfold sfw. destruct (tz_cur t); [injection E as _ <-; apply fwd_refl|].
  destruct (tz_collect t) as [[o1 s| |] eof] eqn:C; try discriminate. injection E as _ <-. cbn [tz_scan]. eapply tz_collect_fwd; eauto.
Qed.
Lemma pfw_here : pfw here. Proof. intros t l t' E. injection E as _ <-. apply sfw_refl. Qed.

Ltac pfw_with tac :=
  repeat first
    [ tac | apply pfw_ret | apply pfw_fail_here | apply pfw_fail_at | apply pfw_fuel | apply pfw_peek | apply pfw_next | apply pfw_here
    | (apply pfw_bind; [|intros ?])
    | match goal with |- pfw (fun _ => _) =>
        let t0 := fresh "t" in let a := fresh "a" in let t' := fresh "t'" in let E := fresh "E" in let n := fresh "n" in let Hn := fresh "Hn" in
        intros t0 a t' E; cbv beta in E; remember (loop_fuel t0) as n eqn:Hn in E; clear Hn; revert t0 a t' E;
        match goal with |- forall t a t', ?m t = POk a t' -> sfw t t' => change (pfw m) end end
    | match goal with
      | |- pfw (match ?x with _ => _ end) => destruct x
      | |- pfw (if ?c then _ else _) => destruct c
      | |- pfw (let '(_, _) := ?p in _) => destruct p
      end ].
Ltac pf := pfw_with fail.

Section Levels.
  Variable rec_expr : P expr.
  Variable rec_src : chars -> pres unit.
  Hypothesis Hrec : pfw rec_expr.

  Lemma lloop_fw {A B O} (opof : token -> option O) (rhs : P B) (mk : A -> O -> B -> A) : pfw rhs ->
    forall n acc, pfw (lloop n opof rhs mk acc).
  Proof. intros Hr. induction n as [|n IH]; intros acc; cbn [lloop]; pfw_with ltac:(first [exact Hr|apply IH]). Qed.
  Lemma p_oplist_fw : forall n k cnt, pfw (p_oplist n k cnt).
  Proof. induction n as [|n IH]; intros k cnt; cbn [p_oplist]; pfw_with ltac:(apply IH). Qed.
  Lemma p_expr_list_fw : forall n ending acc, pfw (p_expr_list rec_expr n ending acc).
  Proof. induction n as [|n IH]; intros ending acc; cbn [p_expr_list]; pfw_with ltac:(first [exact Hrec|apply IH]). Qed.
  Lemma p_obj_inits_fw : forall n acc, pfw (p_obj_inits rec_expr n acc).
  Proof. induction n as [|n IH]; intros acc; cbn [p_obj_inits]; pfw_with ltac:(first [exact Hrec|apply IH]). Qed.
  Lemma check_segments_fw at_ segs : pfw (check_segments rec_src at_ segs).
  Proof. intros t u t' E. apply check_segments_same in E. subst. apply sfw_refl. Qed.
  Lemma p_primary_fw : pfw (p_primary rec_expr rec_src).
  Proof.
    unfold p_primary. pfw_with ltac:(first [exact Hrec|apply p_expr_list_fw|apply p_obj_inits_fw|apply check_segments_fw]).
  Qed.
  Lemma p_member_primes_fw : forall n acc, pfw (p_member_primes rec_expr n acc).
  Proof. induction n as [|n IH]; intros acc; cbn [p_member_primes]; pfw_with ltac:(first [exact Hrec|apply p_expr_list_fw|apply IH]). Qed.
  Lemma p_member_fw : pfw (p_member rec_expr rec_src).
  Proof. unfold p_member. pfw_with ltac:(first [apply p_primary_fw|apply p_member_primes_fw]). Qed.
  Lemma p_unary_fw : pfw (p_unary rec_expr rec_src).
  Proof. unfold p_unary. pfw_with ltac:(first [apply p_oplist_fw|apply p_member_fw]). Qed.
  Lemma p_mult_fw : pfw (p_mult rec_expr rec_src). Proof. unfold p_mult. pfw_with ltac:(first [apply p_unary_fw|apply lloop_fw; apply p_unary_fw]). Qed.
  Lemma p_addn_fw : pfw (p_addn rec_expr rec_src). Proof. unfold p_addn. pfw_with ltac:(first [apply p_mult_fw|apply lloop_fw; apply p_mult_fw]). Qed.
  Lemma p_rel_fw : pfw (p_rel rec_expr rec_src). Proof. unfold p_rel. pfw_with ltac:(first [apply p_addn_fw|apply lloop_fw; apply p_addn_fw]). Qed.
  Lemma p_cand_fw : pfw (p_cand rec_expr rec_src). Proof. unfold p_cand. pfw_with ltac:(first [apply p_rel_fw|apply lloop_fw; apply p_rel_fw]). Qed.
  Lemma p_cor_fw : pfw (p_cor rec_expr rec_src). Proof. unfold p_cor. pfw_with ltac:(first [apply p_cand_fw|apply lloop_fw; apply p_cand_fw]). Qed.
  Lemma p_pattern_fw : pfw (p_pattern rec_expr rec_src).
  Proof. unfold p_pattern. pfw_with ltac:(apply p_cor_fw). Qed.
  Lemma p_cases_fw : forall n comma rng acc, pfw (p_cases rec_expr rec_src n comma rng acc).
  Proof. induction n as [|n IH]; intros comma rng acc; cbn [p_cases]; pfw_with ltac:(first [exact Hrec|apply p_pattern_fw|apply IH]). Qed.
  Lemma p_expr_body_fw : pfw (p_expr_body rec_expr rec_src).
  Proof. unfold p_expr_body. pfw_with ltac:(first [exact Hrec|apply p_cor_fw|apply p_cases_fw]). Qed.
End Levels.

Theorem parser_moves_forward : forall fuel depth, pfw (p_expr_at fuel depth).
Proof.
  induction fuel as [|f IH]; intros depth; cbn [p_expr_at]; [apply pfw_fuel|]. destruct (32 <=? depth); [apply pfw_fail_here|].
  apply p_expr_body_fw. apply IH.
Qed.

(** the whole tree of a parsed program lies inside its source text: it starts at or after the beginning, and the
    position the parser reached - an upper bound of every span (Proofs/ParseBounds.v) - is the position of a
    prefix of the source *)
Theorem program_inside_source fuel src e t : parse_program fuel src = POk e t ->
  bnd (mkLoc 0 0) (expr_range e) (reach t) /\ exists pre, src = pre ++ sc_rest (tz_scan t) /\ reach t = loc_after (mkLoc 0 0) pre.
Proof.
  intros H. split; [exact (proj2 (program_positions _ _ _ _ H))|].
  unfold parse_program in H. apply pbind_ok in H. destruct H as (e0 & t0 & P0 & H). apply pbind_ok in H. destruct H as (o & t1 & P1 & H).
  destruct o; [discriminate|]. injection H as _ <-.
  pose proof (parser_moves_forward _ _ _ _ _ P0) as F0. pose proof (pfw_peek _ _ _ P1) as F1.
  destruct (fwd_trans _ _ _ F0 F1) as (pre & R & L). exists pre. cbn in R, L. split; assumption.
Qed.
