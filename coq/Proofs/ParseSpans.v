(* Proofs/ParseSpans.v — C18: in every tree the parser returns, at every depth, a node that is built from
   operands spans them: binary operators of all five levels, prefix runs, postfix chains, the outer
   operands of a conditional, match arms and map entries; a node without an operator has its operand's span. *)
From Coq Require Import ZArith List Bool Lia.
From Rscel Require Import Base.Prims Base.F64 Base.Text Model.Value Model.Funcs Model.Lexer Model.Ast Model.Parser
     Proofs.Spans Proofs.ParseTp.
Import ListNotations.
Open Scope Z_scope.

Section Sp.
  Variable rec : expr -> Prop.

  Definition sp_init (i : objinit) : Prop :=
    match i with ObjInit r k v => within (expr_range k) r /\ within (expr_range v) r /\ rec k /\ rec v end.
  Definition sp_primary (p : primary) : Prop :=
    match p with
    | PrParens _ e => rec e
    | PrList _ es => Forall rec es
    | PrObj _ inits => Forall sp_init inits
    | _ => True
    end.
  Definition sp_mprime (m : mprime) : Prop :=
    match m with MPCall _ args => Forall rec args | MPIndex _ e => rec e | MPAccess r ir _ => within ir r end.
  Definition sp_member (m : member) : Prop :=
    match m with Member r p ms => within (primary_range p) r /\ Forall (fun x => within (mprime_range x) r) ms /\
                                  sp_primary p /\ Forall sp_mprime ms end.
  Definition sp_unary (u : unary) : Prop :=
    match u with
    | UnMember r m => r = member_range m /\ sp_member m
    | UnNot r ops m | UnNeg r ops m => within (oplist_range ops) r /\ within (member_range m) r /\ sp_member m
    end.
  Fixpoint sp_mult (e : mult) : Prop :=
    match e with MulUn r u => r = unary_range u /\ sp_unary u
               | MulBin r l _ b => within (mult_range l) r /\ within (unary_range b) r /\ sp_mult l /\ sp_unary b end.
  Fixpoint sp_addn (e : addn) : Prop :=
    match e with AddUn r u => r = mult_range u /\ sp_mult u
               | AddBin r l _ b => within (addn_range l) r /\ within (mult_range b) r /\ sp_addn l /\ sp_mult b end.
  Fixpoint sp_rel (e : rel) : Prop :=
    match e with RelUn r u => r = addn_range u /\ sp_addn u
               | RelBin r l _ b => within (rel_range l) r /\ within (addn_range b) r /\ sp_rel l /\ sp_addn b end.
  Fixpoint sp_cand (e : cand) : Prop :=
    match e with AndUn r u => r = rel_range u /\ sp_rel u
               | AndBin r l b => within (cand_range l) r /\ within (rel_range b) r /\ sp_cand l /\ sp_rel b end.
  Fixpoint sp_cor (e : cor) : Prop :=
    match e with OrUn r u => r = cand_range u /\ sp_cand u
               | OrBin r l b => within (cor_range l) r /\ within (cand_range b) r /\ sp_cor l /\ sp_cand b end.
  Definition sp_pattern (p : mpat) : Prop := match p with MPatCmp _ _ _ o => sp_cor o | _ => True end.
  Definition sp_case (c : mcase) : Prop :=
    match c with MCase r p arm => within (mpat_range p) r /\ within (expr_range arm) r /\ sp_pattern p /\ rec arm end.
  Definition sp_expr_body (e : expr) : Prop :=
    match e with
    | EUnary r c => r = cor_range c /\ sp_cor c
    | ETernary r c t f => within (cor_range c) r /\ within (expr_range f) r /\ sp_cor c /\ sp_cor t /\ rec f
    | EMatch _ c cases => rec c /\ Forall sp_case cases
    end.
End Sp.

Fixpoint sp (fuel : nat) (e : expr) : Prop := match fuel with O => True | S f => sp_expr_body (sp f) e end.

Lemma within_refl r : within r r.
Proof. split; apply loc_le_refl. Qed.

Section Levels.
  Variable rec_expr : P expr.
  Variable rec_src : chars -> pres unit.
  Variable R : expr -> Prop.
  Hypothesis Hrec : pok R rec_expr.

  Ltac sc := first [ exact (proj1 (surrounding_contains _ _)) | exact (proj2 (surrounding_contains _ _)) ].

  Lemma sp_expr_list_ok : forall n ending acc, Forall R acc -> pok (Forall R) (p_expr_list rec_expr n ending acc).
  Proof. exact (p_expr_list_ok rec_expr R Hrec). Qed.

  Lemma sp_obj_inits_ok : forall n acc, Forall (sp_init R) acc -> pok (Forall (sp_init R)) (p_obj_inits rec_expr n acc).
  Proof.
    induction n as [|n IH]; intros acc Ha; cbn [p_obj_inits]; [apply pok_fuel|].
    eapply pok_bind; [apply pok_any|]. intros o _. destruct (is_tok o TRBrace); [apply pok_ret; apply Forall_rev; exact Ha|].
    eapply pok_bind; [exact Hrec|]. intros k Hk. eapply pok_bind; [apply pok_any|]. intros c _.
    destruct (negb (is_tok c TColon)); [apply pok_fail_here|].
    eapply pok_bind; [exact Hrec|]. intros v Hv. eapply pok_bind; [apply pok_any|]. intros o2 _.
    assert (Hi : sp_init R (ObjInit (surrounding (expr_range k) (expr_range v)) k v)) by (cbn [sp_init]; split; [sc|split; [sc|split; assumption]]).
    destruct (is_tok o2 TComma).
    - eapply pok_bind; [apply pok_any|]. intros _ _. apply IH. constructor; [exact Hi|exact Ha].
    - apply pok_ret. apply Forall_rev. constructor; [exact Hi|exact Ha].
  Qed.

  Lemma sp_primary_ok : pok (sp_primary R) (p_primary rec_expr rec_src).
  Proof.
    unfold p_primary. intros t0. revert t0. apply pok_at with (f := fun _ => _). intros _.
    eapply pok_bind; [apply pok_any|]. intros o _.
    destruct o as [[k l]|]; [|apply pok_fail_here].
    destruct k; try apply pok_fail_here; try (apply pok_ret; exact I);
      match goal with
      | |- context [p_expr_list] =>
          apply pok_at with (f := fun t => _); intros t1;
          (eapply pok_bind; [apply sp_expr_list_ok; constructor|]); intros es Hes; (eapply pok_bind; [apply pok_any|]); intros c _;
          (destruct c as [[ck cl]|]; [|apply pok_fail_here]); destruct ck; try apply pok_fail_here;
          (eapply pok_bind; [apply pok_any|]); intros _ _; apply pok_ret; exact Hes
      | |- context [p_obj_inits] =>
          apply pok_at with (f := fun t => _); intros t1;
          (eapply pok_bind; [apply sp_obj_inits_ok; constructor|]); intros inits Hi; (eapply pok_bind; [apply pok_any|]); intros c _;
          (destruct c as [[ck cl]|]; [|apply pok_fail_here]); destruct ck; try apply pok_fail_here;
          (eapply pok_bind; [apply pok_any|]); intros _ _; apply pok_ret; exact Hi
      | |- context [check_segments] => (eapply pok_bind; [apply pok_any|]); intros _ _; apply pok_ret; exact I
      | |- context [i64_max] => destruct (_ <=? i64_max); [apply pok_ret; exact I|apply pok_fail_at]
      | _ => (eapply pok_bind; [exact Hrec|]); intros e He; (eapply pok_bind; [apply pok_any|]); intros c _;
             (destruct c as [[ck cl]|]; [|apply pok_fail_at]); destruct ck; try apply pok_fail_at; apply pok_ret; exact He
      end.
  Qed.

  Lemma sp_member_primes_ok : forall n acc, Forall (sp_mprime R) acc -> pok (Forall (sp_mprime R)) (p_member_primes rec_expr n acc).
  Proof.
    induction n as [|n IH]; intros acc Ha; cbn [p_member_primes]; [apply pok_fuel|].
    eapply pok_bind; [apply pok_any|]. intros o _.
    destruct o as [[k l]|]; [|apply pok_ret; apply Forall_rev; exact Ha].
    destruct k; try (apply pok_ret; apply Forall_rev; exact Ha).
    - eapply pok_bind; [apply pok_any|]. intros _ _. eapply pok_bind; [apply pok_any|]. intros i _.
      destruct i as [[ik il]|]; [|apply pok_fail_here]. destruct ik; try apply pok_fail_here.
      apply IH. constructor; [cbn; sc|exact Ha].
    - eapply pok_bind; [apply pok_any|]. intros _ _. eapply pok_bind; [exact Hrec|]. intros e He.
      eapply pok_bind; [apply pok_any|]. intros c _. destruct c as [[ck cl]|]; [|apply pok_fail_here]. destruct ck; try apply pok_fail_here.
      apply IH. constructor; [exact He|exact Ha].
    - eapply pok_bind; [apply pok_any|]. intros _ _. apply pok_at with (f := fun t => _). intros t1.
      eapply pok_bind; [apply sp_expr_list_ok; constructor|]. intros args Hargs.
      eapply pok_bind; [apply pok_any|]. intros c _. destruct c as [[ck cl]|]; [|apply pok_fail_here]. destruct ck; try apply pok_fail_here.
      apply IH. constructor; [cbn; apply Forall_rev; exact Hargs|exact Ha].
  Qed.

  Lemma sp_member_ok : pok (sp_member R) (p_member rec_expr rec_src).
  Proof.
    unfold p_member. eapply pok_bind; [apply sp_primary_ok|]. intros p Hp. apply pok_at with (f := fun t => _). intros t1.
    eapply pok_bind; [apply sp_member_primes_ok; constructor|]. intros ms Hms. apply pok_ret.
    destruct (member_span_grows ms (primary_range p)) as [A B]. cbn [sp_member]. split; [exact A|split; [exact B|split; assumption]].
  Qed.

  Lemma sp_unary_ok : pok (sp_unary R) (p_unary rec_expr rec_src).
  Proof.
    unfold p_unary. eapply pok_bind; [apply pok_any|]. intros o _.
    assert (Plain : pok (sp_unary R) (let! m := p_member rec_expr rec_src in pret (UnMember (member_range m) m))).
    { eapply pok_bind; [apply sp_member_ok|]. intros m Hm. apply pok_ret. split; [reflexivity|exact Hm]. }
    destruct (tok_of o) as [k|]; [|exact Plain].
    destruct k; try exact Plain;
      (apply pok_at with (f := fun t => _); intros t1; eapply pok_bind; [apply pok_any|]; intros ops _;
       eapply pok_bind; [apply sp_member_ok|]; intros m Hm; apply pok_ret; cbn [sp_unary]; (split; [sc|split; [sc|exact Hm]])).
  Qed.

  Lemma sp_mult_ok : pok (sp_mult R) (p_mult rec_expr rec_src).
  Proof.
    unfold p_mult. eapply pok_bind; [apply sp_unary_ok|]. intros u Hu. apply pok_at with (f := fun t => _). intros t1.
    eapply (lloop_ok (sp_mult R) (sp_unary R)); [apply sp_unary_ok| |split; [reflexivity|exact Hu]].
    intros a o b Ha Hb. cbn [sp_mult]. split; [sc|split; [sc|split; assumption]].
  Qed.
  Lemma sp_addn_ok : pok (sp_addn R) (p_addn rec_expr rec_src).
  Proof.
    unfold p_addn. eapply pok_bind; [apply sp_mult_ok|]. intros u Hu. apply pok_at with (f := fun t => _). intros t1.
    eapply (lloop_ok (sp_addn R) (sp_mult R)); [apply sp_mult_ok| |split; [reflexivity|exact Hu]].
    intros a o b Ha Hb. cbn [sp_addn]. split; [sc|split; [sc|split; assumption]].
  Qed.
  Lemma sp_rel_ok : pok (sp_rel R) (p_rel rec_expr rec_src).
  Proof.
    unfold p_rel. eapply pok_bind; [apply sp_addn_ok|]. intros u Hu. apply pok_at with (f := fun t => _). intros t1.
    eapply (lloop_ok (sp_rel R) (sp_addn R)); [apply sp_addn_ok| |split; [reflexivity|exact Hu]].
    intros a o b Ha Hb. cbn [sp_rel]. split; [sc|split; [sc|split; assumption]].
  Qed.
  Lemma sp_cand_ok : pok (sp_cand R) (p_cand rec_expr rec_src).
  Proof.
    unfold p_cand. eapply pok_bind; [apply sp_rel_ok|]. intros u Hu. apply pok_at with (f := fun t => _). intros t1.
    eapply (lloop_ok (sp_cand R) (sp_rel R)); [apply sp_rel_ok| |split; [reflexivity|exact Hu]].
    intros a o b Ha Hb. cbn [sp_cand]. split; [sc|split; [sc|split; assumption]].
  Qed.
  Lemma sp_cor_ok : pok (sp_cor R) (p_cor rec_expr rec_src).
  Proof.
    unfold p_cor. eapply pok_bind; [apply sp_cand_ok|]. intros u Hu. apply pok_at with (f := fun t => _). intros t1.
    eapply (lloop_ok (sp_cor R) (sp_cand R)); [apply sp_cand_ok| |split; [reflexivity|exact Hu]].
    intros a o b Ha Hb. cbn [sp_cor]. split; [sc|split; [sc|split; assumption]].
  Qed.

  Lemma sp_pattern_ok : pok (sp_pattern R) (p_pattern rec_expr rec_src).
  Proof.
    unfold p_pattern. eapply pok_bind; [apply pok_any|]. intros start _. eapply pok_bind; [apply pok_any|]. intros o _.
    assert (Cmp : pok (sp_pattern R)
                    (let! o0 := peek in
                     let! op := match o0 with
                                | Some t => match cmpop_of (t_tok t) with Some c => let! _ := next in pret c | None => pret CEq end
                                | None => pret CEq
                                end in
                     let! ope := here in let! c := p_cor rec_expr rec_src in let! e := here in
                     pret (MPatCmp (mkRange start e) (mkRange start ope) op c))).
    { eapply pok_bind; [apply pok_any|]. intros o0 _. eapply pok_bind; [apply pok_any|]. intros op _.
      eapply pok_bind; [apply pok_any|]. intros ope _. eapply pok_bind; [apply sp_cor_ok|]. intros c Hc.
      eapply pok_bind; [apply pok_any|]. intros e _. apply pok_ret. exact Hc. }
    destruct o as [[k l]|]; [|exact Cmp]. destruct k; try exact Cmp.
    match goal with |- context [is_type_name ?i] => rename i into idn end.
    destruct (bytes_eqb idn _).
    - eapply pok_bind; [apply pok_any|]. intros _ _. eapply pok_bind; [apply pok_any|]. intros e _. apply pok_ret. exact I.
    - destruct (is_type_name idn); [|exact Cmp]. destruct (mtype_of idn); [|exact Cmp].
      eapply pok_bind; [apply pok_any|]. intros _ _. eapply pok_bind; [apply pok_any|]. intros e _. apply pok_ret. exact I.
  Qed.

  Lemma sp_cases_ok : forall n comma rng acc, Forall (sp_case R) acc ->
    pok (fun rc => Forall (sp_case R) (snd rc)) (p_cases rec_expr rec_src n comma rng acc).
  Proof.
    induction n as [|n IH]; intros comma rng acc Ha; cbn [p_cases]; [apply pok_fuel|].
    eapply pok_bind; [apply pok_any|]. intros rb _.
    assert (Go : pok (fun rc : range * list mcase => Forall (sp_case R) (snd rc))
                   (if negb comma then fail_here
                    else let! ct := next in
                         if negb (is_tok ct TCase) then fail_here
                         else let! pat := p_pattern rec_expr rec_src in
                              let! col := next in
                              if negb (is_tok col TColon) then fail_here
                              else let! e := rec_expr in
                                   let c := MCase (surrounding (mpat_range pat) (expr_range e)) pat e in
                                   let! cm := peek in
                                   if is_tok cm TComma then let! _ := next in p_cases rec_expr rec_src n true rng (c :: acc)
                                   else p_cases rec_expr rec_src n false rng (c :: acc))).
    { destruct (negb comma); [apply pok_fail_here|]. eapply pok_bind; [apply pok_any|]. intros ct _.
      destruct (negb (is_tok ct TCase)); [apply pok_fail_here|]. eapply pok_bind; [apply sp_pattern_ok|]. intros pat Hp.
      eapply pok_bind; [apply pok_any|]. intros col _. destruct (negb (is_tok col TColon)); [apply pok_fail_here|].
      eapply pok_bind; [exact Hrec|]. intros e He. eapply pok_bind; [apply pok_any|]. intros cm _.
      assert (Hc : sp_case R (MCase (surrounding (mpat_range pat) (expr_range e)) pat e))
        by (cbn [sp_case]; split; [sc|split; [sc|split; assumption]]).
      destruct (is_tok cm TComma); [eapply pok_bind; [apply pok_any|]; intros _ _|]; apply IH; (constructor; [exact Hc|exact Ha]). }
    destruct rb as [[k l]|]; [|exact Go]. destruct k; try exact Go.
    apply pok_ret. cbn [snd]. apply Forall_rev. exact Ha.
  Qed.

  Lemma sp_expr_body_ok : pok (sp_expr_body R) (p_expr_body rec_expr rec_src).
  Proof.
    unfold p_expr_body. eapply pok_bind; [apply pok_any|]. intros o _.
    assert (Plain : pok (sp_expr_body R)
                      (let! l := p_cor rec_expr rec_src in
                       let! q := peek in
                       if is_tok q TQuestion then
                         let! _ := next in let! tc := p_cor rec_expr rec_src in let! col := next in
                         if negb (is_tok col TColon) then fail_here
                         else let! fc := rec_expr in pret (ETernary (surrounding (cor_range l) (expr_range fc)) l tc fc)
                       else pret (EUnary (cor_range l) l))).
    { eapply pok_bind; [apply sp_cor_ok|]. intros l Hl. eapply pok_bind; [apply pok_any|]. intros q _.
      destruct (is_tok q TQuestion); [|apply pok_ret; split; [reflexivity|exact Hl]].
      eapply pok_bind; [apply pok_any|]. intros _ _. eapply pok_bind; [apply sp_cor_ok|]. intros tc Htc.
      eapply pok_bind; [apply pok_any|]. intros col _. destruct (negb (is_tok col TColon)); [apply pok_fail_here|].
      eapply pok_bind; [exact Hrec|]. intros fc Hfc. apply pok_ret. cbn [sp_expr_body].
      split; [sc|split; [sc|split; [exact Hl|split; assumption]]]. }
    destruct o as [[k l]|]; [|exact Plain]. destruct k; try exact Plain.
    eapply pok_bind; [apply pok_any|]. intros _ _. eapply pok_bind; [exact Hrec|]. intros c Hc.
    eapply pok_bind; [apply pok_any|]. intros lb _. destruct (negb (is_tok lb TLBrace)); [apply pok_fail_here|].
    apply pok_at with (f := fun t => _). intros t1. eapply pok_bind; [apply sp_cases_ok; constructor|]. intros rc Hrc.
    eapply pok_bind; [apply pok_any|]. intros _ _. apply pok_ret. split; assumption.
  Qed.
End Levels.

(** Every tree the parser returns, at every depth: a node built from operands spans them. *)
Theorem parser_spans_nest : forall fuel depth t e t', p_expr_at fuel depth t = POk e t' -> sp fuel e.
Proof.
  induction fuel as [|f IH]; intros depth t e t' H; [exact I|]. cbn [p_expr_at] in H.
  destruct (32 <=? depth); [discriminate H|]. cbn [sp].
  eapply (sp_expr_body_ok (p_expr_at f (depth + 1)) _ (sp f)); [|exact H]. intros t0 e0 t0' H0. eapply IH; eauto.
Qed.

Corollary program_spans_nest fuel src e t : parse_program fuel src = POk e t -> sp fuel e.
Proof.
  unfold parse_program, pbind. destruct (p_expr fuel (tz_init src)) as [e0 t0| |] eqn:Pe; try discriminate.
  destruct (peek t0) as [o t1| |]; try discriminate. destruct o; try discriminate. intros E. injection E as <- _.
  unfold p_expr in Pe. eapply parser_spans_nest; eauto.
Qed.
