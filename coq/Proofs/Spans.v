(* Proofs/Spans.v — C18: the algebra of source spans.  Every parent span in the
   parser is computed with [surrounding]; it is the least span containing both
   arguments.  Scanner positions are exactly (lines consumed, characters since
   the last newline), so every reported location is a position of the source:
   inside a line or immediately at its end. *)
From Coq Require Import ZArith List Bool Lia.
From Rscel Require Import Base.Prims Base.F64 Base.Text Model.Value Model.Lexer Model.Ast Model.Parser Proofs.Literals.
Import ListNotations.
Open Scope Z_scope.

Definition loc_le (a b : loc) : Prop := l_line a < l_line b \/ (l_line a = l_line b /\ l_col a <= l_col b).

Lemma loc_leb_spec a b : loc_leb a b = true <-> loc_le a b.
Proof.
  unfold loc_leb, loc_le. rewrite orb_true_iff, andb_true_iff, Z.ltb_lt, Z.eqb_eq, Z.leb_le. tauto.
Qed.

Lemma loc_le_refl a : loc_le a a.
Proof. unfold loc_le. lia. Qed.
Lemma loc_le_trans a b c : loc_le a b -> loc_le b c -> loc_le a c.
Proof. unfold loc_le. lia. Qed.
Lemma loc_le_total a b : loc_le a b \/ loc_le b a.
Proof. unfold loc_le. lia. Qed.
Lemma loc_le_antisym a b : loc_le a b -> loc_le b a -> a = b.
Proof. destruct a, b. unfold loc_le. cbn. intros. f_equal; lia. Qed.

Lemma loc_min_le_l a b : loc_le (loc_min a b) a.
Proof.
  unfold loc_min. destruct (loc_leb a b) eqn:E; [apply loc_le_refl|].
  destruct (loc_le_total a b) as [H|H]; [apply loc_leb_spec in H; congruence|exact H].
Qed.
Lemma loc_min_le_r a b : loc_le (loc_min a b) b.
Proof. unfold loc_min. destruct (loc_leb a b) eqn:E; [apply loc_leb_spec; exact E|apply loc_le_refl]. Qed.
Lemma loc_max_ge_l a b : loc_le a (loc_max a b).
Proof. unfold loc_max. destruct (loc_leb a b) eqn:E; [apply loc_leb_spec; exact E|apply loc_le_refl]. Qed.
Lemma loc_max_ge_r a b : loc_le b (loc_max a b).
Proof.
  unfold loc_max. destruct (loc_leb a b) eqn:E; [apply loc_le_refl|].
  destruct (loc_le_total a b) as [H|H]; [apply loc_leb_spec in H; congruence|exact H].
Qed.

(** [within a b]: span a lies inside span b *)
Definition within (a b : range) : Prop := loc_le (r_start b) (r_start a) /\ loc_le (r_end a) (r_end b).
Definition well_ordered (a : range) : Prop := loc_le (r_start a) (r_end a).
Definition before (a b : range) : Prop := loc_le (r_end a) (r_start b).

Theorem surrounding_contains a b : within a (surrounding a b) /\ within b (surrounding a b).
Proof.
  unfold within, surrounding. cbn [r_start r_end].
  repeat split; auto using loc_min_le_l, loc_min_le_r, loc_max_ge_l, loc_max_ge_r.
Qed.

(** the least such span *)
Theorem surrounding_least a b c : within a c -> within b c -> within (surrounding a b) c.
Proof.
  unfold within, surrounding. cbn [r_start r_end]. intros [A1 A2] [B1 B2]. split.
  - unfold loc_min. destruct (loc_leb _ _); assumption.
  - unfold loc_max. destruct (loc_leb _ _); assumption.
Qed.

Theorem surrounding_well_ordered a b : well_ordered a -> well_ordered (surrounding a b).
Proof.
  unfold well_ordered, surrounding. cbn [r_start r_end]. intros H.
  eapply loc_le_trans; [apply loc_min_le_l|]. eapply loc_le_trans; [exact H|apply loc_max_ge_l].
Qed.

(** for operands in source order the parent starts where the left one starts and ends where the right one ends *)
Theorem surrounding_ordered a b : well_ordered a -> well_ordered b -> before a b ->
  r_start (surrounding a b) = r_start a /\ r_end (surrounding a b) = r_end b.
Proof.
  unfold well_ordered, before, surrounding. cbn [r_start r_end]. intros Ha Hb Hab. split.
  - unfold loc_min. destruct (loc_leb (r_start a) (r_start b)) eqn:E; [reflexivity|].
    apply loc_le_antisym; [|eapply loc_le_trans; [exact Ha|exact Hab]].
    destruct (loc_le_total (r_start a) (r_start b)) as [H|H]; [apply loc_leb_spec in H; congruence|exact H].
  - unfold loc_max. destruct (loc_leb (r_end a) (r_end b)) eqn:E; [reflexivity|].
    apply loc_le_antisym; [eapply loc_le_trans; [exact Hab|exact Hb]|].
    destruct (loc_le_total (r_end a) (r_end b)) as [H|H]; [apply loc_leb_spec in H; congruence|exact H].
Qed.

Theorem within_trans a b c : within a b -> within b c -> within a c.
Proof. unfold within. intros [A1 A2] [B1 B2]. split; eapply loc_le_trans; eauto. Qed.

(** a postfix chain grows its span monotonically *)
Theorem member_span_grows : forall ms r0,
  within r0 (fold_left (fun r m => surrounding r (mprime_range m)) ms r0) /\
  Forall (fun m => within (mprime_range m) (fold_left (fun r m => surrounding r (mprime_range m)) ms r0)) ms.
Proof.
  induction ms as [|m ms IH]; intros r0; cbn [fold_left].
  - split; [split; apply loc_le_refl|constructor].
  - destruct (IH (surrounding r0 (mprime_range m))) as [A B]. destruct (surrounding_contains r0 (mprime_range m)) as [C D].
    split; [eapply within_trans; eauto|]. constructor; [eapply within_trans; eauto|exact B].
Qed.

(* ---- positions --------------------------------------------------------------------------- *)

(** position after reading [pre] from position (line, col) *)
Fixpoint loc_after (l : loc) (pre : chars) : loc :=
  match pre with
  | [] => l
  | c :: r => loc_after (if c =? 10 then mkLoc (l_line l + 1) 0 else mkLoc (l_line l) (l_col l + 1)) r
  end.

Theorem advance_loc : forall pre s rest, sc_rest s = pre ++ rest ->
  sc_loc (advance s pre) = loc_after (sc_loc s) pre /\ sc_rest (advance s pre) = rest.
Proof.
  induction pre as [|c r IH]; intros s rest Hs; [split; [reflexivity|exact Hs]|].
  cbn [advance loc_after]. cbn [app] in Hs.
  assert (E : sc_rest (snd (sc_next s)) = r ++ rest /\
              sc_loc (snd (sc_next s)) = (if c =? 10 then mkLoc (l_line (sc_loc s) + 1) 0 else mkLoc (l_line (sc_loc s)) (l_col (sc_loc s) + 1))).
  { unfold sc_next. rewrite Hs. destruct (c =? 10); cbn; split; reflexivity. }
  destruct E as [E1 E2]. destruct (IH _ rest E1) as [A B]. rewrite A, E2. split; [reflexivity|exact B].
Qed.

(** positions only move forward *)
Theorem loc_after_forward : forall pre l, loc_le l (loc_after l pre).
Proof.
  induction pre as [|c r IH]; intros l; [apply loc_le_refl|]. cbn [loc_after].
  eapply loc_le_trans; [|apply IH]. unfold loc_le. destruct (c =? 10); cbn; lia.
Qed.

(** the position after a prefix of the source: the number of newlines consumed,
    and the number of characters since the last one — a position of the source
    (inside a line or immediately at its end) *)
Definition count_nl (pre : chars) : Z := Z.of_nat (length (filter (fun c => c =? 10) pre)).
Fixpoint since_nl (pre : chars) (acc : Z) : Z :=
  match pre with [] => acc | c :: r => since_nl r (if c =? 10 then 0 else acc + 1) end.

Theorem loc_after_counts : forall pre l,
  loc_after l pre = mkLoc (l_line l + count_nl pre) (since_nl pre (l_col l)).
Proof.
  induction pre as [|c r IH]; intros l.
  - cbn. destruct l. cbn. f_equal. lia.
  - cbn [loc_after since_nl]. rewrite IH. unfold count_nl. cbn [filter]. destruct (c =? 10); cbn [l_line l_col length]; f_equal; lia.
Qed.

(** A syntax error inside an f-string segment is reported at the start of the
    literal, never at the segment-relative position of the nested parser. *)
Theorem segment_error_at_literal rec_src at_ : forall segs t l,
  check_segments rec_src at_ segs t = PErr l -> l = at_.
Proof.
  induction segs as [|sg r IH]; intros t l H; cbn [check_segments] in H.
  - discriminate H.
  - destruct sg as [s|s]; [exact (IH t l H)|].
    destruct (rec_src s) as [u t'|l'|]; [exact (IH t l H)| |discriminate H].
    unfold fail_at in H. congruence.
Qed.
