(* Proofs/CompileTotal.v — C01: the compiler model never answers with the panic outcome, for any source:
   labels always resolve (Proofs/CompileWf.v), compile-time evaluation never panics (Proofs/Total.v), and
   the parser hands the compiler only trees whose type patterns name built-in types (Proofs/ParseTp.v). *)
From Coq Require Import ZArith List Bool Lia.
From Rscel Require Import Base.Prims Base.F64 Base.Text Model.Value Model.Ops Model.Funcs Model.Interp
     Model.Lexer Model.Ast Model.Parser Model.Compile Proofs.Asm Proofs.TreeAlg Proofs.CompileWf Proofs.Total Proofs.Shapes Proofs.ParseTp.
Import ListNotations.
Local Open Scope nat_scope.

Definition cnp {A} (r : cres A) : Prop := r <> CPanic.

Lemma cbind_np {A B} (m : C A) (f : A -> C B) n :
  cnp (m n) -> (forall a n', m n = COk a n' -> cnp (f a n')) -> cnp (cbind m f n).
Proof. unfold cnp, cbind. intros Hm Hf. destruct (m n) as [a n'| | | |]; try discriminate; [eapply Hf; reflexivity|congruence]. Qed.
Lemma cret_np {A} (a : A) n : cnp (cret a n).
Proof. unfold cnp, cret. discriminate. Qed.

Lemma resolve_or_panic_np c n : (exists bc, resolve c = Some bc) -> cnp (resolve_or_panic c n).
Proof. intros (bc & H). unfold cnp, resolve_or_panic. rewrite H. discriminate. Qed.

Lemma check_for_const_np fuel node n : (exists bc, resolve (into_bytecode (cp_node node)) = Some bc) -> cnp (check_for_const fuel node n).
Proof.
  intros Hr. unfold check_for_const. apply cbind_np; [apply resolve_or_panic_np; exact Hr|]. intros bc n' _.
  pose proof (vm_never_panics fuel compile_env bc true O []) as Hv.
  destruct (run fuel compile_env bc true 0 []) as [[v|e| | |] lg]; cbn [fst] in Hv; try congruence.
  all: try (unfold cnp; discriminate); try apply cret_np.
  destruct (runtime_requested lg || contains_err v); apply cret_np.
Qed.

(** label code without labels or jumps in front of and behind closed code still resolves *)
Definition plain_items (p : pcode) : Prop := Forall (fun x => match x with PBc _ => True | _ => False end) p.
Lemma plain_uses p : plain_items p -> puses p = [] /\ pdefs p = [].
Proof.
  induction 1 as [|x r Hx _ [A B]]; [split; reflexivity|]. destruct x; try contradiction. cbn [puses]. split; [exact A|].
  unfold pdefs at 1. cbn [plabs]. rewrite pdefs_at. exact B.
Qed.

Lemma wrapped_resolves n n' nv pre post : good n n' nv -> plain_items pre -> plain_items post ->
  exists bc, resolve (pre ++ into_bytecode nv ++ post) = Some bc.
Proof.
  intros G Hpre Hpost. destruct (good_closed _ _ _ G) as (c & [[R C] Nd _]).
  destruct (plain_uses _ Hpre) as [U1 D1]. destruct (plain_uses _ Hpost) as [U2 D2].
  destruct (closed_resolves (pre ++ into_bytecode nv ++ post)) as (bc & [Rb _]).
  - rewrite !pdefs_app, D1, D2, app_nil_r. exact Nd.
  - intros l. rewrite !puses_app, !pdefs_app, U1, U2, D1, D2, !app_nil_r. cbn [app]. apply C.
  - exists bc. exact Rb.
Qed.

Section Level.
  Variable fuel : nat.
  Variable rec_expr : expr -> C cprog.
  Variable R : expr -> Prop.
  Hypothesis Hnp : forall e n, R e -> cnp (rec_expr e n).
  Hypothesis Hgood : forall e n cp n', rec_expr e n = COk cp n' -> n <= n' /\ good n n' (cp_node cp).
  Hypothesis Hsrc : forall s e t, p_expr fuel (tz_init s) = POk e t -> R e.

  Lemma c_list_np : forall es n, Forall R es -> cnp (c_list rec_expr es n).
  Proof.
    induction es as [|e r IH]; intros n H; cbn [c_list]; [apply cret_np|]. inversion H; subst.
    apply cbind_np; [apply Hnp; assumption|]. intros x n1 _. apply cbind_np; [apply IH; assumption|]. intros xs n2 _. apply cret_np.
  Qed.

  Lemma c_lit_np l n : cnp (c_lit fuel rec_expr l n).
  Proof.
    destruct l; cbn [c_lit]; try apply cret_np.
    match goal with |- cnp (?go segs [] [] O n) => assert (G : forall segs0 acc ps k n0, cnp (go segs0 acc ps k n0)); [|apply G] end.
    induction segs0 as [|sg r IH]; intros acc ps k n0; [apply cret_np|]. destruct sg as [s|s]; [apply IH|].
    destruct (p_expr fuel (tz_init s)) as [e t| |] eqn:Hp; try (unfold cnp; discriminate).
    pose proof (Hnp e O (Hsrc _ _ _ Hp)) as He. destruct (rec_expr e O) as [cp ne| | | |] eqn:Hc; try (unfold cnp; discriminate); [|congruence].
    destruct (Hgood _ _ _ _ Hc) as [_ G]. destruct (good_resolves _ _ _ G) as (code & H & Rc & _). rewrite Rc. apply IH.
  Qed.

  Lemma c_primary_np p n : tp_primary R p -> cnp (c_primary fuel rec_expr p n).
  Proof.
    destruct p; cbn [c_primary tp_primary]; intros H.
    - apply cret_np.
    - apply Hnp. exact H.
    - apply cbind_np; [apply c_list_np; exact H|]. intros cs n1 _. apply cret_np.
    - apply cbind_np; [|intros cs n1 _; apply cret_np].
      revert n. induction H as [|[r0 k v] rest [Hk Hv] _ IH]; intros n; [apply cret_np|].
      apply cbind_np; [apply Hnp; exact Hk|]. intros ck n1 _. apply cbind_np; [apply Hnp; exact Hv|]. intros cv n2 _.
      apply cbind_np; [apply IH|]. intros rs n3 _. apply cret_np.
    - apply c_lit_np.
  Qed.

  Lemma c_mprime_np cur m n0 n : n0 <= n -> good n0 n (cp_node cur) -> tp_mprime R m -> cnp (c_mprime fuel rec_expr cur m n).
  Proof.
    intros Hle Gc H. destruct m; cbn [c_mprime tp_mprime] in *.
    - destruct (cp_node cur) as [c|o]; [apply cret_np|].
      match goal with |- cnp ((match ?fo with Some _ => _ | None => _ end) _) => destruct fo end; apply cret_np.
    - match goal with |- cnp (cbind (?g args) _ n) => assert (Gp : forall l m, Forall R l -> cnp (g l m)) end.
      { intros l m Hl. revert m. induction Hl as [|a rest Ha _ IH]; intros m; [apply cret_np|].
        apply cbind_np; [apply Hnp; exact Ha|]. intros ca n1 Hca. destruct (Hgood _ _ _ _ Hca) as [_ Ga].
        apply cbind_np; [apply resolve_or_panic_np; destruct (good_resolves _ _ _ Ga) as (code & Hh & Rc & _); eauto|]. intros bc n2 _.
        apply cbind_np; [apply IH|]. intros rs n3 _. apply cret_np. }
      apply cbind_np; [apply Gp; exact H|].
      intros [pushes ps] n1 Hp. apply check_for_const_np. cbn [cp_node into_bytecode fst snd].
        apply (wrapped_resolves n0 n (cp_node cur) pushes [PBc (ICall (zlen args))] Gc); [|constructor; [exact I|constructor]].
      clear -Hp. revert pushes ps n n1 Hp. induction args as [|a rest IH]; intros pushes ps n n1 Hp.
      + apply cret_ok in Hp. destruct Hp as [E _]. injection E as -> _. constructor.
      + apply cbind_ok in Hp. destruct Hp as (ca & m1 & _ & Hp). apply cbind_ok in Hp. destruct Hp as (bc & m2 & _ & Hp).
        apply cbind_ok in Hp. destruct Hp as ([rp rs] & m3 & Hr & Hp). apply cret_ok in Hp. destruct Hp as [E _]. injection E as -> _.
        constructor; [exact I|]. cbn [fst]. eapply IH; eauto.
    - apply cbind_np; [apply Hnp; exact H|]. intros ci n1 _. apply cret_np.
  Qed.

  Lemma c_member_np m n : tp_member R m -> cnp (c_member fuel rec_expr m n).
  Proof.
    destruct m as [r p ms]. cbn [c_member tp_member]. intros [Hp Hms].
    apply cbind_np; [apply c_primary_np; exact Hp|]. intros cp n1 Hcp.
    destruct (c_primary_good fuel rec_expr Hgood _ _ _ _ Hcp) as [L1 G1].
    assert (G0 : good n n1 (cp_node cp)) by exact G1. clear G1 Hcp. revert cp n1 L1 G0.
    induction Hms as [|x rest Hx _ IH]; intros cur n1 L1 G0; [apply cret_np|].
    apply cbind_np; [eapply c_mprime_np; eauto|]. intros c' n2 Hc'.
    destruct (c_mprime_good fuel rec_expr Hgood cur x n n1 c' n2 L1 G0 Hc') as [L2 G2]. apply (IH c' n2); [lia|exact G2].
  Qed.

  Lemma c_unary_np u n : tp_unary R u -> cnp (c_unary fuel rec_expr u n).
  Proof.
    destruct u; cbn [c_unary tp_unary]; intros H; [apply c_member_np; exact H| |];
      (apply cbind_np; [apply c_member_np; exact H|]; intros cm n1 _; apply cret_np).
  Qed.
  Lemma c_mult_np : forall e n, tp_mult R e -> cnp (c_mult fuel rec_expr e n).
  Proof.
    induction e as [r l IH op u|r u]; intros n H; cbn [c_mult tp_mult] in *; [|apply c_unary_np; exact H]. destruct H as [Hl Hu].
    apply cbind_np; [apply IH; exact Hl|]. intros cl n1 _. apply cbind_np; [apply c_unary_np; exact Hu|]. intros cr n2 _. apply cret_np.
  Qed.
  Lemma c_addn_np : forall e n, tp_addn R e -> cnp (c_addn fuel rec_expr e n).
  Proof.
    induction e as [r l IH op u|r u]; intros n H; cbn [c_addn tp_addn] in *; [|apply c_mult_np; exact H]. destruct H as [Hl Hu].
    apply cbind_np; [apply IH; exact Hl|]. intros cl n1 _. apply cbind_np; [apply c_mult_np; exact Hu|]. intros cr n2 _. apply cret_np.
  Qed.
  Lemma c_rel_np : forall e n, tp_rel R e -> cnp (c_rel fuel rec_expr e n).
  Proof.
    induction e as [r l IH op u|r u]; intros n H; cbn [c_rel tp_rel] in *; [|apply c_addn_np; exact H]. destruct H as [Hl Hu].
    apply cbind_np; [apply IH; exact Hl|]. intros cl n1 _. apply cbind_np; [apply c_addn_np; exact Hu|]. intros cr n2 _. apply cret_np.
  Qed.
  Lemma c_cand_chain_np : forall e lbl n, tp_cand R e -> cnp (c_cand_chain fuel rec_expr e lbl n).
  Proof.
    induction e as [r l IH u|r u]; intros lbl n H; cbn [c_cand_chain tp_cand] in *; [|apply c_rel_np; exact H]. destruct H as [Hl Hu].
    apply cbind_np; [apply IH; exact Hl|]. intros cl n1 _. apply cbind_np; [apply c_rel_np; exact Hu|]. intros cr n2 _. apply cret_np.
  Qed.
  Lemma c_cand_np e n : tp_cand R e -> cnp (c_cand fuel rec_expr e n).
  Proof.
    intros H. unfold c_cand. apply cbind_np; [unfold cnp, new_label; discriminate|]. intros lbl n1 _.
    apply cbind_np; [apply c_cand_chain_np; exact H|]. intros c n2 _. apply cret_np.
  Qed.
  Lemma c_cor_chain_np : forall e lbl n, tp_cor R e -> cnp (c_cor_chain fuel rec_expr e lbl n).
  Proof.
    induction e as [r l IH u|r u]; intros lbl n H; cbn [c_cor_chain tp_cor] in *; [|apply c_cand_np; exact H]. destruct H as [Hl Hu].
    apply cbind_np; [apply IH; exact Hl|]. intros cl n1 _. apply cbind_np; [apply c_cand_np; exact Hu|]. intros cr n2 _. apply cret_np.
  Qed.
  Lemma c_cor_np e n : tp_cor R e -> cnp (c_cor fuel rec_expr e n).
  Proof.
    intros H. unfold c_cor. apply cbind_np; [unfold cnp, new_label; discriminate|]. intros lbl n1 _.
    apply cbind_np; [apply c_cor_chain_np; exact H|]. intros c n2 _. apply cret_np.
  Qed.

  Lemma c_pattern_np p n : tp_pattern R p -> cnp (c_pattern fuel rec_expr p n).
  Proof.
    destruct p; cbn [c_pattern tp_pattern]; intros H.
    - apply cbind_np; [apply c_cor_np; exact H|]. intros co n1 _. apply cret_np.
    - rewrite H. apply cret_np.
    - apply cret_np.
  Qed.

  Lemma c_expr_body_np e n : tp_expr_body R e -> cnp (c_expr_body fuel rec_expr e n).
  Proof.
    destruct e; cbn [c_expr_body tp_expr_body]; intros H.
    - destruct H as (Hc & Ht & Hf).
      apply cbind_np; [apply c_cor_np; exact Hc|]. intros cc n1 _. apply cbind_np; [apply c_cor_np; exact Ht|]. intros ct n2 _.
      apply cbind_np; [apply Hnp; exact Hf|]. intros cf n3 _.
      destruct (cp_node cc) as [cb|v].
      + apply cbind_np; [unfold cnp, new_label; discriminate|]. intros a1 m1 _.
        apply cbind_np; [unfold cnp, new_label; discriminate|]. intros a2 m2 _. apply cret_np.
      + destruct (is_err v); [|destruct (is_truthy v)]; apply cret_np.
    - destruct H as [Hc Hcases].
      apply cbind_np; [apply Hnp; exact Hc|]. intros cc n1 _.
      apply cbind_np.
      + clear -Hcases Hnp Hgood Hsrc. revert n1. induction Hcases as [|[rc p arm] rest [Hp Ha] _ IH]; intros n1; [apply cret_np|].
        apply cbind_np; [apply c_pattern_np; exact Hp|]. intros cp m1 _. apply cbind_np; [apply Hnp; exact Ha|]. intros ca m2 _.
        apply cbind_np; [apply IH|]. intros rs m3 _. apply cret_np.
      + intros [parts pps] n2 _. apply cbind_np; [unfold cnp, new_label; discriminate|]. intros am m1 _.
        apply cbind_np; [|intros body m2 _; apply cret_np]. cbn [fst].
        clear. revert m1. induction parts as [|[pb eb] r IH]; intros m1; [apply cret_np|].
        apply cbind_np; [unfold cnp, new_label; discriminate|]. intros ac m2 _. apply cbind_np; [apply IH|]. intros rest m3 _. apply cret_np.
    - apply c_cor_np. exact H.
  Qed.
End Level.

(** Every expression the parser can return compiles without the panic outcome, at every fuel. *)
Theorem c_expr_np : forall fuel e n, tp fuel e -> cnp (c_expr fuel e n).
Proof.
  induction fuel as [|f IH]; intros e n H; [unfold cnp; cbn; discriminate|]. cbn [c_expr tp] in *.
  apply (c_expr_body_np f (c_expr f) (tp f)); [exact IH|apply c_expr_good| |exact H].
  intros s e0 t Hp. unfold p_expr in Hp. eapply parser_type_patterns; eauto.
Qed.

Theorem compile_source_never_panics fuel src : compile_source fuel src <> CPanic.
Proof.
  unfold compile_source. destruct (parse_program fuel src) as [e t| |] eqn:Hp; try discriminate.
  assert (Ht : tp fuel e).
  { unfold parse_program, pbind in Hp. destruct (p_expr fuel (tz_init src)) as [e0 t0| |] eqn:Pe; try discriminate.
    destruct (peek t0) as [o t1| |]; try discriminate. destruct o; try discriminate. injection Hp as <- _.
    unfold p_expr in Pe. eapply parser_type_patterns; eauto. }
  pose proof (c_expr_np fuel e 0 Ht) as Hn. destruct (c_expr fuel e 0) as [cp n| | | |] eqn:Hc; try discriminate; [|congruence].
  destruct (compiled_code_is_valid _ _ _ _ _ Hc) as (code & H & Hr & _). rewrite Hr. discriminate.
Qed.

Theorem compile_checked_never_panics fuel src : compile_checked fuel src <> CPanic.
Proof. unfold compile_checked. destruct (_ <? _)%Z; [discriminate|apply compile_source_never_panics]. Qed.
