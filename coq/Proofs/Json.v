(* Proofs/Json.v — C12: a value bound through JSON arrives as the value bound
   directly (unsigned integers that fit a signed one arrive signed). *)
From Coq Require Import ZArith List Bool Lia.
From Coq Require Import Floats.SpecFloat.
From Rscel Require Import Base.Prims Base.F64 Model.Value Model.Ops Model.Json Spec.Wf.
From Rscel Require Import Proofs.OpsOrder Proofs.OpsColl Proofs.ValueInd.
Import ListNotations.
Open Scope Z_scope.

Lemma map_insert_first {A} k (v : A) m : keys_above k m -> map_insert m k v = (k, v) :: m.
Proof. destruct m as [|[k' v'] m]; cbn; [reflexivity|]. intros [H _]. rewrite H. reflexivity. Qed.

Lemma keys_sorted_above {A} k (m : list (bytes * A)) :
  keys_sorted (k :: map fst m) = true -> keys_above k m /\ keys_sorted (map fst m) = true.
Proof.
  revert k. induction m as [|[k2 v2] m IH]; intros k; cbn [map fst keys_sorted keys_above]; [auto|].
  destruct (bytes_cmp k k2) eqn:C; try discriminate. intros H. split; [|exact H]. split; [reflexivity|].
  destruct (IH k2 H) as [Ha _]. eapply keys_above_trans; eauto.
Qed.

Theorem json_roundtrip : forall v j, wf v = true -> json_of_value v = Some j -> value_of_json j = canon v.
Proof.
  induction v as [l IH|m IH|v Hv] using value_ind_nested; intros j Hw Hj.
  - cbn [json_of_value] in Hj. cbn [canon].
    match type of Hj with option_map _ (?g l) = _ => set (go := g) in *; destruct (go l) as [js|] eqn:G; [|discriminate] end.
    cbn in Hj. inversion Hj; subst j. clear Hj. cbn [value_of_json]. f_equal.
    cbn [wf] in Hw.
    revert js G Hw. induction IH as [|x r Hx Hr IHr]; intros js G Hw; cbn in G.
    + inversion G. reflexivity.
    + destruct (json_of_value x) as [jx|] eqn:Jx; [|discriminate]. fold go in G. destruct (go r) as [jr|] eqn:Gr; [|discriminate].
      inversion G; subst js. apply andb_true_iff in Hw. destruct Hw as [Hwx Hwr]. cbn [map].
      rewrite (Hx jx Hwx eq_refl). f_equal. apply IHr; [reflexivity|exact Hwr].
  - cbn [json_of_value] in Hj. cbn [canon].
    match type of Hj with option_map _ (?g m) = _ => set (go := g) in *; destruct (go m) as [js|] eqn:G; [|discriminate] end.
    cbn in Hj. inversion Hj; subst j. clear Hj. cbn [value_of_json]. f_equal.
    cbn [wf] in Hw. apply andb_true_iff in Hw. destruct Hw as [Hs Hw].
    revert js G Hw Hs. induction IH as [|[k x] r Hx Hr IHr]; intros js G Hw Hs; cbn in G.
    + inversion G. reflexivity.
    + destruct (json_of_value x) as [jx|] eqn:Jx; [|discriminate]. fold go in G. destruct (go r) as [jr|] eqn:Gr; [|discriminate].
      inversion G; subst js. apply andb_true_iff in Hw. destruct Hw as [Hwx Hwr].
      apply andb_true_iff in Hwx. destruct Hwx as [_ Hwx]. cbn [snd] in Hx.
      destruct (keys_sorted_above k r Hs) as [Ha Hs'].
      rewrite (IHr jr eq_refl Hwr Hs'). rewrite (Hx jx Hwx Jx). cbn [map fst snd].
      apply map_insert_first.
      clear -Ha. induction r as [|[k2 v2] r IH]; cbn in *; [auto|]. destruct Ha; split; auto.
  - destruct v; try (destruct Hv); cbn in Hj; try discriminate; cbn [canon].
    + inversion Hj; subst j. cbn [wf] in Hw. unfold in_i64 in Hw. destruct (z <? 0) eqn:Z0; cbn [value_of_json]; [reflexivity|].
      destruct (z <=? 9223372036854775807) eqn:L; [reflexivity|]. exfalso.
      apply andb_true_iff in Hw. destruct Hw as [_ Hw]. apply Z.leb_le in Hw. apply Z.leb_gt in L. unfold i64_max in Hw. lia.
    + inversion Hj; subst j. reflexivity.
    + destruct (f64_is_finite f); [|discriminate]. inversion Hj; subst j. reflexivity.
    + inversion Hj; subst j. reflexivity.
    + inversion Hj; subst j. reflexivity.
    + inversion Hj; subst j. reflexivity.
Qed.
