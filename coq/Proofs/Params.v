(* Proofs/Params.v — C17: the parameter list of a compiled expression is
   exactly the list of its free identifiers (Spec/FreeIdents.v). *)
From Coq Require Import ZArith List Bool Lia.
From Rscel Require Import Base.Prims Base.F64 Base.Text Model.Value Model.Ops Model.Funcs Model.Interp
     Model.Lexer Model.Ast Model.Parser Model.Compile Spec.FreeIdents.
Import ListNotations.
Open Scope Z_scope.

Ltac inv H := inversion H; subst; clear H.

Lemma cbind_ok {A B} (m : C A) (f : A -> C B) n b n' :
  cbind m f n = COk b n' -> exists a n1, m n = COk a n1 /\ f a n1 = COk b n'.
Proof. unfold cbind. destruct (m n) as [a n1| | | |]; try discriminate. eauto. Qed.

Ltac cinv H :=
  let a := fresh "a" in let n1 := fresh "n" in let H1 := fresh "Hc" in
  apply cbind_ok in H; destruct H as (a & n1 & H1 & H).

Lemma cret_ok {A} (a b : A) n n' : cret a n = COk b n' -> a = b /\ n = n'.
Proof. unfold cret. intros H. inv H. auto. Qed.

Section Level.
  Variable fuel : nat.
  Variable rec_expr : expr -> C cprog.
  Variable rec_fi : expr -> list bytes.
  Variable src_fi : chars -> list bytes.
  (** the recursive call agrees (this is the induction hypothesis on the fuel) *)
  Hypothesis Hrec : forall e n cp n', rec_expr e n = COk cp n' -> cp_params cp = rec_fi e.
  Hypothesis Hsrc : forall s e t, p_expr fuel (tz_init s) = POk e t -> src_fi s = rec_fi e.

  Lemma check_for_const_params node n cp n' :
    check_for_const fuel node n = COk cp n' -> cp_params cp = cp_params node.
  Proof.
    unfold check_for_const. intros H. cinv H. unfold resolve_or_panic in Hc.
    destruct (run fuel compile_env a true 0 []) as [[v|e| | |] lg]; try discriminate H.
    - destruct (runtime_requested lg || contains_err v); apply cret_ok in H; destruct H as [<- _]; reflexivity.
    - apply cret_ok in H. destruct H as [<- _]. reflexivity.
  Qed.

  Lemma c_list_params : forall es n cs n',
    c_list rec_expr es n = COk cs n' -> flat_map cp_params cs = flat_map rec_fi es.
  Proof.
    induction es as [|e r IH]; intros n cs n' H; cbn [c_list] in H.
    - apply cret_ok in H. destruct H as [<- _]. reflexivity.
    - cinv H. cinv H. apply cret_ok in H. destruct H as [<- _]. cbn [flat_map].
      rewrite (Hrec _ _ _ _ Hc), (IH _ _ _ Hc0). reflexivity.
  Qed.

  Lemma from_children_params cs op f : cp_params (from_children cs op f) = flat_map cp_params cs.
  Proof. unfold from_children. destruct (all_const cs); reflexivity. Qed.

  Lemma c_lit_params l n cp n' : c_lit fuel rec_expr l n = COk cp n' -> cp_params cp = fi_lit src_fi l.
  Proof.
    destruct l; cbn [c_lit]; try (intros H; apply cret_ok in H; destruct H as [<- _]; reflexivity).
    cbn [fi_lit]. intros H.
    match type of H with ?go segs [] [] O n = _ =>
      assert (G : forall segs0 acc ps k n0 cp0 n0', go segs0 acc ps k n0 = COk cp0 n0' ->
                  cp_params cp0 = ps ++ flat_map (fun s => match s with FExpr t => src_fi t | FLit _ => [] end) segs0) end.
    { induction segs0 as [|sg r IH]; intros acc ps k n0 cp0 n0' H0.
      - apply cret_ok in H0. destruct H0 as [<- _]. cbn. rewrite app_nil_r. reflexivity.
      - destruct sg as [s|s].
        + apply IH in H0. exact H0.
        + destruct (p_expr fuel (tz_init s)) as [e t| |] eqn:Hp; try discriminate H0.
          destruct (rec_expr e O) as [cpe ne| | | |] eqn:He; try discriminate H0.
          destruct (resolve (into_bytecode (cp_node cpe))); try discriminate H0.
          apply IH in H0. rewrite H0. unfold union. cbn [flat_map].
          rewrite (Hsrc _ _ _ Hp), <- (Hrec _ _ _ _ He), app_assoc. reflexivity. }
    apply G in H. exact H.
  Qed.

  Lemma c_primary_params p n cp n' :
    c_primary fuel rec_expr p n = COk cp n' -> cp_params cp = fi_primary rec_fi src_fi p.
  Proof.
    destruct p; cbn [c_primary fi_primary]; intros H.
    - apply cret_ok in H. destruct H as [<- _]. reflexivity.
    - apply Hrec in H. exact H.
    - cinv H. apply cret_ok in H. destruct H as [<- _]. rewrite from_children_params. eapply c_list_params; eauto.
    - cinv H. apply cret_ok in H. destruct H as [<- _]. rewrite from_children_params.
      revert a n n0 Hc. induction inits as [|[r0 k v] rest IH]; intros a n n0 Hc.
      + apply cret_ok in Hc. destruct Hc as [<- _]. reflexivity.
      + cinv Hc. cinv Hc. cinv Hc. apply cret_ok in Hc. destruct Hc as [<- _]. cbn [flat_map].
        rewrite (Hrec _ _ _ _ Hc0), (Hrec _ _ _ _ Hc1), (IH _ _ _ Hc2). rewrite <- app_assoc. reflexivity.
    - eapply c_lit_params; eauto.
  Qed.

  Lemma compile2_params i f a b : cp_params (compile2 i f a b) = cp_params a ++ cp_params b.
  Proof. unfold compile2. destruct (cp_node a), (cp_node b); reflexivity. Qed.

  Lemma c_mprime_params cur m n cp n' :
    c_mprime fuel rec_expr cur m n = COk cp n' -> cp_params cp = fi_mprime rec_fi (cp_params cur) m.
  Proof.
    destruct m; cbn [c_mprime fi_mprime]; intros H.
    - destruct (cp_node cur) as [c|o].
      + apply cret_ok in H. destruct H as [<- _]. reflexivity.
      + destruct (match o with VMap _ => match access o (utf8_encode name) with VErr _ => None | v => Some v end | _ => None end);
          apply cret_ok in H; destruct H as [<- _]; reflexivity.
    - cinv H. apply check_for_const_params in H. rewrite H. clear H. cbn [cp_params]. unfold union. f_equal.
      revert a n n0 Hc. induction args as [|e rest IH]; intros a n n0 Hc.
      + apply cret_ok in Hc. destruct Hc as [<- _]. reflexivity.
      + cinv Hc. cinv Hc. cinv Hc. apply cret_ok in Hc. destruct Hc as [<- _]. cbn [snd flat_map]. unfold union.
        rewrite (Hrec _ _ _ _ Hc0), (IH _ _ _ Hc2). reflexivity.
    - cinv H. apply cret_ok in H. destruct H as [<- _]. rewrite compile2_params, (Hrec _ _ _ _ Hc). reflexivity.
  Qed.

  Lemma c_member_params m n cp n' :
    c_member fuel rec_expr m n = COk cp n' -> cp_params cp = fi_member rec_fi src_fi m.
  Proof.
    destruct m as [r p ms]. cbn [c_member fi_member]. intros H. cinv H.
    apply c_primary_params in Hc. rewrite <- Hc. clear Hc.
    revert a n0 H. induction ms as [|x ms IH]; intros cur n0 H; cbn [fold_left].
    - apply cret_ok in H. destruct H as [<- _]. reflexivity.
    - cinv H. apply c_mprime_params in Hc. rewrite <- Hc. eapply IH; eauto.
  Qed.

  Lemma c_unary_params u n cp n' :
    c_unary fuel rec_expr u n = COk cp n' -> cp_params cp = fi_unary rec_fi src_fi u.
  Proof.
    destruct u; cbn [c_unary fi_unary]; intros H.
    - eapply c_member_params; eauto.
    - cinv H. apply cret_ok in H. destruct H as [<- _]. cbn. unfold union. rewrite app_nil_r. eapply c_member_params; eauto.
    - cinv H. apply cret_ok in H. destruct H as [<- _]. cbn. unfold union. rewrite app_nil_r. eapply c_member_params; eauto.
  Qed.

  Lemma c_mult_params : forall e n cp n', c_mult fuel rec_expr e n = COk cp n' -> cp_params cp = fi_mult rec_fi src_fi e.
  Proof.
    induction e as [r l IH op u|r u]; intros n cp n' H; cbn [c_mult fi_mult] in *.
    - cinv H. cinv H. apply cret_ok in H. destruct H as [<- _].
      destruct op; rewrite compile2_params, (IH _ _ _ Hc), (c_unary_params _ _ _ _ Hc0); reflexivity.
    - eapply c_unary_params; eauto.
  Qed.

  Lemma c_addn_params : forall e n cp n', c_addn fuel rec_expr e n = COk cp n' -> cp_params cp = fi_addn rec_fi src_fi e.
  Proof.
    induction e as [r l IH op u|r u]; intros n cp n' H; cbn [c_addn fi_addn] in *.
    - cinv H. cinv H. apply cret_ok in H. destruct H as [<- _].
      destruct op; rewrite compile2_params, (IH _ _ _ Hc), (c_mult_params _ _ _ _ Hc0); reflexivity.
    - eapply c_mult_params; eauto.
  Qed.

  Lemma c_rel_params : forall e n cp n', c_rel fuel rec_expr e n = COk cp n' -> cp_params cp = fi_rel rec_fi src_fi e.
  Proof.
    induction e as [r l IH op u|r u]; intros n cp n' H; cbn [c_rel fi_rel] in *.
    - cinv H. cinv H. apply cret_ok in H. destruct H as [<- _].
      destruct op; rewrite compile2_params, (IH _ _ _ Hc), (c_addn_params _ _ _ _ Hc0); reflexivity.
    - eapply c_addn_params; eauto.
  Qed.

  Lemma c_cand_chain_params : forall e lbl n cp n',
    c_cand_chain fuel rec_expr e lbl n = COk cp n' -> cp_params cp = fi_cand rec_fi src_fi e.
  Proof.
    induction e as [r l IH u|r u]; intros lbl n cp n' H; cbn [c_cand_chain fi_cand] in *.
    - cinv H. cinv H. apply cret_ok in H. destruct H as [<- _]. cbn [cp_params]. unfold union.
      rewrite (IH _ _ _ _ Hc), (c_rel_params _ _ _ _ Hc0). reflexivity.
    - eapply c_rel_params; eauto.
  Qed.

  Lemma append_if_bytecode_params c x : cp_params (append_if_bytecode c x) = cp_params c.
  Proof. unfold append_if_bytecode. destruct (cp_node c); reflexivity. Qed.

  Lemma c_cand_params e n cp n' : c_cand fuel rec_expr e n = COk cp n' -> cp_params cp = fi_cand rec_fi src_fi e.
  Proof.
    unfold c_cand. intros H. cinv H. cinv H. apply cret_ok in H. destruct H as [<- _].
    rewrite append_if_bytecode_params. eapply c_cand_chain_params; eauto.
  Qed.

  Lemma c_cor_chain_params : forall e lbl n cp n',
    c_cor_chain fuel rec_expr e lbl n = COk cp n' -> cp_params cp = fi_cor rec_fi src_fi e.
  Proof.
    induction e as [r l IH u|r u]; intros lbl n cp n' H; cbn [c_cor_chain fi_cor] in *.
    - cinv H. cinv H. apply cret_ok in H. destruct H as [<- _]. cbn [cp_params]. unfold union.
      rewrite (IH _ _ _ _ Hc), (c_cand_params _ _ _ _ Hc0). reflexivity.
    - eapply c_cand_params; eauto.
  Qed.

  Lemma c_cor_params e n cp n' : c_cor fuel rec_expr e n = COk cp n' -> cp_params cp = fi_cor rec_fi src_fi e.
  Proof.
    unfold c_cor. intros H. cinv H. cinv H. apply cret_ok in H. destruct H as [<- _].
    rewrite append_if_bytecode_params. eapply c_cor_chain_params; eauto.
  Qed.

  Lemma c_pattern_params p n r n' : c_pattern fuel rec_expr p n = COk r n' -> snd r = fi_pattern rec_fi src_fi p.
  Proof.
    destruct p; cbn [c_pattern fi_pattern]; intros H.
    - cinv H. apply cret_ok in H. destruct H as [<- _]. cbn [snd]. eapply c_cor_params; eauto.
    - destruct (is_type_name (utf8_encode name)); [|discriminate H]. apply cret_ok in H. destruct H as [<- _]. reflexivity.
    - apply cret_ok in H. destruct H as [<- _]. reflexivity.
  Qed.

  Lemma c_expr_body_params e n cp n' :
    c_expr_body fuel rec_expr e n = COk cp n' -> cp_params cp = fi_expr_body rec_fi src_fi e.
  Proof.
    destruct e; cbn [c_expr_body fi_expr_body]; intros H.
    - (* ternary *)
      cinv H. cinv H. cinv H.
      rewrite <- (c_cor_params _ _ _ _ Hc), <- (c_cor_params _ _ _ _ Hc0), <- (Hrec _ _ _ _ Hc1).
      destruct (cp_node a) as [cb|v].
      + cinv H. cinv H. apply cret_ok in H. destruct H as [<- _]. reflexivity.
      + destruct (is_err v); [|destruct (is_truthy v)]; apply cret_ok in H; destruct H as [<- _]; reflexivity.
    - (* match *)
      cinv H. cinv H. cinv H. cinv H. apply cret_ok in H. destruct H as [<- _]. cbn [cp_params]. unfold union.
      rewrite (Hrec _ _ _ _ Hc). f_equal.
      clear Hc Hc1 Hc2. revert a0 n0 n1 Hc0. induction cases as [|[r0 p arm] rest IH]; intros a0 n0 n1 Hc0.
      + apply cret_ok in Hc0. destruct Hc0 as [<- _]. reflexivity.
      + cinv Hc0. cinv Hc0. cinv Hc0. apply cret_ok in Hc0. destruct Hc0 as [<- _]. cbn [snd fi_cases]. unfold union.
        rewrite (c_pattern_params _ _ _ _ Hc), (Hrec _ _ _ _ Hc1), (IH _ _ _ Hc2). reflexivity.
    - eapply c_cor_params; eauto.
  Qed.
End Level.

(** The parameters of a compiled expression are exactly its free identifiers,
    in every syntactic position, by induction on the nesting depth. *)
Theorem params_are_free_idents : forall fuel e n cp n',
  c_expr fuel e n = COk cp n' -> cp_params cp = free_idents fuel e.
Proof.
  induction fuel as [|f IH]; intros e n cp n' H; [discriminate H|].
  cbn [c_expr free_idents] in *.
  eapply (c_expr_body_params f (c_expr f) (free_idents f)); eauto.
  intros s e0 t Hp. rewrite Hp. reflexivity.
Qed.

Lemma bytes_cmp_eq_eq : forall x z, bytes_cmp x z = Eq -> x = z.
Proof.
  induction x as [|a x IHx]; destruct z as [|b z]; cbn; intros C; try discriminate; auto.
  destruct (a ?= b) eqn:Cab; try discriminate. apply Z.compare_eq in Cab. f_equal; auto.
Qed.

Lemma insert_sorted_in x y l : In y (insert_sorted x l) <-> y = x \/ In y l.
Proof.
  induction l as [|z l IH]; cbn; [intuition congruence|].
  destruct (bytes_cmp x z) eqn:C; cbn.
  - apply bytes_cmp_eq_eq in C. subst. intuition congruence.
  - intuition congruence.
  - rewrite IH. intuition congruence.
Qed.

Lemma sort_params_in y l : In y (sort_params l) <-> In y l.
Proof.
  unfold sort_params. induction l as [|x l IH]; cbn; [tauto|]. rewrite insert_sorted_in, IH. intuition congruence.
Qed.

(** Program::params(): a name is reported iff it is a free identifier of the source. *)
Theorem program_params_cover_and_sound : forall fuel src p n,
  compile_source fuel src = COk p n ->
  forall x, In x (pr_params p) <-> In x (free_idents fuel (pr_ast p)).
Proof.
  intros fuel src p n H x. unfold compile_source in H.
  destruct (parse_program fuel src) as [e t| |]; try discriminate H.
  destruct (c_expr fuel e O) as [cp n1| | | |] eqn:Hc; try discriminate H.
  destruct (resolve (into_bytecode (cp_node cp))); try discriminate H.
  inv H. cbn [pr_params pr_ast]. rewrite sort_params_in, (params_are_free_idents _ _ _ _ _ Hc). tauto.
Qed.
