(* Proofs/Relevance.v — C17: evaluation reads only the identifiers the code can resolve.  Two bindings that
   agree on a set S of names give the same outcome (value, error, log) for every program whose
   resolvable identifiers lie in S.  An identifier pushed immediately before Access is a field name and one
   pushed immediately before Call is a callee: neither is ever resolved against the bindings, so they do
   not count.  The whole interpreter and every built-in function are covered. *)
From Coq Require Import ZArith List Bool Lia Permutation.
From Rscel Require Import Base.Prims Base.F64 Base.Text Model.Strings Model.Time Model.Value Model.Ops Model.Dispatch Model.Funcs Model.Interp
     Proofs.OpsColl Proofs.Conv Proofs.OpsOrder.
Import ListNotations.
Open Scope Z_scope.


Lemma forall_insert' {A} (P : bytes * A -> Prop) m k v : Forall P m -> P (k, v) -> Forall P (map_insert m k v).
Proof.
  induction 1 as [|[k2 v2] m0 Hx Hm IH]; intros Hk; cbn [map_insert]; [constructor; [exact Hk|constructor]|].
  destruct (bytes_cmp k k2); repeat (constructor; auto).
Qed.

Section Rel.
  Variable S : bytes -> Prop.

  (** every identifier that can be resolved out of this value is in S *)
  Fixpoint okv (v : value) : Prop :=
    match v with
    | VIdent n => S n
    | VList l => (fix go (l : list value) : Prop := match l with [] => True | x :: r => okv x /\ go r end) l
    | VMap m => (fix go (m : list (bytes * value)) : Prop := match m with [] => True | (_, x) :: r => okv x /\ go r end) m
    | VCode c =>
        (fix goc (c : list instr) : Prop :=
           match c with
           | [] => True
           | IPush v :: r =>
               match v, r with
               | VIdent _, IAccess :: _ => goc r
               | VIdent _, ICall _ :: _ => goc r
               | _, _ => okv v /\ goc r
               end
           | _ :: r => goc r
           end) c
    | _ => True
    end.
  Definition okc (c : code) : Prop := okv (VCode c).

  Lemma okv_list l : okv (VList l) <-> Forall okv l.
  Proof. induction l as [|x r IH]; cbn; [split; auto|]. split; [intros [A B]; constructor; [exact A|apply IH; exact B]|].
    intros H. inversion H; subst. split; [assumption|apply IH; assumption]. Qed.
  Lemma okv_map m : okv (VMap m) <-> Forall (fun kv => okv (snd kv)) m.
  Proof. induction m as [|[k x] r IH]; cbn; [split; auto|]. split; [intros [A B]; constructor; [exact A|apply IH; exact B]|].
    intros H. inversion H; subst. split; [assumption|apply IH; assumption]. Qed.

  Definition noresolve_at (c : code) (pc : nat) : Prop :=
    nth_error c pc = Some IAccess \/ exists k, nth_error c pc = Some (ICall k).
  Definition field_push (c : code) (pc : nat) : Prop :=
    exists n, nth_error c pc = Some (IPush (VIdent n)) /\ noresolve_at c (Datatypes.S pc).

  Lemma okc_nth : forall c pc v, okc c -> nth_error c pc = Some (IPush v) -> field_push c pc \/ okv v.
  Proof.
    unfold okc. induction c as [|i r IH]; intros pc v H Hn; [destruct pc; discriminate|].
    destruct pc as [|pc]; cbn in Hn.
    - injection Hn as ->. cbn in H. destruct v; try (right; exact (proj1 H)).
      destruct r as [|[] r']; try (right; exact (proj1 H)); left; exists s; (split; [reflexivity|]).
      + left. reflexivity.
      + right. exists n. reflexivity.
    - assert (Hr : okv (VCode r)).
      { cbn in H. destruct i; try exact H. destruct v0; try exact (proj2 H). destruct r as [|[] r']; try exact (proj2 H); exact H. }
      destruct (IH pc v Hr Hn) as [(n & A & B)|B]; [left; exists n; split; [exact A|]|right; exact B].
      destruct B as [B|(k & B)]; [left; exact B|right; exists k; exact B].
  Qed.

  Definition oksv (x : sval) : Prop := match x with SVal v => okv v | SBound _ _ this => okv this end.
  Definition okst (st : stack) : Prop := Forall oksv st.

  (** the two computations do the same thing, and what they return satisfies P *)
  Definition meq {A} (P : A -> Prop) (m m' : M A) : Prop :=
    forall lg, m lg = m' lg /\ (forall a lg', m lg = (ROk a, lg') -> P a).

  Lemma meq_ret {A} (P : A -> Prop) a : P a -> meq P (mret a) (mret a).
  Proof. intros H lg. split; [reflexivity|]. cbn. intros a0 lg' E. injection E as <- <-. exact H. Qed.
  Lemma meq_fail {A} (P : A -> Prop) e : meq P (mfail e) (mfail e).
  Proof. intros lg. split; [reflexivity|]. cbn. intros a0 lg' E. discriminate. Qed.
  Lemma meq_fail_runtime {A} (P : A -> Prop) e : meq P (mfail_runtime e) (mfail_runtime e).
  Proof. intros lg. split; [reflexivity|]. cbn. intros a0 lg' E. discriminate. Qed.
  Lemma meq_lift {A} (P : A -> Prop) r : (forall a, r = ROk a -> P a) -> meq P (mlift r) (mlift r).
  Proof. intros H lg. split; [reflexivity|]. cbn. intros a0 lg' E. injection E as E _. auto. Qed.
  Lemma meq_bind {A B} (P : A -> Prop) (Q : B -> Prop) m m' f f' :
    meq P m m' -> (forall a, P a -> meq Q (f a) (f' a)) -> meq Q (mbind m f) (mbind m' f').
  Proof.
    intros Hm Hf lg. unfold mbind. destruct (Hm lg) as [E Pa]. rewrite <- E.
    destruct (m lg) as [[a|e| | |] lg1]; try (split; [reflexivity|intros; discriminate]).
    apply Hf. eapply Pa. reflexivity.
  Qed.
  Lemma meq_weaken {A} (P Q : A -> Prop) m m' : meq P m m' -> (forall a, P a -> Q a) -> meq Q m m'.
  Proof. intros H HPQ lg. destruct (H lg) as [E Pa]. split; [exact E|]. intros a lg' Ea. apply HPQ. eauto. Qed.

  Lemma meq_bind_ret {A B} (Q : B -> Prop) (a : A) (f f' : A -> M B) : meq Q (f a) (f' a) -> meq Q (mbind (mret a) f) (mbind (mret a) f').
  Proof. intros H lg. exact (H lg). Qed.

  (** environments that differ only outside S *)
  Record agree (E E' : env) : Prop := mkAgree {
    ag_bound : e_bound E = e_bound E';
    ag_progs : e_progs E = e_progs E';
    ag_ufuncs : e_ufuncs E = e_ufuncs E';
    ag_runtime : e_runtime E = e_runtime E';
    ag_now : e_now E = e_now E';
    ag_sorted : smap (e_params E) /\ smap (e_params E');
    ag_params : forall n, S n -> map_get (e_params E) n = map_get (e_params E') n;
    ag_okparams : forall n v, S n -> map_get (e_params E) n = Some v -> okv v;
    ag_okprogs : forall n c, S n -> assoc n (e_progs E) = Some c -> okc c;
    ag_okufuncs : forall n v, assoc n (e_ufuncs E) = Some (UFConst v) -> okv v
  }.

  Lemma agree_type E E' n : agree E E' -> env_type E n = env_type E' n.
  Proof. intros A. unfold env_type. rewrite (ag_bound _ _ A). reflexivity. Qed.
  Lemma agree_param E E' n : agree E E' -> S n -> env_param E n = env_param E' n.
  Proof. intros A Hn. unfold env_param. rewrite (ag_bound _ _ A), (ag_params _ _ A n Hn). reflexivity. Qed.
  Lemma agree_has_func E E' n : agree E E' -> has_func E n = has_func E' n.
  Proof. intros A. unfold has_func. rewrite (ag_bound _ _ A), (ag_ufuncs _ _ A). reflexivity. Qed.
  Lemma agree_has_macro E E' n : agree E E' -> has_macro E n = has_macro E' n.
  Proof. intros A. unfold has_macro. rewrite (ag_bound _ _ A), (ag_runtime _ _ A). reflexivity. Qed.
  Lemma agree_folding E E' : agree E E' -> folding E = folding E'.
  Proof. intros A. unfold folding. rewrite (ag_now _ _ A). reflexivity. Qed.

  Lemma agree_bind E E' k v : agree E E' -> okv v -> agree (bind_param E k v) (bind_param E' k v).
  Proof.
    intros A Hv. destruct A as [A1 A2 A3 A4 A5 [A6 A6'] A7 A8 A9 A10].
    constructor; cbn [bind_param e_bound e_params e_progs e_ufuncs e_runtime e_now]; auto.
    - split; apply map_insert_sorted; assumption.
    - intros n Hn. rewrite !map_get_insert by assumption. destruct (bytes_eqb n k); auto.
    - intros n v0 Hn. rewrite map_get_insert by assumption. destruct (bytes_eqb n k); [intros E0; injection E0 as <-; exact Hv|apply A8; exact Hn].
  Qed.

  Lemma agree_empty : agree empty_env empty_env.
  Proof. constructor; cbn; auto; try discriminate. Qed.
End Rel.

Arguments okv S v : simpl never.

Section Lock.
  Variable S : bytes -> Prop.
  Notation okv := (okv S).
  Notation okc := (okc S).
  Notation okst := (okst S).
  Notation oksv := (oksv S).
  Notation agree := (agree S).
  Notation meq := (meq).

  Definition ok1 (f : value -> value) : Prop := forall a, okv a -> okv (f a).
  Definition ok2 (f : value -> value -> value) : Prop := forall a b, okv a -> okv b -> okv (f a b).

  Variable rs : runner.
  Hypothesis Hrs : forall E E' c r d, agree E E' -> okc c -> meq okv (rs E c r d) (rs E' c r d).
  Hypothesis Hfun : forall now n t a v, okv t -> Forall okv a -> call_default now n t a = Some (ROk v) -> okv v.
  Hypothesis Hctor : forall now tn a v, Forall okv a -> construct_type now tn a = ROk v -> okv v.
  Hypothesis Hor : ok2 or_.   Hypothesis Hand : ok2 and_. Hypothesis Hnot : ok1 not_.  Hypothesis Hneg : ok1 neg.
  Hypothesis Hadd : ok2 add.  Hypothesis Hsub : ok2 sub.  Hypothesis Hmul : ok2 mul.   Hypothesis Hdiv : ok2 div.
  Hypothesis Hrem : ok2 rem.  Hypothesis Hlt : ok2 lt.    Hypothesis Hle : ok2 le.     Hypothesis Heq : ok2 eq_.
  Hypothesis Hne : ok2 neq.   Hypothesis Hge : ok2 ge.    Hypothesis Hgt : ok2 gt.     Hypothesis Hin : ok2 in_.
  Hypothesis Hindex : ok2 index.

  Variables E E' : env.
  Hypothesis HA : agree E E'.
  Variable d : nat.

  Lemma okv_err e : okv (VErr e). Proof. exact I. Qed.
  Lemma okv_bool b : okv (VBool b). Proof. exact I. Qed.
  Lemma okv_null : okv VNull. Proof. exact I. Qed.

  Lemma rel_resolve_ident n : S n -> meq okv (resolve_ident rs E d n) (resolve_ident rs E' d n).
  Proof.
    intros Hn. unfold resolve_ident. rewrite <- (agree_type S E E' n HA).
    destruct (env_type E n) as [t|] eqn:T.
    { apply meq_ret. unfold env_type, get_type in T. destruct (e_bound E); [|discriminate].
      destruct (assoc n type_table); [|discriminate]. injection T as <-. exact I. }
    rewrite <- (agree_param S E E' n HA Hn). destruct (env_param E n) as [v|] eqn:P.
    { apply meq_ret. unfold env_param in P. destruct (e_bound E); [|discriminate]. eapply ag_okparams; eauto. }
    rewrite <- (ag_progs S _ _ HA). destruct (assoc n (e_progs E)) as [c|] eqn:Pg.
    { apply Hrs; [exact HA|]. eapply ag_okprogs; eauto. }
    rewrite <- (ag_now S _ _ HA). destruct (e_now E); [apply meq_ret; exact I|apply meq_fail_runtime].
  Qed.

  Definition okp {A} (P : A -> Prop) (p : A * stack) : Prop := P (fst p) /\ okst (snd p).

  Lemma rel_pop st : okst st -> meq (okp oksv) (pop rs E d st) (pop rs E' d st).
  Proof.
    intros H. unfold pop. destruct st as [|x st']; [apply meq_fail|]. inversion H as [|? ? Hx Hst]; subst.
    destruct x as [v|b n o]; [|apply meq_ret; split; assumption].
    destruct v; try (apply meq_ret; split; assumption).
    eapply meq_bind; [apply rel_resolve_ident; exact Hx|]. intros v Hv. apply meq_ret. split; assumption.
  Qed.

  Lemma rel_into_value x : oksv x -> meq okv (into_value x) (into_value x).
  Proof. intros H. destruct x; [apply meq_ret; exact H|apply meq_fail]. Qed.

  Lemma rel_pop_val st : okst st -> meq (okp okv) (pop_val rs E d st) (pop_val rs E' d st).
  Proof.
    intros H. unfold pop_val. eapply meq_bind; [apply rel_pop; exact H|]. intros [x st'] [Hx Hst]. cbn [fst snd] in *.
    eapply meq_bind; [apply rel_into_value; exact Hx|]. intros v Hv. apply meq_ret. split; assumption.
  Qed.

  Lemma rel_pop_n n : forall st, okst st -> meq (okp (Forall okv)) (pop_n rs E d n st) (pop_n rs E' d n st).
  Proof.
    induction n as [|n IH]; intros st H; cbn [pop_n]; [apply meq_ret; split; [constructor|exact H]|].
    eapply meq_bind; [apply rel_pop_val; exact H|]. intros [v st1] [Hv H1]. cbn [fst snd] in *.
    eapply meq_bind; [apply IH; exact H1|]. intros [vs st2] [Hvs H2]. cbn [fst snd] in *.
    apply meq_ret. split; [constructor; assumption|exact H2].
  Qed.

  Lemma rel_resolve_args args : Forall okv args -> meq (Forall okv) (resolve_args rs E d args) (resolve_args rs E' d args).
  Proof.
    induction 1 as [|a r Ha _ IH]; cbn [resolve_args]; [apply meq_ret; constructor|].
    destruct a; try (eapply meq_bind; [exact IH|]; intros vs Hvs; apply meq_ret; constructor; assumption).
    eapply meq_bind; [apply Hrs; [exact HA|exact Ha]|]. intros v Hv.
    eapply meq_bind; [exact IH|]. intros vs Hvs. apply meq_ret. constructor; assumption.
  Qed.

  Lemma rel_call_func name this args : okv this -> Forall okv args ->
    meq okv (call_func E name this args) (call_func E' name this args).
  Proof.
    intros Ht Ha. unfold call_func. rewrite <- (ag_ufuncs S _ _ HA), <- (ag_now S _ _ HA).
    destruct (assoc name (e_ufuncs E)) as [u|] eqn:U.
    - intros lg. split; [reflexivity|]. intros v lg' Ev. injection Ev as <- _.
      destruct u; cbn [ufun_apply].
      + eapply ag_okufuncs; eauto.
      + destruct Ha; [exact I|assumption].
      + exact Ht.
      + apply okv_list. exact Ha.
    - eapply meq_bind with (P := fun _ => True); [unfold note_clock; rewrite <- (agree_folding S E E' HA); intros lg; split; [reflexivity|auto]|]. intros _ _.
      destruct (call_default (e_now E) name this args) as [r|] eqn:C; [|apply meq_fail].
      apply meq_lift. intros v ->. eapply Hfun; eauto.
  Qed.

  Lemma rel_eval_ident c : meq (fun r => match r with inl v => okv v | inr _ => True end) (eval_ident rs E c) (eval_ident rs E' c).
  Proof.
    intros lg. unfold eval_ident, ident_env. rewrite <- (ag_now S _ _ HA). split; [reflexivity|]. intros a lg'.
    destruct (rs (mkEnv false [] [] [] false (e_now E)) c false O lg) as [[v|e| | |] lg1]; try discriminate.
    - destruct v; intros Ev; injection Ev as <- _; exact I.
    - intros Ev; injection Ev as <- _; exact I.
  Qed.

  Definition oksum (r : value + value) : Prop := match r with inl v => okv v | inr v => okv v end.

  Lemma rel_run_body E1 E1' c : agree E1 E1' -> okc c -> meq oksum (run_body rs d E1 c) (run_body rs d E1' c).
  Proof.
    intros A Hc lg. unfold run_body. destruct (Hrs E1 E1' c true d A Hc lg) as [Eq Pv]. rewrite <- Eq.
    split; [reflexivity|]. intros a lg'. destruct (rs E1 c true d lg) as [[v|e| | |] lg1]; try discriminate.
    - intros Ev. injection Ev as <- _. cbn. eapply Pv. reflexivity.
    - intros Ev. injection Ev as <- _. exact I.
  Qed.

  Lemma rel_with_ident c k k' : (forall x, meq okv (k x) (k' x)) -> meq okv (with_ident rs E c k) (with_ident rs E' c k').
  Proof.
    intros Hk. unfold with_ident. eapply meq_bind; [apply rel_eval_ident|]. intros [e|x] Hr; [apply meq_ret; exact Hr|apply Hk].
  Qed.

  Ltac body_step Hv Hb :=
    eapply meq_bind; [apply rel_run_body; [apply agree_bind; [exact HA|exact Hv]|exact Hb]|]; intros [?e|?b] ?Hr; [apply meq_ret; exact Hr|].

  Lemma rel_all_loop x body l : okc body -> Forall okv l -> meq okv (all_loop rs E d x body l) (all_loop rs E' d x body l).
  Proof.
    intros Hb. induction 1 as [|v l Hv _ IH]; cbn [all_loop]; [apply meq_ret; exact I|]. body_step Hv Hb.
    destruct (is_truthy b); [exact IH|apply meq_ret; exact I].
  Qed.
  Lemma rel_exists_loop x body l : okc body -> Forall okv l -> meq okv (exists_loop rs E d x body l) (exists_loop rs E' d x body l).
  Proof.
    intros Hb. induction 1 as [|v l Hv _ IH]; cbn [exists_loop]; [apply meq_ret; exact I|]. body_step Hv Hb.
    destruct (is_truthy b); [apply meq_ret; exact I|exact IH].
  Qed.
  Lemma rel_exists_one_loop x body l : okc body -> Forall okv l -> forall count,
    meq okv (exists_one_loop rs E d x body l count) (exists_one_loop rs E' d x body l count).
  Proof.
    intros Hb. induction 1 as [|v l Hv _ IH]; intros count; cbn [exists_one_loop]; [apply meq_ret; exact I|]. body_step Hv Hb.
    destruct (is_truthy b); [destruct (1 <? count + 1); [apply meq_ret; exact I|apply IH]|apply IH].
  Qed.
  Lemma rel_filter_loop x body l : okc body -> Forall okv l -> forall acc, Forall okv acc ->
    meq okv (filter_loop rs E d x body l acc) (filter_loop rs E' d x body l acc).
  Proof.
    intros Hb. induction 1 as [|v l Hv _ IH]; intros acc Hacc; cbn [filter_loop].
    - apply meq_ret. apply okv_list. apply Forall_rev. exact Hacc.
    - body_step Hv Hb. apply IH. destruct (is_truthy b); [constructor; assumption|exact Hacc].
  Qed.
  Lemma rel_map_loop x pred f l : match pred with Some p => okc p | None => True end -> okc f -> Forall okv l ->
    forall acc, Forall okv acc -> meq okv (map_loop rs E d x pred f l acc) (map_loop rs E' d x pred f l acc).
  Proof.
    intros Hp Hf. induction 1 as [|v l Hv _ IH]; intros acc Hacc; cbn [map_loop].
    - apply meq_ret. apply okv_list. apply Forall_rev. exact Hacc.
    - destruct pred as [p|].
      + body_step Hv Hp. destruct (is_truthy b); [|apply IH; exact Hacc].
        eapply meq_bind; [apply rel_run_body; [apply agree_bind; [exact HA|exact Hv]|exact Hf]|].
        intros [e2|y] Hr2; [apply meq_ret; exact Hr2|]. apply IH. constructor; assumption.
      + eapply meq_bind; [apply rel_run_body; [apply agree_bind; [exact HA|exact Hv]|exact Hf]|].
        intros [e2|y] Hr2; [apply meq_ret; exact Hr2|]. apply IH. constructor; assumption.
  Qed.
  Lemma rel_reduce_loop cur next body l : okc body -> Forall okv l -> forall acc, okv acc ->
    meq okv (reduce_loop rs E d cur next body l acc) (reduce_loop rs E' d cur next body l acc).
  Proof.
    intros Hb. induction 1 as [|v l Hv _ IH]; intros acc Hacc; cbn [reduce_loop]; [apply meq_ret; exact Hacc|].
    eapply meq_bind; [apply rel_run_body; [apply agree_bind; [apply agree_bind; [exact HA|exact Hv]|exact Hacc]|exact Hb]|].
    intros [e|a] Hr; [apply meq_ret; exact Hr|]. destruct (nested_too_deep a); [apply meq_ret; exact I|apply IH; exact Hr].
  Qed.

  Lemma rel_coalesce_loop args : Forall okc args -> meq okv (coalesce_loop rs E d args) (coalesce_loop rs E' d args).
  Proof.
    induction 1 as [|c r Hc _ IH]; cbn [coalesce_loop]; [apply meq_ret; exact I|]. intros lg.
    destruct (Hrs E E' c true d HA Hc lg) as [Eq Pv]. rewrite <- Eq.
    destruct (rs E c true d lg) as [[v|e| | |] lg1]; try (split; [reflexivity|intros; discriminate]).
    - assert (Hv : okv v) by (eapply Pv; reflexivity).
      destruct v; try (split; [reflexivity|intros a lg' Ea; injection Ea as <- _; exact Hv]). apply IH.
    - destruct e; try (split; [reflexivity|intros a lg' Ea; injection Ea as <- _; exact I]); apply IH.
  Qed.

  Lemma rel_call_macro_impl name this args : okv this -> Forall okc args ->
    meq okv (call_macro_impl rs E d name this args) (call_macro_impl rs E' d name this args).
  Proof.
    intros Ht Ha. unfold call_macro_impl.
    assert (Hkeys : forall m, Forall okv (map_keys_as_values m)).
    { intros m. unfold map_keys_as_values. induction m; cbn; constructor; auto. exact I. }
    destruct (bytes_eqb name _).
    { destruct args as [|c [|c2 r]]; try (apply meq_ret; exact I). inversion Ha as [|? ? Hc _]; subst. intros lg.
      destruct (Hrs E E' c true d HA Hc lg) as [Eq Pv]. rewrite <- Eq.
      destruct (rs E c true d lg) as [[v|e| | |] lg1]; try (split; [reflexivity|intros; discriminate]).
      - split; [reflexivity|intros a lg' Ea; injection Ea as <- _; exact I].
      - destruct e; (split; [reflexivity|intros a lg' Ea; injection Ea as <- _; exact I]). }
    destruct (bytes_eqb name _); [apply rel_coalesce_loop; exact Ha|].
    destruct (bytes_eqb name _).
    { destruct args as [|a0 [|a1 [|a2 r]]]; try (apply meq_ret; exact I). inversion Ha as [|? ? H0 Ha1]; subst. inversion Ha1 as [|? ? H1 _]; subst.
      apply rel_with_ident. intros x. destruct this; try (apply meq_ret; exact I). apply rel_all_loop; [exact H1|apply okv_list; exact Ht]. }
    destruct (bytes_eqb name _).
    { destruct args as [|a0 [|a1 [|a2 r]]]; try (apply meq_ret; exact I). inversion Ha as [|? ? H0 Ha1]; subst. inversion Ha1 as [|? ? H1 _]; subst.
      apply rel_with_ident. intros x. destruct this; try (apply meq_ret; exact I). apply rel_exists_loop; [exact H1|apply okv_list; exact Ht]. }
    destruct (bytes_eqb name _).
    { destruct args as [|a0 [|a1 [|a2 r]]]; try (apply meq_ret; exact I). inversion Ha as [|? ? H0 Ha1]; subst. inversion Ha1 as [|? ? H1 _]; subst.
      apply rel_with_ident. intros x. destruct this; try (apply meq_ret; exact I). apply rel_exists_one_loop; [exact H1|apply okv_list; exact Ht]. }
    destruct (bytes_eqb name _).
    { destruct args as [|a0 [|a1 [|a2 r]]]; try (apply meq_ret; exact I). inversion Ha as [|? ? H0 Ha1]; subst. inversion Ha1 as [|? ? H1 _]; subst.
      apply rel_with_ident. intros x. destruct this; try (apply meq_ret; exact I).
      - apply rel_filter_loop; [exact H1|apply okv_list; exact Ht|constructor].
      - apply rel_filter_loop; [exact H1|apply Hkeys|constructor]. }
    destruct (bytes_eqb name _).
    { destruct args as [|a0 [|a1 [|a2 [|a3 r]]]]; try (apply meq_ret; exact I).
      - inversion Ha as [|? ? H0 Ha1]; subst. inversion Ha1 as [|? ? H1 _]; subst.
        apply rel_with_ident. intros x. destruct this; try (apply meq_ret; exact I).
        + apply rel_map_loop; [exact I|exact H1|apply okv_list; exact Ht|constructor].
        + apply rel_map_loop; [exact I|exact H1|apply Hkeys|constructor].
      - inversion Ha as [|? ? H0 Ha1]; subst. inversion Ha1 as [|? ? H1 Ha2]; subst. inversion Ha2 as [|? ? H2 _]; subst.
        apply rel_with_ident. intros x. destruct this; try (apply meq_ret; exact I).
        + apply rel_map_loop; [exact H1|exact H2|apply okv_list; exact Ht|constructor].
        + apply rel_map_loop; [exact H1|exact H2|apply Hkeys|constructor]. }
    destruct (bytes_eqb name _); [|apply meq_fail].
    destruct args as [|a0 [|a1 [|a2 [|a3 [|a4 r]]]]]; try (apply meq_ret; exact I).
    inversion Ha as [|? ? H0 Ha1]; subst. inversion Ha1 as [|? ? H1 Ha2]; subst. inversion Ha2 as [|? ? H2 Ha3]; subst.
    inversion Ha3 as [|? ? H3 _]; subst.
    apply rel_with_ident. intros cur. apply rel_with_ident. intros next.
    eapply meq_bind; [apply rel_run_body; [exact HA|exact H3]|]. intros [e|seed] Hr; [apply meq_ret; exact Hr|].
    destruct this; try (apply meq_ret; exact I). apply rel_reduce_loop; [exact H2|apply okv_list; exact Ht|exact Hr].
  Qed.

  Lemma all_code_ok : forall args cs, Forall okv args -> all_code args = Some cs -> Forall okc cs.
  Proof.
    induction args as [|a r IH]; intros cs Ha; cbn [all_code fold_right]; [intros E0; injection E0 as <-; constructor|].
    inversion Ha as [|? ? H0 Hr]; subst. fold (all_code r). destruct a; try discriminate.
    destruct (all_code r) as [cs'|]; [|discriminate]. intros E0. injection E0 as <-. constructor; [exact H0|apply IH; auto].
  Qed.

  Lemma rel_call_macro name this args : okv this -> Forall okv args ->
    meq okv (call_macro rs E d name this args) (call_macro rs E' d name this args).
  Proof.
    intros Ht Ha. unfold call_macro. destruct (all_code args) as [cs|] eqn:C; [|apply meq_fail].
    apply rel_call_macro_impl; [exact Ht|eapply all_code_ok; eauto].
  Qed.

  Definition okj (r : option Z * stack) : Prop := okst (snd r).

  Lemma rel_bin f st : ok2 f -> okst st -> meq okj (bin rs E d f st) (bin rs E' d f st).
  Proof.
    intros Hf H. unfold bin. eapply meq_bind; [apply rel_pop_val; exact H|]. intros [v2 st1] [H2 Hs1]. cbn [fst snd] in *.
    eapply meq_bind; [apply rel_pop_val; exact Hs1|]. intros [v1 st2] [H1 Hs2]. cbn [fst snd] in *.
    apply meq_ret. unfold okj, push. cbn [snd]. constructor; [apply Hf; assumption|exact Hs2].
  Qed.
  Lemma rel_un f st : ok1 f -> okst st -> meq okj (un rs E d f st) (un rs E' d f st).
  Proof.
    intros Hf H. unfold un. eapply meq_bind; [apply rel_pop_val; exact H|]. intros [v1 st1] [H1 Hs1]. cbn [fst snd] in *.
    apply meq_ret. unfold okj, push. cbn [snd]. constructor; [apply Hf; assumption|exact Hs1].
  Qed.

  Lemma okst_push v st : okv v -> okst st -> okst (push v st).
  Proof. intros. constructor; assumption. Qed.

  Lemma map_get_ok m k v : okv (VMap m) -> map_get m k = Some v -> okv v.
  Proof.
    rewrite okv_map. induction m as [|[k' x] r IH]; cbn [map_get]; [discriminate|]. intros H. inversion H; subst.
    destruct (bytes_eqb k k'); [intros E0; injection E0 as <-; assumption|apply IH; assumption].
  Qed.

  Lemma rel_step_access st : match st with [] => True | _ :: st0 => okst st0 end ->
    meq okj (step rs E d IAccess st) (step rs E' d IAccess st).
  Proof.
    intros H. cbn [step]. unfold pop_noresolve. destruct st as [|idx st1]; [apply meq_fail|].
    apply meq_bind_ret.
    destruct idx as [v|b n o]; [|apply meq_fail].
    destruct v; try (eapply meq_bind; [apply rel_pop_val; exact H|]; intros [o st2] [Ho Hs2]; cbn [fst snd] in *;
                     apply meq_ret; apply okst_push; [exact I|exact Hs2]).
    eapply meq_bind; [apply rel_pop_val; exact H|]. intros [obj st2] [Ho Hs2]. cbn [fst snd] in *.
    rewrite <- (agree_has_func S E E' s HA), <- (agree_has_macro S E E' s HA), <- (agree_folding S E E' HA), <- (ag_bound S E E' HA).
    assert (Hb : forall bb, okj (None, SBound bb s obj :: st2)) by (intros bb; unfold okj; cbn [snd]; constructor; [exact Ho|exact Hs2]).
    assert (He : okj (None, push (VErr (EAttribute s)) st2)) by (apply okst_push; [exact I|exact Hs2]).
    destruct obj; try (destruct (negb (e_bound E)); [apply meq_fail|]);
      try (destruct (has_func E s); [apply meq_ret; apply Hb|destruct (has_macro E s); [apply meq_ret; apply Hb|
           destruct (folding E); [apply meq_fail_runtime|apply meq_ret; exact He]]]).
    - destruct (map_get m s) as [v|] eqn:G.
      + apply meq_ret. apply okst_push; [eapply map_get_ok; eauto|exact Hs2].
      + destruct (has_func E s); [apply meq_ret; apply Hb|destruct (has_macro E s); [apply meq_ret; apply Hb|
           destruct (folding E); [apply meq_fail_runtime|apply meq_ret; exact He]]].
    - apply meq_ret. apply okst_push; [exact I|exact Hs2].
  Qed.

  Lemma rel_step_call n st :
    match st with [] => True | x :: st0 => okst st0 /\ match x with SVal (VIdent _) => True | _ => oksv x end end ->
    meq okj (step rs E d (ICall n) st) (step rs E' d (ICall n) st).
  Proof.
    intros H. cbn [step].
      unfold pop_noresolve. destruct st as [|callee st1]; [apply meq_fail|]. destruct H as [Hs1 Hc].
      apply meq_bind_ret.
      eapply meq_bind; [apply rel_pop_n; exact Hs1|]. intros [args st2] [Ha Hs2]. cbn [fst snd] in *.
      assert (Push : forall r, okv r -> meq okj (mret (None, push r st2)) (mret (None, push r st2))).
      { intros r Hr. apply meq_ret. apply okst_push; assumption. }
      assert (Ctor : forall tn, meq okj (do vals <- resolve_args rs E d args; do _ <- note_clock E (asks_clock_ty tn vals); do r <- mlift (construct_type (e_now E) tn vals); mret (None, push r st2))
                                     (do vals <- resolve_args rs E' d args; do _ <- note_clock E' (asks_clock_ty tn vals); do r <- mlift (construct_type (e_now E') tn vals); mret (None, push r st2))).
      { intros tn. rewrite <- (ag_now S E E' HA). eapply meq_bind; [apply rel_resolve_args; exact Ha|]. intros vals Hv.
        eapply meq_bind with (P := fun _ => True); [unfold note_clock; rewrite <- (agree_folding S E E' HA); intros lg; split; [reflexivity|auto]|]. intros _ _.
        eapply meq_bind; [apply meq_lift; intros v Ev; eapply Hctor; eauto|]. intros r Hr. apply Push. exact Hr. }
      destruct callee as [v|[|] name this].
      + destruct v; try (apply Push; exact I); try apply Ctor.
        rewrite <- (agree_has_func S E E' s HA), <- (agree_has_macro S E E' s HA), <- (agree_folding S E E' HA), <- (agree_type S E E' s HA).
        destruct (has_func E s).
        { eapply meq_bind; [apply rel_resolve_args; exact Ha|]. intros vals Hv.
          eapply meq_bind; [apply rel_call_func; [exact I|exact Hv]|]. intros r Hr. apply Push. exact Hr. }
        destruct (has_macro E s).
        { eapply meq_bind; [apply rel_call_macro; [exact I|exact Ha]|]. intros r Hr. apply Push. exact Hr. }
        destruct (env_type E s) as [t|]; [|destruct (folding E); [apply meq_fail_runtime|apply Push; exact I]].
        destruct t; try (destruct (folding E); [apply meq_fail_runtime|apply Push; exact I]). apply Ctor.
      + eapply meq_bind; [apply rel_call_macro; [exact Hc|exact Ha]|]. intros r Hr. apply Push. exact Hr.
      + eapply meq_bind; [apply rel_resolve_args; exact Ha|]. intros vals Hv.
        eapply meq_bind; [apply rel_call_func; [exact Hc|exact Hv]|]. intros r Hr. apply Push. exact Hr.
  Qed.

  Lemma rel_step i st : match i with IPush v => okv v | _ => True end -> okst st ->
    meq okj (step rs E d i st) (step rs E' d i st).
  Proof.
    intros Hi H.
    destruct i; cbn [step]; try (apply rel_bin; assumption); try (apply rel_un; assumption).
    - (* Push *) apply meq_ret. apply okst_push; assumption.
    - (* Pop *) eapply meq_bind; [apply rel_pop_val; exact H|]. intros [v st1] [Hv Hs1]. apply meq_ret. exact Hs1.
    - (* Test *) eapply meq_bind; [apply rel_pop_val; exact H|]. intros [v st1] [Hv Hs1]. cbn [fst snd] in *.
      destruct (is_err v); apply meq_ret; apply okst_push; auto; exact I.
    - (* Dup *) eapply meq_bind; [apply rel_pop_val; exact H|]. intros [v st1] [Hv Hs1]. cbn [fst snd] in *.
      apply meq_ret. apply okst_push; [exact Hv|apply okst_push; assumption].
    - (* Jmp *) apply meq_ret. exact H.
    - (* JmpCond *) eapply meq_bind; [apply rel_pop_val; exact H|]. intros [v st1] [Hv Hs1]. cbn [fst snd] in *.
      destruct v; try apply meq_fail; apply meq_ret; exact Hs1.
    - (* MkList *) eapply meq_bind; [apply rel_pop_n; exact H|]. intros [vs st1] [Hvs Hs1]. cbn [fst snd] in *.
      apply meq_ret. apply okst_push; [apply okv_list; apply Forall_rev; exact Hvs|exact Hs1].
    - (* MkDict *)
      match goal with |- meq _ (?g (Z.to_nat n) st [] false) (?g' (Z.to_nat n) st [] false) =>
        assert (G : forall k st0 acc bad, okst st0 -> Forall (fun kv => okv (snd kv)) acc -> meq okj (g k st0 acc bad) (g' k st0 acc bad));
          [|apply G; [exact H|constructor]] end.
      induction k as [|k IH]; intros st0 acc bad Hs0 Hacc.
      + destruct bad; apply meq_ret; apply okst_push; try exact Hs0; [exact I|].
        apply okv_map.
        assert (F : forall l m0, Forall (fun kv : bytes * value => okv (snd kv)) l -> Forall (fun kv : bytes * value => okv (snd kv)) m0 ->
                      Forall (fun kv : bytes * value => okv (snd kv)) (fold_left (fun m kv => map_insert m (fst kv) (snd kv)) l m0)).
        { induction l as [|[k1 v1] l IHl]; intros m0 Hl Hm0; cbn [fold_left]; [exact Hm0|]. inversion Hl; subst. apply IHl; [assumption|].
          cbn [fst snd]. apply forall_insert'; assumption. }
        apply F; [exact Hacc|constructor].
      + eapply meq_bind; [apply rel_pop_val; exact Hs0|]. intros [key st1] [Hk Hs1]. cbn [fst snd] in *.
        eapply meq_bind; [apply rel_pop_val; exact Hs1|]. intros [v st2] [Hv Hs2]. cbn [fst snd] in *.
        destruct key; try (apply IH; assumption). apply IH; [exact Hs2|constructor; [exact Hv|exact Hacc]].
    - (* Access *) apply rel_step_access. destruct st; [exact I|]. inversion H; assumption.
    - (* Call *) apply rel_step_call. destruct st as [|x st0]; [exact I|]. inversion H as [|? ? Hx Hs0]; subst. split; [exact Hs0|]. destruct x as [v|]; [destruct v; try exact Hx; exact I|exact Hx].
    - (* Fmt *) eapply meq_bind; [apply rel_pop_n; exact H|]. intros [segs st1] [Hsg Hs1]. cbn [fst snd] in *.
      match goal with |- meq _ (?g (rev segs) []) _ => assert (G : forall l acc, meq okj (g l acc) (g l acc)); [|apply G] end.
      induction l as [|x l IH]; intros acc; [apply meq_ret; apply okst_push; [exact I|exact Hs1]|]. destruct x; try apply meq_fail. apply IH.
  Qed.

  (** the loop: the stack is fine, or we stand on an Access with a field name just pushed *)
  Definition okat (c : code) (pc : nat) (st : stack) : Prop :=
    okst st \/ (exists n st0, st = SVal (VIdent n) :: st0 /\ okst st0 /\ noresolve_at c pc).

  Theorem rel_loop c : okc c -> forall fuel pc st, okat c pc st ->
    meq okst (loop rs fuel E d c pc st) (loop rs fuel E' d c pc st).
  Proof.
    intros Hc. induction fuel as [|f IH]; intros pc st Hat; [intros lg; split; [reflexivity|intros; discriminate]|].
    cbn [loop]. destruct Hat as [Hst|(n & st0 & -> & Hst0 & Hn)].
    - destruct (nth_error c pc) as [i|] eqn:Ni; [|apply meq_ret; exact Hst].
      assert (Next : forall (r : option Z * stack), okj r ->
                meq okst (let '(j, st') := r in match j with
                          | None => loop rs f E d c (Datatypes.S pc) st'
                          | Some dd => match jump_target (Datatypes.S pc) dd (length c) with Some pc' => loop rs f E d c pc' st' | None => mfail ERuntime end end)
                         (let '(j, st') := r in match j with
                          | None => loop rs f E' d c (Datatypes.S pc) st'
                          | Some dd => match jump_target (Datatypes.S pc) dd (length c) with Some pc' => loop rs f E' d c pc' st' | None => mfail ERuntime end end)).
      { intros [j st'] Hj. unfold okj in Hj. cbn [snd] in Hj. destruct j as [dd|]; [|apply IH; left; exact Hj].
        destruct (jump_target (Datatypes.S pc) dd (length c)); [apply IH; left; exact Hj|apply meq_fail]. }
      destruct i; try (eapply meq_bind; [apply rel_step; [exact I|exact Hst]|exact Next]).
      destruct (okc_nth S c pc v Hc Ni) as [(n & Np & Na)|Hv].
      + (* a field name: straight on to the Access *)
        rewrite Np in Ni. injection Ni as <-. cbn [step]. apply meq_bind_ret. apply IH. right. exists n, st. auto.
      + eapply meq_bind; [apply rel_step; [exact Hv|exact Hst]|exact Next].
    - assert (Next : forall (r : option Z * stack), okj r ->
                meq okst (let '(j, st') := r in match j with
                          | None => loop rs f E d c (Datatypes.S pc) st'
                          | Some dd => match jump_target (Datatypes.S pc) dd (length c) with Some pc' => loop rs f E d c pc' st' | None => mfail ERuntime end end)
                         (let '(j, st') := r in match j with
                          | None => loop rs f E' d c (Datatypes.S pc) st'
                          | Some dd => match jump_target (Datatypes.S pc) dd (length c) with Some pc' => loop rs f E' d c pc' st' | None => mfail ERuntime end end)).
      { intros [j st'] Hj. unfold okj in Hj. cbn [snd] in Hj. destruct j as [dd|]; [|apply IH; left; exact Hj].
        destruct (jump_target (Datatypes.S pc) dd (length c)); [apply IH; left; exact Hj|apply meq_fail]. }
      destruct Hn as [Hn|(k & Hn)]; rewrite Hn.
      + eapply meq_bind; [apply rel_step_access; exact Hst0|exact Next].
      + eapply meq_bind; [apply rel_step_call; split; [exact Hst0|exact I]|exact Next].
  Qed.

  Lemma rel_finish resolve st : okst st -> meq okv (finish rs E d resolve st) (finish rs E' d resolve st).
  Proof.
    intros H. unfold finish. destruct resolve.
    - eapply meq_bind; [apply rel_pop; exact H|]. intros [x st'] [Hx _]. cbn [fst] in *.
      eapply meq_bind; [apply rel_into_value; exact Hx|]. intros v Hv. unfold into_result. destruct v; try (apply meq_ret; exact Hv). apply meq_fail.
    - destruct st as [|[v|b n o] st']; try apply meq_fail. inversion H as [|? ? Hv _]; subst. unfold into_result.
      destruct v; try (apply meq_ret; exact Hv); try apply meq_fail.
      rewrite <- (agree_param S E E' s HA Hv). destruct (env_param E s) as [v|] eqn:P; [|apply meq_ret; exact Hv].
      assert (okv v) by (unfold env_param in P; destruct (e_bound E); [eapply ag_okparams; eauto|discriminate]).
      destruct v; try (apply meq_ret; assumption). apply meq_fail.
  Qed.
End Lock.

(** The interpreter itself, every nested run included: by induction on the fuel. *)
Section Run.
  Variable S : bytes -> Prop.
  Hypothesis Hfun : forall now n t a v, okv S t -> Forall (okv S) a -> call_default now n t a = Some (ROk v) -> okv S v.
  Hypothesis Hctor : forall now tn a v, Forall (okv S) a -> construct_type now tn a = ROk v -> okv S v.
  Hypothesis Hops : ok2 S or_ /\ ok2 S and_ /\ ok1 S not_ /\ ok1 S neg /\ ok2 S add /\ ok2 S sub /\ ok2 S mul /\ ok2 S div /\ ok2 S rem /\
                    ok2 S lt /\ ok2 S le /\ ok2 S eq_ /\ ok2 S neq /\ ok2 S ge /\ ok2 S gt /\ ok2 S in_ /\ ok2 S index.

  Theorem run_relevant : forall fuel E E' c r d, agree S E E' -> okc S c ->
    meq (okv S) (run fuel E c r d) (run fuel E' c r d).
  Proof.
    destruct Hops as (H1 & H2 & H3 & H4 & H5 & H6 & H7 & H8 & H9 & H10 & H11 & H12 & H13 & H14 & H15 & H16 & H17).
    induction fuel as [|f IH]; intros E E' c r d HA Hc; [intros lg; split; [reflexivity|intros; discriminate]|].
    cbn [run]. destruct (Nat.ltb 32 (Datatypes.S d)); [apply meq_fail|].
    eapply meq_bind.
    - apply (rel_loop S (run f) IH Hfun Hctor H1 H2 H3 H4 H5 H6 H7 H8 H9 H10 H11 H12 H13 H14 H15 H16 H17 E E' HA (Datatypes.S d) c Hc f 0%nat []).
      left. constructor.
    - intros st Hst. apply (rel_finish S (run f) IH E E' HA (Datatypes.S d) r st Hst).
  Qed.
End Run.

(* ---- the value operators do not invent identifiers ---------------------------------------------- *)


Definition flatv (v : value) : Prop := match v with VBool _ | VErr _ => True | _ => False end.

Lemma eq_flat a b : flatv (eq_ a b).
Proof.
  destruct a; cbn [eq_ is_err]; try exact I;
    try (destruct b; cbn [is_err type_prop]; try exact I;
         repeat match goal with |- flatv (if ?c then _ else _) => destruct c | |- flatv (match (if ?c then _ else _) with _ => _ end) => destruct c end; exact I).
  destruct b; cbn [is_err type_prop]; try exact I.
  destruct (negb (zlen l =? zlen l0)); [exact I|].
  revert l0. induction l as [|x l IH]; intros [|y r]; try exact I.
  destruct (eq_ x y); try exact I; try (cbn [is_true]; apply IH). destruct b; cbn [is_true]; [apply IH|exact I].
Qed.

Section Ops.
  Variable S : bytes -> Prop.
  Notation okv := (okv S).

  Lemma flat_ok v : flatv v -> okv v.
  Proof. destruct v; intros H; try contradiction; exact I. Qed.

  Ltac ok_cases :=
    repeat match goal with |- context [let (_, _) := (if ?c then _ else _) in _] => destruct c end;
    repeat match goal with
           | H : okv ?v |- okv ?v => exact H
           | |- okv (if ?c then _ else _) => destruct c
           | |- okv (match ?x with _ => _ end) => destruct x
           | |- okv _ => exact I
           end.

  Lemma ok_or : ok2 S or_.
  Proof. intros a b Ha Hb. unfold or_. ok_cases. Qed.
  Lemma ok_and : ok2 S and_.
  Proof. intros a b Ha Hb. unfold and_, error_prop_or. ok_cases. Qed.
  Lemma ok_not : ok1 S not_.
  Proof. intros a Ha. unfold not_. ok_cases. Qed.
  Lemma ok_neg : ok1 S neg.
  Proof. intros a Ha. unfold neg, ck_int. ok_cases. Qed.

  Lemma ok_app x y : okv (VList x) -> okv (VList y) -> okv (VList (x ++ y)).
  Proof. rewrite !okv_list. intros. apply Forall_app. split; assumption. Qed.

  Lemma ok_add : ok2 S add.
  Proof.
    intros a b Ha Hb. unfold add, error_prop_or. destruct (is_err a); [exact Ha|]. destruct (is_err b); [exact Hb|].
    destruct a, b; cbn [type_prop]; unfold ck_int, ck_uint, checked_time, checked_dur; ok_cases. apply ok_app; assumption.
  Qed.
  Lemma ok_sub : ok2 S sub.
  Proof.
    intros a b Ha Hb. unfold sub, error_prop_or. destruct (is_err a); [exact Ha|]. destruct (is_err b); [exact Hb|].
    destruct a, b; cbn [type_prop]; unfold ck_int, ck_uint, checked_time, checked_dur; ok_cases.
  Qed.
  Lemma ok_mul : ok2 S mul.
  Proof.
    intros a b Ha Hb. unfold mul, error_prop_or. destruct (is_err a); [exact Ha|]. destruct (is_err b); [exact Hb|].
    destruct a, b; cbn [type_prop]; unfold ck_int, ck_uint; ok_cases.
  Qed.
  Lemma ok_div : ok2 S div.
  Proof.
    intros a b Ha Hb. unfold div, error_prop_or. destruct (is_err a); [exact Ha|]. destruct (is_err b); [exact Hb|].
    destruct a, b; cbn [type_prop]; unfold ck_int, ck_uint; ok_cases.
  Qed.
  Lemma ok_rem : ok2 S rem.
  Proof.
    intros a b Ha Hb. unfold rem, error_prop_or. destruct (is_err a); [exact Ha|]. destruct (is_err b); [exact Hb|].
    destruct a, b; cbn [type_prop]; ok_cases.
  Qed.
  Lemma ok_cmp p : ok2 S (cmp_with p).
  Proof.
    intros a b Ha Hb. unfold cmp_with, error_prop_or. destruct (is_err a); [exact Ha|]. destruct (is_err b); [exact Hb|].
    destruct (ord a b); exact I.
  Qed.
  Lemma ok_eq : ok2 S eq_.
  Proof. intros a b _ _. apply flat_ok. apply eq_flat. Qed.
  Lemma ok_neq : ok2 S neq.
  Proof.
    intros a b Ha Hb. unfold neq, error_prop_or. destruct (is_err a); [exact Ha|]. destruct (is_err b); [exact Hb|].
    pose proof (eq_flat a b) as F. destruct (eq_ a b); try contradiction; exact I.
  Qed.
  Lemma ok_in : ok2 S in_.
  Proof. intros a b Ha Hb. unfold in_, error_prop_or. destruct (is_err a); [exact Ha|]. destruct (is_err b); [exact Hb|]. ok_cases. Qed.

  Lemma znth_ok l : forall i v, okv (VList l) -> znth l i = Some v -> okv v.
  Proof.
    induction l as [|x l IH]; intros i v H; cbn [znth]; [discriminate|]. apply okv_list in H. inversion H; subst.
    destruct (i =? 0); [intros E; injection E as <-; assumption|]. destruct (i <? 0); [discriminate|].
    apply IH. apply okv_list. assumption.
  Qed.

  Lemma ok_index : ok2 S index.
  Proof.
    intros a b Ha Hb. unfold index, error_prop_or. destruct (is_err a); [exact Ha|]. destruct (is_err b); [exact Hb|].
    destruct a; try exact I.
    - destruct b; try exact I.
      + destruct (_ <? 0); [exact I|]. destruct (znth l _) eqn:Z; [eapply znth_ok; eauto|exact I].
      + destruct (znth l z) eqn:Z; [eapply znth_ok; eauto|exact I].
    - destruct b; try exact I. destruct (map_get m s) eqn:G; [eapply map_get_ok; eauto|exact I].
  Qed.
End Ops.

(* ---- nor do the built-in functions and type constructors ------------------------------------------ *)


Section Funcs.
  Variable S : bytes -> Prop.
  Notation okv := (okv S).

  Definition okr (r : res value) : Prop := match r with ROk v => okv v | _ => True end.
  Definition oka (l : list value) : Prop := forall x, In x l -> okv x.

  Lemma oka_forall l : Forall okv l -> oka l.
  Proof. intros H x Hx. rewrite Forall_forall in H. auto. Qed.

  Lemma ok_strs l : okv (VList (map VString l)).
  Proof. apply okv_list. induction l; cbn; constructor; auto. exact I. Qed.

  Lemma dispatch_ok arms this args :
    (forall a t l, In a arms -> okv t -> oka l -> okr (a_impl a t l)) ->
    okv this -> oka args -> okr (dispatch arms this args).
  Proof.
    intros H Ht Ha. unfold dispatch. destruct (Nat.ltb _ _); [exact I|].
    destruct (find _ arms) as [a|] eqn:F; [|exact I]. apply find_some in F. apply H; [tauto|exact Ht|].
    intros x Hx. apply in_app_or in Hx. destruct Hx as [Hx|Hx]; [auto|]. apply repeat_spec in Hx. subst. exact I.
  Qed.

  Lemma ok_sort l : oka l -> okr (sort_impl l).
  Proof.
    intros H. destruct (sort_impl l) as [v| | | |] eqn:E; try exact I. cbn [okr].
    destruct v; try exact I; try (exfalso; unfold sort_impl in E; destruct l; [discriminate|]; destruct (forallb _ _); discriminate).
    apply sort_is_permutation in E. apply okv_list. apply Forall_forall. intros x Hx. apply H.
      eapply Permutation_in; [apply Permutation_sym; exact E|exact Hx].
  Qed.

  Ltac ok_arg := match goal with H : oka _ |- okv ?v => apply H; cbn [In]; tauto end.

  Ltac body_ok :=
    cbn [a_impl arm1 arm2 arm3 arm_this arm_this1 arm_this2];
    repeat match goal with
           | |- okr ?r =>
               match r with
               | ROk _ => cbn [okr]
               | RUnmod => exact I
               | RErr _ => exact I
               | sort_impl _ => apply ok_sort; apply oka_forall; apply okv_list; assumption
               | match ?x with _ => _ end => destruct x
               | if ?c then _ else _ => destruct c
               | let '(_, _) := ?p in _ => destruct p
               | _ => progress unfold ok, verr, unmod, bad, pow_int_res, string_func, str2, ci, duration_new, read_clock, checked_time, checked_dur
               | _ => progress cbn [okr]
               end
           | |- okv (VList (map VString _)) => apply ok_strs
           | |- okv (if ?c then _ else _) => destruct c
           | |- okv (match ?x with _ => _ end) => destruct x
           | |- okv _ => first [exact I | assumption | ok_arg | exact (conj I (conj I I))]
           end.

  Ltac arms_ok :=
    intros a t l Hin Ht Hl; cbn [In] in Hin;
    repeat (destruct Hin as [<-|Hin]; [body_ok|]); try (destruct Hin).

  Lemma ctor_ok now tname args : oka args -> okr (construct_type now tname args).
  Proof.
    intros Ha. unfold construct_type.
    repeat match goal with |- okr (if ?c then _ else _) => destruct c end; try exact I;
      (apply dispatch_ok; [|exact I|exact Ha]).
    - unfold bool_arms. arms_ok.
    - unfold int_arms. arms_ok.
    - unfold uint_arms. arms_ok.
    - unfold double_arms. arms_ok.
    - unfold double_arms. arms_ok.
    - unfold bytes_arms. arms_ok.
    - unfold string_arms. arms_ok.
    - unfold type_arms. arms_ok.
    - unfold timestamp_arms. arms_ok.
    - unfold duration_arms. arms_ok.
    - unfold dyn_arms. arms_ok.
  Qed.

  Lemma default_arms_ok now name arms : default_arms now name = Some arms ->
    forall a t l, In a arms -> okv t -> oka l -> okr (a_impl a t l).
  Proof.
    unfold default_arms.
    repeat (destruct (bytes_eqb name _); [intros H; injection H as <-; arms_ok|]).
    all: try (intros H; discriminate H).
  Qed.

  Lemma time_arms_ok name : forall a t l, In a (time_arms name) -> okv t -> oka l -> okr (a_impl a t l).
  Proof.
    unfold time_arms. destruct (taccess_of name) as [acc|]; [|intros a t l []].
    intros a t l Hin Ht Hl. apply in_app_or in Hin. destruct Hin as [Hin|Hin].
    - cbn [In] in Hin. repeat (destruct Hin as [<-|Hin]; [body_ok|]); try (destruct Hin).
    - destruct (dur_field acc 0); [|destruct Hin]. cbn [In] in Hin. repeat (destruct Hin as [<-|Hin]; [body_ok|]); try (destruct Hin).
  Qed.

  Lemma ok_pick better : forall rest cur, okv cur -> oka rest -> okv (pick better cur rest).
  Proof.
    intros rest cur Hc Hr. destruct (pick_in better rest cur) as [<-|H]; [exact Hc|apply Hr; exact H].
  Qed.

  Lemma all_lists_ok : forall args ls, oka args -> all_lists args = Some ls -> forall l x, In l ls -> In x l -> okv x.
  Proof.
    induction args as [|a r IH]; intros ls Ha; cbn [all_lists fold_right]; [intros E; injection E as <-; intros l x []|].
    fold (all_lists r). destruct a; try discriminate. destruct (all_lists r) as [ls'|]; [|discriminate].
    intros E. injection E as <-. intros l1 x [<-|Hin] Hx.
    - assert (H : okv (VList l)) by (apply Ha; left; reflexivity). rewrite okv_list, Forall_forall in H. auto.
    - eapply IH; eauto. intros y Hy. apply Ha. right. exact Hy.
  Qed.

  Lemma zip_rows_ok : forall fuel ls, (forall l x, In l ls -> In x l -> okv x) -> Forall okv (zip_rows fuel ls).
  Proof.
    induction fuel as [|f IH]; intros ls H; cbn [zip_rows]; [constructor|].
    destruct (forallb _ ls); [|constructor]. constructor.
    - apply okv_list. apply Forall_forall. intros x Hx. apply in_map_iff in Hx. destruct Hx as (l & <- & Hl).
      destruct l as [|y l']; [exact I|]. apply (H (y :: l') y Hl). left. reflexivity.
    - apply IH. intros l x Hl Hx. apply in_map_iff in Hl. destruct Hl as (l0 & <- & Hl0).
      destruct l0 as [|y l']; [destruct Hx|]. apply (H (y :: l') x Hl0). right. exact Hx.
  Qed.

  Theorem call_default_ok now name this args r : okv this -> oka args -> call_default now name this args = Some r -> okr r.
  Proof.
    intros Ht Ha. unfold call_default. destruct (negb (is_default_func name)); [discriminate|].
    destruct (default_arms now name) as [arms|] eqn:D.
    - intros H. injection H as <-. apply dispatch_ok; [apply (default_arms_ok now name arms D)|exact Ht|exact Ha].
    - repeat match goal with |- (if ?c then _ else _) = _ -> _ => destruct c end; intros H; injection H as <-;
        try (apply dispatch_ok; [apply time_arms_ok|exact Ht|exact Ha]);
        try (unfold string_func; body_ok).
      + unfold min_impl. destruct args as [|v rest]; [exact I|]. cbn [okr ok]. apply ok_pick; [apply Ha; left; reflexivity|intros x Hx; apply Ha; right; exact Hx].
      + unfold max_impl. destruct args as [|v rest]; [exact I|]. cbn [okr ok]. apply ok_pick; [apply Ha; left; reflexivity|intros x Hx; apply Ha; right; exact Hx].
      + unfold zip_impl. destruct args as [|a0 rest]; [exact I|]. destruct (all_lists (a0 :: rest)) as [ls|] eqn:AL; [|exact I].
        cbn [okr ok]. apply okv_list. apply zip_rows_ok. eapply all_lists_ok; eauto.
  Qed.
End Funcs.



(** no hypothesis left: the interpreter model reads only what the code can resolve *)
Theorem vm_relevant S fuel E E' c r d : agree S E E' -> okc S c ->
  meq (okv S) (run fuel E c r d) (run fuel E' c r d).
Proof.
  apply run_relevant.
  - intros now n t a v Ht Ha C. exact (call_default_ok S now n t a (ROk v) Ht (oka_forall S a Ha) C).
  - intros now tn a v Ha C. pose proof (ctor_ok S now tn a (oka_forall S a Ha)) as H. rewrite C in H. exact H.
  - repeat split; first [apply ok_or|apply ok_and|apply ok_not|apply ok_neg|apply ok_add|apply ok_sub|apply ok_mul|apply ok_div
                        |apply ok_rem|apply ok_cmp|apply ok_eq|apply ok_neq|apply ok_in|apply ok_index].
Qed.

Corollary vm_same_outcome S fuel E E' c r d lg : agree S E E' -> okc S c ->
  run fuel E c r d lg = run fuel E' c r d lg.
Proof. intros A H. exact (proj1 (vm_relevant S fuel E E' c r d A H lg)). Qed.
