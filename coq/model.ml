
(** val xorb : bool -> bool -> bool **)

let xorb b1 b2 =
  if b1 then if b2 then false else true else b2

(** val negb : bool -> bool **)

let negb = function
| true -> false
| false -> true

type nat =
| O
| S of nat

type ('a, 'b) sum =
| Inl of 'a
| Inr of 'b

(** val fst : ('a1 * 'a2) -> 'a1 **)

let fst = function
| (x, _) -> x

(** val snd : ('a1 * 'a2) -> 'a2 **)

let snd = function
| (_, y) -> y

(** val length : 'a1 list -> nat **)

let rec length = function
| [] -> O
| _ :: l' -> S (length l')

(** val app : 'a1 list -> 'a1 list -> 'a1 list **)

let rec app l m =
  match l with
  | [] -> m
  | a :: l1 -> a :: (app l1 m)

type comparison =
| Eq
| Lt
| Gt

(** val compOpp : comparison -> comparison **)

let compOpp = function
| Eq -> Eq
| Lt -> Gt
| Gt -> Lt

type positive =
| XI of positive
| XO of positive
| XH

type n =
| N0
| Npos of positive

type z =
| Z0
| Zpos of positive
| Zneg of positive

(** val eqb : bool -> bool -> bool **)

let eqb b1 b2 =
  if b1 then b2 else if b2 then false else true

module Pos =
 struct
  type mask =
  | IsNul
  | IsPos of positive
  | IsNeg
 end

module Coq_Pos =
 struct
  (** val succ : positive -> positive **)

  let rec succ = function
  | XI p -> XO (succ p)
  | XO p -> XI p
  | XH -> XO XH

  (** val add : positive -> positive -> positive **)

  let rec add x y =
    match x with
    | XI p ->
      (match y with
       | XI q -> XO (add_carry p q)
       | XO q -> XI (add p q)
       | XH -> XO (succ p))
    | XO p ->
      (match y with
       | XI q -> XI (add p q)
       | XO q -> XO (add p q)
       | XH -> XI p)
    | XH -> (match y with
             | XI q -> XO (succ q)
             | XO q -> XI q
             | XH -> XO XH)

  (** val add_carry : positive -> positive -> positive **)

  and add_carry x y =
    match x with
    | XI p ->
      (match y with
       | XI q -> XI (add_carry p q)
       | XO q -> XO (add_carry p q)
       | XH -> XI (succ p))
    | XO p ->
      (match y with
       | XI q -> XO (add_carry p q)
       | XO q -> XI (add p q)
       | XH -> XO (succ p))
    | XH ->
      (match y with
       | XI q -> XI (succ q)
       | XO q -> XO (succ q)
       | XH -> XI XH)

  (** val pred_double : positive -> positive **)

  let rec pred_double = function
  | XI p -> XI (XO p)
  | XO p -> XI (pred_double p)
  | XH -> XH

  type mask = Pos.mask =
  | IsNul
  | IsPos of positive
  | IsNeg

  (** val succ_double_mask : mask -> mask **)

  let succ_double_mask = function
  | IsNul -> IsPos XH
  | IsPos p -> IsPos (XI p)
  | IsNeg -> IsNeg

  (** val double_mask : mask -> mask **)

  let double_mask = function
  | IsPos p -> IsPos (XO p)
  | x0 -> x0

  (** val double_pred_mask : positive -> mask **)

  let double_pred_mask = function
  | XI p -> IsPos (XO (XO p))
  | XO p -> IsPos (XO (pred_double p))
  | XH -> IsNul

  (** val sub_mask : positive -> positive -> mask **)

  let rec sub_mask x y =
    match x with
    | XI p ->
      (match y with
       | XI q -> double_mask (sub_mask p q)
       | XO q -> succ_double_mask (sub_mask p q)
       | XH -> IsPos (XO p))
    | XO p ->
      (match y with
       | XI q -> succ_double_mask (sub_mask_carry p q)
       | XO q -> double_mask (sub_mask p q)
       | XH -> IsPos (pred_double p))
    | XH -> (match y with
             | XH -> IsNul
             | _ -> IsNeg)

  (** val sub_mask_carry : positive -> positive -> mask **)

  and sub_mask_carry x y =
    match x with
    | XI p ->
      (match y with
       | XI q -> succ_double_mask (sub_mask_carry p q)
       | XO q -> double_mask (sub_mask p q)
       | XH -> IsPos (pred_double p))
    | XO p ->
      (match y with
       | XI q -> double_mask (sub_mask_carry p q)
       | XO q -> succ_double_mask (sub_mask_carry p q)
       | XH -> double_pred_mask p)
    | XH -> IsNeg

  (** val mul : positive -> positive -> positive **)

  let rec mul x y =
    match x with
    | XI p -> add y (XO (mul p y))
    | XO p -> XO (mul p y)
    | XH -> y

  (** val iter : ('a1 -> 'a1) -> 'a1 -> positive -> 'a1 **)

  let rec iter f x = function
  | XI n' -> f (iter f (iter f x n') n')
  | XO n' -> iter f (iter f x n') n'
  | XH -> f x

  (** val div2 : positive -> positive **)

  let div2 = function
  | XI p0 -> p0
  | XO p0 -> p0
  | XH -> XH

  (** val div2_up : positive -> positive **)

  let div2_up = function
  | XI p0 -> succ p0
  | XO p0 -> p0
  | XH -> XH

  (** val compare_cont : comparison -> positive -> positive -> comparison **)

  let rec compare_cont r x y =
    match x with
    | XI p ->
      (match y with
       | XI q -> compare_cont r p q
       | XO q -> compare_cont Gt p q
       | XH -> Gt)
    | XO p ->
      (match y with
       | XI q -> compare_cont Lt p q
       | XO q -> compare_cont r p q
       | XH -> Gt)
    | XH -> (match y with
             | XH -> r
             | _ -> Lt)

  (** val compare : positive -> positive -> comparison **)

  let compare =
    compare_cont Eq

  (** val eqb : positive -> positive -> bool **)

  let rec eqb p q =
    match p with
    | XI p0 -> (match q with
                | XI q0 -> eqb p0 q0
                | _ -> false)
    | XO p0 -> (match q with
                | XO q0 -> eqb p0 q0
                | _ -> false)
    | XH -> (match q with
             | XH -> true
             | _ -> false)

  (** val of_succ_nat : nat -> positive **)

  let rec of_succ_nat = function
  | O -> XH
  | S x -> succ (of_succ_nat x)
 end

module N =
 struct
  (** val succ_double : n -> n **)

  let succ_double = function
  | N0 -> Npos XH
  | Npos p -> Npos (XI p)

  (** val double : n -> n **)

  let double = function
  | N0 -> N0
  | Npos p -> Npos (XO p)

  (** val sub : n -> n -> n **)

  let sub n0 m =
    match n0 with
    | N0 -> N0
    | Npos n' ->
      (match m with
       | N0 -> n0
       | Npos m' ->
         (match Coq_Pos.sub_mask n' m' with
          | Coq_Pos.IsPos p -> Npos p
          | _ -> N0))

  (** val compare : n -> n -> comparison **)

  let compare n0 m =
    match n0 with
    | N0 -> (match m with
             | N0 -> Eq
             | Npos _ -> Lt)
    | Npos n' -> (match m with
                  | N0 -> Gt
                  | Npos m' -> Coq_Pos.compare n' m')

  (** val leb : n -> n -> bool **)

  let leb x y =
    match compare x y with
    | Gt -> false
    | _ -> true

  (** val pos_div_eucl : positive -> n -> n * n **)

  let rec pos_div_eucl a b =
    match a with
    | XI a' ->
      let (q, r) = pos_div_eucl a' b in
      let r' = succ_double r in
      if leb b r' then ((succ_double q), (sub r' b)) else ((double q), r')
    | XO a' ->
      let (q, r) = pos_div_eucl a' b in
      let r' = double r in
      if leb b r' then ((succ_double q), (sub r' b)) else ((double q), r')
    | XH ->
      (match b with
       | N0 -> (N0, (Npos XH))
       | Npos p -> (match p with
                    | XH -> ((Npos XH), N0)
                    | _ -> (N0, (Npos XH))))
 end

module Z =
 struct
  (** val double : z -> z **)

  let double = function
  | Z0 -> Z0
  | Zpos p -> Zpos (XO p)
  | Zneg p -> Zneg (XO p)

  (** val succ_double : z -> z **)

  let succ_double = function
  | Z0 -> Zpos XH
  | Zpos p -> Zpos (XI p)
  | Zneg p -> Zneg (Coq_Pos.pred_double p)

  (** val pred_double : z -> z **)

  let pred_double = function
  | Z0 -> Zneg XH
  | Zpos p -> Zpos (Coq_Pos.pred_double p)
  | Zneg p -> Zneg (XI p)

  (** val pos_sub : positive -> positive -> z **)

  let rec pos_sub x y =
    match x with
    | XI p ->
      (match y with
       | XI q -> double (pos_sub p q)
       | XO q -> succ_double (pos_sub p q)
       | XH -> Zpos (XO p))
    | XO p ->
      (match y with
       | XI q -> pred_double (pos_sub p q)
       | XO q -> double (pos_sub p q)
       | XH -> Zpos (Coq_Pos.pred_double p))
    | XH ->
      (match y with
       | XI q -> Zneg (XO q)
       | XO q -> Zneg (Coq_Pos.pred_double q)
       | XH -> Z0)

  (** val add : z -> z -> z **)

  let add x y =
    match x with
    | Z0 -> y
    | Zpos x' ->
      (match y with
       | Z0 -> x
       | Zpos y' -> Zpos (Coq_Pos.add x' y')
       | Zneg y' -> pos_sub x' y')
    | Zneg x' ->
      (match y with
       | Z0 -> x
       | Zpos y' -> pos_sub y' x'
       | Zneg y' -> Zneg (Coq_Pos.add x' y'))

  (** val opp : z -> z **)

  let opp = function
  | Z0 -> Z0
  | Zpos x0 -> Zneg x0
  | Zneg x0 -> Zpos x0

  (** val sub : z -> z -> z **)

  let sub m n0 =
    add m (opp n0)

  (** val mul : z -> z -> z **)

  let mul x y =
    match x with
    | Z0 -> Z0
    | Zpos x' ->
      (match y with
       | Z0 -> Z0
       | Zpos y' -> Zpos (Coq_Pos.mul x' y')
       | Zneg y' -> Zneg (Coq_Pos.mul x' y'))
    | Zneg x' ->
      (match y with
       | Z0 -> Z0
       | Zpos y' -> Zneg (Coq_Pos.mul x' y')
       | Zneg y' -> Zpos (Coq_Pos.mul x' y'))

  (** val compare : z -> z -> comparison **)

  let compare x y =
    match x with
    | Z0 -> (match y with
             | Z0 -> Eq
             | Zpos _ -> Lt
             | Zneg _ -> Gt)
    | Zpos x' -> (match y with
                  | Zpos y' -> Coq_Pos.compare x' y'
                  | _ -> Gt)
    | Zneg x' ->
      (match y with
       | Zneg y' -> compOpp (Coq_Pos.compare x' y')
       | _ -> Lt)

  (** val leb : z -> z -> bool **)

  let leb x y =
    match compare x y with
    | Gt -> false
    | _ -> true

  (** val ltb : z -> z -> bool **)

  let ltb x y =
    match compare x y with
    | Lt -> true
    | _ -> false

  (** val eqb : z -> z -> bool **)

  let eqb x y =
    match x with
    | Z0 -> (match y with
             | Z0 -> true
             | _ -> false)
    | Zpos p -> (match y with
                 | Zpos q -> Coq_Pos.eqb p q
                 | _ -> false)
    | Zneg p -> (match y with
                 | Zneg q -> Coq_Pos.eqb p q
                 | _ -> false)

  (** val max : z -> z -> z **)

  let max n0 m =
    match compare n0 m with
    | Lt -> m
    | _ -> n0

  (** val min : z -> z -> z **)

  let min n0 m =
    match compare n0 m with
    | Gt -> m
    | _ -> n0

  (** val of_nat : nat -> z **)

  let of_nat = function
  | O -> Z0
  | S n1 -> Zpos (Coq_Pos.of_succ_nat n1)

  (** val of_N : n -> z **)

  let of_N = function
  | N0 -> Z0
  | Npos p -> Zpos p

  (** val pos_div_eucl : positive -> z -> z * z **)

  let rec pos_div_eucl a b =
    match a with
    | XI a' ->
      let (q, r) = pos_div_eucl a' b in
      let r' = add (mul (Zpos (XO XH)) r) (Zpos XH) in
      if ltb r' b
      then ((mul (Zpos (XO XH)) q), r')
      else ((add (mul (Zpos (XO XH)) q) (Zpos XH)), (sub r' b))
    | XO a' ->
      let (q, r) = pos_div_eucl a' b in
      let r' = mul (Zpos (XO XH)) r in
      if ltb r' b
      then ((mul (Zpos (XO XH)) q), r')
      else ((add (mul (Zpos (XO XH)) q) (Zpos XH)), (sub r' b))
    | XH -> if leb (Zpos (XO XH)) b then (Z0, (Zpos XH)) else ((Zpos XH), Z0)

  (** val div_eucl : z -> z -> z * z **)

  let div_eucl a b =
    match a with
    | Z0 -> (Z0, Z0)
    | Zpos a' ->
      (match b with
       | Z0 -> (Z0, a)
       | Zpos _ -> pos_div_eucl a' b
       | Zneg b' ->
         let (q, r) = pos_div_eucl a' (Zpos b') in
         (match r with
          | Z0 -> ((opp q), Z0)
          | _ -> ((opp (add q (Zpos XH))), (add b r))))
    | Zneg a' ->
      (match b with
       | Z0 -> (Z0, a)
       | Zpos _ ->
         let (q, r) = pos_div_eucl a' b in
         (match r with
          | Z0 -> ((opp q), Z0)
          | _ -> ((opp (add q (Zpos XH))), (sub b r)))
       | Zneg b' -> let (q, r) = pos_div_eucl a' (Zpos b') in (q, (opp r)))

  (** val div : z -> z -> z **)

  let div a b =
    let (q, _) = div_eucl a b in q

  (** val modulo : z -> z -> z **)

  let modulo a b =
    let (_, r) = div_eucl a b in r

  (** val quotrem : z -> z -> z * z **)

  let quotrem a b =
    match a with
    | Z0 -> (Z0, Z0)
    | Zpos a0 ->
      (match b with
       | Z0 -> (Z0, a)
       | Zpos b0 ->
         let (q, r) = N.pos_div_eucl a0 (Npos b0) in ((of_N q), (of_N r))
       | Zneg b0 ->
         let (q, r) = N.pos_div_eucl a0 (Npos b0) in
         ((opp (of_N q)), (of_N r)))
    | Zneg a0 ->
      (match b with
       | Z0 -> (Z0, a)
       | Zpos b0 ->
         let (q, r) = N.pos_div_eucl a0 (Npos b0) in
         ((opp (of_N q)), (opp (of_N r)))
       | Zneg b0 ->
         let (q, r) = N.pos_div_eucl a0 (Npos b0) in
         ((of_N q), (opp (of_N r))))

  (** val quot : z -> z -> z **)

  let quot a b =
    fst (quotrem a b)

  (** val rem : z -> z -> z **)

  let rem a b =
    snd (quotrem a b)

  (** val even : z -> bool **)

  let even = function
  | Z0 -> true
  | Zpos p -> (match p with
               | XO _ -> true
               | _ -> false)
  | Zneg p -> (match p with
               | XO _ -> true
               | _ -> false)

  (** val div2 : z -> z **)

  let div2 = function
  | Z0 -> Z0
  | Zpos p -> (match p with
               | XH -> Z0
               | _ -> Zpos (Coq_Pos.div2 p))
  | Zneg p -> Zneg (Coq_Pos.div2_up p)

  (** val shiftl : z -> z -> z **)

  let shiftl a = function
  | Z0 -> a
  | Zpos p -> Coq_Pos.iter (mul (Zpos (XO XH))) a p
  | Zneg p -> Coq_Pos.iter div2 a p
 end

(** val zeq_bool : z -> z -> bool **)

let zeq_bool x y =
  match Z.compare x y with
  | Eq -> true
  | _ -> false

(** val existsb : ('a1 -> bool) -> 'a1 list -> bool **)

let rec existsb f = function
| [] -> false
| a :: l0 -> (||) (f a) (existsb f l0)

(** val shift_pos : positive -> positive -> positive **)

let shift_pos n0 z0 =
  Coq_Pos.iter (fun x -> XO x) z0 n0

(** val i64_min : z **)

let i64_min =
  Zneg (XO (XO (XO (XO (XO (XO (XO (XO (XO (XO (XO (XO (XO (XO (XO (XO (XO
    (XO (XO (XO (XO (XO (XO (XO (XO (XO (XO (XO (XO (XO (XO (XO (XO (XO (XO
    (XO (XO (XO (XO (XO (XO (XO (XO (XO (XO (XO (XO (XO (XO (XO (XO (XO (XO
    (XO (XO (XO (XO (XO (XO (XO (XO (XO (XO
    XH)))))))))))))))))))))))))))))))))))))))))))))))))))))))))))))))

(** val i64_max : z **)

let i64_max =
  Zpos (XI (XI (XI (XI (XI (XI (XI (XI (XI (XI (XI (XI (XI (XI (XI (XI (XI
    (XI (XI (XI (XI (XI (XI (XI (XI (XI (XI (XI (XI (XI (XI (XI (XI (XI (XI
    (XI (XI (XI (XI (XI (XI (XI (XI (XI (XI (XI (XI (XI (XI (XI (XI (XI (XI
    (XI (XI (XI (XI (XI (XI (XI (XI (XI
    XH))))))))))))))))))))))))))))))))))))))))))))))))))))))))))))))

(** val u64_max : z **)

let u64_max =
  Zpos (XI (XI (XI (XI (XI (XI (XI (XI (XI (XI (XI (XI (XI (XI (XI (XI (XI
    (XI (XI (XI (XI (XI (XI (XI (XI (XI (XI (XI (XI (XI (XI (XI (XI (XI (XI
    (XI (XI (XI (XI (XI (XI (XI (XI (XI (XI (XI (XI (XI (XI (XI (XI (XI (XI
    (XI (XI (XI (XI (XI (XI (XI (XI (XI (XI
    XH)))))))))))))))))))))))))))))))))))))))))))))))))))))))))))))))

(** val in_i64 : z -> bool **)

let in_i64 z0 =
  (&&) (Z.leb i64_min z0) (Z.leb z0 i64_max)

(** val in_u64 : z -> bool **)

let in_u64 z0 =
  (&&) (Z.leb Z0 z0) (Z.leb z0 u64_max)

type bytes = z list

(** val bytes_eqb : bytes -> bytes -> bool **)

let rec bytes_eqb a b =
  match a with
  | [] -> (match b with
           | [] -> true
           | _ :: _ -> false)
  | x :: a' ->
    (match b with
     | [] -> false
     | y :: b' -> (&&) (Z.eqb x y) (bytes_eqb a' b'))

(** val bytes_cmp : bytes -> bytes -> comparison **)

let rec bytes_cmp a b =
  match a with
  | [] -> (match b with
           | [] -> Eq
           | _ :: _ -> Lt)
  | x :: a' ->
    (match b with
     | [] -> Gt
     | y :: b' -> (match Z.compare x y with
                   | Eq -> bytes_cmp a' b'
                   | x0 -> x0))

(** val is_prefix : bytes -> bytes -> bool **)

let rec is_prefix p s =
  match p with
  | [] -> true
  | x :: p' ->
    (match s with
     | [] -> false
     | y :: s' -> (&&) (Z.eqb x y) (is_prefix p' s'))

(** val contains : bytes -> bytes -> bool **)

let rec contains needle hay =
  (||) (is_prefix needle hay)
    (match hay with
     | [] -> false
     | _ :: hay' -> contains needle hay')

(** val zlen : 'a1 list -> z **)

let zlen l =
  Z.of_nat (length l)

(** val znth : 'a1 list -> z -> 'a1 option **)

let rec znth l i =
  match l with
  | [] -> None
  | x :: l' ->
    if Z.eqb i Z0
    then Some x
    else if Z.ltb i Z0 then None else znth l' (Z.sub i (Zpos XH))

(** val b2z : bool -> z **)

let b2z = function
| true -> Zpos XH
| false -> Z0

type spec_float =
| S754_zero of bool
| S754_infinity of bool
| S754_nan
| S754_finite of bool * positive * z

(** val emin : z -> z -> z **)

let emin prec emax =
  Z.sub (Z.sub (Zpos (XI XH)) emax) prec

(** val fexp : z -> z -> z -> z **)

let fexp prec emax e =
  Z.max (Z.sub e prec) (emin prec emax)

(** val digits2_pos : positive -> positive **)

let rec digits2_pos = function
| XI p -> Coq_Pos.succ (digits2_pos p)
| XO p -> Coq_Pos.succ (digits2_pos p)
| XH -> XH

(** val zdigits2 : z -> z **)

let zdigits2 n0 = match n0 with
| Z0 -> n0
| Zpos p -> Zpos (digits2_pos p)
| Zneg p -> Zpos (digits2_pos p)

(** val iter_pos : ('a1 -> 'a1) -> positive -> 'a1 -> 'a1 **)

let rec iter_pos f n0 x =
  match n0 with
  | XI n' -> iter_pos f n' (iter_pos f n' (f x))
  | XO n' -> iter_pos f n' (iter_pos f n' x)
  | XH -> f x

type location =
| Loc_Exact
| Loc_Inexact of comparison

type shr_record = { shr_m : z; shr_r : bool; shr_s : bool }

(** val shr_1 : shr_record -> shr_record **)

let shr_1 mrs =
  let { shr_m = m; shr_r = r; shr_s = s } = mrs in
  let s0 = (||) r s in
  (match m with
   | Z0 -> { shr_m = Z0; shr_r = false; shr_s = s0 }
   | Zpos p0 ->
     (match p0 with
      | XI p -> { shr_m = (Zpos p); shr_r = true; shr_s = s0 }
      | XO p -> { shr_m = (Zpos p); shr_r = false; shr_s = s0 }
      | XH -> { shr_m = Z0; shr_r = true; shr_s = s0 })
   | Zneg p0 ->
     (match p0 with
      | XI p -> { shr_m = (Zneg p); shr_r = true; shr_s = s0 }
      | XO p -> { shr_m = (Zneg p); shr_r = false; shr_s = s0 }
      | XH -> { shr_m = Z0; shr_r = true; shr_s = s0 }))

(** val loc_of_shr_record : shr_record -> location **)

let loc_of_shr_record mrs =
  let { shr_m = _; shr_r = shr_r0; shr_s = shr_s0 } = mrs in
  if shr_r0
  then if shr_s0 then Loc_Inexact Gt else Loc_Inexact Eq
  else if shr_s0 then Loc_Inexact Lt else Loc_Exact

(** val shr_record_of_loc : z -> location -> shr_record **)

let shr_record_of_loc m = function
| Loc_Exact -> { shr_m = m; shr_r = false; shr_s = false }
| Loc_Inexact c ->
  (match c with
   | Eq -> { shr_m = m; shr_r = true; shr_s = false }
   | Lt -> { shr_m = m; shr_r = false; shr_s = true }
   | Gt -> { shr_m = m; shr_r = true; shr_s = true })

(** val shr : shr_record -> z -> z -> shr_record * z **)

let shr mrs e n0 = match n0 with
| Zpos p -> ((iter_pos shr_1 p mrs), (Z.add e n0))
| _ -> (mrs, e)

(** val shr_fexp : z -> z -> z -> z -> location -> shr_record * z **)

let shr_fexp prec emax m e l =
  shr (shr_record_of_loc m l) e
    (Z.sub (fexp prec emax (Z.add (zdigits2 m) e)) e)

(** val round_nearest_even : z -> location -> z **)

let round_nearest_even mx = function
| Loc_Exact -> mx
| Loc_Inexact c ->
  (match c with
   | Eq -> if Z.even mx then mx else Z.add mx (Zpos XH)
   | Lt -> mx
   | Gt -> Z.add mx (Zpos XH))

(** val binary_round_aux :
    z -> z -> bool -> z -> z -> location -> spec_float **)

let binary_round_aux prec emax sx mx ex lx =
  let (mrs', e') = shr_fexp prec emax mx ex lx in
  let (mrs'', e'') =
    shr_fexp prec emax
      (round_nearest_even mrs'.shr_m (loc_of_shr_record mrs')) e' Loc_Exact
  in
  (match mrs''.shr_m with
   | Z0 -> S754_zero sx
   | Zpos m ->
     if Z.leb e'' (Z.sub emax prec)
     then S754_finite (sx, m, e'')
     else S754_infinity sx
   | Zneg _ -> S754_nan)

(** val shl_align : positive -> z -> z -> positive * z **)

let shl_align mx ex ex' =
  match Z.sub ex' ex with
  | Zneg d -> ((shift_pos d mx), ex')
  | _ -> (mx, ex)

(** val binary_round : z -> z -> bool -> positive -> z -> spec_float **)

let binary_round prec emax sx mx ex =
  let (mz, ez) =
    shl_align mx ex (fexp prec emax (Z.add (Zpos (digits2_pos mx)) ex))
  in
  binary_round_aux prec emax sx (Zpos mz) ez Loc_Exact

(** val binary_normalize : z -> z -> z -> z -> bool -> spec_float **)

let binary_normalize prec emax m e szero =
  match m with
  | Z0 -> S754_zero szero
  | Zpos m0 -> binary_round prec emax false m0 e
  | Zneg m0 -> binary_round prec emax true m0 e

(** val sFopp : spec_float -> spec_float **)

let sFopp = function
| S754_zero sx -> S754_zero (negb sx)
| S754_infinity sx -> S754_infinity (negb sx)
| S754_nan -> S754_nan
| S754_finite (sx, mx, ex) -> S754_finite ((negb sx), mx, ex)

(** val sFcompare : spec_float -> spec_float -> comparison option **)

let sFcompare f1 f2 =
  match f1 with
  | S754_zero _ ->
    (match f2 with
     | S754_zero _ -> Some Eq
     | S754_infinity s -> Some (if s then Gt else Lt)
     | S754_nan -> None
     | S754_finite (s, _, _) -> Some (if s then Gt else Lt))
  | S754_infinity s ->
    (match f2 with
     | S754_infinity s0 ->
       Some (if s then if s0 then Eq else Lt else if s0 then Gt else Eq)
     | S754_nan -> None
     | _ -> Some (if s then Lt else Gt))
  | S754_nan -> None
  | S754_finite (s1, m1, e1) ->
    (match f2 with
     | S754_zero _ -> Some (if s1 then Lt else Gt)
     | S754_infinity s -> Some (if s then Gt else Lt)
     | S754_nan -> None
     | S754_finite (s2, m2, e2) ->
       Some
         (if s1
          then if s2
               then (match Z.compare e1 e2 with
                     | Eq -> compOpp (Coq_Pos.compare_cont Eq m1 m2)
                     | Lt -> Gt
                     | Gt -> Lt)
               else Lt
          else if s2
               then Gt
               else (match Z.compare e1 e2 with
                     | Eq -> Coq_Pos.compare_cont Eq m1 m2
                     | x -> x)))

(** val sFeqb : spec_float -> spec_float -> bool **)

let sFeqb f1 f2 =
  match sFcompare f1 f2 with
  | Some c -> (match c with
               | Eq -> true
               | _ -> false)
  | None -> false

(** val sFmul : z -> z -> spec_float -> spec_float -> spec_float **)

let sFmul prec emax x y =
  match x with
  | S754_zero sx ->
    (match y with
     | S754_zero sy -> S754_zero (xorb sx sy)
     | S754_finite (sy, _, _) -> S754_zero (xorb sx sy)
     | _ -> S754_nan)
  | S754_infinity sx ->
    (match y with
     | S754_infinity sy -> S754_infinity (xorb sx sy)
     | S754_finite (sy, _, _) -> S754_infinity (xorb sx sy)
     | _ -> S754_nan)
  | S754_nan -> S754_nan
  | S754_finite (sx, mx, ex) ->
    (match y with
     | S754_zero sy -> S754_zero (xorb sx sy)
     | S754_infinity sy -> S754_infinity (xorb sx sy)
     | S754_nan -> S754_nan
     | S754_finite (sy, my, ey) ->
       binary_round_aux prec emax (xorb sx sy) (Zpos (Coq_Pos.mul mx my))
         (Z.add ex ey) Loc_Exact)

(** val cond_Zopp : bool -> z -> z **)

let cond_Zopp b m =
  if b then Z.opp m else m

(** val sFadd : z -> z -> spec_float -> spec_float -> spec_float **)

let sFadd prec emax x y =
  match x with
  | S754_zero sx ->
    (match y with
     | S754_zero sy -> if eqb sx sy then x else S754_zero false
     | S754_nan -> S754_nan
     | _ -> y)
  | S754_infinity sx ->
    (match y with
     | S754_infinity sy -> if eqb sx sy then x else S754_nan
     | S754_nan -> S754_nan
     | _ -> x)
  | S754_nan -> S754_nan
  | S754_finite (sx, mx, ex) ->
    (match y with
     | S754_zero _ -> x
     | S754_infinity _ -> y
     | S754_nan -> S754_nan
     | S754_finite (sy, my, ey) ->
       let ez = Z.min ex ey in
       binary_normalize prec emax
         (Z.add (cond_Zopp sx (Zpos (fst (shl_align mx ex ez))))
           (cond_Zopp sy (Zpos (fst (shl_align my ey ez))))) ez false)

(** val sFsub : z -> z -> spec_float -> spec_float -> spec_float **)

let sFsub prec emax x y =
  match x with
  | S754_zero sx ->
    (match y with
     | S754_zero sy -> if eqb sx (negb sy) then x else S754_zero false
     | S754_infinity sy -> S754_infinity (negb sy)
     | S754_nan -> S754_nan
     | S754_finite (sy, my, ey) -> S754_finite ((negb sy), my, ey))
  | S754_infinity sx ->
    (match y with
     | S754_infinity sy -> if eqb sx (negb sy) then x else S754_nan
     | S754_nan -> S754_nan
     | _ -> x)
  | S754_nan -> S754_nan
  | S754_finite (sx, mx, ex) ->
    (match y with
     | S754_zero _ -> x
     | S754_infinity sy -> S754_infinity (negb sy)
     | S754_nan -> S754_nan
     | S754_finite (sy, my, ey) ->
       let ez = Z.min ex ey in
       binary_normalize prec emax
         (Z.sub (cond_Zopp sx (Zpos (fst (shl_align mx ex ez))))
           (cond_Zopp sy (Zpos (fst (shl_align my ey ez))))) ez false)

(** val new_location_even : z -> z -> location **)

let new_location_even nb_steps k =
  if zeq_bool k Z0
  then Loc_Exact
  else Loc_Inexact (Z.compare (Z.mul (Zpos (XO XH)) k) nb_steps)

(** val new_location_odd : z -> z -> location **)

let new_location_odd nb_steps k =
  if zeq_bool k Z0
  then Loc_Exact
  else Loc_Inexact
         (match Z.compare (Z.add (Z.mul (Zpos (XO XH)) k) (Zpos XH)) nb_steps with
          | Eq -> Lt
          | x -> x)

(** val new_location : z -> z -> location **)

let new_location nb_steps =
  if Z.even nb_steps
  then new_location_even nb_steps
  else new_location_odd nb_steps

(** val sFdiv_core_binary :
    z -> z -> z -> z -> z -> z -> (z * z) * location **)

let sFdiv_core_binary prec emax m1 e1 m2 e2 =
  let d1 = zdigits2 m1 in
  let d2 = zdigits2 m2 in
  let e' =
    Z.min (fexp prec emax (Z.sub (Z.add d1 e1) (Z.add d2 e2))) (Z.sub e1 e2)
  in
  let s = Z.sub (Z.sub e1 e2) e' in
  let m' = match s with
           | Z0 -> m1
           | Zpos _ -> Z.shiftl m1 s
           | Zneg _ -> Z0 in
  let (q, r) = Z.div_eucl m' m2 in ((q, e'), (new_location m2 r))

(** val sFdiv : z -> z -> spec_float -> spec_float -> spec_float **)

let sFdiv prec emax x y =
  match x with
  | S754_zero sx ->
    (match y with
     | S754_infinity sy -> S754_zero (xorb sx sy)
     | S754_finite (sy, _, _) -> S754_zero (xorb sx sy)
     | _ -> S754_nan)
  | S754_infinity sx ->
    (match y with
     | S754_zero sy -> S754_infinity (xorb sx sy)
     | S754_finite (sy, _, _) -> S754_infinity (xorb sx sy)
     | _ -> S754_nan)
  | S754_nan -> S754_nan
  | S754_finite (sx, mx, ex) ->
    (match y with
     | S754_zero sy -> S754_infinity (xorb sx sy)
     | S754_infinity sy -> S754_zero (xorb sx sy)
     | S754_nan -> S754_nan
     | S754_finite (sy, my, ey) ->
       let (p, lz) = sFdiv_core_binary prec emax (Zpos mx) ex (Zpos my) ey in
       let (mz, ez) = p in binary_round_aux prec emax (xorb sx sy) mz ez lz)

type f64 = spec_float

(** val prec64 : z **)

let prec64 =
  Zpos (XI (XO (XI (XO (XI XH)))))

(** val emax64 : z **)

let emax64 =
  Zpos (XO (XO (XO (XO (XO (XO (XO (XO (XO (XO XH))))))))))

(** val f64_add : spec_float -> spec_float -> spec_float **)

let f64_add =
  sFadd prec64 emax64

(** val f64_sub : spec_float -> spec_float -> spec_float **)

let f64_sub =
  sFsub prec64 emax64

(** val f64_mul : spec_float -> spec_float -> spec_float **)

let f64_mul =
  sFmul prec64 emax64

(** val f64_div : spec_float -> spec_float -> spec_float **)

let f64_div =
  sFdiv prec64 emax64

(** val f64_neg : spec_float -> spec_float **)

let f64_neg =
  sFopp

(** val f64_cmp : spec_float -> spec_float -> comparison option **)

let f64_cmp =
  sFcompare

(** val f64_eqb : spec_float -> spec_float -> bool **)

let f64_eqb =
  sFeqb

(** val f64_is_zero : f64 -> bool **)

let f64_is_zero = function
| S754_zero _ -> true
| _ -> false

(** val f64_zero : f64 **)

let f64_zero =
  S754_zero false

(** val f64_one : f64 **)

let f64_one =
  S754_finite (false, (XO (XO (XO (XO (XO (XO (XO (XO (XO (XO (XO (XO (XO (XO
    (XO (XO (XO (XO (XO (XO (XO (XO (XO (XO (XO (XO (XO (XO (XO (XO (XO (XO
    (XO (XO (XO (XO (XO (XO (XO (XO (XO (XO (XO (XO (XO (XO (XO (XO (XO (XO
    (XO (XO XH)))))))))))))))))))))))))))))))))))))))))))))))))))), (Zneg (XO
    (XO (XI (XO (XI XH)))))))

(** val f64_of_Z : z -> f64 **)

let f64_of_Z z0 =
  binary_normalize prec64 emax64 z0 Z0 false

(** val f64_of_bits : z -> f64 **)

let f64_of_bits b =
  let s =
    Z.leb (Zpos (XO (XO (XO (XO (XO (XO (XO (XO (XO (XO (XO (XO (XO (XO (XO
      (XO (XO (XO (XO (XO (XO (XO (XO (XO (XO (XO (XO (XO (XO (XO (XO (XO (XO
      (XO (XO (XO (XO (XO (XO (XO (XO (XO (XO (XO (XO (XO (XO (XO (XO (XO (XO
      (XO (XO (XO (XO (XO (XO (XO (XO (XO (XO (XO (XO
      XH)))))))))))))))))))))))))))))))))))))))))))))))))))))))))))))))) b
  in
  let r =
    Z.modulo b (Zpos (XO (XO (XO (XO (XO (XO (XO (XO (XO (XO (XO (XO (XO (XO
      (XO (XO (XO (XO (XO (XO (XO (XO (XO (XO (XO (XO (XO (XO (XO (XO (XO (XO
      (XO (XO (XO (XO (XO (XO (XO (XO (XO (XO (XO (XO (XO (XO (XO (XO (XO (XO
      (XO (XO (XO (XO (XO (XO (XO (XO (XO (XO (XO (XO (XO
      XH))))))))))))))))))))))))))))))))))))))))))))))))))))))))))))))))
  in
  let e =
    Z.div r (Zpos (XO (XO (XO (XO (XO (XO (XO (XO (XO (XO (XO (XO (XO (XO (XO
      (XO (XO (XO (XO (XO (XO (XO (XO (XO (XO (XO (XO (XO (XO (XO (XO (XO (XO
      (XO (XO (XO (XO (XO (XO (XO (XO (XO (XO (XO (XO (XO (XO (XO (XO (XO (XO
      (XO XH)))))))))))))))))))))))))))))))))))))))))))))))))))))
  in
  let m =
    Z.modulo r (Zpos (XO (XO (XO (XO (XO (XO (XO (XO (XO (XO (XO (XO (XO (XO
      (XO (XO (XO (XO (XO (XO (XO (XO (XO (XO (XO (XO (XO (XO (XO (XO (XO (XO
      (XO (XO (XO (XO (XO (XO (XO (XO (XO (XO (XO (XO (XO (XO (XO (XO (XO (XO
      (XO (XO XH)))))))))))))))))))))))))))))))))))))))))))))))))))))
  in
  if Z.eqb e Z0
  then (match m with
        | Zpos p ->
          S754_finite (s, p, (Zneg (XO (XI (XO (XO (XI (XI (XO (XO (XO (XO
            XH))))))))))))
        | _ -> S754_zero s)
  else if Z.eqb e (Zpos (XI (XI (XI (XI (XI (XI (XI (XI (XI (XI XH)))))))))))
       then if Z.eqb m Z0 then S754_infinity s else S754_nan
       else (match Z.add m (Zpos (XO (XO (XO (XO (XO (XO (XO (XO (XO (XO (XO
                     (XO (XO (XO (XO (XO (XO (XO (XO (XO (XO (XO (XO (XO (XO
                     (XO (XO (XO (XO (XO (XO (XO (XO (XO (XO (XO (XO (XO (XO
                     (XO (XO (XO (XO (XO (XO (XO (XO (XO (XO (XO (XO (XO
                     XH))))))))))))))))))))))))))))))))))))))))))))))))))))) with
             | Zpos p ->
               S754_finite (s, p,
                 (Z.sub e (Zpos (XI (XI (XO (XO (XI (XI (XO (XO (XO (XO
                   XH)))))))))))))
             | _ -> S754_nan)

(** val f64_to_bits : f64 -> z **)

let f64_to_bits x =
  let sb = fun s ->
    if s
    then Zpos (XO (XO (XO (XO (XO (XO (XO (XO (XO (XO (XO (XO (XO (XO (XO (XO
           (XO (XO (XO (XO (XO (XO (XO (XO (XO (XO (XO (XO (XO (XO (XO (XO
           (XO (XO (XO (XO (XO (XO (XO (XO (XO (XO (XO (XO (XO (XO (XO (XO
           (XO (XO (XO (XO (XO (XO (XO (XO (XO (XO (XO (XO (XO (XO (XO
           XH)))))))))))))))))))))))))))))))))))))))))))))))))))))))))))))))
    else Z0
  in
  (match x with
   | S754_zero s -> sb s
   | S754_infinity s ->
     Z.add (sb s) (Zpos (XO (XO (XO (XO (XO (XO (XO (XO (XO (XO (XO (XO (XO
       (XO (XO (XO (XO (XO (XO (XO (XO (XO (XO (XO (XO (XO (XO (XO (XO (XO
       (XO (XO (XO (XO (XO (XO (XO (XO (XO (XO (XO (XO (XO (XO (XO (XO (XO
       (XO (XO (XO (XO (XO (XI (XI (XI (XI (XI (XI (XI (XI (XI (XI
       XH)))))))))))))))))))))))))))))))))))))))))))))))))))))))))))))))
   | S754_nan ->
     Zpos (XO (XO (XO (XO (XO (XO (XO (XO (XO (XO (XO (XO (XO (XO (XO (XO (XO
       (XO (XO (XO (XO (XO (XO (XO (XO (XO (XO (XO (XO (XO (XO (XO (XO (XO
       (XO (XO (XO (XO (XO (XO (XO (XO (XO (XO (XO (XO (XO (XO (XO (XO (XO
       (XI (XI (XI (XI (XI (XI (XI (XI (XI (XI (XI
       XH))))))))))))))))))))))))))))))))))))))))))))))))))))))))))))))
   | S754_finite (s, m, e) ->
     if Z.ltb (Zpos m) (Zpos (XO (XO (XO (XO (XO (XO (XO (XO (XO (XO (XO (XO
          (XO (XO (XO (XO (XO (XO (XO (XO (XO (XO (XO (XO (XO (XO (XO (XO (XO
          (XO (XO (XO (XO (XO (XO (XO (XO (XO (XO (XO (XO (XO (XO (XO (XO (XO
          (XO (XO (XO (XO (XO (XO
          XH)))))))))))))))))))))))))))))))))))))))))))))))))))))
     then Z.add (sb s) (Zpos m)
     else Z.add
            (Z.add (sb s)
              (Z.mul
                (Z.add e (Zpos (XI (XI (XO (XO (XI (XI (XO (XO (XO (XO
                  XH)))))))))))) (Zpos (XO (XO (XO (XO (XO (XO (XO (XO (XO
                (XO (XO (XO (XO (XO (XO (XO (XO (XO (XO (XO (XO (XO (XO (XO
                (XO (XO (XO (XO (XO (XO (XO (XO (XO (XO (XO (XO (XO (XO (XO
                (XO (XO (XO (XO (XO (XO (XO (XO (XO (XO (XO (XO (XO
                XH)))))))))))))))))))))))))))))))))))))))))))))))))))))))
            (Z.sub (Zpos m) (Zpos (XO (XO (XO (XO (XO (XO (XO (XO (XO (XO (XO
              (XO (XO (XO (XO (XO (XO (XO (XO (XO (XO (XO (XO (XO (XO (XO (XO
              (XO (XO (XO (XO (XO (XO (XO (XO (XO (XO (XO (XO (XO (XO (XO (XO
              (XO (XO (XO (XO (XO (XO (XO (XO (XO
              XH)))))))))))))))))))))))))))))))))))))))))))))))))))))))

type cel_error =
| EMisc
| ESyntax of z * z
| EValue
| EArgument
| EInvalidOp
| ERuntime
| EBinding of bytes
| EAttribute of bytes
| EDivZero
| EInternal

type 'a res =
| ROk of 'a
| RErr of cel_error
| RPanic
| RFuel

type value =
| VInt of z
| VUInt of z
| VFloat of f64
| VBool of bool
| VString of bytes
| VBytes of bytes
| VList of value list
| VMap of (bytes * value) list
| VNull
| VIdent of bytes
| VType of bytes
| VTime of z
| VDur of z
| VCode of instr list
| VErr of cel_error
and instr =
| IPush of value
| IPop
| ITest
| IDup
| IOr
| IAnd
| INot
| INeg
| IAdd
| ISub
| IMul
| IDiv
| IMod
| ILt
| ILe
| IEq
| INe
| IGe
| IGt
| IIn
| IJmp of z
| IJmpCond of bool * z
| IMkList of z
| IMkDict of z
| IIndex
| IAccess
| ICall of z
| IFmt of z

(** val is_err : value -> bool **)

let is_err = function
| VErr _ -> true
| _ -> false

(** val map_get : (bytes * 'a1) list -> bytes -> 'a1 option **)

let rec map_get m k =
  match m with
  | [] -> None
  | p :: m' ->
    let (k', v) = p in if bytes_eqb k k' then Some v else map_get m' k

(** val map_insert :
    (bytes * 'a1) list -> bytes -> 'a1 -> (bytes * 'a1) list **)

let rec map_insert m k v =
  match m with
  | [] -> (k, v) :: []
  | p :: m' ->
    let (k', v') = p in
    (match bytes_cmp k k' with
     | Eq -> (k, v) :: m'
     | Lt -> (k, v) :: m
     | Gt -> (k', v') :: (map_insert m' k v))

(** val time_min_ns : z **)

let time_min_ns =
  Z.mul (Zneg (XO (XO (XO (XO (XO (XO (XO (XO (XO (XI (XO (XO (XI (XO (XO (XO
    (XO (XI (XO (XO (XI (XI (XI (XI (XO (XO (XI (XI (XO (XO (XO (XI (XO (XO
    (XI (XO (XI (XO (XO (XI (XI (XI
    XH))))))))))))))))))))))))))))))))))))))))))) (Zpos (XO (XO (XO (XO (XO
    (XO (XO (XO (XO (XI (XO (XI (XO (XO (XI (XI (XO (XI (XO (XI (XI (XO (XO
    (XI (XI (XI (XO (XI (XI XH))))))))))))))))))))))))))))))

(** val time_max_ns : z **)

let time_max_ns =
  Z.add
    (Z.mul (Zpos (XI (XI (XI (XI (XI (XI (XI (XO (XI (XI (XO (XI (XO (XI (XI
      (XO (XO (XI (XO (XI (XO (XO (XO (XO (XO (XI (XO (XI (XI (XO (XO (XI (XI
      (XI (XI (XO (XI (XI (XI (XO (XI (XI
      XH))))))))))))))))))))))))))))))))))))))))))) (Zpos (XO (XO (XO (XO (XO
      (XO (XO (XO (XO (XI (XO (XI (XO (XO (XI (XI (XO (XI (XO (XI (XI (XO (XO
      (XI (XI (XI (XO (XI (XI XH))))))))))))))))))))))))))))))) (Zpos (XI (XI
    (XI (XI (XI (XI (XI (XI (XI (XO (XO (XI (XO (XO (XI (XI (XO (XI (XO (XI
    (XI (XO (XO (XI (XI (XI (XO (XI (XI XH))))))))))))))))))))))))))))))

(** val dur_max_ns : z **)

let dur_max_ns =
  Z.mul (Zpos (XI (XI (XI (XI (XI (XI (XI (XI (XI (XI (XI (XI (XI (XI (XI (XI
    (XI (XI (XI (XI (XI (XI (XI (XI (XI (XI (XI (XI (XI (XI (XI (XI (XI (XI
    (XI (XI (XI (XI (XI (XI (XI (XI (XI (XI (XI (XI (XI (XI (XI (XI (XI (XI
    (XI (XI (XI (XI (XI (XI (XI (XI (XI (XI
    XH))))))))))))))))))))))))))))))))))))))))))))))))))))))))))))))) (Zpos
    (XO (XO (XO (XO (XO (XO (XI (XO (XO (XI (XO (XO (XO (XO (XI (XO (XI (XI
    (XI XH))))))))))))))))))))

(** val dur_min_ns : z **)

let dur_min_ns =
  Z.opp dur_max_ns

(** val in_time : z -> bool **)

let in_time ns =
  (&&) (Z.leb time_min_ns ns) (Z.leb ns time_max_ns)

(** val in_dur : z -> bool **)

let in_dur ns =
  (&&) (Z.leb dur_min_ns ns) (Z.leb ns dur_max_ns)

(** val checked_time : z -> value **)

let checked_time ns =
  if in_time ns then VTime ns else VErr EValue

(** val checked_dur : z -> value **)

let checked_dur ns =
  if in_dur ns then VDur ns else VErr EValue

(** val type_prop : value -> value -> value * value **)

let type_prop l r =
  match l with
  | VInt li ->
    (match r with
     | VUInt u -> if Z.leb u i64_max then (l, (VInt u)) else (l, r)
     | VFloat _ -> ((VFloat (f64_of_Z li)), r)
     | VBool b -> (l, (VInt (b2z b)))
     | _ -> (l, r))
  | VUInt lu ->
    (match r with
     | VInt _ -> if Z.leb lu i64_max then ((VInt lu), r) else (l, r)
     | VFloat _ -> ((VFloat (f64_of_Z lu)), r)
     | VBool b -> (l, (VUInt (b2z b)))
     | _ -> (l, r))
  | VFloat _ ->
    (match r with
     | VInt i -> (l, (VFloat (f64_of_Z i)))
     | VUInt u -> (l, (VFloat (f64_of_Z u)))
     | VBool b -> (l, (VFloat (if b then f64_one else f64_zero)))
     | _ -> (l, r))
  | VBool lb ->
    (match r with
     | VInt _ -> ((VInt (b2z lb)), r)
     | VUInt _ -> ((VUInt (b2z lb)), r)
     | VFloat _ -> ((VFloat (if lb then f64_one else f64_zero)), r)
     | _ -> (l, r))
  | _ -> (l, r)

(** val error_prop_or :
    value -> value -> (value -> value -> value) -> value **)

let error_prop_or l r f =
  if is_err l then l else if is_err r then r else f l r

(** val ck_int : z -> value **)

let ck_int z0 =
  if in_i64 z0 then VInt z0 else VErr EValue

(** val ck_uint : z -> value **)

let ck_uint z0 =
  if in_u64 z0 then VUInt z0 else VErr EValue

(** val add0 : value -> value -> value **)

let add0 a b =
  error_prop_or a b (fun a0 b0 ->
    let (v, v0) = type_prop a0 b0 in
    (match v with
     | VInt x ->
       (match v0 with
        | VInt y -> ck_int (Z.add x y)
        | _ -> VErr EInvalidOp)
     | VUInt x ->
       (match v0 with
        | VUInt y -> ck_uint (Z.add x y)
        | _ -> VErr EInvalidOp)
     | VFloat x ->
       (match v0 with
        | VFloat y -> VFloat (f64_add x y)
        | _ -> VErr EInvalidOp)
     | VString x ->
       (match v0 with
        | VString y -> VString (app x y)
        | _ -> VErr EInvalidOp)
     | VBytes x ->
       (match v0 with
        | VBytes y -> VBytes (app x y)
        | _ -> VErr EInvalidOp)
     | VList x ->
       (match v0 with
        | VList y -> VList (app x y)
        | _ -> VErr EInvalidOp)
     | VTime t ->
       (match v0 with
        | VDur d -> checked_time (Z.add t d)
        | _ -> VErr EInvalidOp)
     | VDur x ->
       (match v0 with
        | VTime t -> checked_time (Z.add t x)
        | VDur y -> checked_dur (Z.add x y)
        | _ -> VErr EInvalidOp)
     | _ -> VErr EInvalidOp))

(** val sub0 : value -> value -> value **)

let sub0 a b =
  error_prop_or a b (fun a0 b0 ->
    let (v, v0) = type_prop a0 b0 in
    (match v with
     | VInt x ->
       (match v0 with
        | VInt y -> ck_int (Z.sub x y)
        | _ -> VErr EInvalidOp)
     | VUInt x ->
       (match v0 with
        | VUInt y -> ck_uint (Z.sub x y)
        | _ -> VErr EInvalidOp)
     | VFloat x ->
       (match v0 with
        | VFloat y -> VFloat (f64_sub x y)
        | _ -> VErr EInvalidOp)
     | VTime t1 ->
       (match v0 with
        | VTime t2 -> VDur (Z.sub t1 t2)
        | VDur d -> checked_time (Z.sub t1 d)
        | _ -> VErr EInvalidOp)
     | VDur x ->
       (match v0 with
        | VTime t -> checked_time (Z.sub t x)
        | VDur y -> checked_dur (Z.sub x y)
        | _ -> VErr EInvalidOp)
     | _ -> VErr EInvalidOp))

(** val mul0 : value -> value -> value **)

let mul0 a b =
  error_prop_or a b (fun a0 b0 ->
    let (v, v0) = type_prop a0 b0 in
    (match v with
     | VInt x ->
       (match v0 with
        | VInt y -> ck_int (Z.mul x y)
        | _ -> VErr EInvalidOp)
     | VUInt x ->
       (match v0 with
        | VUInt y -> ck_uint (Z.mul x y)
        | _ -> VErr EInvalidOp)
     | VFloat x ->
       (match v0 with
        | VFloat y -> VFloat (f64_mul x y)
        | _ -> VErr EInvalidOp)
     | _ -> VErr EInvalidOp))

(** val div0 : value -> value -> value **)

let div0 a b =
  error_prop_or a b (fun a0 b0 ->
    let (v, v0) = type_prop a0 b0 in
    (match v with
     | VInt x ->
       (match v0 with
        | VInt y -> if Z.eqb y Z0 then VErr EDivZero else ck_int (Z.quot x y)
        | _ -> VErr EInvalidOp)
     | VUInt x ->
       (match v0 with
        | VUInt y -> if Z.eqb y Z0 then VErr EDivZero else VUInt (Z.quot x y)
        | _ -> VErr EInvalidOp)
     | VFloat x ->
       (match v0 with
        | VFloat y -> VFloat (f64_div x y)
        | _ -> VErr EInvalidOp)
     | _ -> VErr EInvalidOp))

(** val rem0 : value -> value -> value **)

let rem0 a b =
  error_prop_or a b (fun a0 b0 ->
    let (v, v0) = type_prop a0 b0 in
    (match v with
     | VInt x ->
       (match v0 with
        | VInt y -> if Z.eqb y Z0 then VErr EDivZero else VInt (Z.rem x y)
        | _ -> VErr EInvalidOp)
     | VUInt x ->
       (match v0 with
        | VUInt y -> if Z.eqb y Z0 then VErr EDivZero else VUInt (Z.rem x y)
        | _ -> VErr EInvalidOp)
     | _ -> VErr EInvalidOp))

(** val neg : value -> value **)

let neg a = match a with
| VInt x -> ck_int (Z.opp x)
| VFloat x -> VFloat (f64_neg x)
| VErr _ -> a
| _ -> VErr EInvalidOp

(** val is_truthy : value -> bool **)

let is_truthy = function
| VInt i -> negb (Z.eqb i Z0)
| VUInt u -> negb (Z.eqb u Z0)
| VFloat f -> negb (f64_is_zero f)
| VBool b -> b
| VString s -> negb (Z.eqb (zlen s) Z0)
| VBytes s -> negb (Z.eqb (zlen s) Z0)
| VList l -> negb (Z.eqb (zlen l) Z0)
| VMap m -> negb (Z.eqb (zlen m) Z0)
| VType _ -> true
| VTime _ -> true
| VDur _ -> true
| _ -> false

(** val not_ : value -> value **)

let not_ a =
  if is_err a then a else VBool (negb (is_truthy a))

(** val or_ : value -> value -> value **)

let or_ a b =
  if is_err a
  then if is_truthy b then VBool true else a
  else if is_err b
       then if is_truthy a then VBool true else b
       else VBool ((||) (is_truthy a) (is_truthy b))

(** val and_ : value -> value -> value **)

let and_ a b =
  error_prop_or a b (fun a0 b0 -> VBool ((&&) (is_truthy a0) (is_truthy b0)))

(** val peq : value -> value -> bool **)

let rec peq a b =
  match a with
  | VInt x -> (match b with
               | VInt y -> Z.eqb x y
               | _ -> false)
  | VUInt x -> (match b with
                | VUInt y -> Z.eqb x y
                | _ -> false)
  | VFloat x -> (match b with
                 | VFloat y -> f64_eqb x y
                 | _ -> false)
  | VBool x -> (match b with
                | VBool y -> eqb x y
                | _ -> false)
  | VString x -> (match b with
                  | VString y -> bytes_eqb x y
                  | _ -> false)
  | VBytes x -> (match b with
                 | VBytes y -> bytes_eqb x y
                 | _ -> false)
  | VList l ->
    (match b with
     | VList r ->
       let rec go l0 r0 =
         match l0 with
         | [] -> (match r0 with
                  | [] -> true
                  | _ :: _ -> false)
         | x :: l' ->
           (match r0 with
            | [] -> false
            | y :: r' -> (&&) (peq x y) (go l' r'))
       in go l r
     | _ -> false)
  | VMap l ->
    (match b with
     | VMap r ->
       let rec go l0 r0 =
         match l0 with
         | [] -> (match r0 with
                  | [] -> true
                  | _ :: _ -> false)
         | p :: l' ->
           let (k, x) = p in
           (match r0 with
            | [] -> false
            | p0 :: r' ->
              let (k', y) = p0 in
              (&&) ((&&) (bytes_eqb k k') (peq x y)) (go l' r'))
       in go l r
     | _ -> false)
  | VNull -> (match b with
              | VNull -> true
              | _ -> false)
  | VIdent x -> (match b with
                 | VIdent y -> bytes_eqb x y
                 | _ -> false)
  | VType x -> (match b with
                | VType y -> bytes_eqb x y
                | _ -> false)
  | VTime x -> (match b with
                | VTime y -> Z.eqb x y
                | _ -> false)
  | VDur x -> (match b with
               | VDur y -> Z.eqb x y
               | _ -> false)
  | VCode c ->
    (match b with
     | VCode d ->
       let rec go c0 d0 =
         match c0 with
         | [] -> (match d0 with
                  | [] -> true
                  | _ :: _ -> false)
         | i :: c' ->
           (match d0 with
            | [] -> false
            | j :: d' -> (&&) (ieq i j) (go c' d'))
       in go c d
     | _ -> false)
  | VErr _ -> false

(** val ieq : instr -> instr -> bool **)

and ieq i j =
  match i with
  | IPush v -> (match j with
                | IPush w -> peq v w
                | _ -> false)
  | IPop -> (match j with
             | IPop -> true
             | _ -> false)
  | ITest -> (match j with
              | ITest -> true
              | _ -> false)
  | IDup -> (match j with
             | IDup -> true
             | _ -> false)
  | IOr -> (match j with
            | IOr -> true
            | _ -> false)
  | IAnd -> (match j with
             | IAnd -> true
             | _ -> false)
  | INot -> (match j with
             | INot -> true
             | _ -> false)
  | INeg -> (match j with
             | INeg -> true
             | _ -> false)
  | IAdd -> (match j with
             | IAdd -> true
             | _ -> false)
  | ISub -> (match j with
             | ISub -> true
             | _ -> false)
  | IMul -> (match j with
             | IMul -> true
             | _ -> false)
  | IDiv -> (match j with
             | IDiv -> true
             | _ -> false)
  | IMod -> (match j with
             | IMod -> true
             | _ -> false)
  | ILt -> (match j with
            | ILt -> true
            | _ -> false)
  | ILe -> (match j with
            | ILe -> true
            | _ -> false)
  | IEq -> (match j with
            | IEq -> true
            | _ -> false)
  | INe -> (match j with
            | INe -> true
            | _ -> false)
  | IGe -> (match j with
            | IGe -> true
            | _ -> false)
  | IGt -> (match j with
            | IGt -> true
            | _ -> false)
  | IIn -> (match j with
            | IIn -> true
            | _ -> false)
  | IJmp d -> (match j with
               | IJmp d' -> Z.eqb d d'
               | _ -> false)
  | IJmpCond (w, d) ->
    (match j with
     | IJmpCond (w', d') -> (&&) (eqb w w') (Z.eqb d d')
     | _ -> false)
  | IMkList n0 -> (match j with
                   | IMkList n' -> Z.eqb n0 n'
                   | _ -> false)
  | IMkDict n0 -> (match j with
                   | IMkDict n' -> Z.eqb n0 n'
                   | _ -> false)
  | IIndex -> (match j with
               | IIndex -> true
               | _ -> false)
  | IAccess -> (match j with
                | IAccess -> true
                | _ -> false)
  | ICall n0 -> (match j with
                 | ICall n' -> Z.eqb n0 n'
                 | _ -> false)
  | IFmt n0 -> (match j with
                | IFmt n' -> Z.eqb n0 n'
                | _ -> false)

(** val is_true : value -> bool **)

let is_true = function
| VBool b -> b
| _ -> false

(** val eq_ : value -> value -> value **)

let rec eq_ a b =
  if is_err a
  then a
  else if is_err b
       then b
       else let (v, v0) = type_prop a b in
            (match v with
             | VInt x ->
               (match v0 with
                | VInt y -> VBool (Z.eqb x y)
                | _ ->
                  (match a with
                   | VList l ->
                     (match b with
                      | VList r ->
                        if negb (Z.eqb (zlen l) (zlen r))
                        then VBool false
                        else let rec go l0 r0 =
                               match l0 with
                               | [] -> VBool true
                               | x0 :: l' ->
                                 (match r0 with
                                  | [] -> VBool true
                                  | y :: r' ->
                                    (match eq_ x0 y with
                                     | VErr e -> VErr e
                                     | x1 ->
                                       if is_true x1
                                       then go l' r'
                                       else VBool false))
                             in go l r
                      | _ -> VBool false)
                   | VMap l ->
                     (match b with
                      | VMap r ->
                        if let rec go = function
                           | [] -> true
                           | p :: l' ->
                             let (k, x0) = p in
                             (match map_get r k with
                              | Some y -> (&&) (is_true (eq_ x0 y)) (go l')
                              | None -> false)
                           in go l
                        then VBool (Z.eqb (zlen l) (zlen r))
                        else VBool false
                      | _ -> VBool false)
                   | _ -> VBool false))
             | VUInt x ->
               (match v0 with
                | VUInt y -> VBool (Z.eqb x y)
                | _ ->
                  (match a with
                   | VList l ->
                     (match b with
                      | VList r ->
                        if negb (Z.eqb (zlen l) (zlen r))
                        then VBool false
                        else let rec go l0 r0 =
                               match l0 with
                               | [] -> VBool true
                               | x0 :: l' ->
                                 (match r0 with
                                  | [] -> VBool true
                                  | y :: r' ->
                                    (match eq_ x0 y with
                                     | VErr e -> VErr e
                                     | x1 ->
                                       if is_true x1
                                       then go l' r'
                                       else VBool false))
                             in go l r
                      | _ -> VBool false)
                   | VMap l ->
                     (match b with
                      | VMap r ->
                        if let rec go = function
                           | [] -> true
                           | p :: l' ->
                             let (k, x0) = p in
                             (match map_get r k with
                              | Some y -> (&&) (is_true (eq_ x0 y)) (go l')
                              | None -> false)
                           in go l
                        then VBool (Z.eqb (zlen l) (zlen r))
                        else VBool false
                      | _ -> VBool false)
                   | _ -> VBool false))
             | VFloat x ->
               (match v0 with
                | VFloat y -> VBool (f64_eqb x y)
                | _ ->
                  (match a with
                   | VList l ->
                     (match b with
                      | VList r ->
                        if negb (Z.eqb (zlen l) (zlen r))
                        then VBool false
                        else let rec go l0 r0 =
                               match l0 with
                               | [] -> VBool true
                               | x0 :: l' ->
                                 (match r0 with
                                  | [] -> VBool true
                                  | y :: r' ->
                                    (match eq_ x0 y with
                                     | VErr e -> VErr e
                                     | x1 ->
                                       if is_true x1
                                       then go l' r'
                                       else VBool false))
                             in go l r
                      | _ -> VBool false)
                   | VMap l ->
                     (match b with
                      | VMap r ->
                        if let rec go = function
                           | [] -> true
                           | p :: l' ->
                             let (k, x0) = p in
                             (match map_get r k with
                              | Some y -> (&&) (is_true (eq_ x0 y)) (go l')
                              | None -> false)
                           in go l
                        then VBool (Z.eqb (zlen l) (zlen r))
                        else VBool false
                      | _ -> VBool false)
                   | _ -> VBool false))
             | VBool x ->
               (match v0 with
                | VBool y -> VBool (eqb x y)
                | _ ->
                  (match a with
                   | VList l ->
                     (match b with
                      | VList r ->
                        if negb (Z.eqb (zlen l) (zlen r))
                        then VBool false
                        else let rec go l0 r0 =
                               match l0 with
                               | [] -> VBool true
                               | x0 :: l' ->
                                 (match r0 with
                                  | [] -> VBool true
                                  | y :: r' ->
                                    (match eq_ x0 y with
                                     | VErr e -> VErr e
                                     | x1 ->
                                       if is_true x1
                                       then go l' r'
                                       else VBool false))
                             in go l r
                      | _ -> VBool false)
                   | VMap l ->
                     (match b with
                      | VMap r ->
                        if let rec go = function
                           | [] -> true
                           | p :: l' ->
                             let (k, x0) = p in
                             (match map_get r k with
                              | Some y -> (&&) (is_true (eq_ x0 y)) (go l')
                              | None -> false)
                           in go l
                        then VBool (Z.eqb (zlen l) (zlen r))
                        else VBool false
                      | _ -> VBool false)
                   | _ -> VBool false))
             | VString x ->
               (match v0 with
                | VString y -> VBool (bytes_eqb x y)
                | _ ->
                  (match a with
                   | VList l ->
                     (match b with
                      | VList r ->
                        if negb (Z.eqb (zlen l) (zlen r))
                        then VBool false
                        else let rec go l0 r0 =
                               match l0 with
                               | [] -> VBool true
                               | x0 :: l' ->
                                 (match r0 with
                                  | [] -> VBool true
                                  | y :: r' ->
                                    (match eq_ x0 y with
                                     | VErr e -> VErr e
                                     | x1 ->
                                       if is_true x1
                                       then go l' r'
                                       else VBool false))
                             in go l r
                      | _ -> VBool false)
                   | VMap l ->
                     (match b with
                      | VMap r ->
                        if let rec go = function
                           | [] -> true
                           | p :: l' ->
                             let (k, x0) = p in
                             (match map_get r k with
                              | Some y -> (&&) (is_true (eq_ x0 y)) (go l')
                              | None -> false)
                           in go l
                        then VBool (Z.eqb (zlen l) (zlen r))
                        else VBool false
                      | _ -> VBool false)
                   | _ -> VBool false))
             | VBytes x ->
               (match v0 with
                | VBytes y -> VBool (bytes_eqb x y)
                | _ ->
                  (match a with
                   | VList l ->
                     (match b with
                      | VList r ->
                        if negb (Z.eqb (zlen l) (zlen r))
                        then VBool false
                        else let rec go l0 r0 =
                               match l0 with
                               | [] -> VBool true
                               | x0 :: l' ->
                                 (match r0 with
                                  | [] -> VBool true
                                  | y :: r' ->
                                    (match eq_ x0 y with
                                     | VErr e -> VErr e
                                     | x1 ->
                                       if is_true x1
                                       then go l' r'
                                       else VBool false))
                             in go l r
                      | _ -> VBool false)
                   | VMap l ->
                     (match b with
                      | VMap r ->
                        if let rec go = function
                           | [] -> true
                           | p :: l' ->
                             let (k, x0) = p in
                             (match map_get r k with
                              | Some y -> (&&) (is_true (eq_ x0 y)) (go l')
                              | None -> false)
                           in go l
                        then VBool (Z.eqb (zlen l) (zlen r))
                        else VBool false
                      | _ -> VBool false)
                   | _ -> VBool false))
             | VNull ->
               (match v0 with
                | VNull -> VBool true
                | _ ->
                  (match a with
                   | VList l ->
                     (match b with
                      | VList r ->
                        if negb (Z.eqb (zlen l) (zlen r))
                        then VBool false
                        else let rec go l0 r0 =
                               match l0 with
                               | [] -> VBool true
                               | x :: l' ->
                                 (match r0 with
                                  | [] -> VBool true
                                  | y :: r' ->
                                    (match eq_ x y with
                                     | VErr e -> VErr e
                                     | x0 ->
                                       if is_true x0
                                       then go l' r'
                                       else VBool false))
                             in go l r
                      | _ -> VBool false)
                   | VMap l ->
                     (match b with
                      | VMap r ->
                        if let rec go = function
                           | [] -> true
                           | p :: l' ->
                             let (k, x) = p in
                             (match map_get r k with
                              | Some y -> (&&) (is_true (eq_ x y)) (go l')
                              | None -> false)
                           in go l
                        then VBool (Z.eqb (zlen l) (zlen r))
                        else VBool false
                      | _ -> VBool false)
                   | _ -> VBool false))
             | VType x ->
               (match v0 with
                | VType y -> VBool (bytes_eqb x y)
                | _ ->
                  (match a with
                   | VList l ->
                     (match b with
                      | VList r ->
                        if negb (Z.eqb (zlen l) (zlen r))
                        then VBool false
                        else let rec go l0 r0 =
                               match l0 with
                               | [] -> VBool true
                               | x0 :: l' ->
                                 (match r0 with
                                  | [] -> VBool true
                                  | y :: r' ->
                                    (match eq_ x0 y with
                                     | VErr e -> VErr e
                                     | x1 ->
                                       if is_true x1
                                       then go l' r'
                                       else VBool false))
                             in go l r
                      | _ -> VBool false)
                   | VMap l ->
                     (match b with
                      | VMap r ->
                        if let rec go = function
                           | [] -> true
                           | p :: l' ->
                             let (k, x0) = p in
                             (match map_get r k with
                              | Some y -> (&&) (is_true (eq_ x0 y)) (go l')
                              | None -> false)
                           in go l
                        then VBool (Z.eqb (zlen l) (zlen r))
                        else VBool false
                      | _ -> VBool false)
                   | _ -> VBool false))
             | VTime x ->
               (match v0 with
                | VTime y -> VBool (Z.eqb x y)
                | _ ->
                  (match a with
                   | VList l ->
                     (match b with
                      | VList r ->
                        if negb (Z.eqb (zlen l) (zlen r))
                        then VBool false
                        else let rec go l0 r0 =
                               match l0 with
                               | [] -> VBool true
                               | x0 :: l' ->
                                 (match r0 with
                                  | [] -> VBool true
                                  | y :: r' ->
                                    (match eq_ x0 y with
                                     | VErr e -> VErr e
                                     | x1 ->
                                       if is_true x1
                                       then go l' r'
                                       else VBool false))
                             in go l r
                      | _ -> VBool false)
                   | VMap l ->
                     (match b with
                      | VMap r ->
                        if let rec go = function
                           | [] -> true
                           | p :: l' ->
                             let (k, x0) = p in
                             (match map_get r k with
                              | Some y -> (&&) (is_true (eq_ x0 y)) (go l')
                              | None -> false)
                           in go l
                        then VBool (Z.eqb (zlen l) (zlen r))
                        else VBool false
                      | _ -> VBool false)
                   | _ -> VBool false))
             | VDur x ->
               (match v0 with
                | VDur y -> VBool (Z.eqb x y)
                | _ ->
                  (match a with
                   | VList l ->
                     (match b with
                      | VList r ->
                        if negb (Z.eqb (zlen l) (zlen r))
                        then VBool false
                        else let rec go l0 r0 =
                               match l0 with
                               | [] -> VBool true
                               | x0 :: l' ->
                                 (match r0 with
                                  | [] -> VBool true
                                  | y :: r' ->
                                    (match eq_ x0 y with
                                     | VErr e -> VErr e
                                     | x1 ->
                                       if is_true x1
                                       then go l' r'
                                       else VBool false))
                             in go l r
                      | _ -> VBool false)
                   | VMap l ->
                     (match b with
                      | VMap r ->
                        if let rec go = function
                           | [] -> true
                           | p :: l' ->
                             let (k, x0) = p in
                             (match map_get r k with
                              | Some y -> (&&) (is_true (eq_ x0 y)) (go l')
                              | None -> false)
                           in go l
                        then VBool (Z.eqb (zlen l) (zlen r))
                        else VBool false
                      | _ -> VBool false)
                   | _ -> VBool false))
             | _ ->
               (match a with
                | VList l ->
                  (match b with
                   | VList r ->
                     if negb (Z.eqb (zlen l) (zlen r))
                     then VBool false
                     else let rec go l0 r0 =
                            match l0 with
                            | [] -> VBool true
                            | x :: l' ->
                              (match r0 with
                               | [] -> VBool true
                               | y :: r' ->
                                 (match eq_ x y with
                                  | VErr e -> VErr e
                                  | x0 ->
                                    if is_true x0
                                    then go l' r'
                                    else VBool false))
                          in go l r
                   | _ -> VBool false)
                | VMap l ->
                  (match b with
                   | VMap r ->
                     if let rec go = function
                        | [] -> true
                        | p :: l' ->
                          let (k, x) = p in
                          (match map_get r k with
                           | Some y -> (&&) (is_true (eq_ x y)) (go l')
                           | None -> false)
                        in go l
                     then VBool (Z.eqb (zlen l) (zlen r))
                     else VBool false
                   | _ -> VBool false)
                | _ -> VBool false))

(** val neq : value -> value -> value **)

let neq a b =
  error_prop_or a b (fun a0 b0 ->
    match eq_ a0 b0 with
    | VBool r -> VBool (negb r)
    | x -> x)

(** val ord : value -> value -> (comparison option, cel_error) sum **)

let ord a b =
  let (v, v0) = type_prop a b in
  (match v with
   | VInt x ->
     (match v0 with
      | VInt y -> Inl (Some (Z.compare x y))
      | VUInt _ -> Inl (Some Lt)
      | _ -> Inr EInvalidOp)
   | VUInt x ->
     (match v0 with
      | VInt _ -> Inl (Some Gt)
      | VUInt y -> Inl (Some (Z.compare x y))
      | _ -> Inr EInvalidOp)
   | VFloat x ->
     (match v0 with
      | VFloat y -> Inl (f64_cmp x y)
      | _ -> Inr EInvalidOp)
   | VBool x ->
     (match v0 with
      | VBool y -> Inl (Some (Z.compare (b2z x) (b2z y)))
      | _ -> Inr EInvalidOp)
   | VString x ->
     (match v0 with
      | VString y -> Inl (Some (bytes_cmp x y))
      | _ -> Inr EInvalidOp)
   | VBytes x ->
     (match v0 with
      | VBytes y -> Inl (Some (bytes_cmp x y))
      | _ -> Inr EInvalidOp)
   | VTime x ->
     (match v0 with
      | VTime y -> Inl (Some (Z.compare x y))
      | _ -> Inr EInvalidOp)
   | VDur x ->
     (match v0 with
      | VDur y -> Inl (Some (Z.compare x y))
      | _ -> Inr EInvalidOp)
   | _ -> Inr EInvalidOp)

(** val cmp_with : (comparison option -> bool) -> value -> value -> value **)

let cmp_with p a b =
  error_prop_or a b (fun a0 b0 ->
    match ord a0 b0 with
    | Inl c -> VBool (p c)
    | Inr e -> VErr e)

(** val lt : value -> value -> value **)

let lt =
  cmp_with (fun c ->
    match c with
    | Some c0 -> (match c0 with
                  | Lt -> true
                  | _ -> false)
    | None -> false)

(** val gt : value -> value -> value **)

let gt =
  cmp_with (fun c ->
    match c with
    | Some c0 -> (match c0 with
                  | Gt -> true
                  | _ -> false)
    | None -> false)

(** val le : value -> value -> value **)

let le =
  cmp_with (fun c ->
    match c with
    | Some c0 -> (match c0 with
                  | Gt -> false
                  | _ -> true)
    | None -> false)

(** val ge : value -> value -> value **)

let ge =
  cmp_with (fun c ->
    match c with
    | Some c0 -> (match c0 with
                  | Lt -> false
                  | _ -> true)
    | None -> false)

(** val in_ : value -> value -> value **)

let in_ a b =
  error_prop_or a b (fun lhs rhs ->
    match rhs with
    | VString s ->
      (match lhs with
       | VString n0 -> VBool (contains n0 s)
       | _ -> VErr EInvalidOp)
    | VList l -> VBool (existsb (fun v -> peq lhs v) l)
    | VMap m ->
      (match lhs with
       | VString k ->
         VBool (match map_get m k with
                | Some _ -> true
                | None -> false)
       | _ -> VErr EInvalidOp)
    | _ -> VErr EInvalidOp)

(** val index : value -> value -> value **)

let index obj idx =
  error_prop_or obj idx (fun obj0 idx0 ->
    match obj0 with
    | VList l ->
      (match idx0 with
       | VInt i ->
         let j = if Z.ltb i Z0 then Z.add (zlen l) i else i in
         if Z.ltb j Z0
         then VErr EValue
         else (match znth l j with
               | Some v -> v
               | None -> VErr EValue)
       | VUInt i -> (match znth l i with
                     | Some v -> v
                     | None -> VErr EValue)
       | _ -> VErr EValue)
    | VMap m ->
      (match idx0 with
       | VString k ->
         (match map_get m k with
          | Some v -> v
          | None -> VErr (EAttribute k))
       | _ -> VErr EValue)
    | _ -> VErr EValue)

(** val access : value -> bytes -> value **)

let access obj key =
  if is_err obj
  then obj
  else (match obj with
        | VMap m ->
          (match map_get m key with
           | Some v -> v
           | None -> VErr (EAttribute key))
        | _ -> VErr EInvalidOp)

type binop =
| OAdd
| OSub
| OMul
| ODiv
| OMod
| OLt
| OLe
| OEq
| ONe
| OGe
| OGt
| OIn
| OOr
| OAnd
| OIndex

type unop =
| UNot
| UNeg

(** val binop_eval : binop -> value -> value -> value **)

let binop_eval o a b =
  match o with
  | OAdd -> add0 a b
  | OSub -> sub0 a b
  | OMul -> mul0 a b
  | ODiv -> div0 a b
  | OMod -> rem0 a b
  | OLt -> lt a b
  | OLe -> le a b
  | OEq -> eq_ a b
  | ONe -> neq a b
  | OGe -> ge a b
  | OGt -> gt a b
  | OIn -> in_ a b
  | OOr -> or_ a b
  | OAnd -> and_ a b
  | OIndex -> index a b

(** val unop_eval : unop -> value -> value **)

let unop_eval o a =
  match o with
  | UNot -> not_ a
  | UNeg -> neg a
