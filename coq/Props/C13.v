(* Props/C13.v — literals denote exactly the value they spell; out-of-range ones are rejected. *)
From Coq Require Import ZArith List Bool Reals Floats.SpecFloat.
From Flocq Require Import Core.Zaux Core.Raux Core.Defs Core.Generic_fmt Core.FLT Core.Round_NE IEEE754.BinarySingleNaN.
From Rscel Require Import Base.Prims Base.F64 Base.Text Model.Value Model.Lexer Model.Ast Model.Parser.
From Rscel Require Import Proofs.Literals Proofs.FloatLit Proofs.StrLit Proofs.Conv Proofs.LexInt Proofs.LexStr Proofs.LitProgram Proofs.LexHex Proofs.LexFloat Proofs.LexFloatExp.
From Rscel Require Import Model.Compile Model.Interp.
Import ListNotations.
Open Scope Z_scope.

(** integers: the decimal spelling of n reads back as n; the token exists iff n fits 64 bits *)
Theorem C13_decimal_denotes : forall n, 0 <= n -> digits_value_base 10 (dec_of_nonneg n) = Some n.
Proof. exact decimal_denotes. Qed.
Print Assumptions C13_decimal_denotes.

Theorem C13_int_literal_denotes : forall n first ds tail s, 0 <= n ->
  dec_of_nonneg n = first :: ds -> sc_rest s = ds ++ tail -> tail_ends false tail ->
  lex_number [first] false s =
  if in_u64 n then LOk (TIntLit n) (advance s ds) else LErr (sc_loc (advance s ds)).
Proof. exact int_literal_denotes. Qed.
Print Assumptions C13_int_literal_denotes.

Theorem C13_uint_literal_denotes : forall n first ds u tail s, 0 <= n ->
  dec_of_nonneg n = first :: ds -> sc_rest s = ds ++ u :: tail -> (u = 117 \/ u = 85) ->
  lex_number [first] false s =
  if in_u64 n then LOk (TUIntLit n) (advance s (ds ++ [u])) else LErr (sc_loc (advance s (ds ++ [u]))).
Proof. exact uint_literal_denotes. Qed.
Print Assumptions C13_uint_literal_denotes.

(** hexadecimal, digits a-f in either case *)
Theorem C13_hex_literal_denotes : forall dch fuel n x tail s,
  good_alphabet 16 dch -> (0 < fuel)%nat -> 0 <= n < 16 ^ Z.of_nat fuel -> (x = 120 \/ x = 88) ->
  sc_rest s = x :: render 16 dch fuel n [] ++ tail -> tail_ends true tail ->
  exists s', sc_rest s' = tail /\
  lex_number [48] false s = if in_u64 n then LOk (TIntLit n) s' else LErr (sc_loc s').
Proof. exact hex_literal_denotes. Qed.
Print Assumptions C13_hex_literal_denotes.

Theorem C13_hex_alphabets : good_alphabet 16 hex_lower /\ good_alphabet 16 hex_upper /\ good_alphabet 10 dec_ch.
Proof. exact (conj hex_lower_good (conj hex_upper_good dec_ch_good)). Qed.
Print Assumptions C13_hex_alphabets.

(** an integer token above i64::MAX is a syntax error in the parser, not a wrapped value *)
Theorem C13_int_token_range : forall rec_expr rec_src t t' v l,
  tz_next t = TOk (Some (mkTok (TIntLit v) l)) t' ->
  p_primary rec_expr rec_src t = if v <=? i64_max then POk (PrLit l (LInt v)) t' else PErr (r_start l).
Proof.
  intros rec_expr rec_src t t' v l H. unfold p_primary, pbind, next. rewrite H.
  destruct (v <=? i64_max); reflexivity.
Qed.
Print Assumptions C13_int_token_range.

(** doubles: text -> (mantissa, exponent) -> correctly rounded binary64 *)
Theorem C13_float_text_plain : forall ip fp,
  Forall (fun c => is_digit c = true) ip -> Forall (fun c => is_digit c = true) fp -> (0 < length ip + length fp)%nat ->
  parse_float_text (ip ++ 46 :: fp) = Some (dec_to_f64 (dec_value (ip ++ fp) 0) (- Z.of_nat (length fp))).
Proof. exact float_text_plain. Qed.
Print Assumptions C13_float_text_plain.

Theorem C13_float_text_exp : forall ip fp ex sgn e,
  Forall (fun c => is_digit c = true) ip -> Forall (fun c => is_digit c = true) fp ->
  Forall (fun c => is_digit c = true) ex -> (0 < length ip + length fp)%nat -> (0 < length ex)%nat ->
  (e = 101 \/ e = 69) -> (sgn = [] \/ sgn = [43] \/ sgn = [45]) ->
  dec_value ex 0 <= Z.of_nat (length ip) + Z.of_nat (length fp) + 2000 ->
  parse_float_text (ip ++ 46 :: fp ++ e :: sgn ++ ex) =
  Some (dec_to_f64 (dec_value (ip ++ fp) 0)
          ((match sgn with [45] => - dec_value ex 0 | _ => dec_value ex 0 end) - Z.of_nat (length fp))).
Proof. exact float_text_exp. Qed.
Print Assumptions C13_float_text_exp.

Theorem C13_float_correctly_rounded : forall pm e,
  let x := dec_real (Zpos pm) e in
  let z := dec_to_f64 (Zpos pm) e in
  if Rlt_bool (Rabs (round radix2 (FLT_exp (3 - 1024 - 53) 53) ZnearestE x)) (bpow radix2 1024) then
    SF2R radix2 z = round radix2 (FLT_exp (3 - 1024 - 53) 53) ZnearestE x /\ is_finite_SF z = true
  else z = S754_infinity false.
Proof. exact dec_to_f64_correctly_rounded. Qed.
Print Assumptions C13_float_correctly_rounded.

(** strings: every character in any of its spellings, chosen independently *)
Theorem C13_string_denotes : forall q, q <> 92 -> forall items fuel s tail work,
  Forall (fun it => spells q (fst it) (snd it)) items ->
  sc_rest s = text_of items ++ q :: tail -> (length items < fuel)%nat ->
  lex_string fuel q false false s work [] =
  LOk (TStringLit (rev work ++ map fst items)) (advance s (text_of items ++ [q])).
Proof. exact lex_string_denotes. Qed.
Print Assumptions C13_string_denotes.

Theorem C13_raw_string_denotes : forall q cs fuel s tail work,
  Forall (fun c => c <> q) cs -> sc_rest s = cs ++ q :: tail -> (length cs < fuel)%nat ->
  lex_string fuel q true false s work [] = LOk (TStringLit (rev work ++ cs)) (advance s (cs ++ [q])).
Proof. exact lex_raw_string_denotes. Qed.
Print Assumptions C13_raw_string_denotes.

Theorem C13_bytes_denotes : forall q, q <> 92 -> forall items fuel s tail acc,
  Forall (fun it => bspells q (fst it) (snd it)) items ->
  sc_rest s = btext_of items ++ q :: tail -> (length items < fuel)%nat ->
  lex_bytes fuel q s acc = LOk (TByteStringLit (rev acc ++ bytes_of_items items)) (advance s (btext_of items ++ [q])).
Proof. exact lex_bytes_denotes. Qed.
Print Assumptions C13_bytes_denotes.

(** rejections *)
Theorem C13_bytes_octal_out_of_range : forall q a b c fuel s tail acc, q <> 92 ->
  4 <= a <= 7 -> 0 <= b <= 7 -> 0 <= c <= 7 ->
  sc_rest s = 92 :: (48 + a) :: (48 + b) :: (48 + c) :: tail ->
  lex_bytes (S fuel) q s acc = LErr (sc_loc (advance s [92; 48 + a; 48 + b; 48 + c])).
Proof. exact lex_bytes_octal_out_of_range. Qed.
Print Assumptions C13_bytes_octal_out_of_range.

Theorem C13_string_bad_code_point : forall q hs u fuel s tail work, q <> 92 ->
  (u = 117 /\ length hs = 4%nat \/ u = 85 /\ length hs = 8%nat) ->
  Forall (fun h => is_hex h = true) hs -> is_scalar (hex_value hs) = false ->
  sc_rest s = 92 :: u :: hs ++ tail ->
  lex_string (S fuel) q false false s work [] = LErr (sc_loc (advance s (92 :: u :: hs))).
Proof. exact lex_string_bad_code_point. Qed.
Print Assumptions C13_string_bad_code_point.

(** non-vacuity: concrete literals through the whole tokenizer *)
Example C13_examples :
  option_map (map t_tok) (match lex [48; 120; 102; 70] with LOk l _ => Some l | _ => None end) = Some [TIntLit 255] /\
  option_map (map t_tok) (match lex [39; 92; 117; 48; 48; 101; 57; 92; 49; 48; 49; 39] with LOk l _ => Some l | _ => None end)
    = Some [TStringLit [233; 65]] /\
  (match lex [98; 39; 92; 52; 48; 48; 39] with LErr _ => true | _ => false end) = true /\
  option_map (map t_tok) (match lex [46; 49] with LOk l _ => Some l | _ => None end)
    = Some [TFloatLit (S754_finite false 7205759403792794 (-56))].
Proof. vm_compute. repeat split. Qed.

(** from source text to token list: the decimal spelling of n alone in a source lexes to the one
    integer token n, spanning the whole text *)
Theorem C13_lex_decimal_source : forall n, 0 <= n -> in_u64 n = true ->
  exists s', lex (dec_of_nonneg n) =
    LOk [mkTok (TIntLit n) (mkRange (mkLoc 0 0) (mkLoc 0 (Z.of_nat (length (dec_of_nonneg n)))))] s'.
Proof. exact lex_decimal_source. Qed.
Print Assumptions C13_lex_decimal_source.

(** * From source text to value (tokenizer, parser, compiler and VM composed)

    A source consisting of one literal compiles, for any fuel >= 1, to the
    one-instruction program that pushes the literal's value, and that program
    evaluates to the value under any environment. *)

Theorem C13_single_literal_program : forall f src tk rng send l v,
  collect_token (mkScan src 0 0) = LOk (Some (mkTok tk rng)) send -> sc_rest send = [] ->
  lit_of_token tk = Some l -> lit_val l = Some v ->
  compile_source (S f) src = COk (mkProgram [IPush v] [] (lit_tree rng l)) 2%nat.
Proof. exact compile_single_literal. Qed.
Print Assumptions C13_single_literal_program.

Theorem C13_decimal_source_evaluates : forall n f g E d lg, 0 <= n <= i64_max -> (d < 32)%nat ->
  exists p k, compile_source (S f) (dec_of_nonneg n) = COk p k /\
              run (S (S (S g))) E (pr_code p) true d lg = (ROk (VInt n), lg).
Proof. exact decimal_source_evaluates. Qed.
Print Assumptions C13_decimal_source_evaluates.

Theorem C13_uint_source_evaluates : forall n u f g E d lg, 0 <= n <= u64_max -> (u = 117 \/ u = 85) -> (d < 32)%nat ->
  exists p k, compile_source (S f) (dec_of_nonneg n ++ [u]) = COk p k /\
              run (S (S (S g))) E (pr_code p) true d lg = (ROk (VUInt n), lg).
Proof. exact uint_source_evaluates. Qed.
Print Assumptions C13_uint_source_evaluates.

Theorem C13_string_source_evaluates : forall q items f g E d lg, (q = 39 \/ q = 34) ->
  Forall (fun it => spells q (fst it) (snd it)) items -> (d < 32)%nat ->
  exists p k, compile_source (S f) (q :: text_of items ++ [q]) = COk p k /\
              run (S (S (S g))) E (pr_code p) true d lg = (ROk (VString (utf8_encode (map fst items))), lg).
Proof. exact string_source_evaluates. Qed.
Print Assumptions C13_string_source_evaluates.

Theorem C13_raw_string_source_evaluates : forall q cs f g E d lg, (q = 39 \/ q = 34) -> Forall (fun c => c <> q) cs -> (d < 32)%nat ->
  exists p k, compile_source (S f) (114 :: q :: cs ++ [q]) = COk p k /\
              run (S (S (S g))) E (pr_code p) true d lg = (ROk (VString (utf8_encode cs)), lg).
Proof. exact raw_string_source_evaluates. Qed.
Print Assumptions C13_raw_string_source_evaluates.

Theorem C13_bytes_source_evaluates : forall q items f g E d lg, (q = 39 \/ q = 34) ->
  Forall (fun it => bspells q (fst it) (snd it)) items -> (d < 32)%nat ->
  exists p k, compile_source (S f) (98 :: q :: btext_of items ++ [q]) = COk p k /\
              run (S (S (S g))) E (pr_code p) true d lg = (ROk (VBytes (bytes_of_items items)), lg).
Proof. exact bytes_source_evaluates. Qed.
Print Assumptions C13_bytes_source_evaluates.

Theorem C13_hex_source_evaluates : forall dch fuel n x f g E d lg,
  good_alphabet 16 dch -> (0 < fuel)%nat -> 0 <= n < 16 ^ Z.of_nat fuel -> (x = 120 \/ x = 88) -> n <= i64_max -> (d < 32)%nat ->
  exists p k, compile_source (S f) (48 :: x :: render 16 dch fuel n []) = COk p k /\
              run (S (S (S g))) E (pr_code p) true d lg = (ROk (VInt n), lg).
Proof. exact hex_source_evaluates. Qed.
Print Assumptions C13_hex_source_evaluates.

(** a double literal I.F evaluates to dec_to_f64 of its digits, i.e. (C13_float_correctly_rounded) to the
    nearest binary64 value, ties to even, of the decimal number written *)
Theorem C13_float_source_evaluates : forall d0 ip fp f g E d lg,
  Forall (fun c => is_digit c = true) (d0 :: ip) -> Forall (fun c => is_digit c = true) fp -> (d < 32)%nat ->
  exists p k, compile_source (S f) (d0 :: ip ++ 46 :: fp) = COk p k /\
              run (S (S (S g))) E (pr_code p) true d lg =
                (ROk (VFloat (dec_to_f64 (dec_value ((d0 :: ip) ++ fp) 0) (- Z.of_nat (length fp)))), lg).
Proof. exact float_source_evaluates. Qed.
Print Assumptions C13_float_source_evaluates.

(** ... and with an exponent,  I.F e [+|-] X  (the bound on X is the model's cap on absurd exponents) *)
Theorem C13_float_exp_source_evaluates : forall d0 ip fp e sg ex f g E d lg,
  Forall (fun c => is_digit c = true) (d0 :: ip) -> Forall (fun c => is_digit c = true) fp ->
  Forall (fun c => is_digit c = true) ex -> ex <> [] ->
  (e = 101 \/ e = 69) -> (sg = [] \/ sg = [43] \/ sg = [45]) ->
  dec_value ex 0 <= Z.of_nat (length (d0 :: ip)) + Z.of_nat (length fp) + 2000 -> (d < 32)%nat ->
  exists p k, compile_source (S f) (d0 :: ip ++ 46 :: fp ++ e :: sg ++ ex) = COk p k /\
              run (S (S (S g))) E (pr_code p) true d lg =
                (ROk (VFloat (dec_to_f64 (dec_value ((d0 :: ip) ++ fp) 0)
                               ((match sg with [45] => - dec_value ex 0 | _ => dec_value ex 0 end) - Z.of_nat (length fp)))), lg).
Proof. exact float_exp_source_evaluates. Qed.
Print Assumptions C13_float_exp_source_evaluates.
