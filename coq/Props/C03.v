(* Props/C03.v — Numeric operators are exact or fail; no wrap-around.
   Only statements, each closed by [exact <lemma>], and Print Assumptions. *)
From Coq Require Import ZArith List Bool.
From Flocq Require Import IEEE754.BinarySingleNaN.
From Rscel Require Import Base.Prims Base.F64 Model.Value Model.Ops Spec.Wf Spec.Arith.
From Rscel Require Import Proofs.F64Facts Proofs.OpsArith.
Open Scope Z_scope.

(** For every operator and every pair of numeric operands (int, uint, double,
    bool in any combination): the result is the exact mathematical result of
    the widened pair when it is representable in the result type, and an error
    otherwise (overflow, zero divisor, [%] on doubles, bool with bool, int
    with a uint above i64::MAX). *)
Theorem C03_arith_exact_or_error :
  forall o a b na nb,
    wf a = true -> wf b = true ->
    num_of a = Some na -> num_of b = Some nb ->
    match arith_spec o (widen na nb) with
    | Some v => model_op o a b = v
    | None => is_err (model_op o a b) = true
    end.
Proof. exact arith_exact_or_error. Qed.
Print Assumptions C03_arith_exact_or_error.

Theorem C03_widen_int_exact :
  forall a b,
    match widen a b with
    | WInt x y | WUInt x y => num_val a = Some x /\ num_val b = Some y
    | WBool x y => a = NBool x /\ b = NBool y
    | WDouble x y => x = to_double a /\ y = to_double b
    | WNone => True
    end.
Proof. exact widen_int_exact. Qed.
Print Assumptions C03_widen_int_exact.

Theorem C03_widen_none_iff :
  forall a b, widen a b = WNone <->
    (exists x y, a = NInt x /\ b = NUInt y /\ i64_max < y) \/
    (exists x y, a = NUInt x /\ b = NInt y /\ i64_max < x).
Proof. exact widen_none_iff. Qed.
Print Assumptions C03_widen_none_iff.

Theorem C03_arith_other_pairs_error :
  forall o a b,
    (num_of a = None \/ num_of b = None) ->
    concat_or_time o a b = false ->
    is_err (model_op o a b) = true.
Proof. exact arith_other_pairs_error. Qed.
Print Assumptions C03_arith_other_pairs_error.

Theorem C03_arith_error_leftmost :
  forall o a b,
    (is_err a = true -> model_op o a b = a) /\
    (is_err a = false -> is_err b = true -> model_op o a b = b).
Proof. exact arith_error_leftmost. Qed.
Print Assumptions C03_arith_error_leftmost.

Theorem C03_neg_exact_or_error :
  forall a, wf a = true ->
    match a with
    | VInt x => if in_i64 (- x) then neg a = VInt (- x) else is_err (neg a) = true
    | VFloat x => neg a = VFloat (f64_neg x)
    | VErr _ => neg a = a
    | _ => is_err (neg a) = true
    end.
Proof. exact neg_exact_or_error. Qed.
Print Assumptions C03_neg_exact_or_error.

(** No result leaves its type's range. *)
Theorem C03_arith_preserves_wf :
  forall o a b, wf a = true -> wf b = true -> wf (model_op o a b) = true.
Proof. exact arith_preserves_wf. Qed.
Print Assumptions C03_arith_preserves_wf.

(** Double arithmetic is Flocq's IEEE-754 binary64 operation, round to
    nearest even (Bplus_correct etc. give the real-number meaning). *)
Theorem C03_double_ieee :
  forall x y : binary_float 53 1024,
    f64_add (B2SF x) (B2SF y) = B2SF (Bplus mode_NE x y) /\
    f64_sub (B2SF x) (B2SF y) = B2SF (Bminus mode_NE x y) /\
    f64_mul (B2SF x) (B2SF y) = B2SF (Bmult mode_NE x y) /\
    f64_div (B2SF x) (B2SF y) = B2SF (Bdiv mode_NE x y) /\
    f64_neg (B2SF x) = B2SF (Bopp x).
Proof.
  intros x y. repeat split.
  - exact (f64_add_ieee x y). - exact (f64_sub_ieee x y).
  - exact (f64_mul_ieee x y). - exact (f64_div_ieee x y). - exact (f64_neg_ieee x).
Qed.
Print Assumptions C03_double_ieee.

(** An integer meets a double as the nearest double (round to nearest even). *)
Theorem C03_int_to_double_nearest :
  forall z, f64_of_Z z = B2SF (binary_normalize 53 1024 Hprec64 Hmax64 mode_NE z 0 false).
Proof. exact f64_of_Z_ieee. Qed.
Print Assumptions C03_int_to_double_nearest.

(** Non-vacuity: concrete operands meeting the hypotheses, on both sides of
    the representability boundary. *)
Example C03_witness_overflow :
  wf (VInt i64_max) = true /\ model_op AAdd (VInt i64_max) (VInt 1) = VErr EValue /\
  model_op AAdd (VInt 1) (VUInt u64_max) = VErr EInvalidOp /\
  model_op ARem (VInt i64_min) (VInt (-1)) = VInt 0 /\
  model_op ADiv (VInt i64_min) (VInt (-1)) = VErr EValue /\
  model_op AAdd (VInt 2) (VUInt 3) = VInt 5.
Proof. vm_compute. repeat split. Qed.
