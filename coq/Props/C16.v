(* Props/C16.v — time arithmetic, calendar accessors, zones. *)
From Coq Require Import ZArith List Bool.
From Rscel Require Import Base.Prims Model.Value Model.Ops Model.Time.
From Rscel Require Import Proofs.Time.
Import ListNotations.
Open Scope Z_scope.

(** the civil date of every day counts back to that day (no bound on the day) *)
Theorem C16_civil_roundtrip : forall z, let '(y, m, d) := civil_from_days z in days_from_civil y m d = z.
Proof. exact civil_roundtrip. Qed.
Print Assumptions C16_civil_roundtrip.

Theorem C16_civil_fields_in_range : forall z,
  let '(y, m, d) := civil_from_days z in 1 <= m <= 12 /\ 1 <= d <= days_in_month y m.
Proof. exact civil_fields_in_range. Qed.
Print Assumptions C16_civil_fields_in_range.

Theorem C16_time_of_day_ranges : forall ns,
  0 <= t_hour ns < 24 /\ 0 <= t_minute ns < 60 /\ 0 <= t_second ns < 60 /\ 0 <= t_millis ns < 1000 /\
  0 <= t_weekday_from_sunday ns < 7.
Proof. exact time_of_day_ranges. Qed.
Print Assumptions C16_time_of_day_ranges.

Theorem C16_instant_from_fields : forall ns,
  ns = ((days_of ns * 86400 + t_hour ns * 3600 + t_minute ns * 60 + t_second ns) * ns_per_s) + ns mod ns_per_s.
Proof. exact instant_from_fields. Qed.
Print Assumptions C16_instant_from_fields.

Theorem C16_weekday_periodic : forall ns, t_weekday_from_sunday (ns + 7 * 86400 * ns_per_s) = t_weekday_from_sunday ns.
Proof. exact weekday_periodic. Qed.
Print Assumptions C16_weekday_periodic.

Theorem C16_duration_parts : forall ns,
  ns = d_seconds ns * ns_per_s + Z.rem ns ns_per_s /\ Z.abs (d_millis ns) < 1000 /\
  d_minutes ns = Z.quot (d_seconds ns) 60 /\ d_hours ns = Z.quot (d_seconds ns) 3600.
Proof. exact duration_parts. Qed.
Print Assumptions C16_duration_parts.

Theorem C16_time_plus_minus : forall t d, in_time t = true -> in_time (t + d) = true ->
  sub (add (VTime t) (VDur d)) (VDur d) = VTime t.
Proof. exact time_plus_minus. Qed.
Print Assumptions C16_time_plus_minus.

Theorem C16_time_minus_plus : forall t1 t2, in_time t1 = true -> add (sub (VTime t1) (VTime t2)) (VTime t2) = VTime t1.
Proof. exact time_minus_plus. Qed.
Print Assumptions C16_time_minus_plus.

Theorem C16_dur_plus_minus : forall d1 d2, in_dur d1 = true -> in_dur (d1 + d2) = true ->
  sub (add (VDur d1) (VDur d2)) (VDur d2) = VDur d1.
Proof. exact dur_plus_minus. Qed.
Print Assumptions C16_dur_plus_minus.

Theorem C16_time_out_of_range_is_error : forall t d, in_time (t + d) = false -> add (VTime t) (VDur d) = VErr EValue.
Proof. exact time_out_of_range_is_error. Qed.
Print Assumptions C16_time_out_of_range_is_error.

Theorem C16_time_order_is_chronological : forall x y, ord (VTime x) (VTime y) = inl (Some (x ?= y)).
Proof. exact time_order_is_chronological. Qed.
Print Assumptions C16_time_order_is_chronological.

Theorem C16_zoneless_is_utc : forall a ns, time_field a true (ns + 0 * 3600 * 1000000000) =
  time_field a false ns + (match a with TADayOfWeek => 1 | _ => 0 end).
Proof. exact zoneless_is_utc. Qed.
Print Assumptions C16_zoneless_is_utc.

Theorem C16_utc_aliases_have_offset_zero : Forall (fun z => fixed_offset_hours z = Some 0) utc_aliases.
Proof. exact utc_aliases_have_offset_zero. Qed.
Print Assumptions C16_utc_aliases_have_offset_zero.
